import Proofs.Lemmas.Closure2Opt
import Proofs.Lemmas.Closure2Pike
import Proofs.Lemmas.Closure2Anchored
import Proofs.EndToEnd
/-!
# Closure 2 — the gaps `Proofs/Closure.lean` and `Proofs/EndToEnd.lean` left open

## A. C16: `group_names` is indexed by group id, for every compiled pattern (no hypothesis)

`Closure.names_by_id` assumed `groupIdsDense r.node` and `numGroups < 2^32` of the emitted tree.
Both are now consequences of `parse … = .ok re` and `compile … = .ok prog`:

* `Closure2.parse_groupIds` (`Proofs/Lemmas/Closure2Groups.lean`): a third induction over the
  recursive descent shows that the ids of the `CaptureGroup` nodes, in pre-order, of the tree the
  descent builds are exactly `0, 1, …, n-1`; `reverse_cats` permutes them.
* `Closure2.optimize_groupList` (`Proofs/Lemmas/Closure2Opt.lean`): every optimizer pass leaves the
  list of capture groups `(id, name)` in emission order unchanged.
* `compiled_names_by_id` below: `prog.groups` is the number of capture groups of the parsed tree, the
  group ids are a permutation of `0 .. prog.groups - 1`, `prog.names` is `[]` if no group is named and
  otherwise has exactly one entry per group, entry `id` being the name of THE group with id `id`.

NOT proved (see the end of this file): that `numGroups re.node` equals the number of capturing
parentheses the pre-scan `parse_capture_groups` counted (`group_count_max`).

## B. C09: the running search `findIter`, without `simpleProg`, for both executors, anchored or not

* `Closure2.findIter_bt_eq_collect_partial` (`Proofs/Lemmas/Closure2Find.lean`): `findIter .bt` = the drained pure
  iterator over `searchEnvBt`, for programs WITH `Loop1CharBody` (C02Full's stuttering simulation
  instead of C02's lock-step one), `StartAnchored` or not.
* `Closure2.findIter_pk_eq_collect_partial` (`Proofs/Lemmas/Closure2Pike.lean`): `findIter .pk` = the drained pure
  iterator over `searchEnvPk`: the stale `entry` of the initial state that `PikeVMExecutor::next_match`
  reuses is dead (`attemptAt_entry_sim`), the tick counters are only an offset
  (`Closure2PkShift.lean`).
* `Closure2.iter_is_unfold_anchored_on` (`Proofs/Lemmas/Closure2Anchored.lean`): the `StartAnchored`
  iterators (one attempt, no scan) drain to `unfoldIter` as well, because a start-anchored tree only
  matches at offset 0.

Price: "reused matcher / stale entry = fresh matcher" is obtained through a PikeVM attempt that comes to
an end, so `FindHyp2` contains `Pk.lookLoopProg prog` (C05Full) and the pure iterator's attempts get a
budget `F ≥ max fuel (Pk.lookBound prog |haystack|)`.  The running search itself may have ANY budget
`fuel`: an attempt of it that comes to an end has, by fuel monotonicity, the outcome it has with budget
`F`.  `findIter_bt_valid_partial` / `findIter_pk_valid_partial` restate `Closure.findIter_valid` (no
budget hypothesis at all).

## C. The search-level end-to-end corollaries

Hypotheses: those of `EndToEnd.compile_correct_bt_partial` WITHOUT the budget hypothesis (`maxOK re.node`,
`ProgOK prog`, UTF-8 text with the program's `unicode` flag); no `simpleProg`, no `isAnchored = false`,
and — unlike `EndToEnd.findIter_spec_partial` — for EVERY tick budget for which the search returns:

* `findIter_bt_spec_partial` — `findIter .bt prog inp start fuel = .ok ms → ms = unfoldIter (specEnv …) start`;
* `findIter_pk_spec_partial` — the same for `findIter .pk`;
* `findIter_bt_pk_agree_partial` — hence both executors' running searches return the same list;
* `findIter_groups_partial` — every yielded match has `numGroups re.node` capture slots, carries
  `prog.names` and satisfies C16's `NamesOK` (this one needs `ProgOK` and the budget only, not `maxOK`).
(`_partial` because of `maxOK` / `ProgOK`, as in `Proofs/EndToEnd.lean`.)

## Hypotheses kept

* part A: none (`∀ c ∈ pat, c ≤ 0x10FFFF`, `parse … = .ok re`, `compile … = .ok prog`);
* part B (`FindHyp2`): `C06.wfProgFull prog`, `IR.LeadsSP prog.startPred`, `Sim.loopsStructured`,
  `Sim.looksStructured`, `Pk.lookLoopProg prog` (all decidable, checked per emitted program by the
  harness; `LeadsSP` is a theorem for compiled programs, `leads_emitted`), `Utf8Text inp cs`, a start
  offset the API accepts;
* part C: `maxOK re.node`, `ProgOK prog`, `Utf8Text`, `prog.flags.unicode = inp.unicode`.
What is missing: see the last section of this file.
-/
namespace Regress.Closure2

open Regress Regress.IR Regress.VM Regress.Parse Regress.C07 Regress.E2E Regress.Closure Regress.EndToEnd

/- ASCII pattern literal (as in `Proofs/C07.lean`). -/
open Lean in
local macro "pat!" s:str : term => do
  let cs := s.getString.toList.map (fun c => Syntax.mkNumLit (toString c.toNat))
  `(([$(cs.toArray),*] : List Nat))

/-! ## A. Capture groups and their names -/

/-- The tree `compile` emits has the capture groups of the parsed tree, in the same order. -/
theorem compiled_groupList {pat : List Nat} {fl : IR.Flags} {re : Regex} {prog : Prog} {ofuel : Nat}
    (hb : ∀ c ∈ pat, c ≤ 0x10FFFF) (hp : parse pat fl = .ok re) (hc : compile ofuel pat fl = .ok prog) :
    ∃ re', VM.emit re' = .ok prog ∧ groupList re'.node = groupList re.node ∧ WF re'.node := by
  have ho := parse_output hb hp
  have hin := POut_optIn ho
  unfold compile at hc
  rw [hp] at hc
  simp only at hc
  cases hno : fl.noOpt with
  | true =>
    simp only [hno, Bool.not_true, Bool.false_eq_true, if_false] at hc
    split at hc
    · cases hc
    · rename_i p he
      cases hc
      exact ⟨re, he, rfl, hin.1⟩
  | false =>
    simp only [hno, Bool.not_false, if_true] at hc
    split at hc
    · cases hc
    · rename_i re' hopt
      split at hc
      · cases hc
      · rename_i p he
        cases hc
        exact ⟨re', he, optimize_groupList hin hopt, (optimize_out hin (POut_sets ho) hopt).1.1.1⟩

/-- **`names_by_id`, unconditionally** (C16).  For every pattern of code points `≤ 0x10FFFF`, all flags
(with or without `no_opt`) and any optimizer fuel for which the model of `optimize` returns:
* `prog.groups` is the number of `CaptureGroup` nodes of the parsed tree;
* their ids are a permutation of `0 .. prog.groups - 1` (so "the group with id `i`" is well defined);
* `prog.names` is `[]` or has exactly `prog.groups` entries; it is `[]` iff no group is named;
* otherwise `prog.names[id]` is the name of the group with id `id` (`[]` for an unnamed group). -/
theorem compiled_names_by_id {pat : List Nat} {fl : IR.Flags} {re : Regex} {prog : Prog} {ofuel : Nat}
    (hb : ∀ c ∈ pat, c ≤ 0x10FFFF) (hp : parse pat fl = .ok re) (hc : compile ofuel pat fl = .ok prog) :
    prog.groups = numGroups re.node ∧
    (groupIds re.node).Perm (List.range prog.groups) ∧
    (prog.names = [] ∨ prog.names.length = prog.groups) ∧
    ((∀ g ∈ groupList re.node, g.2.getD [] = []) → prog.names = []) ∧
    ((∃ g ∈ groupList re.node, g.2.getD [] ≠ []) →
      prog.names.length = prog.groups ∧
      ∀ id nm, (id, nm) ∈ groupList re.node → prog.names[id]? = some (nm.getD [])) := by
  obtain ⟨re', he, hgl, _⟩ := compiled_groupList hb hp hc
  have hd : groupIdsDense re'.node = true := by
    have := parse_groupIdsDense hp
    unfold groupIdsDense groupIds at this ⊢
    rw [hgl]; exact this
  have hlen : (groupList re'.node).length = numGroups re.node := by rw [hgl, groupList_length]
  have hn : (groupList re'.node).length < 4294967296 := by
    have := (parse_side hb hp).2.2; omega
  have h := names_by_id re' prog he hd hn
  rw [hgl] at h
  have hg : prog.groups = numGroups re.node := by rw [h.1, groupList_length]
  exact ⟨hg, by rw [hg]; exact parse_groupIds hp, h.2.1, h.2.2.1, h.2.2.2⟩

theorem eq_of_nodup_map {α β : Type} (f : α → β) : ∀ (l : List α), (l.map f).Nodup →
    ∀ a b, a ∈ l → b ∈ l → f a = f b → a = b := by
  intro l
  induction l with
  | nil => intro _ a b ha; cases ha
  | cons x t ih =>
    intro hnd a b ha hb hab
    simp only [List.map_cons, List.nodup_cons, List.mem_map, not_exists, not_and] at hnd
    simp only [List.mem_cons] at ha hb
    rcases ha with rfl | ha <;> rcases hb with rfl | hb
    · rfl
    · exact absurd hab.symm (hnd.1 b hb)
    · exact absurd hab (hnd.1 a ha)
    · exact ih hnd.2 a b ha hb hab

/-- Every group id below `prog.groups` belongs to exactly one capture group of the parsed tree. -/
theorem compiled_group_unique {pat : List Nat} {fl : IR.Flags} {re : Regex} {prog : Prog} {ofuel : Nat}
    (hb : ∀ c ∈ pat, c ≤ 0x10FFFF) (hp : parse pat fl = .ok re) (hc : compile ofuel pat fl = .ok prog) :
    (∀ id, id < prog.groups → ∃ nm, (id, nm) ∈ groupList re.node) ∧
    (∀ id nm nm', (id, nm) ∈ groupList re.node → (id, nm') ∈ groupList re.node → nm = nm') ∧
    (∀ g ∈ groupList re.node, g.1 < prog.groups) := by
  have hperm := (compiled_names_by_id hb hp hc).2.1
  have hnd : ((groupList re.node).map (·.1)).Nodup := hperm.nodup_iff.mpr List.nodup_range
  refine ⟨?_, ?_, ?_⟩
  · intro id hid
    have : id ∈ groupIds re.node := hperm.mem_iff.mpr (by simpa using hid)
    simp only [groupIds, List.mem_map] at this
    obtain ⟨g, hg, rfl⟩ := this
    exact ⟨g.2, hg⟩
  · intro id nm nm' h1 h2
    have := eq_of_nodup_map (·.1) _ hnd _ _ h1 h2 rfl
    exact (Prod.mk.inj this).2
  · intro g hg
    have : g.1 ∈ groupIds re.node := List.mem_map_of_mem hg
    simpa using hperm.mem_iff.mp this

/-! ### Non-vacuity: a look-behind containing (named) groups -/

/-- `/(?<=(?<a>x)(y))(?<b>z)|(w)/`: the look-behind's `Cat` is reversed by `reverse_cats`, so the
group ids occur in emission order as `1, 0, 2, 3`. -/
def exPat : List Nat := pat! "(?<=(?<a>x)(y))(?<b>z)|(w)"

theorem exBnd : ∀ c ∈ exPat, c ≤ 0x10FFFF := by decide

/-- The ids of the parsed tree in emission order (not sorted), their names, and the emitted
`group_names`: by id. -/
theorem ex_names :
    (match parse exPat {}, compile 100 exPat {} with
     | .ok re, .ok prog =>
       some (groupList re.node, prog.groups, prog.names)
     | _, _ => none) =
    some ([(1, none), (0, some [0x61]), (2, some [0x62]), (3, none)], 4, [[0x61], [], [0x62], []]) := by
  decide +kernel

/-- `compiled_names_by_id` instantiated on it. -/
example (re : Regex) (prog : Prog) (hp : parse exPat {} = .ok re) (hc : compile 100 exPat {} = .ok prog) :
    prog.groups = numGroups re.node ∧ (groupIds re.node).Perm (List.range prog.groups) :=
  ⟨(compiled_names_by_id exBnd hp hc).1, (compiled_names_by_id exBnd hp hc).2.1⟩

/-! ## B. `findIter_valid` without `simpleProg`, for both executors -/

section Valid
open Regress.Api Regress.C09 Regress.VM.Safety Regress.C06

/-- The conclusions of `Closure.findIter_valid`, for the drained pure iterator over any modelled
executor on UTF-8 input. -/
theorem collectK_valid {prog : Prog} {inp : Input} {env : SearchEnv} (M : ModelEnv prog inp env (vb inp))
    (k : Kind) {start : Nat} (hs : VUtf8 inp start ∨ inp.len < start) :
    Consec Succeeds (collectK env k start) ∧
    (collectK env k start).Pairwise (fun a b => a.range.2 ≤ b.range.1 ∧ a.range.1 < b.range.1) ∧
    (start ≤ inp.len → (collectK env k start).length ≤ inp.len - start + 1) ∧
    C17.Sorted inp.len start (collectK env k start) ∧
    ∀ m ∈ collectK env k start, start ≤ m.range.1 ∧ m.range.1 ≤ m.range.2 ∧ m.range.2 ≤ inp.len ∧
      VUtf8 inp m.range.1 ∧ VUtf8 inp m.range.2 ∧ m.captures.length = prog.groups ∧
      (∀ a b, some (a, b) ∈ m.captures → a ≤ b ∧ b ≤ inp.len ∧ VUtf8 inp a ∧ VUtf8 inp b) ∧
      m.names = prog.names ∧ m.NamesOK := by
  have hs' : StartOK (vb inp) env.len start := by
    rw [M.len]; exact hs.imp (fun h => vb_iff.mpr h) (fun h => h)
  refine ⟨iter_increasing_vm M _ hs', iter_disjoint_vm M _ hs', iter_count_le_vm M _ hs',
    iter_sorted_vm M _ hs', ?_⟩
  intro m hm
  have := reported_ranges_valid_vm M _ hs' m hm
  exact ⟨this.1, this.2.1, this.2.2.1, vb_iff.mp this.2.2.2.1, vb_iff.mp this.2.2.2.2.1,
    this.2.2.2.2.2.1,
    fun a b hab => ⟨(this.2.2.2.2.2.2.1 a b hab).1, (this.2.2.2.2.2.2.1 a b hab).2.1,
      vb_iff.mp (this.2.2.2.2.2.2.1 a b hab).2.2.1, vb_iff.mp (this.2.2.2.2.2.2.1 a b hab).2.2.2⟩,
    this.2.2.2.2.2.2.2.2.1, this.2.2.2.2.2.2.2.2.2⟩

/-- **`findIter_valid` for the backtracker, programs with `Loop1CharBody` included, ANY tick budget.**
(`_partial`: `FindHyp2` contains `Pk.lookLoopProg`, which `Closure.FindHyp` does not.) -/
theorem findIter_bt_valid_partial {prog : Prog} {inp : Input} {cs : List Nat} (H : FindHyp2 prog inp cs)
    (fuel : Nat) {start : Nat}
    (hs : VUtf8 inp start ∨ inp.len < start) {ms : List MatchR}
    (h : findIter .bt prog inp start fuel = .ok ms) :
    Consec Succeeds ms ∧
    ms.Pairwise (fun a b => a.range.2 ≤ b.range.1 ∧ a.range.1 < b.range.1) ∧
    (start ≤ inp.len → ms.length ≤ inp.len - start + 1) ∧
    C17.Sorted inp.len start ms ∧
    ∀ m ∈ ms, start ≤ m.range.1 ∧ m.range.1 ≤ m.range.2 ∧ m.range.2 ≤ inp.len ∧
      VUtf8 inp m.range.1 ∧ VUtf8 inp m.range.2 ∧ m.captures.length = prog.groups ∧
      (∀ a b, some (a, b) ∈ m.captures → a ≤ b ∧ b ≤ inp.len ∧ VUtf8 inp a ∧ VUtf8 inp b) ∧
      m.names = prog.names ∧ m.NamesOK := by
  rw [findIter_bt_eq_collect_partial H (Nat.le_max_left fuel (Pk.lookBound prog inp.len)) (Nat.le_max_right _ _) hs h]
  exact collectK_valid (modelEnv_bt H.wf H.leads H.text _) _ hs

/-- **`findIter_valid` for the PikeVM**, any tick budget. -/
theorem findIter_pk_valid_partial {prog : Prog} {inp : Input} {cs : List Nat} (H : FindHyp2 prog inp cs)
    (fuel : Nat) {start : Nat}
    (hs : VUtf8 inp start ∨ inp.len < start) {ms : List MatchR}
    (h : findIter .pk prog inp start fuel = .ok ms) :
    Consec Succeeds ms ∧
    ms.Pairwise (fun a b => a.range.2 ≤ b.range.1 ∧ a.range.1 < b.range.1) ∧
    (start ≤ inp.len → ms.length ≤ inp.len - start + 1) ∧
    C17.Sorted inp.len start ms ∧
    ∀ m ∈ ms, start ≤ m.range.1 ∧ m.range.1 ≤ m.range.2 ∧ m.range.2 ≤ inp.len ∧
      VUtf8 inp m.range.1 ∧ VUtf8 inp m.range.2 ∧ m.captures.length = prog.groups ∧
      (∀ a b, some (a, b) ∈ m.captures → a ≤ b ∧ b ≤ inp.len ∧ VUtf8 inp a ∧ VUtf8 inp b) ∧
      m.names = prog.names ∧ m.NamesOK := by
  rw [findIter_pk_eq_collect_partial H (Nat.le_max_left fuel (Pk.lookBound prog inp.len)) (Nat.le_max_right _ _) hs h]
  exact collectK_valid (modelEnv_pk H.wf H.text _) _ hs

end Valid

/-! ## C. End to end -/

section Search
open Regress.Api Regress.C09 Regress.VM.Safety

variable {pat : List Nat} {fl : IR.Flags} {re : Regex} {prog : Prog} {ofuel : Nat}
  {inp : Input} {cs : List Nat}

theorem isAnchored_startPred (ha : isAnchored prog = true) : prog.startPred = .anchored := by
  unfold isAnchored at ha
  split at ha
  · assumption
  · cases ha

/-- The start predicate of a compiled program only mentions UTF-8 sequence-start bytes
(`EndToEnd.leads_emitted_partial` without `maxOK`). -/
theorem leads_emitted (hb : ∀ c ∈ pat, c ≤ 0x10FFFF) (hp : parse pat fl = .ok re)
    (hc : compile ofuel pat fl = .ok prog) : IR.LeadsSP prog.startPred := by
  obtain ⟨re', he, _, hwf⟩ := compiled_groupList hb hp hc
  exact C04Sem.start_pred_lead_bytes re' hwf (emit_startPred he)

/-- `ProgOK prog` (the structural hypotheses of `compile_correct_bt_partial`) gives `FindHyp2`. -/
theorem findHyp2_of_progOK (hb : ∀ c ∈ pat, c ≤ 0x10FFFF) (hp : parse pat fl = .ok re)
    (hc : compile ofuel pat fl = .ok prog) (hok : ProgOK prog = true)
    (ht : IR.Utf8Text inp cs) : FindHyp2 prog inp cs := by
  have hok' := hok
  simp only [ProgOK, ProgPkOK, Bool.and_eq_true] at hok'
  exact ⟨hok'.1.1.1, leads_emitted hb hp hc, hok'.1.2, hok'.2, hok'.1.1.2,
    ⟨ht.kind, ht.bytes, ht.scalar⟩⟩

/-- For a `StartAnchored` compiled program the IR semantics of the parsed tree has no match away from
offset 0 (`C04Sem.predicate_for_re_sound` on the emitted tree + C03). -/
theorem anchored_spec_only_at_zero_partial (hb : ∀ c ∈ pat, c ≤ 0x10FFFF) (hp : parse pat fl = .ok re)
    (hc : compile ofuel pat fl = .ok prog) (hmax : maxOK re.node = true) (ht : IR.Utf8Text inp cs)
    (ha : isAnchored prog = true) {r : Nat} (hr : 0 < r) (hv : VUtf8 inp r) :
    firstMatch inp re.node r = none := by
  apply Classical.byContradiction
  intro hm
  obtain ⟨re', C⟩ := compiled_tree hb hp hc hmax
  have hbd := atBoundary_of_vutf8 ht hv
  rw [← C.sem ht hbd] at hm
  have := (C04Sem.predicate_for_re_sound ht re' C.wf' (emit_startPred C.emit) hbd hm).1
    (isAnchored_startPred ha)
  omega

/-- … hence neither has the backtracker (any budget) … -/
theorem anchored_bt_only_at_zero_partial (hb : ∀ c ∈ pat, c ≤ 0x10FFFF) (hp : parse pat fl = .ok re)
    (hc : compile ofuel pat fl = .ok prog) (hmax : maxOK re.node = true) (hok : ProgOK prog = true)
    (ht : IR.Utf8Text inp cs) (hu : prog.flags.unicode = inp.unicode) (ha : isAnchored prog = true)
    (fuel : Nat) : OnlyAtZeroOn (vb inp) (searchEnvBt prog inp fuel) := by
  intro r hr hv
  apply Classical.byContradiction
  intro hne
  have hv' := vb_iff.mp hv
  exact bt_match_is_ir_match_partial hb hp hc hmax hok ht hu (atBoundary_of_vutf8 ht hv') fuel hne
    (anchored_spec_only_at_zero_partial hb hp hc hmax ht ha hr hv')

/-- A successful PikeVM attempt — with ANY budget — at a char boundary is a first match of the IR
semantics. -/
theorem pk_match_is_ir_match_partial (hb : ∀ c ∈ pat, c ≤ 0x10FFFF) (hp : parse pat fl = .ok re)
    (hc : compile ofuel pat fl = .ok prog) (hmax : maxOK re.node = true) (hok : ProgOK prog = true)
    (ht : IR.Utf8Text inp cs) (hu : prog.flags.unicode = inp.unicode) {p : Nat} (hbd : AtBoundary cs p)
    (fuel : Nat) (hm : (searchEnvPk prog inp fuel).attempt p ≠ none) : firstMatch inp re.node p ≠ none := by
  intro hnone
  have hne : Pk.attempt prog inp fuel p ≠ .outOfFuel := by
    intro h; apply hm; simp only [searchEnvPk, h]
  have hP := compile_correct_pk_safe_partial hb hp hc hmax (progOK_full hok) ht hu hbd fuel hne
  rw [hnone] at hP
  obtain ⟨steps, peak, h⟩ := hP
  apply hm; simp only [searchEnvPk, h]

/-- … nor the PikeVM. -/
theorem anchored_pk_only_at_zero_partial (hb : ∀ c ∈ pat, c ≤ 0x10FFFF) (hp : parse pat fl = .ok re)
    (hc : compile ofuel pat fl = .ok prog) (hmax : maxOK re.node = true) (hok : ProgOK prog = true)
    (ht : IR.Utf8Text inp cs) (hu : prog.flags.unicode = inp.unicode) (ha : isAnchored prog = true)
    (fuel : Nat) : OnlyAtZeroOn (vb inp) (searchEnvPk prog inp fuel) := by
  intro r hr hv
  apply Classical.byContradiction
  intro hne
  have hv' := vb_iff.mp hv
  exact pk_match_is_ir_match_partial hb hp hc hmax hok ht hu (atBoundary_of_vutf8 ht hv') fuel hne
    (anchored_spec_only_at_zero_partial hb hp hc hmax ht ha hr hv')

/-- With a budget of at least `Pk.lookBound`, the PikeVM's attempt at a char boundary is the attempt
of the specification. -/
theorem pk_attempt_eq_spec_partial (hb : ∀ c ∈ pat, c ≤ 0x10FFFF) (hp : parse pat fl = .ok re)
    (hc : compile ofuel pat fl = .ok prog) (hmax : maxOK re.node = true) (hok : ProgOK prog = true)
    (ht : IR.Utf8Text inp cs) (hu : prog.flags.unicode = inp.unicode) (fuel : Nat)
    (hfuel : Pk.lookBound prog inp.len ≤ fuel) {p : Nat} (hv : VUtf8 inp p) :
    (searchEnvPk prog inp fuel).attempt p = (specEnv inp re.node prog).attempt p := by
  have hpk : ProgPkOK prog = true := by
    simp only [ProgOK, Bool.and_eq_true] at hok; exact hok.1.1
  have hP := compile_correct_pk_total_partial hb hp hc hmax hpk ht hu (atBoundary_of_vutf8 ht hv) fuel hfuel
  simp only [searchEnvPk, specEnv]
  unfold PkAgrees at hP
  split at hP
  · rename_i heq
    obtain ⟨steps, peak, h⟩ := hP
    rw [h, heq]; rfl
  · rename_i σ heq
    obtain ⟨st, steps, peak, h, hcaps⟩ := hP
    rw [h, heq]; simp only [Option.map_some, Keystone.capsOf_eq, hcaps]

/-- **`find_iter` end to end, backtracking executor** (kept: `maxOK`, `ProgOK prog` — the hypotheses of
`compile_correct_bt_partial`; NO `simpleProg`, NO `isAnchored = false`).  Whenever the running search of
the backtracking executor — byte-scan prefilter or `next_match_anchored`, one reused matcher, ANY tick
budget (`EndToEnd.findIter_spec_partial` needed `fuel ≥ Pk.lookBound`) — returns a list of matches, that list is `unfoldIter` of the specification
environment: repeatedly, the first char boundary at or after the cursor at which the IR semantics of the
*parsed* tree has a match, with the end and the captures of that first match; then on from the end (one
char further after an empty match). -/
theorem findIter_bt_spec_partial (hb : ∀ c ∈ pat, c ≤ 0x10FFFF) (hp : parse pat fl = .ok re)
    (hc : compile ofuel pat fl = .ok prog) (hmax : maxOK re.node = true) (hok : ProgOK prog = true)
    (ht : IR.Utf8Text inp cs) (hu : prog.flags.unicode = inp.unicode) (fuel0 : Nat) {start : Nat}
    (hs : VUtf8 inp start ∨ inp.len < start) {ms : List MatchR}
    (h : findIter .bt prog inp start fuel0 = .ok ms) :
    ms = unfoldIter (specEnv inp re.node prog) start := by
  have H := findHyp2_of_progOK hb hp hc hok ht
  -- the budget of the fresh-matcher environment the running search is compared with
  generalize hfd : max fuel0 (Pk.lookBound prog inp.len) = fuel
  have hf0 : fuel0 ≤ fuel := by omega
  have hfuel : Pk.lookBound prog inp.len ≤ fuel := by omega
  have hs' : vb inp start = true ∨ (searchEnvBt prog inp fuel).len < start :=
    hs.imp (fun h => vb_iff.mpr h) (fun h => h)
  have hOn := envOKOn_bt H.wf H.leads H.text fuel
  have hcoll : collectK (searchEnvBt prog inp fuel) (kindOf prog .bt) start =
      unfoldIter (searchEnvBt prog inp fuel) start := by
    cases ha : isAnchored prog with
    | false =>
      have hk : kindOf prog .bt = .btPrefix := by simp [kindOf, ha]
      rw [hk]
      exact (prefilter_transparent_emitted_partial hb hp hc hmax hok ht hu fuel hs).1
    | true =>
      have hk : kindOf prog .bt = .btAnchored := by simp [kindOf, ha]
      rw [hk]
      exact iter_is_unfold_anchored_on hOn
        (anchored_bt_only_at_zero_partial hb hp hc hmax hok ht hu ha fuel) (.inl rfl) hs'
  rw [findIter_bt_eq_collect_partial H hf0 hfuel hs h, hcoll, ← unfoldIter_restrict hOn hs',
    restrict_eq_spec_partial hb hp hc hmax hok ht hu fuel hfuel,
    unfoldIter_restrict (envOKOn_spec_partial hb hp hc hmax hok ht hu) hs']

/-- **`find_iter` end to end, PikeVM executor** (same hypotheses).  The running search of the
`PikeVMExecutor` returns the same unfold of first matches of the IR semantics of the parsed tree. -/
theorem findIter_pk_spec_partial (hb : ∀ c ∈ pat, c ≤ 0x10FFFF) (hp : parse pat fl = .ok re)
    (hc : compile ofuel pat fl = .ok prog) (hmax : maxOK re.node = true) (hok : ProgOK prog = true)
    (ht : IR.Utf8Text inp cs) (hu : prog.flags.unicode = inp.unicode) (fuel0 : Nat) {start : Nat}
    (hs : VUtf8 inp start ∨ inp.len < start) {ms : List MatchR}
    (h : findIter .pk prog inp start fuel0 = .ok ms) :
    ms = unfoldIter (specEnv inp re.node prog) start := by
  have H := findHyp2_of_progOK hb hp hc hok ht
  generalize hfd : max fuel0 (Pk.lookBound prog inp.len) = fuel
  have hf0 : fuel0 ≤ fuel := by omega
  have hfuel : Pk.lookBound prog inp.len ≤ fuel := by omega
  have hs' : vb inp start = true ∨ (searchEnvPk prog inp fuel).len < start :=
    hs.imp (fun h => vb_iff.mpr h) (fun h => h)
  have hOn := envOKOn_pk H.wf H.text fuel
  have hcoll : collectK (searchEnvPk prog inp fuel) (kindOf prog .pk) start =
      unfoldIter (searchEnvPk prog inp fuel) start := by
    cases ha : isAnchored prog with
    | false =>
      have hk : kindOf prog .pk = .pike false := by simp [kindOf, ha]
      rw [hk]
      exact iter_is_unfold_pike_on hOn hs'
    | true =>
      have hk : kindOf prog .pk = .pike true := by simp [kindOf, ha]
      rw [hk]
      exact iter_is_unfold_anchored_on hOn
        (anchored_pk_only_at_zero_partial hb hp hc hmax hok ht hu ha fuel) (.inr rfl) hs'
  have hrestr : unfoldIter (restrictEnv (vb inp) (searchEnvPk prog inp fuel)) start =
      unfoldIter (restrictEnv (vb inp) (specEnv inp re.node prog)) start := by
    refine unfoldIter_congr (env1 := restrictEnv (vb inp) (searchEnvPk prog inp fuel))
      (env2 := restrictEnv (vb inp) (specEnv inp re.node prog)) rfl ?_ rfl rfl start
    funext p
    show (if vb inp p = true then (searchEnvPk prog inp fuel).attempt p else none) =
      (if vb inp p = true then (specEnv inp re.node prog).attempt p else none)
    by_cases hv : vb inp p = true
    · rw [if_pos hv, if_pos hv]
      exact pk_attempt_eq_spec_partial hb hp hc hmax hok ht hu fuel hfuel (vb_iff.mp hv)
    · rw [if_neg hv, if_neg hv]
  rw [findIter_pk_eq_collect_partial H hf0 hfuel hs h, hcoll, ← unfoldIter_restrict hOn hs', hrestr,
    unfoldIter_restrict (envOKOn_spec_partial hb hp hc hmax hok ht hu) hs']

/-- **The two executors' running searches agree** (C02 at the level of whole searches): whenever both
return, they return the same list of matches (ranges, captures, names). -/
theorem findIter_bt_pk_agree_partial (hb : ∀ c ∈ pat, c ≤ 0x10FFFF) (hp : parse pat fl = .ok re)
    (hc : compile ofuel pat fl = .ok prog) (hmax : maxOK re.node = true) (hok : ProgOK prog = true)
    (ht : IR.Utf8Text inp cs) (hu : prog.flags.unicode = inp.unicode) (fuel fuel' : Nat) {start : Nat}
    (hs : VUtf8 inp start ∨ inp.len < start) {ms ms' : List MatchR}
    (h : findIter .bt prog inp start fuel = .ok ms) (h' : findIter .pk prog inp start fuel' = .ok ms') :
    ms = ms' := by
  rw [findIter_bt_spec_partial hb hp hc hmax hok ht hu fuel hs h,
    findIter_pk_spec_partial hb hp hc hmax hok ht hu fuel' hs h']

/-- **C16 for the running searches** (kept: `ProgOK prog`; `maxOK` is NOT needed; any budget): every
match either executor yields has exactly one capture slot per capture group of the parsed tree, carries
the program's `group_names` (which are indexed by group id, `compiled_names_by_id`), and satisfies
`NamesOK`.  (`_partial`: the full statement has no `ProgOK`; `ProgOK` consists of
decidable checks on the emitted program that are not yet proved for all emitted programs, see
`Proofs/EndToEnd.lean`.) -/
theorem findIter_groups_partial (hb : ∀ c ∈ pat, c ≤ 0x10FFFF) (hp : parse pat fl = .ok re)
    (hc : compile ofuel pat fl = .ok prog) (hok : ProgOK prog = true)
    (ht : IR.Utf8Text inp cs) (ex : Exec) (fuel : Nat)
    {start : Nat} (hs : VUtf8 inp start ∨ inp.len < start) {ms : List MatchR}
    (h : findIter ex prog inp start fuel = .ok ms) :
    ∀ m ∈ ms, m.captures.length = numGroups re.node ∧ m.names = prog.names ∧ m.NamesOK := by
  have H := findHyp2_of_progOK hb hp hc hok ht
  have hg := (compiled_names_by_id hb hp hc).1
  intro m hm
  cases ex with
  | bt =>
    have := (findIter_bt_valid_partial H fuel hs h).2.2.2.2 m hm
    exact ⟨by rw [← hg]; exact this.2.2.2.2.2.1, this.2.2.2.2.2.2.2.1, this.2.2.2.2.2.2.2.2⟩
  | pk =>
    have := (findIter_pk_valid_partial H fuel hs h).2.2.2.2 m hm
    exact ⟨by rw [← hg]; exact this.2.2.2.2.2.1, this.2.2.2.2.2.2.2.1, this.2.2.2.2.2.2.2.2⟩

end Search

/-! ## Non-vacuity for B and C: real compiled patterns with `Loop1CharBody`, and `StartAnchored` -/

section Examples
open Regress.Api Regress.C09 Regress.VM.Safety

/-- `/(a+)(b*)c/`: two greedy `Loop1CharBody` inside capture groups; start predicate `Set {a}`; not
anchored. `Sim.simpleProg` fails, so `Closure.findIter_eq_collect` / `EndToEnd.findIter_spec_partial` do
not apply. -/
def l1Pat : List Nat := pat! "(a+)(b*)c"
def l1Re : Regex := match parse l1Pat {} with | .ok r => r | .error _ => ⟨.empty, {}⟩
def l1Prog : Prog :=
  { insns := #[.beginCaptureGroup 0, .byteSeq [0x61], .loop1 0 none true, .byteSeq [0x61], .endCaptureGroup 0,
      .beginCaptureGroup 1, .loop1 0 none true, .byteSeq [0x62], .endCaptureGroup 1, .byteSeq [0x63], .goal],
    brackets := #[], loops := 0, groups := 2, flags := {}, names := [], startPred := .set [0x61] }
/-- "éaabc ac" (9 bytes) -/
def l1Inp : Input :=
  { kind := .utf8, bytes := Utf8.text [0xE9, 0x61, 0x61, 0x62, 0x63, 0x20, 0x61, 0x63], unicode := false }

theorem l1Bnd : ∀ c ∈ l1Pat, c ≤ 0x10FFFF := by decide
theorem l1Parse : parse l1Pat {} = .ok l1Re := by
  have h : (match parse l1Pat {} with | .ok _ => true | .error _ => false) = true := by decide +kernel
  unfold l1Re
  split
  · rename_i heq; rw [heq]
  · rename_i heq; rw [heq] at h; cases h
theorem l1Compile : compile 100 l1Pat {} = .ok l1Prog := by
  have h : (match compile 100 l1Pat {} with
      | .ok p => decide (p = l1Prog) | .error _ => false) = true := by decide +kernel
  cases he : compile 100 l1Pat {} with
  | error e => rw [he] at h; cases h
  | ok p => rw [he] at h; simp at h; rw [h]
theorem l1Max : maxOK l1Re.node = true := by decide +kernel
theorem l1OK : ProgOK l1Prog = true := by decide +kernel
attribute [irreducible] l1Re
theorem l1Text : IR.Utf8Text l1Inp [0xE9, 0x61, 0x61, 0x62, 0x63, 0x20, 0x61, 0x63] := ⟨rfl, rfl, by decide⟩

example : Sim.simpleProg l1Prog = false ∧ isAnchored l1Prog = false := by decide +kernel

/-- `findIter_bt_spec_partial` and `findIter_pk_spec_partial` on a program with `Loop1CharBody`. -/
example (fuel : Nat) (ms : List MatchR)
    (h : findIter .bt l1Prog l1Inp 0 fuel = .ok ms) : ms = unfoldIter (specEnv l1Inp l1Re.node l1Prog) 0 :=
  findIter_bt_spec_partial l1Bnd l1Parse l1Compile l1Max l1OK l1Text rfl fuel
    (Or.inl (by decide +kernel)) h

example (fuel : Nat) (ms : List MatchR)
    (h : findIter .pk l1Prog l1Inp 0 fuel = .ok ms) : ms = unfoldIter (specEnv l1Inp l1Re.node l1Prog) 0 :=
  findIter_pk_spec_partial l1Bnd l1Parse l1Compile l1Max l1OK l1Text rfl fuel
    (Or.inl (by decide +kernel)) h

/-- The three sides, evaluated: `2..6` "aabc" (groups `2..4`, `4..5`) and `7..9` "ac" (groups `7..8`,
`8..8`); the budget 1000 is one of the budgets the theorems above cover. -/
example : (match findIter .bt l1Prog l1Inp 0 1000 with
    | .ok ms => some (ms.map fun m => (m.range, m.captures)) | .error _ => none) =
    some [((2, 6), [some (2, 4), some (4, 5)]), ((7, 9), [some (7, 8), some (8, 8)])] := by decide +kernel
example : (match findIter .pk l1Prog l1Inp 0 1000 with
    | .ok ms => some (ms.map fun m => (m.range, m.captures)) | .error _ => none) =
    some [((2, 6), [some (2, 4), some (4, 5)]), ((7, 9), [some (7, 8), some (8, 8)])] := by decide +kernel

/-- `/^a+(b)?/`: `StartAnchored` (and a `Loop1CharBody`, and a general loop with a capture group).
`EndToEnd.findIter_spec_partial` required `isAnchored prog = false`. -/
def anPat : List Nat := pat! "^a+(b)?"
def anRe : Regex := match parse anPat {} with | .ok r => r | .error _ => ⟨.empty, {}⟩
def anProg : Prog :=
  { insns := #[.startOfLine false, .byteSeq [0x61], .loop1 0 none true, .byteSeq [0x61],
      .enterLoop 0 0 (some 1) true 10, .resetCaptureGroup 0, .beginCaptureGroup 0, .byteSeq [0x62],
      .endCaptureGroup 0, .loopAgain 4, .goal],
    brackets := #[], loops := 1, groups := 1, flags := {}, names := [], startPred := .anchored }
/-- "aabéab" (7 bytes): the second "ab" must NOT be found. -/
def anInp : Input :=
  { kind := .utf8, bytes := Utf8.text [0x61, 0x61, 0x62, 0xE9, 0x61, 0x62], unicode := false }

theorem anBnd : ∀ c ∈ anPat, c ≤ 0x10FFFF := by decide
theorem anParse : parse anPat {} = .ok anRe := by
  have h : (match parse anPat {} with | .ok _ => true | .error _ => false) = true := by decide +kernel
  unfold anRe
  split
  · rename_i heq; rw [heq]
  · rename_i heq; rw [heq] at h; cases h
theorem anCompile : compile 100 anPat {} = .ok anProg := by
  have h : (match compile 100 anPat {} with
      | .ok p => decide (p = anProg) | .error _ => false) = true := by decide +kernel
  cases he : compile 100 anPat {} with
  | error e => rw [he] at h; cases h
  | ok p => rw [he] at h; simp at h; rw [h]
theorem anMax : maxOK anRe.node = true := by decide +kernel
theorem anOK : ProgOK anProg = true := by decide +kernel
attribute [irreducible] anRe
theorem anText : IR.Utf8Text anInp [0x61, 0x61, 0x62, 0xE9, 0x61, 0x62] := ⟨rfl, rfl, by decide⟩

example : Sim.simpleProg anProg = false ∧ isAnchored anProg = true := by decide +kernel

/-- Both end-to-end theorems on the anchored program, from every admissible start offset. -/
example (fuel : Nat) (start : Nat)
    (hs : VUtf8 anInp start ∨ anInp.len < start) (ms : List MatchR)
    (h : findIter .bt anProg anInp start fuel = .ok ms) :
    ms = unfoldIter (specEnv anInp anRe.node anProg) start :=
  findIter_bt_spec_partial anBnd anParse anCompile anMax anOK anText rfl fuel hs h

example (fuel : Nat) (start : Nat)
    (hs : VUtf8 anInp start ∨ anInp.len < start) (ms : List MatchR)
    (h : findIter .pk anProg anInp start fuel = .ok ms) :
    ms = unfoldIter (specEnv anInp anRe.node anProg) start :=
  findIter_pk_spec_partial anBnd anParse anCompile anMax anOK anText rfl fuel hs h

/-- Evaluated: only `0..3` "aab" with group `2..3`; nothing at offset 5. -/
example : (match findIter .bt anProg anInp 0 1000 with
    | .ok ms => some (ms.map fun m => (m.range, m.captures)) | .error _ => none) =
    some [((0, 3), [some (2, 3)])] := by decide +kernel
example : (match findIter .pk anProg anInp 0 1000 with
    | .ok ms => some (ms.map fun m => (m.range, m.captures)) | .error _ => none) =
    some [((0, 3), [some (2, 3)])] := by decide +kernel
example : (unfoldIter (specEnv anInp anRe.node anProg) 0).map (fun m => (m.range, m.captures)) =
    [((0, 3), [some (2, 3)])] := by decide +kernel

/-- `findIter_groups_partial` on the look-behind pattern of part A is covered by `ex_names`; here on
`l1Prog`: two capture slots per match. -/
example (fuel : Nat) (ms : List MatchR)
    (h : findIter .pk l1Prog l1Inp 0 fuel = .ok ms) : ∀ m ∈ ms, m.captures.length = numGroups l1Re.node ∧ m.NamesOK :=
  fun m hm =>
    have := findIter_groups_partial l1Bnd l1Parse l1Compile l1OK l1Text .pk fuel
      (Or.inl (by decide +kernel)) h m hm
    ⟨this.1, this.2.2⟩

end Examples

/-! ## What is missing

**The pre-scan.**  `parse_capture_groups` counts the capturing parentheses of the pattern text before the
descent (`group_count_max`, used to decide whether `\N` is a back-reference).  That this count equals
`numGroups re.node` (`= prog.groups`, `compiled_names_by_id`) is NOT proved:
```
parse pat fl = .ok re → prescanMax pat fl = some (numGroups re.node)
```
It needs a simulation between the lexer-like `scanLoop` (which skips one char after a backslash and skips
brackets by `skipBracket` / `skipBracketV`) and the recursive descent, i.e. for every lexical sub-parser
(`characterEscape`, `propertyEscape`, `tryConsumeName`, `decimalLiteral`, `quantifier`, `consumeBracket`,
`classSetExpression`) a lemma that the text it consumes contains no unescaped `(`, `[` that the scanner
would see differently.  Below: the statement, checked on patterns that exercise each of these
(`decide +kernel`) — evidence, not proof.  No counterexample was found (also not with the real parser:
`rvharness probe v '[\q{[}](x)\1' x` etc. are rejected, as the ES grammar demands).

**Same-budget form of B.**  `findIter … fuel = collectK (searchEnv… fuel) …` with the same small budget on
both sides (see `findIter_bt_eq_collect_partial` / `findIter_pk_eq_collect_partial`): needs tick-exact
versions of "reused matcher = fresh matcher" / "stale entry is dead".  Irrelevant for part C.
-/

/-- `group_count_max` as `parse_capture_groups` computes it for the pattern. -/
def prescanMax (pat : List Nat) (fl : IR.Flags) : Option Nat :=
  match parseCaptureGroups { input := pat, flags := if fl.unicodeSets then { fl with unicode := true } else fl } with
  | .ok st => some st.groupCountMax
  | .error _ => none

/-- `(numGroups of the parsed tree, group_count_max)`. -/
def prescanVsParse (pat : List Nat) (fl : IR.Flags) : Option (Nat × Nat) :=
  match parse pat fl, prescanMax pat fl with
  | .ok re, some k => some (numGroups re.node, k)
  | _, _ => none

/-- Escaped parens, parens in brackets, non-capturing / named / look-around groups, `\k<n>`;
v-mode nested classes with `\(` and `\q{…}`; legacy `\c(`; `[\]]`, `[^]]`; modifier groups and
duplicate names; `\u{28}` and `\p{L}`; quantified groups. -/
example :
    prescanVsParse (pat! "(a)\\((b)[(](?:c)(?<n>d)(?=e)(?<=f)(?<!g)\\k<n>") {} = some (3, 3) ∧
    prescanVsParse (pat! "[[a-z]--[\\(\\q{ab|c}]](x)\\1") { unicodeSets := true } = some (1, 1) ∧
    prescanVsParse (pat! "\\c(a)\\1") {} = some (1, 1) ∧
    prescanVsParse (pat! "[\\]](a)[^]](b)") {} = some (2, 2) ∧
    prescanVsParse (pat! "(?i:a)(b)(?<x>c)|(?<x>d)") {} = some (3, 3) ∧
    prescanVsParse (pat! "\\u{28}(a)\\p{L}(b)") { unicode := true } = some (2, 2) ∧
    prescanVsParse (pat! "(a{2,3})((?:b)*?)") {} = some (2, 2) := by decide +kernel

end Regress.Closure2

#print axioms Regress.Closure2.parse_groupIds
#print axioms Regress.Closure2.parse_groupIdsDense
#print axioms Regress.Closure2.optimize_groupList
#print axioms Regress.Closure2.compiled_groupList
#print axioms Regress.Closure2.compiled_names_by_id
#print axioms Regress.Closure2.compiled_group_unique
#print axioms Regress.Closure2.ex_names
#print axioms Regress.Closure2.leads_emitted
#print axioms Regress.Closure2.findIter_bt_eq_collect_partial
#print axioms Regress.Closure2.attemptAt_entry_sim
#print axioms Regress.Closure2.findIter_pk_eq_collect_partial
#print axioms Regress.Closure2.iter_is_unfold_anchored_on
#print axioms Regress.Closure2.findIter_bt_valid_partial
#print axioms Regress.Closure2.findIter_pk_valid_partial
#print axioms Regress.Closure2.findIter_bt_spec_partial
#print axioms Regress.Closure2.findIter_pk_spec_partial
#print axioms Regress.Closure2.findIter_bt_pk_agree_partial
#print axioms Regress.Closure2.findIter_groups_partial
#print axioms Regress.Closure2.l1Compile
#print axioms Regress.Closure2.anCompile
