import Proofs.Lemmas.FinalSearch
import Proofs.RoundTrip
/-!
# Final — one theorem per claim, with the fewest hypotheses the development supports

Everything below is about `C07.compile` (= `Regex::from_unicode`: parse, optimize unless `no_opt`, emit),
the two executor models (`Bt` = `classicalbacktrack`, `Pk` = `pikevm`), the running search `VM.findIter`
(the function the differential driver runs against the real engine) and the IR semantics
`IR.firstMatch inp re.node p` of the PARSED, unoptimized tree.

Standing hypotheses (`H0`), present in every theorem: `∀ c ∈ pat, c ≤ 0x10FFFF`, `parse pat fl = .ok re`,
`compile ofuel pat fl = .ok prog`.  `fl` contains `no_opt`: every theorem covers the optimized and the
unoptimized pipeline.  No theorem has a hypothesis about the compiled program (`ProgOK`, `ProgPkOK`,
`simpleProg`, "not anchored", `wfProgFull`, …): all of those are discharged by `Proofs/Certs.lean`.

| # | claim | theorem | hypotheses beyond `H0` | serves |
|---|-------|---------|------------------------|--------|
| 1 | C06 | `final_safe` | UTF-8 text + char boundary, or ASCII text + offset `≤ len`; ANY tick budget | no error site is reached; reported offsets are valid slices |
| 2 | C02 | `final_executors_agree` | `C02Full.ValidAt inp pos` (UTF-8 at a boundary / ASCII), budgets `fP ≤ fB` | backtracker refines PikeVM |
| 2 | C05 | `final_terminates` | `ValidAt`, budget `≥ Pk.lookBound prog len` | both executors end within `Pk.lookBound` ticks |
| 3 | C01/C03 | `final_attempt_is_ir_semantics` | `Utf8Text inp cs`, `fits inp.len re.node`, `prog.flags.unicode = inp.unicode`, `AtBoundary cs p`, budget `≥ Pk.lookBound` | both executors' attempt on the compiled program = `IR.firstMatch` of the parsed tree |
| 4 | C04 | `final_prefilter_transparent` | `Utf8Text`, `fits`, `unicode`, start on a boundary or beyond the end; ANY budget | byte-scan prefilter changes nothing |
| 5 | C09 | `final_search_is_unfold` | `Utf8Text`, `fits`, `unicode`, start on a boundary or beyond the end; ANY budget for which the search returns | `findIter .bt` and `findIter .pk` = `unfoldIter (specEnv inp re.node prog) start` |
| 5 | C09 | `final_search_laws`, `final_search_fused` | `Utf8Text`, start on a boundary or beyond the end; ANY budget | increasing, disjoint, in range, count bound, sorted, start beyond end; fused |
| 6 | C16 | `final_match_shape` | `Utf8Text`, start as above; ANY budget | `captures.length = numGroups re.node`, `NamesOK`, names by id, all ranges are boundaries in the haystack |
| 7 | C17 | `final_replace` | `Utf8Text`; ANY budget | `replace_all` keeps the gaps; identity replacement is the identity |
| 7 | C20 | `final_searcher` (+ `final_searcher_matches_spec`) | `Utf8Text`, `NoFuelOut prog inp fuel` (the running search returns from every boundary) | `Searcher` steps tile the haystack; `Match` steps = `find_iter` (= the unfold of the IR semantics) |
| 8 | C01 | `final_printed_pattern` | `supported`, `lexOK`, `noDup`, `cpOK`, `toIR f a = .ok r`, `fits inp.len r.node`, `Utf8Text`, unicode flag, `i ≤ |cs|`, budgets `≥ ES.esFuelBound` / `≥ Pk.lookBound` | pattern TEXT in, ECMAScript specification out, both executors |

## `fits` — what replaces `maxOK` (TASK B)

`E2E.maxOK re.node` ("no braced quantifier whose last number is `≥ 2^64 - 1`") is gone from 3, 4, 5, 8.
In its place: `Final.fits inp.len re.node` (`Proofs/Lemmas/FinalSat.lean`), a decidable property of the
parsed tree and the haystack LENGTH: for every loop quantifier, `max` is `none`, or `max < usize::MAX`, or
`max = usize::MAX` and `min + inp.len + 2 ≤ usize::MAX`.  (`IR.sem` gives a loop entered at `pos` the
iteration budget `min + (distance to the end) + 2`; the iteration counter never exceeds that budget, so it
never reaches a saturated maximum: `loopIter_unsat`, `loop1Iter_unsat`.)

* `fits_of_maxOK`: `maxOK n → fits L n` for every `L` — the new theorems imply the old ones.
* `fits_mono`: `L' ≤ L → fits L n → fits L' n`; so ONE evaluation `fits (2^63) re.node = true` covers every
  haystack with `inp.len ≤ 2^63` (Rust: `len ≤ isize::MAX < 2^63`).
* `fitsQ_sat`: for a saturated maximum the clause is exactly `min + L + 2 ≤ usize::MAX`; so
  `a{0,18446744073709551615}` (`EndToEnd.saturated_max_example`) fits every haystack with
  `inp.len + 2 ≤ 2^64 - 1`, i.e. `inp.len + 2 < 2^64`.
* STILL EXCLUDED, exactly: a braced quantifier `{n,m}` / `{n}` with `m ≥ 2^64 - 1` AND
  `n + inp.len + 2 > 2^64 - 1` — in particular `x{18446744073709551615}` (minimum saturated too), for every
  haystack (`excluded_example`).  For those the IR semantics (bound `2^64 - 1`) and the VM (unbounded) could
  differ after `2^64 - 1` iterations of a body that matches the empty string — `(?:a|){18446744073709551614,18446744073709551615}` —
  which no run of the real engine can reach; no misbehaviour of the engine is involved.

Route (no existing file edited): `Code … n → Code … (unsat n)` (`maxIters (unsatQ q) = maxIters q`: the
emitted program is ALSO the code of the tree with the saturated maxima removed), `firstMatch (unsat n) =
firstMatch n` on haystacks that fit, `Keystone.fragT_node` on `unsat n` (`keystone_attempt_fits`); the
optimizer preserves the side conditions for ANY quantifier clause closed under `unroll_loops`
(`Proofs/Lemmas/FinalOpt.lean`: `E2EOpt`'s proofs ported to `kokP`/`rootOKP`, `E2E.optimize_rel` reused);
the parser establishes them (`parse_rootOKF`); `EndToEnd`/`Certs`/`Closure2` re-composed
(`Proofs/Lemmas/FinalPlumb.lean`).

## What is still hypothesised, and why

* `fits inp.len re.node` (3, 4, 5, 8): see above.
* `NoFuelOut prog inp fuel` (7, C20): the `Searcher` context is built from the running search with a
  GLOBAL tick budget `fuel`; no theorem bounds the ticks of a whole search (only of one attempt:
  `final_terminates`), so "the search returns from every boundary" is kept.
* 8: `supported` (the fragment of `Lower.lower_attempt_total`), `lexOK`, `noDup`, `cpOK` — hypotheses of
  `Proofs/RoundTrip.lean` / `Proofs/ESTerm.lean` about the AST, unchanged.
* Text: UTF-8 (`Utf8Text`) for everything that mentions the IR semantics or the search (the IR semantics
  is defined on UTF-8 input); `final_safe`, `final_executors_agree`, `final_terminates` also cover ASCII.
-/
namespace Regress.Final

open Regress Regress.IR Regress.VM Regress.Parse Regress.Keystone Regress.C07 Regress.E2E Regress.Closure
open Regress.EndToEnd Regress.Certs Regress.Closure2 Regress.Api Regress.C09 Regress.VM.Safety

section Claims
variable {pat : List Nat} {fl : IR.Flags} {re : Regex} {prog : Prog} {ofuel : Nat}
  {inp : Input} {cs : List Nat}

/-! ## 1. C06 -/

/-- **`final_safe`** (C06; `Certs.compiled_safe`).  For every compiled pattern: on every well-formed UTF-8
haystack from every char boundary, and on every ASCII haystack from every offset `≤ len`, for every tick
budget, neither executor model reaches an error site; a reported match ends at a valid position `≥ pos`,
every reported capture `(s, e)` consists of valid positions with `s ≤ e`; a failed backtracker attempt
leaves the capture groups as it found them. -/
theorem final_safe (hb : ∀ c ∈ pat, c ≤ 0x10FFFF) (hp : parse pat fl = .ok re)
    (hc : compile ofuel pat fl = .ok prog) :
    (∀ (inp : Input) (cs : List Nat), Safety.Utf8Text inp cs → ∀ pos, VUtf8 inp pos → ∀ fuel,
      Bt.Post (fun e st' => pos ≤ e ∧ VUtf8 inp e ∧
          ∀ s e', some (s, e') ∈ Bt.capsOf st' → VUtf8 inp s ∧ VUtf8 inp e' ∧ s ≤ e')
        (fun st' => st'.groups = (Bt.freshState prog 0).groups) (Bt.attemptFresh prog inp fuel pos) ∧
      (match Pk.attemptAt prog inp fuel pos pos with
       | .error _ => False
       | .matched e st _ _ => pos ≤ e ∧ VUtf8 inp e ∧ e = st.pos ∧
           ∀ s e', some (s, e') ∈ Pk.capsOf st → VUtf8 inp s ∧ VUtf8 inp e' ∧ s ≤ e'
       | _ => True)) ∧
    (∀ (inp : Input), inp.kind = .ascii → ∀ pos, pos ≤ inp.len → ∀ fuel,
      Bt.Post (fun e st' => pos ≤ e ∧ e ≤ inp.len ∧
          ∀ s e', some (s, e') ∈ Bt.capsOf st' → s ≤ inp.len ∧ e' ≤ inp.len ∧ s ≤ e')
        (fun st' => st'.groups = (Bt.freshState prog 0).groups) (Bt.attemptFresh prog inp fuel pos) ∧
      (match Pk.attemptAt prog inp fuel pos pos with
       | .error _ => False
       | .matched e st _ _ => pos ≤ e ∧ e ≤ inp.len ∧ e = st.pos ∧
           ∀ s e', some (s, e') ∈ Pk.capsOf st → s ≤ inp.len ∧ e' ≤ inp.len ∧ s ≤ e'
       | _ => True)) :=
  compiled_safe hb hp hc

/-! ## 2. C02, C05 -/

/-- **`final_executors_agree`** (C02; `Certs.compiled_executors_agree`).  For every compiled pattern, every
valid haystack position and budgets `fP ≤ fB`: if the PikeVM attempt does not run out of its budget then
neither does the backtracker, both report the same match end and captures or both fail, and neither
reaches an error site. -/
theorem final_executors_agree (hb : ∀ c ∈ pat, c ≤ 0x10FFFF) (hp : parse pat fl = .ok re)
    (hc : compile ofuel pat fl = .ok prog)
    (inp : Input) (pos : Nat) (hv : C02Full.ValidAt inp pos) (fB fP : Nat) (hf : fP ≤ fB) :
    match Bt.attempt prog inp fB pos, Pk.attempt prog inp fP pos with
    | .error _, _ => False
    | _, .error _ => False
    | _, .outOfFuel => True
    | .matched e st s _, .matched e' st' s' _ => e = e' ∧ Bt.capsOf st = Pk.capsOf st' ∧ s ≤ s'
    | .failed _ s _, .failed s' _ => s ≤ s'
    | _, _ => False :=
  compiled_executors_agree hb hp hc inp pos hv fB fP hf

/-- **`final_terminates`** (C05; `Certs.compiled_terminates`).  With `B = Pk.lookBound prog |haystack|`:
every attempt of either executor with a tick budget `≥ B` ends — a match or a failure — within `B` ticks. -/
theorem final_terminates (hb : ∀ c ∈ pat, c ≤ 0x10FFFF) (hp : parse pat fl = .ok re)
    (hc : compile ofuel pat fl = .ok prog)
    (inp : Input) (pos : Nat) (hv : C02Full.ValidAt inp pos) (fuel : Nat)
    (hfuel : Pk.lookBound prog inp.len ≤ fuel) :
    ((Bt.attempt prog inp fuel pos).within (Pk.lookBound prog inp.len) ∧
      Bt.attempt prog inp fuel pos ≠ .outOfFuel ∧ ∀ e, Bt.attempt prog inp fuel pos ≠ .error e) ∧
    (Pk.attempt prog inp fuel pos).within (Pk.lookBound prog inp.len) :=
  compiled_terminates hb hp hc inp pos hv fuel hfuel

/-! ## 3. C01 / C03 -/

/-- **`final_attempt_is_ir_semantics`** (C01/C03).  For every pattern and flags (optimized or `no_opt`),
every UTF-8 haystack that `fits`, every char boundary `p` and every tick budget `≥ Pk.lookBound prog
|haystack|`: the PikeVM attempt AND the backtracker attempt on the compiled program fail iff the IR
semantics of the PARSED tree has no first match at `p`, and otherwise match with the same end and the same
captures. -/
theorem final_attempt_is_ir_semantics (hb : ∀ c ∈ pat, c ≤ 0x10FFFF) (hp : parse pat fl = .ok re)
    (hc : compile ofuel pat fl = .ok prog) (ht : IR.Utf8Text inp cs) (hfit : fits inp.len re.node = true)
    (hu : prog.flags.unicode = inp.unicode)
    {p : Nat} (hbd : AtBoundary cs p) (fuel : Nat) (hfuel : Pk.lookBound prog inp.len ≤ fuel) :
    PkAgrees (Pk.attempt prog inp fuel p) (firstMatch inp re.node p) ∧
    BtAgrees (Bt.attempt prog inp fuel p) (firstMatch inp re.node p) :=
  ⟨pk_total hb hp hc ht hfit hu hbd fuel hfuel, bt_total hb hp hc ht hfit hu hbd fuel hfuel⟩

/-! ## 4. C04 -/

/-- **`final_prefilter_transparent`** (C04 end to end).  For a compiled program, ANY tick budget and any
start offset the API accepts, the backtracking executor's iterator with the byte-scan prefilter
(`memchr`/`memmem`/bitmap scan for `prog.startPred`) yields exactly the unfold of first matches along the
char boundaries, and from every char boundary `next_match_with_prefix_search` returns what the plain scan
(`find_bytes = Some`) returns: same match, same captures, same `next_start`; and the start predicate is
sound for the executor's attempts. -/
theorem final_prefilter_transparent (hb : ∀ c ∈ pat, c ≤ 0x10FFFF) (hp : parse pat fl = .ok re)
    (hc : compile ofuel pat fl = .ok prog) (ht : IR.Utf8Text inp cs) (hfit : fits inp.len re.node = true)
    (hu : prog.flags.unicode = inp.unicode) (fuel : Nat) {start : Nat}
    (hs : VUtf8 inp start ∨ inp.len < start) :
    collectK (searchEnvBt prog inp fuel) .btPrefix start = unfoldIter (searchEnvBt prog inp fuel) start ∧
    (∀ p, VUtf8 inp p → nextMatchPrefix (searchEnvBt prog inp fuel) p =
      nextMatchPrefix { searchEnvBt prog inp fuel with findBytes := some } p) ∧
    StartPredSound prog.startPred inp (searchEnvBt prog inp fuel) :=
  ⟨(prefilter_transparent hb hp hc ht hfit hu fuel hs).1, (prefilter_transparent hb hp hc ht hfit hu fuel hs).2,
    prefilter_sound hb hp hc ht hfit hu fuel⟩

/-! ## 5. C09 -/

/-- **`final_search_is_unfold`** (C09 end to end; NO `ProgOK`, NO `simpleProg`, anchored or not, programs
with `Loop1CharBody` included).  Whenever the running search of either executor — byte-scan prefilter or
`next_match_anchored`, one reused matcher, ANY tick budget — returns a list of matches, that list is
`unfoldIter` of the specification environment: repeatedly, the first char boundary at or after the cursor
at which the IR semantics of the PARSED tree has a match, with the end and the captures of that first
match; then on from the end (one char further after an empty match).  Hence both executors return the
same list. -/
theorem final_search_is_unfold (hb : ∀ c ∈ pat, c ≤ 0x10FFFF) (hp : parse pat fl = .ok re)
    (hc : compile ofuel pat fl = .ok prog) (ht : IR.Utf8Text inp cs) (hfit : fits inp.len re.node = true)
    (hu : prog.flags.unicode = inp.unicode) {start : Nat} (hs : VUtf8 inp start ∨ inp.len < start) :
    (∀ fuel ms, findIter .bt prog inp start fuel = .ok ms → ms = unfoldIter (specEnv inp re.node prog) start) ∧
    (∀ fuel ms, findIter .pk prog inp start fuel = .ok ms → ms = unfoldIter (specEnv inp re.node prog) start) ∧
    (∀ fuel fuel' ms ms', findIter .bt prog inp start fuel = .ok ms → findIter .pk prog inp start fuel' = .ok ms' →
      ms = ms') := by
  refine ⟨fun fuel ms h => findIter_bt_spec hb hp hc ht hfit hu fuel hs h,
    fun fuel ms h => findIter_pk_spec hb hp hc ht hfit hu fuel hs h, fun fuel fuel' ms ms' h h' => ?_⟩
  rw [findIter_bt_spec hb hp hc ht hfit hu fuel hs h, findIter_pk_spec hb hp hc ht hfit hu fuel' hs h']

/-- **`final_search_laws`** (C09: `iter_increasing`, `iter_disjoint`, `iter_in_range`, `iter_count_le`,
C17's `Sorted`, `start_beyond_end_empty`) for the running search of either executor on a compiled program,
ANY tick budget.  No `fits` needed. -/
theorem final_search_laws (hb : ∀ c ∈ pat, c ≤ 0x10FFFF) (hp : parse pat fl = .ok re)
    (hc : compile ofuel pat fl = .ok prog) (ht : IR.Utf8Text inp cs) (ex : Exec) (fuel : Nat) {start : Nat}
    (hs : VUtf8 inp start ∨ inp.len < start) {ms : List MatchR}
    (h : findIter ex prog inp start fuel = .ok ms) :
    Consec Succeeds ms ∧
    ms.Pairwise (fun a b => a.range.2 ≤ b.range.1 ∧ a.range.1 < b.range.1) ∧
    (∀ m ∈ ms, start ≤ m.range.1 ∧ m.range.1 ≤ m.range.2 ∧ m.range.2 ≤ inp.len) ∧
    (start ≤ inp.len → ms.length ≤ inp.len - start + 1) ∧
    C17.Sorted inp.len start ms ∧
    (inp.len < start → ms = []) := by
  have H := compiled_findHyp2 hb hp hc ht
  cases ex with
  | bt =>
    have V := findIter_bt_valid_partial H fuel hs h
    refine ⟨V.1, V.2.1, fun m hm => ?_, V.2.2.1, V.2.2.2.1, fun hgt => ?_⟩
    · have := V.2.2.2.2 m hm; exact ⟨this.1, this.2.1, this.2.2.1⟩
    · rw [findIter_bt_eq_big H fuel hs h]
      exact start_beyond_end_empty _ _ hgt
  | pk =>
    have V := findIter_pk_valid_partial H fuel hs h
    refine ⟨V.1, V.2.1, fun m hm => ?_, V.2.2.1, V.2.2.2.1, fun hgt => ?_⟩
    · have := V.2.2.2.2 m hm; exact ⟨this.1, this.2.1, this.2.2.1⟩
    · rw [findIter_pk_eq_big H fuel hs h]
      exact start_beyond_end_empty _ _ hgt

/-- **`final_search_fused`** (C09 `iter_fused`): once the iterator over either executor's environment has
returned `None` it keeps returning `None` (holds of every environment). -/
theorem final_search_fused (prog : Prog) (inp : Input) (ex : Exec) (fuel : Nat) (it it' : Matches) :
    let env := match ex with | .bt => searchEnvBt prog inp fuel | .pk => searchEnvPk prog inp fuel
    it.next env (kindOf prog ex) = (none, it') → it' = it ∧ it'.next env (kindOf prog ex) = (none, it') :=
  fun hn => iter_fused _ it it' hn

/-! ## 6. C16 -/

/-- **`final_match_shape`** (C16 + C06 "reported ranges").  Every match the running search of either
executor yields on a compiled program (ANY budget): exactly one capture slot per capture group of the
parsed tree; it carries the program's `group_names`, which satisfy `NamesOK` and are indexed by group id
(entry `id` is the name of THE group with id `id`, `[]` if unnamed; `[]` altogether iff no group is named);
the match range and every participating capture range consist of char boundaries within the haystack. -/
theorem final_match_shape (hb : ∀ c ∈ pat, c ≤ 0x10FFFF) (hp : parse pat fl = .ok re)
    (hc : compile ofuel pat fl = .ok prog) (ht : IR.Utf8Text inp cs) (ex : Exec) (fuel : Nat) {start : Nat}
    (hs : VUtf8 inp start ∨ inp.len < start) {ms : List MatchR}
    (h : findIter ex prog inp start fuel = .ok ms) :
    ∀ m ∈ ms,
      m.captures.length = numGroups re.node ∧ m.NamesOK ∧
      (m.names = [] ∨ m.names.length = numGroups re.node) ∧
      ((∀ g ∈ groupList re.node, g.2.getD [] = []) → m.names = []) ∧
      ((∃ g ∈ groupList re.node, g.2.getD [] ≠ []) →
        ∀ id nm, (id, nm) ∈ groupList re.node → m.names[id]? = some (nm.getD [])) ∧
      (groupIds re.node).Perm (List.range (numGroups re.node)) ∧
      start ≤ m.range.1 ∧ m.range.1 ≤ m.range.2 ∧ m.range.2 ≤ inp.len ∧
      VUtf8 inp m.range.1 ∧ VUtf8 inp m.range.2 ∧
      (∀ a b, some (a, b) ∈ m.captures → a ≤ b ∧ b ≤ inp.len ∧ VUtf8 inp a ∧ VUtf8 inp b) := by
  have H := compiled_findHyp2 hb hp hc ht
  obtain ⟨hg, hperm, hlen, hnone, hsome⟩ := compiled_names_by_id hb hp hc
  intro m hm
  have V : start ≤ m.range.1 ∧ m.range.1 ≤ m.range.2 ∧ m.range.2 ≤ inp.len ∧
      VUtf8 inp m.range.1 ∧ VUtf8 inp m.range.2 ∧ m.captures.length = prog.groups ∧
      (∀ a b, some (a, b) ∈ m.captures → a ≤ b ∧ b ≤ inp.len ∧ VUtf8 inp a ∧ VUtf8 inp b) ∧
      m.names = prog.names ∧ m.NamesOK := by
    cases ex with
    | bt => exact (findIter_bt_valid_partial H fuel hs h).2.2.2.2 m hm
    | pk => exact (findIter_pk_valid_partial H fuel hs h).2.2.2.2 m hm
  obtain ⟨v1, v2, v3, v4, v5, v6, v7, v8, v9⟩ := V
  refine ⟨by rw [v6, hg], v9, by rw [v8, ← hg]; exact hlen, fun hn => by rw [v8]; exact hnone hn,
    fun hsm id nm hid => by rw [v8]; exact (hsome hsm).2 id nm hid, by rw [← hg]; exact hperm,
    v1, v2, v3, v4, v5, v7⟩

/-! ## 7. C17, C20 -/

/-- **`final_replace`** (C17; `Closure.replace_all_vm` without `simpleProg`, either executor).  The matches
of the running search from 0 on a compiled program are `Sorted`; hence `replace_all_with` keeps every
unmatched gap, and replacing every match by itself returns the haystack.  `text` = the haystack bytes. -/
theorem final_replace (hb : ∀ c ∈ pat, c ≤ 0x10FFFF) (hp : parse pat fl = .ok re)
    (hc : compile ofuel pat fl = .ok prog) (ht : IR.Utf8Text inp cs) (ex : Exec)
    (fuel : Nat) {ms : List MatchR} (hms : findIter ex prog inp 0 fuel = .ok ms) (f : MatchR → List Nat) :
    let text := inp.bytes.toList
    C17.Sorted text.length 0 ms ∧
    replaceAllWith text ms f =
      C17.interleave (C17.gaps text 0 ms) (ms.map f) ++ C17.tailGap text 0 ms ∧
    C17.interleave (C17.gaps text 0 ms) (ms.map (C17.matched text)) ++ C17.tailGap text 0 ms = text ∧
    replaceAllWith text ms (fun m => slice text m.range.1 m.range.2) = text :=
  replace_all_vm2 (compiled_findHyp2 hb hp hc ht) ex fuel hms f

/-- **`final_searcher`** (C20; `Closure.forward_tiles_vm` without `simpleProg`, anchored or not).  The steps
of `next()` on a fresh `RegexSearcher` over the running search of a compiled program tile `[0, len)` on
char boundaries without panic, their `Match` steps are exactly the ranges of `findIter … 0`, and any
interleaving of `next` / `next_back` hands out exactly those steps.  Kept: `NoFuelOut` (the budget
suffices for the search from every boundary). -/
theorem final_searcher (hb : ∀ c ∈ pat, c ≤ 0x10FFFF) (hp : parse pat fl = .ok re)
    (hc : compile ofuel pat fl = .ok prog) (ht : IR.Utf8Text inp cs)
    {fuel : Nat} (hf : NoFuelOut prog inp fuel) {ms : List MatchR}
    (hms : findIter .bt prog inp 0 fuel = .ok ms) :
    C20.CtxOK (searcherCtx prog inp fuel) ∧
    ∃ steps, forwardSteps (searcherCtx prog inp fuel) = some steps ∧
      steps.length ≤ 2 * inp.len + 1 ∧
      C20.tilesFrom inp.len 0 steps = true ∧
      C20.onBoundaries (searcherCtx prog inp fuel) steps = true ∧
      C20.matchesOf steps = ms.map (·.range) ∧
      ∀ ops, ∃ r mid, runOps (searcherCtx prog inp fuel) ops = .ok r ∧
        r.fronts ++ mid ++ r.backs.reverse = steps ∧
        (r.frontDone = true ∨ r.backDone = true → mid = []) :=
  ⟨ctxOK_findIter2 (compiled_findHyp2 hb hp hc ht) hf, forward_tiles_vm2 (compiled_findHyp2 hb hp hc ht) hf hms⟩

/-- … and with `fits`, the `Match` steps are the ranges of the unfold of the IR semantics of the parsed
tree. -/
theorem final_searcher_matches_spec (hb : ∀ c ∈ pat, c ≤ 0x10FFFF) (hp : parse pat fl = .ok re)
    (hc : compile ofuel pat fl = .ok prog) (ht : IR.Utf8Text inp cs) (hfit : fits inp.len re.node = true)
    (hu : prog.flags.unicode = inp.unicode)
    {fuel : Nat} (hf : NoFuelOut prog inp fuel) :
    ∃ steps, forwardSteps (searcherCtx prog inp fuel) = some steps ∧
      C20.tilesFrom inp.len 0 steps = true ∧
      C20.matchesOf steps = (unfoldIter (specEnv inp re.node prog) 0).map (·.range) := by
  have hv0 : VUtf8 inp 0 := vb_iff.mp (vb_zero ⟨ht.kind, ht.bytes, ht.scalar⟩)
  obtain ⟨ms, hms⟩ := hf 0 hv0
  obtain ⟨steps, h1, _, h3, _, h5, _⟩ := (final_searcher hb hp hc ht hf hms).2
  exact ⟨steps, h1, h3, by rw [h5, findIter_bt_spec hb hp hc ht hfit hu fuel (Or.inl hv0) hms]⟩

end Claims

/-! ## 8. C01: pattern TEXT in, ECMAScript specification out -/

section Printed
open Regress.Lower Regress.Print Regress.RoundTrip
variable {f : ES.Flags} {a : ES.Node} {r : Regex} {prog : Prog} {ofuel : Nat} {inp : Input} {cs : List Nat}

/-- **`final_printed_pattern`** (C01; `RoundTrip.printed_pattern_correct_pk/bt` with `fits` instead of
`maxOK`).  For every supported AST `a`, flags `f`, UTF-8 haystack `cs` that fits and start index `i`: the
program compiled from the TEXT `printPattern f a`, run by the PikeVM model and by the backtracker model
from the byte offset of `i`, returns exactly what the ECMAScript specification prescribes for `a` at `i` —
both fail, or both match with the same end and the same captures. -/
theorem final_printed_pattern
    (hsup : supported (normalize a) (irFlags f) (normalize a) = true)
    (hlex : lexOK a = true) (hnames : noDup a = true) (hcp : cpOK a = true)
    (hir : toIR f a = .ok r)
    (hc : C07.compile ofuel (printPattern f a) (irFlags f) = .ok prog)
    (ht : IR.Utf8Text inp cs) (hfit : fits inp.len r.node = true) (hiu : inp.unicode = (f.u || f.v))
    (i : Nat) (hi : i ≤ cs.length) (fuelES fuelVM : Nat)
    (hfES : ES.esFuelBound a cs.length ≤ fuelES) (hfVM : Pk.lookBound prog inp.len ≤ fuelVM) :
    match ES.matchAt cs.toArray a (ES.RER.ofFlags f (ES.countParens a)) fuelES i with
    | .outOfFuel => False
    | .failure =>
        (∃ steps peak, Pk.attempt prog inp fuelVM (Utf8.off cs i) = .failed steps peak) ∧
        (∃ st steps peak, Bt.attempt prog inp fuelVM (Utf8.off cs i) = .failed st steps peak)
    | .success y =>
        (∃ st steps peak,
          Pk.attempt prog inp fuelVM (Utf8.off cs i) = .matched (Utf8.off cs y.endIndex) st steps peak ∧
          Rel cs y { pos := Utf8.off cs y.endIndex, caps := Keystone.capsOfState st }) ∧
        (∃ st steps peak s,
          Bt.attempt prog inp fuelVM (Utf8.off cs i) = .matched (Utf8.off cs y.endIndex) st steps peak ∧
          Rel cs y s ∧ Bt.capsOf st = s.caps.map capRange) := by
  have hb := printPattern_bound f a hcp hlex
  have hp := parse_print hlex hnames hir
  obtain ⟨re', C⟩ := compiled_tree_fits hb hp hc hfit
  have hu : prog.flags.unicode = inp.unicode := by
    rw [C.pflags, toIR_flags hir, hiu]; rfl
  have hpk := pk_total hb hp hc ht hfit hu (p := Utf8.off cs i) ⟨i, hi, rfl⟩ fuelVM hfVM
  have hbt := bt_total hb hp hc ht hfit hu (p := Utf8.off cs i) ⟨i, hi, rfl⟩ fuelVM hfVM
  rcases lower_attempt_total hsup hir ht hiu i hi fuelES hfES with ⟨hm, hfm⟩ | ⟨y, s, hm, hfm, hrel⟩
  · rw [hm]
    rw [hfm] at hpk hbt
    exact ⟨hpk, hbt⟩
  · rw [hm]
    rw [hfm] at hpk hbt
    obtain ⟨st, steps, peak, ho, hcaps⟩ := hpk
    obtain ⟨st', steps', peak', ho', hcaps'⟩ := hbt
    refine ⟨⟨st, steps, peak, by rw [ho, hrel.pos], ?_⟩, ⟨st', steps', peak', s, by rw [ho', hrel.pos], hrel, hcaps'⟩⟩
    rw [hcaps, ← hrel.pos]
    exact hrel

end Printed

end Regress.Final

/-! ## Non-vacuity: a real compiled pattern that `maxOK` EXCLUDES

`/(?<n>a|b){1,18446744073709551615}(?<=[ab])\k<n>c{0,99999999999999999999}/`: a NAMED group inside a general
loop whose maximum is saturated (the loop resets the group), a LOOK-BEHIND, a (named) BACK-REFERENCE, a
`Loop1CharBody` whose maximum is saturated as well; start predicate `Set {a, b}` (not `Arbitrary`).
`fxProg` is the dump of the REAL compiler (`rvharness probe '' '…' 'ébbcc aa'`: `P 1 1 - 6e`, `S set 61 62`,
`I enterloop 0 1 inf 1 9` … `I loop1 0 inf 1`, matches `2..6 [Some(2..3)]`, `7..9 [Some(7..8)]`); the Lean
pipeline reproduces it (`fxCompile`).  `maxOK` fails for it, `fits (2^63)` holds. -/
namespace Regress.Final

section Examples
open Regress Regress.IR Regress.VM Regress.Parse Regress.Keystone Regress.C07 Regress.E2E Regress.Closure
open Regress.EndToEnd Regress.Certs Regress.Closure2 Regress.Api Regress.C09 Regress.VM.Safety

open Lean in
local macro "pat!" s:str : term => do
  let cs := s.getString.toList.map (fun c => Syntax.mkNumLit (toString c.toNat))
  `(([$(cs.toArray),*] : List Nat))

def fxPat : List Nat := pat! "(?<n>a|b){1,18446744073709551615}(?<=[ab])\\k<n>c{0,99999999999999999999}"
def fxRe : Regex := match parse fxPat {} with | .ok r => r | .error _ => ⟨.empty, {}⟩
/-- The dump of the real compiler. -/
def fxProg : Prog :=
  { insns := #[.enterLoop 0 1 none true 9, .resetCaptureGroup 0, .beginCaptureGroup 0, .alt 6, .byteSeq [0x61],
      .jump 7, .byteSeq [0x62], .endCaptureGroup 0, .loopAgain 0, .lookbehind false 1 1 12, .byteSet [0x61, 0x62],
      .goal, .backRef 0 false, .loop1 0 none true, .byteSeq [0x63], .goal],
    brackets := #[], loops := 1, groups := 1, flags := {}, names := [[0x6E]], startPred := .set [0x61, 0x62] }
/-- "ébbcc aa" (9 bytes; char boundaries 0 2 3 4 5 6 7 8 9). -/
def fxInp : Input :=
  { kind := .utf8, bytes := Utf8.text [0xE9, 0x62, 0x62, 0x63, 0x63, 0x20, 0x61, 0x61], unicode := false }
def fxCs : List Nat := [0xE9, 0x62, 0x62, 0x63, 0x63, 0x20, 0x61, 0x61]

theorem fxBnd : ∀ c ∈ fxPat, c ≤ 0x10FFFF := by decide
theorem fxParse : parse fxPat {} = .ok fxRe := by
  have h : (match parse fxPat {} with | .ok _ => true | .error _ => false) = true := by decide +kernel
  unfold fxRe
  split
  · rename_i heq; rw [heq]
  · rename_i heq; rw [heq] at h; cases h
theorem fxCompile : compile (compileFuel fxPat {}) fxPat {} = .ok fxProg := by
  have h : (match compile (compileFuel fxPat {}) fxPat {} with
      | .ok p => decide (p = fxProg) | .error _ => false) = true := by decide +kernel
  cases he : compile (compileFuel fxPat {}) fxPat {} with
  | error e => rw [he] at h; cases h
  | ok p => rw [he] at h; simp at h; rw [h]
/-- The old hypothesis fails, the new one holds — for every haystack of at most `2^63` bytes. -/
theorem fxMax : maxOK fxRe.node = false ∧ fits (2 ^ 63) fxRe.node = true := by decide +kernel
/-- The shape of the parsed tree: both loops carry `max = Some(usize::MAX)`. -/
theorem fxShape : (match fxRe.node with
    | .cat [.cat [.loop (.group 0 (some [0x6E]) (.alt (.char 0x61) (.char 0x62))) q1 0 1,
        .look false true 1 1 (.bracket _), .backRef 1 false, .loop (.char 0x63) q2 1 1], .goal] =>
      some (q1.min, q1.max, q2.min, q2.max)
    | _ => none) = some (1, some 18446744073709551615, 0, some 18446744073709551615) := by decide +kernel
attribute [irreducible] fxRe
theorem fxText : IR.Utf8Text fxInp fxCs := ⟨rfl, rfl, by decide⟩
theorem fxFit : fits fxInp.len fxRe.node = true := fits_mono (by decide) _ fxMax.2
theorem fxBoundary : AtBoundary fxCs 2 := ⟨1, by decide, by decide⟩
theorem fxV0 : VUtf8 fxInp 0 := by decide +kernel
theorem fxValid : C02Full.ValidAt fxInp 2 := validAt fxText fxBoundary

/-- 1. -/
example (fuel : Nat) : (match Pk.attemptAt fxProg fxInp fuel 2 2 with
     | .error _ => False
     | .matched e st _ _ => 2 ≤ e ∧ VUtf8 fxInp e ∧ e = st.pos ∧
         ∀ s e', some (s, e') ∈ Pk.capsOf st → VUtf8 fxInp s ∧ VUtf8 fxInp e' ∧ s ≤ e'
     | _ => True) :=
  ((final_safe fxBnd fxParse fxCompile).1 fxInp fxCs ⟨rfl, rfl, by decide⟩ 2 (by decide +kernel) fuel).2

/-- 2. -/
example (fuel : Nat) (hfuel : Pk.lookBound fxProg fxInp.len ≤ fuel) :
    (Bt.attempt fxProg fxInp fuel 2).within (Pk.lookBound fxProg fxInp.len) ∧
    (Pk.attempt fxProg fxInp fuel 2).within (Pk.lookBound fxProg fxInp.len) :=
  ⟨(final_terminates fxBnd fxParse fxCompile fxInp 2 fxValid fuel hfuel).1.1,
   (final_terminates fxBnd fxParse fxCompile fxInp 2 fxValid fuel hfuel).2⟩

example (fB fP : Nat) (hf : fP ≤ fB) :
    match Bt.attempt fxProg fxInp fB 2, Pk.attempt fxProg fxInp fP 2 with
    | .error _, _ => False
    | _, .error _ => False
    | _, .outOfFuel => True
    | .matched e st s _, .matched e' st' s' _ => e = e' ∧ Bt.capsOf st = Pk.capsOf st' ∧ s ≤ s'
    | .failed _ s _, .failed s' _ => s ≤ s'
    | _, _ => False :=
  final_executors_agree fxBnd fxParse fxCompile fxInp 2 fxValid fB fP hf

/-- 3. -/
example (fuel : Nat) (hfuel : Pk.lookBound fxProg fxInp.len ≤ fuel) :
    PkAgrees (Pk.attempt fxProg fxInp fuel 2) (firstMatch fxInp fxRe.node 2) ∧
    BtAgrees (Bt.attempt fxProg fxInp fuel 2) (firstMatch fxInp fxRe.node 2) :=
  final_attempt_is_ir_semantics fxBnd fxParse fxCompile fxText fxFit rfl fxBoundary fuel hfuel

/-- 4. -/
example (fuel : Nat) :
    collectK (searchEnvBt fxProg fxInp fuel) .btPrefix 0 = unfoldIter (searchEnvBt fxProg fxInp fuel) 0 :=
  (final_prefilter_transparent fxBnd fxParse fxCompile fxText fxFit rfl fuel (Or.inl fxV0)).1

/-- 5. -/
example (fuel : Nat) (ms : List MatchR) (h : findIter .bt fxProg fxInp 0 fuel = .ok ms) :
    ms = unfoldIter (specEnv fxInp fxRe.node fxProg) 0 :=
  (final_search_is_unfold fxBnd fxParse fxCompile fxText fxFit rfl (Or.inl fxV0)).1 fuel ms h

example (fuel : Nat) (ms : List MatchR) (h : findIter .pk fxProg fxInp 0 fuel = .ok ms) :
    ms = unfoldIter (specEnv fxInp fxRe.node fxProg) 0 :=
  (final_search_is_unfold fxBnd fxParse fxCompile fxText fxFit rfl (Or.inl fxV0)).2.1 fuel ms h

example (fuel : Nat) (ms : List MatchR) (h : findIter .pk fxProg fxInp 0 fuel = .ok ms) :
    ms.Pairwise (fun a b => a.range.2 ≤ b.range.1 ∧ a.range.1 < b.range.1) ∧ ms.length ≤ 10 := by
  have := final_search_laws fxBnd fxParse fxCompile fxText .pk fuel (Or.inl fxV0) h
  exact ⟨this.2.1, this.2.2.2.1 (by decide)⟩

/-- 6. -/
example (fuel : Nat) (ms : List MatchR) (h : findIter .bt fxProg fxInp 0 fuel = .ok ms) :
    ∀ m ∈ ms, m.captures.length = numGroups fxRe.node ∧ m.NamesOK ∧ VUtf8 fxInp m.range.1 ∧ VUtf8 fxInp m.range.2 :=
  fun m hm =>
    have := final_match_shape fxBnd fxParse fxCompile fxText .bt fuel (Or.inl fxV0) h m hm
    ⟨this.1, this.2.1, this.2.2.2.2.2.2.2.2.2.1, this.2.2.2.2.2.2.2.2.2.2.1⟩

/-- 7. -/
example (fuel : Nat) (ms : List MatchR) (h : findIter .bt fxProg fxInp 0 fuel = .ok ms) :
    replaceAllWith fxInp.bytes.toList ms (fun m => slice fxInp.bytes.toList m.range.1 m.range.2) =
      fxInp.bytes.toList :=
  (final_replace fxBnd fxParse fxCompile fxText .bt fuel h (fun _ => [])).2.2.2

example (fuel : Nat) (hf : NoFuelOut fxProg fxInp fuel) :
    ∃ steps, forwardSteps (searcherCtx fxProg fxInp fuel) = some steps ∧
      C20.tilesFrom fxInp.len 0 steps = true ∧
      C20.matchesOf steps = (unfoldIter (specEnv fxInp fxRe.node fxProg) 0).map (·.range) :=
  final_searcher_matches_spec fxBnd fxParse fxCompile fxText fxFit rfl hf

example (fuel : Nat) (hf : NoFuelOut fxProg fxInp fuel) (ms : List MatchR)
    (h : findIter .bt fxProg fxInp 0 fuel = .ok ms) : C20.CtxOK (searcherCtx fxProg fxInp fuel) :=
  (final_searcher fxBnd fxParse fxCompile fxText hf h).1

example (fuel : Nat) (it it' : Matches)
    (h : it.next (searchEnvPk fxProg fxInp fuel) (kindOf fxProg .pk) = (none, it')) : it' = it :=
  (final_search_fused fxProg fxInp .pk fuel it it' h).1

/-- What the running searches and the specification compute here (and the real engine:
`2..6 [Some(2..3)]`, `7..9 [Some(7..8)]`); the budget 1000 is one of the budgets the theorems cover. -/
example : (match findIter .bt fxProg fxInp 0 1000 with
    | .ok ms => decide (ms = [{ range := (2, 6), captures := [some (2, 3)], names := [[0x6E]] },
                              { range := (7, 9), captures := [some (7, 8)], names := [[0x6E]] }])
    | .error _ => false) = true := by decide +kernel
example : (match findIter .pk fxProg fxInp 0 1000 with
    | .ok ms => decide (ms = [{ range := (2, 6), captures := [some (2, 3)], names := [[0x6E]] },
                              { range := (7, 9), captures := [some (7, 8)], names := [[0x6E]] }])
    | .error _ => false) = true := by decide +kernel

/-- … and the specification side (the IR semantics of the parsed tree, maxima `2^64 - 1` and all). -/
example : (unfoldIter (specEnv fxInp fxRe.node fxProg) 0).map (fun m => (m.range, m.captures)) =
    [((2, 6), [some (2, 3)]), ((7, 9), [some (7, 8)])] := by decide +kernel

/-! ### 8. A printed pattern with a saturated quantifier -/

section PrintedExample
open Regress.Lower Regress.Print Regress.RoundTrip

/-- `/(?<=a)(?<n>b|c)\k<n>\1{1,18446744073709551615}?/`: a look-behind, a named group, a named and a numeric
back-reference, a lazy counted quantifier whose maximum is `usize::MAX` (`maxOK` fails). -/
def gx : ES.Node :=
  .cat [.look false false (.char 0x61), .group 1 (some [0x6E]) (.alt [.char 0x62, .char 0x63]), .nref [0x6E],
    .quant 1 (some 18446744073709551615) false (.bref 1)]

example : printPattern {} gx = pat! "(?<=a)(?<n>b|c)\\k<n>\\1{1,18446744073709551615}?" := by decide +kernel

theorem gx_ok : lexOK gx = true ∧ noDup gx = true ∧ cpOK gx = true ∧
    supported (normalize gx) (irFlags {}) (normalize gx) = true := by decide +kernel

def gxCheck : Bool :=
  match toIR {} gx with
  | .error _ => false
  | .ok r =>
    !E2E.maxOK r.node && fits (2 ^ 63) r.node &&
      (match C07.compile (C07.compileFuel (printPattern {} gx) (irFlags {})) (printPattern {} gx) (irFlags {}) with
       | .ok _ => true
       | .error _ => false)

theorem gxCheck_ok : gxCheck = true := by decide +kernel

/-- "abbb" -/
def gxInp : Input := { kind := .utf8, bytes := Utf8.text [0x61, 0x62, 0x62, 0x62], unicode := false }
theorem gxText : IR.Utf8Text gxInp [0x61, 0x62, 0x62, 0x62] := ⟨rfl, rfl, by decide⟩

/-- `final_printed_pattern` applies to `gx` on "abbb" from index 1 (where `maxOK` fails). -/
example : ∃ r prog, toIR {} gx = .ok r ∧ E2E.maxOK r.node = false ∧
    C07.compile (C07.compileFuel (printPattern {} gx) (irFlags {})) (printPattern {} gx) (irFlags {}) = .ok prog ∧
    ∀ (fuelES fuelVM : Nat), ES.esFuelBound gx 4 ≤ fuelES → Pk.lookBound prog gxInp.len ≤ fuelVM →
      match ES.matchAt ([0x61, 0x62, 0x62, 0x62] : List Nat).toArray gx (ES.RER.ofFlags {} (ES.countParens gx))
          fuelES 1 with
      | .outOfFuel => False
      | .failure =>
          (∃ steps peak, Pk.attempt prog gxInp fuelVM (Utf8.off [0x61, 0x62, 0x62, 0x62] 1) = .failed steps peak) ∧
          (∃ st steps peak, Bt.attempt prog gxInp fuelVM (Utf8.off [0x61, 0x62, 0x62, 0x62] 1) = .failed st steps peak)
      | .success y =>
          (∃ st steps peak,
            Pk.attempt prog gxInp fuelVM (Utf8.off [0x61, 0x62, 0x62, 0x62] 1) =
              .matched (Utf8.off [0x61, 0x62, 0x62, 0x62] y.endIndex) st steps peak ∧
            Rel [0x61, 0x62, 0x62, 0x62] y
              { pos := Utf8.off [0x61, 0x62, 0x62, 0x62] y.endIndex, caps := Keystone.capsOfState st }) ∧
          (∃ st steps peak s,
            Bt.attempt prog gxInp fuelVM (Utf8.off [0x61, 0x62, 0x62, 0x62] 1) =
              .matched (Utf8.off [0x61, 0x62, 0x62, 0x62] y.endIndex) st steps peak ∧
            Rel [0x61, 0x62, 0x62, 0x62] y s ∧ Bt.capsOf st = s.caps.map capRange) := by
  have hc := gxCheck_ok
  unfold gxCheck at hc
  cases h1 : toIR {} gx with
  | error e => rw [h1] at hc; cases hc
  | ok r =>
    rw [h1] at hc
    simp only [Bool.and_eq_true, Bool.not_eq_true'] at hc
    obtain ⟨⟨hmax, hfit⟩, hc⟩ := hc
    cases h2 : C07.compile (C07.compileFuel (printPattern {} gx) (irFlags {})) (printPattern {} gx) (irFlags {}) with
    | error e => rw [h2] at hc; cases hc
    | ok prog =>
      refine ⟨r, prog, rfl, hmax, rfl, fun fuelES fuelVM hfe hfv => ?_⟩
      exact final_printed_pattern gx_ok.2.2.2 gx_ok.1 gx_ok.2.1 gx_ok.2.2.1 h1 h2 gxText
        (fits_mono (by decide) _ hfit) rfl 1 (by decide) fuelES fuelVM hfe hfv

/-- The specification side of that instance: the match `1..4` with group 1 = `1..2`. -/
example : ES.esFuelBound gx 4 ≤ 50 ∧
    ES.matchAt #[0x61, 0x62, 0x62, 0x62] gx (ES.RER.ofFlags {} (ES.countParens gx)) 50 1 =
      .success ⟨4, [some (1, 2)]⟩ := by decide +kernel

end PrintedExample

/-! ### What remains excluded -/

/-- `/x{18446744073709551615}/`: minimum AND maximum saturated; `fits L` fails for every `L`. -/
theorem excluded_example :
    (match parse (pat! "x{18446744073709551615}") {} with
     | .ok ⟨.cat [.loop (.char 0x78) q 0 0, .goal], _⟩ => some (q.min, q.max, q.greedy)
     | _ => none) = some (18446744073709551615, some 18446744073709551615, true) ∧
    ∀ L, fits L (.cat [.loop (.char 0x78) ⟨18446744073709551615, some 18446744073709551615, true⟩ 0 0, .goal]) = false := by
  refine ⟨by decide +kernel, fun L => ?_⟩
  have := fitsQ_sat L 18446744073709551615 true
  simp only [fits, allQ, allQList, Bool.true_and, Bool.and_true]
  show fitsQ L ⟨18446744073709551615, some VM.USIZE_MAX, true⟩ = false
  rw [this]
  have : ¬ (18446744073709551615 + L + 2 ≤ VM.USIZE_MAX) := by unfold VM.USIZE_MAX; omega
  exact decide_eq_false this

/-- `/a{0,18446744073709551615}/` (`EndToEnd.saturated_max_example`: excluded by `maxOK`) fits every
haystack of fewer than `2^64 - 2` bytes. -/
example (L : Nat) : fits L (.cat [.loop (.char 0x61) ⟨0, some 18446744073709551615, true⟩ 0 0, .goal]) =
    decide (L + 2 ≤ 18446744073709551615) := by
  have := fitsQ_sat L 0 true
  simp only [fits, allQ, allQList, Bool.true_and, Bool.and_true]
  show fitsQ L ⟨0, some VM.USIZE_MAX, true⟩ = _
  rw [this]
  simp [VM.USIZE_MAX]

end Examples

end Regress.Final

#print axioms Regress.Final.final_safe
#print axioms Regress.Final.final_executors_agree
#print axioms Regress.Final.final_terminates
#print axioms Regress.Final.final_attempt_is_ir_semantics
#print axioms Regress.Final.final_prefilter_transparent
#print axioms Regress.Final.final_search_is_unfold
#print axioms Regress.Final.final_search_laws
#print axioms Regress.Final.final_search_fused
#print axioms Regress.Final.final_match_shape
#print axioms Regress.Final.final_replace
#print axioms Regress.Final.final_searcher
#print axioms Regress.Final.final_searcher_matches_spec
#print axioms Regress.Final.final_printed_pattern
#print axioms Regress.Final.firstMatch_unsat
#print axioms Regress.Final.optimize_sideP
#print axioms Regress.Final.keystone_attempt_fits
#print axioms Regress.Final.compile_correct_pk_fits
#print axioms Regress.Final.fits_of_maxOK
#print axioms Regress.Final.fits_mono
#print axioms Regress.Final.fxCompile
#print axioms Regress.Final.fxMax
#print axioms Regress.Final.excluded_example
