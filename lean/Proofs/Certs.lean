import Proofs.EndToEnd
import Proofs.Lemmas.CertsWfProg
import Proofs.Lemmas.CertsLoops
import Proofs.Lemmas.CertsLooks
import Proofs.Lemmas.CertsLookStruct
import Proofs.Lemmas.CertsPhase
import Proofs.Lemmas.CertsOrd
import Proofs.Lemmas.CertsMkOrd
import Proofs.Lemmas.CertsOpt2
import Proofs.Lemmas.CertsParse2
import Proofs.Lemmas.CertsUse
/-!
# Certs — the structural certificates of C02Full / C05Full / C06 hold of EVERY emitted program

The end-to-end theorems of `Proofs/EndToEnd.lean` carry decidable hypotheses about the compiled program
(`ProgPkOK`, `ProgOK`: `C06.wfProgFull`, `Pk.lookLoopProg`, `Sim.loopsStructured`,
`Sim.looksStructured`) that were checked per dumped program only.  Here they are PROVED for every
program the pipeline emits, by induction over the layout of the emitted code:

* `Proofs/Lemmas/CertsSk.lean` … `CertsCode.lean`: every `Keystone.Code` block (`emitNode_spec`) is the
  layout `Lay` of a skeleton `Sk` of structured code whose static properties follow from IR-level side
  conditions (`Proofs/Lemmas/CertsIR.lean`, `CertsIR2.lean`: `irOK2`);
* `CertsWf` (`wfProg`), `CertsLoops` (`loopsStructured`, the loop clauses of `lookLoopProg`),
  `CertsLooks` (`lookClosed`, `lookConfined`), `CertsLookStruct` (`looksStructured`), `CertsPhase`
  (the boundary certificate), `CertsOrd` (the capture-order certificate): one certificate each, from the
  layout of the root skeleton (`CertsEmit.Root`);
* `CertsOpt`/`CertsOpt2` (the optimizer preserves `irOK2`), `CertsParse`/`CertsParse2` (the parser
  establishes it).

## The data-flow certificates

`C06.wfProgFull` fixes the phase certificate to `mkCert prog` (one left-to-right pass) and the
capture-order certificate to `mkOrd prog` (a bounded round-robin fixpoint iteration).  Both are shown to
pass for every emitted program: `CertsPhase.Root.mkCert_eq` (the pass computes the explicit certificate
read off the skeleton) and `CertsMkOrd.Root.checkOrd_mk` (on structured code the iteration is stationary
after three sweeps: only loop back edges go backwards, and what they change is overwritten by the
`ResetCaptureGroup`s that follow the loop head; a stationary certificate dominating the explicit coarse
certificate of `CertsOrd` passes the checker).  Hence `ProgOK prog = true` literally
(`compiled_progOK`).  Independently, `Proofs/Lemmas/CertsUse.lean` restates the interpreter theorems for
`ProgCert prog` (both data-flow certificates existentially quantified), which is all they need.

## Hypotheses kept

* `maxOK re.node` (as in `EndToEnd.lean`: no braced quantifier with a saturated maximum; a decidable
  property of the PARSED tree) — only in the two theorems that mention the IR semantics
  (`compile_correct_pk_total`, `compile_correct_bt`);
* nothing else: `compiled_progCert`, `compiled_safe`, `compiled_executors_agree`, `compiled_terminates`
  hold for EVERY pattern/flags with `parse … = .ok re` and `compile … = .ok prog`
  (`Proofs/Lemmas/CertsParse2.lean`: the parser's output satisfies `irOK2`, in particular the pre-scan of
  the capture groups counts exactly the groups the recursive descent creates, so every back-reference
  names an existing group).
-/
namespace Regress.Certs

open Regress Regress.IR Regress.VM Regress.Parse Regress.Keystone Regress.C07 Regress.E2E Regress.Closure
open Regress.VM.Safety Regress.VM.Sim

/-! ## 1. Emitted programs -/

/-- `prog` is emitted from a tree satisfying the IR-level side conditions. -/
structure Emitted (r : Regex) (prog : Prog) : Prop where
  emit : VM.emit r = .ok prog
  wf : WF r.node
  groups : numGroups r.node ≤ 65535
  loops : numLoops r.node ≤ 65535
  ir : irOK2 r.node = true

theorem Emitted.irOK {r : Regex} {prog : Prog} (E : Emitted r prog) : irOK r.node = true := by
  have := E.ir; simp only [irOK2, Bool.and_eq_true] at this; exact this.1

theorem Emitted.exact {r : Regex} {prog : Prog} (E : Emitted r prog) : rangesExact r.node = true := by
  have := E.ir; simp only [irOK2, Bool.and_eq_true] at this; exact this.2

theorem Emitted.root {r : Regex} {prog : Prog} (E : Emitted r prog) :
    ∃ sk, Root r prog sk ∧ sk.begins.Nodup ∧ sk.rex = true := by
  obtain ⟨sk, R⟩ := emit_root E.emit E.wf E.groups E.loops E.irOK
  refine ⟨sk, R, ?_, R.rex E.exact⟩
  rw [R.begins]
  exact (groupIdsDense_spec (irOK_parts E.irOK).2.2.2.2).1

/-- **`emitted_wfProg`.** -/
theorem emitted_wfProg {r : Regex} {prog : Prog} (E : Emitted r prog) : wfProg prog = true :=
  emit_wfProg E.emit E.wf E.groups E.loops E.irOK

/-- **`emitted_loopsStructured`.** -/
theorem emitted_loopsStructured {r : Regex} {prog : Prog} (E : Emitted r prog) :
    loopsStructured prog = true := by
  obtain ⟨sk, R, _, _⟩ := E.root
  exact R.loopsStructured

/-- **`emitted_lookConfined`.** -/
theorem emitted_lookConfined {r : Regex} {prog : Prog} (E : Emitted r prog) : Bt.lookConfined prog = true := by
  obtain ⟨sk, R, _, _⟩ := E.root
  exact R.lookConfined

/-- **`emitted_looksStructured`.** -/
theorem emitted_looksStructured {r : Regex} {prog : Prog} (E : Emitted r prog) :
    looksStructured prog = true := by
  obtain ⟨sk, R, _, _⟩ := E.root
  exact R.looksStructured R.lookClosed

/-- **`emitted_lookLoopProg`.** -/
theorem emitted_lookLoopProg {r : Regex} {prog : Prog} (E : Emitted r prog) : Pk.lookLoopProg prog = true := by
  obtain ⟨sk, R, _, _⟩ := E.root
  simp only [Pk.lookLoopProg, Bool.and_eq_true, List.all_eq_true, List.mem_range]
  refine ⟨R.lookClosed, fun j hj => ?_⟩
  cases hi : prog.insns[j]? with
  | none => rfl
  | some i => exact R.lookInsnOk j i hi

/-- **`emitted_checkCert`**: the phase certificate computed by `mkCert` passes. -/
theorem emitted_checkCert {r : Regex} {prog : Prog} (E : Emitted r prog) :
    checkCert prog (mkCert prog) = true := by
  obtain ⟨sk, R, _, _⟩ := E.root
  exact R.checkCert_mk

/-- **`emitted_checkOrd`**: the capture-order certificate computed by `mkOrd` passes (the fixpoint
iteration converges — after at most three sweeps). -/
theorem emitted_checkOrd {r : Regex} {prog : Prog} (E : Emitted r prog) :
    checkOrd prog (mkOrd prog) = true := by
  obtain ⟨sk, R, hnd, hrex⟩ := E.root
  exact R.checkOrd_mk hnd hrex

/-- **All certificates.** -/
theorem emitted_progCert {r : Regex} {prog : Prog} (E : Emitted r prog) : ProgCert prog :=
  { wf := emitted_wfProg E
    cert := ⟨_, emitted_checkCert E⟩
    confined := emitted_lookConfined E
    ord := ⟨_, emitted_checkOrd E⟩
    lookLoop := emitted_lookLoopProg E
    loops := emitted_loopsStructured E
    looks := emitted_looksStructured E }

/-- **`C06.wfProgFull`** of every emitted program. -/
theorem emitted_wfProgFull {r : Regex} {prog : Prog} (E : Emitted r prog) : C06.wfProgFull prog = true := by
  simp [C06.wfProgFull, emitted_wfProg E, emitted_checkCert E, emitted_lookConfined E, emitted_checkOrd E]

/-- **`ProgOK`/`ProgPkOK`** (the hypotheses of `Proofs/EndToEnd.lean`) of every emitted program. -/
theorem emitted_progOK {r : Regex} {prog : Prog} (E : Emitted r prog) :
    EndToEnd.ProgOK prog = true ∧ EndToEnd.ProgPkOK prog = true := by
  have hfull := emitted_wfProgFull E
  simp [EndToEnd.ProgOK, EndToEnd.ProgPkOK, hfull, emitted_lookLoopProg E, emitted_loopsStructured E,
    emitted_looksStructured E]

/-! ## 2. Compiled programs -/

/-- **The compiled program is emitted from a tree satisfying the IR-level side conditions.** -/
theorem compiled_emitted {pat : List Nat} {fl : IR.Flags} {re : Regex} {prog : Prog} {ofuel : Nat}
    (hb : ∀ c ∈ pat, c ≤ 0x10FFFF) (hp : parse pat fl = .ok re) (hc : compile ofuel pat fl = .ok prog)
    : ∃ re', Emitted re' prog := by
  have ho := parse_output hb hp
  have hin := POut_optIn ho
  obtain ⟨_, hloops, hgroups⟩ := parse_side hb hp
  have hir : irOK2 re.node = true := parse_irOK2 hb hp
  unfold compile at hc
  rw [hp] at hc
  simp only at hc
  cases hno : fl.noOpt with
  | true =>
    simp only [hno, Bool.not_true, Bool.false_eq_true, if_false] at hc
    split at hc
    · cases hc
    · rename_i p he
      cases hc
      exact ⟨re, he, hin.1, hgroups, hloops, hir⟩
  | false =>
    simp only [hno, Bool.not_false, if_true] at hc
    split at hc
    · cases hc
    · rename_i re' hopt
      split at hc
      · cases hc
      · rename_i p he
        cases hc
        have hout := optimize_out hin (POut_sets ho) hopt
        have hside := optimize_side hin hopt
        exact ⟨re', he, hout.1.1.1, by rw [hout.2.1]; exact hgroups, Nat.le_trans hside.2.2.1 hloops,
          optimize_irOK2 hin hopt hir⟩

section Compiled
variable {pat : List Nat} {fl : IR.Flags} {re : Regex} {prog : Prog} {ofuel : Nat}

/-- **`compiled_progCert`**: every compiled program has all structural certificates. -/
theorem compiled_progCert (hb : ∀ c ∈ pat, c ≤ 0x10FFFF) (hp : parse pat fl = .ok re)
    (hc : compile ofuel pat fl = .ok prog) : ProgCert prog := by
  obtain ⟨re', E⟩ := compiled_emitted hb hp hc
  exact emitted_progCert E

/-- **`compiled_progOK`**: for every pattern/flags with `compile … = .ok prog`, the decidable
hypotheses `ProgOK prog` / `ProgPkOK prog` of `Proofs/EndToEnd.lean` hold. -/
theorem compiled_progOK (hb : ∀ c ∈ pat, c ≤ 0x10FFFF) (hp : parse pat fl = .ok re)
    (hc : compile ofuel pat fl = .ok prog) :
    EndToEnd.ProgOK prog = true ∧ EndToEnd.ProgPkOK prog = true := by
  obtain ⟨re', E⟩ := compiled_emitted hb hp hc
  exact emitted_progOK E

/-! ## 3. The end-to-end theorems without hypotheses on the program -/

open Regress.EndToEnd

theorem pk_fine' (P : ProgCert prog) {inp : Input} {cs : List Nat} (ht : IR.Utf8Text inp cs) {p : Nat}
    (hbd : AtBoundary cs p) (fuel : Nat) (hfuel : Pk.lookBound prog inp.len ≤ fuel) :
    Fine (Pk.attempt prog inp fuel p) := by
  have hterm := P.pk_terminates inp fuel p hfuel
  have herr := P.pk_no_error (EndToEnd.validAt ht hbd) fuel
  generalize Pk.attempt prog inp fuel p = o at hterm herr
  cases o with
  | matched _ _ _ _ => trivial
  | failed _ _ => trivial
  | outOfFuel => exact hterm.elim
  | error e => exact absurd rfl (herr e)

/-- **`compile_correct_pk_total`** (kept: `maxOK`).  For every pattern and flags, every
UTF-8 haystack, every char boundary `p` and every tick budget `≥ Pk.lookBound prog |haystack|`: the
PikeVM attempt fails iff the IR semantics of the parsed tree has no first match at `p`, and otherwise
matches with the same end and the same captures. -/
theorem compile_correct_pk_total (hb : ∀ c ∈ pat, c ≤ 0x10FFFF) (hp : parse pat fl = .ok re)
    (hc : compile ofuel pat fl = .ok prog) (hmax : maxOK re.node = true)
    {inp : Input} {cs : List Nat} (ht : IR.Utf8Text inp cs) (hu : prog.flags.unicode = inp.unicode)
    {p : Nat} (hbd : AtBoundary cs p) (fuel : Nat) (hfuel : Pk.lookBound prog inp.len ≤ fuel) :
    PkAgrees (Pk.attempt prog inp fuel p) (firstMatch inp re.node p) :=
  compile_correct_pk_partial hb hp hc hmax ht hu hbd fuel
    (pk_fine' (compiled_progCert hb hp hc) ht hbd fuel hfuel)

/-- **`compile_correct_bt`** (kept: `maxOK`).  The same for the backtracking executor. -/
theorem compile_correct_bt (hb : ∀ c ∈ pat, c ≤ 0x10FFFF) (hp : parse pat fl = .ok re)
    (hc : compile ofuel pat fl = .ok prog) (hmax : maxOK re.node = true)
    {inp : Input} {cs : List Nat} (ht : IR.Utf8Text inp cs) (hu : prog.flags.unicode = inp.unicode)
    {p : Nat} (hbd : AtBoundary cs p) (fuel : Nat) (hfuel : Pk.lookBound prog inp.len ≤ fuel) :
    BtAgrees (Bt.attempt prog inp fuel p) (firstMatch inp re.node p) := by
  have P := compiled_progCert hb hp hc
  have hP := compile_correct_pk_total hb hp hc hmax ht hu hbd _ (Nat.le_refl _)
  have hsim := P.executors_agree inp p (EndToEnd.validAt ht hbd) fuel (Pk.lookBound prog inp.len) hfuel
  unfold PkAgrees at hP
  unfold BtAgrees
  generalize Bt.attempt prog inp fuel p = ob at hsim
  generalize Pk.attempt prog inp (Pk.lookBound prog inp.len) p = op at hsim hP
  split at hP
  · obtain ⟨steps, peak, rfl⟩ := hP
    cases ob <;> simp only at hsim
    exact ⟨_, _, _, rfl⟩
  · rename_i σ _
    obtain ⟨st, steps, peak, rfl, hcaps⟩ := hP
    cases ob <;> simp only at hsim
    rename_i e stb s pk
    obtain ⟨rfl, hc2, _⟩ := hsim
    exact ⟨stb, s, pk, rfl, by rw [hc2, capsOf_eq, hcaps]⟩

/-- **`compiled_executors_agree`** (C02).  For every compiled pattern, every valid
haystack (`C02Full.ValidAt`: UTF-8 at a char boundary, or ASCII) and budgets `fP ≤ fB`: if the PikeVM
attempt does not run out of its budget then neither does the backtracker, both report the same match
end and captures or both fail, and neither reaches an error site. -/
theorem compiled_executors_agree (hb : ∀ c ∈ pat, c ≤ 0x10FFFF) (hp : parse pat fl = .ok re)
    (hc : compile ofuel pat fl = .ok prog)
    (inp : Input) (pos : Nat) (hv : C02Full.ValidAt inp pos) (fB fP : Nat) (hf : fP ≤ fB) :
    match Bt.attempt prog inp fB pos, Pk.attempt prog inp fP pos with
    | .error _, _ => False
    | _, .error _ => False
    | _, .outOfFuel => True
    | .matched e st s _, .matched e' st' s' _ => e = e' ∧ Bt.capsOf st = Pk.capsOf st' ∧ s ≤ s'
    | .failed _ s _, .failed s' _ => s ≤ s'
    | _, _ => False :=
  (compiled_progCert hb hp hc).executors_agree inp pos hv fB fP hf

/-- **`compiled_terminates`** (C05).  For every compiled pattern and every valid
haystack, with `B = Pk.lookBound prog |haystack|`: every attempt of the backtracking executor with a
tick budget `≥ B` ends — a match or a failure — within `B` ticks, and so does the PikeVM attempt. -/
theorem compiled_terminates (hb : ∀ c ∈ pat, c ≤ 0x10FFFF) (hp : parse pat fl = .ok re)
    (hc : compile ofuel pat fl = .ok prog)
    (inp : Input) (pos : Nat) (hv : C02Full.ValidAt inp pos) (fuel : Nat)
    (hfuel : Pk.lookBound prog inp.len ≤ fuel) :
    ((Bt.attempt prog inp fuel pos).within (Pk.lookBound prog inp.len) ∧
      Bt.attempt prog inp fuel pos ≠ .outOfFuel ∧ ∀ e, Bt.attempt prog inp fuel pos ≠ .error e) ∧
    (Pk.attempt prog inp fuel pos).within (Pk.lookBound prog inp.len) :=
  ⟨(compiled_progCert hb hp hc).bt_terminates inp pos hv fuel hfuel,
   (compiled_progCert hb hp hc).pk_terminates inp fuel pos hfuel⟩

/-- **`compiled_safe`** (C06).  For every compiled pattern: on every well-formed
UTF-8 haystack from every char boundary, and on every ASCII haystack from every offset `≤ len`, for
every tick budget, neither executor model reaches an error site (`Bt.Post`/the `match` are `False` on
`.error`); a reported match ends at a valid position `≥ pos`, every reported capture `(s, e)` consists
of valid positions with `s ≤ e`; a failed backtracker attempt leaves the capture groups as it found
them. -/
theorem compiled_safe (hb : ∀ c ∈ pat, c ≤ 0x10FFFF) (hp : parse pat fl = .ok re)
    (hc : compile ofuel pat fl = .ok prog) :
    (∀ (inp : Input) (cs : List Nat), Safety.Utf8Text inp cs → ∀ pos, VUtf8 inp pos → ∀ fuel,
      Bt.Post (fun e st' => pos ≤ e ∧ VUtf8 inp e ∧
          ∀ s e', some (s, e') ∈ Bt.capsOf st' → VUtf8 inp s ∧ VUtf8 inp e' ∧ s ≤ e')
        (fun st' => st'.groups = (Bt.freshState prog 0).groups) (Bt.attemptFresh prog inp fuel pos) ∧
      (match Pk.attemptAt prog inp fuel pos pos with
       | .error _ => False
       | .matched e st _ _ => pos ≤ e ∧ VUtf8 inp e ∧ e = st.pos ∧
           ∀ s e', some (s, e') ∈ Pk.capsOf st → VUtf8 inp s ∧ VUtf8 inp e' ∧ s ≤ e'
       | _ => True)) ∧
    (∀ (inp : Input), inp.kind = .ascii → ∀ pos, pos ≤ inp.len → ∀ fuel,
      Bt.Post (fun e st' => pos ≤ e ∧ e ≤ inp.len ∧
          ∀ s e', some (s, e') ∈ Bt.capsOf st' → s ≤ inp.len ∧ e' ≤ inp.len ∧ s ≤ e')
        (fun st' => st'.groups = (Bt.freshState prog 0).groups) (Bt.attemptFresh prog inp fuel pos) ∧
      (match Pk.attemptAt prog inp fuel pos pos with
       | .error _ => False
       | .matched e st _ _ => pos ≤ e ∧ e ≤ inp.len ∧ e = st.pos ∧
           ∀ s e', some (s, e') ∈ Pk.capsOf st → s ≤ inp.len ∧ e' ≤ inp.len ∧ s ≤ e'
       | _ => True)) := by
  have P := compiled_progCert hb hp hc
  obtain ⟨c, hcc⟩ := P.cert
  obtain ⟨c', hco⟩ := P.ord
  refine ⟨fun inp cs ht pos hv fuel => ⟨?_, ?_⟩, fun inp hk pos hpos fuel => ⟨?_, ?_⟩⟩
  · exact C06.Bt.Post.mono (C06.bt_safe_utf8_full P.wf hcc hco P.confined ht hv (C06.freshState_ok prog _ 0)
      (C06.freshState_clean prog 0) fuel fuel) (fun _ _ h => ⟨h.1, h.2.1, h.2.2.2⟩) (fun _ h => h.2)
  · exact C06.pk_safe_utf8_full P.wf hcc hco P.confined ht hv pos fuel
  · exact C06.Bt.Post.mono (C06.bt_safe_ascii_full P.wf hco P.confined hk hpos (C06.freshState_ok prog _ 0)
      (C06.freshState_clean prog 0) fuel fuel) (fun _ _ h => ⟨h.1, h.2.1, h.2.2.2⟩) (fun _ h => h.2)
  · exact C06.pk_safe_ascii_full P.wf hco P.confined hk hpos pos fuel


/-! ## 3b. The search theorems of `EndToEnd` (prefilter, iterator)

The remaining theorems of `Proofs/EndToEnd.lean`, with `ProgOK prog` discharged by `compiled_progOK`. -/

section Search
open Regress.Api Regress.Closure Regress.C09
variable {inp : Input} {cs : List Nat}

/-- `EndToEnd.prefilter_sound_emitted_partial` (kept: `maxOK`). -/
theorem prefilter_sound_emitted (hb : ∀ c ∈ pat, c ≤ 0x10FFFF) (hp : parse pat fl = .ok re)
    (hc : compile ofuel pat fl = .ok prog) (hmax : maxOK re.node = true)
    (ht : IR.Utf8Text inp cs) (hu : prog.flags.unicode = inp.unicode) (fuel : Nat) :
    StartPredSound prog.startPred inp (searchEnvBt prog inp fuel) :=
  EndToEnd.prefilter_sound_emitted_partial hb hp hc hmax (compiled_progOK hb hp hc).1 ht hu fuel

/-- `EndToEnd.prefilter_transparent_emitted_partial` (C04 end to end; kept: `maxOK`). -/
theorem prefilter_transparent_emitted (hb : ∀ c ∈ pat, c ≤ 0x10FFFF) (hp : parse pat fl = .ok re)
    (hc : compile ofuel pat fl = .ok prog) (hmax : maxOK re.node = true)
    (ht : IR.Utf8Text inp cs) (hu : prog.flags.unicode = inp.unicode) (fuel : Nat) {start : Nat}
    (hs : Safety.VUtf8 inp start ∨ inp.len < start) :
    collectK (searchEnvBt prog inp fuel) .btPrefix start = unfoldIter (searchEnvBt prog inp fuel) start ∧
    ∀ p, Safety.VUtf8 inp p → nextMatchPrefix (searchEnvBt prog inp fuel) p =
      nextMatchPrefix { searchEnvBt prog inp fuel with findBytes := some } p :=
  EndToEnd.prefilter_transparent_emitted_partial hb hp hc hmax (compiled_progOK hb hp hc).1 ht hu
    fuel hs

/-- `EndToEnd.findIter_spec_partial` (kept: `maxOK`; `Sim.simpleProg prog` and not start-anchored, as in `EndToEnd`). -/
theorem findIter_spec (hb : ∀ c ∈ pat, c ≤ 0x10FFFF) (hp : parse pat fl = .ok re)
    (hc : compile ofuel pat fl = .ok prog) (hmax : maxOK re.node = true)
    (hsimple : Sim.simpleProg prog = true) (hna : isAnchored prog = false)
    (ht : IR.Utf8Text inp cs) (hu : prog.flags.unicode = inp.unicode) (fuel : Nat)
    (hfuel : Pk.lookBound prog inp.len ≤ fuel) {start : Nat}
    (hs : Safety.VUtf8 inp start ∨ inp.len < start) {ms : List MatchR}
    (h : findIter .bt prog inp start fuel = .ok ms) :
    ms = unfoldIter (specEnv inp re.node prog) start :=
  EndToEnd.findIter_spec_partial hb hp hc hmax (compiled_progOK hb hp hc).1 hsimple hna ht hu fuel
    hfuel hs h

end Search

end Compiled

/-! ## 4. Non-vacuity: a real compiled pattern

`/(?:(a)|b){1,3}(?<=[ab])\1[\q{xy|z}]+?c*/v` (`rvharness probe 'v' …`): a general loop that resets a
capture group, a look-behind, a back-reference, a lazy general loop over a string set (`Alt`/`Jump`
chain), a `Loop1CharBody`. -/

section Examples
open Regress.EndToEnd Regress.Api

open Lean in
local macro "pat!" s:str : term => do
  let cs := s.getString.toList.map (fun c => Syntax.mkNumLit (toString c.toNat))
  `(([$(cs.toArray),*] : List Nat))

def cxFl : IR.Flags := { unicodeSets := true }
def cxPat : List Nat := pat! "(?:(a)|b){1,3}(?<=[ab])\\1[\\q{xy|z}]+?c*"
def cxRe : Regex := match parse cxPat cxFl with | .ok r => r | .error _ => ⟨.empty, {}⟩
/-- The dump of the real compiler. -/
def cxProg : Prog :=
  { insns := #[.enterLoop 0 1 (some 3) true 9, .resetCaptureGroup 0, .alt 7, .beginCaptureGroup 0, .byteSeq [0x61],
      .endCaptureGroup 0, .jump 8, .byteSeq [0x62], .loopAgain 0, .lookbehind false 1 1 12, .byteSet [0x61, 0x62],
      .goal, .backRef 0 false, .enterLoop 1 1 none false 19, .alt 17, .byteSeq [0x78, 0x79], .jump 18,
      .byteSeq [0x7a], .loopAgain 13, .loop1 0 none true, .byteSeq [0x63], .goal],
    brackets := #[], loops := 2, groups := 1, flags := { unicode := true, unicodeSets := true }, names := [],
    startPred := .set [0x61, 0x62] }
/-- "aaxyc" -/
def cxInp : Input := { kind := .utf8, bytes := Utf8.text [0x61, 0x61, 0x78, 0x79, 0x63], unicode := true }

theorem cxBnd : ∀ c ∈ cxPat, c ≤ 0x10FFFF := by decide
theorem cxParse : parse cxPat cxFl = .ok cxRe := by
  have h : (match parse cxPat cxFl with | .ok _ => true | .error _ => false) = true := by decide +kernel
  unfold cxRe
  split
  · rename_i heq; rw [heq]
  · rename_i heq; rw [heq] at h; cases h
theorem cxCompile : compile (compileFuel cxPat cxFl) cxPat cxFl = .ok cxProg := by
  have h : (match compile (compileFuel cxPat cxFl) cxPat cxFl with
      | .ok p => decide (p = cxProg) | .error _ => false) = true := by decide +kernel
  cases he : compile (compileFuel cxPat cxFl) cxPat cxFl with
  | error e => rw [he] at h; cases h
  | ok p => rw [he] at h; simp at h; rw [h]
theorem cxMax : maxOK cxRe.node = true := by decide +kernel
attribute [irreducible] cxRe
theorem cxText : IR.Utf8Text cxInp [0x61, 0x61, 0x78, 0x79, 0x63] := ⟨rfl, rfl, by decide⟩
theorem cxBoundary : AtBoundary [0x61, 0x61, 0x78, 0x79, 0x63] 0 := ⟨0, by decide, rfl⟩

/-- All certificates of the compiled program, from the general theorem … -/
example : ProgCert cxProg := compiled_progCert cxBnd cxParse cxCompile
/-- … and `ProgOK`, from the general theorem and, independently, evaluated. -/
example : ProgOK cxProg = true ∧ ProgPkOK cxProg = true := compiled_progOK cxBnd cxParse cxCompile
example : ProgOK cxProg = true := by decide +kernel

example (fuel : Nat) (hfuel : Pk.lookBound cxProg cxInp.len ≤ fuel) :
    PkAgrees (Pk.attempt cxProg cxInp fuel 0) (firstMatch cxInp cxRe.node 0) :=
  compile_correct_pk_total cxBnd cxParse cxCompile cxMax cxText rfl cxBoundary fuel hfuel

example (fuel : Nat) (hfuel : Pk.lookBound cxProg cxInp.len ≤ fuel) :
    BtAgrees (Bt.attempt cxProg cxInp fuel 0) (firstMatch cxInp cxRe.node 0) :=
  compile_correct_bt cxBnd cxParse cxCompile cxMax cxText rfl cxBoundary fuel hfuel

example (fuel : Nat) (hfuel : Pk.lookBound cxProg cxInp.len ≤ fuel) :
    (Bt.attempt cxProg cxInp fuel 0).within (Pk.lookBound cxProg cxInp.len) :=
  (compiled_terminates cxBnd cxParse cxCompile cxInp 0 (validAt cxText cxBoundary) fuel hfuel).1.1

/-- What the engines compute here (and the real engine: `rvharness probe` prints `0..5 [Some(0..1)]`): the
match `0..5` with group 1 = `0..1`. -/
example : (match Bt.attempt cxProg cxInp 200 0 with
    | .matched e st _ _ => some (e, Bt.capsOf st) | _ => none) = some (5, [some (0, 1)]) := by decide +kernel
example : (match Pk.attempt cxProg cxInp 200 0 with
    | .matched e st _ _ => some (e, Pk.capsOf st) | _ => none) = some (5, [some (0, 1)]) := by decide +kernel

end Examples

end Regress.Certs

#print axioms Regress.Certs.emitted_wfProg
#print axioms Regress.Certs.emitted_loopsStructured
#print axioms Regress.Certs.emitted_looksStructured
#print axioms Regress.Certs.emitted_lookLoopProg
#print axioms Regress.Certs.emitted_lookConfined
#print axioms Regress.Certs.emitted_checkCert
#print axioms Regress.Certs.emitted_checkOrd
#print axioms Regress.Certs.emitted_progCert
#print axioms Regress.Certs.compiled_progCert
#print axioms Regress.Certs.emitted_wfProgFull
#print axioms Regress.Certs.compiled_progOK
#print axioms Regress.Certs.prefilter_sound_emitted
#print axioms Regress.Certs.prefilter_transparent_emitted
#print axioms Regress.Certs.findIter_spec
#print axioms Regress.Certs.compile_correct_pk_total
#print axioms Regress.Certs.compile_correct_bt
#print axioms Regress.Certs.compiled_safe
#print axioms Regress.Certs.compiled_executors_agree
#print axioms Regress.Certs.compiled_terminates
