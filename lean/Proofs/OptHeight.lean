import Proofs.C07
import Proofs.Lemmas.OptHeight
/-!
# The height of the IR during and after optimization

`C07.ir_depth_bound` bounds the height of the tree the PARSER returns.  Every optimizer pass walks
the tree recursively (`walk_mut` → `MutWalker::process`, one native activation per nesting level;
`is_unrollable`, `contains_capture_groups`, `Node::try_duplicate` recurse the same way), and so do
`emit`, the start-predicate analysis and `drop`; what bounds their recursion depth is the height of
the tree *as the earlier passes left it*.  This file bounds that height.

`Node.height` (`RegressModel/IR/Walk.lean`: `1` for a node without children — including `Cat([])` —
and `1 + max` over the children otherwise) **is** the recursion depth of the walkers, for every node
kind: `walker_depth_exact` proves it for the fuelled model of `MutWalker::process` (one unit of fuel
per nested activation) — in post-order, with a visitor that does not fail, the walk runs out of fuel
iff `fuel < n.height`.  No other definition is needed.

Results (`C = 1`):

1. Node-local (`*_height`): whatever `simplify_brackets`, `decat`, `promote_1char_loops`,
   `form_literal_bytes`, `remove_empties`, `propagate_early_fails` answer on a node, the node they
   leave is not higher than the node they saw (`c = 0`).  `unroll_loops` (`unrollLoops_height`)
   answers `Keep`, or turns `Loop{body, min..max}` (height `h(body) + 1`) into
   `Cat[body × min]` (height `h(body) + 1`: `+ 0`) when `max = min`, or into
   `Cat[body × min, Loop{body, 0..max-min}]` (height `h(body) + 2`: exactly `+ 1`) otherwise.
2. Whole pass (`runPass_*_height`): `run_pass(f)` (= `run_to_fixpoint`) does not increase the height
   of the tree for the six passes; `run_pass(unroll_loops)` increases it by at most `1` — not by `1`
   per nested loop and not by `1` per fixpoint round: `is_unrollable` refuses a body that contains a
   loop, so on a root-to-leaf path at most one loop is unrolled with a residual loop, and a second
   walk over the result is the identity (`unroll_second_walk_id`).
   `passTrace_*_height`: the same for the tree after EVERY `run_postorder` of the fixpoint loop.
3. `optimize_height`: `optimize fuel re = .ok re' → re'.node.height ≤ re.node.height + 1`;
   `optimize_stage_heights`: the bound for the tree after each of the seven passes;
   `optimizeTrace_height`: the bound for every tree that exists between two walks of `optimize`
   (`optimizeTrace`, whose last element is the result: `optimizeTrace_last`).
4. `optimized_depth_bound`: for every parsed pattern the tree handed to `emit` has height
   `≤ MAX_NESTING_DEPTH * (⌊log₂(len+1)⌋ + 4) + 3 + 1`, with or without `no_opt`
   (`unoptimized_depth_bound`: without the `+ 1`); `optimize_walk_depth_bound`: every walk of
   `optimize` starts from a tree within that bound.

The recursion *inside* one walk: in post-order `process` recurses into the children before the
visitor sees the parent, so the depth of the `process` recursion of a walk is the height of the tree
the walk starts from (a tree of `optimizeTrace`); the visitor of `unroll_loops` additionally runs
`is_unrollable` on the (already walked) body of the loop it visits — by `UR` (lifted to every
subtree by `processPost_rel unrollLoops_lift`) at most one level higher than that body was when the
walk started — and `try_duplicate` only on a loop-free body, which by `UR` is at most as high as it
was when the walk started; so the native depth inside the walk stays within `height + 1` too.
-/
namespace Regress.OptHeight
open Regress Regress.IR Regress.Parse

/- ASCII pattern literal (as in `Proofs/C07.lean`). -/
open Lean in
local macro "pat!" s:str : term => do
  let cs := s.getString.toList.map (fun c => Syntax.mkNumLit (toString c.toNat))
  `(([$(cs.toArray),*] : List Nat))

/-! ## 0. `Node.height` is the recursion depth of `walk_mut` -/

/-- **`Node.height` is exactly the number of nested activations of `MutWalker::process`.** The
fuelled model `walkMut` of `walk_mut` spends one unit of fuel per nested activation of `process`;
in post-order (the optimizer's order), with a visitor that never fails, it runs out of fuel iff the
fuel is less than the height of the tree — whatever the visitor does to the nodes. -/
theorem walker_depth_exact {σ ε : Type} (f : Visitor σ ε) (hf : ∀ n w s, ∃ r, f n w s = .ok r)
    (unicode : Bool) (fuel : Nat) (n : Node) (s : σ) :
    walkMut f true unicode fuel n s = .error .fuel ↔ fuel < n.height := by
  constructor
  · intro h
    apply Nat.lt_of_not_le
    intro hle
    rw [walkMut_postorder_eq f unicode n fuel hle] at h
    cases hw : walkMutPost f unicode n s <;> rw [hw] at h <;> simp [liftErr] at h
  · intro h
    unfold walkMut
    rw [(process_fuel_lt f hf fuel n (Walk.new unicode) s).2 h]

/-- Non-vacuity: the identity visitor on a tree of height 3 needs exactly 3 units. -/
example :
    (match walkMut (σ := Unit) (ε := Unit) (fun n w s => .ok (n, w, s)) true false 2
        (.cat [.loop (.char 97) { min := 1, max := none, greedy := true } 0 0, .goal]) () with
      | .error .fuel => true | _ => false) = true ∧
    (match walkMut (σ := Unit) (ε := Unit) (fun n w s => .ok (n, w, s)) true false 3
        (.cat [.loop (.char 97) { min := 1, max := none, greedy := true } 0 0, .goal]) () with
      | .ok _ => true | _ => false) = true := by decide

/-! ## 1. One application of a pass to one node -/

/-- `simplify_brackets`: `c = 0`. -/
theorem simplifyBrackets_height (m : Node) (w : Walk) (a : PassAction)
    (h : simplifyBrackets m w = .ok a) : (a.result m).height ≤ m.height :=
  simplifyBrackets_nonInc m w a h

/-- `decat`: `c = 0`. -/
theorem decat_height (m : Node) (w : Walk) (a : PassAction)
    (h : decat m w = .ok a) : (a.result m).height ≤ m.height :=
  decat_nonInc m w a h

/-- `promote_1char_loops`: `c = 0`. -/
theorem promote1CharLoops_height (m : Node) (w : Walk) (a : PassAction)
    (h : promote1CharLoops m w = .ok a) : (a.result m).height ≤ m.height :=
  promote1CharLoops_nonInc m w a h

/-- `form_literal_bytes`: `c = 0`. -/
theorem formLiteralBytes_height (m : Node) (w : Walk) (a : PassAction)
    (h : formLiteralBytes m w = .ok a) : (a.result m).height ≤ m.height :=
  formLiteralBytes_nonInc m w a h

/-- `remove_empties`: `c = 0`. -/
theorem removeEmpties_height (m : Node) (w : Walk) (a : PassAction)
    (h : removeEmpties m w = .ok a) : (a.result m).height ≤ m.height :=
  removeEmpties_nonInc m w a h

/-- `propagate_early_fails`: `c = 0`. -/
theorem propagateEarlyFails_height (m : Node) (w : Walk) (a : PassAction)
    (h : propagateEarlyFails m w = .ok a) : (a.result m).height ≤ m.height :=
  propagateEarlyFails_nonInc m w a h

/-- **`unroll_loops` on one node, precisely**: it answers `Keep`; or the node is a `Loop` with
`min ≥ 1` whose body contains no loop, and it is replaced either by `Cat[body × min]` — the same
height — or by `Cat[body × min, Loop{body, min = 0}]` — exactly one level higher. -/
theorem unrollLoops_height (m : Node) (w : Walk) (a : PassAction) (h : unrollLoops m w = .ok a) :
    a = .keep ∨
    ∃ b q g0 g1, m = .loop b q g0 g1 ∧ 0 < q.min ∧ noLoop b = true ∧
      ((a.result m = .cat (List.replicate q.min b) ∧ (a.result m).height = m.height) ∨
       (∃ q', q'.min = 0 ∧ a.result m = .cat (List.replicate q.min b ++ [.loop b q' g0 g1]) ∧
          (a.result m).height = m.height + 1)) := by
  rcases unrollLoops_cases h with rfl | ⟨b, q, g0, g1, q', rfl, hnl, hpos, hq', rfl | rfl⟩
  · exact .inl rfl
  · refine .inr ⟨b, q, g0, g1, rfl, hpos, hnl, .inl ⟨rfl, ?_⟩⟩
    simp only [PassAction.result, height_cat, height_loop, heightList_replicate _ _ hpos]
  · refine .inr ⟨b, q, g0, g1, rfl, hpos, hnl, .inr ⟨q', hq', rfl, ?_⟩⟩
    simp only [PassAction.result, height_cat, height_loop, heightList_append,
      heightList_replicate _ _ hpos, heightList_singleton]
    omega

/-- In particular `c = 1` for one application of `unroll_loops` to one node. -/
theorem unrollLoops_height_le (m : Node) (w : Walk) (a : PassAction) (h : unrollLoops m w = .ok a) :
    (a.result m).height ≤ m.height + 1 := by
  rcases unrollLoops_height m w a h with rfl | ⟨b, q, g0, g1, _, _, _, ⟨_, e⟩ | ⟨_, _, _, e⟩⟩
  · exact Nat.le_succ _
  · omega
  · omega

/-- Non-vacuity: `(?:a.){2,}` really gets one level higher, `(?:a.){2}` does not. -/
example :
    let body : Node := .cat [.char 97, .matchAnyExceptLT]
    (match unrollLoops (.loop body { min := 2, max := none, greedy := true } 0 0) (Walk.new false) with
      | .ok a => (a.result .empty).height | .error _ => 0) = 4 ∧
    (match unrollLoops (.loop body { min := 2, max := some 2, greedy := true } 0 0) (Walk.new false) with
      | .ok a => (a.result .empty).height | .error _ => 0) = 3 ∧
    (Node.loop body { min := 2, max := none, greedy := true } 0 0).height = 3 := by decide

/-! ## 2. A whole pass (`run_pass` = `run_to_fixpoint`), and every tree between its walks -/

theorem runPass_simplifyBrackets_height {fuel : Nat} {r r' : Regex} {c : Bool}
    (h : runPass simplifyBrackets fuel r = .ok (r', c)) : r'.node.height ≤ r.node.height :=
  runPass_nonInc simplifyBrackets_nonInc h

theorem runPass_decat_height {fuel : Nat} {r r' : Regex} {c : Bool}
    (h : runPass decat fuel r = .ok (r', c)) : r'.node.height ≤ r.node.height :=
  runPass_nonInc decat_nonInc h

/-- **`run_pass(unroll_loops)` adds at most one level to the whole tree** (however many loops are
unrolled and however often the fixpoint loop runs). -/
theorem runPass_unrollLoops_height {fuel : Nat} {r r' : Regex} {c : Bool}
    (h : runPass unrollLoops fuel r = .ok (r', c)) : r'.node.height ≤ r.node.height + 1 :=
  runPass_unroll h

theorem runPass_promote1CharLoops_height {fuel : Nat} {r r' : Regex} {c : Bool}
    (h : runPass promote1CharLoops fuel r = .ok (r', c)) : r'.node.height ≤ r.node.height :=
  runPass_nonInc promote1CharLoops_nonInc h

theorem runPass_formLiteralBytes_height {fuel : Nat} {r r' : Regex} {c : Bool}
    (h : runPass formLiteralBytes fuel r = .ok (r', c)) : r'.node.height ≤ r.node.height :=
  runPass_nonInc formLiteralBytes_nonInc h

theorem runPass_removeEmpties_height {fuel : Nat} {r r' : Regex} {c : Bool}
    (h : runPass removeEmpties fuel r = .ok (r', c)) : r'.node.height ≤ r.node.height :=
  runPass_nonInc removeEmpties_nonInc h

theorem runPass_propagateEarlyFails_height {fuel : Nat} {r r' : Regex} {c : Bool}
    (h : runPass propagateEarlyFails fuel r = .ok (r', c)) : r'.node.height ≤ r.node.height :=
  runPass_nonInc propagateEarlyFails_nonInc h

/-- A walk of `unroll_loops` over the result of a walk of `unroll_loops` changes nothing (this is
why the fixpoint loop adds the level only once). -/
theorem unroll_second_walk_id {unicode : Bool} {n n1 n2 : Node} {c c1 c2 c3 : Bool}
    (h1 : runPostorder unrollLoops unicode n c = .ok (n1, c1))
    (h2 : runPostorder unrollLoops unicode n1 c2 = .ok (n2, c3)) : n2 = n1 :=
  runPostorder_rel unrollLoops_lift_id h2 (runPostorder_rel unrollLoops_lift_stable h1)

/-- The tree after EVERY `run_postorder` of the fixpoint loop of one of the six non-increasing
passes is at most as high as the tree the pass started from (`passTrace f fuel r`: the list of
these trees; its last element is the result of `run_pass`, `passTrace_last`). -/
theorem passTrace_height_of_nonInc {f : PassFn}
    (hf : ∀ m w a, f m w = .ok a → (a.result m).height ≤ m.height) (fuel : Nat) (r : Regex) :
    ∀ t ∈ passTrace f fuel r, t.height ≤ r.node.height :=
  fixpointTrace_nonInc hf r.flags.unicode fuel r.node

/-- … and for `unroll_loops` at most one level higher. -/
theorem passTrace_unrollLoops_height (fuel : Nat) (r : Regex) :
    ∀ t ∈ passTrace unrollLoops fuel r, t.height ≤ r.node.height + 1 :=
  fun t ht => (fixpointTrace_unroll r.flags.unicode fuel r.node t ht).1.1

/-! ## 3. `optimize` -/

/-- **The tree after each of the seven passes of `optimize`**: a successful `optimize` is the
sequence `simplify_brackets, decat, unroll_loops, promote_1char_loops, form_literal_bytes,
remove_empties, propagate_early_fails`, each run to its fixpoint exactly once (the outer `loop`
never repeats, `optimizeLoop_once`); before `unroll_loops` the tree is at most as high as the
input, from then on at most one level higher. -/
theorem optimize_stage_heights {fuel : Nat} {re re' : Regex} (h : optimize fuel re = .ok re') :
    ∃ r1 r2 r3 r4 r5 r6,
      runPass simplifyBrackets fuel re = .ok (r1, false) ∧
      runPass decat fuel r1 = .ok (r2, false) ∧
      runPass unrollLoops fuel r2 = .ok (r3, false) ∧
      runPass promote1CharLoops fuel r3 = .ok (r4, false) ∧
      runPass formLiteralBytes fuel r4 = .ok (r5, false) ∧
      runPass removeEmpties fuel r5 = .ok (r6, false) ∧
      runPass propagateEarlyFails fuel r6 = .ok (re', false) ∧
      r1.node.height ≤ re.node.height ∧
      r2.node.height ≤ r1.node.height ∧
      r3.node.height ≤ r2.node.height + 1 ∧
      r4.node.height ≤ r3.node.height ∧
      r5.node.height ≤ r4.node.height ∧
      r6.node.height ≤ r5.node.height ∧
      re'.node.height ≤ r6.node.height := by
  obtain ⟨r1, r2, r3, r4, r5, r6, e1, e2, e3, e4, e5, e6, e7⟩ := optimize_stages h
  exact ⟨r1, r2, r3, r4, r5, r6, e1, e2, e3, e4, e5, e6, e7,
    runPass_simplifyBrackets_height e1, runPass_decat_height e2, runPass_unrollLoops_height e3,
    runPass_promote1CharLoops_height e4, runPass_formLiteralBytes_height e5,
    runPass_removeEmpties_height e6, runPass_propagateEarlyFails_height e7⟩

/-- **`optimize` adds at most one level** (`C = 1`). -/
theorem optimize_height {fuel : Nat} {re re' : Regex} (h : optimize fuel re = .ok re') :
    re'.node.height ≤ re.node.height + 1 := by
  obtain ⟨r1, r2, r3, r4, r5, r6, _, _, _, _, _, _, _, h1, h2, h3, h4, h5, h6, h7⟩ :=
    optimize_stage_heights h
  omega

/-- **Every tree that exists between two walks of `optimize`** (`optimizeTrace fuel re`: the input,
then the tree after each `run_postorder` of each `run_to_fixpoint` of each pass — whether or not
`optimize` succeeds) is at most one level higher than the input. -/
theorem optimizeTrace_height (fuel : Nat) (re : Regex) :
    ∀ t ∈ optimizeTrace fuel re, t.height ≤ re.node.height + 1 := by
  intro t ht
  unfold optimizeTrace at ht
  rcases List.mem_cons.1 ht with rfl | ht
  · exact Nat.le_succ _
  -- a non-increasing pass keeps a bound `B`
  have step : ∀ {f : PassFn}, PassNonInc f → ∀ (fs : List PassFn) (B : Nat),
      (∀ r : Regex, r.node.height ≤ B → ∀ t ∈ tracePasses fuel fs r, t.height ≤ B) →
      ∀ r : Regex, r.node.height ≤ B → ∀ t ∈ tracePasses fuel (f :: fs) r, t.height ≤ B := by
    intro f hf fs B hfs r hr t ht
    unfold tracePasses at ht
    rcases List.mem_append.1 ht with ht | ht
    · exact Nat.le_trans (fixpointTrace_nonInc hf _ _ _ t ht) hr
    · split at ht
      · simp at ht
      · rename_i r' c e
        exact hfs r' (Nat.le_trans (runPass_nonInc hf e) hr) t ht
  have nil : ∀ (B : Nat) (r : Regex), r.node.height ≤ B → ∀ t ∈ tracePasses fuel [] r, t.height ≤ B := by
    intro B r _ t ht; simp [tracePasses] at ht
  -- after `unroll_loops`: bound `h + 1`
  have tail := step promote1CharLoops_nonInc _ _ (step formLiteralBytes_nonInc _ _
    (step removeEmpties_nonInc _ _ (step propagateEarlyFails_nonInc _ (re.node.height + 1) (nil _))))
  -- `unroll_loops`: from bound `h` to bound `h + 1`
  have unroll : ∀ r : Regex, r.node.height ≤ re.node.height →
      ∀ t ∈ tracePasses fuel [unrollLoops, promote1CharLoops, formLiteralBytes, removeEmpties,
        propagateEarlyFails] r, t.height ≤ re.node.height + 1 := by
    intro r hr t ht
    unfold tracePasses at ht
    rcases List.mem_append.1 ht with ht | ht
    · have := passTrace_unrollLoops_height fuel r t ht; omega
    · split at ht
      · simp at ht
      · rename_i r' c e
        have := runPass_unrollLoops_height e
        exact tail r' (by omega) t ht
  have head : ∀ r : Regex, r.node.height ≤ re.node.height →
      ∀ t ∈ tracePasses fuel pipeline r, t.height ≤ re.node.height + 1 := by
    intro r hr t ht
    unfold pipeline at ht
    unfold tracePasses at ht
    rcases List.mem_append.1 ht with ht | ht
    · have := fixpointTrace_nonInc simplifyBrackets_nonInc _ _ _ t ht; omega
    · split at ht
      · simp at ht
      · rename_i r1 c1 e1
        have h1 := runPass_nonInc simplifyBrackets_nonInc e1
        unfold tracePasses at ht
        rcases List.mem_append.1 ht with ht | ht
        · have := fixpointTrace_nonInc decat_nonInc _ _ _ t ht; omega
        · split at ht
          · simp at ht
          · rename_i r2 c2 e2
            have h2 := runPass_nonInc decat_nonInc e2
            exact unroll r2 (by omega) t ht
  exact head re (Nat.le_refl _) t ht

/-- The last tree of `optimizeTrace` is the result of `optimize`. -/
theorem optimizeTrace_last {fuel : Nat} {re re' : Regex} (h : optimize fuel re = .ok re') :
    (optimizeTrace fuel re).getLast? = some re'.node := by
  obtain ⟨r1, r2, r3, r4, r5, r6, e1, e2, e3, e4, e5, e6, e7⟩ := optimize_stages h
  have l7 := passTrace_last e7
  have ne : passTrace propagateEarlyFails fuel r6 ≠ [] := by
    intro hn; rw [hn] at l7; simp at l7
  unfold optimizeTrace pipeline
  simp only [tracePasses, e1, e2, e3, e4, e5, e6, e7, List.append_nil]
  rw [List.getLast?_cons]
  simp only [List.getLast?_append, l7]
  simp

/-! ## 4. Composition with the parser's bound -/

/-- Without optimization (`no_opt`) the emitter gets the parser's tree. -/
theorem unoptimized_depth_bound (pat : List Nat) (fl : IR.Flags) (re : Regex)
    (hb : ∀ c ∈ pat, c ≤ 0x10FFFF) (hp : parse pat fl = .ok re) :
    re.node.height ≤ Gen.MAX_NESTING_DEPTH * (Nat.log2 (pat.length + 1) + 4) + 3 :=
  C07.ir_depth_bound pat fl re hb hp

/-- **The tree handed to `emit`** (as in `C07.compile`: `optimize` unless `flags.no_opt`) has height
at most `MAX_NESTING_DEPTH · (⌊log₂(len+1)⌋ + 4) + 3 + 1`, for every pattern and all flags. -/
theorem optimized_depth_bound (pat : List Nat) (fl : IR.Flags) (re re' : Regex) (fuel : Nat)
    (hb : ∀ c ∈ pat, c ≤ 0x10FFFF) (hp : parse pat fl = .ok re)
    (ho : (if !fl.noOpt then optimize fuel re else .ok re) = .ok re') :
    re'.node.height ≤ Gen.MAX_NESTING_DEPTH * (Nat.log2 (pat.length + 1) + 4) + 3 + 1 := by
  have h0 := C07.ir_depth_bound pat fl re hb hp
  split at ho
  · have := optimize_height ho; omega
  · cases ho; omega

/-- The same in numbers: `256 · ⌊log₂(len+1)⌋ + 1028`. -/
theorem optimized_depth_bound' (pat : List Nat) (fl : IR.Flags) (re re' : Regex) (fuel : Nat)
    (hb : ∀ c ∈ pat, c ≤ 0x10FFFF) (hp : parse pat fl = .ok re)
    (ho : (if !fl.noOpt then optimize fuel re else .ok re) = .ok re') :
    re'.node.height ≤ 256 * Nat.log2 (pat.length + 1) + 1028 := by
  have := optimized_depth_bound pat fl re re' fuel hb hp ho
  simp only [Gen.MAX_NESTING_DEPTH] at this
  omega

/-- **Every walk of `optimize` starts from a tree within the bound**: each tree of `optimizeTrace`
(the trees `run_postorder` is called on, and the final one). -/
theorem optimize_walk_depth_bound (pat : List Nat) (fl : IR.Flags) (re : Regex) (fuel : Nat)
    (hb : ∀ c ∈ pat, c ≤ 0x10FFFF) (hp : parse pat fl = .ok re) :
    ∀ t ∈ optimizeTrace fuel re,
      t.height ≤ Gen.MAX_NESTING_DEPTH * (Nat.log2 (pat.length + 1) + 4) + 3 + 1 := by
  intro t ht
  have h0 := C07.ir_depth_bound pat fl re hb hp
  have := optimizeTrace_height fuel re t ht
  omega

/-! ## 5. Non-vacuity: the constant is attained -/

/-- The heights of the trees of `optimizeTrace`, and of the result. -/
def traceHeights (fuel : Nat) (pat : List Nat) : Option (Nat × List Nat × Nat) :=
  match parse pat {} with
  | .ok re =>
    match optimize fuel re with
    | .ok re' => some (re.node.height, (optimizeTrace fuel re).map Node.height, re'.node.height)
    | .error _ => none
  | .error _ => none

/-- **`C = 1` is attained**: `(?:a.){2,}` is parsed to `Cat[Loop{Cat[a, .]}, Goal]` (height 4) and
optimized to `Cat[Cat[Cat[a, .], Cat[a, .], Loop{Cat[a, .]}], Goal]` (height 5); the level appears
with `unroll_loops` (the fourth tree of the trace) and stays. -/
example : traceHeights 50 (pat! "(?:a.){2,}") = some (4, [4, 4, 4, 5, 5, 5, 5, 5, 5, 5], 5) := by
  decide +kernel

/-- With an exact count no residual loop is left and no level is added: `(?:ab){3}` goes from
height 4 to `Cat[Cat[a, b] × 3]` under the top-level `Cat` (height 4) and then, the literals being
merged, to height 3. -/
example : traceHeights 50 (pat! "(?:ab){3}") = some (4, [4, 4, 4, 4, 4, 4, 4, 4, 3, 3, 3], 3) := by
  decide +kernel

/-- `(?:ab){3,}`: one level more during the passes (5), given back when the literals are merged. -/
example : traceHeights 50 (pat! "(?:ab){3,}") = some (4, [4, 4, 4, 5, 5, 5, 5, 5, 4, 4, 4], 4) := by
  decide +kernel

/-- Nested unrolling still adds one level only: `(?:(?:a.){2}b){2,}`. -/
example : traceHeights 50 (pat! "(?:(?:a.){2}b){2,}") = some (6, [6, 6, 6, 7, 7, 7, 7, 7, 7, 7], 7) := by
  decide +kernel

/-- The hypotheses of `optimized_depth_bound` are satisfiable (and the bound holds with room). -/
example : ∃ re re', parse (pat! "(?:a.){2,}") {} = .ok re ∧
    (if !({} : IR.Flags).noOpt then optimize 50 re else .ok re) = .ok re' ∧
    re'.node.height = re.node.height + 1 := by
  have h : traceHeights 50 (pat! "(?:a.){2,}") = some (4, [4, 4, 4, 5, 5, 5, 5, 5, 5, 5], 5) := by
    decide +kernel
  unfold traceHeights at h
  split at h
  · rename_i re hp
    split at h
    · rename_i re' ho
      simp only [Option.some.injEq, Prod.mk.injEq] at h
      exact ⟨re, re', hp, by simpa using ho, by omega⟩
    · cases h
  · cases h

end Regress.OptHeight

#print axioms Regress.OptHeight.walker_depth_exact
#print axioms Regress.OptHeight.simplifyBrackets_height
#print axioms Regress.OptHeight.decat_height
#print axioms Regress.OptHeight.promote1CharLoops_height
#print axioms Regress.OptHeight.formLiteralBytes_height
#print axioms Regress.OptHeight.removeEmpties_height
#print axioms Regress.OptHeight.propagateEarlyFails_height
#print axioms Regress.OptHeight.unrollLoops_height
#print axioms Regress.OptHeight.unrollLoops_height_le
#print axioms Regress.OptHeight.runPass_simplifyBrackets_height
#print axioms Regress.OptHeight.runPass_decat_height
#print axioms Regress.OptHeight.runPass_unrollLoops_height
#print axioms Regress.OptHeight.runPass_promote1CharLoops_height
#print axioms Regress.OptHeight.runPass_formLiteralBytes_height
#print axioms Regress.OptHeight.runPass_removeEmpties_height
#print axioms Regress.OptHeight.runPass_propagateEarlyFails_height
#print axioms Regress.OptHeight.unroll_second_walk_id
#print axioms Regress.OptHeight.passTrace_height_of_nonInc
#print axioms Regress.OptHeight.passTrace_unrollLoops_height
#print axioms Regress.OptHeight.optimize_stage_heights
#print axioms Regress.OptHeight.optimize_height
#print axioms Regress.OptHeight.optimizeTrace_height
#print axioms Regress.OptHeight.optimizeTrace_last
#print axioms Regress.OptHeight.unoptimized_depth_bound
#print axioms Regress.OptHeight.optimized_depth_bound
#print axioms Regress.OptHeight.optimized_depth_bound'
#print axioms Regress.OptHeight.optimize_walk_depth_bound
