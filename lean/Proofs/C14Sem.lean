import Proofs.Lemmas.Sem16Link
import Proofs.Lemmas.SemWf
/-!
# C14 at the level of the semantics — UTF-16 / UCS-2 input

`RegressModel/IR/Sem16.lean` is the denotational semantics of the IR over `u16` input, reading
through the models of `Utf16Input` / `Ucs2Input` (`RegressModel/Text/Utf16.lean`) the way
`src/indexing.rs`, `src/matchers.rs`, `src/scm.rs` and `run_scm_loop` of
`src/classicalbacktrack.rs` do in the `utf16` build.  This file states C14 about it:

* `sem16_agrees` — on the UTF-16 encoding of a text the attempt at every char boundary and the
  search from every char boundary give the translation (end, every capture) of what `sem` gives on
  the UTF-8 encoding; `ucs2_agrees` — the same for `Ucs2Input` on text without supplementary
  characters.  The translation is `to16 cs`, which sends the UTF-8 offset of the `k`-th char boundary
  to its UTF-16 offset (`to16_spec`), and all offsets of the UTF-8 result are char boundaries.
* `form_literal_bytes_link` — the tree the `utf16` build executes (`optimize16`: `optimize` without
  `form_literal_bytes`) on the UTF-16 input versus the tree the default build executes (`optimize`) on
  the UTF-8 input.
* `sem16_total_arbitrary` — arbitrary code units (lone surrogates anywhere), any start index: no
  panic, no unbounded recursion, every reported offset inside the slice and, for `find_from_utf16`,
  none between the halves of a surrogate pair — with the pair check that commit 7fc34e1 added to
  `Utf16Input::subrange_eq`.  `regression_*`: without that check (the crate before 7fc34e1) a plain
  back-reference ends inside a pair, a greedy one-character loop then walks back past its start and
  hits `rs_unreachable!`, and under an enclosing loop the engine does not terminate.

Hypotheses kept: `WF n` (what the parser guarantees and the passes preserve, `Proofs/C03.lean`) and
`noByteNodes n` (decidable: no `ByteSequence`/`ByteSet` node, and every `Loop1CharBody` is followed by
a one-character instruction; the `utf16` build's `optimize` never forms byte nodes, and
`promote_1char_loops` only promotes such bodies).  In `form_literal_bytes_link`, `noByteNodes` of the
*output* of `optimize16` is a hypothesis (checked by evaluation in the examples; not proved from
`noByteNodes` of the parser's tree).
-/
namespace Regress.C14Sem

open Regress.IR Regress.VM Regress
open Regress.Utf16 (off16 text16)
open Regress.Utf8 (AllScalar)

/-- The UTF-8 input holding the text `cs`. -/
def input8 (cs : List Nat) (unicode : Bool) : Input := { kind := .utf8, bytes := Utf8.text cs, unicode := unicode }

/-- The `u16` input holding the text `cs` (`ucs2`: read by `Ucs2Input`). -/
def input16 (cs : List Nat) (unicode : Bool) (ucs2 : Bool := false) : Input16 :=
  { ucs2 := ucs2, units := text16 cs, unicode := unicode }

theorem sameText_utf16 {cs : List Nat} (hcs : AllScalar cs) (unicode : Bool) :
    SameText (input8 cs unicode) (input16 cs unicode) cs :=
  ⟨⟨rfl, rfl, hcs⟩, ⟨rfl, hcs, Or.inl rfl⟩, rfl⟩

theorem sameText_ucs2 {cs : List Nat} (hcs : AllScalar cs) (hbmp : ∀ c ∈ cs, c < 0x10000) (unicode : Bool) :
    SameText (input8 cs unicode) (input16 cs unicode true) cs :=
  ⟨⟨rfl, rfl, hcs⟩, ⟨rfl, hcs, Or.inr hbmp⟩, rfl⟩

/-- **The offset translation**: the UTF-8 offset of the `k`-th char boundary goes to its UTF-16
offset (`Proofs/C14.lean: offset_translation`: both are strictly monotone in `k`). -/
theorem to16_spec (cs : List Nat) {k : Nat} (hk : k ≤ cs.length) : to16 cs (Utf8.off cs k) = off16 cs k :=
  to16_off cs hk

/-- Every offset of a UTF-8 search result is a char boundary (so that `to16 cs` translates it). -/
theorem semFind_good {inp8 : Input} {cs : List Nat} (ht : Utf8Text inp8 cs) {n : Node} (hw : WF n) :
    ∀ (k start p : Nat) (s : St), semFindFrom inp8 n k start = some (p, s) → AtBoundary cs p ∧ Good cs s := by
  intro k
  induction k with
  | zero => intro _ _ _ h; cases h
  | succ k ih =>
    intro start p s h
    simp only [semFindFrom] at h
    split at h
    · cases h
    · rename_i hle
      split at h
      · rename_i hbd
        have hb : AtBoundary cs start := (atBoundary_iff ht (by omega)).2 hbd
        cases hfm : firstMatch inp8 n start with
        | none => rw [hfm] at h; exact ih _ _ _ h
        | some s' =>
          rw [hfm] at h
          simp only [Option.some.injEq, Prod.mk.injEq] at h
          obtain ⟨rfl, rfl⟩ := h
          exact ⟨hb, sem_good ht n true _ _ hw (good_initSt16 cs n hb) (List.mem_of_mem_head? hfm)⟩
      · exact ih _ _ _ h

/-- **C14, agreement.** `inp8` / `inp16` hold the same text `cs` (UTF-8 / UTF-16, or UCS-2 if `cs` is
BMP-only) with the same `unicode` flag; `n` is well formed and has no byte-level nodes.  At the
`i`-th char boundary: the attempt and the search on the `u16` input give the `to16 cs`-translation
(end and every capture) of what they give on the UTF-8 input, and all offsets translated are char
boundaries.  In particular the `u16` run neither panics nor exhausts a loop budget. -/
theorem sem16_agrees {inp8 : Input} {inp16 : Input16} {cs : List Nat} (h : SameText inp8 inp16 cs) {n : Node}
    (hw : WF n) (hn : noByteNodes n = true) {i : Nat} (hi : i ≤ cs.length) :
    firstMatch16 inp16 n (off16 cs i) =
        (firstMatch inp8 n (Utf8.off cs i)).map (fun s => Out.ok (s.mapPos (to16 cs))) ∧
    semFind16 inp16 n (off16 cs i) = findMap (to16 cs) (semFind inp8 n (Utf8.off cs i)) ∧
    (∀ s, firstMatch inp8 n (Utf8.off cs i) = some s → Good cs s) ∧
    (∀ p s, semFind inp8 n (Utf8.off cs i) = some (p, s) → AtBoundary cs p ∧ Good cs s) := by
  have hb : AtBoundary cs (Utf8.off cs i) := ⟨i, hi, rfl⟩
  refine ⟨?_, semFind16_sim h hw hn hi, ?_, ?_⟩
  · have := firstMatch16_sim h hw hn hb
    rw [to16_off cs hi] at this
    exact this
  · intro s hs
    exact sem_good h.t8 n true _ _ hw (good_initSt16 cs n hb) (List.mem_of_mem_head? hs)
  · intro p s hs
    exact semFind_good h.t8 hw _ _ _ _ hs

/-- **C14, UTF-16.** -/
theorem utf16_agrees {cs : List Nat} (hcs : AllScalar cs) (unicode : Bool) {n : Node} (hw : WF n)
    (hn : noByteNodes n = true) {i : Nat} (hi : i ≤ cs.length) :
    firstMatch16 (input16 cs unicode) n (off16 cs i) =
        (firstMatch (input8 cs unicode) n (Utf8.off cs i)).map (fun s => Out.ok (s.mapPos (to16 cs))) ∧
    semFind16 (input16 cs unicode) n (off16 cs i) =
        findMap (to16 cs) (semFind (input8 cs unicode) n (Utf8.off cs i)) :=
  ⟨(sem16_agrees (sameText_utf16 hcs unicode) hw hn hi).1, (sem16_agrees (sameText_utf16 hcs unicode) hw hn hi).2.1⟩

/-- **C14, UCS-2**: on text without supplementary characters `find_from_ucs2` agrees as well. -/
theorem ucs2_agrees {cs : List Nat} (hcs : AllScalar cs) (hbmp : ∀ c ∈ cs, c < 0x10000) (unicode : Bool) {n : Node}
    (hw : WF n) (hn : noByteNodes n = true) {i : Nat} (hi : i ≤ cs.length) :
    firstMatch16 (input16 cs unicode true) n (off16 cs i) =
        (firstMatch (input8 cs unicode) n (Utf8.off cs i)).map (fun s => Out.ok (s.mapPos (to16 cs))) ∧
    semFind16 (input16 cs unicode true) n (off16 cs i) =
        findMap (to16 cs) (semFind (input8 cs unicode) n (Utf8.off cs i)) :=
  ⟨(sem16_agrees (sameText_ucs2 hcs hbmp unicode) hw hn hi).1,
   (sem16_agrees (sameText_ucs2 hcs hbmp unicode) hw hn hi).2.1⟩

/-- **The two builds.** `r8` is what the default build executes (`optimize`, with
`form_literal_bytes`, `Proofs/C03.lean: form_literal_bytes_preserves`), `r16` what the `utf16` build
executes (`optimize16`), both from the parser's tree `r`.  The `utf16` build on the UTF-16 input
gives the translation of what the default build gives on the UTF-8 input. -/
theorem form_literal_bytes_link {inp8 : Input} {inp16 : Input16} {cs : List Nat} (h : SameText inp8 inp16 cs)
    {fuel fuel' : Nat} {r r8 r16 : Regex} (hw : WF r.node) (h8 : optimize fuel r = .ok r8)
    (h16 : optimize16 fuel' r = .ok r16) (hn : noByteNodes r16.node = true) {i : Nat} (hi : i ≤ cs.length) :
    firstMatch16 inp16 r16.node (off16 cs i) =
        (firstMatch inp8 r8.node (Utf8.off cs i)).map (fun s => Out.ok (s.mapPos (to16 cs))) ∧
    semFind16 inp16 r16.node (off16 cs i) = findMap (to16 cs) (semFind inp8 r8.node (Utf8.off cs i)) := by
  have hb : AtBoundary cs (Utf8.off cs i) := ⟨i, hi, rfl⟩
  have hw16 := (optimize16_preserves h.t8 h16 hw).1
  have ha := sem16_agrees h hw16 hn hi
  rw [C03.optimize_same_attempt h.t8 h8 hw hb, C03.optimize_same_match h.t8 h8 hw,
    ← optimize16_same_attempt h.t8 h16 hw hb, ← optimize16_same_match h.t8 h16 hw]
  exact ⟨ha.1, ha.2.1⟩

/-- **C14, arbitrary code units.** Any array of units (lone surrogates anywhere), `Ucs2Input` or
`Utf16Input` with the pair check of `subrange_eq`, any tree without byte-level nodes, any start
index: the search (a total function) does not panic and does not exhaust a loop budget; a match
starts at or after the (adjusted) start index, ends at or after its start, and every reported offset
(start, end, every capture) is inside the slice and — for `Utf16Input` — not between the halves of a
surrogate pair (`ValidPos`).  A start index beyond the slice gives no match. -/
theorem sem16_total_arbitrary (inp : Input16) (hflag : inp.ucs2 = true ∨ inp.pairCheck = true) {n : Node}
    (hn : noByteNodes n = true) (start : Nat) :
    (semFind16 inp n start = .noMatch ∨
      ∃ p s, semFind16 inp n start = .found p s ∧ ValidPos inp p ∧ snapStart inp start ≤ p ∧ p ≤ s.pos ∧
        ValidPos inp s.pos ∧
        ∀ c ∈ s.caps, (∀ a, c.1 = some a → ValidPos inp a) ∧ (∀ b, c.2 = some b → ValidPos inp b)) ∧
    (inp.len < start → semFind16 inp n start = .noMatch) ∧
    (snapStart inp start = start ∨ (inp.ucs2 = false ∧ snapStart inp start + 1 = start ∧
      splitsPair inp.units start = true)) := by
  refine ⟨?_, ?_, ?_⟩
  · rcases semFind16_total hflag hn start with h | ⟨p, s, h, h1, h2, h3, h4⟩
    · exact Or.inl h
    · exact Or.inr ⟨p, s, h, h1, h2, h4, h3.1, h3.2⟩
  · intro hlt
    have hs : snapStart inp start = start := by
      unfold snapStart
      have : inp.units[start]? = none := Array.getElem?_eq_none (by unfold Input16.len at hlt; omega)
      split
      · rfl
      · rw [this]
        split <;> simp_all
    unfold semFind16
    simp only [hs]
    rw [if_pos hlt]
  · unfold snapStart
    cases hu : inp.ucs2
    · simp only [Bool.false_eq_true, if_false]
      by_cases h0 : start = 0
      · left; simp [h0]
      · have hb : (start == 0) = false := by simpa using h0
        simp only [hb, Bool.false_eq_true, if_false]
        cases h1 : inp.units[start - 1]? with
        | none => left; rfl
        | some a =>
          cases h2 : inp.units[start]? with
          | none => left; rfl
          | some b =>
            simp only
            by_cases hc : (Utf16.isHighSurrogate a && Utf16.isLowSurrogate b) = true
            · right
              simp only [hc, if_true]
              have hlt : start < inp.units.size := (Array.getElem?_eq_some_iff.mp h2).1
              refine ⟨trivial, by omega, ?_⟩
              unfold splitsPair
              simp only [h1, h2, hc, hlt, decide_true, Bool.and_true, decide_eq_true_eq]
              omega
            · left; simp only [hc, Bool.false_eq_true, if_false]
    · left; rfl

/-! ## Regressions: the crate before 7fc34e1 (`pairCheck := false`) -/

/-- `/(.)A\1.*X/` as the `utf16` build compiles it. -/
def rePanic : Node :=
  .cat [.group 0 none .matchAnyExceptLT, .char 0x41, .backRef 1 false,
    .loop1 .matchAnyExceptLT ⟨0, none, true⟩, .char 0x58, .goal]

/-- `/(.)A\1/`. -/
def reMid : Node := .cat [.group 0 none .matchAnyExceptLT, .char 0x41, .backRef 1 false, .goal]

/-- `/(?:(.)A\1.*)*Z/`. -/
def reDiverge : Node :=
  .cat [.loop (.cat [.group 0 none .matchAnyExceptLT, .char 0x41, .backRef 1 false,
      .loop1 .matchAnyExceptLT ⟨0, none, true⟩]) ⟨0, none, true⟩ 0 1, .char 0x5A, .goal]

/-- `Utf16Input` over `u`; `fixed = false`: `subrange_eq` as it was before 7fc34e1. -/
def utf16In (u : List Nat) (fixed : Bool) : Input16 := { ucs2 := false, units := u.toArray, unicode := false, pairCheck := fixed }

example : noByteNodes rePanic = true ∧ noByteNodes reMid = true ∧ noByteNodes reDiverge = true := by decide

/-- Before the fix a plain back-reference to a lone high surrogate matched the first half of a pair:
the match ends between the halves (offset 3 of `D83D 0041 [D83D DE00]`). -/
theorem regression_mid_pair_end :
    semFind16 (utf16In [0xD83D, 0x41, 0xD83D, 0xDE00] false) reMid 0 =
      .found 0 { pos := 3, caps := [(some 0, some 1)] } ∧
    splitsPair #[0xD83D, 0x41, 0xD83D, 0xDE00] 3 = true ∧
    semFind16 (utf16In [0xD83D, 0x41, 0xD83D, 0xDE00] true) reMid 0 = .noMatch := by decide +kernel

/-- … a greedy one-character loop after it then walked back over the whole pair, past its own start,
down to offset 0, and hit `rs_unreachable!` (a panic with `prohibit-unsafe`, undefined behaviour
otherwise) — from start index 0, so the fix of F18 did not cover it. -/
theorem regression_panic :
    semFind16 (utf16In [0xD83D, 0x41, 0xD83D, 0xDE00] false) rePanic 0 = .panic ∧
    semFind16 (utf16In [0xD83D, 0x41, 0xD83D, 0xDE00] true) rePanic 0 = .noMatch := by decide +kernel

/-- … and under an enclosing loop the walk back yields positions *before* the iteration's entry, the
loop re-enters there (entry ≠ position, so the empty-iteration rule does not fire), and the engine
recursed without bound (observed: the backtrack stack grew until allocation failed).  In the model
the loop budget — never exhausted when the cursor only moves in the direction of travel — runs out. -/
theorem regression_divergence :
    semFind16 (utf16In [0xD83D, 0x41, 0xD83D, 0xDE00, 0xD83D, 0x41, 0xD83D, 0xDE00] false) reDiverge 0 = .budget ∧
    semFind16 (utf16In [0xD83D, 0x41, 0xD83D, 0xDE00, 0xD83D, 0x41, 0xD83D, 0xDE00] true) reDiverge 0 = .noMatch := by
  decide +kernel

/-- `/.{0,2}(s)|./u` (F18): a start index between the halves of a pair designates the pair
(`find_from_utf16`), and is taken literally by `find_from_ucs2`. -/
def reF18 : Node :=
  .cat [.alt (.cat [.loop1 .matchAnyExceptLT ⟨0, some 2, true⟩, .group 0 none (.char 0x73)]) .matchAnyExceptLT, .goal]

theorem f18_start_inside_pair :
    snapStart { ucs2 := false, units := #[0xDAAA, 0xDE00], unicode := true } 1 = 0 ∧
    semFind16 { ucs2 := false, units := #[0xDAAA, 0xDE00], unicode := true } reF18 1 =
      .found 0 { pos := 2, caps := [(none, none)] } ∧
    semFind16 { ucs2 := true, units := #[0xDAAA, 0xDE00], unicode := true } reF18 1 =
      .found 1 { pos := 2, caps := [(none, none)] } := by decide +kernel

/-- What the `utf16` build would do with a byte-level node: `match_bytes` of `Utf16Input` panics. -/
example : semFind16 (utf16In [0x61] true) (.cat [.byteSeq [0x61], .goal]) 0 = .panic := by decide +kernel

/-! ## Non-vacuity -/

/-- `/(?<=(\u{1F600}))\1[kKK]/iu`-like tree: a look-behind with a capture, a case-insensitive
back-reference to it, a case-folded set. -/
def exNode : Node :=
  .cat [.look false true 0 1 (.group 0 none (.char 0x1F600)), .backRef 1 true, .charSet [0x4B, 0x6B, 0x212A], .goal]

/-- `😀😀K` (KELVIN SIGN) `a`. -/
def exText : List Nat := [0x1F600, 0x1F600, 0x212A, 0x61]

example : AllScalar exText := by decide
example : WF exNode := wfNode_sound exNode (by decide)
example : noByteNodes exNode = true := by decide
example : text16 exText = #[0xD83D, 0xDE00, 0xD83D, 0xDE00, 0x212A, 0x61] := by decide
example : (List.range 5).map (Utf8.off exText) = [0, 4, 8, 11, 12] ∧ (List.range 5).map (off16 exText) = [0, 2, 4, 5, 6] := by
  decide
/-- The UTF-8 search: bytes 4..11, group 1 = bytes 0..4. -/
example : semFind (input8 exText true) exNode 0 = some (4, { pos := 11, caps := [(some 0, some 4)] }) := by
  decide +kernel
/-- The UTF-16 search: units 2..5, group 1 = units 0..2 — the translation, as `sem16_agrees` says. -/
example : semFind16 (input16 exText true) exNode 0 = .found 2 { pos := 5, caps := [(some 0, some 2)] } := by
  decide +kernel
example : findMap (to16 exText) (some (4, { pos := 11, caps := [(some 0, some 4)] })) =
    .found 2 { pos := 5, caps := [(some 0, some 2)] } := by decide +kernel
/-- `sem16_agrees` instantiated. -/
example : semFind16 (input16 exText true) exNode (off16 exText 0) =
    findMap (to16 exText) (semFind (input8 exText true) exNode (Utf8.off exText 0)) :=
  (utf16_agrees (by decide) true (wfNode_sound exNode (by decide)) (by decide) (by decide)).2

/-- UCS-2 on BMP-only text: `/(?<=(k))\1/i` on `kK` (KELVIN SIGN). -/
def exNode2 : Node := .cat [.look false true 0 1 (.group 0 none (.charSet [0x4B, 0x6B, 0x212A])), .backRef 1 true, .goal]
example : ∀ c ∈ [0x6B, 0x212A, 0x61], c < 0x10000 := by decide
example : semFind16 (input16 [0x6B, 0x212A, 0x61] true true) exNode2 0 = .found 1 { pos := 2, caps := [(some 0, some 1)] } := by
  decide +kernel
example : semFind (input8 [0x6B, 0x212A, 0x61] true) exNode2 0 = some (1, { pos := 4, caps := [(some 0, some 1)] }) := by
  decide +kernel

/-- `sem16_total_arbitrary` on ill-formed input: lone surrogates, a pair, start inside the pair. -/
example : semFind16 (utf16In [0xDC00, 0xD83D, 0xDE00, 0xD800] true) (.cat [.loop1 .matchAny ⟨1, none, true⟩, .goal]) 2 =
    .found 1 { pos := 4, caps := [] } := by decide +kernel

/-- The two builds: `/a\u{1F600}+/` parsed, optimized with and without `form_literal_bytes`. -/
def exRegex : Regex :=
  { node := .cat [.char 0x61, .loop (.char 0x1F600) ⟨1, none, true⟩ 0 0, .goal], flags := {} }
example : (optimize16 10 exRegex).toOption.map (fun r => noByteNodes r.node) = some true := by decide +kernel
example : (optimize 10 exRegex).toOption.map (fun r => noByteNodes r.node) = some false := by decide +kernel

end Regress.C14Sem

#print axioms Regress.C14Sem.sem16_agrees
#print axioms Regress.C14Sem.utf16_agrees
#print axioms Regress.C14Sem.ucs2_agrees
#print axioms Regress.C14Sem.form_literal_bytes_link
#print axioms Regress.C14Sem.sem16_total_arbitrary
#print axioms Regress.C14Sem.regression_mid_pair_end
#print axioms Regress.C14Sem.regression_panic
#print axioms Regress.C14Sem.regression_divergence
#print axioms Regress.C14Sem.f18_start_inside_pair
