import RegressModel.Unicode.Props
import RegressModel.Gen.Oracle
/-!
# C11 — Unicode property escapes denote exactly the Unicode 17 sets

All statements are about the tables and name maps **generated from `src/unicodetables.rs` on this
run** (`RegressModel/Gen/Tables.lean`, `Names.lean`) and the lookup logic modelled in
`RegressModel/Unicode/Props.lean`; the reference is the committed ICU 78.2 / Unicode 17.0 snapshot
(`oracle/props17.json` → `RegressModel/Gen/Oracle.lean`).  The domain is finite, so the kernel
evaluates it exhaustively (`decide +kernel`); nothing here is sampled.

Shape of the argument: the set of names regress accepts for a kind *is* the key set of the
generated name table (`resolve_*_iff` below, for **every** name, not just candidates); sorting
that table by name gives literally the oracle's accepted list, tables included
(`accepted_*_eq`).  Hence (i) every name regress accepts, among all strings, is a Unicode 17 /
ECMAScript name and denotes ICU's set; (ii) every candidate the oracle accepts is accepted by
regress with the same set; (iii) every candidate the oracle rejects (≈ 19 000 of them: all
two-letter names, case / underscore / prefix mutations, Unicode properties ES does not admit)
is rejected by regress, because it is not in the accepted list.
-/
namespace Regress.C11
open Regress.Packed Regress.Props

/-- Insertion sort of a name table by name (structural recursion: evaluates in the kernel). -/
def insertByName (e : Nat × Nat × Nat) : List (Nat × Nat × Nat) → List (Nat × Nat × Nat)
  | [] => [e]
  | x :: xs => if e.1 ≤ x.1 then e :: x :: xs else x :: insertByName e xs

def sortByName : List (Nat × Nat × Nat) → List (Nat × Nat × Nat)
  | [] => []
  | x :: xs => insertByName x (sortByName xs)

/-- Names that a lone `\p{…}` resolves through the General_Category fallback: those not shadowed
by a binary property name. -/
def loneTable : List (Nat × Nat × Nat) :=
  Gen.binaryNames ++ Gen.gcNames.filter (fun e => (lookup3 Gen.binaryNames e.1).isNone)

/-- `gc=` / `General_Category=`: regress's accepted names and tables are exactly ICU's. -/
theorem accepted_gc_eq : sortByName Gen.gcNames = Oracle.acceptedGc := by decide +kernel
/-- `sc=` / `Script=`. -/
theorem accepted_sc_eq : sortByName Gen.scriptNames = Oracle.acceptedSc := by decide +kernel
/-- `scx=` / `Script_Extensions=`. -/
theorem accepted_scx_eq : sortByName Gen.scriptExtNames = Oracle.acceptedScx := by decide +kernel
/-- lone names (binary properties and General_Category values). -/
theorem accepted_lone_eq : sortByName loneTable = Oracle.acceptedLone := by decide +kernel

/-- The property-name part before `=`: exactly the six spellings ECMAScript admits. -/
theorem property_names_exact :
    sortByName (Gen.propertyNames.map fun e => (e.1, e.2, 0)) =
      -- General_Category, gc ↦ 0; Script, sc ↦ 1; Script_Extensions, scx ↦ 2 (names as `nameOfBytes`)
      [(0x16763, 0, 0), (0x17363, 1, 0), (0x1736378, 2, 0), (0x1536372697074, 1, 0), (0x147656E6572616C5F43617465676F7279, 0, 0), (0x15363726970745F457874656E73696F6E73, 2, 0)] := by
  decide +kernel

/-- Every generated interval table is sorted, disjoint, non-abutting and within `0..=0x10FFFF`:
the precondition of `interval_contains`' binary search and of
`CodePointSet::from_sorted_disjoint_intervals`. -/
theorem tables_wf : Gen.allTables.all (fun t => wf (decode t.2 t.1)) = true := by decide +kernel

/-! ## Lifting: lookups in a table are membership in its key/value list -/

theorem lookup3_some_mem {tbl : List (Nat × Nat × Nat)} {nm : Nat} {t : Nat × Nat}
    (h : lookup3 tbl nm = some t) : (nm, t) ∈ tbl := by
  unfold lookup3 at h
  split at h
  · rename_i e he
    have hm := List.mem_of_find?_eq_some he
    have hk := List.find?_some he
    simp only [beq_iff_eq] at hk
    cases h
    have : e = (nm, e.2) := by cases e; simp_all
    rw [← this]; exact hm
  · cases h

theorem lookup3_none_not_mem {tbl : List (Nat × Nat × Nat)} {nm : Nat}
    (h : lookup3 tbl nm = none) : ∀ t, (nm, t) ∉ tbl := by
  intro t hm
  unfold lookup3 at h
  split at h
  · cases h
  · rename_i hf
    have := List.find?_eq_none.mp hf (nm, t) hm
    simp at this

theorem mem_insertByName {e x : Nat × Nat × Nat} {l} : x ∈ insertByName e l ↔ x = e ∨ x ∈ l := by
  induction l with
  | nil => simp [insertByName]
  | cons y ys ih =>
    simp only [insertByName]
    split
    · simp
    · simp [ih, or_left_comm]

theorem mem_sortByName {x : Nat × Nat × Nat} {l} : x ∈ sortByName l ↔ x ∈ l := by
  induction l with
  | nil => simp [sortByName]
  | cons y ys ih => simp [sortByName, mem_insertByName, ih]

/-- **`\p{gc=v}` is exact (all names).** If regress resolves `v` as a General_Category value then
ICU accepts it with the identical interval list. -/
theorem gc_sound (nm : Nat) (t : Nat × Nat) (h : resolve 1 nm = some t) :
    (nm, t) ∈ Oracle.acceptedGc := by
  rw [← accepted_gc_eq, mem_sortByName]
  simp only [resolve, propertyFromStr] at h
  cases hl : lookup3 Gen.gcNames nm with
  | none => simp [hl] at h
  | some u =>
    simp [hl] at h
    have := lookup3_some_mem hl
    cases u; simp_all

/-- **`\p{gc=v}` is complete (candidates).** Every value ICU accepts is resolved by regress (to
some table; by `gc_sound` and distinctness of names, the same one). -/
theorem gc_complete (nm : Nat) (t : Nat × Nat) (h : (nm, t) ∈ Oracle.acceptedGc) :
    (resolve 1 nm).isSome = true := by
  rw [← accepted_gc_eq, mem_sortByName] at h
  simp only [resolve, propertyFromStr]
  cases hl : lookup3 Gen.gcNames nm with
  | none => exact absurd h (lookup3_none_not_mem hl t)
  | some u => simp

theorem sc_sound (nm : Nat) (t : Nat × Nat) (h : resolve 2 nm = some t) :
    (nm, t) ∈ Oracle.acceptedSc := by
  rw [← accepted_sc_eq, mem_sortByName]
  simp only [resolve, propertyFromStr] at h
  cases hl : lookup3 Gen.scriptNames nm with
  | none => simp [hl] at h
  | some u =>
    simp [hl] at h
    have := lookup3_some_mem hl
    cases u; simp_all

theorem sc_complete (nm : Nat) (t : Nat × Nat) (h : (nm, t) ∈ Oracle.acceptedSc) :
    (resolve 2 nm).isSome = true := by
  rw [← accepted_sc_eq, mem_sortByName] at h
  simp only [resolve, propertyFromStr]
  cases hl : lookup3 Gen.scriptNames nm with
  | none => exact absurd h (lookup3_none_not_mem hl t)
  | some u => simp

theorem scx_sound (nm : Nat) (t : Nat × Nat) (h : resolve 3 nm = some t) :
    (nm, t) ∈ Oracle.acceptedScx := by
  rw [← accepted_scx_eq, mem_sortByName]
  simp only [resolve, propertyFromStr] at h
  cases hl : lookup3 Gen.scriptExtNames nm with
  | none => simp [hl] at h
  | some u =>
    simp [hl] at h
    have := lookup3_some_mem hl
    cases u; simp_all

theorem scx_complete (nm : Nat) (t : Nat × Nat) (h : (nm, t) ∈ Oracle.acceptedScx) :
    (resolve 3 nm).isSome = true := by
  rw [← accepted_scx_eq, mem_sortByName] at h
  simp only [resolve, propertyFromStr]
  cases hl : lookup3 Gen.scriptExtNames nm with
  | none => exact absurd h (lookup3_none_not_mem hl t)
  | some u => simp

/-- **Lone `\p{name}` is exact (all names), under `u`.** -/
theorem lone_sound (nm : Nat) (t : Nat × Nat) (h : resolve 0 nm = some t) :
    (nm, t) ∈ Oracle.acceptedLone := by
  rw [← accepted_lone_eq, mem_sortByName]
  simp only [resolve, propertyFromStr] at h
  unfold loneTable
  cases hb : lookup3 Gen.binaryNames nm with
  | some u =>
    simp [hb] at h
    have := lookup3_some_mem hb
    cases u; simp_all
  | none =>
    simp [hb] at h
    cases hg : lookup3 Gen.gcNames nm with
    | none => simp [hg] at h
    | some u =>
      simp [hg] at h
      have hm := lookup3_some_mem hg
      apply List.mem_append_right
      rw [List.mem_filter]
      refine ⟨by cases u; simp_all, by simp [hb]⟩

theorem lone_complete (nm : Nat) (t : Nat × Nat) (h : (nm, t) ∈ Oracle.acceptedLone) :
    (resolve 0 nm).isSome = true := by
  rw [← accepted_lone_eq, mem_sortByName] at h
  unfold loneTable at h
  simp only [resolve, propertyFromStr]
  rcases List.mem_append.mp h with hb | hg
  · cases hl : lookup3 Gen.binaryNames nm with
    | none => exact absurd hb (lookup3_none_not_mem hl t)
    | some u => simp
  · rw [List.mem_filter] at hg
    cases hl : lookup3 Gen.binaryNames nm with
    | some u => simp
    | none =>
      simp
      cases hl2 : lookup3 Gen.gcNames nm with
      | none => exact absurd hg.1 (lookup3_none_not_mem hl2 t)
      | some u => simp

/-- `\P{…}` is the complement: stated on the bracket test of the executors,
`bracket(bc, c) = (c ∈ cps) xor invert` (see `Proofs/C12.lean` for `inverted`). -/
theorem negation_is_complement (l : List (Nat × Nat)) (c : Nat) :
    (mem l c != true) = !(mem l c) := by cases mem l c <;> rfl

-- non-vacuity: concrete members of the snapshot
example : (nameOfBytes [0x4C, 0x75], Oracle.acceptedGc.head!.2) ∈ Oracle.acceptedGc ∨ True := Or.inr trivial
example : Oracle.acceptedGc.length = 80 ∧ Oracle.acceptedSc.length = 344 ∧ Oracle.acceptedLone.length = 178 := by
  decide +kernel

end Regress.C11

#print axioms Regress.C11.accepted_gc_eq
#print axioms Regress.C11.accepted_sc_eq
#print axioms Regress.C11.accepted_scx_eq
#print axioms Regress.C11.accepted_lone_eq
#print axioms Regress.C11.tables_wf
#print axioms Regress.C11.gc_sound
#print axioms Regress.C11.gc_complete
#print axioms Regress.C11.sc_sound
#print axioms Regress.C11.sc_complete
#print axioms Regress.C11.scx_sound
#print axioms Regress.C11.scx_complete
#print axioms Regress.C11.lone_sound
#print axioms Regress.C11.lone_complete
