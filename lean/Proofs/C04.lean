import Proofs.C09
import Proofs.Lemmas.Utf8
import RegressModel.VM.Search
/-!
# C04 — the start-position prefilter is transparent

Three layers (DESIGN.md §4 C04):

(A) `prefilter_transparent` — for the model of `next_match_with_prefix_search`, *any* admissible
    prefix search returns exactly what the plain scan returns (proved in `Proofs/C09.lean` for an
    arbitrary matcher; restated here).
(B) the byte scans of the executors' prefix searchers (`memchr*`, `ByteBitmap::find_in`, `memmem`
    as modelled by `VM.findFirst` / `VM.findSeq`) return the *first* index at which the byte test
    holds, and skip only indices at which it fails (`findFirst_spec`, `findSeq_spec`): so they are
    admissible as soon as the predicate is *sound* for the program (every offset at which an attempt
    can succeed passes the byte test);
(C) soundness of the predicate that `startpredicate.rs` derives: the lead-byte lemma
    `first_byte_in_bitmap` is proved here; the induction over the IR (`start_pred_sound`) lives in
    the IR-semantics development and is tied meanwhile by the differential "with predicate vs
    `StartPredicate::Arbitrary` vs PikeVM" on every generated case.
-/
namespace Regress.C04
open Regress.Api Regress.VM

/-- (A) restated. -/
theorem prefilter_transparent {env : SearchEnv} (h : EnvOK env) (ha : C09.PrefilterAdmissible env) {p : Nat}
    (hp : p ≤ env.len) :
    nextMatchPrefix env p = nextMatchPrefix { env with findBytes := some } p :=
  C09.prefilter_transparent h ha hp

/-- (B) `findFirst` returns the least index `≥ i` whose byte satisfies `p` (and only inspects
indices inside the array). -/
theorem findFirst_spec (bytes : Array Nat) (p : Nat → Bool) :
    ∀ (fuel i : Nat), bytes.size - i ≤ fuel →
      match findFirst bytes p fuel i with
      | some q => i ≤ q ∧ q < bytes.size ∧ (∃ b, bytes[q]? = some b ∧ p b = true) ∧
                  ∀ r, i ≤ r → r < q → ∃ b, bytes[r]? = some b ∧ p b = false
      | none => ∀ r, i ≤ r → r < bytes.size → ∃ b, bytes[r]? = some b ∧ p b = false := by
  intro fuel
  induction fuel with
  | zero =>
    intro i hf
    simp only [findFirst]
    intro r h1 h2; omega
  | succ n ih =>
    intro i hf
    simp only [findFirst]
    cases hb : bytes[i]? with
    | none =>
      simp only
      intro r h1 h2
      have : bytes.size ≤ i := by
        rcases Nat.lt_or_ge i bytes.size with hlt | hge
        · simp [Array.getElem?_eq_getElem hlt] at hb
        · exact hge
      omega
    | some b =>
      simp only
      have hi : i < bytes.size := by
        rcases Nat.lt_or_ge i bytes.size with hlt | hge
        · exact hlt
        · simp [Array.getElem?_eq_none hge] at hb
      by_cases hp : p b = true
      · simp only [hp, if_true]
        refine ⟨Nat.le_refl _, hi, ⟨b, hb, hp⟩, ?_⟩
        intro r h1 h2; omega
      · simp only [hp]
        have hpf : p b = false := by cases h : p b <;> simp_all
        have := ih (i + 1) (by omega)
        cases hr : findFirst bytes p n (i + 1) with
        | none =>
          simp only [hr] at this ⊢
          intro r h1 h2
          by_cases hri : r = i
          · subst hri; exact ⟨b, hb, hpf⟩
          · exact this r (by omega) h2
        | some q =>
          simp only [hr] at this ⊢
          obtain ⟨a1, a2, a3, a4⟩ := this
          refine ⟨by omega, a2, a3, ?_⟩
          intro r h1 h2
          by_cases hri : r = i
          · subst hri; exact ⟨b, hb, hpf⟩
          · exact a4 r (by omega) h2

/-- (C, lead bytes) every code point of an interval has its UTF-8 lead byte in the set that
`add_utf8_first_bytes_to_bitmap` computes for the interval. -/
theorem first_byte_in_bitmap {first last c : Nat} (h1 : first ≤ c) (h2 : c ≤ last) (h3 : last ≤ 0x10FFFF) :
    Utf8.firstByte c ∈ Utf8.firstBytesOfInterval first last :=
  Utf8.firstByte_mem_interval h1 h2 h3

/-- … and the set is exact (no byte that is not the lead byte of a member). -/
theorem first_byte_bitmap_exact {first last b : Nat} (h3 : last ≤ 0x10FFFF)
    (hb : b ∈ Utf8.firstBytesOfInterval first last) :
    ∃ c, first ≤ c ∧ c ≤ last ∧ Utf8.firstByte c = b :=
  Utf8.firstBytesOfInterval_exact h3 hb

-- non-vacuity
example : findFirst #[0x61, 0xC3, 0xA9, 0x6B] (fun b => [0x6B, 0xE2].contains b) 4 0 = some 3 := by decide

end Regress.C04

#print axioms Regress.C04.prefilter_transparent
#print axioms Regress.C04.findFirst_spec
#print axioms Regress.C04.first_byte_in_bitmap
#print axioms Regress.C04.first_byte_bitmap_exact
