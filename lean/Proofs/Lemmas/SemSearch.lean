import Proofs.Lemmas.SemStartPred
import Proofs.Lemmas.Iter
import Proofs.C04
import RegressModel.VM.Search
/-!
# The byte scans of the start predicate are admissible for the IR semantics

* `LeadsA` / `LeadsSP`: the predicate only mentions UTF-8 sequence-start bytes (so the position a byte
  scan finds is a char boundary).
* `findSeq_spec`: the `memmem` model returns the first occurrence.
* `semEnv`: the search environment (`Api.SearchEnv`) of the IR semantics, with the byte scan
  `VM.findBytesPred` for a given start predicate.
-/
namespace Regress.IR

open Regress.VM Regress AbstractStartPredicate Regress.Api

/-! ## The predicate only mentions sequence-start bytes -/

def LeadsA : AbstractStartPredicate → Prop
  | .arbitrary => True
  | .sequence s => ∀ b, s.head? = some b → Utf8.isSeqStart b = true
  | .set bm => ∀ b, bm.contains b = true → Utf8.isSeqStart b = true

def LeadsSP : StartPred → Prop
  | .set bs => ∀ b ∈ bs, Utf8.isSeqStart b = true
  | .seq s => s ≠ [] ∧ ∀ b, s.head? = some b → Utf8.isSeqStart b = true
  | _ => True

theorem isSeqStart_ascii {b : Nat} (h : b < 128) : Utf8.isSeqStart b = true := by
  simp [Utf8.isSeqStart, h]

theorem head_encodeAll {ds : List Nat} (hds : Utf8.AllScalar ds) {b : Nat} (h : (Utf8.encodeAll ds).head? = some b) :
    Utf8.isSeqStart b = true := by
  cases ds with
  | nil => simp at h
  | cons d t =>
    have hd := Utf8.isScalar_le (hds d (by simp))
    have hh := Utf8.firstByte_eq_head hd
    rw [Utf8.encodeAll_cons] at h
    cases he : Utf8.encode d with
    | nil => exact absurd he (Utf8.encode_ne_nil _)
    | cons a t' =>
      rw [he] at h hh
      simp at h hh
      rw [← h, hh]
      exact Utf8.isSeqStart_firstByte d

theorem cpsBitmap_leads {ivs : List (Nat × Nat)} (hw : CPS.WF (toIvList ivs)) {b : Nat}
    (h : (cpsToFirstByteBitmap ivs).contains b = true) : Utf8.isSeqStart b = true := by
  simp only [cpsToFirstByteBitmap, cpsToFirstByteBitmap_foldl, ByteBitmap.contains_empty, Bool.false_or,
    decide_eq_true_eq] at h
  obtain ⟨iv, hm, hb⟩ := h
  have hle : iv.2 ≤ 0x10FFFF :=
    (((CPS.WF_iff (toIvList ivs)).1 hw).1 ⟨iv.1, iv.2⟩ (by simp only [toIvList, List.mem_map]; exact ⟨iv, hm, rfl⟩)).2
  obtain ⟨c, _, _, rfl⟩ := Utf8.firstBytesOfInterval_exact hle hb
  exact Utf8.isSeqStart_firstByte c

theorem head?_take {α} (l : List α) (n : Nat) (hn : 0 < n) : (l.take n).head? = l.head? := by
  cases l with
  | nil => simp
  | cons a t => cases n with
    | zero => omega
    | succ n => simp

theorem disjunction_leads {x y d : AbstractStartPredicate} (hx : LeadsA x) (hy : LeadsA y)
    (h : disjunction x y = .ok d) : LeadsA d := by
  cases x with
  | arbitrary => simp [disjunction] at h; subst h; trivial
  | sequence s1 =>
    cases y with
    | arbitrary => simp [disjunction] at h; subst h; trivial
    | sequence s2 =>
      simp only [disjunction] at h
      split at h
      · rename_i hpos
        simp at h; subst h
        intro b hb
        rw [head?_take _ _ hpos] at hb
        exact hx b hb
      · cases s1 with
        | nil => cases s2 <;> simp at h
        | cons a t1 =>
          cases s2 with
          | nil => simp at h
          | cons c t2 =>
            simp at h; subst h
            intro b hb
            rw [ByteBitmap.contains_new] at hb
            simp at hb
            rcases hb with rfl | rfl
            · exact hx _ rfl
            · exact hy _ rfl
    | set bm2 =>
      cases s1 with
      | nil => simp [disjunction] at h
      | cons a t1 =>
        simp [disjunction] at h; subst h
        intro b hb
        rw [ByteBitmap.contains_set] at hb
        simp at hb
        rcases hb with hb | rfl
        · exact hy b hb
        · exact hx _ rfl
  | set bm1 =>
    cases y with
    | arbitrary => simp [disjunction] at h; subst h; trivial
    | sequence s2 =>
      cases s2 with
      | nil => simp [disjunction] at h
      | cons c t2 =>
        simp [disjunction] at h; subst h
        intro b hb
        rw [ByteBitmap.contains_set] at hb
        simp at hb
        rcases hb with hb | rfl
        · exact hx b hb
        · exact hy _ rfl
    | set bm2 =>
      simp [disjunction] at h; subst h
      intro b hb
      rw [ByteBitmap.contains_bitor] at hb
      simp at hb
      rcases hb with hb | hb
      · exact hx b hb
      · exact hy b hb

mutual
theorem csp_leads : ∀ (n : Node), WF n → ∀ P, computeStartPredicate n = .ok (some P) → LeadsA P
  | .byteSeq bv, hw, P, h => by
    simp only [computeStartPredicate, Except.ok.injEq, Option.some.injEq] at h; subst h
    simp only [WF] at hw
    obtain ⟨ds, hds, rfl⟩ := hw
    exact fun b hb => head_encodeAll hds hb
  | .byteSet bytes, hw, P, h => by
    simp only [computeStartPredicate, Except.ok.injEq, Option.some.injEq] at h; subst h
    simp only [WF] at hw
    intro b hb
    rw [ByteBitmap.contains_new] at hb
    exact isSeqStart_ascii (hw b (by simpa using hb))
  | .empty, _, P, h => by simp [computeStartPredicate] at h; subst h; trivial
  | .goal, _, P, h => by simp [computeStartPredicate] at h; subst h; trivial
  | .backRef _ _, _, P, h => by simp [computeStartPredicate] at h; subst h; trivial
  | .stringSet _ _, _, P, h => by simp [computeStartPredicate] at h; subst h; trivial
  | .char _, _, P, h => by simp [computeStartPredicate] at h; subst h; trivial
  | .matchAny, _, P, h => by simp [computeStartPredicate] at h; subst h; trivial
  | .matchAnyExceptLT, _, P, h => by simp [computeStartPredicate] at h; subst h; trivial
  | .anchor _ _, _, P, h => by simp [computeStartPredicate] at h; subst h; trivial
  | .wordBoundary _ _, _, P, h => by simp [computeStartPredicate] at h; subst h; trivial
  | .look _ _ _ _ _, _, P, h => by simp [computeStartPredicate] at h
  | .charSet chars, _, P, h => by
    simp only [computeStartPredicate, Except.ok.injEq, Option.some.injEq] at h; subst h
    intro b hb
    rw [ByteBitmap.contains_new] at hb
    simp only [decide_eq_true_eq, List.mem_map] at hb
    obtain ⟨c, _, rfl⟩ := hb
    exact Utf8.isSeqStart_firstByte c
  | .bracket bc, hw, P, h => by
    simp only [computeStartPredicate, Except.ok.injEq, Option.some.injEq] at h; subst h
    simp only [WF] at hw
    intro b hb
    cases hinv : bc.invert with
    | false =>
      simp only [hinv, Bool.false_eq_true, if_false] at hb
      exact cpsBitmap_leads hw hb
    | true =>
      simp only [hinv, if_true] at hb
      exact cpsBitmap_leads (ivs := ofIvList (CPS.inverted (toIvList bc.ivs)))
        (by rw [toIvList_ofIvList]; exact C12.inverted_wf hw) hb
  | .cat ns, hw, P, h => by
    simp only [computeStartPredicate] at h; simp only [WF] at hw
    exact fsp_leads ns hw P h
  | .group _ _ c, hw, P, h => by
    simp only [computeStartPredicate] at h; simp only [WF] at hw
    exact csp_leads c hw P h
  | .loop b q _ _, hw, P, h => by
    simp only [computeStartPredicate] at h; simp only [WF] at hw
    split at h
    · exact csp_leads b hw.1 P h
    · simp at h; subst h; trivial
  | .loop1 b q, hw, P, h => by
    simp only [computeStartPredicate] at h; simp only [WF] at hw
    split at h
    · exact csp_leads b hw.1 P h
    · simp at h; subst h; trivial
  | .alt l r, hw, P, h => by
    simp only [computeStartPredicate] at h; simp only [WF] at hw
    split at h
    · cases h
    · rename_i x hx
      split at h
      · cases h
      · rename_i y hy
        split at h
        · rename_i x' y'
          split at h
          · cases h
          · rename_i d hd
            simp only [Except.ok.injEq, Option.some.injEq] at h; subst h
            exact disjunction_leads (csp_leads l hw.1 x' hx) (csp_leads r hw.2 y' hy) hd
        · simp only [Except.ok.injEq, Option.some.injEq] at h; subst h; trivial
theorem fsp_leads : ∀ (ns : List Node), WFList ns → ∀ P, firstStartPredicate ns = .ok (some P) → LeadsA P
  | [], _, P, h => by simp [firstStartPredicate] at h
  | n :: ns, hw, P, h => by
    simp only [firstStartPredicate] at h; simp only [WFList] at hw
    split at h
    · cases h
    · rename_i p hp
      simp only [Except.ok.injEq, Option.some.injEq] at h; subst h
      exact csp_leads n hw.1 p hp
    · exact fsp_leads ns hw.2 P h
end

theorem resolve_leads {x : AbstractStartPredicate} (h : LeadsA x) : LeadsSP x.resolveToInsn := by
  cases x with
  | arbitrary => trivial
  | sequence vals =>
    simp only [resolveToInsn]
    split
    · trivial
    · rename_i v; intro b hb; rw [List.mem_singleton] at hb; rw [hb]; exact h v rfl
    · rename_i hne _
      exact ⟨by intro he; subst he; simp at hne, h⟩
  | set bm =>
    have : ∀ b ∈ bm.toList, Utf8.isSeqStart b = true := fun b hb => h b ((ByteBitmap.mem_toList bm b).1 hb).2
    simp only [resolveToInsn]
    split <;> first | trivial | exact this

/-- The start predicate of a well-formed regex only mentions sequence-start bytes. -/
theorem predicateForRe_leads (re : Regex) (hw : WF re.node) {sp : StartPred} (h : predicateForRe re = .ok sp) :
    LeadsSP sp := by
  unfold predicateForRe at h
  split at h
  · cases h; trivial
  · split at h
    · cases h
    · rename_i r hr
      cases h
      cases r with
      | none => trivial
      | some P => exact resolve_leads (csp_leads re.node hw P hr)

/-! ## `memmem` (`VM.findSeq`) returns the first occurrence -/

/-- `needle` occurs at offset `r`. -/
def occursAt (bytes : Array Nat) (needle : List Nat) (r : Nat) : Prop := needle <+: bytes.toList.drop r

theorem occursAt_iff_slice (bytes : Array Nat) (needle : List Nat) (r : Nat) (h : r + needle.length ≤ bytes.size) :
    (Utf8.slice bytes r (r + needle.length) == needle) = true ↔ occursAt bytes needle r := by
  rw [beq_iff_eq, Utf8.slice_eq, Nat.add_sub_cancel_left, occursAt, List.prefix_iff_eq_take]
  exact eq_comm

theorem not_occursAt_of_gt (bytes : Array Nat) {needle : List Nat} (hne : needle ≠ []) {r : Nat}
    (h : r + needle.length > bytes.size) : ¬ occursAt bytes needle r := by
  intro ho
  have hl := ho.length_le
  simp only [List.length_drop, Array.length_toList] at hl
  have : 0 < needle.length := List.length_pos_iff.2 hne
  omega

theorem findSeq_spec (bytes : Array Nat) (needle : List Nat) (hne : needle ≠ []) :
    ∀ (fuel i : Nat), bytes.size - i + 1 ≤ fuel →
      match findSeq bytes needle fuel i with
      | some q => i ≤ q ∧ q < bytes.size ∧ occursAt bytes needle q ∧ ∀ r, i ≤ r → r < q → ¬ occursAt bytes needle r
      | none => ∀ r, i ≤ r → ¬ occursAt bytes needle r := by
  have hpos : 0 < needle.length := List.length_pos_iff.2 hne
  intro fuel
  induction fuel with
  | zero => intro i h; omega
  | succ n ih =>
    intro i hf
    simp only [findSeq]
    by_cases h1 : i + needle.length > bytes.size
    · simp only [h1, if_true]
      intro r hr
      exact not_occursAt_of_gt bytes hne (by omega)
    · simp only [h1, if_false]
      have hle : i + needle.length ≤ bytes.size := by omega
      by_cases h2 : (Utf8.slice bytes i (i + needle.length) == needle) = true
      · simp only [h2, if_true]
        exact ⟨Nat.le_refl _, by omega, (occursAt_iff_slice bytes needle i hle).1 h2, fun r h3 h4 => by omega⟩
      · simp only [h2]
        have hno : ¬ occursAt bytes needle i := fun ho => h2 ((occursAt_iff_slice bytes needle i hle).2 ho)
        have := ih (i + 1) (by omega)
        cases hr : findSeq bytes needle n (i + 1) with
        | none =>
          simp only [hr] at this ⊢
          intro r h3
          by_cases hri : r = i
          · subst hri; exact hno
          · exact this r (by omega)
        | some q =>
          simp only [hr] at this ⊢
          obtain ⟨a1, a2, a3, a4⟩ := this
          refine ⟨by omega, a2, a3, ?_⟩
          intro r h3 h4
          by_cases hri : r = i
          · subst hri; exact hno
          · exact a4 r (by omega) h4

/-! ## The search environment of the IR semantics -/

/-- `GroupData::as_range`. -/
def capRange : Cap → Option (Nat × Nat)
  | (some a, some b) => some (a, b)
  | _ => none

/-- The search environment of the IR semantics on `inp` for the IR `n`, with the byte scan of the
start predicate `sp`. Offsets that are not char boundaries are inert (the engine never visits them:
the API requires the start offset to be a char boundary, and `next_right_pos` keeps to them). -/
def semEnv (inp : Input) (n : Node) (sp : StartPred) : SearchEnv :=
  { len := inp.len
    attempt := fun p =>
      if Utf8.isBoundary inp.bytes p then (firstMatch inp n p).map (fun s => (s.pos, s.caps.map capRange)) else none
    nextRightPos := fun p => if Utf8.isBoundary inp.bytes p then nextRightPosOpt inp p else none
    findBytes := fun p => if Utf8.isBoundary inp.bytes p then findBytesPred sp inp.bytes p else some p }

theorem isBoundary_le {bytes : Array Nat} {p : Nat} (h : Utf8.isBoundary bytes p = true) : p ≤ bytes.size := by
  unfold Utf8.isBoundary at h
  simp only [Bool.or_eq_true, beq_iff_eq] at h
  rcases h with h | h
  · omega
  · split at h
    · rename_i b hb; exact Nat.le_of_lt (getElem?_some_lt hb)
    · cases h

theorem nextRightPosOpt_at {inp : Input} {cs : List Nat} (ht : Utf8Text inp cs) {k : Nat} (hk : k < cs.length) :
    nextRightPosOpt inp (Utf8.off cs k) = some (Utf8.off cs (k + 1)) := by
  simp only [nextRightPosOpt, Input.nextRightPos, ht.kind, ht.bytes, Utf8.nextRightPos_roundtrip ht.scalar hk]

theorem nextRightPosOpt_end {inp : Input} {cs : List Nat} (ht : Utf8Text inp cs) :
    nextRightPosOpt inp (Utf8.off cs cs.length) = none := by
  simp only [nextRightPosOpt, Input.nextRightPos, ht.kind, ht.bytes, Utf8.nextRightPos_roundtrip_end]

theorem boundary_off {inp : Input} {cs : List Nat} (ht : Utf8Text inp cs) {k : Nat} (hk : k ≤ cs.length) :
    Utf8.isBoundary inp.bytes (Utf8.off cs k) = true := by
  rw [ht.bytes]; exact Utf8.isBoundary_off cs hk

/-- Consecutive boundaries are linked by `next_right_pos`. -/
theorem reach_boundaries {inp : Input} {cs : List Nat} (ht : Utf8Text inp cs) (n : Node) (sp : StartPred) :
    ∀ (d k : Nat), k + d ≤ cs.length → C09.Reach (semEnv inp n sp) (Utf8.off cs k) (Utf8.off cs (k + d)) := by
  intro d
  induction d with
  | zero => intro k _; exact C09.Reach.refl _
  | succ d ih =>
    intro k hk
    have hstep : (semEnv inp n sp).nextRightPos (Utf8.off cs k) = some (Utf8.off cs (k + 1)) := by
      simp only [semEnv, boundary_off ht (show k ≤ cs.length by omega), if_true]
      exact nextRightPosOpt_at ht (by omega)
    have := ih (k + 1) (by omega)
    rw [show k + 1 + d = k + (d + 1) by omega] at this
    exact C09.Reach.step hstep this

theorem semEnv_ok {inp : Input} {cs : List Nat} (ht : Utf8Text inp cs) (n : Node) {sp : StartPred} (hl : LeadsSP sp) :
    EnvOK (semEnv inp n sp) where
  attempt_range := by
    intro p e c hp h
    simp only [semEnv] at h hp
    split at h
    · cases hfm : firstMatch inp n p with
      | none => simp [hfm] at h
      | some s =>
        simp only [hfm, Option.map_some, Option.some.injEq, Prod.mk.injEq] at h
        obtain ⟨rfl, _⟩ := h
        have hmem : s ∈ sem inp n true (initSt n p) := List.mem_of_mem_head? hfm
        exact sem_pos_le_len inp n _ s hmem hp
    · cases h
  next_gt := by
    intro p q hp h
    simp only [semEnv] at h hp ⊢
    split at h
    · rename_i hb
      obtain ⟨k, hk, rfl⟩ := (atBoundary_iff ht hp).2 hb
      by_cases hlt : k < cs.length
      · rw [nextRightPosOpt_at ht hlt] at h
        cases h
        exact ⟨Utf8.off_lt_succ hlt, by rw [ht.len]; exact Utf8.off_le_size cs _⟩
      · have : k = cs.length := by omega
        subst this
        rw [nextRightPosOpt_end ht] at h; cases h
    · cases h
  find_range := by
    intro p q hp h
    simp only [semEnv] at h hp ⊢
    split at h
    · unfold findBytesPred at h
      split at h
      · cases h; exact ⟨Nat.le_refl _, hp⟩
      · cases h; exact ⟨Nat.le_refl _, hp⟩
      · rename_i bs
        have := C04.findFirst_spec inp.bytes (fun b => bs.contains b) (inp.bytes.size - p) p (Nat.le_refl _)
        rw [h] at this
        exact ⟨this.1, Nat.le_of_lt this.2.1⟩
      · rename_i needle
        have := findSeq_spec inp.bytes needle hl.1 (inp.bytes.size - p + 1) p (Nat.le_refl _)
        rw [h] at this
        exact ⟨this.1, Nat.le_of_lt this.2.1⟩
    · cases h; exact ⟨Nat.le_refl _, hp⟩

theorem restBytes_head {inp : Input} {r b : Nat} (h : inp.bytes[r]? = some b) : (restBytes inp r).head? = some b := by
  simp only [restBytes, List.head?_drop]; simpa using h

/-- A sequence-start byte marks a char boundary. -/
theorem boundary_of_lead {inp : Input} {q b : Nat} (h : inp.bytes[q]? = some b) (hl : Utf8.isSeqStart b = true) :
    Utf8.isBoundary inp.bytes q = true := by
  simp [Utf8.isBoundary, h, hl]

/-- The position a byte scan finds is one the plain scan visits. -/
theorem reach_found {inp : Input} {cs : List Nat} (ht : Utf8Text inp cs) (n : Node) (sp : StartPred)
    {p q : Nat} (hbp : Utf8.isBoundary inp.bytes p = true) (hpq : p ≤ q) (hbq : Utf8.isBoundary inp.bytes q = true) :
    C09.Reach (semEnv inp n sp) p q := by
  have hp := isBoundary_le hbp
  have hq := isBoundary_le hbq
  obtain ⟨k, hk, rfl⟩ := (atBoundary_iff ht hp).2 hbp
  obtain ⟨j, hj, rfl⟩ := (atBoundary_iff ht hq).2 hbq
  have hkj : k ≤ j := by
    apply Classical.byContradiction
    intro hcon
    have := Utf8.off_strict_mono (cs := cs) (k := j) (j := k) (by omega) hk
    omega
  have := reach_boundaries ht n sp (j - k) k (by omega)
  rwa [show k + (j - k) = j by omega] at this


/-- `predicate_for_re` is sound (byte test part). -/
theorem csp_sound_re {inp : Input} {cs : List Nat} (ht : Utf8Text inp cs) (re : Regex) (hw : WF re.node)
    {sp : StartPred} (hsp : predicateForRe re = .ok sp) {p : Nat} (hb : AtBoundary cs p)
    (hm : firstMatch inp re.node p ≠ none) : admitsSP sp (restBytes inp p) := by
  have hne : sem inp re.node true (initSt re.node p) ≠ [] := by
    intro hh; apply hm; simp [firstMatch, hh]
  unfold predicateForRe at hsp
  split at hsp
  · cases hsp; trivial
  · split at hsp
    · cases hsp
    · rename_i r hr
      cases hsp
      have hbytes : ∀ v ∈ restBytes inp p, v < 256 := by
        intro v hv
        have hv' : v ∈ Utf8.encodeAll cs := by
          have := List.mem_of_mem_drop hv
          simpa [ht.bytes, Utf8.text] using this
        simp only [Utf8.encodeAll, List.mem_flatMap] at hv'
        obtain ⟨c, hc, hvc⟩ := hv'
        exact Utf8.encode_bytes_lt_256 (ht.scalar c hc) v hvc
      apply resolve_preserves_admits _ _ hbytes
      cases r with
      | none => trivial
      | some P => exact (csp_sound ht re.node hw).1 P hr (initSt re.node p) hb hne

/-- **The byte scans are admissible**: with the start predicate computed for the regex, the search
environment of the IR semantics satisfies `PrefilterAdmissible`. -/
theorem semEnv_admissible {inp : Input} {cs : List Nat} (ht : Utf8Text inp cs) (re : Regex) (hw : WF re.node)
    {sp : StartPred} (hsp : predicateForRe re = .ok sp) : C09.PrefilterAdmissible (semEnv inp re.node sp) := by
  have hl := predicateForRe_leads re hw hsp
  have hEnv := semEnv_ok ht re.node hl
  have fails : ∀ r, ¬ admitsSP sp (restBytes inp r) → (semEnv inp re.node sp).attempt r = none := by
    intro r hno
    simp only [semEnv]
    split
    · rename_i hb
      have hab : AtBoundary cs r := (atBoundary_iff ht (isBoundary_le hb)).2 hb
      have : firstMatch inp re.node r = none := by
        apply Classical.byContradiction
        intro hm
        exact hno ((csp_sound_re ht re hw hsp hab hm))
      simp [this]
    · rfl
  refine { some_reach := ?_, some_skip := ?_, none_skip := ?_ }
  · intro p q hp hq
    simp only [semEnv] at hq hp
    split at hq
    · rename_i hbp
      unfold findBytesPred at hq
      split at hq
      · cases hq; exact C09.Reach.refl _
      · cases hq; exact C09.Reach.refl _
      · rename_i bs
        have := C04.findFirst_spec inp.bytes (fun b => bs.contains b) (inp.bytes.size - p) p (Nat.le_refl _)
        rw [hq] at this
        obtain ⟨h1, _, ⟨b, hb, hpb⟩, _⟩ := this
        have hlead := hl b (by simpa using hpb)
        exact reach_found ht _ _ hbp h1 (boundary_of_lead hb hlead)
      · rename_i needle
        have := findSeq_spec inp.bytes needle hl.1 (inp.bytes.size - p + 1) p (Nat.le_refl _)
        rw [hq] at this
        obtain ⟨h1, h2, hocc, _⟩ := this
        obtain ⟨t, ht'⟩ := hocc
        cases hn : needle with
        | nil => exact absurd hn hl.1
        | cons b nt =>
          rw [hn] at ht'
          have hb : inp.bytes[q]? = some b := by
            have : (inp.bytes.toList.drop q).head? = some b := by rw [← ht']; rfl
            rw [List.head?_drop] at this
            simpa using this
          have hlead := hl.2 b (by rw [hn]; rfl)
          exact reach_found ht _ _ hbp h1 (boundary_of_lead hb hlead)
    · cases hq; exact C09.Reach.refl _
  · intro p q r hp hq hr hlt
    have hpr := (hr.le hEnv hp).1
    apply fails
    simp only [semEnv] at hq hp
    split at hq
    · unfold findBytesPred at hq
      split at hq
      · cases hq; omega
      · cases hq; omega
      · rename_i bs
        have := C04.findFirst_spec inp.bytes (fun b => bs.contains b) (inp.bytes.size - p) p (Nat.le_refl _)
        rw [hq] at this
        obtain ⟨b, hb, hpb⟩ := this.2.2.2 r hpr hlt
        rintro ⟨h0, hh, hm⟩
        rw [restBytes_head hb] at hh
        cases hh
        simp at hpb
        exact hpb hm
      · rename_i needle
        have := findSeq_spec inp.bytes needle hl.1 (inp.bytes.size - p + 1) p (Nat.le_refl _)
        rw [hq] at this
        exact this.2.2.2 r hpr hlt
    · cases hq; omega
  · intro p r hp hq hr
    have hpr := (hr.le hEnv hp).1
    have hrl := (hr.le hEnv hp).2
    apply fails
    simp only [semEnv] at hq hp hrl
    split at hq
    · unfold findBytesPred at hq
      split at hq
      · cases hq
      · cases hq
      · rename_i bs
        have := C04.findFirst_spec inp.bytes (fun b => bs.contains b) (inp.bytes.size - p) p (Nat.le_refl _)
        rw [hq] at this
        rintro ⟨h0, hh, hm⟩
        by_cases hrs : r < inp.bytes.size
        · obtain ⟨b, hb, hpb⟩ := this r hpr hrs
          rw [restBytes_head hb] at hh
          cases hh
          simp at hpb
          exact hpb hm
        · simp only [restBytes] at hh
          rw [List.drop_eq_nil_of_le (by simp; omega)] at hh
          cases hh
      · rename_i needle
        have := findSeq_spec inp.bytes needle hl.1 (inp.bytes.size - p + 1) p (Nat.le_refl _)
        rw [hq] at this
        exact this r hpr
    · cases hq

end Regress.IR
