import RegressModel.Spec.ESMatch
/-!
# Laws of the ECMAScript matching specification (`RegressModel/Spec/ESMatch.lean`)

All equalities are equalities of *Matchers* (closures), for every input, every enclosing
pattern, every RegExp Record, both directions and every `parenIndex`; they therefore hold in any
context.
-/
namespace Regress.ES

/-! ## Matcher algebra -/

theorem matchTwoAlternatives_assoc (m1 m2 m3 : Matcher) :
    matchTwoAlternatives (matchTwoAlternatives m1 m2) m3 =
      matchTwoAlternatives m1 (matchTwoAlternatives m2 m3) := by
  simp only [matchTwoAlternatives]
  congr 1
  funext fuel x c
  cases h : m1.run fuel x c <;> simp

theorem matchSequence_empty_left (m : Matcher) (d : Direction) :
    matchSequence emptyMatcher m d = m := by
  cases d <;> rfl

theorem matchSequence_assoc (m1 m2 m3 : Matcher) (d : Direction) :
    matchSequence (matchSequence m1 m2 d) m3 d = matchSequence m1 (matchSequence m2 m3 d) d := by
  cases d <;> rfl

/-! ## `(nc x)` ≡ `x` -/

theorem nc_eq (input : Array Nat) (pattern x : Node) (rer : RER) (d : Direction) (pi : Nat) :
    compileNode input pattern (.nc x) rer d pi = compileNode input pattern x rer d pi := by
  simp [compileNode]

/-! ## Alternation is associative -/

theorem countParens_alt2 (a b : Node) : countParens (.alt [a, b]) = countParens a + countParens b := by
  simp [countParens, countParensList]

theorem alt_assoc_left (input : Array Nat) (pattern a b c : Node) (rer : RER) (d : Direction)
    (pi : Nat) :
    compileNode input pattern (.alt [.alt [a, b], c]) rer d pi =
      compileNode input pattern (.alt [a, b, c]) rer d pi := by
  simp only [compileNode, compileDisjunction, countParens_alt2, matchTwoAlternatives_assoc,
    Nat.add_assoc]

theorem alt_assoc_right (input : Array Nat) (pattern a b c : Node) (rer : RER) (d : Direction)
    (pi : Nat) :
    compileNode input pattern (.alt [a, .alt [b, c]]) rer d pi =
      compileNode input pattern (.alt [a, b, c]) rer d pi := by
  simp only [compileNode, compileDisjunction]

/-- `(a|b)|c` ≡ `a|(b|c)` -/
theorem alt_assoc (input : Array Nat) (pattern a b c : Node) (rer : RER) (d : Direction)
    (pi : Nat) :
    compileNode input pattern (.alt [.alt [a, b], c]) rer d pi =
      compileNode input pattern (.alt [a, .alt [b, c]]) rer d pi := by
  rw [alt_assoc_left, alt_assoc_right]

/-! ## Concatenation flattens -/

theorem countParens_cat2 (a b : Node) : countParens (.cat [a, b]) = countParens a + countParens b := by
  simp [countParens, countParensList]

/-- `(cat [a, cat [b, c]])` ≡ `(cat [a, b, c])` -/
theorem cat_flatten_right (input : Array Nat) (pattern a b c : Node) (rer : RER) (d : Direction)
    (pi : Nat) :
    compileNode input pattern (.cat [a, .cat [b, c]]) rer d pi =
      compileNode input pattern (.cat [a, b, c]) rer d pi := by
  simp only [compileNode, compileAlternative, matchSequence_empty_left, matchSequence_assoc]

/-- `(cat [cat [a, b], c])` ≡ `(cat [a, b, c])` -/
theorem cat_flatten_left (input : Array Nat) (pattern a b c : Node) (rer : RER) (d : Direction)
    (pi : Nat) :
    compileNode input pattern (.cat [.cat [a, b], c]) rer d pi =
      compileNode input pattern (.cat [a, b, c]) rer d pi := by
  simp only [compileNode, compileAlternative, matchSequence_empty_left, countParens_cat2,
    Nat.add_assoc]

/-! ## `x{1,1}` ≡ `x` for a group-free `x` -/

theorem repeatMatcher_max_zero (m : Matcher) (g : Bool) (pi pc fuel min : Nat) (x : State)
    (c : Cont) : repeatMatcher m g pi pc fuel min (some 0) x c = c x := by
  cases fuel <;> simp [repeatMatcher]

/-- With at least one unit of fuel, `x{1,1}` (greedy or lazy) is `x`, provided `x` contains no
capturing group (otherwise the quantifier additionally resets those captures on entry). -/
theorem quant_one_one (input : Array Nat) (pattern x : Node) (g : Bool) (rer : RER)
    (d : Direction) (pi fuel : Nat) (s : State) (c : Cont) (hx : countParens x = 0) :
    (compileNode input pattern (.quant 1 (some 1) g x) rer d pi).run (fuel + 1) s c =
      (compileNode input pattern x rer d pi).run (fuel + 1) s c := by
  simp [compileNode, repeatMatcher, hx, resetCaptures, repeatMatcher_max_zero]

/-- …and with no fuel at all it reports `outOfFuel` rather than a wrong answer. -/
theorem quant_one_one_zero (input : Array Nat) (pattern x : Node) (g : Bool) (rer : RER)
    (d : Direction) (pi : Nat) (s : State) (c : Cont) :
    (compileNode input pattern (.quant 1 (some 1) g x) rer d pi).run 0 s c = .outOfFuel := by
  simp [compileNode, repeatMatcher]


/-! ## The enclosing pattern matters only through `GroupSpecifiersThatMatch` -/

theorem compileNode_congr_pattern (input : Array Nat) (p1 p2 : Node)
    (h : ∀ name, groupSpecifiersThatMatch p1 name = groupSpecifiersThatMatch p2 name) (n : Node) :
    ∀ rer d pi, compileNode input p1 n rer d pi = compileNode input p2 n rer d pi := by
  induction n using Node.rec
    (motive_2 := fun ns =>
      (∀ acc rer d pi, compileAlternative input p1 acc ns rer d pi =
          compileAlternative input p2 acc ns rer d pi) ∧
      (∀ rer d pi, compileDisjunction input p1 ns rer d pi =
          compileDisjunction input p2 ns rer d pi)) with
  | cat ns ih => intro rer d pi; simp only [compileNode, ih.1]
  | alt ns ih => intro rer d pi; simp only [compileNode, ih.2]
  | group idx name n ih => intro rer d pi; simp only [compileNode, ih]
  | nc n ih => intro rer d pi; simp only [compileNode, ih]
  | mod add rem n ih => intro rer d pi; simp only [compileNode, ih]
  | look ahead neg n ih => intro rer d pi; simp only [compileNode, ih]
  | quant min max greedy n ih => intro rer d pi; simp only [compileNode, ih]
  | nref name => intro rer d pi; simp only [compileNode, h]
  | nil =>
    exact ⟨fun _ _ _ _ => by simp only [compileAlternative],
           fun _ _ _ => by simp only [compileDisjunction]⟩
  | cons a as iha ihas =>
    refine ⟨fun acc rer d pi => by simp only [compileAlternative, iha, ihas.1], fun rer d pi => ?_⟩
    cases as with
    | nil => simp only [compileDisjunction, iha]
    | cons b bs => simp only [compileDisjunction, iha, ihas.2]
  | _ => intro rer d pi; simp only [compileNode]

/-! ## The search of `RegExpBuiltinExec` returns the least matching start index -/

/-- `esExec` is the search loop over the anchored match `matchAt`. -/
theorem esExec_eq (flags : Flags) (pattern : Node) (input : Array Nat) (start fuel : Nat) :
    esExec flags pattern input start fuel =
      searchLoop (matchAt input pattern (RER.ofFlags flags (countParens pattern)) fuel)
        (input.size + 1 - start) start := rfl

theorem searchLoop_matched {run : Nat → MatchResult} {tries i s e : Nat}
    {caps : List (Option (Nat × Nat))} (h : searchLoop run tries i = .matched s e caps) :
    i ≤ s ∧ s < i + tries ∧ run s = .success ⟨e, caps⟩ ∧ ∀ j, i ≤ j → j < s → run j = .failure := by
  induction tries generalizing i with
  | zero => simp [searchLoop] at h
  | succ k ih =>
    simp only [searchLoop] at h
    split at h
    · next hf =>
      obtain ⟨h1, h2, h3, h4⟩ := ih h
      refine ⟨by omega, by omega, h3, fun j hj hjs => ?_⟩
      by_cases hji : j = i
      · subst hji; exact hf
      · exact h4 j (by omega) hjs
    · next y hy =>
      cases h
      exact ⟨Nat.le_refl _, by omega, hy, fun j hj hjs => by omega⟩
    · cases h

theorem searchLoop_noMatch {run : Nat → MatchResult} {tries i : Nat}
    (h : searchLoop run tries i = .noMatch) : ∀ j, i ≤ j → j < i + tries → run j = .failure := by
  induction tries generalizing i with
  | zero => intro j h1 h2; omega
  | succ k ih =>
    simp only [searchLoop] at h
    split at h
    · next hf =>
      intro j h1 h2
      by_cases hji : j = i
      · subst hji; exact hf
      · exact ih h j (by omega) (by omega)
    · cases h
    · cases h

theorem searchLoop_outOfFuel {run : Nat → MatchResult} {tries i : Nat}
    (h : searchLoop run tries i = .outOfFuel) :
    ∃ s, i ≤ s ∧ s < i + tries ∧ run s = .outOfFuel ∧ ∀ j, i ≤ j → j < s → run j = .failure := by
  induction tries generalizing i with
  | zero => simp [searchLoop] at h
  | succ k ih =>
    simp only [searchLoop] at h
    split at h
    · next hf =>
      obtain ⟨s, h1, h2, h3, h4⟩ := ih h
      refine ⟨s, by omega, by omega, h3, fun j hj hjs => ?_⟩
      by_cases hji : j = i
      · subst hji; exact hf
      · exact h4 j (by omega) hjs
    · cases h
    · next hy => exact ⟨i, Nat.le_refl _, by omega, hy, fun j hj hjs => by omega⟩

/-- Completeness: the first index that does not fail decides the result. -/
theorem searchLoop_complete {run : Nat → MatchResult} {tries i s : Nat} {y : State}
    (hs : i ≤ s) (ht : s < i + tries) (hy : run s = .success y)
    (hlt : ∀ j, i ≤ j → j < s → run j = .failure) :
    searchLoop run tries i = .matched s y.endIndex y.captures := by
  induction tries generalizing i with
  | zero => omega
  | succ k ih =>
    simp only [searchLoop]
    by_cases his : i = s
    · subst his; rw [hy]
    · rw [hlt i (Nat.le_refl _) (by omega)]
      exact ih (by omega) (by omega) (fun j h1 h2 => hlt j (by omega) h2)

/-- **The search returns the least start index at which the anchored match succeeds**, with the
end index and captures of that anchored match; every smaller index `≥ start` fails. -/
theorem esExec_matched_least {flags : Flags} {pattern : Node} {input : Array Nat}
    {start fuel s e : Nat} {caps : List (Option (Nat × Nat))}
    (h : esExec flags pattern input start fuel = .matched s e caps) :
    start ≤ s ∧ s ≤ input.size ∧
    matchAt input pattern (RER.ofFlags flags (countParens pattern)) fuel s = .success ⟨e, caps⟩ ∧
    ∀ j, start ≤ j → j < s →
      matchAt input pattern (RER.ofFlags flags (countParens pattern)) fuel j = .failure := by
  rw [esExec_eq] at h
  obtain ⟨h1, h2, h3, h4⟩ := searchLoop_matched h
  exact ⟨h1, by omega, h3, h4⟩

/-- `null` means the anchored match fails at every index `start ≤ j ≤ length`. -/
theorem esExec_noMatch {flags : Flags} {pattern : Node} {input : Array Nat} {start fuel : Nat}
    (h : esExec flags pattern input start fuel = .noMatch) :
    ∀ j, start ≤ j → j ≤ input.size →
      matchAt input pattern (RER.ofFlags flags (countParens pattern)) fuel j = .failure := by
  rw [esExec_eq] at h
  intro j h1 h2
  exact searchLoop_noMatch h j h1 (by omega)

/-- Conversely, if the anchored match succeeds at `s ∈ [start, length]` and fails before, the
search returns exactly that match. -/
theorem esExec_complete {flags : Flags} {pattern : Node} {input : Array Nat}
    {start fuel s : Nat} {y : State} (hs : start ≤ s) (hl : s ≤ input.size)
    (hy : matchAt input pattern (RER.ofFlags flags (countParens pattern)) fuel s = .success y)
    (hlt : ∀ j, start ≤ j → j < s →
      matchAt input pattern (RER.ofFlags flags (countParens pattern)) fuel j = .failure) :
    esExec flags pattern input start fuel = .matched s y.endIndex y.captures := by
  rw [esExec_eq]
  exact searchLoop_complete hs (by omega) hy hlt

/-! ## Whole-pattern corollaries -/

theorem namedGroups_alt_assoc (a b c : Node) (pi : Nat) :
    namedGroups (.alt [.alt [a, b], c]) pi = namedGroups (.alt [a, .alt [b, c]]) pi := by
  simp [namedGroups, namedGroupsList, countParens, countParensList, Nat.add_assoc]

theorem countParens_alt_assoc (a b c : Node) :
    countParens (.alt [.alt [a, b], c]) = countParens (.alt [a, .alt [b, c]]) := by
  simp [countParens, countParensList, Nat.add_assoc]

/-- `/(a|b)|c/` and `/a|(b|c)/` (non-capturing nesting) have the same `exec` result — same match,
same captures — on every input, from every `lastIndex`, with every fuel. -/
theorem esExec_alt_assoc (flags : Flags) (a b c : Node) (input : Array Nat) (start fuel : Nat) :
    esExec flags (.alt [.alt [a, b], c]) input start fuel =
      esExec flags (.alt [a, .alt [b, c]]) input start fuel := by
  have hp : ∀ name, groupSpecifiersThatMatch (.alt [.alt [a, b], c]) name =
      groupSpecifiersThatMatch (.alt [a, .alt [b, c]]) name := by
    intro name; simp only [groupSpecifiersThatMatch, namedGroups_alt_assoc]
  simp only [esExec, countParens_alt_assoc]
  rw [compileNode_congr_pattern input _ _ hp, alt_assoc]

theorem namedGroups_cat_flatten (a b c : Node) (pi : Nat) :
    namedGroups (.cat [a, .cat [b, c]]) pi = namedGroups (.cat [a, b, c]) pi := by
  simp [namedGroups, namedGroupsList, Nat.add_assoc]

theorem countParens_cat_flatten (a b c : Node) :
    countParens (.cat [a, .cat [b, c]]) = countParens (.cat [a, b, c]) := by
  simp [countParens, countParensList]

/-- `(cat [a, cat [b, c]])` and `(cat [a, b, c])` have the same `exec` result. -/
theorem esExec_cat_flatten (flags : Flags) (a b c : Node) (input : Array Nat) (start fuel : Nat) :
    esExec flags (.cat [a, .cat [b, c]]) input start fuel =
      esExec flags (.cat [a, b, c]) input start fuel := by
  have hp : ∀ name, groupSpecifiersThatMatch (.cat [a, .cat [b, c]]) name =
      groupSpecifiersThatMatch (.cat [a, b, c]) name := by
    intro name; simp only [groupSpecifiersThatMatch, namedGroups_cat_flatten]
  simp only [esExec, countParens_cat_flatten]
  rw [compileNode_congr_pattern input _ _ hp, cat_flatten_right]

/-- `(?:x)` and `x` have the same `exec` result. -/
theorem esExec_nc (flags : Flags) (x : Node) (input : Array Nat) (start fuel : Nat) :
    esExec flags (.nc x) input start fuel = esExec flags x input start fuel := by
  have hp : ∀ name, groupSpecifiersThatMatch (.nc x) name = groupSpecifiersThatMatch x name := by
    intro name; simp only [groupSpecifiersThatMatch, namedGroups]
  have hc : countParens (.nc x) = countParens x := by simp only [countParens]
  simp only [esExec, hc]
  rw [compileNode_congr_pattern input _ _ hp, nc_eq]

/-! ## Non-vacuity: concrete runs of the specification (evaluated by the kernel) -/

/-- `/(a)|b/` on "ba" from 0 matches `b` at 0 with group 1 undefined (not `a` at 1). -/
example :
    esExec {} (.alt [.group 1 none (.char 0x61), .char 0x62]) #[0x62, 0x61] 0 10 =
      .matched 0 1 [none] := by decide

/-- `/(?:(a)|b)*/` on "ab": the second iteration resets group 1. -/
example :
    esExec {} (.quant 0 none true (.nc (.alt [.group 1 none (.char 0x61), .char 0x62])))
      #[0x61, 0x62] 0 10 = .matched 0 2 [none] := by decide

/-- `/(?<=(a)(b))c/` on "abc": look-behind evaluates right to left, captures are as written. -/
example :
    esExec {} (.cat [.look false false (.cat [.group 1 none (.char 0x61),
        .group 2 none (.char 0x62)]), .char 0x63]) #[0x61, 0x62, 0x63] 0 10 =
      .matched 2 3 [some (0, 1), some (1, 2)] := by decide

/-- `/a*/` with too little fuel reports `outOfFuel`, never a wrong answer. -/
example : esExec {} (.quant 0 none true (.char 0x61)) #[0x61, 0x61, 0x61] 0 2 = .outOfFuel := by
  decide

end Regress.ES
