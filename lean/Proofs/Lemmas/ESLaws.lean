import RegressModel.Spec.ESMatch
/-!
# Laws of the ECMAScript matching specification (`RegressModel/Spec/ESMatch.lean`)

All equalities are equalities of *Matchers* (closures), for every input, every enclosing
pattern, every RegExp Record, both directions and every `parenIndex`; they therefore hold in any
context.
-/
namespace Regress.ES

/-! ## Matcher algebra -/

theorem matchTwoAlternatives_assoc (m1 m2 m3 : Matcher) :
    matchTwoAlternatives (matchTwoAlternatives m1 m2) m3 =
      matchTwoAlternatives m1 (matchTwoAlternatives m2 m3) := by
  simp only [matchTwoAlternatives]
  congr 1
  funext fuel x c
  cases h : m1.run fuel x c <;> simp

theorem matchSequence_empty_left (m : Matcher) (d : Direction) :
    matchSequence emptyMatcher m d = m := by
  cases d <;> rfl

theorem matchSequence_assoc (m1 m2 m3 : Matcher) (d : Direction) :
    matchSequence (matchSequence m1 m2 d) m3 d = matchSequence m1 (matchSequence m2 m3 d) d := by
  cases d <;> rfl

/-! ## `(nc x)` ≡ `x` -/

theorem nc_eq (input : Array Nat) (pattern x : Node) (rer : RER) (d : Direction) (pi : Nat) :
    compileNode input pattern (.nc x) rer d pi = compileNode input pattern x rer d pi := by
  simp [compileNode]

/-! ## Alternation is associative -/

theorem countParens_alt2 (a b : Node) : countParens (.alt [a, b]) = countParens a + countParens b := by
  simp [countParens, countParensList]

theorem alt_assoc_left (input : Array Nat) (pattern a b c : Node) (rer : RER) (d : Direction)
    (pi : Nat) :
    compileNode input pattern (.alt [.alt [a, b], c]) rer d pi =
      compileNode input pattern (.alt [a, b, c]) rer d pi := by
  simp only [compileNode, compileDisjunction, countParens_alt2, matchTwoAlternatives_assoc,
    Nat.add_assoc]

theorem alt_assoc_right (input : Array Nat) (pattern a b c : Node) (rer : RER) (d : Direction)
    (pi : Nat) :
    compileNode input pattern (.alt [a, .alt [b, c]]) rer d pi =
      compileNode input pattern (.alt [a, b, c]) rer d pi := by
  simp only [compileNode, compileDisjunction]

/-- `(a|b)|c` ≡ `a|(b|c)` -/
theorem alt_assoc (input : Array Nat) (pattern a b c : Node) (rer : RER) (d : Direction)
    (pi : Nat) :
    compileNode input pattern (.alt [.alt [a, b], c]) rer d pi =
      compileNode input pattern (.alt [a, .alt [b, c]]) rer d pi := by
  rw [alt_assoc_left, alt_assoc_right]

/-! ## Concatenation flattens -/

theorem countParens_cat2 (a b : Node) : countParens (.cat [a, b]) = countParens a + countParens b := by
  simp [countParens, countParensList]

/-- `(cat [a, cat [b, c]])` ≡ `(cat [a, b, c])` -/
theorem cat_flatten_right (input : Array Nat) (pattern a b c : Node) (rer : RER) (d : Direction)
    (pi : Nat) :
    compileNode input pattern (.cat [a, .cat [b, c]]) rer d pi =
      compileNode input pattern (.cat [a, b, c]) rer d pi := by
  simp only [compileNode, compileAlternative, matchSequence_empty_left, matchSequence_assoc]

/-- `(cat [cat [a, b], c])` ≡ `(cat [a, b, c])` -/
theorem cat_flatten_left (input : Array Nat) (pattern a b c : Node) (rer : RER) (d : Direction)
    (pi : Nat) :
    compileNode input pattern (.cat [.cat [a, b], c]) rer d pi =
      compileNode input pattern (.cat [a, b, c]) rer d pi := by
  simp only [compileNode, compileAlternative, matchSequence_empty_left, countParens_cat2,
    Nat.add_assoc]

/-! ## `x{1,1}` ≡ `x` for a group-free `x` -/

theorem repeatMatcher_max_zero (m : Matcher) (g : Bool) (pi pc fuel min : Nat) (x : State)
    (c : Cont) : repeatMatcher m g pi pc fuel min (some 0) x c = c x := by
  cases fuel <;> simp [repeatMatcher]

/-- With at least one unit of fuel, `x{1,1}` (greedy or lazy) is `x`, provided `x` contains no
capturing group (otherwise the quantifier additionally resets those captures on entry). -/
theorem quant_one_one (input : Array Nat) (pattern x : Node) (g : Bool) (rer : RER)
    (d : Direction) (pi fuel : Nat) (s : State) (c : Cont) (hx : countParens x = 0) :
    (compileNode input pattern (.quant 1 (some 1) g x) rer d pi).run (fuel + 1) s c =
      (compileNode input pattern x rer d pi).run (fuel + 1) s c := by
  simp [compileNode, repeatMatcher, hx, resetCaptures, repeatMatcher_max_zero]

/-- …and with no fuel at all it reports `outOfFuel` rather than a wrong answer. -/
theorem quant_one_one_zero (input : Array Nat) (pattern x : Node) (g : Bool) (rer : RER)
    (d : Direction) (pi : Nat) (s : State) (c : Cont) :
    (compileNode input pattern (.quant 1 (some 1) g x) rer d pi).run 0 s c = .outOfFuel := by
  simp [compileNode, repeatMatcher]


/-! ## The enclosing pattern matters only through `GroupSpecifiersThatMatch` -/

theorem compileNode_congr_pattern (input : Array Nat) (p1 p2 : Node)
    (h : ∀ name, groupSpecifiersThatMatch p1 name = groupSpecifiersThatMatch p2 name) (n : Node) :
    ∀ rer d pi, compileNode input p1 n rer d pi = compileNode input p2 n rer d pi := by
  induction n using Node.rec
    (motive_2 := fun ns =>
      (∀ acc rer d pi, compileAlternative input p1 acc ns rer d pi =
          compileAlternative input p2 acc ns rer d pi) ∧
      (∀ rer d pi, compileDisjunction input p1 ns rer d pi =
          compileDisjunction input p2 ns rer d pi)) with
  | cat ns ih => intro rer d pi; simp only [compileNode, ih.1]
  | alt ns ih => intro rer d pi; simp only [compileNode, ih.2]
  | group idx name n ih => intro rer d pi; simp only [compileNode, ih]
  | nc n ih => intro rer d pi; simp only [compileNode, ih]
  | mod add rem n ih => intro rer d pi; simp only [compileNode, ih]
  | look ahead neg n ih => intro rer d pi; simp only [compileNode, ih]
  | quant min max greedy n ih => intro rer d pi; simp only [compileNode, ih]
  | nref name => intro rer d pi; simp only [compileNode, h]
  | nil =>
    exact ⟨fun _ _ _ _ => by simp only [compileAlternative],
           fun _ _ _ => by simp only [compileDisjunction]⟩
  | cons a as iha ihas =>
    refine ⟨fun acc rer d pi => by simp only [compileAlternative, iha, ihas.1], fun rer d pi => ?_⟩
    cases as with
    | nil => simp only [compileDisjunction, iha]
    | cons b bs => simp only [compileDisjunction, iha, ihas.2]
  | _ => intro rer d pi; simp only [compileNode]

/-! ## The search of `RegExpBuiltinExec` returns the least matching start index -/

/-- `esExec` is the search loop over the anchored match `matchAt`. -/
theorem esExec_eq (flags : Flags) (pattern : Node) (input : Array Nat) (start fuel : Nat) :
    esExec flags pattern input start fuel =
      searchLoop (matchAt input pattern (RER.ofFlags flags (countParens pattern)) fuel)
        (input.size + 1 - start) start := rfl

theorem searchLoop_matched {run : Nat → MatchResult} {tries i s e : Nat}
    {caps : List (Option (Nat × Nat))} (h : searchLoop run tries i = .matched s e caps) :
    i ≤ s ∧ s < i + tries ∧ run s = .success ⟨e, caps⟩ ∧ ∀ j, i ≤ j → j < s → run j = .failure := by
  induction tries generalizing i with
  | zero => simp [searchLoop] at h
  | succ k ih =>
    simp only [searchLoop] at h
    split at h
    · next hf =>
      obtain ⟨h1, h2, h3, h4⟩ := ih h
      refine ⟨by omega, by omega, h3, fun j hj hjs => ?_⟩
      by_cases hji : j = i
      · subst hji; exact hf
      · exact h4 j (by omega) hjs
    · next y hy =>
      cases h
      exact ⟨Nat.le_refl _, by omega, hy, fun j hj hjs => by omega⟩
    · cases h

theorem searchLoop_noMatch {run : Nat → MatchResult} {tries i : Nat}
    (h : searchLoop run tries i = .noMatch) : ∀ j, i ≤ j → j < i + tries → run j = .failure := by
  induction tries generalizing i with
  | zero => intro j h1 h2; omega
  | succ k ih =>
    simp only [searchLoop] at h
    split at h
    · next hf =>
      intro j h1 h2
      by_cases hji : j = i
      · subst hji; exact hf
      · exact ih h j (by omega) (by omega)
    · cases h
    · cases h

theorem searchLoop_outOfFuel {run : Nat → MatchResult} {tries i : Nat}
    (h : searchLoop run tries i = .outOfFuel) :
    ∃ s, i ≤ s ∧ s < i + tries ∧ run s = .outOfFuel ∧ ∀ j, i ≤ j → j < s → run j = .failure := by
  induction tries generalizing i with
  | zero => simp [searchLoop] at h
  | succ k ih =>
    simp only [searchLoop] at h
    split at h
    · next hf =>
      obtain ⟨s, h1, h2, h3, h4⟩ := ih h
      refine ⟨s, by omega, by omega, h3, fun j hj hjs => ?_⟩
      by_cases hji : j = i
      · subst hji; exact hf
      · exact h4 j (by omega) hjs
    · cases h
    · next hy => exact ⟨i, Nat.le_refl _, by omega, hy, fun j hj hjs => by omega⟩

/-- Completeness: the first index that does not fail decides the result. -/
theorem searchLoop_complete {run : Nat → MatchResult} {tries i s : Nat} {y : State}
    (hs : i ≤ s) (ht : s < i + tries) (hy : run s = .success y)
    (hlt : ∀ j, i ≤ j → j < s → run j = .failure) :
    searchLoop run tries i = .matched s y.endIndex y.captures := by
  induction tries generalizing i with
  | zero => omega
  | succ k ih =>
    simp only [searchLoop]
    by_cases his : i = s
    · subst his; rw [hy]
    · rw [hlt i (Nat.le_refl _) (by omega)]
      exact ih (by omega) (by omega) (fun j h1 h2 => hlt j (by omega) h2)

/-- **The search returns the least start index at which the anchored match succeeds**, with the
end index and captures of that anchored match; every smaller index `≥ start` fails. -/
theorem esExec_matched_least {flags : Flags} {pattern : Node} {input : Array Nat}
    {start fuel s e : Nat} {caps : List (Option (Nat × Nat))}
    (h : esExec flags pattern input start fuel = .matched s e caps) :
    start ≤ s ∧ s ≤ input.size ∧
    matchAt input pattern (RER.ofFlags flags (countParens pattern)) fuel s = .success ⟨e, caps⟩ ∧
    ∀ j, start ≤ j → j < s →
      matchAt input pattern (RER.ofFlags flags (countParens pattern)) fuel j = .failure := by
  rw [esExec_eq] at h
  obtain ⟨h1, h2, h3, h4⟩ := searchLoop_matched h
  exact ⟨h1, by omega, h3, h4⟩

/-- `null` means the anchored match fails at every index `start ≤ j ≤ length`. -/
theorem esExec_noMatch {flags : Flags} {pattern : Node} {input : Array Nat} {start fuel : Nat}
    (h : esExec flags pattern input start fuel = .noMatch) :
    ∀ j, start ≤ j → j ≤ input.size →
      matchAt input pattern (RER.ofFlags flags (countParens pattern)) fuel j = .failure := by
  rw [esExec_eq] at h
  intro j h1 h2
  exact searchLoop_noMatch h j h1 (by omega)

/-- Conversely, if the anchored match succeeds at `s ∈ [start, length]` and fails before, the
search returns exactly that match. -/
theorem esExec_complete {flags : Flags} {pattern : Node} {input : Array Nat}
    {start fuel s : Nat} {y : State} (hs : start ≤ s) (hl : s ≤ input.size)
    (hy : matchAt input pattern (RER.ofFlags flags (countParens pattern)) fuel s = .success y)
    (hlt : ∀ j, start ≤ j → j < s →
      matchAt input pattern (RER.ofFlags flags (countParens pattern)) fuel j = .failure) :
    esExec flags pattern input start fuel = .matched s y.endIndex y.captures := by
  rw [esExec_eq]
  exact searchLoop_complete hs (by omega) hy hlt

/-! ## Whole-pattern corollaries -/

theorem namedGroups_alt_assoc (a b c : Node) (pi : Nat) :
    namedGroups (.alt [.alt [a, b], c]) pi = namedGroups (.alt [a, .alt [b, c]]) pi := by
  simp [namedGroups, namedGroupsList, countParens, countParensList, Nat.add_assoc]

theorem countParens_alt_assoc (a b c : Node) :
    countParens (.alt [.alt [a, b], c]) = countParens (.alt [a, .alt [b, c]]) := by
  simp [countParens, countParensList, Nat.add_assoc]

/-- `/(a|b)|c/` and `/a|(b|c)/` (non-capturing nesting) have the same `exec` result — same match,
same captures — on every input, from every `lastIndex`, with every fuel. -/
theorem esExec_alt_assoc (flags : Flags) (a b c : Node) (input : Array Nat) (start fuel : Nat) :
    esExec flags (.alt [.alt [a, b], c]) input start fuel =
      esExec flags (.alt [a, .alt [b, c]]) input start fuel := by
  have hp : ∀ name, groupSpecifiersThatMatch (.alt [.alt [a, b], c]) name =
      groupSpecifiersThatMatch (.alt [a, .alt [b, c]]) name := by
    intro name; simp only [groupSpecifiersThatMatch, namedGroups_alt_assoc]
  simp only [esExec, countParens_alt_assoc]
  rw [compileNode_congr_pattern input _ _ hp, alt_assoc]

theorem namedGroups_cat_flatten (a b c : Node) (pi : Nat) :
    namedGroups (.cat [a, .cat [b, c]]) pi = namedGroups (.cat [a, b, c]) pi := by
  simp [namedGroups, namedGroupsList, Nat.add_assoc]

theorem countParens_cat_flatten (a b c : Node) :
    countParens (.cat [a, .cat [b, c]]) = countParens (.cat [a, b, c]) := by
  simp [countParens, countParensList]

/-- `(cat [a, cat [b, c]])` and `(cat [a, b, c])` have the same `exec` result. -/
theorem esExec_cat_flatten (flags : Flags) (a b c : Node) (input : Array Nat) (start fuel : Nat) :
    esExec flags (.cat [a, .cat [b, c]]) input start fuel =
      esExec flags (.cat [a, b, c]) input start fuel := by
  have hp : ∀ name, groupSpecifiersThatMatch (.cat [a, .cat [b, c]]) name =
      groupSpecifiersThatMatch (.cat [a, b, c]) name := by
    intro name; simp only [groupSpecifiersThatMatch, namedGroups_cat_flatten]
  simp only [esExec, countParens_cat_flatten]
  rw [compileNode_congr_pattern input _ _ hp, cat_flatten_right]

/-- `(?:x)` and `x` have the same `exec` result. -/
theorem esExec_nc (flags : Flags) (x : Node) (input : Array Nat) (start fuel : Nat) :
    esExec flags (.nc x) input start fuel = esExec flags x input start fuel := by
  have hp : ∀ name, groupSpecifiersThatMatch (.nc x) name = groupSpecifiersThatMatch x name := by
    intro name; simp only [groupSpecifiersThatMatch, namedGroups]
  have hc : countParens (.nc x) = countParens x := by simp only [countParens]
  simp only [esExec, hc]
  rw [compileNode_congr_pattern input _ _ hp, nc_eq]

/-! ## Fuel monotonicity -/

/-- information order: `outOfFuel` is below everything, the definite results are maximal -/
def MatchResult.le (r r' : MatchResult) : Prop := r = .outOfFuel ∨ r = r'

theorem MatchResult.le_refl (r : MatchResult) : r.le r := Or.inr rfl
theorem MatchResult.oof_le (r : MatchResult) : MatchResult.le .outOfFuel r := Or.inl rfl

def Cont.le (c c' : Cont) : Prop := ∀ y, (c y).le (c' y)

theorem Cont.le_refl (c : Cont) : Cont.le c c := fun _ => MatchResult.le_refl _

/-- A Matcher is monotone: more fuel and a more defined continuation give a more defined result. -/
def Matcher.Mono (m : Matcher) : Prop :=
  ∀ f f' x c c', f ≤ f' → Cont.le c c' → (m.run f x c).le (m.run f' x c')

theorem emptyMatcher_mono : emptyMatcher.Mono := fun _ _ x _ _ _ hc => hc x

theorem failMatcher_mono : Matcher.Mono ⟨fun _ _ _ => .failure⟩ :=
  fun _ _ _ _ _ _ _ => MatchResult.le_refl _

theorem matchTwoAlternatives_mono {m1 m2 : Matcher} (h1 : m1.Mono) (h2 : m2.Mono) :
    (matchTwoAlternatives m1 m2).Mono := by
  intro f f' x c c' hf hc
  simp only [matchTwoAlternatives]
  rcases h1 f f' x c c' hf hc with h | h
  · rw [h]; exact .inl rfl
  · rw [← h]
    cases m1.run f x c
    · exact h2 f f' x c c' hf hc
    · exact MatchResult.le_refl _
    · exact MatchResult.le_refl _

theorem matchSequence_mono {m1 m2 : Matcher} (h1 : m1.Mono) (h2 : m2.Mono) (d : Direction) :
    (matchSequence m1 m2 d).Mono := by
  intro f f' x c c' hf hc
  cases d <;> simp only [matchSequence]
  · exact h1 f f' x _ _ hf (fun y => h2 f f' y c c' hf hc)
  · exact h2 f f' x _ _ hf (fun y => h1 f f' y c c' hf hc)

theorem characterSetMatcher_mono (input : Array Nat) (rer : RER) (a : CharSet) (inv : Bool)
    (d : Direction) : (characterSetMatcher input rer a inv d).Mono := by
  intro f f' x c c' _ hc
  simp only [characterSetMatcher]
  repeat (first | exact MatchResult.le_refl _ | exact hc _ | split)

theorem backreferenceMatcher_mono (input : Array Nat) (rer : RER) (ns : List Nat) (d : Direction) :
    (backreferenceMatcher input rer ns d).Mono := by
  intro f f' x c c' _ hc
  simp only [backreferenceMatcher]
  repeat (first | exact MatchResult.le_refl _ | exact hc _ | split)

theorem bolMatcher_mono (input : Array Nat) (rer : RER) : (bolMatcher input rer).Mono := by
  intro f f' x c c' _ hc
  simp only [bolMatcher]
  repeat (first | exact MatchResult.le_refl _ | exact hc _ | split)

theorem eolMatcher_mono (input : Array Nat) (rer : RER) : (eolMatcher input rer).Mono := by
  intro f f' x c c' _ hc
  simp only [eolMatcher]
  repeat (first | exact MatchResult.le_refl _ | exact hc _ | split)

theorem wordBoundaryMatcher_mono (input : Array Nat) (rer : RER) (neg : Bool) :
    (wordBoundaryMatcher input rer neg).Mono := by
  intro f f' x c c' _ hc
  simp only [wordBoundaryMatcher]
  repeat (first | exact MatchResult.le_refl _ | exact hc _ | split)

theorem positiveLookMatcher_mono {m : Matcher} (h : m.Mono) : (positiveLookMatcher m).Mono := by
  intro f f' x c c' hf hc
  simp only [positiveLookMatcher]
  rcases h f f' x _ _ hf (Cont.le_refl (fun y => .success y)) with h | h
  · rw [h]; exact .inl rfl
  · rw [← h]
    cases m.run f x (fun y => .success y)
    · exact MatchResult.le_refl _
    · exact hc _
    · exact MatchResult.le_refl _

theorem negativeLookMatcher_mono {m : Matcher} (h : m.Mono) : (negativeLookMatcher m).Mono := by
  intro f f' x c c' hf hc
  simp only [negativeLookMatcher]
  rcases h f f' x _ _ hf (Cont.le_refl (fun y => .success y)) with h | h
  · rw [h]; exact .inl rfl
  · rw [← h]
    cases m.run f x (fun y => .success y)
    · exact hc _
    · exact MatchResult.le_refl _
    · exact MatchResult.le_refl _

theorem repeatMatcher_mono {m : Matcher} (h : m.Mono) (g : Bool) (pi pc : Nat) :
    ∀ f f' min max x c c', f ≤ f' → Cont.le c c' →
      (repeatMatcher m g pi pc f min max x c).le (repeatMatcher m g pi pc f' min max x c') := by
  intro f
  induction f with
  | zero =>
    intro f' min max x c c' _ hc
    by_cases hm : max = some 0
    · subst hm; rw [repeatMatcher_max_zero, repeatMatcher_max_zero]; exact hc x
    · simp only [repeatMatcher, hm, if_false]; exact .inl rfl
  | succ k ih =>
    intro f' min max x c c' hf hc
    obtain ⟨k', rfl⟩ : ∃ k', f' = k' + 1 := ⟨f' - 1, by omega⟩
    by_cases hm : max = some 0
    · subst hm; rw [repeatMatcher_max_zero, repeatMatcher_max_zero]; exact hc x
    · simp only [repeatMatcher, hm, if_false]
      have hd : ∀ min2 max2, Cont.le
          (fun y => if min = 0 ∧ y.endIndex = x.endIndex then MatchResult.failure
            else repeatMatcher m g pi pc k min2 max2 y c)
          (fun y => if min = 0 ∧ y.endIndex = x.endIndex then MatchResult.failure
            else repeatMatcher m g pi pc k' min2 max2 y c') := by
        intro min2 max2 y
        dsimp only
        split
        · exact MatchResult.le_refl _
        · exact ih k' _ _ y c c' (by omega) hc
      split
      · exact h _ _ _ _ _ (by omega) (hd _ _)
      · split
        · rcases hc x with h0 | h0
          · rw [h0]; exact .inl rfl
          · rw [← h0]
            cases c x
            · exact h _ _ _ _ _ (by omega) (hd _ _)
            · exact MatchResult.le_refl _
            · exact MatchResult.le_refl _
        · rcases h _ _ _ _ _ (show k + 1 ≤ k' + 1 by omega) (hd _ _) with h0 | h0
          · rw [h0]; exact .inl rfl
          · rw [← h0]
            cases m.run (k + 1) _ _
            · exact hc x
            · exact MatchResult.le_refl _
            · exact MatchResult.le_refl _


theorem classStringMatcher_mono (input : Array Nat) (rer : RER) (d : Direction) (s : List Nat) :
    (classStringMatcher input rer d s).Mono := by
  induction s with
  | nil => exact emptyMatcher_mono
  | cons a rest ih =>
    cases rest with
    | nil => exact characterSetMatcher_mono _ _ _ _ _
    | cons b bs =>
      simp only [classStringMatcher]
      exact matchSequence_mono (characterSetMatcher_mono _ _ _ _ _) ih d

theorem alternativesOf_mono (ms : List Matcher) (h : ∀ m ∈ ms, m.Mono) :
    (alternativesOf ms).Mono := by
  induction ms with
  | nil => exact failMatcher_mono
  | cons a rest ih =>
    cases rest with
    | nil => exact h a (by simp)
    | cons b bs =>
      simp only [alternativesOf]
      exact matchTwoAlternatives_mono (h a (by simp))
        (ih (fun m hm => h m (List.mem_cons_of_mem _ hm)))

theorem charSetAtomMatcher_mono (input : Array Nat) (rer : RER) (cs : CharSet) (inv : Bool)
    (d : Direction) : (charSetAtomMatcher input rer cs inv d).Mono := by
  simp only [charSetAtomMatcher]
  split
  · exact characterSetMatcher_mono _ _ _ _ _
  · apply alternativesOf_mono
    intro m hm
    split at hm
    · simp only [List.mem_append, List.mem_map, List.mem_singleton] at hm
      rcases hm with (⟨s, _, rfl⟩ | rfl) | rfl
      · exact classStringMatcher_mono _ _ _ _
      · exact characterSetMatcher_mono _ _ _ _ _
      · exact emptyMatcher_mono
    · simp only [List.mem_append, List.mem_map, List.mem_singleton] at hm
      rcases hm with ⟨s, _, rfl⟩ | rfl
      · exact classStringMatcher_mono _ _ _ _
      · exact characterSetMatcher_mono _ _ _ _ _

/-- Every compiled Matcher is monotone in the fuel and the continuation. -/
theorem compileNode_mono (input : Array Nat) (pattern : Node) (n : Node) :
    ∀ rer d pi, (compileNode input pattern n rer d pi).Mono := by
  induction n using Node.rec
    (motive_2 := fun ns =>
      (∀ acc rer d pi, acc.Mono → (compileAlternative input pattern acc ns rer d pi).Mono) ∧
      (∀ rer d pi, (compileDisjunction input pattern ns rer d pi).Mono)) with
  | empty => intro rer d pi; simp only [compileNode]; exact emptyMatcher_mono
  | char c => intro rer d pi; simp only [compileNode]; exact characterSetMatcher_mono _ _ _ _ _
  | dot => intro rer d pi; simp only [compileNode]; exact characterSetMatcher_mono _ _ _ _ _
  | bol => intro rer d pi; simp only [compileNode]; exact bolMatcher_mono _ _
  | eol => intro rer d pi; simp only [compileNode]; exact eolMatcher_mono _ _
  | wb => intro rer d pi; simp only [compileNode]; exact wordBoundaryMatcher_mono _ _ _
  | nwb => intro rer d pi; simp only [compileNode]; exact wordBoundaryMatcher_mono _ _ _
  | cat ns ih => intro rer d pi; simp only [compileNode]; exact ih.1 _ _ _ _ emptyMatcher_mono
  | alt ns ih => intro rer d pi; simp only [compileNode]; exact ih.2 _ _ _
  | group idx name n ih =>
    intro rer d pi; simp only [compileNode]
    intro f f' x c c' hf hc
    exact ih rer d (pi + 1) f f' x _ _ hf (fun y => hc _)
  | nc n ih => intro rer d pi; simp only [compileNode]; exact ih _ _ _
  | mod add rem n ih => intro rer d pi; simp only [compileNode]; exact ih _ _ _
  | look ahead neg n ih =>
    intro rer d pi; simp only [compileNode]
    split
    · exact negativeLookMatcher_mono (ih _ _ _)
    · exact positiveLookMatcher_mono (ih _ _ _)
  | bref idx => intro rer d pi; simp only [compileNode]; exact backreferenceMatcher_mono _ _ _ _
  | nref name => intro rer d pi; simp only [compileNode]; exact backreferenceMatcher_mono _ _ _ _
  | quant min max greedy n ih =>
    intro rer d pi; simp only [compileNode]
    intro f f' x c c' hf hc
    exact repeatMatcher_mono (ih rer d pi) greedy pi _ f f' min max x c c' hf hc
  | esc e => intro rer d pi; simp only [compileNode]; exact charSetAtomMatcher_mono _ _ _ _ _
  | prop neg kind name => intro rer d pi; simp only [compileNode]; exact charSetAtomMatcher_mono _ _ _ _ _
  | cls neg items => intro rer d pi; simp only [compileNode]; exact charSetAtomMatcher_mono _ _ _ _ _
  | vcls neg op ops => intro rer d pi; simp only [compileNode]; exact charSetAtomMatcher_mono _ _ _ _ _
  | nil =>
    exact ⟨fun acc _ _ _ h => by simp only [compileAlternative]; exact h,
           fun _ _ _ => by simp only [compileDisjunction]; exact failMatcher_mono⟩
  | cons a as iha ihas =>
    refine ⟨fun acc rer d pi h => ?_, fun rer d pi => ?_⟩
    · simp only [compileAlternative]
      exact ihas.1 _ _ _ _ (matchSequence_mono h (iha _ _ _) d)
    · cases as with
      | nil => simp only [compileDisjunction]; exact iha _ _ _
      | cons b bs =>
        simp only [compileDisjunction]
        exact matchTwoAlternatives_mono (iha _ _ _) (ihas.2 _ _ _)

/-- The anchored match is monotone in the fuel. -/
theorem matchAt_mono (input : Array Nat) (pattern : Node) (rer : RER) {f f' : Nat} (h : f ≤ f')
    (i : Nat) : (matchAt input pattern rer f i).le (matchAt input pattern rer f' i) :=
  compileNode_mono input pattern pattern rer .forward 0 f f' _ _ _ h (Cont.le_refl _)

theorem searchLoop_mono {run run' : Nat → MatchResult} (h : ∀ i, (run i).le (run' i)) :
    ∀ tries i, searchLoop run tries i = .outOfFuel ∨ searchLoop run tries i = searchLoop run' tries i := by
  intro tries
  induction tries with
  | zero => intro i; exact .inr rfl
  | succ k ih =>
    intro i
    simp only [searchLoop]
    rcases h i with h0 | h0
    · rw [h0]; exact .inl rfl
    · rw [← h0]
      cases run i
      · exact ih (i + 1)
      · exact .inr rfl
      · exact .inl rfl

/-- **Fuel only ever turns `outOfFuel` into the definite answer**: a result of `esExec` other than
`outOfFuel` is the result for every larger fuel. -/
theorem esExec_fuel_mono (flags : Flags) (pattern : Node) (input : Array Nat) (start : Nat)
    {f f' : Nat} (h : f ≤ f') (hr : esExec flags pattern input start f ≠ .outOfFuel) :
    esExec flags pattern input start f' = esExec flags pattern input start f := by
  rw [esExec_eq] at hr ⊢
  rw [esExec_eq]
  rcases searchLoop_mono (fun i => matchAt_mono input pattern _ h i) (input.size + 1 - start) start
    with h0 | h0
  · exact absurd h0 hr
  · exact h0.symm

/-! ## Non-vacuity: concrete runs of the specification (evaluated by the kernel) -/

/-- `/(a)|b/` on "ba" from 0 matches `b` at 0 with group 1 undefined (not `a` at 1). -/
example :
    esExec {} (.alt [.group 1 none (.char 0x61), .char 0x62]) #[0x62, 0x61] 0 10 =
      .matched 0 1 [none] := by decide

/-- `/(?:(a)|b)*/` on "ab": the second iteration resets group 1. -/
example :
    esExec {} (.quant 0 none true (.nc (.alt [.group 1 none (.char 0x61), .char 0x62])))
      #[0x61, 0x62] 0 10 = .matched 0 2 [none] := by decide

/-- `/(?<=(a)(b))c/` on "abc": look-behind evaluates right to left, captures are as written. -/
example :
    esExec {} (.cat [.look false false (.cat [.group 1 none (.char 0x61),
        .group 2 none (.char 0x62)]), .char 0x63]) #[0x61, 0x62, 0x63] 0 10 =
      .matched 2 3 [some (0, 1), some (1, 2)] := by decide

/-- non-vacuity of `esExec_fuel_mono`: fuel 4 already decides `/a*/` on "aaa". -/
example : esExec {} (.quant 0 none true (.char 0x61)) #[0x61, 0x61, 0x61] 0 4 = .matched 0 3 [] := by
  decide

/-- `/a*/` with too little fuel reports `outOfFuel`, never a wrong answer. -/
example : esExec {} (.quant 0 none true (.char 0x61)) #[0x61, 0x61, 0x61] 0 2 = .outOfFuel := by
  decide

end Regress.ES

#print axioms Regress.ES.alt_assoc
#print axioms Regress.ES.cat_flatten_right
#print axioms Regress.ES.cat_flatten_left
#print axioms Regress.ES.nc_eq
#print axioms Regress.ES.quant_one_one
#print axioms Regress.ES.esExec_matched_least
#print axioms Regress.ES.esExec_noMatch
#print axioms Regress.ES.esExec_complete
#print axioms Regress.ES.esExec_alt_assoc
#print axioms Regress.ES.esExec_cat_flatten
#print axioms Regress.ES.esExec_nc
#print axioms Regress.ES.compileNode_mono
#print axioms Regress.ES.esExec_fuel_mono
