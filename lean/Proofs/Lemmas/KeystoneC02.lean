import Proofs.Lemmas.KeystoneTop
import Proofs.C02
import Proofs.Lemmas.SemSearch
/-!
# Keystone, composed with C02: the backtracking executor

(`Proofs.C02` and `Proofs.C06` cannot be imported into one module — both generate the same
auxiliary declaration names — so this composition lives in its own file.)
-/
namespace Regress.Keystone

open Regress.VM Regress.VM.Pk Regress.IR

/-- `Pk.capsOf` is the capture table of `capsOfState` read through `GroupData::as_range`. -/
theorem capsOf_eq' (st : State) : Pk.capsOf st = (capsOfState st).map capRange := by
  simp only [Pk.capsOf, capsOfState, List.map_map]
  apply List.map_congr_left
  intro g _
  cases g with
  | mk a b => cases a <;> cases b <;> rfl

/-- **With C02 (the backtracking executor).** For a program without `Loop1CharBody` that passes the
structural checks of `C02_partial`, an attempt of the backtracker that ends neither out of budget
nor in an error (and such that the PikeVM does not end in an error either) ends as the IR semantics
says. -/
theorem keystone_backtrack {r : Regex} {prog : Prog} {inp : Input} {cs : List Nat} {p : Nat}
    (he : emit r = .ok prog) (hu : r.flags.unicode = inp.unicode) (hroot : rootOK r.node = true) (hw : WF r.node)
    (hng : numGroups r.node < 4294967296) (hnl : numLoops r.node ≤ 65536)
    (hs : Sim.loopsStructured prog = true) (hl : Sim.looksStructured prog = true)
    (hsimple : Sim.simpleProg prog = true)
    (ht : Utf8Text inp cs) (hb : AtBoundary cs p) (fuel : Nat)
    (hB : ∀ e, Bt.attempt prog inp fuel p ≠ .error e) (hBf : Bt.attempt prog inp fuel p ≠ .outOfFuel)
    (hP : ∀ e, Pk.attempt prog inp fuel p ≠ .error e) :
    match firstMatch inp r.node p with
    | none => ∃ st steps peak, Bt.attempt prog inp fuel p = .failed st steps peak
    | some σ => ∃ st steps peak, Bt.attempt prog inp fuel p = .matched σ.pos st steps peak ∧
        Bt.capsOf st = σ.caps.map capRange := by
  have hok : Sim.inpOK inp = true := by simp [Sim.inpOK, ht.kind]
  have h2 := C02.C02_partial prog hs hl hsimple inp hok fuel p
  have key : Fine (Pk.attempt prog inp fuel p) →
      (match firstMatch inp r.node p with
      | none => ∃ steps peak, Pk.attempt prog inp fuel p = .failed steps peak
      | some σ => ∃ st steps peak, Pk.attempt prog inp fuel p = .matched σ.pos st steps peak ∧
          capsOfState st = σ.caps) := attempt_first he hu hroot hw hng hnl ht hb fuel
  cases hb' : Bt.attempt prog inp fuel p with
  | error e => exact absurd hb' (hB e)
  | outOfFuel => exact absurd hb' hBf
  | matched e st s pk =>
    rw [hb'] at h2
    cases hp' : Pk.attempt prog inp fuel p with
    | error e => exact absurd hp' (hP e)
    | outOfFuel => rw [hp'] at h2; exact h2.elim
    | failed _ _ => rw [hp'] at h2; exact h2.elim
    | matched e' st' s' pk' =>
      rw [hp'] at h2 key
      have := key trivial
      cases hm : firstMatch inp r.node p with
      | none => rw [hm] at this; obtain ⟨_, _, h⟩ := this; cases h
      | some σ =>
        rw [hm] at this
        obtain ⟨st'', steps, peak, h, hcaps⟩ := this
        cases h
        exact ⟨st, s, pk, by rw [h2.1], by rw [h2.2.1, capsOf_eq', hcaps]⟩
  | failed st s pk =>
    rw [hb'] at h2
    cases hp' : Pk.attempt prog inp fuel p with
    | error e => exact absurd hp' (hP e)
    | outOfFuel => rw [hp'] at h2; exact h2.elim
    | matched _ _ _ _ => rw [hp'] at h2; exact h2.elim
    | failed s' pk' =>
      rw [hp'] at key
      have := key trivial
      cases hm : firstMatch inp r.node p with
      | some σ => rw [hm] at this; obtain ⟨_, _, _, h, _⟩ := this; cases h
      | none => exact ⟨st, s, pk, rfl⟩


end Regress.Keystone

#print axioms Regress.Keystone.keystone_backtrack
