import Proofs.Lemmas.SemWalk
import Proofs.Lemmas.StartPred
/-!
# The IR semantics on well-formed UTF-8 text

`Utf8Text inp cs`: the input is a `Utf8Input` whose bytes are the UTF-8 encoding of the scalar
values `cs`.  `AtBoundary cs p`: `p` is the byte offset of one of the `cs.length + 1` char boundaries.
-/
namespace Regress.IR

open Regress.VM Regress

/-- The input is the UTF-8 encoding of the scalar values `cs`. -/
structure Utf8Text (inp : Input) (cs : List Nat) : Prop where
  kind : inp.kind = .utf8
  bytes : inp.bytes = Utf8.text cs
  scalar : Utf8.AllScalar cs

/-- `p` is a char boundary of `text cs`. -/
def AtBoundary (cs : List Nat) (p : Nat) : Prop := ∃ k, k ≤ cs.length ∧ p = Utf8.off cs k

/-- The bytes of the input from offset `p` on. -/
def restBytes (inp : Input) (p : Nat) : List Nat := inp.bytes.toList.drop p

theorem Utf8Text.inputOK {inp : Input} {cs : List Nat} (h : Utf8Text inp cs) : InputOK inp := Or.inl h.kind

theorem Utf8Text.len {inp : Input} {cs : List Nat} (h : Utf8Text inp cs) : inp.len = (Utf8.text cs).size := by
  simp [Input.len, h.bytes]

theorem atBoundary_iff {inp : Input} {cs : List Nat} (h : Utf8Text inp cs) {p : Nat} (hp : p ≤ inp.len) :
    AtBoundary cs p ↔ Utf8.isBoundary inp.bytes p = true := by
  rw [h.bytes]; rw [h.len] at hp
  exact (Utf8.isBoundary_iff cs hp).symm

theorem AtBoundary.le_len {inp : Input} {cs : List Nat} (h : Utf8Text inp cs) {p : Nat} (hb : AtBoundary cs p) :
    p ≤ inp.len := by
  obtain ⟨k, _, rfl⟩ := hb
  rw [h.len]; exact Utf8.off_le_size cs k

/-- `cursor::next` forward at the `k`-th boundary. -/
theorem next_fwd_at {inp : Input} {cs : List Nat} (h : Utf8Text inp cs) {k : Nat} (hk : k < cs.length) :
    Cursor.next inp true (Utf8.off cs k) = .ok (some (cs[k], Utf8.off cs (k + 1))) := by
  simp only [Cursor.next, if_true, Input.nextRight, h.kind, h.bytes]
  exact Utf8.nextRight_roundtrip h.scalar hk

theorem next_fwd_end {inp : Input} {cs : List Nat} (h : Utf8Text inp cs) :
    Cursor.next inp true (Utf8.off cs cs.length) = .ok none := by
  simp only [Cursor.next, if_true, Input.nextRight, h.kind, h.bytes]
  exact Utf8.nextRight_roundtrip_end cs

/-- `cursor::next` backward at the `k`-th boundary. -/
theorem next_bwd_at {inp : Input} {cs : List Nat} (h : Utf8Text inp cs) {k : Nat} (hk0 : 0 < k) (hk : k ≤ cs.length) :
    Cursor.next inp false (Utf8.off cs k) = .ok (some (cs[k - 1]'(by omega), Utf8.off cs (k - 1))) := by
  simp only [Cursor.next, Bool.false_eq_true, if_false, Input.nextLeft, h.kind, h.bytes]
  exact Utf8.nextLeft_roundtrip h.scalar hk0 hk

theorem next_bwd_start {inp : Input} {cs : List Nat} (h : Utf8Text inp cs) :
    Cursor.next inp false (Utf8.off cs 0) = .ok none := by
  simp only [Cursor.next, Bool.false_eq_true, if_false, Input.nextLeft, h.kind, h.bytes]
  exact Utf8.nextLeft_roundtrip_start cs

/-- The bytes from the `k`-th boundary on are the encoding of the remaining scalars. -/
theorem restBytes_off {inp : Input} {cs : List Nat} (h : Utf8Text inp cs) (k : Nat) :
    restBytes inp (Utf8.off cs k) = Utf8.encodeAll (cs.drop k) := by
  simp only [restBytes, h.bytes, Utf8.text]
  exact Utf8.drop_off cs k

/-- A successful forward `charStep` at a boundary read the scalar whose lead byte is the byte at
the position. -/
theorem charStep_fwd_head {inp : Input} {cs : List Nat} (h : Utf8Text inp cs) {p e : Nat} {t : Nat → Bool}
    (hb : AtBoundary cs p) (hs : charStep inp true p t = some e) :
    ∃ c, t c = true ∧ c ≤ 0x10FFFF ∧ (restBytes inp p).head? = some (Utf8.firstByte c) := by
  obtain ⟨k, hk, rfl⟩ := hb
  obtain ⟨c, hc, ht⟩ := charStep_elem hs
  by_cases hlt : k < cs.length
  · rw [next_fwd_at h hlt] at hc
    simp only [Except.ok.injEq, Option.some.injEq, Prod.mk.injEq] at hc
    obtain ⟨rfl, _⟩ := hc
    have hsc := h.scalar _ (List.getElem_mem hlt)
    refine ⟨_, ht, Utf8.isScalar_le hsc, ?_⟩
    rw [restBytes_off h, List.drop_eq_getElem_cons hlt, Utf8.encodeAll_cons]
    have hh := Utf8.firstByte_eq_head (Utf8.isScalar_le hsc)
    cases he : Utf8.encode cs[k] with
    | nil => exact absurd he (Utf8.encode_ne_nil _)
    | cons a t => rw [he] at hh; simpa using hh
  · have : k = cs.length := by omega
    subst this
    rw [next_fwd_end h] at hc
    cases hc

/-! ## `match_bytes` of a concatenation -/

theorem slice_split (bytes : Array Nat) {s q e : Nat} (h1 : s ≤ q) (h2 : q ≤ e) :
    Utf8.slice bytes s e = Utf8.slice bytes s q ++ Utf8.slice bytes q e := by
  simp only [Utf8.slice_eq]
  have : e - s = (q - s) + (e - q) := by omega
  rw [this, List.take_add, List.drop_drop]
  have hq : s + (q - s) = q := by omega
  rw [hq]

theorem slice_length_le (bytes : Array Nat) (s e : Nat) : (Utf8.slice bytes s e).length ≤ e - s := by
  simp only [Utf8.slice_eq, List.length_take]; omega

theorem append_eq_append_of_le {X Y a b : List Nat} (hx : X.length ≤ a.length) (hy : Y.length ≤ b.length) :
    X ++ Y = a ++ b ↔ X = a ∧ Y = b := by
  constructor
  · intro h
    have hl := congrArg List.length h
    simp only [List.length_append] at hl
    exact List.append_inj h (by omega)
  · rintro ⟨rfl, rfl⟩; rfl

theorem matchBytes_append_fwd (inp : Input) (pos : Nat) (a b : List Nat) :
    inp.matchBytes true pos (a ++ b) =
      match inp.matchBytes true pos a with
      | none => none
      | some p => inp.matchBytes true p b := by
  simp only [Input.matchBytes, Utf8.matchBytes, if_true, Utf8.tryMoveRight, List.length_append]
  by_cases h1 : inp.bytes.size - pos < a.length
  · have : inp.bytes.size - pos < a.length + b.length := by omega
    simp [h1, this]
  · simp only [h1, if_false]
    have hsp := slice_split inp.bytes (s := pos) (q := pos + a.length) (e := pos + (a.length + b.length)) (by omega) (by omega)
    have hx := slice_length_le inp.bytes pos (pos + a.length)
    have hy := slice_length_le inp.bytes (pos + a.length) (pos + (a.length + b.length))
    by_cases h2 : inp.bytes.size - pos < a.length + b.length
    · simp only [h2, if_true]
      by_cases ha : Utf8.slice inp.bytes pos (pos + a.length) = a
      · have : inp.bytes.size - (pos + a.length) < b.length := by omega
        simp [ha, this]
      · simp [ha]
    · simp only [h2, if_false]
      have h3 : ¬ (inp.bytes.size - (pos + a.length) < b.length) := by omega
      rw [hsp]
      by_cases ha : Utf8.slice inp.bytes pos (pos + a.length) = a
      · simp only [ha, beq_self_eq_true, if_true, h3, if_false]
        rw [show pos + a.length + b.length = pos + (a.length + b.length) by omega]
        by_cases hb : Utf8.slice inp.bytes (pos + a.length) (pos + (a.length + b.length)) = b
        · simp [hb]
        · have : ¬ (a ++ Utf8.slice inp.bytes (pos + a.length) (pos + (a.length + b.length)) = a ++ b) := by
            simpa using hb
          simp [hb, this]
      · have : ¬ (Utf8.slice inp.bytes pos (pos + a.length) ++
            Utf8.slice inp.bytes (pos + a.length) (pos + (a.length + b.length)) = a ++ b) := by
          rw [append_eq_append_of_le (by omega) (by omega)]
          exact fun hh => ha hh.1
        simp [ha, this]

theorem matchBytes_append_bwd (inp : Input) (pos : Nat) (c p : List Nat) :
    inp.matchBytes false pos (c ++ p) =
      match inp.matchBytes false pos p with
      | none => none
      | some q => inp.matchBytes false q c := by
  simp only [Input.matchBytes, Utf8.matchBytes, Bool.false_eq_true, if_false, Utf8.tryMoveLeft, List.length_append]
  by_cases h1 : pos < p.length
  · have : pos < c.length + p.length := by omega
    simp [h1, this]
  · simp only [h1, if_false]
    by_cases h2 : pos < c.length + p.length
    · simp only [h2, if_true]
      by_cases hp : Utf8.slice inp.bytes (pos - p.length) pos = p
      · have : pos - p.length < c.length := by omega
        simp [hp, this]
      · simp [hp]
    · simp only [h2, if_false]
      have h3 : ¬ (pos - p.length < c.length) := by omega
      have hsp := slice_split inp.bytes (s := pos - (c.length + p.length)) (q := pos - p.length) (e := pos) (by omega) (by omega)
      have hx := slice_length_le inp.bytes (pos - (c.length + p.length)) (pos - p.length)
      have hy := slice_length_le inp.bytes (pos - p.length) pos
      rw [hsp]
      by_cases hp : Utf8.slice inp.bytes (pos - p.length) pos = p
      · simp only [hp, beq_self_eq_true, if_true, h3, if_false]
        rw [show pos - p.length - c.length = pos - (c.length + p.length) by omega]
        by_cases hc : Utf8.slice inp.bytes (pos - (c.length + p.length)) (pos - p.length) = c
        · simp [hc]
        · have : ¬ (Utf8.slice inp.bytes (pos - (c.length + p.length)) (pos - p.length) ++ p = c ++ p) := by
            simpa using hc
          simp [hc, this]
      · have : ¬ (Utf8.slice inp.bytes (pos - (c.length + p.length)) (pos - p.length) ++
            Utf8.slice inp.bytes (pos - p.length) pos = c ++ p) := by
          rw [append_eq_append_of_le (by omega) (by omega)]
          exact fun hh => hp hh.2
        simp [hp, this]

/-! ## Steps from a char boundary -/

theorem encode_ascii {c : Nat} (h : c < 128) : Utf8.encode c = [c] := by simp [Utf8.encode, h]

theorem firstByte_ge {c : Nat} (h : 128 ≤ c) (hle : c ≤ 0x10FFFF) : 128 ≤ Utf8.firstByte c := by
  unfold Utf8.firstByte
  rw [if_neg (by omega)]
  split
  · omega
  · split <;> omega

theorem encode_last_ge {c : Nat} (h : 128 ≤ c) : ∀ b, (Utf8.encode c).getLast? = some b → 128 ≤ b := by
  intro b hb
  unfold Utf8.encode at hb
  split at hb
  · omega
  · split at hb
    · simp at hb; omega
    · split at hb <;> (simp at hb; omega)

/-- A `charStep` from a char boundary ends at a char boundary. -/
theorem charStep_boundary {inp : Input} {cs : List Nat} (ht : Utf8Text inp cs) {fwd : Bool} {p e : Nat} {t : Nat → Bool}
    (hb : AtBoundary cs p) (hs : charStep inp fwd p t = some e) : AtBoundary cs e := by
  obtain ⟨k, hk, rfl⟩ := hb
  obtain ⟨c, hc, _⟩ := charStep_elem hs
  cases fwd
  · by_cases h0 : 0 < k
    · rw [next_bwd_at ht h0 hk] at hc
      simp only [Except.ok.injEq, Option.some.injEq, Prod.mk.injEq] at hc
      exact ⟨k - 1, by omega, hc.2.symm⟩
    · have : k = 0 := by omega
      subst this
      rw [next_bwd_start ht] at hc; cases hc
  · by_cases hlt : k < cs.length
    · rw [next_fwd_at ht hlt] at hc
      simp only [Except.ok.injEq, Option.some.injEq, Prod.mk.injEq] at hc
      exact ⟨k + 1, by omega, hc.2.symm⟩
    · have : k = cs.length := by omega
      subst this
      rw [next_fwd_end ht] at hc; cases hc

/-- `charStep` at the `k`-th boundary, forward. -/
theorem charStep_fwd_at {inp : Input} {cs : List Nat} (ht : Utf8Text inp cs) {k : Nat} (hk : k < cs.length)
    (t : Nat → Bool) :
    charStep inp true (Utf8.off cs k) t = if t cs[k] then some (Utf8.off cs (k + 1)) else none := by
  simp only [charStep, next_fwd_at ht hk]

theorem charStep_fwd_end {inp : Input} {cs : List Nat} (ht : Utf8Text inp cs) (t : Nat → Bool) :
    charStep inp true (Utf8.off cs cs.length) t = none := by
  simp only [charStep, next_fwd_end ht]

/-- `charStep` at the `k`-th boundary, backward. -/
theorem charStep_bwd_at {inp : Input} {cs : List Nat} (ht : Utf8Text inp cs) {k : Nat} (hk0 : 0 < k)
    (hk : k ≤ cs.length) (t : Nat → Bool) :
    charStep inp false (Utf8.off cs k) t =
      if t (cs[k - 1]'(by omega)) then some (Utf8.off cs (k - 1)) else none := by
  simp only [charStep, next_bwd_at ht hk0 hk]

theorem charStep_bwd_start {inp : Input} {cs : List Nat} (ht : Utf8Text inp cs) (t : Nat → Bool) :
    charStep inp false (Utf8.off cs 0) t = none := by
  simp only [charStep, next_bwd_start ht]

theorem bytes_at_off {inp : Input} {cs : List Nat} (ht : Utf8Text inp cs) {k : Nat} (hk : k < cs.length) (i : Nat)
    (hi : i < (Utf8.encode cs[k]).length) : inp.bytes[Utf8.off cs k + i]? = (Utf8.encode cs[k])[i]? := by
  rw [ht.bytes]; exact Utf8.hasAt_text hk i hi

/-- On UTF-8 text, at a char boundary, a byte test that only accepts ASCII bytes is the same as the
test on the char (this is why `AsciiBracket`, `ByteSet2/3/4` may be used for ASCII sets). -/
theorem byteStep_eq_charStep {inp : Input} {cs : List Nat} (ht : Utf8Text inp cs) (fwd : Bool) {p : Nat}
    (hb : AtBoundary cs p) (t : Nat → Bool) (hascii : ∀ b, t b = true → b < 128) :
    byteStep inp fwd p t = charStep inp fwd p t := by
  obtain ⟨k, hk, rfl⟩ := hb
  have hsize : inp.bytes.size = (Utf8.text cs).size := by rw [ht.bytes]
  have hoff := Utf8.off_le_size cs k
  cases fwd
  · -- backward
    by_cases h0 : 0 < k
    · have hk1 : k - 1 < cs.length := by omega
      rw [charStep_bwd_at ht h0 hk]
      have hsucc := Utf8.off_succ hk1
      rw [show k - 1 + 1 = k by omega] at hsucc
      have hpos := Utf8.encode_length_pos cs[k - 1]
      have hlast := bytes_at_off ht hk1 ((Utf8.encode cs[k - 1]).length - 1) (by omega)
      rw [show Utf8.off cs (k - 1) + ((Utf8.encode cs[k - 1]).length - 1) = Utf8.off cs k - 1 by omega] at hlast
      have hne : ¬ (Utf8.off cs k = 0) := by omega
      have hgt : ¬ (Utf8.off cs k > inp.bytes.size) := by omega
      simp only [byteStep, Cursor.nextByte, Bool.false_eq_true, if_false, Input.peekByteLeft, Utf8.peekByteLeft, hgt]
      rw [if_neg (by simpa using hne), hlast]
      by_cases hc : cs[k - 1] < 128
      · have he := encode_ascii hc
        simp only [he, List.length_cons, List.length_nil] at hsucc ⊢
        simp only [show (0 + 1 - 1) = 0 from rfl, List.getElem?_cons_zero]
        rw [show Utf8.off cs (k - 1) = Utf8.off cs k - 1 by omega]
      · have hge : 128 ≤ cs[k - 1] := by omega
        have hf : t cs[k - 1] = false := by
          cases htc : t cs[k - 1] with
          | false => rfl
          | true => have := hascii _ htc; omega
        rw [hf]
        cases hl : (Utf8.encode cs[k - 1])[(Utf8.encode cs[k - 1]).length - 1]? with
        | none => rfl
        | some b =>
          have hb128 : 128 ≤ b := encode_last_ge hge b (by rw [List.getLast?_eq_getElem?]; exact hl)
          have hfb : t b = false := by
            cases htb : t b with
            | false => rfl
            | true => have := hascii _ htb; omega
          simp [hfb]
    · have : k = 0 := by omega
      subst this
      rw [charStep_bwd_start ht]
      simp [byteStep, Cursor.nextByte, Input.peekByteLeft, Utf8.peekByteLeft]
  · -- forward
    by_cases hlt : k < cs.length
    · rw [charStep_fwd_at ht hlt]
      have hsucc := Utf8.off_succ hlt
      have hpos := Utf8.encode_length_pos cs[k]
      have hfirst := bytes_at_off ht hlt 0 hpos
      rw [Nat.add_zero] at hfirst
      have hss := Utf8.off_le_size cs (k + 1)
      have hne : ¬ (Utf8.off cs k = inp.bytes.size) := by omega
      have hgt : ¬ (Utf8.off cs k > inp.bytes.size) := by omega
      simp only [byteStep, Cursor.nextByte, if_true, Input.peekByteRight, Utf8.peekByteRight, hgt]
      rw [if_neg (by simpa using hne), hfirst]
      have hsc := ht.scalar _ (List.getElem_mem hlt)
      by_cases hc : cs[k] < 128
      · have he := encode_ascii hc
        simp only [he, List.length_cons, List.length_nil] at hsucc ⊢
        simp only [List.getElem?_cons_zero]
        rw [hsucc]
        simp [hne]
      · have hge : 128 ≤ cs[k] := by omega
        have hf : t cs[k] = false := by
          cases htc : t cs[k] with
          | false => rfl
          | true => have := hascii _ htc; omega
        rw [hf]
        have hh := Utf8.firstByte_eq_head (Utf8.isScalar_le hsc)
        rw [List.head?_eq_getElem?] at hh
        rw [hh]
        have hfb : t (Utf8.firstByte cs[k]) = false := by
          cases htb : t (Utf8.firstByte cs[k]) with
          | false => rfl
          | true => have := hascii _ htb; have := firstByte_ge hge (Utf8.isScalar_le hsc); omega
        simp [hfb, hne]
    · have : k = cs.length := by omega
      subst this
      rw [charStep_fwd_end ht]
      have : Utf8.off cs cs.length = inp.bytes.size := by rw [Utf8.off_length, hsize]
      simp [byteStep, Cursor.nextByte, Input.peekByteRight, Utf8.peekByteRight, this]

end Regress.IR
