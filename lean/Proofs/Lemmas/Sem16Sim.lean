import Proofs.Lemmas.Sem16Agree
/-!
# The simulation: loops, one-character loops, and every node
-/
namespace Regress.IR

open Regress.VM Regress
open Regress.Utf16 (off16 text16)

section
variable {inp8 : Input} {inp16 : Input16} {cs : List Nat}

/-! ## `Loop` -/

theorem loopIter16_stuck (body : St → List Out) (q : Quant) (g0 g1 k iter : Nat) (st : St) (h : iter > q.min) :
    loopIter16 body q g0 g1 (k + 1) iter st.pos st = [] := by
  simp [loopIter16, h]

theorem loopIter_sim (h : SameText inp8 inp16 cs) (fwd : Bool) {body8 : St → List St} {body16 : St → List Out}
    (q : Quant) (g0 g1 : Nat)
    (hbody : ∀ s, Good cs s → body16 (s.mapPos (to16 cs)) = (body8 s).map (okMap (to16 cs)))
    (hgood : ∀ s s', Good cs s → s' ∈ body8 s → Good cs s' ∧ WeakAdv inp8 fwd s.pos s'.pos) :
    ∀ k iter entry st, Good cs st → AtBoundary cs entry →
      (q.min - iter) + mu16 inp16 fwd (to16 cs st.pos) + 2 ≤ k →
      loopIter16 body16 q g0 g1 k iter (to16 cs entry) (st.mapPos (to16 cs)) =
        (loopIter body8 q g0 g1 k iter entry st).map (okMap (to16 cs)) := by
  intro k
  induction k with
  | zero => intro _ _ _ _ _ h; omega
  | succ k ih =>
    intro iter entry st hg he hk
    have hentry : (to16 cs entry == (st.mapPos (to16 cs)).pos) = (entry == st.pos) := by
      rw [St.mapPos_pos, Bool.eq_iff_iff]
      simp only [beq_iff_eq]
      exact to16_eq_iff he hg.1
    have hreset := (utf8Inv cs).reset st g0 g1 hg
    have taken : bindOut (body16 ((st.mapPos (to16 cs)).resetGroups g0 g1))
          (loopIter16 body16 q g0 g1 k (iter + 1) (st.mapPos (to16 cs)).pos) =
        ((body8 (st.resetGroups g0 g1)).flatMap (loopIter body8 q g0 g1 k (iter + 1) st.pos)).map
          (okMap (to16 cs)) := by
      rw [← mapPos_resetGroups, hbody _ hreset, bindOut_map, List.map_flatMap]
      apply flatMap_congr_mem
      intro s hs
      have hgs := hgood _ s hreset hs
      have hpos : (st.resetGroups g0 g1).pos = st.pos := rfl
      rw [hpos] at hgs
      rw [St.mapPos_pos]
      by_cases hstuck : s.pos = st.pos ∧ iter + 1 > q.min
      · obtain ⟨k', rfl⟩ : ∃ x, k = x + 1 := ⟨k - 1, by omega⟩
        rw [← hstuck.1, loopIter_stuck _ _ _ _ _ _ _ hstuck.2]
        have := loopIter16_stuck body16 q g0 g1 k' (iter + 1) (s.mapPos (to16 cs)) hstuck.2
        rw [St.mapPos_pos] at this
        rw [this]; rfl
      · apply ih (iter + 1) st.pos s hgs.1 hg.1
        by_cases hp : s.pos = st.pos
        · have : ¬ (iter + 1 > q.min) := fun hh => hstuck ⟨hp, hh⟩
          rw [hp]; omega
        · have := mu16_lt_of_adv h fwd hg.1 hgs.1.1 (hgs.2.adv_of_ne hp)
          omega
    rw [loopIter16, loopIter, hentry]
    cases (entry == st.pos && decide (iter > q.min))
    · simp only [Bool.false_eq_true, if_false]
      cases maxOk q iter <;> cases decide (iter ≥ q.min)
      · rfl
      · rfl
      · exact taken
      · dsimp only
        cases q.greedy
        · simp only [Bool.false_eq_true, if_false]; rw [taken]; rfl
        · simp only [if_true]; rw [taken]; simp [okMap]
    · rfl

/-! ## `Loop1CharBody` -/

/-- A matcher step on UTF-8 text in terms of char indices. -/
theorem charStep8_index (h : Utf8Text inp8 cs) (fwd : Bool) {k e : Nat} (hk : k ≤ cs.length) {p : Nat → Bool}
    (hs : charStep inp8 fwd (Utf8.off cs k) p = some e) :
    if fwd then k < cs.length ∧ e = Utf8.off cs (k + 1) else 0 < k ∧ e = Utf8.off cs (k - 1) := by
  cases fwd
  · simp only [Bool.false_eq_true, if_false]
    by_cases h0 : 0 < k
    · rw [charStep_bwd_at h h0 hk] at hs
      split at hs
      · exact ⟨h0, by simpa using hs.symm⟩
      · cases hs
    · have : k = 0 := by omega
      subst this
      rw [charStep_bwd_start h] at hs; cases hs
  · simp only [if_true]
    by_cases hlt : k < cs.length
    · rw [charStep_fwd_at h hlt] at hs
      split at hs
      · exact ⟨hlt, by simpa using hs.symm⟩
      · cases hs
    · have : k = cs.length := by omega
      subst this
      rw [charStep_fwd_end h] at hs; cases hs

/-- The positions that are the translation of a boundary. -/
def Is16 (cs : List Nat) (x : Nat) : Prop := ∃ b, AtBoundary cs b ∧ x = to16 cs b

theorem step16_spec (h : SameText inp8 inp16 cs) (fwd : Bool) (p : Nat → Bool) {a b : Nat} (ha : Is16 cs a)
    (hs : charStep16 inp16 fwd a p = some b) :
    Is16 cs b ∧ mu16 inp16 fwd b < mu16 inp16 fwd a ∧ inp16.nextPos (!fwd) b = some a ∧ inp16.nextPos fwd a = some b := by
  obtain ⟨b0, hb0, rfl⟩ := ha
  rw [charStep_to16 h fwd hb0] at hs
  cases hs8 : charStep inp8 fwd b0 p with
  | none => rw [hs8] at hs; cases hs
  | some e =>
    rw [hs8] at hs
    simp only [Option.map_some, Option.some.injEq] at hs
    subst hs
    have hbe := charStep_boundary h.t8 hb0 hs8
    refine ⟨⟨e, hbe, rfl⟩, mu16_lt_of_adv h fwd hb0 hbe (charStep_adv hs8), ?_⟩
    obtain ⟨k, hk, rfl⟩ := hb0
    have hi := charStep8_index h.t8 fwd hk hs8
    cases fwd
    · simp only [Bool.false_eq_true, if_false] at hi
      obtain ⟨h0, rfl⟩ := hi
      rw [to16_off cs hk, to16_off cs (show k - 1 ≤ cs.length by omega)]
      refine ⟨?_, nextPos16_bwd_at h.t16 h0 hk⟩
      have := nextPos16_fwd_at h.t16 (show k - 1 < cs.length by omega)
      rw [show k - 1 + 1 = k by omega] at this
      simpa using this
    · simp only [if_true] at hi
      obtain ⟨hlt, rfl⟩ := hi
      rw [to16_off cs hk, to16_off cs (show k + 1 ≤ cs.length by omega)]
      refine ⟨?_, nextPos16_fwd_at h.t16 hlt⟩
      have := nextPos16_bwd_at h.t16 (Nat.succ_pos k) (show k + 1 ≤ cs.length by omega)
      simpa using this

theorem scmRun_to16 (h : SameText inp8 inp16 cs) (fwd : Bool) (p : Nat → Bool) :
    ∀ (d a : Nat), AtBoundary cs a →
      scmRun (fun x => charStep16 inp16 fwd x p) d (to16 cs a) =
        (scmRun (fun x => charStep inp8 fwd x p) d a).map (to16 cs) := by
  intro d
  induction d with
  | zero => intro a _; rfl
  | succ d ih =>
    intro a ha
    simp only [scmRun, charStep_to16 h fwd ha]
    cases hs : charStep inp8 fwd a p with
    | none => rfl
    | some e => exact ih e (charStep_boundary h.t8 ha hs)

theorem scmRun8_spec (h : Utf8Text inp8 cs) (fwd : Bool) (p : Nat → Bool) :
    ∀ (d a b : Nat), AtBoundary cs a → scmRun (fun x => charStep inp8 fwd x p) d a = some b →
      AtBoundary cs b ∧ mu inp8 fwd b ≤ mu inp8 fwd a := by
  intro d
  induction d with
  | zero => intro a b ha hs; simp only [scmRun, Option.some.injEq] at hs; subst hs; exact ⟨ha, Nat.le_refl _⟩
  | succ d ih =>
    intro a b ha hs
    simp only [scmRun] at hs
    cases hs8 : charStep inp8 fwd a p with
    | none => rw [hs8] at hs; cases hs
    | some e =>
      rw [hs8] at hs
      have := ih e b (charStep_boundary h ha hs8) hs
      have hlt := (charStep_adv hs8).mu_lt
      exact ⟨this.1, by omega⟩

theorem runTrace_to16 (h : SameText inp8 inp16 cs) (fwd : Bool) (p : Nat → Bool) :
    ∀ (k : Nat) (lim : Option Nat) (a : Nat), AtBoundary cs a →
      runTrace (fun x => charStep16 inp16 fwd x p) k lim (to16 cs a) =
        (runTrace (fun x => charStep inp8 fwd x p) k lim a).map (to16 cs) := by
  intro k
  induction k with
  | zero => intro _ _ _; rfl
  | succ k ih =>
    intro lim a ha
    by_cases h0 : (lim == some 0) = true
    · rw [runTrace_lim0 h0, runTrace_lim0 h0]; rfl
    · cases hs : charStep inp8 fwd a p with
      | none =>
        have hs16 : charStep16 inp16 fwd (to16 cs a) p = none := by rw [charStep_to16 h fwd ha, hs]; rfl
        rw [runTrace_none (step := fun x => charStep16 inp16 fwd x p) h0 hs16,
          runTrace_none (step := fun x => charStep inp8 fwd x p) h0 hs]; rfl
      | some e =>
        have hs16 : charStep16 inp16 fwd (to16 cs a) p = some (to16 cs e) := by
          rw [charStep_to16 h fwd ha, hs]; rfl
        rw [runTrace_some (step := fun x => charStep16 inp16 fwd x p) h0 hs16,
          runTrace_some (step := fun x => charStep inp8 fwd x p) h0 hs, ih _ e (charStep_boundary h.t8 ha hs)]
        rfl

theorem mu16_le_len (inp : Input16) (fwd : Bool) {x : Nat} (hx : x ≤ inp.len) : mu16 inp fwd x ≤ inp.len := by
  unfold mu16; split <;> omega

theorem is16_le_len (h : Utf16Text inp16 cs) {x : Nat} (hx : Is16 cs x) : x ≤ inp16.len := by
  obtain ⟨b, ⟨k, hk, rfl⟩, rfl⟩ := hx
  rw [to16_off cs hk, h.len]; exact Utf16.off16_le_size cs k

/-- `run_scm_loop` on the UTF-16 text is `loop1Iter` on the UTF-8 text. -/
theorem loop1_sim (h : SameText inp8 inp16 cs) (fwd : Bool) (p : Nat → Bool) {q : Quant} (hq : quantOk q = true)
    {body8 : St → List St} (hbody : ∀ s, body8 s = optSt s (charStep inp8 fwd s.pos p)) (st : St)
    (hg : Good cs st) :
    loop1Scm16 inp16 p q fwd (st.mapPos (to16 cs)) =
      (loop1Iter body8 q (loopBudget inp8 q fwd st) 0 st).map (okMap (to16 cs)) := by
  -- the UTF-8 side
  have hst : st = st.at st.pos := rfl
  have h8 : loop1Iter body8 q (loopBudget inp8 q fwd st) 0 st =
      (loop1Pos (fun x => charStep inp8 fwd x p) q (loopBudget inp8 q fwd st) 0 st.pos).map st.at := by
    conv => lhs; rw [hst]
    exact loop1Iter_eq_pos _ body8 hbody q _ 0 st st.pos
  have hbud : loopBudget inp8 q fwd st = (mu inp8 fwd st.pos + 2) + q.min := by
    unfold loopBudget; omega
  rw [h8, hbud, loop1Pos_phase1 _ hq q.min (mu inp8 fwd st.pos + 2) 0 st.pos (by omega)]
  -- the UTF-16 side
  have hguard : quantBad q = false := by
    unfold quantOk at hq
    unfold quantBad
    cases hm : q.max with
    | none => rfl
    | some m => rw [hm] at hq; simp only [decide_eq_true_eq] at hq; simp; omega
  unfold loop1Scm16
  simp only [hguard, Bool.false_eq_true, if_false, St.mapPos_pos]
  rw [scmRun_to16 h fwd p q.min st.pos hg.1]
  cases hrun : scmRun (fun x => charStep inp8 fwd x p) q.min st.pos with
  | none => rfl
  | some mp =>
    simp only [Option.map_some]
    obtain ⟨hbmp, hmump⟩ := scmRun8_spec h.t8 fwd p q.min st.pos mp hg.1 hrun
    rw [loop1Pos_phase2 _ q _ q.min mp (Nat.le_refl _)]
    -- the run, on both sides
    have hV : ∀ a b, Is16 cs a → charStep16 inp16 fwd a p = some b → Is16 cs b :=
      fun a b ha hs => (step16_spec h fwd p ha hs).1
    have hrk : ∀ a b, Is16 cs a → charStep16 inp16 fwd a p = some b → mu16 inp16 fwd b < mu16 inp16 fwd a :=
      fun a b ha hs => (step16_spec h fwd p ha hs).2.1
    have hback : ∀ a b, Is16 cs a → charStep16 inp16 fwd a p = some b → inp16.nextPos (!fwd) b = some a :=
      fun a b ha hs => (step16_spec h fwd p ha hs).2.2.1
    have hnx : ∀ a b, Is16 cs a → charStep16 inp16 fwd a p = some b → inp16.nextPos fwd a = some b :=
      fun a b ha hs => (step16_spec h fwd p ha hs).2.2.2
    have hmp16 : Is16 cs (to16 cs mp) := ⟨mp, hbmp, rfl⟩
    have hrkmp : mu16 inp16 fwd (to16 cs mp) ≤ inp16.len := mu16_le_len inp16 fwd (is16_le_len h.t16 hmp16)
    have hrk8 : mu16 inp16 fwd (to16 cs mp) ≤ mu inp8 fwd st.pos := by
      have := mu16_le_mu8 h fwd hbmp; omega
    -- the trace with the budget of the model is the translated UTF-8 trace
    have htr : runTrace (fun x => charStep16 inp16 fwd x p) (inp16.len + 1 + 1) (q.max.map (· - q.min)) (to16 cs mp) =
        (runTrace (fun x => charStep inp8 fwd x p) (mu inp8 fwd st.pos + 2) (q.max.map (· - q.min)) mp).map (to16 cs) := by
      rw [← runTrace_to16 h fwd p _ _ mp hbmp]
      exact runTrace_fuel hV hrk _ _ _ _ hmp16 (by omega) (by omega)
    generalize hL8 : runTrace (fun x => charStep inp8 fwd x p) (mu inp8 fwd st.pos + 2) (q.max.map (· - q.min)) mp = L8 at htr
    have hlast := scmMax_eq_last (step := fun x => charStep16 inp16 fwd x p) (inp16.len + 1) (q.max.map (· - q.min)) (to16 cs mp)
    have hlen := runTrace_length hV hrk (inp16.len + 1 + 1) (q.max.map (· - q.min)) (to16 cs mp) hmp16
    have htl := runTrace_tail_rk hV hrk (inp16.len + 1 + 1) (q.max.map (· - q.min)) (to16 cs mp) hmp16
    obtain ⟨t16, ht16⟩ := runTrace_head (step := fun x => charStep16 inp16 fwd x p) (inp16.len + 1) (q.max.map (· - q.min)) (to16 cs mp)
    have hatmap : ∀ l : List Nat, (l.map (to16 cs)).map (fun x => Out.ok ((st.mapPos (to16 cs)).at x)) =
        (l.map st.at).map (okMap (to16 cs)) := by
      intro l; simp [okMap, mapPos_at]
    cases hgr : q.greedy
    · -- non-greedy
      simp only [Bool.false_eq_true, if_false]
      have hlenpos : 0 < (runTrace (fun x => charStep16 inp16 fwd x p) (inp16.len + 1 + 1) (q.max.map (· - q.min)) (to16 cs mp)).length := by
        rw [ht16]; simp
      have := scmWalk_fwd (nx := inp16.nextPos fwd) hV hrk hnx (st.mapPos (to16 cs)) (inp16.len + 1)
        (q.max.map (· - q.min)) (to16 cs mp)
        (inp16.len + 2 - (runTrace (fun x => charStep16 inp16 fwd x p) (inp16.len + 1 + 1) (q.max.map (· - q.min)) (to16 cs mp)).length)
        hmp16 _ hlast
      rw [show inp16.len + 2 - (runTrace (fun x => charStep16 inp16 fwd x p) (inp16.len + 1 + 1) (q.max.map (· - q.min)) (to16 cs mp)).length +
          (runTrace (fun x => charStep16 inp16 fwd x p) (inp16.len + 1 + 1) (q.max.map (· - q.min)) (to16 cs mp)).length = inp16.len + 2 by omega] at this
      rw [this, htr, hatmap]
    · -- greedy
      simp only [if_true]
      have hne : ∀ x ∈ (runTrace (fun x => charStep16 inp16 fwd x p) (inp16.len + 1 + 1) (q.max.map (· - q.min)) (to16 cs mp)).tail,
          x ≠ to16 cs mp := by
        intro x hx hc
        have := (htl x hx).1
        rw [hc] at this; omega
      have := scmWalk_back (back := inp16.nextPos (!fwd)) hV hback (st.mapPos (to16 cs)) (to16 cs mp) (inp16.len + 1)
        (q.max.map (· - q.min)) (to16 cs mp)
        (inp16.len + 2 - (runTrace (fun x => charStep16 inp16 fwd x p) (inp16.len + 1 + 1) (q.max.map (· - q.min)) (to16 cs mp)).length)
        hmp16 hne _ hlast
      rw [show inp16.len + 2 - (runTrace (fun x => charStep16 inp16 fwd x p) (inp16.len + 1 + 1) (q.max.map (· - q.min)) (to16 cs mp)).length +
          (runTrace (fun x => charStep16 inp16 fwd x p) (inp16.len + 1 + 1) (q.max.map (· - q.min)) (to16 cs mp)).length = inp16.len + 2 by omega] at this
      rw [this, scmWalk_stop]
      have hrev : ((runTrace (fun x => charStep16 inp16 fwd x p) (inp16.len + 1 + 1) (q.max.map (· - q.min)) (to16 cs mp)).tail.reverse).map
            (fun x => Out.ok ((st.mapPos (to16 cs)).at x)) ++ [Out.ok ((st.mapPos (to16 cs)).at (to16 cs mp))] =
          ((runTrace (fun x => charStep16 inp16 fwd x p) (inp16.len + 1 + 1) (q.max.map (· - q.min)) (to16 cs mp)).reverse).map
            (fun x => Out.ok ((st.mapPos (to16 cs)).at x)) := by
        rw [ht16]; simp
      rw [hrev, htr, ← List.map_reverse, hatmap]

end

end Regress.IR
