import RegressModel.Syntax.Parse
import RegressModel.Api.Escape
import Proofs.C10
import Proofs.C18
/-!
# The parser on `escape(s)`: every step of the recursive descent, evaluated symbolically

`escapeChars s` (the chars `regress::escape` pushes) is a concatenation of blocks `[c]` (`c` not one
of the 14 syntax characters) and `['\\', c]` (`c` one of them).  This file evaluates the parser model
on such an input, for every state and every flag combination:

* `charNode_eq`: `char_node` never reaches its panic (C10: a case class has 1..4 members), so it is
  the total function `litChar`;
* `consumeAtom_plain`: a non-syntax character falls through all 12 special arms of the big
  `match` of `consume_term` to the last one (`consume; char_node`);
* `characterEscape_special`, `consumeAtomEscape_special`, `consumeAtom_escaped`: `\` followed by one of
  the 14 syntax characters reaches the identity-escape arm of `consume_character_escape`, in every
  mode (all 14 are `SyntaxCharacter`s, which are identity escapes also under `u`/`v`);
* `quantifier_qfree`: what follows an atom is the start of another block (or the end), never one
  of `* + ? {`, so no quantifier is parsed, and never `)` or `|`, so the term loop goes on;
* `termLoop_escape`, `disjLoop_escape`, `consumeDisjunction_escape`: the descent;
* `scanLoop_escape`: the capture-group pre-scan skips every block (it skips the char after a
  backslash, and a non-syntax char is none of `\ [ ( ) |`), so it leaves its state untouched.
-/
namespace Regress.EscapeParse
open Regress Regress.IR Regress.Parse Regress.Api

/-! ## `char_node` -/

/-- `char_node(c)` as a total function: `Char(c)`; under `icase` the case class of `c` — `Char` if it
is a singleton, `CharSet` otherwise. -/
def litChar (fl : Flags) (c : Nat) : Node :=
  if fl.icase then
    match Fold.expandCodePoint c true fl.unicode with
    | [x] => .char x
    | cls => .charSet cls
  else .char c

theorem expand_self (c : Nat) (u : Bool) : c ∈ Fold.expandCodePoint c true u :=
  (C10.expand_iff c c u).2 rfl

/-- `char_node` never panics (for any `c : Nat` and any flags). -/
theorem charNode_eq (fl : Flags) (c : Nat) : charNode fl c = .ok (litChar fl c) := by
  unfold charNode litChar
  cases fl.icase with
  | false => simp
  | true =>
    simp only [Bool.not_true, Bool.false_eq_true, if_false, if_true]
    have h4 := C10.expand_le_4 c true fl.unicode
    have h1 := expand_self c fl.unicode
    generalize Fold.expandCodePoint c true fl.unicode = cls at h4 h1
    match cls, h4, h1 with
    | [], _, h1 => cases h1
    | [_], _, _ => rfl
    | [_, _], _, _ => rfl
    | [_, _, _], _, _ => rfl
    | [_, _, _, _], _, _ => rfl
    | _ :: _ :: _ :: _ :: _ :: _, h4, _ =>
      simp only [Gen.MAX_CHAR_SET_LENGTH, List.length_cons] at h4; omega

/-! ## Characters -/

theorem ne_of_not_special {c : Nat} (h : isSpecial c = false) :
    c ≠ 0x5C ∧ c ≠ 0x5E ∧ c ≠ 0x24 ∧ c ≠ 0x2E ∧ c ≠ 0x7C ∧ c ≠ 0x3F ∧ c ≠ 0x2A ∧ c ≠ 0x2B ∧
    c ≠ 0x28 ∧ c ≠ 0x29 ∧ c ≠ 0x5B ∧ c ≠ 0x5D ∧ c ≠ 0x7B ∧ c ≠ 0x7D := by
  simpa [isSpecial, and_assoc] using h

theorem special_cases {c : Nat} (h : isSpecial c = true) :
    c = 0x5C ∨ c = 0x5E ∨ c = 0x24 ∨ c = 0x2E ∨ c = 0x7C ∨ c = 0x3F ∨ c = 0x2A ∨ c = 0x2B ∨
    c = 0x28 ∨ c = 0x29 ∨ c = 0x5B ∨ c = 0x5D ∨ c = 0x7B ∨ c = 0x7D := by
  simpa [isSpecial, or_assoc] using h

/-- What can follow an atom of an escaped string: nothing, a backslash, or a non-syntax char. -/
def QFree (inp : List Nat) : Prop :=
  ∀ c rest, inp = c :: rest →
    c ≠ 0x2B ∧ c ≠ 0x2A ∧ c ≠ 0x3F ∧ c ≠ 0x7B ∧ c ≠ 0x29 ∧ c ≠ 0x7C

theorem qfree_escape (s : List Nat) : QFree (escapeChars s) := by
  intro c rest h
  cases s with
  | nil => simp [escapeChars] at h
  | cons d ds =>
    simp only [escapeChars] at h
    split at h
    · cases h; decide
    · next hd =>
      cases h
      have := ne_of_not_special (by simpa using hd)
      omega

/-- `try_consume_quantifier` finds nothing at the start of a block. -/
theorem quantifier_qfree (u : Bool) {inp : List Nat} (h : QFree inp) :
    quantifier u inp = .ok (none, inp) := by
  cases inp with
  | nil => simp [quantifier, quantifierPrefix]
  | cons c rest =>
    obtain ⟨h1, h2, h3, h4, _, _⟩ := h c rest rfl
    simp [quantifier, quantifierPrefix, h1, h2, h3, h4]

/-! ## Atoms -/

/-- A non-syntax character is an atom for itself: the last arm of `consume_term`'s `match`. -/
theorem consumeAtom_plain (fuel : Nat) (st : PState) (result : List Node) {c : Nat} {rest : List Nat}
    (hc : isSpecial c = false) (hin : st.input = c :: rest) :
    consumeAtom (fuel + 1) st result c =
      .ok ⟨result ++ [litChar st.flags c], { st with input := rest }, result.length, true⟩ := by
  obtain ⟨h1, h2, h3, h4, h5, h6, h7, h8, h9, h10, h11, h12, h13, h14⟩ := ne_of_not_special hc
  rw [consumeAtom]
  simp [h1, h2, h3, h4, h6, h7, h8, h9, h11, h12, h13, h14, consume, hin, charNode_eq]

/-- `consume_character_escape` on a syntax character: the identity escape, with or without `u`. -/
theorem characterEscape_special (u hn : Bool) {c : Nat} (rest : List Nat) (hc : isSpecial c = true) :
    characterEscape u hn (c :: rest) = .ok (c, rest) := by
  rcases special_cases hc with h | h | h | h | h | h | h | h | h | h | h | h | h | h <;> subst h <;>
    simp [characterEscape, isOctalDigit]

/-- `consume_atom_escape` on a syntax character. -/
theorem consumeAtomEscape_special (st : PState) {c : Nat} {rest : List Nat} (hc : isSpecial c = true)
    (hin : st.input = c :: rest) :
    consumeAtomEscape st = .ok (litChar st.flags c, { st with input := rest }) := by
  have hce := fun u hn => characterEscape_special u hn rest hc
  unfold consumeAtomEscape
  rw [hin]
  rcases special_cases hc with h | h | h | h | h | h | h | h | h | h | h | h | h | h <;> subst h <;>
    simp [hce, charNode_eq]

/-- `\` followed by a syntax character is an atom for that character. -/
theorem consumeAtom_escaped (fuel : Nat) (st : PState) (result : List Node) {c : Nat} {rest : List Nat}
    (hc : isSpecial c = true) (hin : st.input = 0x5C :: c :: rest) :
    consumeAtom (fuel + 1) st result 0x5C =
      .ok ⟨result ++ [litChar st.flags c], { st with input := rest }, result.length, true⟩ := by
  have hesc := consumeAtomEscape_special { st with input := c :: rest } (c := c) (rest := rest) hc rfl
  rw [consumeAtom]
  simp only [consume, hin]
  rcases special_cases hc with h | h | h | h | h | h | h | h | h | h | h | h | h | h <;> subst h <;>
    simp [hesc]

/-! ## The term loop -/

theorem pstate_input_nil {st : PState} (h : st.input = []) : { st with input := [] } = st := by
  cases st; simp at h; subst h; rfl

/-- `consume_term` on `escape(s)`: one literal node per char of `s`, `make_cat` of them. -/
theorem termLoop_escape (s : List Nat) : ∀ (fuel : Nat) (st : PState) (result : List Node),
    s.length + 1 ≤ fuel → st.input = escapeChars s →
    termLoop fuel st result =
      .ok (makeCat (result ++ s.map (litChar st.flags)), { st with input := [] }) := by
  induction s with
  | nil =>
    intro fuel st result hf hin
    obtain ⟨f, rfl⟩ : ∃ f, fuel = f + 1 := ⟨fuel - 1, by simp at hf; omega⟩
    simp only [escapeChars] at hin
    rw [termLoop]
    simp [hin, pstate_input_nil hin]
  | cons c cs ih =>
    intro fuel st result hf hin
    obtain ⟨f, rfl⟩ : ∃ f, fuel = f + 1 + 1 := ⟨fuel - 2, by simp at hf; omega⟩
    have hq := quantifier_qfree st.flags.unicode (qfree_escape cs)
    simp only [escapeChars] at hin
    rw [termLoop]
    split at hin
    · next hc =>
      simp only [hin]
      rw [consumeAtom_escaped f st result hc hin]
      simp only [hq]
      have := ih (f + 1) { st with input := escapeChars cs } (result ++ [litChar st.flags c])
        (by simp at hf ⊢; omega) rfl
      simpa using this
    · next hc =>
      have hc' : isSpecial c = false := by simpa using hc
      obtain ⟨-, -, -, -, h5, -, -, -, -, h10, -⟩ := ne_of_not_special hc'
      simp only [hin]
      rw [consumeAtom_plain f st result hc' hin]
      simp only [hq]
      have := ih (f + 1) { st with input := escapeChars cs } (result ++ [litChar st.flags c])
        (by simp at hf ⊢; omega) rfl
      simpa [h5, h10] using this

/-- The alternatives loop: one alternative, no `|` follows. -/
theorem disjLoop_escape (s : List Nat) (fuel : Nat) (st : PState) (hf : s.length + 2 ≤ fuel)
    (hin : st.input = escapeChars s) :
    disjLoop fuel st [] = .ok ([makeCat (s.map (litChar st.flags))], { st with input := [] }) := by
  obtain ⟨f, rfl⟩ : ∃ f, fuel = f + 1 := ⟨fuel - 1, by omega⟩
  rw [disjLoop, termLoop_escape s f st [] (by omega) hin]
  simp [tryConsume]

/-- `consume_disjunction` on `escape(s)` (entered below the nesting limit). -/
theorem consumeDisjunction_escape (s : List Nat) (fuel : Nat) (st : PState) (hf : s.length + 3 ≤ fuel)
    (hd : st.depth < Gen.MAX_NESTING_DEPTH) (hin : st.input = escapeChars s) :
    consumeDisjunction fuel st = .ok (makeCat (s.map (litChar st.flags)), { st with input := [] }) := by
  obtain ⟨f, rfl⟩ : ∃ f, fuel = f + 1 := ⟨fuel - 1, by omega⟩
  rw [consumeDisjunction]
  have := disjLoop_escape s f { st with depth := st.depth + 1 } (by omega) hin
  simp only [this]
  have hnd : ¬ (st.depth + 1 > Gen.MAX_NESTING_DEPTH) := by omega
  simp [hnd, makeAlt, makeAltFuel]

/-! ## The pre-scan -/

/-- `collect_named_group_locations` on `escape(s)`: every block is skipped, the state is untouched. -/
theorem scanLoop_escape (fl : Flags) (s : List Nat) : ∀ (fuel : Nat) (sc : Scan),
    s.length + 1 ≤ fuel → scanLoop fl fuel (escapeChars s) sc = .ok sc := by
  induction s with
  | nil =>
    intro fuel sc hf
    obtain ⟨f, rfl⟩ : ∃ f, fuel = f + 1 := ⟨fuel - 1, by simp at hf; omega⟩
    simp [escapeChars, scanLoop]
  | cons c cs ih =>
    intro fuel sc hf
    obtain ⟨f, rfl⟩ : ∃ f, fuel = f + 1 := ⟨fuel - 1, by simp at hf; omega⟩
    simp only [escapeChars]
    split
    · unfold scanLoop
      dsimp only
      rw [if_pos (by rfl)]
      exact ih f sc (by simp at hf; omega)
    · next hc =>
      obtain ⟨h1, -, -, -, h5, -, -, -, h9, h10, h11, -⟩ := ne_of_not_special (by simpa using hc)
      unfold scanLoop
      dsimp only
      rw [if_neg (by simp [h1]), if_neg (by simp [h11]), if_neg (by simp [h9]),
        if_neg (by simp [h10]), if_neg (by simp [h5])]
      exact ih f sc (by simp at hf; omega)

/-- `parse_capture_groups` on `escape(s)`: no group is found, the parser state is unchanged. -/
theorem parseCaptureGroups_escape (st : PState) (s : List Nat) (hin : st.input = escapeChars s) :
    parseCaptureGroups st = .ok st := by
  obtain ⟨inp, f, lc, gc, gm, nm, hlb, d⟩ := st
  simp only at hin
  subst hin
  unfold parseCaptureGroups
  have hl := C18.escape_length s
  simp only []
  rw [scanLoop_escape f s _ _ (by omega)]
  rfl

/-! ## `try_parse` -/

/-- `try_parse` forces `unicode` when `unicode_sets` is set. -/
def normFlags (fl : Flags) : Flags := if fl.unicodeSets then { fl with unicode := true } else fl

/-- The literal IR of `s` as the parser builds it: `make_cat([make_alt([make_cat(chars)]), Goal])`,
i.e. `Cat [Empty, Goal]` for the empty string, `Cat [n, Goal]` for one char and
`Cat [Cat [n₁, …, nₖ], Goal]` for `k ≥ 2` chars, `nᵢ = char_node(sᵢ)`. -/
def litNode (fl : Flags) (s : List Nat) : Node := .cat [makeCat (s.map (litChar fl)), .goal]

/-- The part of `try_parse` after the pre-scan, on `escape(s)`, from a fresh parser state. -/
theorem parseBody_escape (s : List Nat) (fl : Flags) :
    parseBody { input := escapeChars s, flags := fl } = .ok { node := litNode fl s, flags := fl } := by
  unfold parseBody
  have hl := C18.escape_length s
  rw [consumeDisjunction_escape s _ _ (by simp only [parseFuel]; omega)
    (by show 0 < Gen.MAX_NESTING_DEPTH; decide) rfl]
  rfl

/-- `parse::try_parse(escape(s), flags)`, for every `s` and all flags. -/
theorem parse_escape (s : List Nat) (fl : Flags) :
    parse (escapeChars s) fl = .ok { node := litNode (normFlags fl) s, flags := normFlags fl } := by
  unfold parse tryParse
  simp only []
  rw [parseCaptureGroups_escape _ s rfl]
  exact parseBody_escape s (normFlags fl)

end Regress.EscapeParse
