import Proofs.Lemmas.Sem16Prim
import Proofs.Lemmas.Sem16Units
/-!
# Back-references, zero-width tests, brackets and `StringSet` code points on well-formed text

The remaining primitives of `sem16` at corresponding boundaries of the same text.
-/
namespace Regress.IR

open Regress.VM Regress
open Regress.Utf16 (off16 text16 encodeAll16 encode16)

theorem option_ext' {α} {a b : Option α} (h : ∀ e, a = some e ↔ b = some e) : a = b := by
  cases a with
  | none =>
    cases b with
    | none => rfl
    | some y => exact absurd ((h y).2 rfl) (by simp)
  | some x => exact ((h x).1 rfl).symm

/-! ## The plain back-reference on arbitrary units -/

/-- `backref16` in terms of the unchecked comparison: the pair check only looks at the position the
comparison would end at. -/
theorem backref16_eq (inp : Input16) (fwd : Bool) {rs re : Nat} (pos : Nat) (hle : ¬ re < rs) :
    backref16 inp fwd rs re pos =
      match Utf16.subrangeEq inp.units fwd pos rs re with
      | some e => if !inp.ucs2 && inp.pairCheck && splitsPair inp.units e then none else some e
      | none => none := by
  unfold backref16
  rw [if_neg hle]
  by_cases hf : (inp.ucs2 || !inp.pairCheck) = true
  · rw [if_pos hf]
    have : (!inp.ucs2 && inp.pairCheck) = false := by
      cases hu : inp.ucs2 <;> cases hp : inp.pairCheck <;> simp_all
    cases Utf16.subrangeEq inp.units fwd pos rs re <;> simp [this]
  · rw [if_neg hf]
    have hf' : (!inp.ucs2 && inp.pairCheck) = true := by
      cases hu : inp.ucs2 <;> cases hp : inp.pairCheck <;> simp_all
    simp only [hf', Bool.true_and]
    unfold Utf16.subrangeEq
    cases fwd
    · simp only [Bool.false_eq_true, if_false]
      cases Utf16.tryMoveLeft pos (re - rs) with
      | none => rfl
      | some far =>
        simp only []
        by_cases hs : splitsPair inp.units far = true
        · by_cases hc : (Utf16.slice inp.units far pos == Utf16.slice inp.units rs re) = true <;> simp [hs, hc]
        · by_cases hc : (Utf16.slice inp.units far pos == Utf16.slice inp.units rs re) = true <;> simp [hs, hc]
    · simp only [if_true]
      cases Utf16.tryMoveRight inp.units pos (re - rs) with
      | none => rfl
      | some far =>
        simp only []
        by_cases hs : splitsPair inp.units far = true
        · by_cases hc : (Utf16.slice inp.units pos far == Utf16.slice inp.units rs re) = true <;> simp [hs, hc]
        · by_cases hc : (Utf16.slice inp.units pos far == Utf16.slice inp.units rs re) = true <;> simp [hs, hc]

/-- A position that is not inside a pair does not split one (arbitrary units). -/
theorem splitsPair_of_isBoundary16 {units : Array Nat} {p : Nat} (hb : Utf16.isBoundary16 units p = true) :
    splitsPair units p = false := by
  unfold Utf16.isBoundary16 at hb
  unfold splitsPair
  simp only [Bool.and_eq_true, decide_eq_true_eq, Bool.or_eq_true, beq_iff_eq] at hb
  rcases hb.2 with h0 | hm
  · simp [h0]
  · cases h1 : units[p - 1]? with
    | none => simp
    | some a =>
      cases h2 : units[p]? with
      | none => simp
      | some b =>
        rw [h1, h2] at hm
        simp only [Bool.not_eq_true', Bool.and_eq_false_iff] at hm
        simp only [Bool.and_eq_false_iff]
        right
        rcases hm with hm | hm
        · left; exact hm
        · right; exact hm

/-- A char boundary of well-formed text is not between the halves of a pair. -/
theorem splitsPair_off16 {cs : List Nat} (hs : Utf8.AllScalar cs) {k : Nat} (hk : k ≤ cs.length) :
    splitsPair (text16 cs) (off16 cs k) = false :=
  splitsPair_of_isBoundary16 (Utf16.isBoundary16_off16 hs hk)

theorem length_le_encodeAll (ds : List Nat) : ds.length ≤ (Utf8.encodeAll ds).length := by
  induction ds with
  | nil => simp
  | cons d ds ih =>
    have := Utf8.encode_length_pos d
    simp only [Utf8.encodeAll_cons, List.length_append, List.length_cons]
    omega

theorem length_le_encodeAll16 (ds : List Nat) : ds.length ≤ (encodeAll16 ds).length := by
  induction ds with
  | nil => simp
  | cons d ds ih =>
    have := Utf16.encode16_length_pos d
    simp only [Utf16.encodeAll16_cons, List.length_append, List.length_cons]
    omega

section
variable {inp8 : Input} {inp16 : Input16} {cs : List Nat}

/-! ## Plain back-reference -/

theorem backref_to16 (h : SameText inp8 inp16 cs) (fwd : Bool) {rs re pos : Nat}
    (hrs : AtBoundary cs rs) (hre : AtBoundary cs re) (hpos : AtBoundary cs pos) :
    backref16 inp16 fwd (to16 cs rs) (to16 cs re) (to16 cs pos) = (backref inp8 fwd rs re pos).map (to16 cs) := by
  have hlt := to16_lt_iff hre hrs
  obtain ⟨i, hi, rfl⟩ := hrs
  obtain ⟨j, hj, rfl⟩ := hre
  obtain ⟨k, hk, rfl⟩ := hpos
  unfold backref Input.subrangeEq
  by_cases hji : Utf8.off cs j < Utf8.off cs i
  · rw [if_pos hji]
    unfold backref16
    rw [if_pos (hlt.2 hji)]; rfl
  · rw [if_neg hji]
    have hij : i ≤ j := by
      rw [Utf8.off_lt_iff hj hi] at hji; omega
    rw [backref16_eq inp16 fwd _ (fun hc => hji (hlt.1 hc))]
    rw [to16_off cs hi, to16_off cs hj, to16_off cs hk]
    have hs16 : Utf16.subrangeEq inp16.units fwd (off16 cs k) (off16 cs i) (off16 cs j) =
        Utf16.matchUnits (text16 cs) fwd (off16 cs k) (encodeAll16 ((cs.drop i).take (j - i))) := by
      rw [h.t16.units, Utf16.subrangeEq_eq_matchUnits fwd _ (Utf16.off16_mono hij hj) (Utf16.off16_le_size cs j),
        Utf16.slice16_between cs hij]
    have hs8 : Utf8.subrangeEq inp8.bytes fwd (Utf8.off cs k) (Utf8.off cs i) (Utf8.off cs j) =
        Utf8.matchBytes (Utf8.text cs) fwd (Utf8.off cs k) (Utf8.encodeAll ((cs.drop i).take (j - i))) := by
      unfold Utf8.subrangeEq
      rw [h.t8.bytes, slice_between cs hij]
    rw [hs16, hs8]
    have hds := allScalar_sub h.t8.scalar i (j - i)
    generalize (cs.drop i).take (j - i) = ds at hds
    have key : Utf16.matchUnits (text16 cs) fwd (off16 cs k) (encodeAll16 ds) =
        (Utf8.matchBytes (Utf8.text cs) fwd (Utf8.off cs k) (Utf8.encodeAll ds)).map (to16 cs) := by
      apply option_ext'
      intro e
      cases fwd
      · rw [Utf16.matchUnits_back_iff_chars h.t8.scalar hds hk]
        constructor
        · rintro ⟨hp, rfl⟩
          rw [((Utf8.matchBytes_back_iff_chars h.t8.scalar hds hk _).2 ⟨hp, rfl⟩)]
          simp only [Option.map_some]
          rw [to16_off cs (by omega)]
        · intro hm
          cases hr : Utf8.matchBytes (Utf8.text cs) false (Utf8.off cs k) (Utf8.encodeAll ds) with
          | none => rw [hr] at hm; cases hm
          | some e8 =>
            rw [hr] at hm
            obtain ⟨hp, rfl⟩ := (Utf8.matchBytes_back_iff_chars h.t8.scalar hds hk _).1 hr
            simp only [Option.map_some, Option.some.injEq] at hm
            rw [to16_off cs (by omega)] at hm
            exact ⟨hp, hm.symm⟩
      · rw [Utf16.matchUnits_iff_chars h.t8.scalar hds]
        constructor
        · rintro ⟨hp, rfl⟩
          have hl := hp.length_le
          simp only [List.length_drop] at hl
          rw [((Utf8.matchBytes_iff_chars h.t8.scalar hds _ _).2 ⟨hp, rfl⟩)]
          simp only [Option.map_some]
          rw [to16_off cs (by omega)]
        · intro hm
          cases hr : Utf8.matchBytes (Utf8.text cs) true (Utf8.off cs k) (Utf8.encodeAll ds) with
          | none => rw [hr] at hm; cases hm
          | some e8 =>
            rw [hr] at hm
            obtain ⟨hp, rfl⟩ := (Utf8.matchBytes_iff_chars h.t8.scalar hds _ _).1 hr
            have hl := hp.length_le
            simp only [List.length_drop] at hl
            simp only [Option.map_some, Option.some.injEq] at hm
            rw [to16_off cs (by omega)] at hm
            exact ⟨hp, hm.symm⟩
    rw [key]
    cases hr : Utf8.matchBytes (Utf8.text cs) fwd (Utf8.off cs k) (Utf8.encodeAll ds) with
    | none => rfl
    | some e8 =>
      -- the end is a boundary: the pair check passes
      have hb : AtBoundary cs e8 := by
        have hm : inp8.matchBytes fwd (Utf8.off cs k) (Utf8.encodeAll ds) = some e8 := by
          simp only [Input.matchBytes, h.t8.bytes]; exact hr
        exact matchBytes_boundary' h.t8 hds ⟨k, hk, rfl⟩ hm
      obtain ⟨m, hm, rfl⟩ := hb
      simp only [Option.map_some]
      rw [to16_off cs hm, h.t16.units, splitsPair_off16 h.t8.scalar hm]
      simp

/-! ## Case-insensitive back-reference -/

theorem foldCodePoint_scalar {c : Nat} (hc : Utf8.isScalar c = true) (u : Bool) :
    Utf8.isScalar (Fold.foldCodePoint c u) = true := by
  have hc' : Fold.isScalar c = true := by
    simp only [Utf8.isScalar, Fold.isScalar, Bool.or_eq_true, Bool.and_eq_true, decide_eq_true_eq] at hc ⊢
    omega
  have := C10.utf8Fold_eq hc' u
  simp only [Fold.utf8Fold] at this
  by_cases hs : Fold.isScalar (Fold.foldCodePoint c u) = true
  · simp only [Utf8.isScalar, Fold.isScalar, Bool.or_eq_true, Bool.and_eq_true, decide_eq_true_eq] at hs ⊢
    omega
  · simp only [hs, Bool.false_eq_true, if_false] at this
    rw [← this]; exact hc

theorem foldEquals_to16 (h : SameText inp8 inp16 cs) {c1 c2 : Nat} (h1 : Utf8.isScalar c1 = true)
    (h2 : Utf8.isScalar c2 = true) : inp16.foldEquals c1 c2 = inp8.foldEquals c1 c2 := by
  simp only [Input16.foldEquals, Input.foldEquals, Input16.fold, Input.fold, Input.foldElem, h.t8.kind, h.unicode,
    foldCodePoint_scalar h1, foldCodePoint_scalar h2, if_true]

/-- The captured sub-slice is the UTF-16 text of the captured scalars. -/
theorem ref_text16 (h : Utf16Text inp16 cs) {i j : Nat} (hij : i ≤ j) :
    Utf16Text { inp16 with units := inp16.units.extract (off16 cs i) (off16 cs j) } ((cs.drop i).take (j - i)) := by
  refine ⟨?_, allScalar_sub h.scalar i (j - i), ?_⟩
  · have := Utf16.slice16_between cs hij
    simp only [Utf16.slice] at this
    show inp16.units.extract (off16 cs i) (off16 cs j) = text16 ((cs.drop i).take (j - i))
    rw [h.units]
    apply Array.ext'
    simpa [text16] using this
  · rcases h.kind with hk | hb
    · exact Or.inl hk
    · exact Or.inr (fun c hc => hb c (List.mem_of_mem_drop (List.mem_of_mem_take hc)))

theorem ref_text8 (h : Utf8Text inp8 cs) {i j : Nat} (hij : i ≤ j) :
    Utf8Text { kind := inp8.kind, bytes := inp8.bytes.extract (Utf8.off cs i) (Utf8.off cs j), unicode := inp8.unicode }
      ((cs.drop i).take (j - i)) := by
  refine ⟨h.kind, ?_, allScalar_sub h.scalar i (j - i)⟩
  have := slice_between cs hij
  simp only [Utf8.slice] at this
  show inp8.bytes.extract (Utf8.off cs i) (Utf8.off cs j) = Utf8.text ((cs.drop i).take (j - i))
  rw [h.bytes]
  apply Array.ext'
  simpa [Utf8.text] using this

/-- The loop of `backref_icase`, forward: `m` scalars of the reference consumed, input at index `k`. -/
theorem icaseLoop_fwd (h : SameText inp8 inp16 cs) {ref8 : Input} {ref16 : Input16} {ds : List Nat}
    (hr8 : Utf8Text ref8 ds) (hr16 : Utf16Text ref16 ds) :
    ∀ (d m k f8 f16 : Nat), m + d = ds.length → k ≤ cs.length → d < f8 → d < f16 →
      backrefIcaseLoop16 inp16 ref16 true f16 (off16 ds m) (off16 cs k) =
        match backrefIcaseLoop inp8 ref8 true f8 (Utf8.off ds m) (Utf8.off cs k) with
        | .ok r => r.map (to16 cs)
        | .error _ => none := by
  intro d
  induction d with
  | zero =>
    intro m k f8 f16 hm hk h8 h16
    obtain ⟨f8, rfl⟩ : ∃ x, f8 = x + 1 := ⟨f8 - 1, by omega⟩
    obtain ⟨f16, rfl⟩ : ∃ x, f16 = x + 1 := ⟨f16 - 1, by omega⟩
    have hm' : m = ds.length := by omega
    subst hm'
    simp only [backrefIcaseLoop16, backrefIcaseLoop, next16_fwd_end hr16, next_fwd_end hr8, Option.map_some,
      to16_off cs hk]
  | succ d ih =>
    intro m k f8 f16 hm hk h8 h16
    obtain ⟨f8, rfl⟩ : ∃ x, f8 = x + 1 := ⟨f8 - 1, by omega⟩
    obtain ⟨f16, rfl⟩ : ∃ x, f16 = x + 1 := ⟨f16 - 1, by omega⟩
    have hm' : m < ds.length := by omega
    simp only [backrefIcaseLoop16, backrefIcaseLoop, next16_fwd_at hr16 hm', next_fwd_at hr8 hm']
    by_cases hlt : k < cs.length
    · simp only [next16_fwd_at h.t16 hlt, next_fwd_at h.t8 hlt]
      rw [foldEquals_to16 h (hr8.scalar _ (List.getElem_mem hm')) (h.t8.scalar _ (List.getElem_mem hlt))]
      split
      · exact ih (m + 1) (k + 1) f8 f16 (by omega) (by omega) (by omega) (by omega)
      · rfl
    · have : k = cs.length := by omega
      subst this
      simp only [next16_fwd_end h.t16, next_fwd_end h.t8, Option.map_none]

/-- The loop of `backref_icase`, backward: `m` scalars of the reference left, input at index `k`. -/
theorem icaseLoop_bwd (h : SameText inp8 inp16 cs) {ref8 : Input} {ref16 : Input16} {ds : List Nat}
    (hr8 : Utf8Text ref8 ds) (hr16 : Utf16Text ref16 ds) :
    ∀ (m k f8 f16 : Nat), m ≤ ds.length → k ≤ cs.length → m < f8 → m < f16 →
      backrefIcaseLoop16 inp16 ref16 false f16 (off16 ds m) (off16 cs k) =
        match backrefIcaseLoop inp8 ref8 false f8 (Utf8.off ds m) (Utf8.off cs k) with
        | .ok r => r.map (to16 cs)
        | .error _ => none := by
  intro m
  induction m with
  | zero =>
    intro k f8 f16 hm hk h8 h16
    obtain ⟨f8, rfl⟩ : ∃ x, f8 = x + 1 := ⟨f8 - 1, by omega⟩
    obtain ⟨f16, rfl⟩ : ∃ x, f16 = x + 1 := ⟨f16 - 1, by omega⟩
    simp only [backrefIcaseLoop16, backrefIcaseLoop, next16_bwd_start hr16, next_bwd_start hr8, Option.map_some,
      to16_off cs hk]
  | succ m ih =>
    intro k f8 f16 hm hk h8 h16
    obtain ⟨f8, rfl⟩ : ∃ x, f8 = x + 1 := ⟨f8 - 1, by omega⟩
    obtain ⟨f16, rfl⟩ : ∃ x, f16 = x + 1 := ⟨f16 - 1, by omega⟩
    simp only [backrefIcaseLoop16, backrefIcaseLoop, next16_bwd_at hr16 (Nat.succ_pos m) hm,
      next_bwd_at hr8 (Nat.succ_pos m) hm, Nat.add_sub_cancel]
    by_cases h0 : 0 < k
    · simp only [next16_bwd_at h.t16 h0 hk, next_bwd_at h.t8 h0 hk]
      rw [foldEquals_to16 h (hr8.scalar _ (List.getElem_mem _)) (h.t8.scalar _ (List.getElem_mem _))]
      split
      · exact ih (k - 1) f8 f16 (by omega) (by omega) (by omega) (by omega)
      · rfl
    · have : k = 0 := by omega
      subst this
      simp only [next16_bwd_start h.t16, next_bwd_start h.t8, Option.map_none]

theorem icaseLoop_fwd' (h : SameText inp8 inp16 cs) {ref8 : Input} {ref16 : Input16} {ds : List Nat}
    (hr8 : Utf8Text ref8 ds) (hr16 : Utf16Text ref16 ds) (d m k f8 f16 rp8 rp16 : Nat) (hm : m + d = ds.length)
    (hk : k ≤ cs.length) (h8 : d < f8) (h16 : d < f16) (e8 : rp8 = Utf8.off ds m) (e16 : rp16 = off16 ds m) :
    backrefIcaseLoop16 inp16 ref16 true f16 rp16 (off16 cs k) =
      match backrefIcaseLoop inp8 ref8 true f8 rp8 (Utf8.off cs k) with
      | .ok r => r.map (to16 cs)
      | .error _ => none := by
  subst e8 e16; exact icaseLoop_fwd h hr8 hr16 d m k f8 f16 hm hk h8 h16

theorem icaseLoop_bwd' (h : SameText inp8 inp16 cs) {ref8 : Input} {ref16 : Input16} {ds : List Nat}
    (hr8 : Utf8Text ref8 ds) (hr16 : Utf16Text ref16 ds) (m k f8 f16 rp8 rp16 : Nat) (hm : m ≤ ds.length)
    (hk : k ≤ cs.length) (h8 : m < f8) (h16 : m < f16) (e8 : rp8 = Utf8.off ds m) (e16 : rp16 = off16 ds m) :
    backrefIcaseLoop16 inp16 ref16 false f16 rp16 (off16 cs k) =
      match backrefIcaseLoop inp8 ref8 false f8 rp8 (Utf8.off cs k) with
      | .ok r => r.map (to16 cs)
      | .error _ => none := by
  subst e8 e16; exact icaseLoop_bwd h hr8 hr16 m k f8 f16 hm hk h8 h16

theorem backrefIcase_to16 (h : SameText inp8 inp16 cs) (fwd : Bool) {rs re pos : Nat}
    (hrs : AtBoundary cs rs) (hre : AtBoundary cs re) (hpos : AtBoundary cs pos) :
    backrefIcase16 inp16 fwd (to16 cs rs) (to16 cs re) (to16 cs pos) =
      match backrefIcase inp8 fwd rs re pos with
      | .ok r => r.map (to16 cs)
      | .error _ => none := by
  have hlt := to16_lt_iff hre hrs
  obtain ⟨i, hi, rfl⟩ := hrs
  obtain ⟨j, hj, rfl⟩ := hre
  obtain ⟨k, hk, rfl⟩ := hpos
  unfold backrefIcase16 backrefIcase
  have hsz8 : ¬ Utf8.off cs j > inp8.bytes.size := by
    have := Utf8.off_le_size cs j; rw [h.t8.bytes]; omega
  have hsz16 : ¬ to16 cs (Utf8.off cs j) > inp16.units.size := by
    rw [to16_off cs hj, h.t16.units]; have := Utf16.off16_le_size cs j; omega
  by_cases hji : Utf8.off cs j < Utf8.off cs i
  · have h16 : to16 cs (Utf8.off cs i) > to16 cs (Utf8.off cs j) := hlt.2 hji
    simp [hji, h16]
  · have hij : i ≤ j := by
      rw [Utf8.off_lt_iff hj hi] at hji; omega
    have h16 : ¬ to16 cs (Utf8.off cs i) > to16 cs (Utf8.off cs j) := fun hc => hji (hlt.1 hc)
    have hc8 : (decide (Utf8.off cs i > Utf8.off cs j) || decide (Utf8.off cs j > inp8.bytes.size)) = false := by
      simp only [Bool.or_eq_false_iff, decide_eq_false_iff_not]; exact ⟨hji, hsz8⟩
    have hc16 : (decide (to16 cs (Utf8.off cs i) > to16 cs (Utf8.off cs j)) ||
        decide (to16 cs (Utf8.off cs j) > inp16.units.size)) = false := by
      simp only [Bool.or_eq_false_iff, decide_eq_false_iff_not]; exact ⟨h16, hsz16⟩
    rw [if_neg (by rw [hc16]; simp), if_neg (by rw [hc8]; simp)]
    simp only [to16_off cs hi, to16_off cs hj, to16_off cs hk]
    have hr8 := ref_text8 h.t8 hij
    have hr16 := ref_text16 h.t16 hij
    generalize hds : (cs.drop i).take (j - i) = ds at hr8 hr16
    have hb8 : (inp8.bytes.extract (Utf8.off cs i) (Utf8.off cs j)).size = (Utf8.text ds).size :=
      congrArg Array.size hr8.bytes
    have hu16 : (inp16.units.extract (off16 cs i) (off16 cs j)).size = (text16 ds).size :=
      congrArg Array.size hr16.units
    have hlen8 : ds.length ≤ (Utf8.text ds).size := by
      have := length_le_encodeAll ds; simpa [Utf8.text] using this
    have hlen16 : ds.length ≤ (text16 ds).size := by
      have := length_le_encodeAll16 ds; simpa [text16] using this
    cases fwd
    · simp only [Bool.false_eq_true, if_false]
      refine icaseLoop_bwd' h hr8 hr16 ds.length k _ _ _ _ (Nat.le_refl _) hk ?_ ?_ ?_ ?_
      · show ds.length < (inp8.bytes.extract (Utf8.off cs i) (Utf8.off cs j)).size + 1
        omega
      · show ds.length < (inp16.units.extract (off16 cs i) (off16 cs j)).size + 1
        omega
      · show (inp8.bytes.extract (Utf8.off cs i) (Utf8.off cs j)).size = Utf8.off ds ds.length
        rw [hb8, Utf8.off_length]
      · show (inp16.units.extract (off16 cs i) (off16 cs j)).size = off16 ds ds.length
        rw [hu16, Utf16.off16_length]
    · simp only [if_true]
      refine icaseLoop_fwd' h hr8 hr16 ds.length 0 k _ _ _ _ (by omega) hk ?_ ?_ ?_ ?_
      · show ds.length < (inp8.bytes.extract (Utf8.off cs i) (Utf8.off cs j)).size + 1
        omega
      · show ds.length < (inp16.units.extract (off16 cs i) (off16 cs j)).size + 1
        omega
      · simp [Utf8.off]
      · simp

theorem backRefStep_to16 (h : SameText inp8 inp16 cs) (icase fwd : Bool) {rs re pos : Nat}
    (hrs : AtBoundary cs rs) (hre : AtBoundary cs re) (hpos : AtBoundary cs pos) :
    backRefStep16 inp16 icase fwd (to16 cs rs) (to16 cs re) (to16 cs pos) =
      (backRefStep inp8 icase fwd rs re pos).map (to16 cs) := by
  unfold backRefStep16 backRefStep
  cases icase
  · simp only [Bool.false_eq_true, if_false]
    exact backref_to16 h fwd hrs hre hpos
  · simp only [if_true]
    rw [backrefIcase_to16 h fwd hrs hre hpos]
    cases backrefIcase inp8 fwd rs re pos <;> rfl

end

end Regress.IR
