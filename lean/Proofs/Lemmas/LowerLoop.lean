import Proofs.Lemmas.LowerLeaf
/-!
# ES specification ⇒ IR semantics: `RepeatMatcher` against `run_loop`

`RepeatMatcher(m, min, max, greedy, x, c, parenIndex, parenCount)` counts *down* (`min`, `max` are
what remains), the engine's `run_loop` counts the completed iterations *up* (`iters`) against the
constant bounds of the loop.  The empty check of the specification (step 2.a of the continuation
`d`: `min = 0` and the iteration did not move) is made by the engine at the *start* of the next
round (`entry == pos && iters > min`).
-/
namespace Regress.Lower

open Regress Regress.IR Regress.VM

/-- "If r is not failure, return r; otherwise r'". -/
def orElse (r r' : ES.MatchResult) : ES.MatchResult :=
  match r with
  | .failure => r'
  | z => z

theorem ResRel.alt {cs : List Nat} {r r' : ES.MatchResult} {q q' : Option St} (h1 : ResRel cs r q)
    (h2 : ResRel cs r' q') : ResRel cs (orElse r r') (q.or q') := by
  cases r with
  | failure => simp only [ResRel] at h1; subst h1; simpa [orElse] using h2
  | success y => obtain ⟨s, rfl, hs⟩ := h1; exact ⟨s, rfl, hs⟩
  | outOfFuel => trivial

theorem findSome?_single {α β} (a : α) (k : α → Option β) : [a].findSome? k = k a := by
  simp only [List.findSome?_cons, List.findSome?_nil]; cases k a <;> rfl

theorem findSome?_cons_or {α β} (a : α) (l : List α) (k : α → Option β) :
    (a :: l).findSome? k = (k a).or (l.findSome? k) := by
  simp only [List.findSome?_cons]; cases k a <;> rfl

theorem off_inj_of_rel {cs : List Nat} {x y : ES.State} {st s : St} (hx : Rel cs x st) (hy : Rel cs y s) :
    s.pos = st.pos ↔ y.endIndex = x.endIndex := by
  rw [hx.pos, hy.pos]
  constructor
  · intro h; exact Utf8.off_injective hy.idx hx.idx h
  · intro h; rw [h]

theorem maxOk_iff (q : Quant) (iter : Nat) : maxOk q iter = false ↔ q.max.map (· - iter) = some 0 := by
  unfold maxOk
  cases q.max with
  | none => simp
  | some m => simp; omega

/-- The successes of the iterations entered from `st` are successes of the loop. -/
theorem loopIter_taken_mem {body : St → List St} {q : Quant} {g0 g1 k iter entry : Nat} {st s : St}
    (hgo : ¬ (entry = st.pos ∧ iter > q.min)) (hmax : maxOk q iter = true)
    (h : s ∈ (body (st.resetGroups g0 g1)).flatMap (loopIter body q g0 g1 k (iter + 1) st.pos)) :
    s ∈ loopIter body q g0 g1 (k + 1) iter entry st := by
  have hgo' : (entry == st.pos && decide (iter > q.min)) = false := by
    cases hb : (entry == st.pos && decide (iter > q.min)) with
    | false => rfl
    | true =>
      simp only [Bool.and_eq_true, beq_iff_eq, decide_eq_true_eq] at hb
      exact absurd hb hgo
  simp only [loopIter, hgo', Bool.false_eq_true, if_false, hmax]
  by_cases hmin : iter ≥ q.min
  · simp only [hmin, decide_true]
    split
    · exact List.mem_append_left _ h
    · exact List.mem_cons_of_mem _ h
  · simp only [hmin, decide_false]; exact h

theorem loopIter_self_mem {body : St → List St} {q : Quant} {g0 g1 k iter entry : Nat} {st : St}
    (hgo : ¬ (entry = st.pos ∧ iter > q.min)) (hmin : iter ≥ q.min) :
    st ∈ loopIter body q g0 g1 (k + 1) iter entry st := by
  have hgo' : (entry == st.pos && decide (iter > q.min)) = false := by
    cases hb : (entry == st.pos && decide (iter > q.min)) with
    | false => rfl
    | true =>
      simp only [Bool.and_eq_true, beq_iff_eq, decide_eq_true_eq] at hb
      exact absurd hb hgo
  simp only [loopIter, hgo', Bool.false_eq_true, if_false, hmin, decide_true]
  cases maxOk q iter
  · simp
  · simp only
    split
    · simp
    · simp

theorem sim_loop_iter {inp : Input} {cs : List Nat} (total : Nat) (m : ES.Matcher) (body : Node) (fwd : Bool)
    (pi pc : Nat) (q : Quant)
    (hbody : Sim inp cs total m body fwd pi (pi + pc))
    (hfr : ∀ st s, s ∈ sem inp body fwd st → Frame pi (pi + pc) st s)
    (hpc : pi + pc ≤ total) :
    ∀ (fuel min : Nat) (max : Option Nat) (iter entry K : Nat) (x : ES.State) (st : St) (c : ES.Cont)
      (k : St → Option St),
      Rel cs x st → st.caps.length = total →
      min = q.min - iter → max = q.max.map (· - iter) → (∀ mx, max = some mx → min ≤ mx) →
      (q.min - iter) + mu inp fwd st.pos + 2 ≤ K →
      ¬ (entry = st.pos ∧ iter > q.min) →
      (∀ y s, s ∈ loopIter (fun s => sem inp body fwd s) q pi (pi + pc) K iter entry st → Rel cs y s →
        ResRel cs (c y) (k s)) →
      ResRel cs (ES.repeatMatcher m q.greedy pi pc fuel min max x c)
        ((loopIter (fun s => sem inp body fwd s) q pi (pi + pc) K iter entry st).findSome? k) := by
  intro fuel
  induction fuel with
  | zero =>
    intro min max iter entry K x st c k hr hl hmin hmax hle hK hgo hc
    obtain ⟨K', rfl⟩ : ∃ K', K = K' + 1 := ⟨K - 1, by omega⟩
    simp only [ES.repeatMatcher]
    by_cases hm0 : max = some 0
    · simp only [hm0, if_true]
      have hmo : maxOk q iter = false := (maxOk_iff q iter).2 (hmax ▸ hm0)
      have hmn : iter ≥ q.min := by have := hle 0 hm0; omega
      have hgo' : (entry == st.pos && decide (iter > q.min)) = false := by
        cases hb : (entry == st.pos && decide (iter > q.min)) with
        | false => rfl
        | true =>
          simp only [Bool.and_eq_true, beq_iff_eq, decide_eq_true_eq] at hb
          exact absurd hb hgo
      have hlist : loopIter (fun s => sem inp body fwd s) q pi (pi + pc) (K' + 1) iter entry st = [st] := by
        simp [loopIter, hgo', hmo, hmn]
      rw [hlist] at hc ⊢
      simp only [List.findSome?_cons, List.findSome?_nil]
      have := hc x st (by simp) hr
      cases hk : k st <;> simpa [hk] using this
    · simp only [hm0, if_false]; trivial
  | succ fuel ih =>
    intro min max iter entry K x st c k hr hl hmin hmax hle hK hgo hc
    obtain ⟨K', rfl⟩ : ∃ K', K = K' + 1 := ⟨K - 1, by omega⟩
    have hgo' : (entry == st.pos && decide (iter > q.min)) = false := by
      cases hb : (entry == st.pos && decide (iter > q.min)) with
      | false => rfl
      | true =>
        simp only [Bool.and_eq_true, beq_iff_eq, decide_eq_true_eq] at hb
        exact absurd hb hgo
    simp only [ES.repeatMatcher]
    by_cases hm0 : max = some 0
    · simp only [hm0, if_true]
      have hmo : maxOk q iter = false := (maxOk_iff q iter).2 (hmax ▸ hm0)
      have hmn : iter ≥ q.min := by have := hle 0 hm0; omega
      have hlist : loopIter (fun s => sem inp body fwd s) q pi (pi + pc) (K' + 1) iter entry st = [st] := by
        simp [loopIter, hgo', hmo, hmn]
      rw [hlist] at hc ⊢
      simp only [List.findSome?_cons, List.findSome?_nil]
      have := hc x st (by simp) hr
      cases hk : k st <;> simpa [hk] using this
    · simp only [hm0, if_false]
      have hmo : maxOk q iter = true := by
        cases hb : maxOk q iter with
        | true => rfl
        | false => exact absurd (hmax ▸ (maxOk_iff q iter).1 hb) hm0
      -- the iterations entered from `st`
      have hA : ResRel cs
          (m.run (fuel + 1) { x with captures := ES.resetCaptures x.captures pi pc }
            (fun y =>
              if min = 0 ∧ y.endIndex = x.endIndex then .failure
              else ES.repeatMatcher m q.greedy pi pc fuel (if min = 0 then 0 else min - 1) (max.map (· - 1)) y c))
          (((sem inp body fwd (st.resetGroups pi (pi + pc))).flatMap
              (loopIter (fun s => sem inp body fwd s) q pi (pi + pc) K' (iter + 1) st.pos)).findSome? k) := by
        rw [findSome?_flatMap']
        apply hbody (fuel + 1) _ (st.resetGroups pi (pi + pc)) _ _ (hr.reset pi pc) (by simp [hl])
          (Fresh.reset st pi (pi + pc) (by omega))
        intro y s hs hys
        have hfs := hfr _ _ hs
        have hadv : WeakAdv inp fwd st.pos s.pos := by
          have := sem_adv inp body fwd _ s hs
          simpa using this
        have hpos := off_inj_of_rel hr hys
        by_cases hstuck : min = 0 ∧ y.endIndex = x.endIndex
        · simp only [hstuck, and_self, if_true]
          have hp : s.pos = st.pos := hpos.2 hstuck.2
          have hit : iter + 1 > q.min := by omega
          rw [← hp, loopIter_stuck _ _ _ _ _ _ _ hit]
          rfl
        · simp only [hstuck, if_false]
          apply ih _ _ (iter + 1) st.pos K' y s c k hys (by rw [hfs.1]; simpa using hl)
          · split <;> omega
          · rw [hmax]; cases q.max <;> simp; omega
          · intro mx hmx
            cases hmaxv : max with
            | none => rw [hmaxv] at hmx; cases hmx
            | some m0 =>
              rw [hmaxv] at hmx
              simp only [Option.map_some, Option.some.injEq] at hmx
              have := hle m0 hmaxv
              have hm0' : m0 ≠ 0 := fun h => hm0 (by rw [hmaxv, h])
              split <;> omega
          · by_cases hp : s.pos = st.pos
            · have : min ≠ 0 := fun h => hstuck ⟨h, hpos.1 hp⟩
              rw [hp]; omega
            · have := (hadv.adv_of_ne hp).mu_lt
              omega
          · rintro ⟨hp, hit⟩
            have : min ≠ 0 := fun h => hstuck ⟨h, hpos.1 hp.symm⟩
            omega
          · intro y' s' hs' hys'
            exact hc y' s' (loopIter_taken_mem hgo hmo (List.mem_flatMap.2 ⟨s, hs, hs'⟩)) hys'
      by_cases hmin0 : min = 0
      · have hmn : iter ≥ q.min := by omega
        have hself : ResRel cs (c x) (k st) := hc x st (loopIter_self_mem hgo hmn) hr
        have hlist : loopIter (fun s => sem inp body fwd s) q pi (pi + pc) (K' + 1) iter entry st =
            if q.greedy then
              (sem inp body fwd (st.resetGroups pi (pi + pc))).flatMap
                (loopIter (fun s => sem inp body fwd s) q pi (pi + pc) K' (iter + 1) st.pos) ++ [st]
            else
              st :: (sem inp body fwd (st.resetGroups pi (pi + pc))).flatMap
                (loopIter (fun s => sem inp body fwd s) q pi (pi + pc) K' (iter + 1) st.pos) := by
          simp [loopIter, hgo', hmo, hmn]
        rw [hlist]
        subst hmin0
        cases hg : q.greedy with
        | true =>
          rw [hg] at hA
          simp only [ne_eq, not_true_eq_false, if_false, Bool.not_true, Bool.false_eq_true, if_true,
            true_and] at hA ⊢
          rw [findSome?_append', findSome?_single]
          exact ResRel.alt hA hself
        | false =>
          rw [hg] at hA
          simp only [ne_eq, not_true_eq_false, Bool.not_false, if_true, Bool.false_eq_true, if_false,
            true_and] at hA ⊢
          rw [findSome?_cons_or]
          exact ResRel.alt hself hA
      · have hmn : ¬ (iter ≥ q.min) := by omega
        have hlist : loopIter (fun s => sem inp body fwd s) q pi (pi + pc) (K' + 1) iter entry st =
            (sem inp body fwd (st.resetGroups pi (pi + pc))).flatMap
              (loopIter (fun s => sem inp body fwd s) q pi (pi + pc) K' (iter + 1) st.pos) := by
          simp [loopIter, hgo', hmo, hmn]
        rw [hlist]
        simp only [ne_eq, hmin0, not_false_eq_true, if_true, if_false, false_and] at hA ⊢
        exact hA

/-- `Term :: Atom Quantifier` against `Node::Loop`. -/
theorem sim_loop {inp : Input} {cs : List Nat} (total : Nat) (m : ES.Matcher) (body : Node) (fwd : Bool)
    (pi pc : Nat) (q : Quant)
    (hbody : Sim inp cs total m body fwd pi (pi + pc))
    (hfr : ∀ st s, s ∈ sem inp body fwd st → Frame pi (pi + pc) st s)
    (hq : ∀ mx, q.max = some mx → q.min ≤ mx) :
    Sim inp cs total ⟨fun fuel x c => ES.repeatMatcher m q.greedy pi pc fuel q.min q.max x c⟩
      (.loop body q pi (pi + pc)) fwd pi (pi + pc) := by
  intro fuel x st c k hr hl hf hc
  simp only [sem] at hc ⊢
  apply sim_loop_iter total m body fwd pi pc q hbody hfr (by rw [← hl]; exact hf.1) fuel q.min q.max 0 0
    (loopBudget inp q fwd st) x st c k hr hl (by simp) (by cases q.max <;> simp) hq
    (by simp [loopBudget]) (by omega) hc

end Regress.Lower
