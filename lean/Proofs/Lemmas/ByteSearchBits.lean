import RegressModel.VM.ByteSearch
/-!
# Bit-level lemmas for `bytesearch.rs`

`x &&& 2^b`, the shifts of the model, the nibble trick of `unsafe_find_in_slice`, and the packing of
sixteen 16-bit words / sixteen bytes into one number.
-/
namespace Regress.ByteSearch

/-! ## Single-bit masks -/

theorem and_two_pow_eq (w b : Nat) : w &&& 2 ^ b = if w.testBit b then 2 ^ b else 0 := by
  apply Nat.eq_of_testBit_eq
  intro i
  rw [Nat.testBit_and, Nat.testBit_two_pow]
  by_cases h : b = i
  · subst h
    cases hw : w.testBit b <;> simp
  · cases hw : w.testBit b <;> simp [h]

theorem and_two_pow_bne (w b : Nat) : ((w &&& 2 ^ b) != 0) = w.testBit b := by
  rw [and_two_pow_eq]
  cases hw : w.testBit b
  · simp
  · have : 2 ^ b > 0 := Nat.two_pow_pos b
    simp

theorem two_pow_lt_of_lt {b n : Nat} (h : b < n) : 2 ^ b < 2 ^ n :=
  Nat.pow_lt_pow_right (by omega) h

theorem shl_one_ok {width bit : Nat} (h : bit < width) : shl width 1 bit = .ok (2 ^ bit) := by
  unfold shl
  rw [if_pos h, Nat.one_shiftLeft, Nat.mod_eq_of_lt (two_pow_lt_of_lt h)]

theorem shl_err {width x bit : Nat} (h : ¬ bit < width) : shl width x bit = .error .shiftOverflow := by
  unfold shl; rw [if_neg h]

theorem shr4 (v : Nat) : v >>> 4 = v / 16 := by
  rw [Nat.shiftRight_eq_div_pow]

theorem and15 (v : Nat) : v &&& 0xF = v % 16 :=
  Nat.and_two_pow_sub_one_eq_mod v 4

theorem and7 (v : Nat) : v &&& 0x7 = v % 8 :=
  Nat.and_two_pow_sub_one_eq_mod v 3

theorem and127 (v : Nat) : v &&& 0x7F = v % 128 :=
  Nat.and_two_pow_sub_one_eq_mod v 7

/-! ## The nibble trick -/

/-- Byte `k/8` of a masked word. -/
theorem byte_of_and (x M k : Nat) :
    ((x &&& M) >>> k) % 256 = ((x >>> k) % 256) &&& ((M >>> k) % 256) := by
  rw [Nat.shiftRight_and_distrib, show (256 : Nat) = 2 ^ 8 from rfl, Nat.and_mod_two_pow]

theorem byte_of_and' (x M : Nat) :
    (x &&& M) % 256 = (x % 256) &&& (M % 256) := by
  rw [show (256 : Nat) = 2 ^ 8 from rfl, Nat.and_mod_two_pow]

/-- The little-endian chunk: byte `k` of `(c >> 4) & 0x0F0F0F0F` is `bk >> 4`. -/
theorem nibble_hi_le {b0 b1 b2 b3 : Nat} (h0 : b0 < 256) (h1 : b1 < 256) (h2 : b2 < 256)
    (h3 : b3 < 256) :
    byteIdxs .little (u32OfNeBytes .little b0 b1 b2 b3) = (b0 >>> 4, b1 >>> 4, b2 >>> 4, b3 >>> 4) := by
  simp only [byteIdxs, u32ToNeBytes, u32OfNeBytes, byte_of_and, byte_of_and']
  have e0 : (0x0F0F0F0F : Nat) % 256 = 15 := by decide
  have e1 : ((0x0F0F0F0F : Nat) >>> 8) % 256 = 15 := by decide
  have e2 : ((0x0F0F0F0F : Nat) >>> 16) % 256 = 15 := by decide
  have e3 : ((0x0F0F0F0F : Nat) >>> 24) % 256 = 15 := by decide
  rw [e0, e1, e2, e3]
  simp only [and15, Nat.shiftRight_eq_div_pow]
  refine Prod.ext ?_ (Prod.ext ?_ (Prod.ext ?_ ?_)) <;> simp only [] <;> omega

/-- The little-endian chunk: byte `k` of `c & 0x0F0F0F0F` is `bk & 0xF`. -/
theorem nibble_lo_le {b0 b1 b2 b3 : Nat} (h0 : b0 < 256) (h1 : b1 < 256) (h2 : b2 < 256)
    (_h3 : b3 < 256) :
    bitIdxs .little (u32OfNeBytes .little b0 b1 b2 b3) = (b0 &&& 0xF, b1 &&& 0xF, b2 &&& 0xF, b3 &&& 0xF) := by
  simp only [bitIdxs, u32ToNeBytes, u32OfNeBytes, byte_of_and, byte_of_and']
  have e0 : (0x0F0F0F0F : Nat) % 256 = 15 := by decide
  have e1 : ((0x0F0F0F0F : Nat) >>> 8) % 256 = 15 := by decide
  have e2 : ((0x0F0F0F0F : Nat) >>> 16) % 256 = 15 := by decide
  have e3 : ((0x0F0F0F0F : Nat) >>> 24) % 256 = 15 := by decide
  rw [e0, e1, e2, e3]
  simp only [and15, Nat.shiftRight_eq_div_pow]
  refine Prod.ext ?_ (Prod.ext ?_ (Prod.ext ?_ ?_)) <;> simp only [] <;> omega


/-- The same for a big-endian target: chunk and `to_ne_bytes` are both reversed, the result is the
same. -/
theorem nibble_hi_be {b0 b1 b2 b3 : Nat} (h0 : b0 < 256) (h1 : b1 < 256) (h2 : b2 < 256)
    (h3 : b3 < 256) :
    byteIdxs .big (u32OfNeBytes .big b0 b1 b2 b3) = (b0 >>> 4, b1 >>> 4, b2 >>> 4, b3 >>> 4) := by
  simp only [byteIdxs, u32ToNeBytes, u32OfNeBytes, byte_of_and, byte_of_and']
  have e0 : (0x0F0F0F0F : Nat) % 256 = 15 := by decide
  have e1 : ((0x0F0F0F0F : Nat) >>> 8) % 256 = 15 := by decide
  have e2 : ((0x0F0F0F0F : Nat) >>> 16) % 256 = 15 := by decide
  have e3 : ((0x0F0F0F0F : Nat) >>> 24) % 256 = 15 := by decide
  rw [e0, e1, e2, e3]
  simp only [and15, Nat.shiftRight_eq_div_pow]
  refine Prod.ext ?_ (Prod.ext ?_ (Prod.ext ?_ ?_)) <;> simp only [] <;> omega

theorem nibble_lo_be {b0 b1 b2 b3 : Nat} (_h0 : b0 < 256) (h1 : b1 < 256) (h2 : b2 < 256)
    (h3 : b3 < 256) :
    bitIdxs .big (u32OfNeBytes .big b0 b1 b2 b3) = (b0 &&& 0xF, b1 &&& 0xF, b2 &&& 0xF, b3 &&& 0xF) := by
  simp only [bitIdxs, u32ToNeBytes, u32OfNeBytes, byte_of_and, byte_of_and']
  have e0 : (0x0F0F0F0F : Nat) % 256 = 15 := by decide
  have e1 : ((0x0F0F0F0F : Nat) >>> 8) % 256 = 15 := by decide
  have e2 : ((0x0F0F0F0F : Nat) >>> 16) % 256 = 15 := by decide
  have e3 : ((0x0F0F0F0F : Nat) >>> 24) % 256 = 15 := by decide
  rw [e0, e1, e2, e3]
  simp only [and15, Nat.shiftRight_eq_div_pow]
  refine Prod.ext ?_ (Prod.ext ?_ (Prod.ext ?_ ?_)) <;> simp only [] <;> omega

theorem nibble_hi (e : Endian) {b0 b1 b2 b3 : Nat} (h0 : b0 < 256) (h1 : b1 < 256) (h2 : b2 < 256)
    (h3 : b3 < 256) :
    byteIdxs e (u32OfNeBytes e b0 b1 b2 b3) = (b0 >>> 4, b1 >>> 4, b2 >>> 4, b3 >>> 4) := by
  cases e
  · exact nibble_hi_le h0 h1 h2 h3
  · exact nibble_hi_be h0 h1 h2 h3

theorem nibble_lo (e : Endian) {b0 b1 b2 b3 : Nat} (h0 : b0 < 256) (h1 : b1 < 256) (h2 : b2 < 256)
    (h3 : b3 < 256) :
    bitIdxs e (u32OfNeBytes e b0 b1 b2 b3) = (b0 &&& 0xF, b1 &&& 0xF, b2 &&& 0xF, b3 &&& 0xF) := by
  cases e
  · exact nibble_lo_le h0 h1 h2 h3
  · exact nibble_lo_be h0 h1 h2 h3

theorem u32OfNeBytes_lt (e : Endian) {b0 b1 b2 b3 : Nat} (h0 : b0 < 256) (h1 : b1 < 256)
    (h2 : b2 < 256) (h3 : b3 < 256) : u32OfNeBytes e b0 b1 b2 b3 < 2 ^ 32 := by
  cases e <;> simp only [u32OfNeBytes] <;> omega

/-! ## `ByteBitmap`: the membership predicate -/

/-- The set a `ByteBitmap` denotes: bit `v % 16` of word `v / 16`. -/
def ByteBitmap.mem (bm : ByteBitmap) (v : Nat) : Bool := (bm.words[v / 16]?.getD 0).testBit (v % 16)

theorem ByteBitmap.probe_ok {bm : ByteBitmap} (hwf : bm.WF) {i b : Nat} (hi : i < 16) (hb : b < 16) :
    bm.probe i b = .ok ((bm.words[i]?.getD 0).testBit b) := by
  have hlen : i < bm.words.length := by rw [hwf.1]; exact hi
  unfold ByteBitmap.probe
  rw [shl_one_ok hb, List.getElem?_eq_getElem hlen]
  simp [and_two_pow_bne]

theorem ByteBitmap.contains_ok {bm : ByteBitmap} (hwf : bm.WF) {v : Nat} (hv : v < 256) :
    bm.contains v = .ok (bm.mem v) := by
  unfold ByteBitmap.contains ByteBitmap.mem
  simp only [shr4, and15]
  exact ByteBitmap.probe_ok hwf (by omega) (by omega)

/-- Outside the `u8` domain the index is out of range: the model reports the panic. -/
theorem ByteBitmap.contains_err {bm : ByteBitmap} (hwf : bm.WF) {v : Nat} (hv : 256 ≤ v) :
    bm.contains v = .error .bitmapIndex := by
  unfold ByteBitmap.contains ByteBitmap.probe
  simp only [shr4]
  have : bm.words[v / 16]? = none := by
    apply List.getElem?_eq_none; rw [hwf.1]; omega
  rw [this]

theorem ByteBitmap.default_wf : ByteBitmap.default.WF := by decide

theorem ByteBitmap.mem_default (v : Nat) : ByteBitmap.default.mem v = false := by
  unfold ByteBitmap.mem ByteBitmap.default
  simp only [List.getElem?_replicate]
  split <;> simp

theorem ByteBitmap.set_ok {bm : ByteBitmap} (hwf : bm.WF) {v : Nat} (hv : v < 256) :
    bm.set v = .ok ⟨bm.words.set (v / 16) (bm.words[v / 16]?.getD 0 ||| 2 ^ (v % 16))⟩ := by
  have hlen : v / 16 < bm.words.length := by rw [hwf.1]; omega
  unfold ByteBitmap.set
  simp only [shr4, and15]
  rw [shl_one_ok (by omega : v % 16 < 16), List.getElem?_eq_getElem hlen]
  simp

theorem ByteBitmap.set_err {bm : ByteBitmap} (hwf : bm.WF) {v : Nat} (hv : 256 ≤ v) :
    bm.set v = .error .bitmapIndex := by
  unfold ByteBitmap.set
  simp only [shr4]
  have : bm.words[v / 16]? = none := by
    apply List.getElem?_eq_none; rw [hwf.1]; omega
  rw [this]

theorem ByteBitmap.set_wf {bm bm' : ByteBitmap} (hwf : bm.WF) {v : Nat} (hv : v < 256)
    (h : bm.set v = .ok bm') : bm'.WF := by
  rw [ByteBitmap.set_ok hwf hv] at h
  cases h
  refine ⟨by simp [hwf.1], ?_⟩
  intro w hw
  rcases List.mem_or_eq_of_mem_set hw with h | h
  · exact hwf.2 w h
  · subst h
    have hlen : v / 16 < bm.words.length := by rw [hwf.1]; omega
    have h1 : bm.words[v / 16]?.getD 0 < 2 ^ 16 := by
      rw [List.getElem?_eq_getElem hlen]; exact hwf.2 _ (List.getElem_mem hlen)
    have h2 : 2 ^ (v % 16) < 2 ^ 16 := two_pow_lt_of_lt (by omega)
    exact Nat.or_lt_two_pow h1 h2

theorem ByteBitmap.mem_set {bm bm' : ByteBitmap} (hwf : bm.WF) {v : Nat} (hv : v < 256)
    (h : bm.set v = .ok bm') (u : Nat) : bm'.mem u = (bm.mem u || u == v) := by
  rw [ByteBitmap.set_ok hwf hv] at h
  cases h
  have hlen : v / 16 < bm.words.length := by rw [hwf.1]; omega
  unfold ByteBitmap.mem
  simp only [List.getElem?_set]
  by_cases hq : v / 16 = u / 16
  · rw [if_pos hq, if_pos hlen, Option.getD_some, Nat.testBit_or, Nat.testBit_two_pow, hq]
    congr 1
    by_cases hr : v % 16 = u % 16
    · have : u = v := by omega
      simp [this]
    · have : ¬ u = v := by omega
      simp [hr, this]
  · rw [if_neg hq]
    have : ¬ u = v := by intro h; subst h; exact hq rfl
    simp [this]

end Regress.ByteSearch
