import Proofs.Lemmas.LowerProps
/-!
# ES specification ⇒ IR semantics: class escapes, property escapes, classes (without `i`)

`CompileToCharSet` of the specification against the `CodePointSet` the parser computes:
`\d \D \s \S \w \W`, `\p{…}` / `\P{…}`, legacy / `u`-mode brackets, and `v`-mode class set
expressions (union, intersection, subtraction, nested classes, complement) that contain no strings.
Everything here is for a RegExp Record without `ignoreCase`.
-/
namespace Regress.Lower

open Regress Regress.IR Regress.VM Regress.Parse Regress.CPS

/-! ## A bracket node against `CharacterSetMatcher` -/

theorem charSetAtomMatcher_singles (input : Array Nat) (rer : ES.RER) (A : ES.CharSet) (invert : Bool)
    (d : ES.Direction) (h : rer.unicodeSets = false ∨ A.strs = []) :
    ES.charSetAtomMatcher input rer A invert d = ES.characterSetMatcher input rer A invert d := by
  rcases h with h | h <;> simp [ES.charSetAtomMatcher, ES.CharSet.onlySingles, h]

theorem sim_bracket {inp : Input} {cs : List Nat} (ht : Utf8Text inp cs) (total : Nat) (rer : ES.RER)
    (hic : rer.ignoreCase = false) (A : ES.CharSet) (invert inv' : Bool) (s : IvList) (back : Bool) (lo hi : Nat)
    (hstr : rer.unicodeSets = false ∨ A.strs = [])
    (hden : ∀ ch, ch ≤ 0x10FFFF → (A.chars ch != invert) = bracketTest { invert := inv', ivs := pairsOfIvs s } ch) :
    Sim inp cs total (ES.charSetAtomMatcher cs.toArray rer A invert (dirOf back)) (mkBracket inv' s) (!back) lo hi := by
  rw [charSetAtomMatcher_singles _ _ _ _ _ hstr]
  apply sim_charset ht total rer A invert back (bracketTest { invert := inv', ivs := pairsOfIvs s }) _ _ _
    (fun st => by simp only [mkBracket, sem])
  intro ch hsc
  rw [existsCanonMember_noicase hic]
  exact hden ch (isScalar_le' hsc)

theorem reverseCats_mkBracket (b inv : Bool) (s : IvList) :
    Parse.reverseCats b (mkBracket inv s) = .ok (mkBracket inv s) := by
  simp [mkBracket, Parse.reverseCats]

theorem makeBracketClass_noicase (ct : ClassType) (pos : Bool) :
    makeBracketClass ct pos false = mkBracket false (codepointsFromClass ct pos false) := by
  cases pos <;> simp [makeBracketClass, codepointsFromClass]

/-! ## Legacy / `u`-mode brackets -/

def itemOK : ES.ClassItem → Bool
  | .c cp => decide (cp ≤ 0x10FFFF)
  | .r lo hi => decide (lo ≤ hi) && decide (hi ≤ 0x10FFFF)
  | .esc _ => true
  | .prop _ _ _ => true

theorem den_classItems {rer : ES.RER} (hmsf : rer.unicodeSets = false ∨ rer.ignoreCase = false) (fl : IR.Flags)
    (ic : Bool) (hfi : (fl.icase && fl.unicode) = ic)
    (hesc : ∀ e, Den (ES.classEscape rer e).chars (codepointsFromClass (classOfEsc e).1 (classOfEsc e).2 ic)) :
    ∀ (items : List ES.ClassItem) (acc cps : IvList) (P : Nat → Bool), Den P acc →
      items.all itemOK = true → lowerClassItems fl items acc = .ok cps →
      Den (fun c => P c || (ES.classContentsCharSet rer items).chars c) cps
  | [], acc, cps, P, hd, _, hl => by
    simp only [lowerClassItems, Except.ok.injEq] at hl; subst hl
    exact hd.congr (fun c _ => by simp [ES.classContentsCharSet, ES.CharSet.empty])
  | i :: is, acc, cps, P, hd, hok, hl => by
    simp only [List.all_cons, Bool.and_eq_true] at hok
    simp only [lowerClassItems] at hl
    cases hi : lowerClassItem fl acc i with
    | error e => rw [hi] at hl; cases hl
    | ok acc' =>
      rw [hi] at hl
      have step : Den (fun c => P c || (ES.classItemCharSet rer i).chars c) acc' := by
        cases i with
        | c cp =>
          simp only [lowerClassItem, addClassAtom, Except.ok.injEq] at hi; subst hi
          simp only [itemOK, decide_eq_true_eq] at hok
          exact (den_addOne hd hok.1).congr (fun c _ => by simp [ES.classItemCharSet, ES.CharSet.single])
        | r lo hi' =>
          simp only [itemOK, Bool.and_eq_true, decide_eq_true_eq] at hok
          have : ¬ lo > hi' := by omega
          simp only [lowerClassItem, this, if_false, Except.ok.injEq] at hi; subst hi
          exact (den_add hd hok.1.1 hok.1.2).congr (fun c _ => by simp [ES.classItemCharSet, ES.CharSet.range])
        | esc e =>
          simp only [lowerClassItem, addClassAtom, hfi, Except.ok.injEq] at hi; subst hi
          exact (den_addSet hd (hesc e)).congr (fun c _ => by simp [ES.classItemCharSet])
        | prop neg kind name =>
          simp only [lowerClassItem] at hi
          split at hi
          · cases hi
          · cases hp : lowerProp fl.unicodeSets kind name with
            | error e => rw [hp] at hi; cases hi
            | ok k =>
              cases k with
              | stringSet _ => rw [hp] at hi; cases hi
              | charClass s =>
                rw [hp] at hi
                simp only [addClassAtom, Except.ok.injEq] at hi; subst hi
                obtain ⟨hpos, hneg, _⟩ := den_propEscape hmsf hp
                cases neg with
                | false =>
                  exact (den_addSet hd hpos).congr (fun c _ => by simp [ES.classItemCharSet])
                | true =>
                  exact (den_addSet hd hneg).congr (fun c _ => by simp [ES.classItemCharSet])
      have := den_classItems hmsf fl ic hfi hesc is acc' cps _ step hok.2 hl
      exact this.congr (fun c _ => by
        simp [ES.classContentsCharSet, ES.CharSet.union, Bool.or_assoc])

/-! ## `v`-mode class sets without strings -/

/-- the property is a property of code points (not of strings) -/
def propIsCharClass (us : Bool) (kind name : Nat) : Bool :=
  match lowerProp us kind name with
  | .ok (.charClass _) => true
  | _ => false

mutual
/-- Operands covered here: valid code points, no `\q{…}`, no property of strings. -/
def vopOK (us : Bool) : ES.VOp → Bool
  | .c cp => decide (cp ≤ 0x10FFFF)
  | .r lo hi => decide (lo ≤ hi) && decide (hi ≤ 0x10FFFF)
  | .esc _ => true
  | .prop _ kind name => propIsCharClass us kind name
  | .q _ => false
  | .cls _ _ ops => vopsOK us ops
def vopsOK (us : Bool) : List ES.VOp → Bool
  | [] => true
  | o :: os => vopOK us o && vopsOK us os
end

/-- A CharSet of single characters against a `ClassSet` without strings. -/
structure VDen (A : ES.CharSet) (s : ClassSet) : Prop where
  den : Den A.chars s.cps
  strs : A.strs = []
  alts : s.alts = []

/-- A CharSet against a `ClassSetOperand`. -/
def OpDen (A : ES.CharSet) : Operand → Prop
  | .char c => c ≤ 0x10FFFF ∧ (∀ x, A.chars x = (x == c)) ∧ A.strs = []
  | .esc cps => Den A.chars cps ∧ A.strs = []
  | .cls s => VDen A s
  | .strs _ => False

theorem den_single {c : Nat} (hc : c ≤ 0x10FFFF) : Den (fun x => x == c) [⟨c, c⟩] := by
  refine ⟨⟨Nat.le_refl _, hc⟩, fun x _ => ?_⟩
  simp only [mem, List.mem_singleton, exists_eq_left, beq_iff_eq]
  omega

theorem union_strs_nil {A B : ES.CharSet} (ha : A.strs = []) (hb : B.strs = []) : (A.union B).strs = [] := by
  simp [ES.CharSet.union, ha, hb]

theorem strs_of_union_nil {A B : ES.CharSet} (ha : A.strs = []) (h : (A.union B).strs = []) : B.strs = [] := by
  simp only [ES.CharSet.union, ha, List.nil_append] at h
  cases hb : B.strs with
  | nil => rfl
  | cons a t => rw [hb] at h; simp at h

theorem vden_unionOperand {A B : ES.CharSet} {s : ClassSet} {op : Operand} (hs : VDen A s) (ho : OpDen B op) :
    VDen (A.union B) (s.unionOperand op) := by
  cases op with
  | char c =>
    obtain ⟨hc, hb, hbs⟩ := ho
    exact ⟨(den_addOne hs.den hc).congr (fun x _ => by simp [ES.CharSet.union, hb]),
      union_strs_nil hs.strs hbs, hs.alts⟩
  | esc cps =>
    exact ⟨(den_addSet hs.den ho.1).congr (fun x _ => by simp [ES.CharSet.union]),
      union_strs_nil hs.strs ho.2, hs.alts⟩
  | cls c =>
    exact ⟨(den_addSet hs.den ho.den).congr (fun x _ => by simp [ES.CharSet.union]),
      union_strs_nil hs.strs ho.strs, by simp [ClassSet.unionOperand, hs.alts, ho.alts]⟩
  | strs _ => exact ho.elim

theorem collectSingles_nil (set : IvList) : collectSingles [] set = [] := rfl

theorem vden_intersectOperand {A B : ES.CharSet} {s : ClassSet} {op : Operand} (hs : VDen A s) (ho : OpDen B op) :
    VDen (A.inter B) (s.intersectOperand op) := by
  have hstr : (A.inter B).strs = [] := by simp [ES.CharSet.inter, hs.strs]
  cases op with
  | char c =>
    obtain ⟨hc, hb, _⟩ := ho
    refine ⟨?_, hstr, by simp [ClassSet.intersectOperand, hs.alts]⟩
    simp only [ClassSet.intersectOperand]
    by_cases hcon : CPS.contains s.cps c = true
    · simp only [hcon, if_true]
      have hm : A.chars c = true := (hs.den.2 c hc).2 ((C12.contains_iff _ _).1 hcon)
      refine (den_single hc).congr (fun x _ => ?_)
      simp only [ES.CharSet.inter, hb]
      by_cases hx : x = c
      · subst hx; simp [hm]
      · simp [hx]
    · simp only [hcon]
      have hm : A.chars c = false := by
        cases hac : A.chars c with
        | false => rfl
        | true => exact absurd ((C12.contains_iff _ _).2 ((hs.den.2 c hc).1 hac)) hcon
      refine den_empty.congr (fun x _ => ?_)
      simp only [ES.CharSet.inter, hb]
      by_cases hx : x = c
      · subst hx; simp [hm]
      · simp [hx]
  | esc cps =>
    exact ⟨(den_intersect hs.den ho.1).congr (fun x _ => by simp [ES.CharSet.inter]), hstr,
      by simp [ClassSet.intersectOperand, hs.alts]⟩
  | cls c =>
    refine ⟨?_, hstr, by simp [ClassSet.intersectOperand, hs.alts]⟩
    simp only [ClassSet.intersectOperand, ho.alts, collectSingles_nil]
    exact (den_addSet (den_intersect hs.den ho.den) den_empty).congr (fun x _ => by simp [ES.CharSet.inter])
  | strs _ => exact ho.elim

theorem vden_subtractOperand {A B : ES.CharSet} {s : ClassSet} {op : Operand} (hs : VDen A s) (ho : OpDen B op) :
    VDen (A.sub B) (s.subtractOperand op) := by
  have hstr : (A.sub B).strs = [] := by simp [ES.CharSet.sub, hs.strs]
  cases op with
  | char c =>
    obtain ⟨hc, hb, _⟩ := ho
    exact ⟨(den_remove hs.den (den_single hc)).congr (fun x _ => by simp [ES.CharSet.sub, hb]), hstr,
      by simp [ClassSet.subtractOperand, hs.alts]⟩
  | esc cps =>
    exact ⟨(den_remove hs.den ho.1).congr (fun x _ => by simp [ES.CharSet.sub]), hstr,
      by simp [ClassSet.subtractOperand, hs.alts]⟩
  | cls c =>
    refine ⟨?_, hstr, by simp [ClassSet.subtractOperand, hs.alts]⟩
    simp only [ClassSet.subtractOperand, ho.alts, collectSingles_nil]
    exact (den_remove (den_remove hs.den den_empty) ho.den).congr (fun x _ => by simp [ES.CharSet.sub])
  | strs _ => exact ho.elim

theorem vden_empty : VDen ES.CharSet.empty ({} : ClassSet) :=
  ⟨den_empty, rfl, rfl⟩

theorem vden_first {B : ES.CharSet} {op : Operand} (ho : OpDen B op) :
    VDen B (({} : ClassSet).unionOperand op) := by
  have := vden_unionOperand vden_empty ho
  exact ⟨this.den.congr (fun x _ => by simp [ES.CharSet.union, ES.CharSet.empty]),
    by cases op <;> first | exact ho.2.2 | exact ho.2 | exact ho.strs | exact ho.elim, this.alts⟩

theorem msf_noicase {rer : ES.RER} (hic : rer.ignoreCase = false) (A : ES.CharSet) :
    ES.maybeSimpleCaseFolding rer A = A := by
  simp [ES.maybeSimpleCaseFolding, hic]

/-- `absorb_single_characters` does nothing when no string has length one. -/
theorem absorb_id {s : ClassSet} (h : ∀ a ∈ s.alts, a.length ≠ 1) : s.absorbSingleCharacters = s := by
  have h1 : s.alts.filterMap single? = [] := by
    apply List.filterMap_eq_nil_iff.2
    intro a ha
    match a, h a ha with
    | [], _ => rfl
    | [_], hh => exact absurd rfl hh
    | _ :: _ :: _, _ => rfl
  have h2 : s.alts.filter (fun x => x.length != 1) = s.alts := by
    apply List.filter_eq_self.2
    intro a ha
    simpa using h a ha
  cases s
  simp only [ClassSet.absorbSingleCharacters] at h1 h2 ⊢
  simp only [h1, h2, List.foldl_nil]

theorem absorb_nil {s : ClassSet} (h : s.alts = []) : s.absorbSingleCharacters = s :=
  absorb_id (by rw [h]; intro a ha; cases ha)

/-- `ClassSet::node` when no string has length one. -/
theorem node_eq (s : ClassSet) (ic neg : Bool) (h : ∀ a ∈ s.alts, a.length ≠ 1) :
    s.node ic neg =
      if s.alts.any (fun a => a.isEmpty) then
        makeAlt [({ s with alts := s.alts.filter (fun a => !a.isEmpty) } : ClassSet).nonemptyNode ic neg, .empty]
      else ({ s with alts := s.alts.filter (fun a => !a.isEmpty) } : ClassSet).nonemptyNode ic neg := by
  simp only [ClassSet.node, absorb_id h]

theorem vden_complement {rer : ES.RER} (hic : rer.ignoreCase = false) {A : ES.CharSet} {s : ClassSet}
    (hs : VDen A s) : VDen (ES.characterComplement rer A) { s with cps := inverted s.cps } :=
  ⟨(den_inverted hs.den).congr (fun x _ => by simp [ES.characterComplement, ES.allCharacters, hic]),
    rfl, hs.alts⟩

theorem lowerVUnion_cons {fl : IR.Flags} {o : ES.VOp} {os : List ES.VOp} {acc : ClassSet}
    (hne : ∀ lo hi, o ≠ .r lo hi) :
    lowerVUnion fl (o :: os) acc =
      match lowerVOperand fl o with
      | .error e => .error e
      | .ok x => lowerVUnion fl os (acc.unionOperand x) := by
  cases o with
  | r lo hi => exact absurd rfl (hne lo hi)
  | c _ => rfl
  | esc _ => rfl
  | prop _ _ _ => rfl
  | q _ => rfl
  | cls _ _ _ => rfl

theorem vden_assoc {A B C : ES.CharSet} {r : ClassSet} (h : VDen ((A.union B).union C) r)
    (ha : A.strs = []) (hb : B.strs = []) : VDen (A.union (B.union C)) r := by
  have hs := h.strs
  simp only [ES.CharSet.union, ha, hb, List.filter_nil, List.append_nil, List.nil_append] at hs
  refine ⟨h.den.congr (fun x _ => by simp [ES.CharSet.union, Bool.or_assoc]), ?_, h.alts⟩
  have hc : C.strs = [] := by
    cases hcs : C.strs with
    | nil => rfl
    | cons a t => rw [hcs] at hs; simp at hs
  simp [ES.CharSet.union, ha, hb, hc]

section
variable {rer : ES.RER} (hic : rer.ignoreCase = false) (fl : IR.Flags) (hfi : fl.icase = false)
include hic hfi

theorem opDen_nested {negateSet : Bool} {A : ES.CharSet} {result : ClassSet} (h : VDen A result) :
    OpDen (if negateSet then ES.characterComplement rer A else A)
      (.cls (if negateSet then
          { result with cps := inverted (if fl.icase then Fold.addIcaseCodePoints result.cps else result.cps) }
        else result)) := by
  cases negateSet with
  | false => simpa [OpDen] using h
  | true => simpa [OpDen, hfi] using vden_complement hic h

mutual
theorem den_vOperand : ∀ (o : ES.VOp) (op : Operand), vopOK fl.unicodeSets o = true →
    lowerVOperand fl o = .ok op → OpDen (ES.vOpCharSet rer o) op
  | .c cp, op, hok, hl => by
    simp only [lowerVOperand, Except.ok.injEq] at hl; subst hl
    simp only [vopOK, decide_eq_true_eq] at hok
    exact ⟨hok, fun x => by simp [ES.vOpCharSet, msf_noicase hic, ES.CharSet.single],
      by simp [ES.vOpCharSet, msf_noicase hic, ES.CharSet.single]⟩
  | .r _ _, op, hok, hl => by simp [lowerVOperand] at hl
  | .esc e, op, hok, hl => by
    simp only [lowerVOperand, hfi, Except.ok.injEq] at hl; subst hl
    exact ⟨by simpa [ES.vOpCharSet] using den_classEscape hic e, by simp [ES.vOpCharSet, classEscape_strs hic]⟩
  | .prop pneg kind name, op, hok, hl => by
    simp only [lowerVOperand] at hl
    simp only [vopOK, propIsCharClass] at hok
    cases hp : lowerProp fl.unicodeSets kind name with
    | error e => rw [hp] at hl; cases hl
    | ok k =>
      cases k with
      | stringSet strs => simp [hp] at hok
      | charClass ivs =>
        rw [hp] at hl
        obtain ⟨hpos, hneg, hstrs⟩ := den_propEscape (Or.inr hic) hp
        cases pneg with
        | false =>
          simp only [Bool.false_eq_true, if_false, Except.ok.injEq] at hl; subst hl
          exact ⟨by simpa [ES.vOpCharSet] using hpos, by simp [ES.vOpCharSet, hstrs]⟩
        | true =>
          simp only [if_true, hfi, Bool.false_eq_true, if_false, Except.ok.injEq] at hl; subst hl
          exact ⟨by simpa [ES.vOpCharSet] using hneg, by simp [ES.vOpCharSet, hstrs]⟩
  | .q _, op, hok, hl => by simp [vopOK] at hok
  | .cls negateSet vop ops, op, hok, hl => by
    simp only [vopOK] at hok
    simp only [lowerVOperand] at hl
    cases vop with
    | union =>
      simp only at hl
      cases hr : lowerVUnion fl ops {} with
      | error e => rw [hr] at hl; cases hl
      | ok result =>
        rw [hr] at hl
        simp only at hl
        split at hl
        · cases hl
        simp only [Except.ok.injEq] at hl; subst hl
        have h0 := den_vUnion ops {} result ES.CharSet.empty vden_empty hok hr
        have h1 : VDen (ES.vUnion rer ops) result :=
          ⟨h0.den.congr (fun x _ => by simp [ES.CharSet.union, ES.CharSet.empty]),
            strs_of_union_nil rfl h0.strs, h0.alts⟩
        simp only [ES.vOpCharSet, absorb_nil h1.alts]
        exact opDen_nested hic fl hfi h1
    | inter =>
      simp only at hl
      cases hr : lowerVInterStart fl ops with
      | error e => rw [hr] at hl; cases hl
      | ok result =>
        rw [hr] at hl
        simp only at hl
        split at hl
        · cases hl
        simp only [Except.ok.injEq] at hl; subst hl
        have h1 := den_vInterStart ops result hok hr
        simp only [ES.vOpCharSet, absorb_nil h1.alts]
        exact opDen_nested hic fl hfi h1
    | sub =>
      simp only at hl
      cases hr : lowerVSubStart fl ops with
      | error e => rw [hr] at hl; cases hl
      | ok result =>
        rw [hr] at hl
        simp only at hl
        split at hl
        · cases hl
        simp only [Except.ok.injEq] at hl; subst hl
        have h1 := den_vSubStart ops result hok hr
        simp only [ES.vOpCharSet, absorb_nil h1.alts]
        exact opDen_nested hic fl hfi h1
theorem den_vInterStart : ∀ (ops : List ES.VOp) (result : ClassSet),
    vopsOK fl.unicodeSets ops = true → lowerVInterStart fl ops = .ok result → VDen (ES.vInter rer ops) result
  | [], result, hok, hl => by simp [lowerVInterStart] at hl
  | [_], result, hok, hl => by simp [lowerVInterStart] at hl
  | o :: o2 :: os, result, hok, hl => by
    simp only [vopsOK, Bool.and_eq_true] at hok
    simp only [lowerVInterStart] at hl
    cases hf : lowerVOperand fl o with
    | error e => rw [hf] at hl; cases hl
    | ok first =>
      rw [hf] at hl
      simp only [hfi, closeClassSetOperand, Bool.not_false, if_true] at hl
      have h1 := den_vOperand o first hok.1 hf
      simp only [ES.vInter]
      exact den_vInter (o2 :: os) _ result _ (vden_first h1) (by simp [vopsOK, hok.2]) hl
theorem den_vSubStart : ∀ (ops : List ES.VOp) (result : ClassSet),
    vopsOK fl.unicodeSets ops = true → lowerVSubStart fl ops = .ok result → VDen (ES.vSub rer ops) result
  | [], result, hok, hl => by simp [lowerVSubStart] at hl
  | [_], result, hok, hl => by simp [lowerVSubStart] at hl
  | o :: o2 :: os, result, hok, hl => by
    simp only [vopsOK, Bool.and_eq_true] at hok
    simp only [lowerVSubStart] at hl
    cases hf : lowerVOperand fl o with
    | error e => rw [hf] at hl; cases hl
    | ok first =>
      rw [hf] at hl
      simp only [hfi, closeClassSetOperand, Bool.not_false, if_true] at hl
      have h1 := den_vOperand o first hok.1 hf
      simp only [ES.vSub]
      exact den_vSub (o2 :: os) _ result _ (vden_first h1) (by simp [vopsOK, hok.2]) hl
theorem den_vUnion : ∀ (ops : List ES.VOp) (acc result : ClassSet) (A : ES.CharSet), VDen A acc →
    vopsOK fl.unicodeSets ops = true → lowerVUnion fl ops acc = .ok result →
    VDen (A.union (ES.vUnion rer ops)) result
  | [], acc, result, A, ha, hok, hl => by
    simp only [lowerVUnion, Except.ok.injEq] at hl; subst hl
    exact ⟨ha.den.congr (fun x _ => by simp [ES.CharSet.union, ES.vUnion, ES.CharSet.empty]),
      by simp [ES.CharSet.union, ES.vUnion, ES.CharSet.empty, ha.strs], ha.alts⟩
  | o :: os, acc, result, A, ha, hok, hl => by
    simp only [vopsOK, Bool.and_eq_true] at hok
    by_cases hr : ∃ lo hi, o = .r lo hi
    · obtain ⟨lo, hi, rfl⟩ := hr
      simp only [vopOK, Bool.and_eq_true, decide_eq_true_eq] at hok
      have : ¬ lo > hi := by omega
      simp only [lowerVUnion, this, if_false] at hl
      have hstep : VDen (A.union (ES.vOpCharSet rer (.r lo hi))) { acc with cps := add acc.cps ⟨lo, hi⟩ } :=
        ⟨(den_add ha.den hok.1.1 hok.1.2).congr (fun x _ => by
            simp [ES.CharSet.union, ES.vOpCharSet, msf_noicase hic, ES.CharSet.range]),
          by simp [ES.CharSet.union, ES.vOpCharSet, msf_noicase hic, ES.CharSet.range, ha.strs], ha.alts⟩
      have := den_vUnion os _ result _ hstep hok.2 hl
      simp only [ES.vUnion]
      exact vden_assoc this ha.strs (by simp [ES.vOpCharSet, msf_noicase hic, ES.CharSet.range])
    · have hne : ∀ lo hi, o ≠ .r lo hi := fun lo hi h => hr ⟨lo, hi, h⟩
      rw [lowerVUnion_cons hne] at hl
      cases hf : lowerVOperand fl o with
      | error e => rw [hf] at hl; cases hl
      | ok x =>
        rw [hf] at hl
        have h1 := den_vOperand o x hok.1 hf
        have hstep := vden_unionOperand ha h1
        have := den_vUnion os _ result _ hstep hok.2 hl
        simp only [ES.vUnion]
        have hb : (ES.vOpCharSet rer o).strs = [] := by
          cases x with
          | char _ => exact h1.2.2
          | esc _ => exact h1.2
          | cls _ => exact h1.strs
          | strs _ => exact h1.elim
        exact vden_assoc this ha.strs hb
theorem den_vInter : ∀ (ops : List ES.VOp) (acc result : ClassSet) (A : ES.CharSet), VDen A acc →
    vopsOK fl.unicodeSets ops = true → lowerVInter fl ops acc = .ok result → VDen (ES.vInterFrom rer A ops) result
  | [], acc, result, A, ha, hok, hl => by
    simp only [lowerVInter, Except.ok.injEq] at hl; subst hl
    simpa [ES.vInterFrom] using ha
  | o :: os, acc, result, A, ha, hok, hl => by
    simp only [vopsOK, Bool.and_eq_true] at hok
    simp only [lowerVInter] at hl
    cases hf : lowerVOperand fl o with
    | error e => rw [hf] at hl; cases hl
    | ok x =>
      rw [hf] at hl
      simp only [hfi, closeClassSetOperand, Bool.not_false, if_true] at hl
      have h1 := den_vOperand o x hok.1 hf
      simp only [ES.vInterFrom]
      exact den_vInter os _ result _ (vden_intersectOperand ha h1) hok.2 hl
theorem den_vSub : ∀ (ops : List ES.VOp) (acc result : ClassSet) (A : ES.CharSet), VDen A acc →
    vopsOK fl.unicodeSets ops = true → lowerVSub fl ops acc = .ok result → VDen (ES.vSubFrom rer A ops) result
  | [], acc, result, A, ha, hok, hl => by
    simp only [lowerVSub, Except.ok.injEq] at hl; subst hl
    simpa [ES.vSubFrom] using ha
  | o :: os, acc, result, A, ha, hok, hl => by
    simp only [vopsOK, Bool.and_eq_true] at hok
    simp only [lowerVSub] at hl
    cases hf : lowerVOperand fl o with
    | error e => rw [hf] at hl; cases hl
    | ok x =>
      rw [hf] at hl
      simp only [hfi, closeClassSetOperand, Bool.not_false, if_true] at hl
      have h1 := den_vOperand o x hok.1 hf
      simp only [ES.vSubFrom]
      exact den_vSub os _ result _ (vden_subtractOperand ha h1) hok.2 hl
end

end


/-! ## The four class nodes -/

/-- Class-like atoms covered (without `i`): class escapes; properties of code points; brackets with
valid code points; class set expressions without strings. -/
def classSupported (fl : IR.Flags) : ES.Node → Bool
  | .esc _ => !fl.icase
  | .prop _ kind name => !fl.icase && propIsCharClass fl.unicodeSets kind name
  | .cls _ items => !fl.icase && items.all itemOK
  | .vcls _ _ ops => !fl.icase && vopsOK fl.unicodeSets ops
  | _ => false

theorem numGroups_mkBracket (inv : Bool) (s : IvList) : numGroups (mkBracket inv s) = 0 := by
  simp [mkBracket, numGroups]

theorem inRange_mkBracket (lo hi : Nat) (inv : Bool) (s : IvList) : InRange lo hi (mkBracket inv s) := by
  simp [mkBracket, InRange]

theorem node_noalts (s : ClassSet) (neg : Bool) (h : s.alts = []) : s.node false neg = mkBracket neg s.cps := by
  simp [ClassSet.node, absorb_nil h, ClassSet.nonemptyNode, h]

theorem lower_class_node {inp : Input} {cs : List Nat} (ht : Utf8Text inp cs) (pattern : ES.Node) (total : Nat) :
    ∀ (n : ES.Node) (fl : IR.Flags) (rer : ES.RER) (pi : Nat) (back : Bool) (ir : Node),
      FlagsRel rer fl → classSupported fl n = true → lowerNode pattern total n fl pi = .ok ir →
      ∃ ir', Parse.reverseCats back ir = .ok ir' ∧ NodeSim inp cs total pattern n rer pi back ir ir' := by
  intro n fl rer pi back ir hfl hs hl
  cases n with
  | esc e =>
    simp only [classSupported, Bool.not_eq_true'] at hs
    have hic : rer.ignoreCase = false := by rw [hfl.icase]; exact hs
    simp only [lowerNode, hs, makeBracketClass_noicase, Except.ok.injEq] at hl; subst hl
    apply NodeSim.leaf (reverseCats_mkBracket _ _ _) rfl (numGroups_mkBracket _ _) (inRange_mkBracket _ _ _ _)
    simp only [ES.compileNode]
    apply sim_bracket ht total rer hic _ false false _ back _ _ (Or.inr (classEscape_strs hic e))
    intro ch hch
    exact (bracketTest_den (den_classEscape hic e) false hch).symm
  | prop neg kind name =>
    simp only [classSupported, Bool.and_eq_true, Bool.not_eq_true', propIsCharClass] at hs
    have hic : rer.ignoreCase = false := by rw [hfl.icase]; exact hs.1
    simp only [lowerNode, lowerPropAtom] at hl
    split at hl
    · cases hl
    · cases hp : lowerProp fl.unicodeSets kind name with
      | error e => simp [hp] at hs
      | ok k =>
        cases k with
        | stringSet _ => simp [hp] at hs
        | charClass cps =>
          rw [hp] at hl
          simp only [hs.1, Bool.false_eq_true, if_false, Except.ok.injEq] at hl; subst hl
          obtain ⟨hpos, _, hstrs⟩ := den_propEscape (Or.inr hic) hp
          apply NodeSim.leaf (reverseCats_mkBracket _ _ _) rfl (numGroups_mkBracket _ _)
            (inRange_mkBracket _ _ _ _)
          simp only [ES.compileNode]
          apply sim_bracket ht total rer hic _ false neg _ back _ _ (Or.inr (hstrs neg))
          intro ch hch
          rw [bracketTest_den hpos neg hch]
          cases neg with
          | false => rfl
          | true =>
            simp [ES.propEscape, ES.characterComplement, ES.allCharacters, hic, hch]
  | cls neg items =>
    simp only [classSupported, Bool.and_eq_true, Bool.not_eq_true'] at hs
    have hic : rer.ignoreCase = false := by rw [hfl.icase]; exact hs.1
    simp only [lowerNode] at hl
    split at hl
    · cases hl
    · rename_i hus
      have hus' : rer.unicodeSets = false := by rw [hfl.unicodeSets]; simpa using hus
      simp only [lowerClass] at hl
      cases hc : lowerClassItems fl items [] with
      | error e => rw [hc] at hl; cases hl
      | ok cps =>
        rw [hc] at hl
        simp only [hs.1, Bool.false_eq_true, if_false, Except.ok.injEq] at hl; subst hl
        have hden := (den_classItems (Or.inr hic) fl false (by simp [hs.1]) (den_classEscape hic) items [] cps _
          den_empty hs.2 hc).congr
          (Q := (ES.classContentsCharSet rer items).chars) (fun c _ => by simp)
        apply NodeSim.leaf (reverseCats_mkBracket _ _ _) rfl (numGroups_mkBracket _ _)
          (inRange_mkBracket _ _ _ _)
        simp only [ES.compileNode]
        have hcc : ES.compileCharacterClass rer neg items = (ES.classContentsCharSet rer items, neg) := by
          cases neg <;> simp [ES.compileCharacterClass, hus']
        rw [hcc]
        apply sim_bracket ht total rer hic _ neg neg _ back _ _ (Or.inl hus')
        intro ch hch
        exact (bracketTest_den hden neg hch).symm
  | vcls neg op ops =>
    simp only [classSupported, Bool.and_eq_true, Bool.not_eq_true'] at hs
    have hic : rer.ignoreCase = false := by rw [hfl.icase]; exact hs.1
    simp only [lowerNode] at hl
    split at hl
    · cases hl
    · rename_i hus
      have hus' : rer.unicodeSets = true := by rw [hfl.unicodeSets]; simpa using hus
      simp only [lowerVClass] at hl
      have fin : ∀ r, VDen (ES.vExprCharSet rer op ops) r → ir = r.node fl.icase neg →
          ∃ ir', Parse.reverseCats back ir = .ok ir' ∧
            NodeSim inp cs total pattern (.vcls neg op ops) rer pi back ir ir' := by
        intro r hv hir
        subst hir
        rw [hs.1, node_noalts r neg hv.alts]
        apply NodeSim.leaf (reverseCats_mkBracket _ _ _) rfl (numGroups_mkBracket _ _)
          (inRange_mkBracket _ _ _ _)
        simp only [ES.compileNode]
        cases neg with
        | false =>
          have hcc : ES.compileVCharacterClass rer false op ops = (ES.vExprCharSet rer op ops, false) := by
            simp [ES.compileVCharacterClass]
          rw [hcc]
          apply sim_bracket ht total rer hic _ false false _ back _ _ (Or.inr hv.strs)
          intro ch hch
          exact (bracketTest_den hv.den false hch).symm
        | true =>
          have hcc : ES.compileVCharacterClass rer true op ops =
              (ES.characterComplement rer (ES.vExprCharSet rer op ops), false) := by
            simp [ES.compileVCharacterClass, hus']
          rw [hcc]
          apply sim_bracket ht total rer hic _ false true _ back _ _ (Or.inr rfl)
          intro ch hch
          rw [bracketTest_den hv.den true hch]
          simp [ES.characterComplement, ES.allCharacters, hic, hch]
      cases op with
      | union =>
        simp only at hl
        cases hr : lowerVUnion fl ops {} with
        | error e => rw [hr] at hl; cases hl
        | ok r =>
          rw [hr] at hl
          simp only at hl
          split at hl
          · cases hl
          simp only [Except.ok.injEq] at hl
          have h0 := den_vUnion hic fl hs.1 ops {} r ES.CharSet.empty vden_empty hs.2 hr
          exact fin r ⟨h0.den.congr (fun x _ => by simp [ES.vExprCharSet, ES.CharSet.union, ES.CharSet.empty]),
            strs_of_union_nil rfl h0.strs, h0.alts⟩ hl.symm
      | inter =>
        simp only at hl
        cases hr : lowerVInterStart fl ops with
        | error e => rw [hr] at hl; cases hl
        | ok r =>
          rw [hr] at hl
          simp only at hl
          split at hl
          · cases hl
          simp only [Except.ok.injEq] at hl
          exact fin r (den_vInterStart hic fl hs.1 ops r hs.2 hr) hl.symm
      | sub =>
        simp only at hl
        cases hr : lowerVSubStart fl ops with
        | error e => rw [hr] at hl; cases hl
        | ok r =>
          rw [hr] at hl
          simp only at hl
          split at hl
          · cases hl
          simp only [Except.ok.injEq] at hl
          exact fin r (den_vSubStart hic fl hs.1 ops r hs.2 hr) hl.symm
  | _ => simp [classSupported] at hs

end Regress.Lower
