import Proofs.Lemmas.KeystoneFrag
/-!
# Keystone, part 5c: `Loop1CharBody`
-/
namespace Regress.Keystone

open Regress.VM Regress.VM.Pk Regress.IR
open Regress.VM.Bt (LoopData GroupData)

/-- `max` is not the literal `usize::MAX` (which the engine reads as "unbounded"). -/
def quantBoundedQ (q : Quant) : Prop :=
  match q.max with
  | none => True
  | some m => m < USIZE_MAX

theorem state_eta (s : State) :
    ({ pos := s.pos, ip := s.ip, loop1Iters := s.loop1Iters, loops := s.loops, groups := s.groups } : State) = s := by
  cases s; rfl

/-- What `tryMatchState` answers on a `Loop1CharBody` whose body is the simple instruction with
effect `o` (`none`: the body fails). -/
def loop1SM (s : State) (mn : Nat) (mx : Option Nat) (gr : Bool) (o : Option Nat) (steps peak : Nat) : SM :=
  match (if Bt.ltMax s.loop1Iters mx then o else none), decide (s.loop1Iters ≥ mn) with
  | none, false => .fail s steps peak
  | none, true => .cont { s with ip := s.ip + 2, loop1Iters := 0 } steps peak
  | some tp, false => .cont { s with pos := tp, loop1Iters := s.loop1Iters + 1 } steps peak
  | some tp, true =>
    if gr then
      .split { s with ip := s.ip + 2, loop1Iters := 0 }
        { s with pos := tp, loop1Iters := s.loop1Iters + 1 } steps peak
    else
      .split { s with pos := tp, loop1Iters := s.loop1Iters + 1 }
        { s with ip := s.ip + 2, loop1Iters := 0 } steps peak

theorem tms_loop1 (prog : Prog) (inp : Input) (look : Runner) (d : Nat) (s : State) (fwd : Bool)
    (steps peak : Nat) {mn : Nat} {mx : Option Nat} {gr : Bool} {i : Insn}
    (h1 : prog.insns[s.ip]? = some (.loop1 mn mx gr)) (hi : prog.insns[s.ip + 1]? = some i)
    {o : Option Nat} (ho : insnOpt prog inp fwd (capsOfState s) s.pos i = some o) :
    (∃ e, tryMatchState prog inp look (d + 2) s fwd steps peak = .err e) ∨
      tryMatchState prog inp look (d + 2) s fwd steps peak = loop1SM s mn mx gr o steps peak := by
  have hs := tms_simple prog inp look d { s with ip := s.ip + 1 } fwd steps peak (i := i) hi
    (o := o) ho
  rw [tryMatchState]
  rw [h1]
  dsimp only
  unfold loop1SM
  cases hlt : Bt.ltMax s.loop1Iters mx with
  | false =>
    right
    simp only [Bool.false_eq_true, if_false]
    rfl
  | true =>
    simp only [if_true]
    cases o with
    | none =>
      rcases hs with ⟨p', hs⟩ | ⟨e, hs⟩
      · right
        rw [hs]
        rfl
      · left
        rw [hs]
        exact ⟨e, rfl⟩
    | some p =>
      simp only [SimpleOut] at hs
      right
      rw [hs]
      rfl

theorem ltMax_maxIters {q : Quant} (hq : quantBoundedQ q) (iter : Nat) :
    Bt.ltMax iter (maxIters q) = maxOk q iter := by
  unfold maxIters maxOk quantBoundedQ at *
  cases hm : q.max with
  | none => rfl
  | some m =>
    rw [hm] at hq
    have : (m == USIZE_MAX) = false := by
      simp only [beq_eq_false_iff_ne, ne_eq]; omega
    simp [this, Bt.ltMax]

section
variable {prog : Prog} {inp : Input} {limit : Nat} {cs : List Nat}

/-- The results of a `Loop1CharBody`: at the continuation, loop slots untouched. -/
def Out1 (e : Nat) (L : Array LoopData) (r : St) (t : State) : Prop :=
  Rel r t ∧ t.ip = e ∧ t.loops = L

theorem loop1_run {body : Node} {q : Quant} {fwd : Bool} {b : Nat} {i : Insn}
    (hq : quantBoundedQ q) (h1 : At prog.insns b (.loop1 q.min (maxIters q) q.greedy))
    (hi : At prog.insns (b + 1) i)
    (hspec : ∀ σ, Good cs σ → ∃ o, insnOpt prog inp fwd σ.caps σ.pos i = some o ∧
      sem inp body fwd σ = optSt σ o)
    (hstep : ∀ σ r, Good cs σ → r ∈ sem inp body fwd σ → Adv inp fwd σ.pos r.pos ∧ Good cs r) :
    ∀ (k iter : Nat) (σ : St) (s : State), s.pos = σ.pos → capsOfState s = σ.caps →
      s.loop1Iters = iter → Good cs σ → s.ip = b → mu inp fwd σ.pos + 1 ≤ k →
      ∀ (rest : Array State) (sf steps peak : Nat),
        Fine (runStates prog inp limit sf (rest.push s) fwd steps peak) →
        Tries prog inp limit fwd (Out1 (b + 2) s.loops) rest
          (loop1Iter (fun x => sem inp body fwd x) q k iter σ)
          (runStates prog inp limit sf (rest.push s) fwd steps peak) := by
  intro k
  induction k with
  | zero => intro iter σ s _ _ _ _ _ hk; omega
  | succ k ih =>
    intro iter σ s hpos hcaps hit hgood hip hk rest sf steps peak hf
    obtain ⟨o, ho, hsem⟩ := hspec σ hgood
    rw [← hcaps, ← hpos] at ho
    obtain ⟨sf1, rfl, hstp⟩ := fine_step prog inp limit hf
    rw [hstp] at hf ⊢
    have hsz : prog.insns.size + 1 = (prog.insns.size - 1) + 2 := by
      have : b < prog.insns.size := by
        unfold At at h1
        rcases Nat.lt_or_ge b prog.insns.size with h | h
        · exact h
        · rw [Array.getElem?_eq_none h] at h1; cases h1
      omega
    rw [hsz] at hf ⊢
    rcases tms_loop1 prog inp (lookOf prog inp limit sf1) (prog.insns.size - 1) s fwd (steps + 1)
      (if peak < rest.size + 1 then rest.size + 1 else peak)
      (by rw [hip]; exact h1) (by rw [hip]; exact hi) ho with ⟨e, he⟩ | he
    · rw [he] at hf; exact hf.elim
    rw [he] at hf ⊢
    unfold loop1SM at hf ⊢
    rw [ltMax_maxIters hq, hit] at hf ⊢
    simp only [loop1Iter, hsem]
    -- the recursive call
    have hrec : ∀ tp, o = some tp → ∀ (rest' : Array State) (sf' steps' peak' : Nat),
        Fine (runStates prog inp limit sf' (rest'.push { s with pos := tp, loop1Iters := iter + 1 }) fwd steps' peak') →
        Tries prog inp limit fwd (Out1 (b + 2) s.loops) rest'
          (loop1Iter (fun x => sem inp body fwd x) q k (iter + 1) { σ with pos := tp })
          (runStates prog inp limit sf' (rest'.push { s with pos := tp, loop1Iters := iter + 1 }) fwd steps' peak') := by
      intro tp hotp rest' sf' steps' peak' hf'
      have hmem : ({ σ with pos := tp } : St) ∈ sem inp body fwd σ := by rw [hsem, hotp]; simp [optSt]
      obtain ⟨hadv, hg'⟩ := hstep σ _ hgood hmem
      have := hadv.mu_lt
      exact ih (iter + 1) { σ with pos := tp } { s with pos := tp, loop1Iters := iter + 1 } rfl hcaps rfl hg'
        hip (by dsimp only at this ⊢; omega) rest' sf' steps' peak' hf'
    have hexit : Out1 (b + 2) s.loops σ { s with ip := s.ip + 2, loop1Iters := 0 } :=
      ⟨⟨hpos, hcaps, rfl⟩, by simp [hip], rfl⟩
    cases hmo : maxOk q iter with
    | false =>
      rw [hmo] at hf
      simp only [Bool.false_eq_true, if_false] at hf ⊢
      cases hge : decide (iter ≥ q.min) with
      | false => exact Tries.nil_of_eq rfl
      | true => exact Tries.single hexit rfl
    | true =>
      rw [hmo] at hf
      simp only [if_true] at hf ⊢
      cases o with
      | none =>
        simp only [optSt, List.head?_nil]
        cases hge : decide (iter ≥ q.min) with
        | false => exact Tries.nil_of_eq rfl
        | true => exact Tries.single hexit rfl
      | some tp =>
        simp only [optSt, List.head?_cons]
        cases hge : decide (iter ≥ q.min) with
        | false =>
          rw [hge] at hf
          exact hrec tp rfl rest sf1 _ _ hf
        | true =>
          rw [hge] at hf
          cases hgr : q.greedy with
          | true =>
            rw [hgr] at hf
            simp only [if_true, dispatch] at hf ⊢
            have e : rest.push { s with ip := s.ip + 2, loop1Iters := 0 } =
                rest ++ #[{ s with ip := s.ip + 2, loop1Iters := 0 }] := Array.push_eq_append
            rw [e] at hf ⊢
            refine Tries.append (fun sf' steps' peak' _ => ?_) hf (hrec tp rfl _ sf1 _ _ hf)
            rw [← e]
            exact Tries.single hexit rfl
          | false =>
            rw [hgr] at hf
            simp only [Bool.false_eq_true, if_false, dispatch] at hf ⊢
            refine ⟨#[{ s with pos := tp, loop1Iters := iter + 1 }], sf1, steps + 1,
              (if peak < rest.size + 1 then rest.size + 1 else peak),
              { s with ip := s.ip + 2, loop1Iters := 0 }, hexit, ?_, ?_⟩
            · rw [← Array.push_eq_append]
            · intro sf' steps' peak' hf'
              rw [← Array.push_eq_append] at hf' ⊢
              exact hrec tp rfl rest sf' steps' peak' hf'

end

end Regress.Keystone
