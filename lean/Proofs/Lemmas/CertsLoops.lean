import Proofs.Lemmas.CertsEmit
import Proofs.Lemmas.CertsNest2
import Proofs.Lemmas.TerminationBt
/-!
# Certificates, part 9: the loop certificates

For the layout of a root skeleton (`Lay prog.insns sk 0`, `sk.ok`, loop ids `Nodup`), hence for every
emitted program (`Root r prog sk`):

* `Root.loopsStructured` : `Sim.loopsStructured prog` (Frame.lean): loop bodies are entered only through
  their `EnterLoop`, the exit of a loop is outside its body, loop liveness is monotone along edges;
* `Root.lookInsnOk` : the per-instruction clause `Pk.lookInsnOk` of `Pk.lookLoopProg` (TerminationBt.lean):
  forward jumps/alternations, loop ids of their own, properly nested loops;
* `Root.loopProg_of_noLooks` : `Pk.loopProg prog` for programs without look-arounds.

No extra static hypothesis on `Sk` is needed.  Nothing unfinished.
-/
namespace Regress.Certs

open Regress.VM Regress.IR Regress.Keystone Regress.VM.Safety Regress.VM.Sim

private theorem imp_bool {a b : Bool} (h : a = true → b = true) : (!a || b) = true := by
  cases a <;> simp_all

private theorem imp_bool3 {c a b : Bool} (h : c = false → a = true → b = true) : (c || !a || b) = true := by
  cases c <;> cases a <;> simp_all

/-- A successor in the sense of `Sim.succs` is `j + 1` or a successor in the sense of `Safety.allSuccs`,
and the instruction is not an `EnterLoop`. -/
theorem succs_cases {prog : Prog} {j s : Nat} {i : Insn} (hat : prog.insns[j]? = some i)
    (hs : s ∈ succs prog j) :
    (∀ id mn mx gr ex, i ≠ .enterLoop id mn mx gr ex) ∧ (s = j + 1 ∨ s ∈ allSuccs prog j i) := by
  unfold succs at hs
  rw [hat] at hs
  cases i <;> simp [allSuccs] at hs ⊢ <;> omega

section Live
variable {prog : Prog} {G nb L : Nat} {sk : Sk} (hl : Lay prog.insns sk 0) (hsz : prog.insns.size = sk.size)
  (hok : sk.ok G nb L = true)
include hl hsz hok

/-- Liveness flows backwards along a fall-through edge, unless the instruction is the `EnterLoop`. -/
theorem live_of_next {id j : Nat} {i : Insn} (hat : At prog.insns j i)
    (hne : ∀ id mn mx gr ex, i ≠ .enterLoop id mn mx gr ex) (h : live prog id (j + 1) = true) :
    live prog id j = true := by
  rw [live_iff hl hsz hok] at h ⊢
  obtain ⟨e, mn, mx, gr, g0, cnt, body, hs, h1, h2⟩ := h
  refine ⟨e, mn, mx, gr, g0, cnt, body, hs, ?_⟩
  have := (Sub.loop_at hl hs).1
  by_cases he : e = j
  · subst he; exact absurd (at_inj hat this) (hne _ _ _ _ _)
  · omega

/-- Liveness flows backwards along every edge (single entry of loop occurrences). -/
theorem live_of_succ {id j s : Nat} {i : Insn} (hat : At prog.insns j i)
    (hne : ∀ id mn mx gr ex, i ≠ .enterLoop id mn mx gr ex) (hs : s ∈ allSuccs prog j i)
    (h : live prog id s = true) : live prog id j = true := by
  rw [live_iff hl hsz hok] at h ⊢
  obtain ⟨e, mn, mx, gr, g0, cnt, body, hsub, h1, h2⟩ := h
  refine ⟨e, mn, mx, gr, g0, cnt, body, hsub, ?_⟩
  have hj : j < 0 + sk.size := by have := At.lt hat; omega
  have hin : e ≤ j ∧ j < e + (Sk.loop id mn mx gr g0 cnt body).size := by
    apply Classical.byContradiction
    intro hn
    exact Lay.entry_sub hsub hl hok j (Nat.zero_le _) hj hn i hat s hs
      ⟨h1, by simp only [Sk.size]; omega⟩
  simp only [Sk.size] at hin
  have := (Sub.loop_at hl hsub).1
  by_cases he : e = j
  · subst he; exact absurd (at_inj hat this) (hne _ _ _ _ _)
  · omega

/-- The clauses of `loopsStructured` for an `EnterLoop`. -/
theorem enter_facts (hnd : sk.lids.Nodup) {j id mn : Nat} {mx : Option Nat} {gr : Bool} {ex : Nat}
    (hat : At prog.insns j (.enterLoop id mn mx gr ex)) :
    live prog id ex = false ∧ (∀ id2, live prog id2 ex = true → live prog id2 j = true) ∧
    (∀ id2, id2 ≠ id → live prog id2 (j + 1) = true → live prog id2 j = true) := by
  have hj : j < 0 + sk.size := by have := At.lt hat; omega
  obtain ⟨g0, cnt, body, hsub, hex⟩ := Lay.enter_inv hl hok (Nat.zero_le _) hj hat
  refine ⟨?_, ?_, ?_⟩
  · cases hlv : live prog id ex with
    | false => rfl
    | true =>
      obtain ⟨e, mn2, mx2, gr2, g2, cnt2, body2, hs2, h1, h2⟩ := (live_iff hl hsz hok).1 hlv
      obtain ⟨rfl, heq⟩ := Sub.loop_unique hnd hs2 hsub
      cases heq
      omega
  · intro id2 hlv
    rw [live_iff hl hsz hok] at hlv ⊢
    obtain ⟨e, mn2, mx2, gr2, g2, cnt2, body2, hs2, h1, h2⟩ := hlv
    refine ⟨e, mn2, mx2, gr2, g2, cnt2, body2, hs2, ?_⟩
    have hat2 := (Sub.loop_at hl hs2).1
    rcases Sub.laminar hsub hs2 with h | h | h | h
    · have := h.range; simp only [Sk.size] at this; omega
    · have := h.range; simp only [Sk.size] at this
      by_cases he : e = j
      · subst he
        have := at_inj hat hat2
        simp only [Insn.enterLoop.injEq] at this
        omega
      · omega
    · simp only [Sk.size] at h; omega
    · simp only [Sk.size] at h; omega
  · intro id2 hne hlv
    rw [live_iff hl hsz hok] at hlv ⊢
    obtain ⟨e, mn2, mx2, gr2, g2, cnt2, body2, hs2, h1, h2⟩ := hlv
    refine ⟨e, mn2, mx2, gr2, g2, cnt2, body2, hs2, ?_⟩
    have hat2 := (Sub.loop_at hl hs2).1
    by_cases he : e = j
    · subst he
      have := at_inj hat hat2
      simp only [Insn.enterLoop.injEq] at this
      exact absurd this.1.symm hne
    · omega

/-- The clauses of `loopsStructured` for a `LoopAgain`. -/
theorem again_facts {j b id mn : Nat} {mx : Option Nat} {gr : Bool} {ex : Nat}
    (hat : At prog.insns j (.loopAgain b)) (hb : At prog.insns b (.enterLoop id mn mx gr ex)) :
    b < j ∧ ex = j + 1 ∧ (∀ id2, live prog id2 ex = true → live prog id2 j = true) ∧
    (∀ id2, id2 ≠ id → live prog id2 (b + 1) = true → live prog id2 j = true) := by
  have hj : j < 0 + sk.size := by have := At.lt hat; omega
  obtain ⟨id', mn', mx', gr', g0, cnt, body, hsub, hjx⟩ := Lay.again_inv hl hok (Nat.zero_le _) hj hat
  have hb' := (Sub.loop_at hl hsub).1
  have := at_inj hb hb'
  simp only [Insn.enterLoop.injEq] at this
  obtain ⟨rfl, rfl, rfl, rfl, hex⟩ := this
  refine ⟨by omega, by omega, ?_, ?_⟩
  · intro id2 hlv
    have hex' : ex = j + 1 := by omega
    rw [hex'] at hlv
    exact live_of_next hl hsz hok hat (by intro _ _ _ _ _ h; cases h) hlv
  · intro id2 hne hlv
    rw [live_iff hl hsz hok] at hlv ⊢
    obtain ⟨e, mn2, mx2, gr2, g2, cnt2, body2, hs2, h1, h2⟩ := hlv
    refine ⟨e, mn2, mx2, gr2, g2, cnt2, body2, hs2, ?_⟩
    have hat2 := (Sub.loop_at hl hs2).1
    by_cases he : e = b
    · subst he
      have := at_inj hb hat2
      simp only [Insn.enterLoop.injEq] at this
      exact absurd this.1.symm hne
    · rcases Sub.laminar hsub hs2 with h | h | h | h
      · have := h.range; simp only [Sk.size] at this; omega
      · have := h.range; simp only [Sk.size] at this; omega
      · simp only [Sk.size] at h; omega
      · simp only [Sk.size] at h; omega

/-- **`Sim.loopsStructured` of a root layout.** -/
theorem loopsStructured_of_lay (hnd : sk.lids.Nodup) : loopsStructured prog = true := by
  simp only [loopsStructured, List.all_eq_true, List.mem_range, Bool.and_eq_true]
  intro j hj
  obtain ⟨i, hi⟩ := hl.get j (Nat.zero_le _) (by omega)
  refine ⟨?_, ?_⟩
  · intro s hs id _
    apply imp_bool
    intro hlv
    obtain ⟨hne, h | h⟩ := succs_cases hi hs
    · subst h; exact live_of_next hl hsz hok hi hne hlv
    · exact live_of_succ hl hsz hok hi hne h hlv
  · rw [hi]
    cases i with
    | enterLoop id mn mx gr ex =>
      obtain ⟨h1, h2, h3⟩ := enter_facts hl hsz hok hnd hi
      simp only [Bool.and_eq_true, List.all_eq_true, Bool.not_eq_true']
      refine ⟨h1, fun id2 _ => ⟨imp_bool (h2 id2), imp_bool3 ?_⟩⟩
      intro hne
      exact h3 id2 (by simpa using hne)
    | loopAgain b =>
      simp only
      cases hb : prog.insns[b]? with
      | none => rfl
      | some ib =>
        cases ib with
        | enterLoop id mn mx gr ex =>
          obtain ⟨h0, _, h2, h3⟩ := again_facts hl hsz hok hi hb
          simp only [Bool.and_eq_true, List.all_eq_true, decide_eq_true_eq]
          refine ⟨h0, fun id2 _ => ⟨imp_bool (h2 id2), imp_bool3 ?_⟩⟩
          intro hne
          exact h3 id2 (by simpa using hne)
        | _ => rfl
    | _ => rfl

/-- **`Pk.lookInsnOk` of every instruction of a root layout.** -/
theorem lookInsnOk_of_lay (hnd : sk.lids.Nodup) {j : Nat} {i : Insn} (hat : prog.insns[j]? = some i) :
    Pk.lookInsnOk prog j i = true := by
  have hat' : At prog.insns j i := hat
  have hj : j < 0 + sk.size := by have := At.lt hat'; omega
  have hr := hl.role j (Nat.zero_le _) hj i hat
  cases hr with
  | one h =>
    have := Sub.one_plain hl hok h
    cases i <;> simp [plain] at this <;> simp [Pk.lookInsnOk, Pk.loopInsnOk]
  | l1Body h _ =>
    have := Sub.l1_plain hl hok h
    cases i <;> simp [plain] at this <;> simp [Pk.lookInsnOk, Pk.loopInsnOk]
  | altHead h => simp only [Pk.lookInsnOk, Pk.loopInsnOk, decide_eq_true_eq]; omega
  | altJump h hx => simp only [Pk.lookInsnOk, Pk.loopInsnOk, decide_eq_true_eq]; omega
  | loopHead h =>
    simp only [Pk.lookInsnOk, Pk.loopInsnOk, Bool.and_eq_true, decide_eq_true_eq, List.all_eq_true,
      List.mem_range, Bool.or_eq_true, beq_iff_eq]
    refine ⟨by omega, ?_⟩
    intro j' hj'
    by_cases hjj : j' = j
    · exact Or.inl hjj
    · right
      cases hi' : prog.insns[j']? with
      | none => rfl
      | some i' =>
        cases i' with
        | enterLoop id' mn' mx' gr' ex' =>
          simp only [bne_iff_ne, ne_eq]
          intro heq
          subst heq
          obtain ⟨g0', cnt', body', hs', _⟩ := Lay.enter_inv hl hok (Nat.zero_le _) (by omega) hi'
          exact hjj (Sub.loop_unique hnd hs' h).1
        | _ => rfl
  | loopReset _ _ _ => rfl
  | @loopAgain id mn mx gr g0 cnt body b' h hx =>
    have hb := (Sub.loop_at hl h).1
    unfold At at hb
    simp only [Pk.lookInsnOk, Pk.loopInsnOk, hb, Bool.and_eq_true, decide_eq_true_eq, List.all_eq_true,
      List.mem_range]
    refine ⟨by omega, by omega, ?_⟩
    intro j'' hj''
    cases hi' : prog.insns[j'']? with
    | none => rfl
    | some i' =>
      cases i' with
      | enterLoop id' mn' mx' gr' ex' =>
        obtain ⟨g0', cnt', body', hs', hex'⟩ := Lay.enter_inv hl hok (Nat.zero_le _) (by omega) hi'
        apply imp_bool
        simp only [decide_eq_true_eq]
        intro hlt
        rcases Sub.laminar h hs' with hh | hh | hh | hh
        · have := hh.range; omega
        · have := hh.range; simp only [Sk.size] at this; omega
        · simp only [Sk.size] at hh; omega
        · simp only [Sk.size] at hh; omega
      | _ => rfl
  | l1Head _ => rfl
  | grpBegin _ => rfl
  | grpEnd _ _ => rfl
  | @lookHead neg bw sg eg body h => cases bw <;> rfl
  | lookGoal _ _ => rfl

end Live

/-! ## The certificates of an emitted program -/

theorem Root.lids_nodup_loops {r : Regex} {prog : Prog} {sk : Sk} (R : Root r prog sk) : sk.lids.Nodup := by
  rw [R.lids]; exact List.nodup_range

/-- **`Sim.loopsStructured` holds of every emitted program.** -/
theorem Root.loopsStructured {r : Regex} {prog : Prog} {sk : Sk} (R : Root r prog sk) :
    Sim.loopsStructured prog = true :=
  loopsStructured_of_lay R.lay R.size R.ok R.lids_nodup_loops

/-- **`Pk.lookInsnOk` holds of every instruction of every emitted program.** -/
theorem Root.lookInsnOk {r : Regex} {prog : Prog} {sk : Sk} (R : Root r prog sk) :
    ∀ j i, prog.insns[j]? = some i → Pk.lookInsnOk prog j i = true :=
  fun _ _ h => lookInsnOk_of_lay R.lay R.size R.ok R.lids_nodup_loops h

theorem loopInsnOk_of_lookInsnOk {prog : Prog} {j : Nat} {i : Insn} (h : Pk.lookInsnOk prog j i = true)
    (hn : Bt.lookOf i = none) : Pk.loopInsnOk prog j i = true := by
  cases i <;> first | exact h | simp [Bt.lookOf] at hn

/-- **`Pk.loopProg` holds of every emitted program without look-arounds.** -/
theorem Root.loopProg_of_noLooks {r : Regex} {prog : Prog} {sk : Sk} (R : Root r prog sk)
    (hn : ∀ (j : Nat) (i : Insn), prog.insns[j]? = some i → Bt.lookOf i = none) : Pk.loopProg prog = true := by
  simp only [Pk.loopProg, List.all_eq_true, List.mem_range]
  intro j hj
  cases hi : prog.insns[j]? with
  | none => rfl
  | some i => exact loopInsnOk_of_lookInsnOk (R.lookInsnOk j i hi) (hn j i hi)

/-! ## Non-vacuity: a concrete layout (a loop around a look-ahead and an inner loop) -/

/-- `(?:(?=a)b*)*` by hand: `EnterLoop 0; Lookahead; 'a'; Goal; EnterLoop 1; 'b'; LoopAgain 4; LoopAgain 0; Goal`. -/
def loopsExProg : Prog :=
  { (default : Prog) with
    loops := 2
    insns := #[.enterLoop 0 0 none true 8, .lookahead false 0 0 4, .char 97, .goal,
      .enterLoop 1 0 none true 7, .char 98, .loopAgain 4, .loopAgain 0, .goal] }

def loopsExSk : Sk :=
  .seq (.loop 0 0 none true 0 0 (.seq (.look false false 0 0 (.one (.char 97)))
    (.loop 1 0 none true 0 0 (.one (.char 98))))) (.one .goal)

theorem loopsExLay : Lay loopsExProg.insns loopsExSk 0 := by
  simp only [loopsExSk, Lay, Sk.size, At, lookI]
  refine ⟨⟨?_, ?_, ⟨⟨?_, ?_, ?_⟩, ?_, ?_, ?_, ?_⟩, ?_⟩, ?_⟩ <;> first | rfl | (intro i hi; omega)

example : loopsStructured loopsExProg = true :=
  loopsStructured_of_lay (G := 0) (nb := 0) (L := 2) loopsExLay rfl rfl (by decide)

example : ∀ (j : Nat) (i : Insn), loopsExProg.insns[j]? = some i → Pk.lookInsnOk loopsExProg j i = true :=
  fun _ _ h => lookInsnOk_of_lay (G := 0) (nb := 0) (L := 2) loopsExLay rfl rfl (by decide) h

end Regress.Certs
