import RegressModel.Api.Iter
/-!
# Specification vocabulary for C09 (the match iterator)

Only definitions; the lemmas are in `Proofs/Lemmas/Iter.lean`, the property theorems in
`Proofs/C09.lean`.
-/
namespace Regress.C09
open Regress.Api

/-- `Reach env p q`: `q` is obtained from `p` by zero or more `next_right_pos` steps
(the char boundaries at or after `p`, when `p` is a boundary). -/
inductive Reach (env : SearchEnv) : Nat → Nat → Prop
  | refl (p : Nat) : Reach env p p
  | step {p q r : Nat} : env.nextRightPos p = some q → Reach env q r → Reach env p r

/-- The positions `p, next p, next (next p), …` (at most `fuel` of them). -/
def orbitFuel (env : SearchEnv) : Nat → Nat → List Nat
  | 0, _ => []
  | fuel + 1, p =>
    p :: (match env.nextRightPos p with
          | none => []
          | some q => orbitFuel env fuel q)

/-- All positions reachable from `p` (see `mem_orbit_iff`). -/
def orbit (env : SearchEnv) (p : Nat) : List Nat := orbitFuel env (env.len + 1) p

/-- The first match at or after `cursor`: the first position `s` of the orbit of `cursor` at which a
match attempt succeeds, with the end and the captures of that attempt. -/
def first (env : SearchEnv) (cursor : Nat) : Option (Nat × Nat × Caps) :=
  (orbit env cursor).findSome? (fun s => (env.attempt s).map (fun ec => (s, ec.1, ec.2)))

/-- Where to look for the next match after the match `[s, e)`: at `e`, except that after an empty
match one char is skipped (and there is no next match if there is no char to skip). -/
def advance (env : SearchEnv) (s e : Nat) : Option Nat :=
  if e ≠ s then some e else env.nextRightPos e

/-- The list of matches as an unfold of `first` / `advance` from a cursor. -/
def unfoldFuel (env : SearchEnv) : Nat → Option Nat → List MatchR
  | 0, _ => []
  | _ + 1, none => []
  | fuel + 1, some cursor =>
    match first env cursor with
    | none => []
    | some (s, e, caps) =>
      { range := (s, e), captures := caps, names := env.names } ::
        unfoldFuel env fuel (advance env s e)

/-- `unfoldIter env start`: the specification of `find_from(text, start)` drained. -/
def unfoldIter (env : SearchEnv) (start : Nat) : List MatchR :=
  unfoldFuel env (env.len + 2) (if start ≤ env.len then some start else none)

/-- `ChainFrom len lb ms`: the matches `ms` lie in `[lb, len]`, each is a well-formed range, and
each starts at or after the end of its predecessor — strictly after it when the predecessor is
empty. (Decidable; this is the "increasing and disjoint" invariant of the iterator.) -/
def ChainFrom (len : Nat) : Nat → List MatchR → Prop
  | _, [] => True
  | lb, m :: ms =>
    lb ≤ m.range.1 ∧ m.range.1 ≤ m.range.2 ∧ m.range.2 ≤ len ∧
      ChainFrom len (if m.range.1 = m.range.2 then m.range.2 + 1 else m.range.2) ms

instance ChainFrom.dec (len : Nat) : (lb : Nat) → (ms : List MatchR) → Decidable (ChainFrom len lb ms)
  | _, [] => isTrue trivial
  | lb, m :: ms =>
    have := ChainFrom.dec len (if m.range.1 = m.range.2 then m.range.2 + 1 else m.range.2) ms
    by unfold ChainFrom; infer_instance

/-- A relation holds between all consecutive elements of a list. -/
def Consec {α : Type} (R : α → α → Prop) : List α → Prop
  | [] => True
  | [_] => True
  | a :: b :: l => R a b ∧ Consec R (b :: l)

/-- The relation between consecutive iterator results: disjoint and strictly progressing. -/
def Succeeds (a b : MatchR) : Prop :=
  a.range.2 ≤ b.range.1 ∧ a.range.1 < b.range.1 ∧ (a.range.1 = a.range.2 → a.range.2 < b.range.1)

/-- Admissibility of a prefix search (`find_bytes` with the regex's start predicate) w.r.t. the
matcher, for start positions `p ≤ len`:
* the position it returns is one of the positions the plain scan would visit,
* no match attempt succeeds at a position it skips,
* if it finds nothing, no match attempt succeeds at or after `p`. -/
structure PrefilterAdmissible (env : SearchEnv) : Prop where
  some_reach : ∀ p q, p ≤ env.len → env.findBytes p = some q → Reach env p q
  some_skip : ∀ p q r, p ≤ env.len → env.findBytes p = some q →
    Reach env p r → r < q → env.attempt r = none
  none_skip : ∀ p r, p ≤ env.len → env.findBytes p = none → Reach env p r → env.attempt r = none

end Regress.C09
