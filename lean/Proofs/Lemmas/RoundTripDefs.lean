import Proofs.Lemmas.RoundTripBase
/-!
# Round trip, part 2: what the descent proves about every node

For a fixed pattern `P` with `T` capture groups, the four statements about a node `n` printed in the
four contexts of `Print.pr`:

* `AtomR n`: `consumeAtom` on `pr .atom n ++ rest` appends the IR `lowerNode … n` and advances the
  parser state by `n` (`adv`);
* `TermR n`: one iteration of the term loop on `pr .term n ++ rest` (atom and optional quantifier);
* `AltR n`: the term loop on `pr .alt n ++ rest`, up to the end of the alternative;
* `DisjR n`: `consume_disjunction` on `pr .disj n ++ rest`;

and `TermsR ns`, `AltsR ns` for the children of a `cat` / `alt`.  The generic implications between
them (`term_of_atom`, `alt_of_term`, `disj_of_alt`, `atom_of_disj`) are here; the constructor cases are in
`RoundTripAtoms.lean`, `RoundTripGroups.lean`, …, and the induction in `RoundTripDescent.lean`.
-/
namespace Regress.RoundTrip
open Regress Regress.IR Regress.Parse Regress.Lower Regress.Print

/-! ## Parser states -/

theorem pstate_ext {a b : PState} (h1 : a.input = b.input) (h2 : a.flags = b.flags)
    (h3 : a.loopCount = b.loopCount) (h4 : a.groupCount = b.groupCount)
    (h5 : a.groupCountMax = b.groupCountMax) (h6 : a.named = b.named)
    (h7 : a.hasLookbehind = b.hasLookbehind) (h8 : a.depth = b.depth) : a = b := by
  cases a; cases b; simp_all

/-- The parser state after the text of `n`: the groups and loops of `n` are counted, a look-behind in
`n` is remembered, `rest` remains. -/
def adv (st : PState) (n : ES.Node) (rest : List Nat) : PState :=
  { st with input := rest, groupCount := st.groupCount + ES.countParens n,
            loopCount := st.loopCount + countLoops n,
            hasLookbehind := st.hasLookbehind || hasLookbehind n }

/-- `named_group_indices` is what the AST says: the (0-based) indices of the groups of each name, in
pattern order. -/
def NamedR (P : ES.Node) (named : List (List Nat × List Nat)) : Prop :=
  ∀ name, ∃ l, l.map (· + 1) = ES.groupSpecifiersThatMatch P name ∧
    mapGet named name = if l.isEmpty then none else some l

/-- The fields of the parser state that the pre-scan fixed. -/
structure PInv (P : ES.Node) (T : Nat) (st : PState) : Prop where
  gcm : st.groupCountMax = T
  bound : T ≤ Gen.MAX_CAPTURE_GROUPS
  named : NamedR P st.named

theorem PInv.of_eq {P : ES.Node} {T : Nat} {st st' : PState} (h : PInv P T st)
    (h1 : st'.groupCountMax = st.groupCountMax) (h2 : st'.named = st.named) : PInv P T st' :=
  ⟨by rw [h1]; exact h.gcm, h.bound, by rw [h2]; exact h.named⟩

/-- The three resource limits leave room for `d` more nesting levels, `l` more loops, `g` more
groups. -/
structure Lim (st : PState) (d l g : Nat) : Prop where
  depth : st.depth + d ≤ Gen.MAX_NESTING_DEPTH
  loops : st.loopCount + l ≤ Gen.MAX_LOOPS
  groups : st.groupCount + g ≤ Gen.MAX_CAPTURE_GROUPS

/-! ## Nesting depth of the printed text -/

mutual
/-- How many levels of `self.depth` the text `pr ctx n` adds. -/
def prDepth (ctx : Ctx) : ES.Node → Nat
  | .empty =>
    match ctx with
    | .disj => 0
    | .alt => 0
    | _ => 1
  | .cat ns =>
    match ctx with
    | .disj => prDepthTerms ns
    | .alt => prDepthTerms ns
    | _ => 1 + prDepthTerms ns
  | .alt ns =>
    match ctx with
    | .disj => prDepthAlts ns
    | _ => 1 + prDepthAlts ns
  | .group _ _ n => 1 + prDepth .disj n
  | .nc n => 1 + prDepth .disj n
  | .mod _ _ n => 1 + prDepth .disj n
  | .look _ _ n => 1 + prDepth .disj n
  | .quant _ _ _ n =>
    match ctx with
    | .atom => 1 + prDepth .atom n
    | _ => prDepth .atom n
  | .vcls _ _ ops => vNestList ops
  | _ => 0
def prDepthTerms : List ES.Node → Nat
  | [] => 0
  | n :: ns => max (prDepth .term n) (prDepthTerms ns)
def prDepthAlts : List ES.Node → Nat
  | [] => 0
  | n :: ns => max (prDepth .alt n) (prDepthAlts ns)
end

/-! ## The statements -/

section
variable (P : ES.Node) (T : Nat)

def AtomR (n : ES.Node) : Prop :=
  ∀ (st : PState) (x : Node) (rest : List Nat) (result : List Node) (f c : Nat),
    lowerNode P T n st.flags st.groupCount = .ok x →
    st.input = pr .atom n ++ rest → st.input.head? = some c → NoDigit rest →
    PInv P T st → Lim st (prDepth .atom n) (countLoops n) (ES.countParens n) → lexOK n = true →
    4 * (pr .atom n).length ≤ f →
    consumeAtom f st result c =
      .ok ⟨result ++ [x], adv st n rest, result.length, quantifiable st.flags n⟩

def TermR (n : ES.Node) : Prop :=
  ∀ (st : PState) (x : Node) (rest : List Nat) (result : List Node) (f : Nat),
    lowerNode P T n st.flags st.groupCount = .ok x →
    st.input = pr .term n ++ rest → Follow rest →
    PInv P T st → Lim st (prDepth .term n) (countLoops n) (ES.countParens n) → lexOK n = true →
    4 * (pr .term n).length ≤ f →
    termLoop (f + 1) st result = termLoop f (adv st n rest) (result ++ [x])

def TermsR (ns : List ES.Node) : Prop :=
  ∀ (st : PState) (xs : List Node) (rest : List Nat) (result : List Node) (f : Nat),
    lowerList P T ns st.flags st.groupCount = .ok xs →
    st.input = prTerms ns ++ rest → Stop rest →
    PInv P T st → Lim st (prDepthTerms ns) (countLoopsList ns) (ES.countParensList ns) →
    lexOKList ns = true →
    4 * (prTerms ns).length + 1 ≤ f →
    termLoop f st result = .ok (makeCat (result ++ xs), adv st (.cat ns) rest)

def AltR (n : ES.Node) : Prop :=
  ∀ (st : PState) (x : Node) (rest : List Nat) (f : Nat),
    lowerNode P T n st.flags st.groupCount = .ok x →
    st.input = pr .alt n ++ rest → Stop rest →
    PInv P T st → Lim st (prDepth .alt n) (countLoops n) (ES.countParens n) → lexOK n = true →
    4 * (pr .alt n).length + 1 ≤ f →
    termLoop f st [] = .ok (x, adv st n rest)

def AltsR (ns : List ES.Node) : Prop :=
  ∀ (st : PState) (xs : List Node) (rest : List Nat) (terms : List Node) (f : Nat),
    ns ≠ [] →
    lowerList P T ns st.flags st.groupCount = .ok xs →
    st.input = prAlts ns ++ rest → StopD rest →
    PInv P T st → Lim st (prDepthAlts ns) (countLoopsList ns) (ES.countParensList ns) →
    lexOKList ns = true →
    4 * (prAlts ns).length + 2 ≤ f →
    disjLoop f st terms = .ok (terms ++ xs, adv st (.alt ns) rest)

def DisjR (n : ES.Node) : Prop :=
  ∀ (st : PState) (x : Node) (rest : List Nat) (f : Nat),
    lowerNode P T n st.flags st.groupCount = .ok x →
    st.input = pr .disj n ++ rest → StopD rest →
    PInv P T st → Lim st (1 + prDepth .disj n) (countLoops n) (ES.countParens n) → lexOK n = true →
    4 * (pr .disj n).length + 3 ≤ f →
    consumeDisjunction f st = .ok (x, adv st n rest)

/-- Everything about one node. -/
structure NodeR (n : ES.Node) : Prop where
  atom : AtomR P T n
  term : TermR P T n
  alt : AltR P T n
  disj : DisjR P T n

end

/-! ## `adv` -/

@[simp] theorem adv_input (st : PState) (n : ES.Node) (rest : List Nat) : (adv st n rest).input = rest := rfl
@[simp] theorem adv_flags (st : PState) (n : ES.Node) (rest : List Nat) : (adv st n rest).flags = st.flags := rfl
@[simp] theorem adv_gcm (st : PState) (n : ES.Node) (rest : List Nat) :
    (adv st n rest).groupCountMax = st.groupCountMax := rfl
@[simp] theorem adv_named (st : PState) (n : ES.Node) (rest : List Nat) : (adv st n rest).named = st.named := rfl
@[simp] theorem adv_depth (st : PState) (n : ES.Node) (rest : List Nat) : (adv st n rest).depth = st.depth := rfl
@[simp] theorem adv_gc (st : PState) (n : ES.Node) (rest : List Nat) :
    (adv st n rest).groupCount = st.groupCount + ES.countParens n := rfl
@[simp] theorem adv_lc (st : PState) (n : ES.Node) (rest : List Nat) :
    (adv st n rest).loopCount = st.loopCount + countLoops n := rfl
@[simp] theorem adv_hlb (st : PState) (n : ES.Node) (rest : List Nat) :
    (adv st n rest).hasLookbehind = (st.hasLookbehind || hasLookbehind n) := rfl

theorem PInv.adv {P : ES.Node} {T : Nat} {st : PState} (h : PInv P T st) (n : ES.Node) (rest : List Nat) :
    PInv P T (adv st n rest) := h.of_eq rfl rfl

/-- A node without groups, loops and look-behinds only moves the input. -/
theorem adv_leaf (st : PState) {n : ES.Node} (rest : List Nat) (h1 : ES.countParens n = 0)
    (h2 : countLoops n = 0) (h3 : hasLookbehind n = false) : adv st n rest = { st with input := rest } := by
  apply pstate_ext <;> simp [h1, h2, h3]

/-! ## The generic implications -/

section
variable {P : ES.Node} {T : Nat}

/-- An atom that is not quantified is a term. -/
theorem term_of_atom {n : ES.Node} (ha : AtomR P T n) (hp : pr .term n = pr .atom n)
    (hd : prDepth .term n = prDepth .atom n) (hs : HeadS (pr .atom n)) : TermR P T n := by
  intro st x rest result f hl hin hfol hinv hlim hlex hf
  rw [hp] at hin hf
  rw [hd] at hlim
  obtain ⟨c, tl, hc, hsc⟩ := hs
  have hin' : st.input = c :: (tl ++ rest) := by rw [hin, hc]; rfl
  simp only [startC, followC, Bool.and_eq_true, bne_iff_ne, ne_eq] at hsc
  have h29 : c ≠ 0x29 := hsc.1.2
  have h7c : c ≠ 0x7C := hsc.2
  have hat := ha st x rest result f c hl hin (by rw [hin']; rfl) hfol.noDigit hinv hlim hlex hf
  have hb : (c == 0x29 || c == 0x7C) = false := by simp [h29, h7c]
  rw [termLoop]
  simp only [hin', hb, Bool.false_eq_true, if_false]
  rw [hat]
  simp only [adv_input, adv_flags, quantifier_none _ hfol]
  rfl

/-- A term that is not a sequence is an alternative of one term. -/
theorem alt_of_term {n : ES.Node} (ht : TermR P T n) (hp : pr .alt n = pr .term n)
    (hd : prDepth .alt n = prDepth .term n) (hs : HeadS (pr .term n)) : AltR P T n := by
  intro st x rest f hl hin hstop hinv hlim hlex hf
  rw [hp] at hin hf
  rw [hd] at hlim
  have hlen : 1 ≤ (pr .term n).length := by
    obtain ⟨c, tl, hc, _⟩ := hs
    rw [hc]; simp
  obtain ⟨f', rfl⟩ : ∃ f', f = f' + 1 := ⟨f - 1, by omega⟩
  rw [ht st x rest [] f' hl hin hstop.follow hinv hlim hlex (by omega)]
  obtain ⟨f'', rfl⟩ : ∃ f'', f' = f'' + 1 := ⟨f' - 1, by omega⟩
  rw [termLoop]
  rcases hstop with h | ⟨t, h | h⟩
  · simp [h, makeCat]
  · simp [h, makeCat]
  · simp [h, makeCat]

/-- An alternative that is not a disjunction is a disjunction of one alternative. -/
theorem disj_of_alt {n : ES.Node} (ha : AltR P T n) (hp : pr .disj n = pr .alt n)
    (hd : prDepth .disj n = prDepth .alt n) : DisjR P T n := by
  intro st x rest f hl hin hstop hinv hlim hlex hf
  rw [hp] at hin hf
  rw [hd] at hlim
  obtain ⟨f', rfl⟩ : ∃ f', f = f' + 1 + 1 := ⟨f - 2, by omega⟩
  have hnd : ¬ (st.depth + 1 > Gen.MAX_NESTING_DEPTH) := by have := hlim.depth; omega
  rw [consumeDisjunction]
  simp only [hnd, if_false]
  rw [disjLoop]
  have h1 := ha { st with depth := st.depth + 1 } x rest f' hl hin hstop.stop
    (hinv.of_eq rfl rfl) ⟨by have := hlim.depth; simp only; omega, hlim.loops, hlim.groups⟩ hlex (by omega)
  rw [h1]
  have htc : tryConsume 0x7C (adv { st with depth := st.depth + 1 } n rest) =
      (false, adv { st with depth := st.depth + 1 } n rest) := by
    rcases hstop with h | ⟨t, h⟩
    · simp [tryConsume, h]
    · simp [tryConsume, h]
  simp only [List.nil_append, htc, makeAlt, makeAltFuel]
  congr 2


/-- `(?:` body `)` is an atom for the body's disjunction. -/
theorem wrap_atom {m : ES.Node} (hd : DisjR P T m) (st : PState) (x : Node) (rest : List Nat)
    (result : List Node) (f : Nat)
    (hl : lowerNode P T m st.flags st.groupCount = .ok x)
    (hin : st.input = wrap (pr .disj m) ++ rest) (hinv : PInv P T st)
    (hlim : Lim st (1 + prDepth .disj m) (countLoops m) (ES.countParens m)) (hlex : lexOK m = true)
    (hf : 4 * (wrap (pr .disj m)).length ≤ f) :
    consumeAtom f st result 0x28 = .ok ⟨result ++ [x], adv st m rest, result.length, true⟩ := by
  have hlen : (wrap (pr .disj m)).length = (pr .disj m).length + 4 := by simp [wrap]
  obtain ⟨f', rfl⟩ : ∃ f', f = f' + 1 := ⟨f - 1, by omega⟩
  have hin' : st.input = 0x28 :: 0x3F :: 0x3A :: (pr .disj m ++ 0x29 :: rest) := by
    rw [hin]; simp [wrap]
  have hd' := hd { st with input := pr .disj m ++ 0x29 :: rest } x (0x29 :: rest) f' hl rfl
    (.inr ⟨rest, rfl⟩) (hinv.of_eq rfl rfl) ⟨hlim.depth, hlim.loops, hlim.groups⟩ hlex (by omega)
  rw [consumeAtom]
  simp only [show ((0x28 : Nat) == 0x5E) = false from rfl, show ((0x28 : Nat) == 0x24) = false from rfl,
    show ((0x28 : Nat) == 0x5C) = false from rfl, show ((0x28 : Nat) == 0x2E) = false from rfl,
    show ((0x28 : Nat) == 0x28) = true from rfl, Bool.false_eq_true, if_false, if_true]
  simp only [tryConsumeStr, hin', stripPrefix?, show ((0x28 : Nat) == 0x28) = true from rfl,
    show ((0x3F : Nat) == 0x3F) = true from rfl, show ((0x3D : Nat) == 0x3A) = false from rfl,
    show ((0x21 : Nat) == 0x3A) = false from rfl, show ((0x3C : Nat) == 0x3A) = false from rfl,
    show ((0x3A : Nat) == 0x3A) = true from rfl, Bool.false_eq_true, if_false, if_true]
  rw [hd']
  simp only [tryConsume, adv_input, show ((0x29 : Nat) == 0x29) = true from rfl, if_true]
  congr 2

/-! ## Children of a `cat` / `alt` -/

theorem lowerList_cons' {n : ES.Node} {ns : List ES.Node} {fl : IR.Flags} {pi : Nat} {l : List Node}
    (h : lowerList P T (n :: ns) fl pi = .ok l) :
    ∃ x xs, lowerNode P T n fl pi = .ok x ∧ lowerList P T ns fl (pi + ES.countParens n) = .ok xs ∧
      l = x :: xs := by
  simp only [lowerList] at h
  cases h1 : lowerNode P T n fl pi with
  | error e => rw [h1] at h; cases h
  | ok x =>
    rw [h1] at h
    cases h2 : lowerList P T ns fl (pi + ES.countParens n) with
    | error e => rw [h2] at h; cases h
    | ok xs =>
      rw [h2] at h
      simp only [Except.ok.injEq] at h
      exact ⟨x, xs, rfl, rfl, h.symm⟩

theorem stop_termLoop {rest : List Nat} (h : Stop rest) (f : Nat) (st : PState) (result : List Node)
    (hin : st.input = rest) : termLoop (f + 1) st result = .ok (makeCat result, st) := by
  rw [termLoop]
  rcases h with h | ⟨t, h | h⟩
  · simp [hin, h]
  · simp [hin, h]
  · simp [hin, h]

theorem prTerms_follow {ns : List ES.Node} (hs : ∀ n ∈ ns, HeadS (pr .term n)) {rest : List Nat}
    (hr : Stop rest) : Follow (prTerms ns ++ rest) := by
  cases ns with
  | nil => simpa [prTerms] using hr.follow
  | cons n ns =>
    simp only [prTerms, List.append_assoc]
    exact (hs n (by simp)).follow_append _

theorem terms_ok : ∀ (ns : List ES.Node), (∀ n ∈ ns, TermR P T n) → (∀ n ∈ ns, HeadS (pr .term n)) →
    TermsR P T ns := by
  intro ns
  induction ns with
  | nil =>
    intro _ _ st xs rest result f hl hin hstop hinv hlim hlex hf
    simp only [lowerList, Except.ok.injEq] at hl
    subst hl
    simp only [prTerms, List.nil_append] at hin
    obtain ⟨f', rfl⟩ : ∃ f', f = f' + 1 := ⟨f - 1, by omega⟩
    rw [stop_termLoop hstop f' st result hin, List.append_nil]
    congr 2
    apply pstate_ext <;> simp [hin, ES.countParens, ES.countParensList, countLoops, countLoopsList,
      hasLookbehind, hasLookbehindList]
  | cons n ns ih =>
    intro ht hs st xs rest result f hl hin hstop hinv hlim hlex hf
    obtain ⟨x, xs', hx, hxs, rfl⟩ := lowerList_cons' hl
    simp only [prTerms, List.append_assoc] at hin
    simp only [prTerms, List.length_append] at hf
    simp only [lexOKList, Bool.and_eq_true] at hlex
    have hlen : 1 ≤ (pr .term n).length := by
      obtain ⟨c, tl, hc, _⟩ := hs n (by simp)
      rw [hc]; simp
    obtain ⟨f', rfl⟩ : ∃ f', f = f' + 1 := ⟨f - 1, by omega⟩
    have hd := hlim.depth
    have hlo := hlim.loops
    have hg := hlim.groups
    simp only [prDepthTerms, countLoopsList, ES.countParensList] at hd hlo hg
    have hfol : Follow (prTerms ns ++ rest) := prTerms_follow (fun m hm => hs m (by simp [hm])) hstop
    rw [ht n (by simp) st x (prTerms ns ++ rest) result f' hx hin hfol hinv
      ⟨by omega, by omega, by omega⟩ hlex.1 (by omega)]
    rw [ih (fun m hm => ht m (by simp [hm])) (fun m hm => hs m (by simp [hm]))
      (adv st n (prTerms ns ++ rest)) xs' rest (result ++ [x]) f' hxs rfl hstop (hinv.adv _ _)
      ⟨by simp only [adv_depth]; omega, by simp only [adv_lc]; omega, by simp only [adv_gc]; omega⟩
      hlex.2 (by omega)]
    simp only [List.append_assoc, List.singleton_append]
    congr 2
    apply pstate_ext <;> simp [ES.countParens, ES.countParensList, countLoops, countLoopsList,
      hasLookbehind, hasLookbehindList, Nat.add_assoc, Bool.or_assoc]

/-- A sequence is an alternative. -/
theorem alt_of_terms {ns : List ES.Node} (h : TermsR P T ns) : AltR P T (.cat ns) := by
  intro st x rest f hl hin hstop hinv hlim hlex hf
  simp only [lowerNode] at hl
  cases hxs : lowerList P T ns st.flags st.groupCount with
  | error e => rw [hxs] at hl; cases hl
  | ok xs =>
    rw [hxs] at hl
    simp only [Except.ok.injEq] at hl
    subst hl
    have := h st xs rest [] f hxs hin hstop hinv hlim hlex hf
    simpa using this

/-- The empty alternative. -/
theorem alt_empty : AltR P T .empty := by
  intro st x rest f hl hin hstop hinv hlim hlex hf
  simp only [lowerNode, Except.ok.injEq] at hl
  subst hl
  simp only [pr, List.nil_append] at hin
  obtain ⟨f', rfl⟩ : ∃ f', f = f' + 1 := ⟨f - 1, by omega⟩
  rw [stop_termLoop hstop f' st [] hin]
  simp only [makeCat]
  congr 2
  apply pstate_ext <;> simp [hin, ES.countParens, countLoops, hasLookbehind]

theorem stop_of_alts (ns : List ES.Node) {rest : List Nat} (hr : StopD rest) : Stop (prAltsTail ns ++ rest) := by
  cases ns with
  | nil => simpa [prAltsTail] using hr.stop
  | cons n ns => exact .inr ⟨pr .alt n ++ (prAltsTail ns ++ rest), .inr (by simp [prAltsTail])⟩

theorem alts_ok : ∀ (ns : List ES.Node) (n : ES.Node), (∀ m ∈ n :: ns, AltR P T m) → AltsR P T (n :: ns) := by
  intro ns
  induction ns with
  | nil =>
    intro n ha st xs rest terms f _ hl hin hstop hinv hlim hlex hf
    obtain ⟨x, xs', hx, hxs, rfl⟩ := lowerList_cons' hl
    simp only [lowerList, Except.ok.injEq] at hxs
    subst hxs
    simp only [prAlts, prAltsTail, List.append_nil] at hin hf
    simp only [lexOKList, Bool.and_true] at hlex
    obtain ⟨f', rfl⟩ : ∃ f', f = f' + 1 := ⟨f - 1, by omega⟩
    have hd := hlim.depth
    have hlo := hlim.loops
    have hg := hlim.groups
    simp only [prDepthAlts, countLoopsList, ES.countParensList] at hd hlo hg
    rw [disjLoop, ha n (by simp) st x rest f' hx hin hstop.stop hinv ⟨by omega, by omega, by omega⟩ hlex
      (by omega)]
    have htc : tryConsume 0x7C (adv st n rest) = (false, adv st n rest) := by
      rcases hstop with h | ⟨t, h⟩
      · simp [tryConsume, h]
      · simp [tryConsume, h]
    simp only [htc]
    congr 2
    apply pstate_ext <;> simp [ES.countParens, ES.countParensList, countLoops, countLoopsList,
      hasLookbehind, hasLookbehindList]
  | cons m ms ih =>
    intro n ha st xs rest terms f _ hl hin hstop hinv hlim hlex hf
    obtain ⟨x, xs', hx, hxs, rfl⟩ := lowerList_cons' hl
    have hin' : st.input = pr .alt n ++ (0x7C :: (prAlts (m :: ms) ++ rest)) := by
      rw [hin]; simp [prAlts, prAltsTail]
    have hlen : (prAlts (n :: m :: ms)).length = (pr .alt n).length + 1 + (prAlts (m :: ms)).length := by
      simp [prAlts, prAltsTail]; omega
    simp only [lexOKList, Bool.and_eq_true] at hlex
    obtain ⟨f', rfl⟩ : ∃ f', f = f' + 1 := ⟨f - 1, by omega⟩
    have hd := hlim.depth
    have hlo := hlim.loops
    have hg := hlim.groups
    simp only [prDepthAlts, countLoopsList, ES.countParensList] at hd hlo hg
    rw [disjLoop, ha n (by simp) st x _ f' hx hin' (.inr ⟨_, .inr rfl⟩) hinv ⟨by omega, by omega, by omega⟩
      hlex.1 (by omega)]
    simp only [tryConsume, adv_input, show ((0x7C : Nat) == 0x7C) = true from rfl, if_true]
    have := ih m (fun k hk => ha k (by simp at hk ⊢; exact .inr hk))
      { adv st n (0x7C :: (prAlts (m :: ms) ++ rest)) with input := prAlts (m :: ms) ++ rest } xs' rest
      (terms ++ [x]) f' (by simp) hxs rfl hstop ((hinv.adv _ _).of_eq rfl rfl)
      ⟨by simp only [adv_depth, prDepthAlts]; omega, by simp only [adv_lc, countLoopsList]; omega,
       by simp only [adv_gc, ES.countParensList]; omega⟩
      (by simp only [lexOKList, Bool.and_eq_true]; exact hlex.2) (by omega)
    rw [this]
    simp only [List.append_assoc, List.singleton_append]
    congr 2
    apply pstate_ext <;> simp [ES.countParens, ES.countParensList, countLoops, countLoopsList,
      hasLookbehind, hasLookbehindList, Nat.add_assoc, Bool.or_assoc]

/-- A disjunction of alternatives. -/
theorem disj_of_alts {ns : List ES.Node} (h : ns = [] ∨ AltsR P T ns) : DisjR P T (.alt ns) := by
  intro st x rest f hl hin hstop hinv hlim hlex hf
  simp only [lowerNode] at hl
  split at hl
  · cases hl
  · next hne =>
    have hne' : ns ≠ [] := by simpa using hne
    rcases h with h | h
    · exact absurd h hne'
    cases hxs : lowerList P T ns st.flags st.groupCount with
    | error e => rw [hxs] at hl; cases hl
    | ok xs =>
      rw [hxs] at hl
      simp only [Except.ok.injEq] at hl
      subst hl
      simp only [pr] at hin hf
      obtain ⟨f', rfl⟩ : ∃ f', f = f' + 1 := ⟨f - 1, by omega⟩
      have hnd : ¬ (st.depth + 1 > Gen.MAX_NESTING_DEPTH) := by have := hlim.depth; omega
      have hd := hlim.depth
      simp only [prDepth] at hd
      rw [consumeDisjunction]
      simp only [hnd, if_false]
      rw [h { st with depth := st.depth + 1 } xs rest [] f' hne' hxs hin hstop (hinv.of_eq rfl rfl)
        ⟨by simp only; omega, hlim.loops, hlim.groups⟩ hlex (by omega)]
      simp only [List.nil_append]
      congr 2

end

end Regress.RoundTrip
