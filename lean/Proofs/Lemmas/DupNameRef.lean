import Proofs.Lemmas.LowerMain
/-!
# Named back-references to duplicated group names: helpers

ES2025 allows the same group name on several groups provided they sit in different alternatives
(`(?<n>a)|(?<n>b)`), and `\k<n>` then refers to whichever of them participated
(`BackreferenceMatcher(rer, ns, direction)` over the list `ns` of all group numbers of that name;
the standard *asserts* that at most one of them is defined).  The crate lowers such a `\k<n>` to the
catenation of the back-references to all groups of that name (an unset group's back-reference
matches the empty string).

This file proves, on the specification side only:

* `AtMostOne` – the invariant the standard asserts: two distinct groups with the same name are
  never both defined.  It is threaded through *every* Matcher (`MSim`): for a pattern whose names
  pass the early-error rule (`groupNames … = .ok _`), when a node is entered with the invariant,
  with its own groups undefined and with every other group that shares a name with one of its groups
  undefined (`Clean`), the continuation is only ever invoked on states that satisfy the invariant
  again and differ from the entry state only inside the node's own groups (`Post`).
* `elimDup` – the AST in which every `\k<n>` with a duplicated name is replaced by the sequence
  `\g1\g2…` of numeric back-references.  Under the invariant the two ASTs have the same Matcher
  (`elim_msim`, both directions, any flags).
* the lowering of `elimDup p` is the lowering of `p` (`elim_lower`), and it is `supported`.
* `groupNames_normalize` – the early-error rule on names survives `normalize` (so `validate f a = none`
  gives the hypothesis on the normal form that the theorems use).
-/
namespace Regress.ES

abbrev Caps := List (Option (Nat × Nat))

/-- `g` and `g'` are numbers of groups with the same name. -/
def sameName (p : Node) (g g' : Nat) : Prop :=
  ∃ nm, g ∈ groupSpecifiersThatMatch p nm ∧ g' ∈ groupSpecifiersThatMatch p nm

theorem sameName.symm {p : Node} {g g' : Nat} (h : sameName p g g') : sameName p g' g := by
  obtain ⟨nm, h1, h2⟩ := h; exact ⟨nm, h2, h1⟩

/-- **The invariant**: at most one of the groups that share a name is defined. -/
def AtMostOne (p : Node) (caps : Caps) : Prop :=
  ∀ g g', sameName p g g' → getCapture caps g ≠ none → getCapture caps g' ≠ none → g = g'

/-- The groups `lo < g ≤ hi` and every group sharing a name with one of them are undefined. -/
def Clean (p : Node) (caps : Caps) (lo hi : Nat) : Prop :=
  ∀ g, lo < g → g ≤ hi → getCapture caps g = none ∧ ∀ g', sameName p g g' → getCapture caps g' = none

/-- What holds when a node with groups `lo < g ≤ hi` is entered. -/
def Pre (p : Node) (x : State) (lo hi : Nat) : Prop := AtMostOne p x.captures ∧ Clean p x.captures lo hi

/-- What holds when the continuation of that node is invoked. -/
def Post (p : Node) (x y : State) (lo hi : Nat) : Prop :=
  AtMostOne p y.captures ∧ ∀ g, (g ≤ lo ∨ hi < g) → getCapture y.captures g = getCapture x.captures g

theorem Pre.mono {p : Node} {x : State} {lo hi lo' hi' : Nat} (h : Pre p x lo hi) (h1 : lo ≤ lo') (h2 : hi' ≤ hi) :
    Pre p x lo' hi' :=
  ⟨h.1, fun g hg1 hg2 => h.2 g (by omega) (by omega)⟩

theorem Post.mono {p : Node} {x y : State} {lo hi lo' hi' : Nat} (h : Post p x y lo hi) (h1 : lo' ≤ lo) (h2 : hi ≤ hi') :
    Post p x y lo' hi' :=
  ⟨h.1, fun g hg => h.2 g (by omega)⟩

theorem Post.same {p : Node} {x y : State} {lo hi : Nat} (hx : AtMostOne p x.captures) (h : y.captures = x.captures) :
    Post p x y lo hi :=
  ⟨by rw [h]; exact hx, fun g _ => by rw [h]⟩

/-- A relation between results that the Matchers' own case distinctions respect. -/
structure QOK (Q : MatchResult → MatchResult → Prop) : Prop where
  fail : Q .failure .failure
  oof : Q .outOfFuel .outOfFuel
  iff : ∀ r r', Q r r' → (r = .failure ↔ r' = .failure)

theorem QOK.eq : QOK (fun r r' => r = r') := ⟨rfl, rfl, fun r r' h => by rw [h]⟩

/-- **The invariant threaded through two Matchers**: entered in a `Pre` state with continuations
that are related on `Post` states, the two runs are related. -/
def MSim (p : Node) (m m' : Matcher) (lo hi : Nat) : Prop :=
  ∀ (Q : MatchResult → MatchResult → Prop), QOK Q → ∀ (fuel : Nat) (x : State) (c c' : Cont),
    Pre p x lo hi → (∀ y, Post p x y lo hi → Q (c y) (c' y)) → Q (m.run fuel x c) (m'.run fuel x c')

theorem MSim.mono {p : Node} {m m' : Matcher} {lo hi lo' hi' : Nat} (h : MSim p m m' lo hi) (h1 : lo' ≤ lo)
    (h2 : hi ≤ hi') : MSim p m m' lo' hi' :=
  fun Q hQ fuel x c c' hpre hc => h Q hQ fuel x c c' (hpre.mono h1 h2) (fun y hy => hc y (hy.mono h1 h2))

/-! ## Captures -/

theorem getCapture_setCapture_ne (caps : Caps) (n : Nat) (r : Option (Nat × Nat)) {g : Nat} (h : g ≠ n) :
    getCapture (setCapture caps n r) g = getCapture caps g := by
  simp only [getCapture, setCapture]
  by_cases hg : g = 0
  · simp [hg]
  · by_cases hn : n = 0
    · simp [hn]
    · have : n - 1 ≠ g - 1 := by omega
      simp [hg, hn, List.getD_eq_getElem?_getD, this]

theorem getCapture_reset (caps : Caps) (pi pc g : Nat) :
    getCapture (resetCaptures caps pi pc) g =
      if pi < g ∧ g ≤ pi + pc then none else getCapture caps g := by
  simp only [getCapture]
  by_cases hg : g = 0
  · have : ¬ (pi < g ∧ g ≤ pi + pc) := by omega
    simp [hg]
  · simp only [hg, if_false, List.getD_eq_getElem?_getD, Regress.Lower.resetCaptures_getElem?]
    by_cases hr : pi < g ∧ g ≤ pi + pc
    · have hr' : pi ≤ g - 1 ∧ g - 1 < pi + pc := by omega
      simp only [hr, hr', and_self, if_true]
      cases caps[g - 1]? <;> rfl
    · have hr' : ¬ (pi ≤ g - 1 ∧ g - 1 < pi + pc) := by omega
      simp only [hr, hr', if_false]

theorem getCapture_replicate (n g : Nat) : getCapture (List.replicate n none) g = none := by
  simp only [getCapture]
  split
  · rfl
  · simp only [List.getD_eq_getElem?_getD, List.getElem?_replicate]
    split <;> rfl

/-! ## Leaves: the captures are passed on unchanged -/

theorem msim_empty (p : Node) (lo hi : Nat) : MSim p emptyMatcher emptyMatcher lo hi :=
  fun _ _ _ x _ _ hpre hc => hc x (Post.same hpre.1 rfl)

theorem msim_fail (p : Node) (lo hi : Nat) : MSim p ⟨fun _ _ _ => .failure⟩ ⟨fun _ _ _ => .failure⟩ lo hi :=
  fun _ hQ _ _ _ _ _ _ => hQ.fail

theorem msim_characterSetMatcher (p : Node) (input : Array Nat) (rer : RER) (a : CharSet) (inv : Bool)
    (d : Direction) (lo hi : Nat) :
    MSim p (characterSetMatcher input rer a inv d) (characterSetMatcher input rer a inv d) lo hi := by
  intro Q hQ fuel x c c' hpre hc
  simp only [characterSetMatcher]
  repeat (first | exact hQ.fail | exact hc _ (Post.same hpre.1 rfl) | split)

theorem msim_backreferenceMatcher (p : Node) (input : Array Nat) (rer : RER) (ns : List Nat)
    (d : Direction) (lo hi : Nat) :
    MSim p (backreferenceMatcher input rer ns d) (backreferenceMatcher input rer ns d) lo hi := by
  intro Q hQ fuel x c c' hpre hc
  simp only [backreferenceMatcher]
  repeat (first | exact hQ.fail | exact hc _ (Post.same hpre.1 rfl) | split)

theorem msim_bolMatcher (p : Node) (input : Array Nat) (rer : RER) (lo hi : Nat) :
    MSim p (bolMatcher input rer) (bolMatcher input rer) lo hi := by
  intro Q hQ fuel x c c' hpre hc
  simp only [bolMatcher]
  repeat (first | exact hQ.fail | exact hc _ (Post.same hpre.1 rfl) | split)

theorem msim_eolMatcher (p : Node) (input : Array Nat) (rer : RER) (lo hi : Nat) :
    MSim p (eolMatcher input rer) (eolMatcher input rer) lo hi := by
  intro Q hQ fuel x c c' hpre hc
  simp only [eolMatcher]
  repeat (first | exact hQ.fail | exact hc _ (Post.same hpre.1 rfl) | split)

theorem msim_wordBoundaryMatcher (p : Node) (input : Array Nat) (rer : RER) (neg : Bool) (lo hi : Nat) :
    MSim p (wordBoundaryMatcher input rer neg) (wordBoundaryMatcher input rer neg) lo hi := by
  intro Q hQ fuel x c c' hpre hc
  simp only [wordBoundaryMatcher]
  repeat (first | exact hQ.fail | exact hc _ (Post.same hpre.1 rfl) | split)

/-! ## Combinators -/

theorem msim_matchTwoAlternatives {p : Node} {m1 m2 m1' m2' : Matcher} {lo hi : Nat}
    (h1 : MSim p m1 m1' lo hi) (h2 : MSim p m2 m2' lo hi) :
    MSim p (matchTwoAlternatives m1 m2) (matchTwoAlternatives m1' m2') lo hi := by
  intro Q hQ fuel x c c' hpre hc
  simp only [matchTwoAlternatives]
  have hq := h1 Q hQ fuel x c c' hpre hc
  have hiff := hQ.iff _ _ hq
  cases hr : m1.run fuel x c with
  | failure =>
    have hr' := hiff.1 hr
    rw [hr']
    exact h2 Q hQ fuel x c c' hpre hc
  | success y =>
    rw [hr] at hq hiff
    cases hr' : m1'.run fuel x c' with
    | failure => exact absurd (hiff.2 hr') (by simp)
    | success y' => rw [hr'] at hq; exact hq
    | outOfFuel => rw [hr'] at hq; exact hq
  | outOfFuel =>
    rw [hr] at hq hiff
    cases hr' : m1'.run fuel x c' with
    | failure => exact absurd (hiff.2 hr') (by simp)
    | success y' => rw [hr'] at hq; exact hq
    | outOfFuel => rw [hr'] at hq; exact hq

/-- No group of `(a0, a1]` shares a name with a group of `(b0, b1]`. -/
def Disj (p : Node) (a0 a1 b0 b1 : Nat) : Prop :=
  ∀ g g', a0 < g → g ≤ a1 → b0 < g' → g' ≤ b1 → ¬ sameName p g g'

/-- First a Matcher over the groups `(a0, a1]`, then one over the groups `(b0, b1]`. -/
theorem msim_then {p : Node} {ma ma' mb mb' : Matcher} {lo hi a0 a1 b0 b1 : Nat}
    (hA : MSim p ma ma' a0 a1) (hB : MSim p mb mb' b0 b1)
    (ha0 : lo ≤ a0) (ha1 : a1 ≤ hi) (hb0 : lo ≤ b0) (hb1 : b1 ≤ hi) (hsep : a1 ≤ b0 ∨ b1 ≤ a0)
    (hd : Disj p a0 a1 b0 b1)
    (Q : MatchResult → MatchResult → Prop) (hQ : QOK Q) (fuel : Nat) (x : State) (c c' : Cont)
    (hpre : Pre p x lo hi) (hc : ∀ y, Post p x y lo hi → Q (c y) (c' y)) :
    Q (ma.run fuel x (fun y => mb.run fuel y c)) (ma'.run fuel x (fun y => mb'.run fuel y c')) := by
  apply hA Q hQ fuel x _ _ (hpre.mono ha0 ha1)
  intro y hy
  apply hB Q hQ fuel y c c'
  · refine ⟨hy.1, fun g hg1 hg2 => ⟨?_, fun g' hs => ?_⟩⟩
    · rw [hy.2 g (by omega)]
      exact (hpre.2 g (by omega) (by omega)).1
    · by_cases hin : a0 < g' ∧ g' ≤ a1
      · exact absurd hs.symm (hd g' g hin.1 hin.2 hg1 hg2)
      · rw [hy.2 g' (by omega)]
        exact (hpre.2 g (by omega) (by omega)).2 g' hs
  · intro z hz
    refine hc z ⟨hz.1, fun g hg => ?_⟩
    rw [hz.2 g (by omega), hy.2 g (by omega)]

theorem msim_matchSequence {p : Node} {m1 m1' m2 m2' : Matcher} {lo mid hi : Nat} (d : Direction)
    (h1 : MSim p m1 m1' lo mid) (h2 : MSim p m2 m2' mid hi) (hlm : lo ≤ mid) (hmh : mid ≤ hi)
    (hd : Disj p lo mid mid hi) :
    MSim p (matchSequence m1 m2 d) (matchSequence m1' m2' d) lo hi := by
  intro Q hQ fuel x c c' hpre hc
  cases d with
  | forward =>
    simp only [matchSequence]
    exact msim_then h1 h2 (Nat.le_refl _) hmh hlm (Nat.le_refl _) (.inl (Nat.le_refl _)) hd Q hQ fuel x c c' hpre hc
  | backward =>
    simp only [matchSequence]
    exact msim_then h2 h1 hlm (Nat.le_refl _) (Nat.le_refl _) hmh (.inr (Nat.le_refl _))
      (fun g g' a b c d hs => hd g' g c d a b hs.symm) Q hQ fuel x c c' hpre hc

theorem disj_empty (p : Node) (lo b0 b1 : Nat) : Disj p lo lo b0 b1 := fun _ _ h1 h2 => by omega

/-- The Matcher of a capturing group around `m`. -/
def groupM (m : Matcher) (direction : Direction) (pi : Nat) : Matcher :=
  ⟨fun fuel x c =>
    m.run fuel x (fun y =>
      c { endIndex := y.endIndex,
          captures := setCapture y.captures (pi + 1)
            (some (if direction = .forward then (x.endIndex, y.endIndex) else (y.endIndex, x.endIndex))) })⟩

theorem compileNode_group (input : Array Nat) (p : Node) (idx : Nat) (name : Option (List Nat)) (n : Node)
    (rer : RER) (d : Direction) (pi : Nat) :
    compileNode input p (.group idx name n) rer d pi = groupM (compileNode input p n rer d (pi + 1)) d pi := by
  simp only [compileNode, groupM]

theorem msim_group {p : Node} {m m' : Matcher} {pi hi : Nat} (d : Direction) (h : MSim p m m' (pi + 1) hi)
    (hhi : pi + 1 ≤ hi) (hn : ∀ g', pi + 1 < g' → g' ≤ hi → ¬ sameName p (pi + 1) g') :
    MSim p (groupM m d pi) (groupM m' d pi) pi hi := by
  intro Q hQ fuel x c c' hpre hc
  simp only [groupM]
  apply h Q hQ fuel x _ _ (hpre.mono (by omega) (Nat.le_refl _))
  intro y hy
  apply hc
  refine ⟨?_, fun g hg => ?_⟩
  · intro g g' hs hg hg'
    simp only at hg hg'
    have hclean := (hpre.2 (pi + 1) (by omega) hhi).2
    -- a group other than `pi + 1` that is defined afterwards was defined in `y`
    by_cases h1 : g = pi + 1
    · by_cases h2 : g' = pi + 1
      · rw [h1, h2]
      · exfalso
        rw [getCapture_setCapture_ne _ _ _ h2] at hg'
        by_cases hin : pi + 1 < g' ∧ g' ≤ hi
        · exact hn g' hin.1 hin.2 (h1 ▸ hs)
        · rw [hy.2 g' (by omega)] at hg'
          exact hg' (hclean g' (h1 ▸ hs))
    · by_cases h2 : g' = pi + 1
      · exfalso
        rw [getCapture_setCapture_ne _ _ _ h1] at hg
        by_cases hin : pi + 1 < g ∧ g ≤ hi
        · exact hn g hin.1 hin.2 (h2 ▸ hs.symm)
        · rw [hy.2 g (by omega)] at hg
          exact hg (hclean g (h2 ▸ hs.symm))
      · rw [getCapture_setCapture_ne _ _ _ h1] at hg
        rw [getCapture_setCapture_ne _ _ _ h2] at hg'
        exact hy.1 g g' hs hg hg'
  · simp only
    rw [getCapture_setCapture_ne _ _ _ (by omega), hy.2 g (by omega)]

theorem msim_positiveLook {p : Node} {m m' : Matcher} {lo hi : Nat} (h : MSim p m m' lo hi) :
    MSim p (positiveLookMatcher m) (positiveLookMatcher m') lo hi := by
  intro Q hQ fuel x c c' hpre hc
  simp only [positiveLookMatcher]
  have key := h (fun r r' => r = r' ∧ ∀ y, r = .success y → Post p x y lo hi)
    ⟨⟨rfl, fun y hy => by cases hy⟩, ⟨rfl, fun y hy => by cases hy⟩, fun r r' hr => by rw [hr.1]⟩
    fuel x (fun y => .success y) (fun y => .success y) hpre
    (fun y hy => ⟨rfl, fun y' hy' => by cases hy'; exact hy⟩)
  obtain ⟨heq, hpost⟩ := key
  rw [← heq]
  cases hr : m.run fuel x (fun y => .success y) with
  | failure => exact hQ.fail
  | outOfFuel => exact hQ.oof
  | success y =>
    have hy := hpost y hr
    exact hc _ ⟨hy.1, fun g hg => hy.2 g hg⟩

theorem msim_negativeLook {p : Node} {m m' : Matcher} {lo hi : Nat} (h : MSim p m m' lo hi) :
    MSim p (negativeLookMatcher m) (negativeLookMatcher m') lo hi := by
  intro Q hQ fuel x c c' hpre hc
  simp only [negativeLookMatcher]
  have key := h (fun r r' => r = r') QOK.eq fuel x (fun y => .success y) (fun y => .success y) hpre
    (fun y _ => rfl)
  rw [← key]
  cases hr : m.run fuel x (fun y => .success y) with
  | failure => exact hc x (Post.same hpre.1 rfl)
  | outOfFuel => exact hQ.oof
  | success y => exact hQ.fail

/-- Only the groups sharing a name with a group of `(lo, hi]` *outside* `(lo, hi]` are undefined. -/
def Excl (p : Node) (caps : Caps) (lo hi : Nat) : Prop :=
  ∀ g g', lo < g → g ≤ hi → sameName p g g' → (g' ≤ lo ∨ hi < g') → getCapture caps g' = none

theorem msim_repeat {p : Node} {m m' : Matcher} {pi pc : Nat} (h : MSim p m m' pi (pi + pc)) (greedy : Bool)
    (Q : MatchResult → MatchResult → Prop) (hQ : QOK Q) :
    ∀ (fuel min : Nat) (max : Option Nat) (x : State) (c c' : Cont),
      AtMostOne p x.captures → Excl p x.captures pi (pi + pc) →
      (∀ y, Post p x y pi (pi + pc) → Q (c y) (c' y)) →
      Q (repeatMatcher m greedy pi pc fuel min max x c) (repeatMatcher m' greedy pi pc fuel min max x c') := by
  intro fuel
  induction fuel with
  | zero =>
    intro min max x c c' hx _ hc
    by_cases hm : max = some 0
    · subst hm; rw [repeatMatcher_max_zero, repeatMatcher_max_zero]; exact hc x (Post.same hx rfl)
    · simp only [repeatMatcher, hm, if_false]; exact hQ.oof
  | succ k ih =>
    intro min max x c c' hx hex hc
    by_cases hm : max = some 0
    · subst hm; rw [repeatMatcher_max_zero, repeatMatcher_max_zero]; exact hc x (Post.same hx rfl)
    · simp only [repeatMatcher, hm, if_false]
      have hcx : Q (c x) (c' x) := hc x (Post.same hx rfl)
      -- the state with the captures of the atom reset
      have hxr : Pre p { x with captures := resetCaptures x.captures pi pc } pi (pi + pc) := by
        refine ⟨?_, ?_⟩
        · intro g g' hs hg hg'
          simp only [getCapture_reset] at hg hg'
          split at hg
          · exact absurd rfl hg
          · split at hg'
            · exact absurd rfl hg'
            · exact hx g g' hs hg hg'
        · intro g hg1 hg2
          simp only [getCapture_reset]
          refine ⟨by simp [hg1, hg2], fun g' hs => ?_⟩
          split
          · rfl
          · exact hex g g' hg1 hg2 hs (by omega)
      have hd : ∀ min2 max2 y, Post p { x with captures := resetCaptures x.captures pi pc } y pi (pi + pc) →
          Q (if min = 0 ∧ y.endIndex = x.endIndex then MatchResult.failure
              else repeatMatcher m greedy pi pc k min2 max2 y c)
            (if min = 0 ∧ y.endIndex = x.endIndex then MatchResult.failure
              else repeatMatcher m' greedy pi pc k min2 max2 y c') := by
        intro min2 max2 y hy
        have hyx : ∀ g, (g ≤ pi ∨ pi + pc < g) → getCapture y.captures g = getCapture x.captures g := by
          intro g hg
          rw [hy.2 g hg]
          simp only [getCapture_reset]
          rw [if_neg (by omega)]
        split
        · exact hQ.fail
        · apply ih min2 max2 y c c' hy.1
          · intro g g' hg1 hg2 hs hout
            rw [hyx g' hout]
            exact hex g g' hg1 hg2 hs hout
          · intro z hz
            exact hc z ⟨hz.1, fun g hg => by rw [hz.2 g hg, hyx g hg]⟩
      split
      · exact h Q hQ _ _ _ _ hxr (hd _ _)
      · split
        · have hiff := hQ.iff _ _ hcx
          cases hr : c x with
          | failure =>
            rw [hiff.1 hr]
            exact h Q hQ _ _ _ _ hxr (hd _ _)
          | success y =>
            rw [hr] at hcx hiff
            cases hr' : c' x with
            | failure => exact absurd (hiff.2 hr') (by simp)
            | success y' => rw [hr'] at hcx; exact hcx
            | outOfFuel => rw [hr'] at hcx; exact hcx
          | outOfFuel =>
            rw [hr] at hcx hiff
            cases hr' : c' x with
            | failure => exact absurd (hiff.2 hr') (by simp)
            | success y' => rw [hr'] at hcx; exact hcx
            | outOfFuel => rw [hr'] at hcx; exact hcx
        · have hq := h Q hQ (k + 1) _ _ _ hxr (hd (if min = 0 then 0 else min - 1) (max.map (· - 1)))
          have hiff := hQ.iff _ _ hq
          cases hr : m.run (k + 1) { x with captures := resetCaptures x.captures pi pc } _ with
          | failure =>
            rw [hiff.1 hr]
            exact hcx
          | success y =>
            rw [hr] at hq hiff
            cases hr' : m'.run (k + 1) { x with captures := resetCaptures x.captures pi pc } _ with
            | failure => exact absurd (hiff.2 hr') (by simp)
            | success y' => rw [hr'] at hq; exact hq
            | outOfFuel => rw [hr'] at hq; exact hq
          | outOfFuel =>
            rw [hr] at hq hiff
            cases hr' : m'.run (k + 1) { x with captures := resetCaptures x.captures pi pc } _ with
            | failure => exact absurd (hiff.2 hr') (by simp)
            | success y' => rw [hr'] at hq; exact hq
            | outOfFuel => rw [hr'] at hq; exact hq

theorem msim_quant {p : Node} {m m' : Matcher} {pi pc : Nat} (h : MSim p m m' pi (pi + pc)) (greedy : Bool)
    (min : Nat) (max : Option Nat) :
    MSim p ⟨fun fuel x c => repeatMatcher m greedy pi pc fuel min max x c⟩
      ⟨fun fuel x c => repeatMatcher m' greedy pi pc fuel min max x c⟩ pi (pi + pc) := by
  intro Q hQ fuel x c c' hpre hc
  exact msim_repeat h greedy Q hQ fuel min max x c c' hpre.1
    (fun g g' hg1 hg2 hs _ => (hpre.2 g hg1 hg2).2 g' hs) hc

/-! ## Class atoms -/

theorem msim_classStringMatcher (p : Node) (input : Array Nat) (rer : RER) (d : Direction) (s : List Nat) (lo : Nat) :
    MSim p (classStringMatcher input rer d s) (classStringMatcher input rer d s) lo lo := by
  induction s with
  | nil => exact msim_empty _ _ _
  | cons a rest ih =>
    cases rest with
    | nil => exact msim_characterSetMatcher _ _ _ _ _ _ _ _
    | cons b bs =>
      simp only [classStringMatcher]
      exact msim_matchSequence d (msim_characterSetMatcher _ _ _ _ _ _ _ _) ih (Nat.le_refl _) (Nat.le_refl _)
        (disj_empty _ _ _ _)

theorem msim_alternativesOf (p : Node) (ms : List Matcher) (lo : Nat) (h : ∀ m ∈ ms, MSim p m m lo lo) :
    MSim p (alternativesOf ms) (alternativesOf ms) lo lo := by
  induction ms with
  | nil => exact msim_fail _ _ _
  | cons a rest ih =>
    cases rest with
    | nil => exact h a (by simp)
    | cons b bs =>
      simp only [alternativesOf]
      exact msim_matchTwoAlternatives (h a (by simp)) (ih (fun m hm => h m (List.mem_cons_of_mem _ hm)))

theorem msim_charSetAtomMatcher (p : Node) (input : Array Nat) (rer : RER) (cs : CharSet) (inv : Bool)
    (d : Direction) (lo : Nat) :
    MSim p (charSetAtomMatcher input rer cs inv d) (charSetAtomMatcher input rer cs inv d) lo lo := by
  simp only [charSetAtomMatcher]
  split
  · exact msim_characterSetMatcher _ _ _ _ _ _ _ _
  · apply msim_alternativesOf
    intro m hm
    split at hm
    · simp only [List.mem_append, List.mem_map, List.mem_singleton] at hm
      rcases hm with (⟨s, _, rfl⟩ | rfl) | rfl
      · exact msim_classStringMatcher _ _ _ _ _ _
      · exact msim_characterSetMatcher _ _ _ _ _ _ _ _
      · exact msim_empty _ _ _
    · simp only [List.mem_append, List.mem_map, List.mem_singleton] at hm
      rcases hm with ⟨s, _, rfl⟩ | rfl
      · exact msim_classStringMatcher _ _ _ _ _ _
      · exact msim_characterSetMatcher _ _ _ _ _ _ _ _

end Regress.ES

namespace Regress.ES

/-! ## The early-error rule on names gives the static facts the induction needs -/

mutual
/-- The static name facts used by the induction: a group's name is not used inside the group, and the
terms of a sequence do not share names (alternatives may). -/
def NamesOK (p : Node) : Node → Nat → Prop
  | .group _ _ n, pi => NamesOK p n (pi + 1) ∧
      ∀ g', pi + 1 < g' → g' ≤ pi + 1 + countParens n → ¬ sameName p (pi + 1) g'
  | .cat ns, pi => NamesOKSeq p ns pi
  | .alt ns, pi => NamesOKAlt p ns pi
  | .nc n, pi => NamesOK p n pi
  | .mod _ _ n, pi => NamesOK p n pi
  | .look _ _ n, pi => NamesOK p n pi
  | .quant _ _ _ n, pi => NamesOK p n pi
  | _, _ => True
def NamesOKSeq (p : Node) : List Node → Nat → Prop
  | [], _ => True
  | n :: ns, pi => NamesOK p n pi ∧
      Disj p pi (pi + countParens n) (pi + countParens n) (pi + countParens n + countParensList ns) ∧
      NamesOKSeq p ns (pi + countParens n)
def NamesOKAlt (p : Node) : List Node → Nat → Prop
  | [], _ => True
  | n :: ns, pi => NamesOK p n pi ∧ NamesOKAlt p ns (pi + countParens n)
end

/-- The named groups of the pattern whose number lies in the node's range are the node's. -/
def Sub (p n : Node) (pi : Nat) : Prop :=
  ∀ q ∈ namedGroups p 0, pi < q.2 → q.2 ≤ pi + countParens n → q ∈ namedGroups n pi

def SubL (p : Node) (ns : List Node) (pi : Nat) : Prop :=
  ∀ q ∈ namedGroups p 0, pi < q.2 → q.2 ≤ pi + countParensList ns → q ∈ namedGroupsList ns pi

theorem SubL.head {p n : Node} {ns : List Node} {pi : Nat} (h : SubL p (n :: ns) pi) : Sub p n pi := by
  intro q hq h1 h2
  have := h q hq h1 (by simp only [countParensList]; omega)
  simp only [namedGroupsList, List.mem_append] at this
  rcases this with h | h
  · exact h
  · have := Regress.Lower.namedGroupsList_bound ns _ q h; omega

theorem SubL.tail {p n : Node} {ns : List Node} {pi : Nat} (h : SubL p (n :: ns) pi) :
    SubL p ns (pi + countParens n) := by
  intro q hq h1 h2
  have := h q hq (by omega) (by simp only [countParensList]; omega)
  simp only [namedGroupsList, List.mem_append] at this
  rcases this with h | h
  · have := Regress.Lower.namedGroups_bound n _ q h; omega
  · exact h

theorem mem_gs {p : Node} {nm : List Nat} {g : Nat} (h : g ∈ groupSpecifiersThatMatch p nm) :
    (nm, g) ∈ namedGroups p 0 := by
  simp only [groupSpecifiersThatMatch, List.mem_filterMap] at h
  obtain ⟨q, hq, hg⟩ := h
  split at hg
  · rename_i heq
    simp only [Option.some.injEq] at hg
    have : q = (nm, g) := by
      obtain ⟨a, b⟩ := q
      simp only at heq hg
      rw [eq_of_beq heq, hg]
    rw [← this]; exact hq
  · cases hg

mutual
theorem namedGroups_names : ∀ (n : Node) (pi : Nat) (names : List (List Nat)) (q : List Nat × Nat),
    groupNames n = .ok names → q ∈ namedGroups n pi → q.1 ∈ names
  | .group _ name n, pi, names, q, h, hq => by
    simp only [groupNames] at h
    simp only [namedGroups, List.mem_append] at hq
    cases hin : groupNames n with
    | error e => rw [hin] at h; cases h
    | ok inner =>
      rw [hin] at h
      cases name with
      | none =>
        simp only [Except.ok.injEq] at h; subst h
        rcases hq with hq | hq
        · simp at hq
        · exact namedGroups_names n _ _ q hin hq
      | some nm =>
        simp only at h
        split at h
        · cases h
        · simp only [Except.ok.injEq] at h; subst h
          rcases hq with hq | hq
          · simp only [List.mem_singleton] at hq; subst hq; simp
          · exact List.mem_cons_of_mem _ (namedGroups_names n _ _ q hin hq)
  | .cat ns, pi, names, q, h, hq => by
    simp only [groupNames] at h; simp only [namedGroups] at hq
    exact namedGroups_namesSeq ns pi names q h hq
  | .alt ns, pi, names, q, h, hq => by
    simp only [groupNames] at h; simp only [namedGroups] at hq
    exact namedGroups_namesAlt ns pi names q h hq
  | .nc n, pi, names, q, h, hq => by
    simp only [groupNames] at h; simp only [namedGroups] at hq
    exact namedGroups_names n pi names q h hq
  | .mod _ _ n, pi, names, q, h, hq => by
    simp only [groupNames] at h; simp only [namedGroups] at hq
    exact namedGroups_names n pi names q h hq
  | .look _ _ n, pi, names, q, h, hq => by
    simp only [groupNames] at h; simp only [namedGroups] at hq
    exact namedGroups_names n pi names q h hq
  | .quant _ _ _ n, pi, names, q, h, hq => by
    simp only [groupNames] at h; simp only [namedGroups] at hq
    exact namedGroups_names n pi names q h hq
  | .empty, _, _, _, _, hq => by simp [namedGroups] at hq
  | .char _, _, _, _, _, hq => by simp [namedGroups] at hq
  | .dot, _, _, _, _, hq => by simp [namedGroups] at hq
  | .bol, _, _, _, _, hq => by simp [namedGroups] at hq
  | .eol, _, _, _, _, hq => by simp [namedGroups] at hq
  | .wb, _, _, _, _, hq => by simp [namedGroups] at hq
  | .nwb, _, _, _, _, hq => by simp [namedGroups] at hq
  | .bref _, _, _, _, _, hq => by simp [namedGroups] at hq
  | .nref _, _, _, _, _, hq => by simp [namedGroups] at hq
  | .esc _, _, _, _, _, hq => by simp [namedGroups] at hq
  | .prop _ _ _, _, _, _, _, hq => by simp [namedGroups] at hq
  | .cls _ _, _, _, _, _, hq => by simp [namedGroups] at hq
  | .vcls _ _ _, _, _, _, _, hq => by simp [namedGroups] at hq
theorem namedGroups_namesSeq : ∀ (ns : List Node) (pi : Nat) (names : List (List Nat)) (q : List Nat × Nat),
    groupNamesSeq ns = .ok names → q ∈ namedGroupsList ns pi → q.1 ∈ names
  | [], _, _, _, _, hq => by simp [namedGroupsList] at hq
  | n :: ns, pi, names, q, h, hq => by
    simp only [groupNamesSeq] at h
    simp only [namedGroupsList, List.mem_append] at hq
    cases ha : groupNames n with
    | error e => rw [ha] at h; simp at h
    | ok a =>
      cases hb : groupNamesSeq ns with
      | error e => rw [ha, hb] at h; simp at h
      | ok b =>
        rw [ha, hb] at h
        simp only at h
        split at h
        · cases h
        · simp only [Except.ok.injEq] at h; subst h
          rcases hq with hq | hq
          · exact List.mem_append_left _ (namedGroups_names n pi a q ha hq)
          · exact List.mem_append_right _ (namedGroups_namesSeq ns _ b q hb hq)
theorem namedGroups_namesAlt : ∀ (ns : List Node) (pi : Nat) (names : List (List Nat)) (q : List Nat × Nat),
    groupNamesAlt ns = .ok names → q ∈ namedGroupsList ns pi → q.1 ∈ names
  | [], _, _, _, _, hq => by simp [namedGroupsList] at hq
  | n :: ns, pi, names, q, h, hq => by
    simp only [groupNamesAlt] at h
    simp only [namedGroupsList, List.mem_append] at hq
    cases ha : groupNames n with
    | error e => rw [ha] at h; simp at h
    | ok a =>
      cases hb : groupNamesAlt ns with
      | error e => rw [ha, hb] at h; simp at h
      | ok b =>
        rw [ha, hb] at h
        simp only [Except.ok.injEq] at h; subst h
        rcases hq with hq | hq
        · exact List.mem_append_left _ (namedGroups_names n pi a q ha hq)
        · have hb' := namedGroups_namesAlt ns _ b q hb hq
          by_cases hin : q.1 ∈ a
          · exact List.mem_append_left _ hin
          · exact List.mem_append_right _ (List.mem_filter.2 ⟨hb', by simpa using hin⟩)
end

/-- Two groups with the same name, inside two nodes: the name is a name of both nodes. -/
theorem sameName_names {p a b : Node} {pa pb g g' : Nat} {na nb : List (List Nat)}
    (hsa : Sub p a pa) (hsb : Sub p b pb) (hna : groupNames a = .ok na) (hnb : groupNames b = .ok nb)
    (hg : pa < g ∧ g ≤ pa + countParens a) (hg' : pb < g' ∧ g' ≤ pb + countParens b) (hs : sameName p g g') :
    ∃ nm, nm ∈ na ∧ nm ∈ nb := by
  obtain ⟨nm, h1, h2⟩ := hs
  exact ⟨nm, namedGroups_names a pa na _ hna (hsa _ (mem_gs h1) hg.1 hg.2),
    namedGroups_names b pb nb _ hnb (hsb _ (mem_gs h2) hg'.1 hg'.2)⟩

theorem sameName_namesSeq {p a : Node} {bs : List Node} {pa pb g g' : Nat} {na nb : List (List Nat)}
    (hsa : Sub p a pa) (hsb : SubL p bs pb) (hna : groupNames a = .ok na) (hnb : groupNamesSeq bs = .ok nb)
    (hg : pa < g ∧ g ≤ pa + countParens a) (hg' : pb < g' ∧ g' ≤ pb + countParensList bs) (hs : sameName p g g') :
    ∃ nm, nm ∈ na ∧ nm ∈ nb := by
  obtain ⟨nm, h1, h2⟩ := hs
  exact ⟨nm, namedGroups_names a pa na _ hna (hsa _ (mem_gs h1) hg.1 hg.2),
    namedGroups_namesSeq bs pb nb _ hnb (hsb _ (mem_gs h2) hg'.1 hg'.2)⟩

mutual
theorem namesOK_node (p : Node) : ∀ (n : Node) (pi : Nat) (names : List (List Nat)),
    groupNames n = .ok names → Sub p n pi → NamesOK p n pi
  | .group idx name n, pi, names, h, hsub => by
    simp only [NamesOK]
    simp only [groupNames] at h
    cases hin : groupNames n with
    | error e => rw [hin] at h; cases h
    | ok inner =>
      rw [hin] at h
      have hsub' : Sub p n (pi + 1) := by
        intro q hq h1 h2
        have := hsub q hq (by omega) (by simp only [countParens]; omega)
        simp only [namedGroups, List.mem_append] at this
        rcases this with h | h
        · cases name with
          | none => simp at h
          | some nm => simp only [List.mem_singleton] at h; subst h; simp at h1
        · exact h
      refine ⟨namesOK_node p n (pi + 1) inner hin hsub', fun g' hg1 hg2 hs => ?_⟩
      obtain ⟨nm, h1, h2⟩ := hs
      have hq1 := hsub _ (mem_gs h1) (by simp) (by simp only [countParens]; omega)
      have hq2 := namedGroups_names n (pi + 1) inner _ hin (hsub' _ (mem_gs h2) hg1 (by simpa using hg2))
      simp only [namedGroups, List.mem_append] at hq1
      rcases hq1 with hq1 | hq1
      · cases name with
        | none => simp at hq1
        | some nm' =>
          simp only [List.mem_singleton, Prod.mk.injEq, and_true] at hq1
          subst hq1
          simp only at h
          split at h
          · cases h
          · rename_i hc; exact hc (by simpa using hq2)
      · have := Regress.Lower.namedGroups_bound n (pi + 1) _ hq1
        simp only at this
        omega
  | .cat ns, pi, names, h, hsub => by
    simp only [NamesOK]; simp only [groupNames] at h
    exact namesOK_seq p ns pi names h (fun q hq h1 h2 => by
      have := hsub q hq h1 (by simpa only [countParens] using h2)
      simpa only [namedGroups] using this)
  | .alt ns, pi, names, h, hsub => by
    simp only [NamesOK]; simp only [groupNames] at h
    exact namesOK_alt p ns pi names h (fun q hq h1 h2 => by
      have := hsub q hq h1 (by simpa only [countParens] using h2)
      simpa only [namedGroups] using this)
  | .nc n, pi, names, h, hsub => by
    simp only [NamesOK]; simp only [groupNames] at h
    exact namesOK_node p n pi names h (fun q hq h1 h2 => by
      have := hsub q hq h1 (by simpa only [countParens] using h2)
      simpa only [namedGroups] using this)
  | .mod _ _ n, pi, names, h, hsub => by
    simp only [NamesOK]; simp only [groupNames] at h
    exact namesOK_node p n pi names h (fun q hq h1 h2 => by
      have := hsub q hq h1 (by simpa only [countParens] using h2)
      simpa only [namedGroups] using this)
  | .look _ _ n, pi, names, h, hsub => by
    simp only [NamesOK]; simp only [groupNames] at h
    exact namesOK_node p n pi names h (fun q hq h1 h2 => by
      have := hsub q hq h1 (by simpa only [countParens] using h2)
      simpa only [namedGroups] using this)
  | .quant _ _ _ n, pi, names, h, hsub => by
    simp only [NamesOK]; simp only [groupNames] at h
    exact namesOK_node p n pi names h (fun q hq h1 h2 => by
      have := hsub q hq h1 (by simpa only [countParens] using h2)
      simpa only [namedGroups] using this)
  | .empty, _, _, _, _ => by simp [NamesOK]
  | .char _, _, _, _, _ => by simp [NamesOK]
  | .dot, _, _, _, _ => by simp [NamesOK]
  | .bol, _, _, _, _ => by simp [NamesOK]
  | .eol, _, _, _, _ => by simp [NamesOK]
  | .wb, _, _, _, _ => by simp [NamesOK]
  | .nwb, _, _, _, _ => by simp [NamesOK]
  | .bref _, _, _, _, _ => by simp [NamesOK]
  | .nref _, _, _, _, _ => by simp [NamesOK]
  | .esc _, _, _, _, _ => by simp [NamesOK]
  | .prop _ _ _, _, _, _, _ => by simp [NamesOK]
  | .cls _ _, _, _, _, _ => by simp [NamesOK]
  | .vcls _ _ _, _, _, _, _ => by simp [NamesOK]
theorem namesOK_seq (p : Node) : ∀ (ns : List Node) (pi : Nat) (names : List (List Nat)),
    groupNamesSeq ns = .ok names → SubL p ns pi → NamesOKSeq p ns pi
  | [], _, _, _, _ => by simp [NamesOKSeq]
  | n :: ns, pi, names, h, hsub => by
    simp only [NamesOKSeq]
    simp only [groupNamesSeq] at h
    cases ha : groupNames n with
    | error e => rw [ha] at h; simp at h
    | ok a =>
      cases hb : groupNamesSeq ns with
      | error e => rw [ha, hb] at h; simp at h
      | ok b =>
        rw [ha, hb] at h
        simp only at h
        split at h
        · cases h
        · rename_i hany
          refine ⟨namesOK_node p n pi a ha hsub.head, ?_, namesOK_seq p ns _ b hb hsub.tail⟩
          intro g g' h1 h2 h3 h4 hs
          obtain ⟨nm, hna, hnb⟩ := sameName_namesSeq hsub.head hsub.tail ha hb ⟨h1, h2⟩ ⟨h3, h4⟩ hs
          apply hany
          simp only [List.any_eq_true]
          exact ⟨nm, hna, by simpa using hnb⟩
theorem namesOK_alt (p : Node) : ∀ (ns : List Node) (pi : Nat) (names : List (List Nat)),
    groupNamesAlt ns = .ok names → SubL p ns pi → NamesOKAlt p ns pi
  | [], _, _, _, _ => by simp [NamesOKAlt]
  | n :: ns, pi, names, h, hsub => by
    simp only [NamesOKAlt]
    simp only [groupNamesAlt] at h
    cases ha : groupNames n with
    | error e => rw [ha] at h; simp at h
    | ok a =>
      cases hb : groupNamesAlt ns with
      | error e => rw [ha, hb] at h; simp at h
      | ok b => exact ⟨namesOK_node p n pi a ha hsub.head, namesOK_alt p ns _ b hb hsub.tail⟩
end

/-- **The early-error rule gives the static facts.** -/
theorem namesOK_of_groupNames {p : Node} {names : List (List Nat)} (h : groupNames p = .ok names) :
    NamesOK p p 0 :=
  namesOK_node p p 0 names h (fun _ hq _ _ => hq)

/-! ## The group numbers of one name are distinct -/

mutual
theorem namedGroups_sorted : ∀ (n : Node) (pi : Nat), (namedGroups n pi).Pairwise (fun a b => a.2 < b.2)
  | .group _ name n, pi => by
    simp only [namedGroups]
    rw [List.pairwise_append]
    refine ⟨by cases name <;> simp, namedGroups_sorted n (pi + 1), fun a ha b hb => ?_⟩
    have := Regress.Lower.namedGroups_bound n (pi + 1) b hb
    cases name with
    | none => simp at ha
    | some nm => simp only [List.mem_singleton] at ha; subst ha; simp only; omega
  | .cat ns, pi => by simp only [namedGroups]; exact namedGroupsList_sorted ns pi
  | .alt ns, pi => by simp only [namedGroups]; exact namedGroupsList_sorted ns pi
  | .nc n, pi => by simp only [namedGroups]; exact namedGroups_sorted n pi
  | .mod _ _ n, pi => by simp only [namedGroups]; exact namedGroups_sorted n pi
  | .look _ _ n, pi => by simp only [namedGroups]; exact namedGroups_sorted n pi
  | .quant _ _ _ n, pi => by simp only [namedGroups]; exact namedGroups_sorted n pi
  | .empty, _ => by simp [namedGroups]
  | .char _, _ => by simp [namedGroups]
  | .dot, _ => by simp [namedGroups]
  | .bol, _ => by simp [namedGroups]
  | .eol, _ => by simp [namedGroups]
  | .wb, _ => by simp [namedGroups]
  | .nwb, _ => by simp [namedGroups]
  | .bref _, _ => by simp [namedGroups]
  | .nref _, _ => by simp [namedGroups]
  | .esc _, _ => by simp [namedGroups]
  | .prop _ _ _, _ => by simp [namedGroups]
  | .cls _ _, _ => by simp [namedGroups]
  | .vcls _ _ _, _ => by simp [namedGroups]
theorem namedGroupsList_sorted : ∀ (ns : List Node) (pi : Nat),
    (namedGroupsList ns pi).Pairwise (fun a b => a.2 < b.2)
  | [], _ => by simp [namedGroupsList]
  | n :: ns, pi => by
    simp only [namedGroupsList]
    rw [List.pairwise_append]
    refine ⟨namedGroups_sorted n pi, namedGroupsList_sorted ns _, fun a ha b hb => ?_⟩
    have h1 := Regress.Lower.namedGroups_bound n pi a ha
    have h2 := Regress.Lower.namedGroupsList_bound ns _ b hb
    omega
end

theorem gs_nodup (p : Node) (nm : List Nat) : (groupSpecifiersThatMatch p nm).Nodup := by
  have h : (groupSpecifiersThatMatch p nm).Pairwise (· < ·) := by
    simp only [groupSpecifiersThatMatch]
    apply List.Pairwise.filterMap _ _ (namedGroups_sorted p 0)
    intro a a' hlt b hb b' hb'
    split at hb
    · split at hb'
      · simp only [Option.some.injEq] at hb hb'
        omega
      · cases hb'
    · cases hb
  exact h.imp (fun h => Nat.ne_of_lt h)

/-! ## `BackreferenceMatcher` over several groups of which at most one is defined -/

/-- steps a.–b. of `BackreferenceMatcher`: the defined capture among `ns` -/
def pickCapture (caps : Caps) (r0 : Option (Nat × Nat)) (ns : List Nat) : Option (Nat × Nat) :=
  ns.foldl (fun r n => match getCapture caps n with
                       | some v => some v
                       | none => r) r0

/-- steps c.–n. of `BackreferenceMatcher` -/
def brefRun (input : Array Nat) (rer : RER) (direction : Direction) (r : Option (Nat × Nat)) (x : State)
    (c : Cont) : MatchResult :=
  match r with
  | none => c x
  | some (rs, re) =>
    let e := x.endIndex
    let len := re - rs
    if (direction = .backward ∧ e < len) ∨ (direction = .forward ∧ e + len > input.size) then
      .failure
    else
    let f := if direction = .forward then e + len else e - len
    let g := min e f
    if allBelow (fun i => canonicalize rer (input.getD (rs + i) 0) ==
                          canonicalize rer (input.getD (g + i) 0)) len
    then c { x with endIndex := f }
    else .failure

theorem backreferenceMatcher_run (input : Array Nat) (rer : RER) (ns : List Nat) (d : Direction) (fuel : Nat)
    (x : State) (c : Cont) :
    (backreferenceMatcher input rer ns d).run fuel x c = brefRun input rer d (pickCapture x.captures none ns) x c :=
  rfl

theorem brefRun_none (input : Array Nat) (rer : RER) (d : Direction) (x : State) (c : Cont) :
    brefRun input rer d none x c = c x := rfl

theorem pickCapture_undef (caps : Caps) : ∀ (ns : List Nat) (r0 : Option (Nat × Nat)),
    (∀ g ∈ ns, getCapture caps g = none) → pickCapture caps r0 ns = r0
  | [], _, _ => rfl
  | g :: t, r0, h => by
    simp only [pickCapture, List.foldl_cons, h g (by simp)]
    exact pickCapture_undef caps t r0 (fun g' hg' => h g' (List.mem_cons_of_mem _ hg'))

theorem pickCapture_cons_undef (caps : Caps) (g : Nat) (t : List Nat) (h : getCapture caps g = none) :
    pickCapture caps none (g :: t) = pickCapture caps none t := by
  simp only [pickCapture, List.foldl_cons, h]

theorem pickCapture_cons_def (caps : Caps) (g : Nat) (t : List Nat) (v : Nat × Nat) (h : getCapture caps g = some v)
    (ht : ∀ g' ∈ t, getCapture caps g' = none) : pickCapture caps none (g :: t) = some v := by
  simp only [pickCapture, List.foldl_cons, h]
  exact pickCapture_undef caps t (some v) ht

theorem pickCapture_single (caps : Caps) (g : Nat) : pickCapture caps none [g] = getCapture caps g := by
  simp only [pickCapture, List.foldl_cons, List.foldl_nil]
  cases getCapture caps g <;> rfl

theorem brefRun_congr (input : Array Nat) (rer : RER) (d : Direction) (r : Option (Nat × Nat)) (x : State)
    (c c' : Cont) (h : ∀ y, y.captures = x.captures → c y = c' y) :
    brefRun input rer d r x c = brefRun input rer d r x c' := by
  simp only [brefRun]
  repeat (first | rfl | exact h _ rfl | split)

/-- At most one of the (distinct) groups `l` is defined. -/
def OneOf (caps : Caps) (l : List Nat) : Prop :=
  l.Nodup ∧ ∀ g ∈ l, ∀ g' ∈ l, getCapture caps g ≠ none → getCapture caps g' ≠ none → g = g'

theorem OneOf.tail {caps : Caps} {g : Nat} {t : List Nat} (h : OneOf caps (g :: t)) : OneOf caps t :=
  ⟨(List.nodup_cons.1 h.1).2, fun a ha b hb => h.2 a (List.mem_cons_of_mem _ ha) b (List.mem_cons_of_mem _ hb)⟩

theorem OneOf.rest_undef {caps : Caps} {g : Nat} {t : List Nat} (h : OneOf caps (g :: t)) {v : Nat × Nat}
    (hg : getCapture caps g = some v) : ∀ g' ∈ t, getCapture caps g' = none := by
  intro g' hg'
  cases hc : getCapture caps g' with
  | none => rfl
  | some w =>
    exfalso
    have := h.2 g (by simp) g' (List.mem_cons_of_mem _ hg') (by rw [hg]; simp) (by rw [hc]; simp)
    subst this
    exact (List.nodup_cons.1 h.1).1 hg'

/-- **`\k<n>` for a duplicated name is the sequence of the numeric back-references**, forward. -/
theorem brefs_fwd (input : Array Nat) (p : Node) (rer : RER) (pi fuel : Nat) (caps : Caps) (c : Cont) :
    ∀ (l : List Nat), OneOf caps l → ∀ x : State, x.captures = caps →
      (compileAlternative input p emptyMatcher (l.map .bref) rer .forward pi).run fuel x c =
        brefRun input rer .forward (pickCapture caps none l) x c
  | [], _, x, _ => by simp [compileAlternative, emptyMatcher, brefRun, pickCapture]
  | g :: t, h, x, hx => by
    simp only [List.map_cons]
    rw [Regress.Lower.compileAlternative_cons_fwd]
    simp only [compileNode, countParens, Nat.add_zero]
    rw [backreferenceMatcher_run, pickCapture_single, hx]
    have ih := brefs_fwd input p rer pi fuel caps c t h.tail
    cases hg : getCapture caps g with
    | none =>
      rw [pickCapture_cons_undef _ _ _ hg, brefRun_none]
      exact ih x hx
    | some v =>
      rw [pickCapture_cons_def _ _ _ _ hg (h.rest_undef hg)]
      apply brefRun_congr
      intro y hy
      rw [ih y (by rw [hy, hx]), pickCapture_undef _ _ _ (h.rest_undef hg), brefRun_none]

/-- …and backward (inside a look-behind). -/
theorem brefs_bwd (input : Array Nat) (p : Node) (rer : RER) (pi fuel : Nat) (caps : Caps) :
    ∀ (l : List Nat), OneOf caps l → ∀ (x : State) (c : Cont), x.captures = caps →
      (compileAlternative input p emptyMatcher (l.map .bref) rer .backward pi).run fuel x c =
        brefRun input rer .backward (pickCapture caps none l) x c
  | [], _, x, c, _ => by simp [compileAlternative, emptyMatcher, brefRun, pickCapture]
  | g :: t, h, x, c, hx => by
    simp only [List.map_cons]
    rw [Regress.Lower.compileAlternative_cons_bwd]
    simp only [compileNode, countParens, Nat.add_zero]
    rw [brefs_bwd input p rer pi fuel caps t h.tail x _ hx]
    cases hg : getCapture caps g with
    | none =>
      rw [pickCapture_cons_undef _ _ _ hg]
      apply brefRun_congr
      intro y hy
      rw [backreferenceMatcher_run, pickCapture_single, hy, hx, hg, brefRun_none]
    | some v =>
      rw [pickCapture_cons_def _ _ _ _ hg (h.rest_undef hg), pickCapture_undef _ _ _ (h.rest_undef hg),
        brefRun_none, backreferenceMatcher_run, pickCapture_single, hx, hg]

theorem oneOf_gs {p : Node} {caps : Caps} (h : AtMostOne p caps) (nm : List Nat) :
    OneOf caps (groupSpecifiersThatMatch p nm) :=
  ⟨gs_nodup p nm, fun g hg g' hg' h1 h2 => h g g' ⟨nm, hg, hg'⟩ h1 h2⟩

/-- **Item 2, specification side**: under the invariant, `BackreferenceMatcher(rer, ns, direction)` over
all groups of a name is the sequence (in `direction`) of the `BackreferenceMatcher`s of the single
groups — same result for every continuation, forward and backward, any RegExp Record. -/
theorem nref_dup_run (input : Array Nat) (p p' : Node) (rer : RER) (d : Direction) (nm : List Nat) (pi fuel : Nat)
    (x : State) (c : Cont) (hx : AtMostOne p x.captures) :
    (compileAlternative input p' emptyMatcher ((groupSpecifiersThatMatch p nm).map .bref) rer d pi).run fuel x c =
      (backreferenceMatcher input rer (groupSpecifiersThatMatch p nm) d).run fuel x c := by
  have hone := oneOf_gs hx nm
  rw [backreferenceMatcher_run]
  cases d with
  | forward => exact brefs_fwd input p' rer pi fuel x.captures c _ hone x rfl
  | backward => exact brefs_bwd input p' rer pi fuel x.captures _ hone x c rfl

theorem msim_nref_dup (input : Array Nat) (p p' : Node) (rer : RER) (d : Direction) (nm : List Nat) (pi lo hi : Nat) :
    MSim p (backreferenceMatcher input rer (groupSpecifiersThatMatch p nm) d)
      (compileAlternative input p' emptyMatcher ((groupSpecifiersThatMatch p nm).map .bref) rer d pi) lo hi := by
  intro Q hQ fuel x c c' hpre hc
  rw [nref_dup_run input p p' rer d nm pi fuel x c' hpre.1]
  exact msim_backreferenceMatcher p input rer _ d lo hi Q hQ fuel x c c' hpre hc

/-! ## The AST without named back-references to duplicated names -/

mutual
/-- Every `\k<n>` whose name is carried by two or more groups of `p` becomes the sequence of the
numeric back-references to those groups (what the crate's parser builds). -/
def elimDup (p : Node) : Node → Node
  | .cat ns => .cat (elimDupList p ns)
  | .alt ns => .alt (elimDupList p ns)
  | .group i nm n => .group i nm (elimDup p n)
  | .nc n => .nc (elimDup p n)
  | .mod a r n => .mod a r (elimDup p n)
  | .look a g n => .look a g (elimDup p n)
  | .quant mn mx g n => .quant mn mx g (elimDup p n)
  | .nref name =>
    if 2 ≤ (groupSpecifiersThatMatch p name).length then .cat ((groupSpecifiersThatMatch p name).map .bref)
    else .nref name
  | n => n
def elimDupList (p : Node) : List Node → List Node
  | [] => []
  | n :: ns => elimDup p n :: elimDupList p ns
end

theorem countParensList_brefs (l : List Nat) : countParensList (l.map .bref) = 0 := by
  induction l with
  | nil => rfl
  | cons a t ih => simp [countParensList, countParens, ih]

theorem namedGroupsList_brefs (l : List Nat) (pi : Nat) : namedGroupsList (l.map .bref) pi = [] := by
  induction l generalizing pi with
  | nil => rfl
  | cons a t ih => simp [namedGroupsList, namedGroups, ih]

theorem elimDup_counts (p : Node) (n : Node) :
    countParens (elimDup p n) = countParens n ∧ ∀ pi, namedGroups (elimDup p n) pi = namedGroups n pi := by
  induction n using Node.rec
    (motive_2 := fun ns => countParensList (elimDupList p ns) = countParensList ns ∧
      ∀ pi, namedGroupsList (elimDupList p ns) pi = namedGroupsList ns pi) with
  | cat ns ih => simpa only [elimDup, countParens, namedGroups] using ih
  | alt ns ih => simpa only [elimDup, countParens, namedGroups] using ih
  | group idx name n ih => simp only [elimDup, countParens, namedGroups, ih.1, ih.2]; simp
  | nc n ih => simpa only [elimDup, countParens, namedGroups] using ih
  | mod a r n ih => simpa only [elimDup, countParens, namedGroups] using ih
  | look a g n ih => simpa only [elimDup, countParens, namedGroups] using ih
  | quant mn mx g n ih => simpa only [elimDup, countParens, namedGroups] using ih
  | nref name =>
    simp only [elimDup]
    split
    · simp [countParens, namedGroups, countParensList_brefs, namedGroupsList_brefs]
    · simp
  | nil => simp [elimDupList]
  | cons a as iha ihas =>
    simp only [elimDupList, countParensList, namedGroupsList, iha.1, iha.2, ihas.1, ihas.2]; simp
  | _ => simp [elimDup]

theorem countParens_elimDup (p n : Node) : countParens (elimDup p n) = countParens n := (elimDup_counts p n).1

theorem gs_elimDup (p : Node) (nm : List Nat) :
    groupSpecifiersThatMatch (elimDup p p) nm = groupSpecifiersThatMatch p nm := by
  simp only [groupSpecifiersThatMatch, (elimDup_counts p p).2]

/-- **Under the invariant the two ASTs have the same Matcher** (every node, both directions, every
RegExp Record). -/
theorem elim_msim (input : Array Nat) (p p' : Node)
    (hgs : ∀ nm, groupSpecifiersThatMatch p' nm = groupSpecifiersThatMatch p nm) (n : Node) :
    ∀ rer d pi, NamesOK p n pi →
      MSim p (compileNode input p n rer d pi) (compileNode input p' (elimDup p n) rer d pi) pi
        (pi + countParens n) := by
  induction n using Node.rec
    (motive_2 := fun ns =>
      (∀ rer d pi, NamesOKSeq p ns pi →
        MSim p (compileAlternative input p emptyMatcher ns rer d pi)
          (compileAlternative input p' emptyMatcher (elimDupList p ns) rer d pi) pi (pi + countParensList ns)) ∧
      (∀ rer d pi, NamesOKAlt p ns pi →
        MSim p (compileDisjunction input p ns rer d pi)
          (compileDisjunction input p' (elimDupList p ns) rer d pi) pi (pi + countParensList ns))) with
  | empty => intro rer d pi _; simp only [compileNode, elimDup]; exact msim_empty _ _ _
  | char c => intro rer d pi _; simp only [compileNode, elimDup]; exact msim_characterSetMatcher _ _ _ _ _ _ _ _
  | dot => intro rer d pi _; simp only [compileNode, elimDup]; exact msim_characterSetMatcher _ _ _ _ _ _ _ _
  | bol => intro rer d pi _; simp only [compileNode, elimDup]; exact msim_bolMatcher _ _ _ _ _
  | eol => intro rer d pi _; simp only [compileNode, elimDup]; exact msim_eolMatcher _ _ _ _ _
  | wb => intro rer d pi _; simp only [compileNode, elimDup]; exact msim_wordBoundaryMatcher _ _ _ _ _ _
  | nwb => intro rer d pi _; simp only [compileNode, elimDup]; exact msim_wordBoundaryMatcher _ _ _ _ _ _
  | cat ns ih =>
    intro rer d pi hn
    simp only [NamesOK] at hn
    simp only [compileNode, elimDup, countParens]
    exact ih.1 rer d pi hn
  | alt ns ih =>
    intro rer d pi hn
    simp only [NamesOK] at hn
    simp only [compileNode, elimDup, countParens]
    exact ih.2 rer d pi hn
  | group idx name n ih =>
    intro rer d pi hn
    simp only [NamesOK] at hn
    simp only [elimDup]
    rw [compileNode_group, compileNode_group]
    simp only [countParens]
    have hrange : pi + (1 + countParens n) = pi + 1 + countParens n := by omega
    rw [hrange]
    exact msim_group d (ih rer d (pi + 1) hn.1) (by omega) hn.2
  | nc n ih =>
    intro rer d pi hn
    simp only [NamesOK] at hn
    simp only [compileNode, elimDup, countParens]
    exact ih rer d pi hn
  | mod add rem n ih =>
    intro rer d pi hn
    simp only [NamesOK] at hn
    simp only [compileNode, elimDup, countParens]
    exact ih _ d pi hn
  | look ahead neg n ih =>
    intro rer d pi hn
    simp only [NamesOK] at hn
    simp only [compileNode, elimDup, countParens]
    split
    · exact msim_negativeLook (ih _ _ _ hn)
    · exact msim_positiveLook (ih _ _ _ hn)
  | bref idx =>
    intro rer d pi _; simp only [compileNode, elimDup]; exact msim_backreferenceMatcher _ _ _ _ _ _ _
  | nref name =>
    intro rer d pi _
    simp only [elimDup]
    split
    · simp only [compileNode, countParens]
      exact msim_nref_dup input p p' rer d name pi pi (pi + 0)
    · simp only [compileNode, hgs]; exact msim_backreferenceMatcher _ _ _ _ _ _ _
  | quant min max greedy n ih =>
    intro rer d pi hn
    simp only [NamesOK] at hn
    simp only [compileNode, elimDup, countParens, countParens_elimDup]
    exact msim_quant (ih rer d pi hn) greedy min max
  | esc e => intro rer d pi _; simp only [compileNode, elimDup]; exact msim_charSetAtomMatcher _ _ _ _ _ _ _
  | prop neg kind name =>
    intro rer d pi _; simp only [compileNode, elimDup]; exact msim_charSetAtomMatcher _ _ _ _ _ _ _
  | cls neg items => intro rer d pi _; simp only [compileNode, elimDup]; exact msim_charSetAtomMatcher _ _ _ _ _ _ _
  | vcls neg op ops =>
    intro rer d pi _; simp only [compileNode, elimDup]; exact msim_charSetAtomMatcher _ _ _ _ _ _ _
  | nil =>
    refine ⟨fun rer d pi _ => ?_, fun rer d pi _ => ?_⟩
    · simp only [compileAlternative, elimDupList]; exact msim_empty _ _ _
    · simp only [compileDisjunction, elimDupList]; exact msim_fail _ _ _
  | cons a as iha ihas =>
    refine ⟨fun rer d pi hn => ?_, fun rer d pi hn => ?_⟩
    · simp only [NamesOKSeq] at hn
      obtain ⟨hna, hdisj, hnas⟩ := hn
      have h1 := iha rer d pi hna
      have h2 := ihas.1 rer d (pi + countParens a) hnas
      simp only [elimDupList, countParensList]
      have hrange : pi + (countParens a + countParensList as) = pi + countParens a + countParensList as := by
        omega
      rw [hrange]
      intro Q hQ fuel x c c' hpre hc
      cases d with
      | forward =>
        rw [Regress.Lower.compileAlternative_cons_fwd, Regress.Lower.compileAlternative_cons_fwd,
          countParens_elimDup]
        exact msim_then h1 h2 (Nat.le_refl _) (by omega) (by omega) (Nat.le_refl _) (.inl (Nat.le_refl _))
          hdisj Q hQ fuel x c c' hpre hc
      | backward =>
        rw [Regress.Lower.compileAlternative_cons_bwd, Regress.Lower.compileAlternative_cons_bwd,
          countParens_elimDup]
        exact msim_then h2 h1 (by omega) (Nat.le_refl _) (Nat.le_refl _) (by omega) (.inr (Nat.le_refl _))
          (fun g g' a1 a2 b1 b2 hs => hdisj g' g b1 b2 a1 a2 hs.symm) Q hQ fuel x c c' hpre hc
    · simp only [NamesOKAlt] at hn
      have h1 := iha rer d pi hn.1
      have h2 := ihas.2 rer d (pi + countParens a) hn.2
      cases as with
      | nil =>
        simp only [elimDupList, compileDisjunction, countParensList, Nat.add_zero]
        exact h1
      | cons b bs =>
        simp only [elimDupList, compileDisjunction, countParens_elimDup] at h2 ⊢
        simp only [countParensList] at h2 ⊢
        exact msim_matchTwoAlternatives (h1.mono (Nat.le_refl _) (by omega)) (h2.mono (by omega) (by omega))

/-- **`matchAt` of a pattern with valid names is `matchAt` of the pattern without named
back-references to duplicated names**, and every success state satisfies the invariant. -/
theorem matchAt_elimDup (input : Array Nat) (p : Node) {names : List (List Nat)} (h : groupNames p = .ok names)
    (rer : RER) (fuel i : Nat) :
    matchAt input p rer fuel i = matchAt input (elimDup p p) rer fuel i ∧
      ∀ y, matchAt input p rer fuel i = .success y → AtMostOne p y.captures := by
  have hm := elim_msim input p (elimDup p p) (gs_elimDup p) p rer .forward 0 (namesOK_of_groupNames h)
  have := hm (fun r r' => r = r' ∧ ∀ y, r = .success y → AtMostOne p y.captures)
    ⟨⟨rfl, fun y hy => by cases hy⟩, ⟨rfl, fun y hy => by cases hy⟩, fun r r' hr => by rw [hr.1]⟩
    fuel { endIndex := i, captures := List.replicate rer.capturingGroupsCount none }
    (fun y => .success y) (fun y => .success y)
    ⟨fun g g' _ hg _ => absurd (getCapture_replicate _ g) hg,
     fun g _ _ => ⟨getCapture_replicate _ g, fun g' _ => getCapture_replicate _ g'⟩⟩
    (fun y hy => ⟨rfl, fun y' hy' => by cases hy'; exact hy.1⟩)
  exact this

end Regress.ES

namespace Regress.Lower

open Regress Regress.IR Regress.VM Regress.Parse

/-! ## The lowering of the AST without named back-references to duplicated names -/

mutual
/-- `supported` without the condition that a named back-reference resolves to a single group. -/
def supportedDup (pattern : ES.Node) : IR.Flags → ES.Node → Bool
  | _, .empty => true
  | fl, .char _ => !fl.icase || fl.unicode
  | fl, .dot => !fl.icase || fl.unicode
  | _, .bol => true
  | _, .eol => true
  | fl, .wb => !fl.icase || fl.unicode
  | fl, .nwb => !fl.icase || fl.unicode
  | fl, .cat ns => supportedDupList pattern fl ns
  | fl, .alt ns => supportedDupList pattern fl ns
  | fl, .group _ _ n => supportedDup pattern fl n
  | fl, .nc n => supportedDup pattern fl n
  | fl, .mod add rem n => supportedDup pattern (applyMods fl (modsOf add rem)) n
  | fl, .look _ _ n => supportedDup pattern fl n
  | fl, .bref _ => !fl.icase || fl.unicode
  | fl, .nref _ => !fl.icase || fl.unicode
  | fl, .quant _ _ _ n => supportedDup pattern fl n
  | fl, .esc e => classSupportedAny fl (.esc e)
  | fl, .prop neg kind name => classSupportedAny fl (.prop neg kind name)
  | fl, .cls neg items => classSupportedAny fl (.cls neg items)
  | fl, .vcls neg op ops => classSupportedAny fl (.vcls neg op ops)
def supportedDupList (pattern : ES.Node) : IR.Flags → List ES.Node → Bool
  | _, [] => true
  | fl, n :: ns => supportedDup pattern fl n && supportedDupList pattern fl ns
end

theorem supportedList_brefs (p : ES.Node) (fl : IR.Flags) (h : (!fl.icase || fl.unicode) = true) (l : List Nat) :
    supportedList p fl (l.map .bref) = true := by
  induction l with
  | nil => rfl
  | cons a t ih => simp only [List.map_cons, supportedList, supported, h, ih, Bool.and_self]

theorem lowerList_brefs (p : ES.Node) (total : Nat) (fl : IR.Flags) (pi : Nat) (l : List Nat)
    (h : ∀ i ∈ l, 1 ≤ i ∧ i ≤ total) :
    lowerList p total (l.map .bref) fl pi = .ok (l.map fun i => .backRef i fl.icase) := by
  induction l generalizing pi with
  | nil => rfl
  | cons a t ih =>
    simp only [List.map_cons, lowerList, lowerNode, h a (by simp), and_self, if_true,
      ih _ (fun i hi => h i (List.mem_cons_of_mem _ hi))]

theorem elimDupList_isEmpty (p : ES.Node) (ns : List ES.Node) : (ES.elimDupList p ns).isEmpty = ns.isEmpty := by
  cases ns <;> rfl

theorem quantifiable_elimDup (p : ES.Node) (fl : IR.Flags) (n : ES.Node) :
    quantifiable fl (ES.elimDup p n) = quantifiable fl n := by
  cases n with
  | nref name => simp only [ES.elimDup]; split <;> rfl
  | _ => simp only [ES.elimDup, quantifiable]

theorem ite_err {α : Type} {c : Prop} [Decidable c] {e : String} {X : Except String α} {r : α} :
    (if c then .error e else X) = .ok r ↔ (¬ c ∧ X = .ok r) := by
  split <;> simp [*]

mutual
/-- The IR of the AST without named back-references to duplicated names is the IR of the AST, and it
lies in the fragment `supported`. -/
theorem elim_lower (p p' : ES.Node) (total : Nat) (htot : ES.countParens p ≤ total)
    (hgs : ∀ nm, ES.groupSpecifiersThatMatch p' nm = ES.groupSpecifiersThatMatch p nm) :
    ∀ (n : ES.Node) (fl : IR.Flags) (pi : Nat) (ir : Node), supportedDup p fl n = true →
      lowerNode p total n fl pi = .ok ir →
      supported p' fl (ES.elimDup p n) = true ∧ lowerNode p' total (ES.elimDup p n) fl pi = .ok ir
  | .empty, fl, pi, ir, hs, hl => by
    simp only [ES.elimDup, supported, lowerNode] at hl ⊢; exact ⟨trivial, hl⟩
  | .char c, fl, pi, ir, hs, hl => by
    simp only [ES.elimDup, supported, supportedDup, lowerNode] at hs hl ⊢; exact ⟨hs, hl⟩
  | .dot, fl, pi, ir, hs, hl => by
    simp only [ES.elimDup, supported, supportedDup, lowerNode] at hs hl ⊢; exact ⟨hs, hl⟩
  | .bol, fl, pi, ir, hs, hl => by
    simp only [ES.elimDup, supported, lowerNode] at hl ⊢; exact ⟨trivial, hl⟩
  | .eol, fl, pi, ir, hs, hl => by
    simp only [ES.elimDup, supported, lowerNode] at hl ⊢; exact ⟨trivial, hl⟩
  | .wb, fl, pi, ir, hs, hl => by
    simp only [ES.elimDup, supported, supportedDup, lowerNode] at hs hl ⊢; exact ⟨hs, hl⟩
  | .nwb, fl, pi, ir, hs, hl => by
    simp only [ES.elimDup, supported, supportedDup, lowerNode] at hs hl ⊢; exact ⟨hs, hl⟩
  | .cat ns, fl, pi, ir, hs, hl => by
    simp only [supportedDup] at hs
    simp only [ES.elimDup, supported, lowerNode] at hl ⊢
    cases hxs : lowerList p total ns fl pi with
    | error e => rw [hxs] at hl; cases hl
    | ok xs =>
      rw [hxs] at hl
      obtain ⟨h1, h2⟩ := elim_lowerList p p' total htot hgs ns fl pi xs hs hxs
      rw [h2]; exact ⟨h1, hl⟩
  | .alt ns, fl, pi, ir, hs, hl => by
    simp only [supportedDup] at hs
    simp only [ES.elimDup, supported, lowerNode, elimDupList_isEmpty] at hl ⊢
    split at hl
    · cases hl
    · rename_i hne
      simp only [hne]
      cases hxs : lowerList p total ns fl pi with
      | error e => rw [hxs] at hl; cases hl
      | ok xs =>
        rw [hxs] at hl
        obtain ⟨h1, h2⟩ := elim_lowerList p p' total htot hgs ns fl pi xs hs hxs
        rw [h2]; exact ⟨h1, hl⟩
  | .group idx name n, fl, pi, ir, hs, hl => by
    simp only [supportedDup] at hs
    simp only [ES.elimDup, supported, lowerNode] at hl ⊢
    cases hc : lowerNode p total n fl (pi + 1) with
    | error e => rw [hc] at hl; cases hl
    | ok c0 =>
      rw [hc] at hl
      obtain ⟨h1, h2⟩ := elim_lower p p' total htot hgs n fl (pi + 1) c0 hs hc
      rw [h2]; exact ⟨h1, hl⟩
  | .nc n, fl, pi, ir, hs, hl => by
    simp only [supportedDup] at hs
    simp only [ES.elimDup, supported, lowerNode] at hl ⊢
    exact elim_lower p p' total htot hgs n fl pi ir hs hl
  | .mod add rem n, fl, pi, ir, hs, hl => by
    simp only [supportedDup] at hs
    simp only [ES.elimDup, supported, lowerNode] at hl ⊢
    split at hl
    · cases hl
    · rename_i hm
      simp only [hm]
      exact elim_lower p p' total htot hgs n _ pi ir hs hl
  | .look ahead neg n, fl, pi, ir, hs, hl => by
    simp only [supportedDup] at hs
    simp only [ES.elimDup, supported, lowerNode, ES.countParens_elimDup] at hl ⊢
    cases hc : lowerNode p total n fl pi with
    | error e => rw [hc] at hl; cases hl
    | ok c0 =>
      rw [hc] at hl
      obtain ⟨h1, h2⟩ := elim_lower p p' total htot hgs n fl pi c0 hs hc
      rw [h2]; exact ⟨h1, hl⟩
  | .bref k, fl, pi, ir, hs, hl => by
    simp only [ES.elimDup, supported, supportedDup, lowerNode] at hs hl ⊢; exact ⟨hs, hl⟩
  | .nref name, fl, pi, ir, hs, hl => by
    simp only [supportedDup] at hs
    simp only [lowerNode] at hl
    simp only [ES.elimDup]
    match hg : ES.groupSpecifiersThatMatch p name with
    | [] => rw [hg] at hl; cases hl
    | [i] =>
      rw [hg] at hl
      simp only [List.length_cons, List.length_nil, Nat.zero_add, Nat.reduceLeDiff, if_false, supported, lowerNode,
        hgs, hg, hs, Bool.true_and, beq_self_eq_true]
      exact ⟨trivial, hl⟩
    | i :: j :: rest =>
      rw [hg] at hl
      simp only [Except.ok.injEq] at hl
      have hlen : 2 ≤ (i :: j :: rest).length := by simp
      simp only [hlen, if_true, supported, lowerNode]
      refine ⟨supportedList_brefs p' fl hs _, ?_⟩
      rw [lowerList_brefs p' total fl pi (i :: j :: rest) (fun k hk => by
        have := groupSpecifiers_bound p name k (by rw [hg]; exact hk); omega)]
      rw [← hl]
      simp [makeCat]
  | .quant min max greedy n, fl, pi, ir, hs, hl => by
    simp only [supportedDup] at hs
    simp only [ES.elimDup, supported, lowerNode, ES.countParens_elimDup, quantifiable_elimDup, ite_err] at hl ⊢
    obtain ⟨h1, h2, h3, hl⟩ := hl
    cases hc : lowerNode p total n fl pi with
    | error e => rw [hc] at hl; cases hl
    | ok c0 =>
      rw [hc] at hl
      obtain ⟨h4, h5⟩ := elim_lower p p' total htot hgs n fl pi c0 hs hc
      rw [h5]; exact ⟨h4, h1, h2, h3, hl⟩
  | .esc e, fl, pi, ir, hs, hl => by
    simp only [ES.elimDup, supported, supportedDup, lowerNode] at hs hl ⊢; exact ⟨hs, hl⟩
  | .prop neg kind name, fl, pi, ir, hs, hl => by
    simp only [ES.elimDup, supported, supportedDup, lowerNode] at hs hl ⊢; exact ⟨hs, hl⟩
  | .cls neg items, fl, pi, ir, hs, hl => by
    simp only [ES.elimDup, supported, supportedDup, lowerNode] at hs hl ⊢; exact ⟨hs, hl⟩
  | .vcls neg op ops, fl, pi, ir, hs, hl => by
    simp only [ES.elimDup, supported, supportedDup, lowerNode] at hs hl ⊢; exact ⟨hs, hl⟩
theorem elim_lowerList (p p' : ES.Node) (total : Nat) (htot : ES.countParens p ≤ total)
    (hgs : ∀ nm, ES.groupSpecifiersThatMatch p' nm = ES.groupSpecifiersThatMatch p nm) :
    ∀ (ns : List ES.Node) (fl : IR.Flags) (pi : Nat) (xs : List Node), supportedDupList p fl ns = true →
      lowerList p total ns fl pi = .ok xs →
      supportedList p' fl (ES.elimDupList p ns) = true ∧ lowerList p' total (ES.elimDupList p ns) fl pi = .ok xs
  | [], fl, pi, xs, hs, hl => by
    simp only [ES.elimDupList, supportedList, lowerList] at hl ⊢; exact ⟨trivial, hl⟩
  | n :: ns, fl, pi, xs, hs, hl => by
    simp only [supportedDupList, Bool.and_eq_true] at hs
    obtain ⟨x0, xs0, hx0, hxs0, rfl⟩ := lowerList_cons.1 hl
    obtain ⟨h1, h2⟩ := elim_lower p p' total htot hgs n fl pi x0 hs.1 hx0
    obtain ⟨h3, h4⟩ := elim_lowerList p p' total htot hgs ns fl (pi + ES.countParens n) xs0 hs.2 hxs0
    simp only [ES.elimDupList, supportedList, h1, h3, Bool.and_self, true_and]
    exact lowerList_cons.2 ⟨x0, xs0, h2, by rw [ES.countParens_elimDup]; exact h4, rfl⟩
end

theorem hasLookbehindList_brefs (l : List Nat) : hasLookbehindList (l.map .bref) = false := by
  induction l with
  | nil => rfl
  | cons a t ih => simp [hasLookbehindList, hasLookbehind, ih]

theorem hasLookbehind_elimDup (p : ES.Node) (n : ES.Node) : hasLookbehind (ES.elimDup p n) = hasLookbehind n := by
  induction n using ES.Node.rec
    (motive_2 := fun ns => hasLookbehindList (ES.elimDupList p ns) = hasLookbehindList ns) with
  | cat ns ih => simpa only [ES.elimDup, hasLookbehind] using ih
  | alt ns ih => simpa only [ES.elimDup, hasLookbehind] using ih
  | group idx name n ih => simpa only [ES.elimDup, hasLookbehind] using ih
  | nc n ih => simpa only [ES.elimDup, hasLookbehind] using ih
  | mod a r n ih => simpa only [ES.elimDup, hasLookbehind] using ih
  | look a g n ih => simp only [ES.elimDup, hasLookbehind, ih]
  | quant mn mx g n ih => simpa only [ES.elimDup, hasLookbehind] using ih
  | nref name =>
    simp only [ES.elimDup]
    split
    · simp [hasLookbehind, hasLookbehindList_brefs]
    · rfl
  | nil => rfl
  | cons a as iha ihas => simp only [ES.elimDupList, hasLookbehindList, iha, ihas]
  | _ => simp [ES.elimDup]

end Regress.Lower

namespace Regress.ES

open Regress.Lower (normalize normCat normAlt catItems altItems)

/-! ## The early-error rule on names and the normal form -/

theorem groupNamesSeq_cons {n : Node} {ns : List Node} {l : List (List Nat)} :
    groupNamesSeq (n :: ns) = .ok l ↔
      ∃ a b, groupNames n = .ok a ∧ groupNamesSeq ns = .ok b ∧ a.any (fun x => b.contains x) = false ∧ l = a ++ b := by
  simp only [groupNamesSeq]
  cases ha : groupNames n with
  | error e => simp
  | ok a =>
    cases hb : groupNamesSeq ns with
    | error e => simp
    | ok b =>
      simp only
      split
      · rename_i h
        constructor
        · intro hl; cases hl
        · rintro ⟨a', b', h1, h2, h3, _⟩
          cases h1; cases h2
          rw [h3] at h; cases h
      · rename_i h
        simp only [Bool.not_eq_true] at h
        constructor
        · intro hl
          simp only [Except.ok.injEq] at hl
          exact ⟨a, b, rfl, rfl, h, hl.symm⟩
        · rintro ⟨a', b', h1, h2, _, h4⟩
          cases h1; cases h2
          rw [h4]

theorem groupNamesAlt_cons {n : Node} {ns : List Node} {l : List (List Nat)} :
    groupNamesAlt (n :: ns) = .ok l ↔
      ∃ a b, groupNames n = .ok a ∧ groupNamesAlt ns = .ok b ∧ l = a ++ b.filter (fun x => !a.contains x) := by
  simp only [groupNamesAlt]
  cases ha : groupNames n with
  | error e => simp
  | ok a =>
    cases hb : groupNamesAlt ns with
    | error e => simp
    | ok b =>
      simp only [Except.ok.injEq, exists_and_left, exists_eq_left']
      exact eq_comm

theorem any_contains_false {a b : List (List Nat)} :
    a.any (fun x => b.contains x) = false ↔ ∀ x, x ∈ a → x ∉ b := by
  simp [List.any_eq_false]

theorem groupNamesSeq_append : ∀ (xs ys : List Node) (a b : List (List Nat)),
    groupNamesSeq xs = .ok a → groupNamesSeq ys = .ok b → (∀ x, x ∈ a → x ∉ b) →
      groupNamesSeq (xs ++ ys) = .ok (a ++ b)
  | [], ys, a, b, ha, hb, _ => by
    simp only [groupNamesSeq, Except.ok.injEq] at ha; subst ha; simpa using hb
  | n :: xs, ys, a, b, ha, hb, hd => by
    obtain ⟨a1, a2, h1, h2, h3, rfl⟩ := groupNamesSeq_cons.1 ha
    rw [any_contains_false] at h3
    have ih := groupNamesSeq_append xs ys a2 b h2 hb (fun x hx => hd x (List.mem_append_right _ hx))
    rw [List.cons_append]
    refine groupNamesSeq_cons.2 ⟨a1, a2 ++ b, h1, ih, ?_, by rw [List.append_assoc]⟩
    rw [any_contains_false]
    intro x hx hm
    rcases List.mem_append.1 hm with hm | hm
    · exact h3 x hx hm
    · exact hd x (List.mem_append_left _ hx) hm

theorem groupNamesAlt_append : ∀ (xs ys : List Node) (a b : List (List Nat)),
    groupNamesAlt xs = .ok a → groupNamesAlt ys = .ok b →
      ∃ l, groupNamesAlt (xs ++ ys) = .ok l ∧ ∀ x, x ∈ l ↔ (x ∈ a ∨ x ∈ b)
  | [], ys, a, b, ha, hb => by
    simp only [groupNamesAlt, Except.ok.injEq] at ha; subst ha
    exact ⟨b, by simpa using hb, by simp⟩
  | n :: xs, ys, a, b, ha, hb => by
    obtain ⟨a1, a2, h1, h2, rfl⟩ := groupNamesAlt_cons.1 ha
    obtain ⟨l, hl, hm⟩ := groupNamesAlt_append xs ys a2 b h2 hb
    rw [List.cons_append]
    refine ⟨_, groupNamesAlt_cons.2 ⟨a1, l, h1, hl, rfl⟩, fun x => ?_⟩
    simp only [List.mem_append, List.mem_filter, hm, Bool.not_eq_true', List.contains_eq_mem, decide_eq_false_iff_not]
    by_cases hx : x ∈ a1 <;> simp [hx]

/-- The early-error rule holds for the normal form if it holds for the AST (same set of names). -/
theorem groupNames_normalize (n : Node) :
    ∀ l, groupNames n = .ok l → ∃ l', groupNames (normalize n) = .ok l' ∧ ∀ x, x ∈ l' ↔ x ∈ l := by
  induction n using Node.rec
    (motive_2 := fun ns =>
      (∀ l, groupNamesSeq ns = .ok l → ∃ l', groupNamesSeq (normCat ns) = .ok l' ∧ ∀ x, x ∈ l' ↔ x ∈ l) ∧
      (∀ l, groupNamesAlt ns = .ok l → ∃ l', groupNamesAlt (normAlt ns) = .ok l' ∧ ∀ x, x ∈ l' ↔ x ∈ l)) with
  | cat ns ih => intro l h; simp only [groupNames] at h; simp only [normalize, groupNames]; exact ih.1 l h
  | alt ns ih => intro l h; simp only [groupNames] at h; simp only [normalize, groupNames]; exact ih.2 l h
  | nc n ih => intro l h; simp only [groupNames] at h; simp only [normalize, groupNames]; exact ih l h
  | mod a r n ih => intro l h; simp only [groupNames] at h; simp only [normalize, groupNames]; exact ih l h
  | look a g n ih => intro l h; simp only [groupNames] at h; simp only [normalize, groupNames]; exact ih l h
  | quant mn mx g n ih => intro l h; simp only [groupNames] at h; simp only [normalize, groupNames]; exact ih l h
  | group idx name n ih =>
    intro l h
    simp only [groupNames] at h
    simp only [normalize, groupNames]
    cases hin : groupNames n with
    | error e => rw [hin] at h; cases h
    | ok inner =>
      rw [hin] at h
      obtain ⟨inner', hi', hm⟩ := ih inner hin
      rw [hi']
      cases name with
      | none =>
        simp only [Except.ok.injEq] at h; subst h
        exact ⟨inner', rfl, hm⟩
      | some nm =>
        simp only at h ⊢
        split at h
        · cases h
        · rename_i hc
          simp only [Except.ok.injEq] at h; subst h
          have hc' : ¬ (inner'.contains nm = true) := by
            simpa [hm] using hc
          simp only [hc']
          exact ⟨_, rfl, fun x => by simp [hm]⟩
  | nil =>
    exact ⟨fun l h => ⟨l, by simpa [normCat] using h, fun _ => Iff.rfl⟩,
           fun l h => ⟨l, by simpa [normAlt] using h, fun _ => Iff.rfl⟩⟩
  | cons a as iha ihas =>
    refine ⟨fun l h => ?_, fun l h => ?_⟩
    · obtain ⟨a1, a2, h1, h2, h3, rfl⟩ := groupNamesSeq_cons.1 h
      rw [any_contains_false] at h3
      obtain ⟨a1', h1', hm1⟩ := iha a1 h1
      obtain ⟨a2', h2', hm2⟩ := ihas.1 a2 h2
      have hX : ∃ a1'', groupNamesSeq (catItems (normalize a)) = .ok a1'' ∧ ∀ x, x ∈ a1'' ↔ x ∈ a1' := by
        cases hn : normalize a <;> rw [hn] at h1' <;> simp only [catItems]
        case cat ms => exact ⟨a1', by simpa only [groupNames] using h1', fun _ => Iff.rfl⟩
        case empty =>
          simp only [groupNames, Except.ok.injEq] at h1'; subst h1'
          exact ⟨[], rfl, fun _ => Iff.rfl⟩
        all_goals
          exact ⟨a1' ++ [], groupNamesSeq_cons.2 ⟨a1', [], h1', rfl, by simp, rfl⟩, fun x => by simp⟩
      obtain ⟨a1'', h1'', hm1'⟩ := hX
      refine ⟨a1'' ++ a2', ?_, fun x => by simp [hm1', hm1, hm2]⟩
      simp only [normCat]
      exact groupNamesSeq_append _ _ _ _ h1'' h2' (fun x hx hx2 => h3 x ((hm1 x).1 ((hm1' x).1 hx)) ((hm2 x).1 hx2))
    · obtain ⟨a1, a2, h1, h2, rfl⟩ := groupNamesAlt_cons.1 h
      obtain ⟨a1', h1', hm1⟩ := iha a1 h1
      obtain ⟨a2', h2', hm2⟩ := ihas.2 a2 h2
      have hX : ∃ a1'', groupNamesAlt (altItems (normalize a)) = .ok a1'' ∧ ∀ x, x ∈ a1'' ↔ x ∈ a1' := by
        cases hn : normalize a <;> rw [hn] at h1' <;> simp only [altItems]
        case alt ms => exact ⟨a1', by simpa only [groupNames] using h1', fun _ => Iff.rfl⟩
        all_goals
          exact ⟨_, groupNamesAlt_cons.2 ⟨a1', [], h1', rfl, rfl⟩, fun x => by simp⟩
      obtain ⟨a1'', h1'', hm1'⟩ := hX
      obtain ⟨l', hl', hml⟩ := groupNamesAlt_append _ _ _ _ h1'' h2'
      refine ⟨l', by simpa only [normAlt] using hl', fun x => ?_⟩
      rw [hml, hm1', hm1, hm2]
      simp only [List.mem_append, List.mem_filter, Bool.not_eq_true', List.contains_eq_mem, decide_eq_false_iff_not]
      by_cases hx : x ∈ a1 <;> simp [hx]
  | _ => intro l h; exact ⟨l, by simpa only [normalize] using h, fun _ => Iff.rfl⟩

/-- `validate` accepts the AST ⇒ the early-error rule on names holds for its normal form. -/
theorem groupNames_normalize_of_validate {f : Flags} {a : Node} (h : validate f a = none) :
    ∃ names, groupNames (normalize a) = .ok names := by
  simp only [validate] at h
  cases hg : groupNames a with
  | error e =>
    rw [hg] at h
    cases hv : validateNode f a (countParens a) a 0 <;> simp [hv, orElseErr] at h
  | ok l =>
    obtain ⟨l', hl', _⟩ := groupNames_normalize a l hg
    exact ⟨l', hl'⟩

end Regress.ES
