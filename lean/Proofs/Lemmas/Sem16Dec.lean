import Proofs.Lemmas.Utf16
import RegressModel.IR.Sem16
/-!
# The `Utf16Input` decoders on ARBITRARY code units

* A decoder never stops between the halves of a surrogate pair (`nextRight_lands`, `nextLeft_lands`).
* From a position that is not between the halves of a pair, the decoder against the direction of
  travel inverts the decoder in the direction of travel (`nextLeftPos_nextRight`,
  `nextRightPos_nextLeft`).  From a position inside a pair it does not: this is the mechanism of F18
  and of the back-reference defect fixed in 7fc34e1.
-/
namespace Regress.IR

open Regress Regress.Utf16

/-- The four ways `next_right` succeeds. -/
theorem nextRight_cases {units : Array Nat} {p c q : Nat} (h : nextRight units p = some (c, q)) :
    ∃ u1, units[p]? = some u1 ∧
      ((isHighSurrogate u1 = false ∧ q = p + 1) ∨
       (isHighSurrogate u1 = true ∧ units[p + 1]? = none ∧ q = p + 1) ∨
       (∃ u2, isHighSurrogate u1 = true ∧ units[p + 1]? = some u2 ∧ isLowSurrogate u2 = false ∧ q = p + 1) ∨
       (∃ u2, isHighSurrogate u1 = true ∧ units[p + 1]? = some u2 ∧ isLowSurrogate u2 = true ∧ q = p + 2)) := by
  unfold nextRight at h
  cases h1 : units[p]? with
  | none => rw [h1] at h; cases h
  | some u1 =>
    rw [h1] at h
    refine ⟨u1, rfl, ?_⟩
    simp only at h
    cases hh : isHighSurrogate u1 with
    | false =>
      simp only [hh, Bool.not_false, if_true, Option.some.injEq, Prod.mk.injEq] at h
      exact Or.inl ⟨rfl, h.2.symm⟩
    | true =>
      simp only [hh, Bool.not_true, Bool.false_eq_true, if_false] at h
      cases h2 : units[p + 1]? with
      | none =>
        rw [h2] at h
        simp only [Option.some.injEq, Prod.mk.injEq] at h
        exact Or.inr (Or.inl ⟨rfl, rfl, h.2.symm⟩)
      | some u2 =>
        rw [h2] at h
        simp only at h
        cases hl : isLowSurrogate u2 with
        | false =>
          simp only [hl, Bool.not_false, if_true, Option.some.injEq, Prod.mk.injEq] at h
          exact Or.inr (Or.inr (Or.inl ⟨u2, rfl, rfl, hl, h.2.symm⟩))
        | true =>
          simp only [hl, Bool.not_true, Bool.false_eq_true, if_false, Option.some.injEq, Prod.mk.injEq] at h
          exact Or.inr (Or.inr (Or.inr ⟨u2, rfl, rfl, hl, h.2.symm⟩))

/-- The four ways `next_left` succeeds. -/
theorem nextLeft_cases {units : Array Nat} {p c q : Nat} (h : nextLeft units p = some (c, q)) :
    0 < p ∧ ∃ u2, units[p - 1]? = some u2 ∧
      (((p - 1 = 0 ∨ isLowSurrogate u2 = false) ∧ q = p - 1) ∨
       (p - 1 ≠ 0 ∧ isLowSurrogate u2 = true ∧ units[p - 1 - 1]? = none ∧ q = p - 1) ∨
       (∃ u1, p - 1 ≠ 0 ∧ isLowSurrogate u2 = true ∧ units[p - 1 - 1]? = some u1 ∧ isHighSurrogate u1 = false ∧
          q = p - 1) ∨
       (∃ u1, p - 1 ≠ 0 ∧ isLowSurrogate u2 = true ∧ units[p - 1 - 1]? = some u1 ∧ isHighSurrogate u1 = true ∧
          q = p - 1 - 1)) := by
  unfold nextLeft at h
  by_cases hp0 : p = 0
  · simp [hp0] at h
  · have hbeq : (p == 0) = false := by simpa using hp0
    simp only [hbeq, Bool.false_eq_true, if_false] at h
    refine ⟨by omega, ?_⟩
    cases h2 : units[p - 1]? with
    | none => rw [h2] at h; cases h
    | some u2 =>
      rw [h2] at h
      refine ⟨u2, rfl, ?_⟩
      simp only at h
      by_cases hc : (p - 1 == 0 || !isLowSurrogate u2) = true
      · simp only [hc, if_true, Option.some.injEq, Prod.mk.injEq] at h
        left
        refine ⟨?_, h.2.symm⟩
        simp only [Bool.or_eq_true, beq_iff_eq, Bool.not_eq_true'] at hc
        exact hc
      · simp only [hc, Bool.false_eq_true, if_false] at h
        simp only [Bool.or_eq_true, beq_iff_eq, Bool.not_eq_true', not_or, Bool.not_eq_false] at hc
        right
        cases h1 : units[p - 1 - 1]? with
        | none =>
          rw [h1] at h
          simp only [Option.some.injEq, Prod.mk.injEq] at h
          exact Or.inl ⟨hc.1, hc.2, rfl, h.2.symm⟩
        | some u1 =>
          rw [h1] at h
          simp only at h
          cases hh : isHighSurrogate u1 with
          | false =>
            simp only [hh, Bool.not_false, if_true, Option.some.injEq, Prod.mk.injEq] at h
            exact Or.inr (Or.inl ⟨u1, hc.1, hc.2, rfl, hh, h.2.symm⟩)
          | true =>
            simp only [hh, Bool.not_true, Bool.false_eq_true, if_false, Option.some.injEq, Prod.mk.injEq] at h
            exact Or.inr (Or.inr ⟨u1, hc.1, hc.2, rfl, hh, h.2.symm⟩)

theorem splitsPair_eq_false_iff (units : Array Nat) (p : Nat) :
    splitsPair units p = false ↔
      ∀ a b, 0 < p → units[p - 1]? = some a → units[p]? = some b → isHighSurrogate a = true → isLowSurrogate b = false := by
  unfold splitsPair
  constructor
  · intro h a b hp ha hb hh
    have hlt : p < units.size := by
      rcases Nat.lt_or_ge p units.size with hh | hh
      · exact hh
      · rw [Array.getElem?_eq_none hh] at hb; cases hb
    simp only [ha, hb, hp, hlt, decide_true, Bool.true_and, hh] at h
    exact h
  · intro h
    by_cases hp : 0 < p
    · cases ha : units[p - 1]? with
      | none => simp
      | some a =>
        cases hb : units[p]? with
        | none => simp
        | some b =>
          cases hh : isHighSurrogate a with
          | false => simp [hh]
          | true => simp [h a b hp ha hb hh]
    · simp [hp]

/-- `next_right` never stops inside a pair. -/
theorem nextRight_lands {units : Array Nat} {p c q : Nat} (h : nextRight units p = some (c, q)) :
    splitsPair units q = false := by
  rw [splitsPair_eq_false_iff]
  intro a b hq ha hb hh
  obtain ⟨u1, h1, hc⟩ := nextRight_cases h
  rcases hc with ⟨hnh, rfl⟩ | ⟨_, h2, rfl⟩ | ⟨u2, _, h2, hl, rfl⟩ | ⟨u2, _, h2, hl, rfl⟩
  · simp only [Nat.add_sub_cancel] at ha
    rw [h1] at ha; cases ha; rw [hnh] at hh; cases hh
  · rw [h2] at hb; cases hb
  · rw [h2] at hb; cases hb; exact hl
  · rw [show p + 2 - 1 = p + 1 by omega, h2] at ha
    cases ha
    have := hl
    simp only [isLowSurrogate, isHighSurrogate, Bool.and_eq_true, decide_eq_true_eq] at this hh
    omega

/-- `next_left` never stops inside a pair. -/
theorem nextLeft_lands {units : Array Nat} {p c q : Nat} (h : nextLeft units p = some (c, q)) :
    splitsPair units q = false := by
  rw [splitsPair_eq_false_iff]
  intro a b hq ha hb hh
  obtain ⟨hp, u2, h2, hc⟩ := nextLeft_cases h
  rcases hc with ⟨hor, rfl⟩ | ⟨_, _, h1, rfl⟩ | ⟨u1, _, _, h1, hnh, rfl⟩ | ⟨u1, _, _, h1, hh1, rfl⟩
  · rcases hor with h0 | hnl
    · omega
    · rw [h2] at hb; cases hb; exact hnl
  · rw [h1] at ha; cases ha
  · rw [h1] at ha; cases ha; rw [hnh] at hh; cases hh
  · rw [h1] at hb; cases hb
    simp only [isLowSurrogate, isHighSurrogate, Bool.and_eq_true, decide_eq_true_eq, Bool.and_eq_false_iff,
      decide_eq_false_iff_not] at hh1 ⊢
    omega

/-- From a position that is not inside a pair, `next_left_pos` undoes `next_right`. -/
theorem nextLeftPos_nextRight {units : Array Nat} {p c q : Nat} (hp : splitsPair units p = false)
    (h : nextRight units p = some (c, q)) : nextLeftPos units q = some p := by
  rw [splitsPair_eq_false_iff] at hp
  obtain ⟨u1, h1, hc⟩ := nextRight_cases h
  have single : q = p + 1 → nextLeftPos units q = some p := by
    intro hq
    subst hq
    unfold nextLeftPos
    simp only [Nat.add_sub_cancel, h1]
    have : (p + 1 == 0) = false := by simp
    simp only [this, Bool.false_eq_true, if_false]
    by_cases hcnd : (p == 0 || !isLowSurrogate u1) = true
    · simp only [hcnd, if_true]
    · simp only [hcnd, Bool.false_eq_true, if_false]
      simp only [Bool.or_eq_true, beq_iff_eq, Bool.not_eq_true', not_or, Bool.not_eq_false] at hcnd
      cases h0 : units[p - 1]? with
      | none => rfl
      | some u0 =>
        simp only
        cases hh0 : isHighSurrogate u0 with
        | false => rfl
        | true =>
          have := hp u0 u1 (by omega) h0 h1 hh0
          rw [hcnd.2] at this; cases this
  rcases hc with ⟨_, hq⟩ | ⟨_, _, hq⟩ | ⟨u2, _, _, _, hq⟩ | ⟨u2, hh, h2, hl, rfl⟩
  · exact single hq
  · exact single hq
  · exact single hq
  · unfold nextLeftPos
    have : (p + 2 == 0) = false := by simp
    simp only [this, Bool.false_eq_true, if_false, show p + 2 - 1 = p + 1 by omega, h2, Nat.add_sub_cancel, h1]
    have : (p + 1 == 0 || !isLowSurrogate u2) = false := by simp [hl]
    simp only [this, Bool.false_eq_true, if_false, hh, Bool.not_true]

/-- From a position that is not inside a pair, `next_right_pos` undoes `next_left`. -/
theorem nextRightPos_nextLeft {units : Array Nat} {p c q : Nat} (hp : splitsPair units p = false)
    (h : nextLeft units p = some (c, q)) : nextRightPos units q = some p := by
  rw [splitsPair_eq_false_iff] at hp
  obtain ⟨hp0, u2, h2, hc⟩ := nextLeft_cases h
  have single : q = p - 1 → nextRightPos units q = some p := by
    intro hq
    subst hq
    unfold nextRightPos
    simp only [h2, show p - 1 + 1 = p by omega]
    cases hh2 : isHighSurrogate u2 with
    | false => simp
    | true =>
      simp only [Bool.not_true, Bool.false_eq_true, if_false]
      cases h3 : units[p]? with
      | none => rfl
      | some u3 =>
        simp only
        have := hp u2 u3 hp0 h2 h3 hh2
        simp [this]
  rcases hc with ⟨_, hq⟩ | ⟨_, _, _, hq⟩ | ⟨u1, _, _, _, _, hq⟩ | ⟨u1, hne, hl, h1, hh, rfl⟩
  · exact single hq
  · exact single hq
  · exact single hq
  · unfold nextRightPos
    simp only [h1, hh, Bool.not_true, Bool.false_eq_true, if_false, show p - 1 - 1 + 1 = p - 1 by omega, h2, hl,
      show p - 1 + 1 = p by omega]

example : nextRight #[0xD83D, 0xDE00] 1 = some (0xDE00, 2) ∧ nextLeftPos #[0xD83D, 0xDE00] 2 = some 0 ∧
    splitsPair #[0xD83D, 0xDE00] 1 = true := by decide

end Regress.IR
