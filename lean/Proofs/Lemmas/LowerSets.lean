import Proofs.Lemmas.LowerStruct
import Proofs.C12
import Proofs.C11
/-!
# ES specification ⇒ IR semantics: CharSets against `CodePointSet`s

`Den P s`: the interval list `s` (a `CodePointSet`) is well formed and denotes the predicate `P` on
code points (`≤ 0x10FFFF`).  The interval arithmetic of the crate (`add`, `add_set`, `inverted`,
`intersect`, `remove`; `Proofs/C12.lean`) realises the set operations of the specification's
CharSets; the class-escape tables and the Unicode property tables (`Proofs/C11.lean`) denote the
sets the specification names.
-/
namespace Regress.Lower

open Regress Regress.IR Regress.VM Regress.Parse Regress.CPS

/-- `s` is a well-formed `CodePointSet` denoting `P`. -/
def Den (P : Nat → Bool) (s : IvList) : Prop :=
  WF s ∧ ∀ c, c ≤ 0x10FFFF → (P c = true ↔ mem s c)

theorem Den.congr {P Q : Nat → Bool} {s : IvList} (h : Den P s) (hpq : ∀ c, c ≤ 0x10FFFF → P c = Q c) : Den Q s :=
  ⟨h.1, fun c hc => by rw [← hpq c hc]; exact h.2 c hc⟩

theorem den_empty : Den (fun _ => false) [] :=
  ⟨trivial, fun c _ => by simp [mem]⟩

theorem den_add {P : Nat → Bool} {s : IvList} (h : Den P s) {lo hi : Nat} (h1 : lo ≤ hi) (h2 : hi ≤ 0x10FFFF) :
    Den (fun c => P c || (decide (lo ≤ c) && decide (c ≤ hi))) (add s { first := lo, last := hi }) := by
  have hok : ivOk { first := lo, last := hi } := ⟨h1, h2⟩
  refine ⟨C12.add_wf h.1 hok, fun c hc => ?_⟩
  rw [C12.add_mem h.1 hok c, ← h.2 c hc]
  simp

theorem den_addOne {P : Nat → Bool} {s : IvList} (h : Den P s) {cp : Nat} (hcp : cp ≤ 0x10FFFF) :
    Den (fun c => P c || c == cp) (addOne s cp) := by
  refine ⟨C12.addOne_wf h.1 hcp, fun c hc => ?_⟩
  rw [C12.addOne_mem h.1 hcp c, ← h.2 c hc]
  simp

theorem den_addSet {P Q : Nat → Bool} {s t : IvList} (hs : Den P s) (ht : Den Q t) :
    Den (fun c => P c || Q c) (addSet s t) := by
  refine ⟨C12.addSet_wf hs.1 ht.1, fun c hc => ?_⟩
  rw [C12.addSet_mem hs.1 ht.1 c, ← hs.2 c hc, ← ht.2 c hc]
  simp

theorem den_inverted {P : Nat → Bool} {s : IvList} (h : Den P s) :
    Den (fun c => decide (c ≤ 0x10FFFF) && !P c) (inverted s) := by
  refine ⟨C12.inverted_wf h.1, fun c hc => ?_⟩
  rw [C12.inverted_mem h.1 hc, ← h.2 c hc]
  simp [hc]

theorem den_intersect {P Q : Nat → Bool} {s t : IvList} (hs : Den P s) (ht : Den Q t) :
    Den (fun c => P c && Q c) (intersect s t) := by
  refine ⟨C12.intersect_wf hs.1 ht.1, fun c hc => ?_⟩
  rw [C12.intersect_mem hs.1 ht.1 c, ← hs.2 c hc, ← ht.2 c hc]
  simp

theorem den_remove {P Q : Nat → Bool} {s t : IvList} (hs : Den P s) (ht : Den Q t) :
    Den (fun c => P c && !Q c) (remove s t) := by
  refine ⟨C12.remove_wf hs.1 ht.1, fun c hc => ?_⟩
  rw [C12.remove_mem hs.1 ht.1 c, ← hs.2 c hc, ← ht.2 c hc]
  simp

/-! ## The bracket test -/

theorem any_pairsOfIvs (s : IvList) (c : Nat) :
    ((pairsOfIvs s).any (fun iv => decide (iv.1 ≤ c) && decide (c ≤ iv.2)) = true) ↔ mem s c := by
  simp only [pairsOfIvs, List.any_map, List.any_eq_true, mem]
  constructor
  · rintro ⟨iv, hiv, h⟩; exact ⟨iv, hiv, by simpa using h⟩
  · rintro ⟨iv, hiv, h⟩; exact ⟨iv, hiv, by simpa using h⟩

theorem bracketTest_den {P : Nat → Bool} {s : IvList} (h : Den P s) (inv : Bool) {c : Nat} (hc : c ≤ 0x10FFFF) :
    bracketTest { invert := inv, ivs := pairsOfIvs s } c = (P c != inv) := by
  have := h.2 c hc
  simp only [bracketTest]
  by_cases hm : mem s c
  · rw [if_pos ((any_pairsOfIvs s c).2 hm), this.2 hm]; cases inv <;> rfl
  · have hp : P c = false := by
      cases hpc : P c with
      | false => rfl
      | true => exact absurd (this.1 hpc) hm
    rw [if_neg (fun h' => hm ((any_pairsOfIvs s c).1 h')), hp]; cases inv <;> rfl

/-! ## Interval tables -/

theorem wf_ivsOfPairs : ∀ (lo : Nat) (l : List (Nat × Nat)), Packed.wfFrom lo l = true →
    WF (ivsOfPairs l) ∧ ∀ iv ∈ ivsOfPairs l, lo ≤ iv.first
  | _, [], _ => ⟨trivial, fun _ h => by simp [ivsOfPairs] at h⟩
  | lo, [(a, b)], h => by
    simp only [Packed.wfFrom, Bool.and_eq_true, decide_eq_true_eq, Bool.and_true] at h
    refine ⟨⟨h.1.2, h.2⟩, fun iv hiv => ?_⟩
    simp [ivsOfPairs] at hiv; subst hiv; exact h.1.1
  | lo, (a, b) :: (c, d) :: rest, h => by
    simp only [Packed.wfFrom, Bool.and_eq_true, decide_eq_true_eq] at h
    obtain ⟨⟨⟨h1, h2⟩, h3⟩, h4⟩ := h
    have ih := wf_ivsOfPairs (b + 2) ((c, d) :: rest) (by simpa [Packed.wfFrom] using h4)
    refine ⟨⟨⟨h2, h3⟩, ?_, ih.1⟩, fun iv hiv => ?_⟩
    · have := ih.2 { first := c, last := d } (by simp [ivsOfPairs])
      simp only at this ⊢; omega
    · simp only [ivsOfPairs, List.map_cons, List.mem_cons] at hiv
      rcases hiv with rfl | hiv
      · exact h1
      · have := ih.2 iv (by simpa [ivsOfPairs] using hiv); omega

theorem mem_ivsOfPairs (l : List (Nat × Nat)) (c : Nat) : mem (ivsOfPairs l) c ↔ Packed.mem l c = true := by
  simp only [mem, ivsOfPairs, Packed.mem, List.any_eq_true, List.mem_map]
  constructor
  · rintro ⟨iv, ⟨p, hp, rfl⟩, h⟩; exact ⟨p, hp, by simpa using h⟩
  · rintro ⟨p, hp, h⟩; exact ⟨_, ⟨p, hp, rfl⟩, by simpa using h⟩

/-- A well-formed packed table denotes its membership predicate. -/
theorem den_table {l : List (Nat × Nat)} (h : Packed.wf l = true) : Den (Packed.mem l) (ivsOfPairs l) :=
  ⟨(wf_ivsOfPairs 0 l h).1, fun c _ => (mem_ivsOfPairs l c).symm⟩

/-! ## `\d \s \w` -/

theorem ccDigits_eq : ccDigits = [⟨0x30, 0x39⟩] := by decide +kernel
theorem ccWordChars_eq : ccWordChars = [⟨0x30, 0x39⟩, ⟨0x41, 0x5A⟩, ⟨0x5F, 0x5F⟩, ⟨0x61, 0x7A⟩] := by decide +kernel
theorem ccSpaces_eq : codepointsFromClassPositive .spaces =
    [⟨9, 13⟩, ⟨32, 32⟩, ⟨160, 160⟩, ⟨5760, 5760⟩, ⟨8192, 8202⟩, ⟨8232, 8233⟩, ⟨8239, 8239⟩, ⟨8287, 8287⟩,
     ⟨12288, 12288⟩, ⟨65279, 65279⟩] := by decide +kernel

theorem den_digits : Den ES.isDigit (codepointsFromClassPositive .digits) := by
  simp only [codepointsFromClassPositive, ccDigits_eq]
  refine ⟨by decide, fun c _ => ?_⟩
  simp only [ES.isDigit, mem, List.mem_singleton, exists_eq_left, Bool.and_eq_true, decide_eq_true_eq]

theorem den_words : Den ES.isBasicWordChar (codepointsFromClassPositive .words) := by
  simp only [codepointsFromClassPositive, ccWordChars_eq]
  refine ⟨by decide, fun c _ => ?_⟩
  simp only [ES.isBasicWordChar, ES.isDigit, mem, List.mem_cons, List.mem_nil_iff, or_false, exists_eq_or_imp,
    exists_eq_left, Bool.or_eq_true, Bool.and_eq_true, decide_eq_true_eq, beq_iff_eq]
  omega

theorem den_spaces : Den ES.isWhiteSpaceOrLT (codepointsFromClassPositive .spaces) := by
  rw [ccSpaces_eq]
  refine ⟨by decide, fun c _ => ?_⟩
  simp only [ES.isWhiteSpaceOrLT, mem, List.mem_cons, List.mem_nil_iff, or_false, exists_eq_or_imp,
    exists_eq_left, Bool.or_eq_true, Bool.and_eq_true, decide_eq_true_eq, beq_iff_eq]
  omega

/-- The positive set of a class escape. -/
def escPred : ES.ClassEsc → Nat → Bool
  | .d => ES.isDigit
  | .D => ES.isDigit
  | .s => ES.isWhiteSpaceOrLT
  | .S => ES.isWhiteSpaceOrLT
  | .w => ES.isBasicWordChar
  | .W => ES.isBasicWordChar

theorem den_escPositive (e : ES.ClassEsc) : Den (escPred e) (codepointsFromClassPositive (classOfEsc e).1) := by
  cases e <;> first | exact den_digits | exact den_spaces | exact den_words

/-- `codepoints_from_class` without case folding against `CompileToCharSet` of the class escape. -/
theorem den_classEscape {rer : ES.RER} (hic : rer.ignoreCase = false) (e : ES.ClassEsc) :
    Den (ES.classEscape rer e).chars (codepointsFromClass (classOfEsc e).1 (classOfEsc e).2 false) := by
  have hall : ∀ c, (ES.allCharacters rer).chars c = decide (c ≤ 0x10FFFF) := by
    intro c; simp [ES.allCharacters, hic]
  have hw : ∀ c, (ES.maybeSimpleCaseFolding rer (ES.wordCharacters rer)).chars c = ES.isBasicWordChar c := by
    intro c
    simp [ES.maybeSimpleCaseFolding, hic, ES.wordCharacters, canonicalize_id hic]
  cases e
  · exact den_digits
  · exact (den_inverted den_digits).congr (fun c _ => by
      simp [ES.classEscape, ES.characterComplement, hall])
  · exact (den_words).congr (fun c _ => by simp [ES.classEscape, hw])
  · exact (den_inverted den_words).congr (fun c _ => by
      simp [ES.classEscape, ES.characterComplement, hall, hw])
  · exact den_spaces
  · exact (den_inverted den_spaces).congr (fun c _ => by
      simp [ES.classEscape, ES.characterComplement, hall])

theorem classEscape_strs {rer : ES.RER} (hic : rer.ignoreCase = false) (e : ES.ClassEsc) :
    (ES.classEscape rer e).strs = [] := by
  cases e <;> simp [ES.classEscape, ES.characterComplement, ES.maybeSimpleCaseFolding, hic, ES.wordCharacters]

end Regress.Lower
