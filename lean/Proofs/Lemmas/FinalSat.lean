import Proofs.Lemmas.KeystoneTop
import Proofs.Lemmas.SemGood
import Proofs.C03
/-!
# Final, part 1: a saturated loop maximum is "no maximum" on every haystack that fits in memory

The parser's `try_consume_decimal_integer_literal` saturates, so a braced quantifier whose last number
is `≥ 2^64 - 1` yields `Quantifier { max: Some(usize::MAX) }`; `emit` writes
`max_iters: quant.max.unwrap_or(usize::MAX)`, so the VM treats such a loop as unbounded, while `IR.sem`
reads `Some(usize::MAX)` as the bound `2^64 - 1`.  Here:

* `unsat n` — the tree `n` with every loop maximum `some USIZE_MAX` replaced by `none`;
* `fitsQ L q` — `q.max` is `none`, or `< USIZE_MAX`, or it is `USIZE_MAX` and `q.min + L + 2 ≤ USIZE_MAX`;
  `fits L n` — every quantifier of `n` satisfies `fitsQ L`;
* `sem_unsat` — on a UTF-8 haystack of length `L = inp.len`, for a well-formed tree with `fits L n`,
  `sem inp (unsat n)` and `sem inp n` are observationally equal on states whose offsets are char
  boundaries (the iteration budget `q.min + mu + 2` of `loopIter`/`loop1Iter` never lets the iteration
  counter reach `USIZE_MAX`); hence `firstMatch_unsat`;
* `Code … n ↔ Code … (unsat n)` (`maxIters (unsatQ q) = maxIters q`: the emitted code is the same),
  `numGroups`, `numLoops`, `WF` are preserved.
-/
namespace Regress.Final

open Regress.IR Regress.VM Regress.Keystone

/-! ## The transformation -/

/-- `max = Some(usize::MAX)` ↦ `max = None`. -/
def unsatQ (q : Quant) : Quant :=
  match q.max with
  | some m => if m == USIZE_MAX then { q with max := none } else q
  | none => q

mutual
/-- Every saturated loop maximum replaced by "no maximum". -/
def unsat : Node → Node
  | .cat ns => .cat (unsatList ns)
  | .alt l r => .alt (unsat l) (unsat r)
  | .group i nm c => .group i nm (unsat c)
  | .look ng bw sg eg c => .look ng bw sg eg (unsat c)
  | .loop b q g0 g1 => .loop (unsat b) (unsatQ q) g0 g1
  | .loop1 b q => .loop1 (unsat b) (unsatQ q)
  | .empty => .empty
  | .goal => .goal
  | .char c => .char c
  | .byteSeq bs => .byteSeq bs
  | .byteSet bs => .byteSet bs
  | .charSet cs => .charSet cs
  | .matchAny => .matchAny
  | .matchAnyExceptLT => .matchAnyExceptLT
  | .anchor a b => .anchor a b
  | .wordBoundary a b => .wordBoundary a b
  | .backRef g i => .backRef g i
  | .bracket bc => .bracket bc
  | .stringSet a i => .stringSet a i
def unsatList : List Node → List Node
  | [] => []
  | n :: ns => unsat n :: unsatList ns
end

/-- The quantifier's maximum is irrelevant or absent on haystacks of length `L`: `none`, below
`usize::MAX`, or `usize::MAX` with `min + L + 2 ≤ usize::MAX`. -/
def fitsQ (L : Nat) (q : Quant) : Bool :=
  match q.max with
  | none => true
  | some m => decide (m < USIZE_MAX) || (m == USIZE_MAX && decide (q.min + L + 2 ≤ USIZE_MAX))

mutual
/-- Every loop quantifier of the tree satisfies `P`. -/
def allQ (P : Quant → Bool) : Node → Bool
  | .cat ns => allQList P ns
  | .alt l r => allQ P l && allQ P r
  | .group _ _ c => allQ P c
  | .look _ _ _ _ c => allQ P c
  | .loop b q _ _ => allQ P b && P q
  | .loop1 b q => allQ P b && P q
  | _ => true
def allQList (P : Quant → Bool) : List Node → Bool
  | [] => true
  | n :: ns => allQ P n && allQList P ns
end

/-- **The side condition that replaces `maxOK`**: every saturated loop maximum is out of reach on a
haystack of `L` bytes. -/
def fits (L : Nat) (n : Node) : Bool := allQ (fitsQ L) n

theorem quantBounded_fitsQ (L : Nat) {q : Quant} (h : quantBounded q = true) : fitsQ L q = true := by
  unfold quantBounded at h
  unfold fitsQ
  cases hm : q.max with
  | none => rfl
  | some m => rw [hm] at h; simp only [h, Bool.true_or]

/-- A saturated maximum fits iff `min + L + 2 ≤ usize::MAX`. -/
theorem fitsQ_sat (L mn : Nat) (g : Bool) :
    fitsQ L { min := mn, max := some USIZE_MAX, greedy := g } = decide (mn + L + 2 ≤ USIZE_MAX) := by
  simp [fitsQ]

/-- What `fitsQ` says. -/
theorem fitsQ_iff (L : Nat) (q : Quant) : fitsQ L q = true ↔
    ∀ m, q.max = some m → m < USIZE_MAX ∨ (m = USIZE_MAX ∧ q.min + L + 2 ≤ USIZE_MAX) := by
  unfold fitsQ
  cases hm : q.max with
  | none => simp
  | some m => simp

theorem fitsQ_mono {L L' : Nat} (hle : L' ≤ L) (q : Quant) (h : fitsQ L q = true) : fitsQ L' q = true := by
  rw [fitsQ_iff] at h ⊢
  intro m hm
  rcases h m hm with h | ⟨h1, h2⟩
  · exact .inl h
  · exact .inr ⟨h1, by omega⟩

/-! ## `fits` is antitone in the haystack length -/

mutual
theorem fits_mono {L L' : Nat} (hle : L' ≤ L) : ∀ n : Node, fits L n = true → fits L' n = true
  | .cat ns, h => by simp only [fits, allQ] at h ⊢; exact fitsList_mono hle ns h
  | .alt l r, h => by
    simp only [fits, allQ, Bool.and_eq_true] at h ⊢
    exact ⟨fits_mono hle l h.1, fits_mono hle r h.2⟩
  | .group _ _ c, h => by simp only [fits, allQ] at h ⊢; exact fits_mono hle c h
  | .look _ _ _ _ c, h => by simp only [fits, allQ] at h ⊢; exact fits_mono hle c h
  | .loop b q _ _, h => by
    simp only [fits, allQ, Bool.and_eq_true] at h ⊢
    exact ⟨fits_mono hle b h.1, fitsQ_mono hle q h.2⟩
  | .loop1 b q, h => by
    simp only [fits, allQ, Bool.and_eq_true] at h ⊢
    exact ⟨fits_mono hle b h.1, fitsQ_mono hle q h.2⟩
  | .empty, _ => rfl
  | .goal, _ => rfl
  | .char _, _ => rfl
  | .byteSeq _, _ => rfl
  | .byteSet _, _ => rfl
  | .charSet _, _ => rfl
  | .matchAny, _ => rfl
  | .matchAnyExceptLT, _ => rfl
  | .anchor _ _, _ => rfl
  | .wordBoundary _ _, _ => rfl
  | .backRef _ _, _ => rfl
  | .bracket _, _ => rfl
  | .stringSet _ _, _ => rfl
theorem fitsList_mono {L L' : Nat} (hle : L' ≤ L) : ∀ ns : List Node, allQList (fitsQ L) ns = true →
    allQList (fitsQ L') ns = true
  | [], _ => rfl
  | n :: ns, h => by
    simp only [allQList, Bool.and_eq_true] at h ⊢
    exact ⟨fits_mono hle n h.1, fitsList_mono hle ns h.2⟩
end

/-! ## `unsatQ` -/

theorem unsatQ_min (q : Quant) : (unsatQ q).min = q.min := by
  unfold unsatQ; split
  · split <;> rfl
  · rfl

theorem unsatQ_greedy (q : Quant) : (unsatQ q).greedy = q.greedy := by
  unfold unsatQ; split
  · split <;> rfl
  · rfl

theorem maxIters_unsatQ (q : Quant) : maxIters (unsatQ q) = maxIters q := by
  unfold unsatQ
  split
  · rename_i m hm
    split
    · rename_i h; simp only [maxIters, hm, h, if_true]
    · rfl
  · rfl

theorem quantOk_unsatQ {q : Quant} (h : quantOk q = true) : quantOk (unsatQ q) = true := by
  unfold unsatQ
  split
  · split
    · rfl
    · exact h
  · exact h

/-- After `unsatQ` a quantifier that `fitsQ` is `quantBounded`. -/
theorem quantBounded_unsatQ {L : Nat} {q : Quant} (h : fitsQ L q = true) : quantBounded (unsatQ q) = true := by
  unfold fitsQ at h
  unfold unsatQ
  cases hm : q.max with
  | none => simp only [quantBounded, hm]
  | some m =>
    rw [hm] at h
    simp only
    by_cases he : (m == USIZE_MAX) = true
    · simp only [he, if_true, quantBounded]
    · simp only [he, Bool.false_eq_true, if_false, quantBounded, hm]
      simp only [Bool.or_eq_true, Bool.and_eq_true, decide_eq_true_eq] at h
      rcases h with h | h
      · simpa using h
      · exact absurd h.1 he

/-! ## The loop semantics -/

theorem loopIter_unsat (body : St → List St) (q : Quant) (g0 g1 : Nat) (hq : q.max = some USIZE_MAX) :
    ∀ k iter entry st, iter + k ≤ USIZE_MAX →
      loopIter body { q with max := none } g0 g1 k iter entry st = loopIter body q g0 g1 k iter entry st := by
  intro k
  induction k with
  | zero => intro _ _ _ _; rfl
  | succ k ih =>
    intro iter entry st hk
    have hm1 : maxOk { q with max := none } iter = true := rfl
    have hm2 : maxOk q iter = true := by simp only [maxOk, hq, decide_eq_true_eq]; omega
    have hrec : loopIter body { q with max := none } g0 g1 k (iter + 1) st.pos =
        loopIter body q g0 g1 k (iter + 1) st.pos := funext (fun s => ih (iter + 1) st.pos s (by omega))
    simp only [loopIter, hm1, hm2, hrec]

theorem loop1Iter_unsat (body : St → List St) (q : Quant) (hq : q.max = some USIZE_MAX) :
    ∀ k iter st, iter + k ≤ USIZE_MAX →
      loop1Iter body { q with max := none } k iter st = loop1Iter body q k iter st := by
  intro k
  induction k with
  | zero => intro _ _ _; rfl
  | succ k ih =>
    intro iter st hk
    have hm1 : maxOk { q with max := none } iter = true := rfl
    have hm2 : maxOk q iter = true := by simp only [maxOk, hq, decide_eq_true_eq]; omega
    simp only [loop1Iter, hm1, hm2, if_true]
    cases (body st).head? with
    | none => cases decide (iter ≥ q.min) <;> rfl
    | some s' => cases decide (iter ≥ q.min) <;> simp only [ih (iter + 1) s' (by omega)]

theorem mu_le (inp : Input) (fwd : Bool) {p : Nat} (hp : p ≤ inp.len) : mu inp fwd p ≤ inp.len := by
  unfold mu; split <;> omega

/-- `sem` of a loop does not see `unsatQ` when the quantifier fits. -/
theorem sem_loop_unsatQ (inp : Input) (b : Node) (q : Quant) (g0 g1 : Nat) (fwd : Bool) (st : St)
    (hf : fitsQ inp.len q = true) (hp : st.pos ≤ inp.len) :
    sem inp (.loop b (unsatQ q) g0 g1) fwd st = sem inp (.loop b q g0 g1) fwd st := by
  unfold unsatQ
  cases hm : q.max with
  | none => rfl
  | some m =>
    simp only
    by_cases he : (m == USIZE_MAX) = true
    · simp only [he, if_true]
      have hme : m = USIZE_MAX := by simpa using he
      subst hme
      simp only [sem, loopBudget]
      refine loopIter_unsat _ q g0 g1 hm _ _ _ _ ?_
      have := mu_le inp fwd hp
      simp only [fitsQ, hm, Bool.or_eq_true, Bool.and_eq_true, decide_eq_true_eq] at hf
      rcases hf with hf | hf
      · omega
      · omega
    · simp only [he, Bool.false_eq_true, if_false]

theorem sem_loop1_unsatQ (inp : Input) (b : Node) (q : Quant) (fwd : Bool) (st : St)
    (hf : fitsQ inp.len q = true) (hp : st.pos ≤ inp.len) :
    sem inp (.loop1 b (unsatQ q)) fwd st = sem inp (.loop1 b q) fwd st := by
  unfold unsatQ
  cases hm : q.max with
  | none => rfl
  | some m =>
    simp only
    by_cases he : (m == USIZE_MAX) = true
    · simp only [he, if_true]
      have hme : m = USIZE_MAX := by simpa using he
      subst hme
      simp only [sem, loopBudget]
      refine loop1Iter_unsat _ q hm _ _ _ ?_
      have := mu_le inp fwd hp
      simp only [fitsQ, hm, Bool.or_eq_true, Bool.and_eq_true, decide_eq_true_eq] at hf
      rcases hf with hf | hf
      · omega
      · omega
    · simp only [he, Bool.false_eq_true, if_false]

/-! ## Structural invariants -/

mutual
theorem numGroups_unsat : ∀ n : Node, numGroups (unsat n) = numGroups n
  | .cat ns => by simp only [unsat, numGroups]; exact numGroupsList_unsat ns
  | .alt l r => by simp only [unsat, numGroups, numGroups_unsat l, numGroups_unsat r]
  | .group _ _ c => by simp only [unsat, numGroups, numGroups_unsat c]
  | .look _ _ _ _ c => by simp only [unsat, numGroups, numGroups_unsat c]
  | .loop b _ _ _ => by simp only [unsat, numGroups, numGroups_unsat b]
  | .loop1 b _ => by simp only [unsat, numGroups, numGroups_unsat b]
  | .empty => rfl
  | .goal => rfl
  | .char _ => rfl
  | .byteSeq _ => rfl
  | .byteSet _ => rfl
  | .charSet _ => rfl
  | .matchAny => rfl
  | .matchAnyExceptLT => rfl
  | .anchor _ _ => rfl
  | .wordBoundary _ _ => rfl
  | .backRef _ _ => rfl
  | .bracket _ => rfl
  | .stringSet _ _ => rfl
theorem numGroupsList_unsat : ∀ ns : List Node, numGroupsList (unsatList ns) = numGroupsList ns
  | [] => rfl
  | n :: ns => by simp only [unsatList, numGroupsList, numGroups_unsat n, numGroupsList_unsat ns]
end

mutual
theorem numLoops_unsat : ∀ n : Node, numLoops (unsat n) = numLoops n
  | .cat ns => by simp only [unsat, numLoops]; exact numLoopsList_unsat ns
  | .alt l r => by simp only [unsat, numLoops, numLoops_unsat l, numLoops_unsat r]
  | .group _ _ c => by simp only [unsat, numLoops, numLoops_unsat c]
  | .look _ _ _ _ c => by simp only [unsat, numLoops, numLoops_unsat c]
  | .loop b _ _ _ => by simp only [unsat, numLoops, numLoops_unsat b]
  | .loop1 b _ => by simp only [unsat, numLoops, numLoops_unsat b]
  | .empty => rfl
  | .goal => rfl
  | .char _ => rfl
  | .byteSeq _ => rfl
  | .byteSet _ => rfl
  | .charSet _ => rfl
  | .matchAny => rfl
  | .matchAnyExceptLT => rfl
  | .anchor _ _ => rfl
  | .wordBoundary _ _ => rfl
  | .backRef _ _ => rfl
  | .bracket _ => rfl
  | .stringSet _ _ => rfl
theorem numLoopsList_unsat : ∀ ns : List Node, numLoopsList (unsatList ns) = numLoopsList ns
  | [] => rfl
  | n :: ns => by simp only [unsatList, numLoopsList, numLoops_unsat n, numLoopsList_unsat ns]
end

mutual
theorem wf_unsat : ∀ n : Node, WF n → WF (unsat n)
  | .cat ns, h => by simp only [unsat, WF] at h ⊢; exact wfList_unsat ns h
  | .alt l r, h => by simp only [unsat, WF] at h ⊢; exact ⟨wf_unsat l h.1, wf_unsat r h.2⟩
  | .group _ _ c, h => by simp only [unsat, WF] at h ⊢; exact wf_unsat c h
  | .look _ _ _ _ c, h => by simp only [unsat, WF] at h ⊢; exact wf_unsat c h
  | .loop b q g0 g1, h => by
    simp only [unsat, WF] at h ⊢
    exact ⟨wf_unsat b h.1, quantOk_unsatQ h.2.1, by rw [numGroups_unsat]; exact h.2.2⟩
  | .loop1 b q, h => by
    simp only [unsat, WF] at h ⊢
    exact ⟨wf_unsat b h.1, quantOk_unsatQ h.2.1, by rw [numGroups_unsat]; exact h.2.2⟩
  | .empty, h => h
  | .goal, h => h
  | .char _, h => h
  | .byteSeq _, h => h
  | .byteSet _, h => h
  | .charSet _, h => h
  | .matchAny, h => h
  | .matchAnyExceptLT, h => h
  | .anchor _ _, h => h
  | .wordBoundary _ _, h => h
  | .backRef _ _, h => h
  | .bracket _, h => h
  | .stringSet _ _, h => h
theorem wfList_unsat : ∀ ns : List Node, WFList ns → WFList (unsatList ns)
  | [], h => h
  | n :: ns, h => by simp only [unsatList, WFList] at h ⊢; exact ⟨wf_unsat n h.1, wfList_unsat ns h.2⟩
end

/-! ## The layout of the emitted code does not see `unsat` -/

mutual
theorem code_unsat {I : Array Insn} {B : Array VM.Bracket} {uni : Bool} :
    ∀ (n : Node) (lb : Bool) (b e l : Nat), Code I B uni n lb b e l → Code I B uni (unsat n) lb b e l
  | .cat ns, lb, b, e, l, h => by simp only [unsat, Code] at h ⊢; exact codeList_unsat ns lb b e l h
  | .alt x y, lb, b, e, l, h => by
    simp only [unsat, Code] at h ⊢
    obtain ⟨j, h1, hx, h2, hy⟩ := h
    exact ⟨j, h1, code_unsat x lb _ _ _ hx, h2, by rw [numLoops_unsat]; exact code_unsat y lb _ _ _ hy⟩
  | .group _ _ c, lb, b, e, l, h => by
    simp only [unsat, Code] at h ⊢
    obtain ⟨j, h1, hc, h2, h3⟩ := h
    exact ⟨j, h1, code_unsat c lb _ _ _ hc, h2, h3⟩
  | .look _ bw _ _ c, lb, b, e, l, h => by
    simp only [unsat, Code] at h ⊢
    obtain ⟨j, h1, hc, h2, h3⟩ := h
    exact ⟨j, h1, code_unsat c bw _ _ _ hc, h2, h3⟩
  | .loop body q g0 g1, lb, b, e, l, h => by
    simp only [unsat, Code] at h ⊢
    obtain ⟨j, h1, h2, hb, h3, h4⟩ := h
    exact ⟨j, by rw [unsatQ_min, maxIters_unsatQ, unsatQ_greedy]; exact h1, h2, code_unsat body lb _ _ _ hb, h3, h4⟩
  | .loop1 body q, lb, b, e, l, h => by
    simp only [unsat, Code] at h ⊢
    exact ⟨by rw [unsatQ_min, maxIters_unsatQ, unsatQ_greedy]; exact h.1, code_unsat body lb _ _ _ h.2⟩
  | .empty, _, _, _, _, h => h
  | .goal, _, _, _, _, h => h
  | .char _, _, _, _, _, h => h
  | .byteSeq _, _, _, _, _, h => h
  | .byteSet _, _, _, _, _, h => h
  | .charSet _, _, _, _, _, h => h
  | .matchAny, _, _, _, _, h => h
  | .matchAnyExceptLT, _, _, _, _, h => h
  | .anchor _ _, _, _, _, _, h => h
  | .wordBoundary _ _, _, _, _, _, h => h
  | .backRef _ _, _, _, _, _, h => h
  | .bracket _, _, _, _, _, h => h
  | .stringSet _ _, _, _, _, _, h => h
theorem codeList_unsat {I : Array Insn} {B : Array VM.Bracket} {uni : Bool} :
    ∀ (ns : List Node) (lb : Bool) (b e l : Nat), CodeList I B uni ns lb b e l →
      CodeList I B uni (unsatList ns) lb b e l
  | [], _, _, _, _, h => h
  | n :: ns, lb, b, e, l, h => by
    simp only [unsatList, CodeList] at h ⊢
    obtain ⟨m, hn, hns⟩ := h
    exact ⟨m, code_unsat n lb _ _ _ hn, by rw [numLoops_unsat]; exact codeList_unsat ns lb _ _ _ hns⟩
end

/-! ## The semantics does not see `unsat` on haystacks that fit -/

section Sem
variable {inp : Input} {cs : List Nat}

theorem good_pos_le (ht : Utf8Text inp cs) {st : St} (hg : Good cs st) : st.pos ≤ inp.len :=
  AtBoundary.le_len ht hg.1

mutual
theorem sem_unsat (ht : Utf8Text inp cs) :
    ∀ (n : Node) (fwd : Bool), WF n → fits inp.len n = true → NodeEq (utf8Inv cs) inp fwd (unsat n) n
  | .cat ns, fwd, hw, hf => by
    simp only [unsat]
    exact NodeEq.cat (semList_unsat ht ns fwd (by simpa only [WF] using hw) (by simpa only [fits, allQ] using hf))
  | .alt l r, fwd, hw, hf => by
    simp only [unsat]
    simp only [WF] at hw
    simp only [fits, allQ, Bool.and_eq_true] at hf
    exact NodeEq.alt (sem_unsat ht l fwd hw.1 hf.1) (sem_unsat ht r fwd hw.2 hf.2)
  | .group i nm c, fwd, hw, hf => by
    simp only [unsat]
    exact NodeEq.group i nm (sem_unsat ht c fwd (by simpa only [WF] using hw) (by simpa only [fits, allQ] using hf))
  | .look ng bw sg eg c, fwd, hw, hf => by
    simp only [unsat]
    exact NodeEq.look ng bw sg eg
      (sem_unsat ht c (!bw) (by simpa only [WF] using hw) (by simpa only [fits, allQ] using hf))
  | .loop b q g0 g1, fwd, hw, hf => by
    simp only [unsat]
    simp only [WF] at hw
    simp only [fits, allQ, Bool.and_eq_true] at hf
    have h1 : NodeEq (utf8Inv cs) inp fwd (.loop (unsat b) (unsatQ q) g0 g1) (.loop b (unsatQ q) g0 g1) :=
      NodeEq.loop _ g0 g1 (sem_unsat ht b fwd hw.1 hf.1) (pres_utf8 ht fwd _ (wf_unsat b hw.1))
    exact h1.trans (fun st hg => ObsEq.of_eq (sem_loop_unsatQ inp b q g0 g1 fwd st hf.2 (good_pos_le ht hg)))
  | .loop1 b q, fwd, hw, hf => by
    simp only [unsat]
    simp only [WF] at hw
    simp only [fits, allQ, Bool.and_eq_true] at hf
    have h1 : NodeEq (utf8Inv cs) inp fwd (.loop1 (unsat b) (unsatQ q)) (.loop1 b (unsatQ q)) :=
      NodeEq.loop1 _ (sem_unsat ht b fwd hw.1 hf.1) (pres_utf8 ht fwd _ (wf_unsat b hw.1))
    exact h1.trans (fun st hg => ObsEq.of_eq (sem_loop1_unsatQ inp b q fwd st hf.2 (good_pos_le ht hg)))
  | .empty, _, _, _ => NodeEq.refl _ _ _ _
  | .goal, _, _, _ => NodeEq.refl _ _ _ _
  | .char _, _, _, _ => NodeEq.refl _ _ _ _
  | .byteSeq _, _, _, _ => NodeEq.refl _ _ _ _
  | .byteSet _, _, _, _ => NodeEq.refl _ _ _ _
  | .charSet _, _, _, _ => NodeEq.refl _ _ _ _
  | .matchAny, _, _, _ => NodeEq.refl _ _ _ _
  | .matchAnyExceptLT, _, _, _ => NodeEq.refl _ _ _ _
  | .anchor _ _, _, _, _ => NodeEq.refl _ _ _ _
  | .wordBoundary _ _, _, _, _ => NodeEq.refl _ _ _ _
  | .backRef _ _, _, _, _ => NodeEq.refl _ _ _ _
  | .bracket _, _, _, _ => NodeEq.refl _ _ _ _
  | .stringSet _ _, _, _, _ => NodeEq.refl _ _ _ _
theorem semList_unsat (ht : Utf8Text inp cs) :
    ∀ (ns : List Node) (fwd : Bool), WFList ns → allQList (fitsQ inp.len) ns = true →
      ListEq (utf8Inv cs) inp fwd (unsatList ns) ns
  | [], _, _, _ => ListEq.nil
  | n :: ns, fwd, hw, hf => by
    simp only [unsatList]
    simp only [WFList] at hw
    simp only [allQList, Bool.and_eq_true] at hf
    exact ListEq.cons (sem_unsat ht n fwd hw.1 hf.1) (pres_utf8 ht fwd _ (wf_unsat n hw.1))
      (semList_unsat ht ns fwd hw.2 hf.2)
end

/-- **The first match does not see `unsat`** on a haystack that fits. -/
theorem firstMatch_unsat (ht : Utf8Text inp cs) {n : Node} (hw : WF n) (hf : fits inp.len n = true)
    {p : Nat} (hb : AtBoundary cs p) : firstMatch inp (unsat n) p = firstMatch inp n p := by
  unfold firstMatch
  have e : initSt (unsat n) p = initSt n p := by simp [initSt, numGroups_unsat]
  rw [e]
  exact (sem_unsat ht n true hw hf _ (Regress.C03.good_initSt cs n hb)).head?

end Sem

end Regress.Final
