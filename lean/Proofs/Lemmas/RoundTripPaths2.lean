import Proofs.Lemmas.RoundTripPaths
/-!
# Round trip, part 21: the shape of the scan state across `(`, `)` and `|`
-/
namespace Regress.RoundTrip
open Regress Regress.IR Regress.Parse Regress.Lower Regress.Print

/-- The effect of a `(` on the depth-indexed maps. -/
structure OpenRel (a a1 : Scan) : Prop where
  depth : a1.parenDepth = a.parenDepth + 1
  agree : Agree a.parenDepth a a1
  top : altAt a1 a.parenDepth = altAt a a.parenDepth
  zero : altAt a1 (a.parenDepth + 1) = 0

/-- The effect of a `)` (at depth `> 0`). -/
structure CloseRel (b1 b : Scan) : Prop where
  depth : b.parenDepth + 1 = b1.parenDepth
  agree : Agree b.parenDepth b1 b
  top : altAt b b.parenDepth = altAt b1 b.parenDepth

/-- The state after `(`, whatever was recorded for the group. -/
theorem openRel_mk (a : Scan) (locs : List (List Nat × List (List (Nat × Nat)))) (named : List (List Nat × List Nat))
    (gmax : Nat) :
    OpenRel a { parenDepth := a.parenDepth + 1, altIdx := altInsert a.altIdx (a.parenDepth + 1) 0,
                groupIds := altInsert a.groupIds (a.parenDepth + 1) a.nextGroupId,
                nextGroupId := a.nextGroupId + 1, locs := locs, named := named, gmax := gmax } := by
  refine ⟨rfl, ⟨fun d hd => ?_, fun d hd => ?_⟩, ?_, ?_⟩
  · have : ¬ d = a.parenDepth + 1 := by omega
    simp [gidAt, altGet_altInsert, this]
  · have : ¬ d = a.parenDepth + 1 := by omega
    simp [altAt, altGet_altInsert, this]
  · simp [altAt, altGet_altInsert]
  · simp [altAt, altGet_altInsert]

section
variable {fl : Flags}

theorem scan_open_nc' (f : Nat) {x : Nat} (r : List Nat) (sc : Scan) (hx : x ≠ 0x3C) :
    ∃ sc1, sc1.locs = sc.locs ∧ OpenRel sc sc1 ∧
      scanLoop fl (f + 1) (0x28 :: 0x3F :: x :: r) sc = scanLoop fl f (x :: r) sc1 := by
  refine ⟨?w, ?h1, ?h2, ?h3⟩
  case h3 =>
    rw [scanLoop.eq_def]; dsimp only
    simp only [show ((0x28 : Nat) == 0x5C) = false from rfl, show ((0x28 : Nat) == 0x5B) = false from rfl,
      show ((0x28 : Nat) == 0x28) = true from rfl, Bool.false_eq_true, if_false, if_true,
      tryConsumeName_not_lt r hx]
    rfl
  case h1 => rfl
  case h2 => exact openRel_mk sc _ _ _

theorem scan_open_lookbehind' (f : Nat) {y : Nat} (r : List Nat) (sc : Scan) (hy : y = 0x3D ∨ y = 0x21) :
    ∃ sc1, sc1.locs = sc.locs ∧ OpenRel sc sc1 ∧
      scanLoop fl (f + 1) (0x28 :: 0x3F :: 0x3C :: y :: r) sc = scanLoop fl f (y :: r) sc1 := by
  have hn : tryConsumeName (0x3C :: y :: r) = .ok (none, y :: r) := by
    rcases hy with rfl | rfl
    · simp [tryConsumeName, nameChar, isChar, idStart_3D]
    · simp [tryConsumeName, nameChar, isChar, idStart_21]
  refine ⟨?w, ?h1, ?h2, ?h3⟩
  case h3 =>
    rw [scanLoop.eq_def]; dsimp only
    simp only [show ((0x28 : Nat) == 0x5C) = false from rfl, show ((0x28 : Nat) == 0x5B) = false from rfl,
      show ((0x28 : Nat) == 0x28) = true from rfl, Bool.false_eq_true, if_false, if_true, hn]
    rfl
  case h1 => rfl
  case h2 => exact openRel_mk sc _ _ _

theorem scan_open_cap' (f : Nat) {b : Nat} (r : List Nat) (sc : Scan) (hb : b ≠ 0x3F) :
    ∃ sc1, sc1.locs = sc.locs ∧ OpenRel sc sc1 ∧
      scanLoop fl (f + 1) (0x28 :: b :: r) sc = scanLoop fl f (b :: r) sc1 := by
  refine ⟨?w, ?h1, ?h2, ?h3⟩
  case h3 =>
    rw [scanLoop]
    · simp only [show ((0x28 : Nat) == 0x5C) = false from rfl, show ((0x28 : Nat) == 0x5B) = false from rfl,
        show ((0x28 : Nat) == 0x28) = true from rfl, Bool.false_eq_true, if_false, if_true]
      rfl
    · intro rest2 h
      simp only [List.cons.injEq] at h
      exact hb h.1
  case h1 => rfl
  case h2 => exact openRel_mk sc _ _ _

theorem scan_open_named' (f : Nat) {nm : List Nat} (hnm : nameOK nm = true) (r : List Nat) (sc : Scan) :
    ∃ sc1, sc1.locs = mapPush sc.locs nm (curPath sc) ∧ OpenRel sc sc1 ∧
      scanLoop fl (f + 1) (0x28 :: 0x3F :: 0x3C :: (nm ++ 0x3E :: r)) sc = scanLoop fl f r sc1 := by
  refine ⟨?w, ?h1, ?h2, ?h3⟩
  case h3 =>
    rw [scanLoop.eq_def]; dsimp only
    simp only [show ((0x28 : Nat) == 0x5C) = false from rfl, show ((0x28 : Nat) == 0x5B) = false from rfl,
      show ((0x28 : Nat) == 0x28) = true from rfl, Bool.false_eq_true, if_false, if_true,
      tryConsumeName_print hnm r]
    rfl
  case h1 => rfl
  case h2 => exact openRel_mk sc _ _ _

theorem scan_rparen' (f : Nat) (r : List Nat) (sc : Scan) {D : Nat} (hd : sc.parenDepth = D + 1) :
    ∃ sc1, sc1.locs = sc.locs ∧ CloseRel sc sc1 ∧ scanLoop fl (f + 1) (0x29 :: r) sc = scanLoop fl f r sc1 := by
  have hpos : sc.parenDepth > 0 := by omega
  refine ⟨?w, ?h1, ?h2, ?h3⟩
  case h3 =>
    rw [scanLoop.eq_def]; dsimp only
    simp only [show ((0x29 : Nat) == 0x5C) = false from rfl, show ((0x29 : Nat) == 0x5B) = false from rfl,
      show ((0x29 : Nat) == 0x28) = false from rfl, show ((0x29 : Nat) == 0x29) = true from rfl,
      Bool.false_eq_true, if_false, if_true, hpos]
    rfl
  case h1 => rfl
  case h2 =>
    refine ⟨by simp only; omega, ⟨fun d hd' => ?_, fun d hd' => ?_⟩, ?_⟩
    · simp only at hd'
      have : ¬ d = sc.parenDepth := by omega
      simp [gidAt, altGet_altRemove, this]
    · simp only at hd'
      have : ¬ d = sc.parenDepth := by omega
      simp [altAt, altGet_altRemove, this]
    · have : ¬ sc.parenDepth - 1 = sc.parenDepth := by omega
      simp [altAt, altGet_altRemove, this]

/-- `|`. -/
theorem scans_bar' : Scans fl [0x7C] (fun a b => b.locs = a.locs ∧ Sh 1 a b) := by
  intro sc rest fuel hf
  obtain ⟨f, rfl⟩ : ∃ f, fuel = f + 1 := ⟨fuel - 1, by simp at hf; omega⟩
  refine ⟨?w, f, by simp at hf; omega, ?h1, ?h2⟩
  case h1 =>
    simp only [List.cons_append, List.nil_append]
    rw [scanLoop.eq_def]; dsimp only
    simp only [show ((0x7C : Nat) == 0x5C) = false from rfl, show ((0x7C : Nat) == 0x5B) = false from rfl,
      show ((0x7C : Nat) == 0x28) = false from rfl, show ((0x7C : Nat) == 0x29) = false from rfl,
      show ((0x7C : Nat) == 0x7C) = true from rfl, Bool.false_eq_true, if_false, if_true]
    rfl
  case h2 =>
    refine ⟨rfl, rfl, ⟨fun d _ => rfl, fun d hd => ?_⟩, ?_⟩
    · have : ¬ d = sc.parenDepth := by omega
      simp [altAt, altGet_altInsert, this]
    · simp [altAt, altGet_altInsert]

/-- What an opening piece of text does: nothing recorded, one level deeper. -/
def OpenL (a b : Scan) : Prop := b.locs = a.locs ∧ OpenRel a b

theorem OpenL.of_seq {a b c : Scan} (h1 : OpenL a b) (h2 : SEq b c) : OpenL a c := by
  unfold SEq at h2; subst h2; exact h1

theorem scans_open_nc' {x : Nat} (t : List Nat) (hx : x ≠ 0x3C) (hp : plainC x = true)
    (ht : ∀ d ∈ t, plainC d = true) : Scans fl (0x28 :: 0x3F :: x :: t) OpenL := by
  intro sc rest fuel hf
  obtain ⟨f, rfl⟩ : ∃ f, fuel = f + 1 := ⟨fuel - 1, by simp at hf; omega⟩
  obtain ⟨sc1, h1, h1', h2⟩ := scan_open_nc' (fl := fl) f (t ++ rest) sc hx
  obtain ⟨sc', f', h3, h4, h5⟩ := scans_plain (fl := fl) (x :: t)
    (by intro d hd; rcases List.mem_cons.1 hd with rfl | hd; exact hp; exact ht d hd) sc1 rest f
    (by simp at hf ⊢; omega)
  exact ⟨sc', f', h3, by simp only [List.cons_append] at h2 h4 ⊢; rw [h2, h4], OpenL.of_seq ⟨h1, h1'⟩ h5⟩

theorem scans_wrapOpen' : Scans fl [0x28, 0x3F, 0x3A] OpenL :=
  scans_open_nc' [] (by decide) (by decide) (by intro d hd; cases hd)

theorem scans_lookOpen' (ahead neg : Bool) : Scans fl (lookOpen ahead neg) OpenL := by
  cases ahead <;> cases neg <;> simp only [lookOpen, if_true, Bool.false_eq_true, if_false]
  · intro sc rest fuel hf
    obtain ⟨f, rfl⟩ : ∃ f, fuel = f + 1 + 1 := ⟨fuel - 2, by simp at hf; omega⟩
    obtain ⟨sc1, h1, h1', h2⟩ := scan_open_lookbehind' (fl := fl) (f + 1) rest sc (.inl rfl)
    exact ⟨sc1, f, by simp at hf; omega,
      by simp only [List.cons_append, List.nil_append]; rw [h2, scan_plain f rest sc1 (by decide)], h1, h1'⟩
  · intro sc rest fuel hf
    obtain ⟨f, rfl⟩ : ∃ f, fuel = f + 1 + 1 := ⟨fuel - 2, by simp at hf; omega⟩
    obtain ⟨sc1, h1, h1', h2⟩ := scan_open_lookbehind' (fl := fl) (f + 1) rest sc (.inr rfl)
    exact ⟨sc1, f, by simp at hf; omega,
      by simp only [List.cons_append, List.nil_append]; rw [h2, scan_plain f rest sc1 (by decide)], h1, h1'⟩
  · exact scans_open_nc' [] (by decide) (by decide) (by intro d hd; cases hd)
  · exact scans_open_nc' [] (by decide) (by decide) (by intro d hd; cases hd)

theorem scans_modOpen' (add rem : ES.Mods) : Scans fl ([0x28, 0x3F] ++ printMods add rem ++ [0x3A]) OpenL := by
  obtain ⟨ai, am, as⟩ := add
  obtain ⟨ri, rm, rs⟩ := rem
  cases ai <;> cases am <;> cases as <;> cases ri <;> cases rm <;> cases rs <;>
    (simp only [printMods, modLetters, ES.Mods.isEmpty, Bool.not_true, Bool.not_false, Bool.and_self,
       Bool.and_false, Bool.false_and, if_true, if_false, Bool.false_eq_true, List.append_nil, List.nil_append,
       List.cons_append]
     exact scans_open_nc' _ (by decide) (by decide) (by decide))

end

end Regress.RoundTrip
