import RegressModel.Api.Searcher
/-!
# Specification vocabulary for C20 (`core::str::pattern::Searcher` / `ReverseSearcher` contract)

Only definitions (and decidability instances); the lemmas are in `Proofs/Lemmas/Searcher.lean`, the
property theorems in `Proofs/C20.lean`.
-/
namespace Regress.C20
open Regress.Api

/-- The `Searcher` contract on the steps returned before `Done`: "index ranges that are adjacent,
non-overlapping, covering the whole haystack". `tilesFrom len c steps`: the steps start at `c`, each
begins where its predecessor ended, and the last one ends at `len`; a `Match(s, e)` has `s ≤ e`
(empty matches are allowed by the contract — e.g. `""` as a `&str` pattern), a `Reject(s, e)` has
`s < e`; there is no `Done` among them. -/
def tilesFrom (len : Nat) : Nat → List SearchStep → Bool
  | c, [] => c == len
  | c, .match s e :: l => s == c && decide (s ≤ e) && tilesFrom len e l
  | c, .reject s e :: l => s == c && decide (s < e) && tilesFrom len e l
  | _, .done :: _ => false

/-- "…and laying on utf8 boundaries": both endpoints of every step. -/
def onBoundaries (ctx : SearchCtx) : List SearchStep → Bool
  | [] => true
  | .match s e :: l => ctx.isBoundary s && ctx.isBoundary e && onBoundaries ctx l
  | .reject s e :: l => ctx.isBoundary s && ctx.isBoundary e && onBoundaries ctx l
  | .done :: l => onBoundaries ctx l

/-- The ranges of the `Match` steps. -/
def matchesOf : List SearchStep → List (Nat × Nat)
  | [] => []
  | .match s e :: l => (s, e) :: matchesOf l
  | _ :: l => matchesOf l

/-- The first `Match` step of a list of steps (what `str::find` / `str::rfind` look for when driving
`next` / `next_back`). -/
def firstMatch : List SearchStep → Option (Nat × Nat)
  | [] => none
  | .match s e :: _ => some (s, e)
  | _ :: l => firstMatch l

/-- Where the match iterator looks next after yielding `m` (`exec::Matches` / `next_match`; C09
`advance`): at its end, except that after an empty match one char is skipped — and there is no next
match if there is no char to skip. -/
def advance (ctx : SearchCtx) (m : Nat × Nat) : Option Nat :=
  if m.1 != m.2 then some m.2 else ctx.nextBoundary m.2

/-- `IsIterO ctx cursor ms`: `ms` is what the match iterator yields when its cursor (`position:
Option<usize>`) is `cursor`: nothing if the cursor is `None`; otherwise the first match at or after
the cursor (`findFrom`), then the iteration continued at `advance`.
(`find_from(h, c).next()` and the continuation of an iterator standing at `c` are the same call
`next_match(c)`, because `exec::Matches` has no state besides its position.) -/
def IsIterO (ctx : SearchCtx) : Option Nat → List (Nat × Nat) → Prop
  | none, [] => True
  | none, _ :: _ => False
  | some c, [] => ctx.findFrom c = none
  | some c, m :: ms => ctx.findFrom c = some m ∧ IsIterO ctx (advance ctx m) ms

/-- `IsIter ctx c ms`: `ms` = `regex.find_from(haystack, c)` drained. -/
def IsIter (ctx : SearchCtx) (c : Nat) (ms : List (Nat × Nat)) : Prop := IsIterO ctx (some c) ms

instance IsIterO.dec (ctx : SearchCtx) : (cur : Option Nat) → (ms : List (Nat × Nat)) →
    Decidable (IsIterO ctx cur ms)
  | none, [] => isTrue trivial
  | none, _ :: _ => isFalse (fun h => h)
  | some c, [] => by unfold IsIterO; infer_instance
  | some c, m :: ms =>
    have := IsIterO.dec ctx (advance ctx m) ms
    by unfold IsIterO; infer_instance

instance (ctx : SearchCtx) (c : Nat) (ms : List (Nat × Nat)) : Decidable (IsIter ctx c ms) :=
  IsIterO.dec ctx (some c) ms

/-- Hypotheses on the context (what C06/C09 give for the real engine and `str` gives for the
haystack). Everything is only required at char boundaries `p ≤ len`: the searcher never asks
anything else.
Not required: `nextBoundary e = none ↔ len ≤ e` (true for a `str`). The searcher and the iterator
specification `IsIterO` use the same `nextBoundary`; if it gave up early both would stop looking for
matches and the searcher would reject the rest, so C20 holds without it. -/
structure CtxOK (ctx : SearchCtx) : Prop where
  /-- `find_from(h, p).next()` is an in-range match starting at or after `p`. -/
  find_range : ∀ p s e, p ≤ ctx.len → ctx.isBoundary p = true → ctx.findFrom p = some (s, e) →
    p ≤ s ∧ s ≤ e ∧ e ≤ ctx.len
  /-- Matches lie on char boundaries. -/
  find_boundary : ∀ p s e, p ≤ ctx.len → ctx.isBoundary p = true → ctx.findFrom p = some (s, e) →
    ctx.isBoundary s = true ∧ ctx.isBoundary e = true
  /-- Restart consistency: the first match at or after `p` is also the first match at or after its
  own start (match attempts are deterministic). -/
  find_restart : ∀ p s e, p ≤ ctx.len → ctx.isBoundary p = true → ctx.findFrom p = some (s, e) →
    ctx.findFrom s = some (s, e)
  boundary_zero : ctx.isBoundary 0 = true
  boundary_len : ctx.isBoundary ctx.len = true
  /-- The char after a boundary ends at a later boundary inside the haystack. -/
  next_boundary : ∀ e q, e ≤ ctx.len → ctx.isBoundary e = true → ctx.nextBoundary e = some q →
    e < q ∧ q ≤ ctx.len ∧ ctx.isBoundary q = true

/-- A decision procedure for `CtxOK` on a concrete context (`ctxOK_of_check`): check every
boundary `p ≤ len`. -/
def ctxOKCheck (ctx : SearchCtx) : Bool :=
  ctx.isBoundary 0 && ctx.isBoundary ctx.len &&
  (List.range (ctx.len + 1)).all fun p =>
    !ctx.isBoundary p ||
      ((match ctx.findFrom p with
        | none => true
        | some (s, e) =>
          decide (p ≤ s) && decide (s ≤ e) && decide (e ≤ ctx.len) && ctx.isBoundary s &&
            ctx.isBoundary e && ctx.findFrom s == some (s, e)) &&
       (match ctx.nextBoundary p with
        | none => true
        | some q => decide (p < q) && decide (q ≤ ctx.len) && ctx.isBoundary q))

end Regress.C20
