import RegressModel.Api.Searcher
/-!
# Specification vocabulary for C20 (`core::str::pattern::Searcher` contract)
-/
namespace Regress.C20
open Regress.Api

/-- The `Searcher` contract on the steps returned before `Done`: "index ranges that are adjacent,
non-overlapping, covering the whole haystack". `tilesFrom len c steps`: the steps start at `c`, each
begins where its predecessor ended, and the last one ends at `len`. (Empty `Match(a, a)` steps are
allowed by the contract — e.g. `""` as a `&str` pattern — but then the next step must still start at
`a`.) -/
def tilesFrom (len : Nat) : Nat → List SearchStep → Bool
  | c, [] => c == len
  | c, .match s e :: l => s == c && s ≤ e && tilesFrom len e l
  | c, .reject s e :: l => s == c && s ≤ e && tilesFrom len e l
  | _, .done :: _ => false

/-- The same contract for `ReverseSearcher::next_back`: the steps start at the end `c` and each ends
where its predecessor began, down to 0. -/
def tilesBackFrom : Nat → List SearchStep → Bool
  | c, [] => c == 0
  | c, .match s e :: l => e == c && s ≤ e && tilesBackFrom s l
  | c, .reject s e :: l => e == c && s ≤ e && tilesBackFrom s l
  | _, .done :: _ => false

/-- "…and laying on utf8 boundaries". -/
def onBoundaries (ctx : SearchCtx) : List SearchStep → Bool
  | [] => true
  | .match s e :: l => ctx.isBoundary s && ctx.isBoundary e && onBoundaries ctx l
  | .reject s e :: l => ctx.isBoundary s && ctx.isBoundary e && onBoundaries ctx l
  | .done :: l => onBoundaries ctx l

/-- The ranges of the `Match` steps. -/
def matchesOf : List SearchStep → List (Nat × Nat)
  | [] => []
  | .match s e :: l => (s, e) :: matchesOf l
  | _ :: l => matchesOf l

/-- `IsIter ctx c ms`: `ms` is what the match iterator yields from position `c` when no match is
empty: the first match at or after `c`, then the iteration continued at its end.
(`find_from(h, e).next()` and the continuation of an iterator standing at `e` are the same call
`next_match(e)`, because `exec::Matches` has no state besides its position.) -/
def IsIter (ctx : SearchCtx) : Nat → List (Nat × Nat) → Prop
  | c, [] => ctx.findFrom c = none
  | c, m :: ms => ctx.findFrom c = some m ∧ IsIter ctx m.2 ms

/-- Hypotheses of `forward_tiles_partial`. -/
structure ForwardOK (ctx : SearchCtx) : Prop where
  /-- `find_from(h, p).next()` is a **non-empty** in-range match starting at or after `p`. -/
  find_range : ∀ p s e, p ≤ ctx.len → ctx.findFrom p = some (s, e) → p ≤ s ∧ s < e ∧ e ≤ ctx.len
  /-- Restarting the search at the start of the match found gives the same match
  (a consequence of "first match at or after `p`"). -/
  find_restart : ∀ p s e, p ≤ ctx.len → ctx.findFrom p = some (s, e) → ctx.findFrom s = some (s, e)
  /-- Matches lie on char boundaries; so do `0` and `len`. -/
  find_boundary : ∀ p s e, p ≤ ctx.len → ctx.findFrom p = some (s, e) →
    ctx.isBoundary s = true ∧ ctx.isBoundary e = true
  boundary_zero : ctx.isBoundary 0 = true
  boundary_len : ctx.isBoundary ctx.len = true
  /-- `allMatches` is the drained iterator from 0. -/
  all_iter : IsIter ctx 0 ctx.allMatches

end Regress.C20
