import Proofs.Lemmas.RoundTripPaths3
/-!
# Round trip, part 23: the induction for the alternative paths (`scan_paths`)
-/
namespace Regress.RoundTrip
open Regress Regress.IR Regress.Parse Regress.Lower Regress.Print

/-- Some `PRel` (what the body of a parenthesis provides). -/
def PAny (names : List (List Nat)) (a b : Scan) : Prop := ∃ lo hi bars, PRel names lo hi bars a b

/-- What is proved about a node: in the three inner contexts no top-level `|`; as a disjunction some. -/
structure PathsOK (fl : Flags) (n : ES.Node) : Prop where
  inner : ∀ ctx, ctx ≠ .disj → Scans fl (pr ctx n) (PRel (gnames n) 0 0 0)
  disj : Scans fl (pr .disj n) (PAny (gnames n))

section
variable {fl : Flags}

theorem PRel.any {names : List (List Nat)} {lo hi bars : Nat} {a b : Scan} (h : PRel names lo hi bars a b) :
    PAny names a b := ⟨lo, hi, bars, h⟩

theorem PRel.then_seq {names : List (List Nat)} {lo hi bars : Nat} {a b c : Scan}
    (h : PRel names lo hi bars a b) (h2 : SEq b c) : PRel names lo hi bars a c := by
  unfold SEq at h2; subst h2; exact h

/-- A leaf: text that leaves the scan state alone. -/
theorem paths_leaf {t : List Nat} (h : Scans fl t SEq) : Scans fl t (PRel [] 0 0 0) :=
  h.mono (fun _ _ h => PRel.nil 0 0 h)

/-- `opening  body  )` for an opening that records nothing. -/
theorem paths_paren {opn body : List Nat} {names : List (List Nat)} (ho : Scans fl opn OpenL)
    (hb : Scans fl body (PAny names)) : Scans fl (opn ++ body ++ [0x29]) (PRel names 0 0 0) := by
  intro sc rest fuel hf
  simp only [List.length_append, List.length_cons, List.length_nil] at hf
  obtain ⟨a1, f1, hf1, e1, o1⟩ := ho sc (body ++ 0x29 :: rest) fuel (by simp; omega)
  obtain ⟨b1, f2, hf2, e2, lo, hi, bars, r2⟩ := hb a1 (0x29 :: rest) f1 (by simpa using hf1)
  obtain ⟨f3, rfl⟩ : ∃ f3, f2 = f3 + 1 := ⟨f2 - 1, by simp at hf2; omega⟩
  have hd : b1.parenDepth = sc.parenDepth + 1 := by rw [r2.1.depth, o1.2.depth]
  obtain ⟨b, hl3, c3, e3⟩ := scan_rparen' (fl := fl) f3 rest b1 hd
  refine ⟨b, f3, by simp at hf2; omega, ?_, PRel.paren o1 r2 ⟨hl3, c3⟩⟩
  simp only [List.append_assoc, List.cons_append, List.nil_append]
  rw [e1, e2, e3]

/-- `(` body `)`, unnamed capturing. -/
theorem paths_group {n : ES.Node} {names : List (List Nat)} (hb : Scans fl (pr .disj n) (PAny names)) :
    Scans fl ([0x28] ++ pr .disj n ++ [0x29]) (PRel names 0 0 0) := by
  intro sc rest fuel hf
  obtain ⟨f, rfl⟩ : ∃ f, fuel = f + 1 := ⟨fuel - 1, by simp at hf; omega⟩
  obtain ⟨b0, tl, hbt, hb0⟩ := body_head n rest
  obtain ⟨a1, hl1, o1, e1⟩ := scan_open_cap' (fl := fl) f tl sc hb0
  obtain ⟨b1, f2, hf2, e2, lo, hi, bars, r2⟩ := hb a1 (0x29 :: rest) f (by simp at hf ⊢; omega)
  obtain ⟨f3, rfl⟩ : ∃ f3, f2 = f3 + 1 := ⟨f2 - 1, by simp at hf2; omega⟩
  have hd : b1.parenDepth = sc.parenDepth + 1 := by rw [r2.1.depth, o1.depth]
  obtain ⟨b, hl3, c3, e3⟩ := scan_rparen' (fl := fl) f3 rest b1 hd
  refine ⟨b, f3, by simp at hf2; omega, ?_, PRel.paren ⟨hl1, o1⟩ r2 ⟨hl3, c3⟩⟩
  simp only [List.append_assoc, List.cons_append, List.nil_append]
  rw [hbt, e1, ← hbt, e2, e3]

/-- `(?<name>` body `)`. -/
theorem paths_named_group {n : ES.Node} {names : List (List Nat)} {nm : List Nat} (hnm : nameOK nm = true)
    (hfresh : nm ∉ names) (hb : Scans fl (pr .disj n) (PAny names)) :
    Scans fl (groupOpen (some nm) ++ pr .disj n ++ [0x29]) (PRel (nm :: names) 0 0 0) := by
  intro sc rest fuel hf
  obtain ⟨f, rfl⟩ : ∃ f, fuel = f + 1 := ⟨fuel - 1, by simp at hf; omega⟩
  obtain ⟨a1, hl1, o1, e1⟩ := scan_open_named' (fl := fl) f hnm (pr .disj n ++ 0x29 :: rest) sc
  obtain ⟨b1, f2, hf2, e2, lo, hi, bars, r2⟩ := hb a1 (0x29 :: rest) f (by simp [groupOpen] at hf ⊢; omega)
  obtain ⟨f3, rfl⟩ : ∃ f3, f2 = f3 + 1 := ⟨f2 - 1, by simp at hf2; omega⟩
  have hd : b1.parenDepth = sc.parenDepth + 1 := by rw [r2.1.depth, o1.depth]
  obtain ⟨b, hl3, c3, e3⟩ := scan_rparen' (fl := fl) f3 rest b1 hd
  refine ⟨b, f3, by simp at hf2; omega, ?_, PRel.named nm hl1 o1 r2 ⟨hl3, c3⟩ hfresh⟩
  simp only [groupOpen, List.append_assoc, List.cons_append, List.nil_append]
  rw [e1, e2, e3]

theorem paths_wrap {t : List Nat} {names : List (List Nat)} (h : Scans fl t (PAny names)) :
    Scans fl (wrap t) (PRel names 0 0 0) := by
  have := paths_paren (scans_wrapOpen' (fl := fl)) h
  simpa only [wrap] using this

/-- Children of a `cat`. -/
theorem paths_terms : ∀ (ns : List ES.Node), (∀ n ∈ ns, Scans fl (pr .term n) (PRel (gnames n) 0 0 0)) →
    noDupSeq ns = true → Scans fl (prTerms ns) (PRel (gnamesList ns) 0 0 0) := by
  intro ns
  induction ns with
  | nil => intro _ _; exact Scans.nil.mono (fun _ _ h => PRel.nil 0 0 h.symm)
  | cons n ns ih =>
    intro h hnd
    simp only [noDupSeq, Bool.and_eq_true, List.all_eq_true, Bool.not_eq_true', List.contains_eq_mem,
      decide_eq_false_iff_not] at hnd
    simp only [prTerms, gnamesList]
    exact ((h n (by simp)).append (ih (fun m hm => h m (by simp [hm])) hnd.1.2)).mono
      (fun _ _ ⟨_, h1, h2⟩ => h1.seq h2 hnd.2)

/-- The alternatives after the first, each after its `|`. -/
theorem paths_altsTail : ∀ (ns : List ES.Node), (∀ n ∈ ns, Scans fl (pr .alt n) (PRel (gnames n) 0 0 0)) →
    Scans fl (prAltsTail ns) (PRel (gnamesList ns) 1 ns.length ns.length) := by
  intro ns
  induction ns with
  | nil => intro _; exact Scans.nil.mono (fun _ _ h => PRel.nil 1 0 h.symm)
  | cons n ns ih =>
    intro h
    simp only [prAltsTail, gnamesList, List.append_assoc, List.length_cons]
    refine ((scans_bar' (fl := fl)).append ((h n (by simp)).append (ih (fun m hm => h m (by simp [hm]))))).mono ?_
    intro a c ⟨a', h0, b, h1, h2⟩
    have := PRel.tail_cons h0 h1 h2
    rw [Nat.add_comm 1 ns.length] at this
    exact this

theorem paths_alts (ns : List ES.Node) (h : ∀ n ∈ ns, Scans fl (pr .alt n) (PRel (gnames n) 0 0 0)) :
    Scans fl (prAlts ns) (PAny (gnamesList ns)) := by
  cases ns with
  | nil => exact Scans.nil.mono (fun _ _ h => (PRel.nil 0 0 h.symm).any)
  | cons n ns =>
    simp only [prAlts, gnamesList]
    exact ((h n (by simp)).append (paths_altsTail ns (fun m hm => h m (by simp [hm])))).mono
      (fun _ _ ⟨_, h1, h2⟩ => (h1.alt_cons h2).any)

/-- A node that prints the same text `t` in the inner contexts, possibly wrapped. -/
theorem pathsOK_of {n : ES.Node} {t : List Nat} (h : Scans fl t (PRel (gnames n) 0 0 0))
    (hp : ∀ ctx, pr ctx n = t ∨ pr ctx n = wrap t) : PathsOK fl n := by
  refine ⟨fun ctx _ => ?_, ?_⟩
  · rcases hp ctx with e | e <;> rw [e]
    · exact h
    · exact paths_wrap (h.mono fun _ _ h => h.any)
  · rcases hp .disj with e | e <;> rw [e]
    · exact h.mono fun _ _ h => h.any
    · exact (paths_wrap (h.mono fun _ _ h => h.any)).mono fun _ _ h => h.any

theorem scan_paths (hc : ClsScan fl) (hv : VClsScan fl) (n : ES.Node) :
    modeOK fl.unicodeSets n = true → lexOK n = true → noDup n = true → PathsOK fl n := by
  induction n using ES.Node.rec
    (motive_2 := fun ns => modeOKList fl.unicodeSets ns = true → lexOKList ns = true →
      (∀ n ∈ ns, noDup n = true) → ∀ n ∈ ns, PathsOK fl n) with
  | empty =>
    intro _ _ _
    exact pathsOK_of (t := []) (Scans.nil.mono (fun _ _ h => PRel.nil 0 0 h.symm))
      (by intro ctx; cases ctx <;> simp [pr])
  | char c =>
    intro _ _ _
    exact pathsOK_of (paths_leaf (scans_printChar c)) (by intro ctx; left; simp only [pr])
  | dot =>
    intro _ _ _
    exact pathsOK_of (paths_leaf (scans_plain [0x2E] (by decide))) (by intro ctx; left; simp only [pr])
  | bol =>
    intro _ _ _
    exact pathsOK_of (paths_leaf (scans_plain [0x5E] (by decide))) (by intro ctx; left; simp only [pr])
  | eol =>
    intro _ _ _
    exact pathsOK_of (paths_leaf (scans_plain [0x24] (by decide))) (by intro ctx; left; simp only [pr])
  | wb =>
    intro _ _ _
    exact pathsOK_of (paths_leaf (scans_esc 0x62 [] (by decide))) (by intro ctx; left; simp only [pr])
  | nwb =>
    intro _ _ _
    exact pathsOK_of (paths_leaf (scans_esc 0x42 [] (by decide))) (by intro ctx; left; simp only [pr])
  | bref k =>
    intro _ _ _
    exact pathsOK_of (paths_leaf (scans_bref k)) (by intro ctx; left; simp only [pr])
  | nref nm =>
    intro _ hl _
    simp only [lexOK] at hl
    exact pathsOK_of (paths_leaf (scans_nref hl)) (by intro ctx; left; simp only [pr])
  | esc e =>
    intro _ _ _
    exact pathsOK_of (paths_leaf (scans_printEsc e)) (by intro ctx; left; simp only [pr])
  | prop g k nm =>
    intro _ hl _
    simp only [lexOK] at hl
    exact pathsOK_of (paths_leaf (scans_printProp g k nm hl)) (by intro ctx; left; simp only [pr])
  | cls g items =>
    intro hm hl _
    simp only [modeOK, Bool.not_eq_true'] at hm
    simp only [lexOK] at hl
    exact pathsOK_of (paths_leaf (hc hm g items hl)) (by intro ctx; left; simp only [pr])
  | vcls g op ops =>
    intro hm hl _
    simp only [modeOK] at hm
    simp only [lexOK] at hl
    exact pathsOK_of (paths_leaf (hv hm g op ops hl)) (by intro ctx; left; simp only [pr])
  | cat ns ih =>
    intro hm hl hnd
    simp only [modeOK] at hm
    simp only [lexOK] at hl
    simp only [noDup] at hnd
    have hall : ∀ n ∈ ns, noDup n = true := by
      clear ih hm hl
      induction ns with
      | nil => intro n hn; cases hn
      | cons a as iha =>
        simp only [noDupSeq, Bool.and_eq_true] at hnd
        intro n hn
        rcases List.mem_cons.1 hn with rfl | hn
        · exact hnd.1.1
        · exact iha hnd.1.2 n hn
    have := ih hm hl hall
    have hts : Scans fl (prTerms ns) (PRel (gnames (.cat ns)) 0 0 0) := by
      simp only [gnames]
      exact paths_terms ns (fun n hn => (this n hn).inner .term (by decide)) hnd
    exact pathsOK_of hts (by intro ctx; cases ctx <;> simp [pr])
  | alt ns ih =>
    intro hm hl hnd
    simp only [modeOK] at hm
    simp only [lexOK] at hl
    simp only [noDup] at hnd
    have hall : ∀ n ∈ ns, noDup n = true := by
      clear ih hm hl
      induction ns with
      | nil => intro n hn; cases hn
      | cons a as iha =>
        simp only [noDupAll, Bool.and_eq_true] at hnd
        intro n hn
        rcases List.mem_cons.1 hn with rfl | hn
        · exact hnd.1
        · exact iha hnd.2 n hn
    have := ih hm hl hall
    have halts : Scans fl (prAlts ns) (PAny (gnames (.alt ns))) := by
      simp only [gnames]
      exact paths_alts ns (fun n hn => (this n hn).inner .alt (by decide))
    refine ⟨fun ctx hctx => ?_, by simpa only [pr] using halts⟩
    cases ctx with
    | disj => exact absurd rfl hctx
    | alt => simpa only [pr] using paths_wrap halts
    | term => simpa only [pr] using paths_wrap halts
    | atom => simpa only [pr] using paths_wrap halts
  | group idx nm n ih =>
    intro hm hl hnd
    simp only [modeOK] at hm
    simp only [lexOK, Bool.and_eq_true] at hl
    simp only [noDup, Bool.and_eq_true] at hnd
    have hb := (ih hm hl.2 hnd.1).disj
    cases nm with
    | none =>
      have h1 : Scans fl ([0x28] ++ pr .disj n ++ [0x29]) (PRel (gnames (.group idx none n)) 0 0 0) := by
        simp only [gnames, List.nil_append]
        exact paths_group hb
      exact pathsOK_of h1 (by intro ctx; left; simp only [pr, groupOpen])
    | some nm =>
      have hfresh : nm ∉ gnames n := by simpa using hnd.2
      have h1 : Scans fl (groupOpen (some nm) ++ pr .disj n ++ [0x29])
          (PRel (gnames (.group idx (some nm) n)) 0 0 0) := by
        simp only [gnames, List.singleton_append]
        exact paths_named_group hl.1 hfresh hb
      exact pathsOK_of h1 (by intro ctx; left; simp only [pr])
  | nc n ih =>
    intro hm hl hnd
    simp only [modeOK] at hm
    simp only [lexOK] at hl
    simp only [noDup] at hnd
    have h1 : Scans fl (wrap (pr .disj n)) (PRel (gnames (.nc n)) 0 0 0) := by
      simp only [gnames]
      exact paths_wrap (ih hm hl hnd).disj
    exact pathsOK_of h1 (by intro ctx; left; simp only [pr])
  | mod a r n ih =>
    intro hm hl hnd
    simp only [modeOK] at hm
    simp only [lexOK] at hl
    simp only [noDup] at hnd
    have h1 : Scans fl ([0x28, 0x3F] ++ printMods a r ++ [0x3A] ++ pr .disj n ++ [0x29])
        (PRel (gnames (.mod a r n)) 0 0 0) := by
      simp only [gnames]
      exact paths_paren (scans_modOpen' (fl := fl) a r) (ih hm hl hnd).disj
    exact pathsOK_of h1 (by intro ctx; left; simp only [pr])
  | look ahead neg n ih =>
    intro hm hl hnd
    simp only [modeOK] at hm
    simp only [lexOK] at hl
    simp only [noDup] at hnd
    have h1 : Scans fl (lookOpen ahead neg ++ pr .disj n ++ [0x29]) (PRel (gnames (.look ahead neg n)) 0 0 0) := by
      simp only [gnames]
      exact paths_paren (scans_lookOpen' (fl := fl) ahead neg) (ih hm hl hnd).disj
    exact pathsOK_of h1 (by intro ctx; left; simp only [pr])
  | quant mn mx g n ih =>
    intro hm hl hnd
    simp only [modeOK] at hm
    simp only [lexOK] at hl
    simp only [noDup] at hnd
    have h1 : Scans fl (pr .atom n ++ printQuant mn mx g) (PRel (gnames (.quant mn mx g n)) 0 0 0) := by
      simp only [gnames]
      exact (((ih hm hl hnd).inner .atom (by decide)).append (scans_printQuant (fl := fl) mn mx g)).mono
        (fun _ _ ⟨_, r1, r2⟩ => r1.then_seq r2)
    exact pathsOK_of h1 (by intro ctx; cases ctx <;> simp [pr])
  | nil => rename_i hm hl hnd n hn; cases hn
  | cons a as iha ihas =>
    rename_i hm hl hnd n hn
    simp only [modeOKList, Bool.and_eq_true] at hm
    simp only [lexOKList, Bool.and_eq_true] at hl
    rcases List.mem_cons.1 hn with rfl | hn
    · exact iha hm.1 hl.1 (hnd _ (by simp))
    · exact ihas hm.2 hl.2 (fun m hm' => hnd m (by simp [hm'])) n hn

end

end Regress.RoundTrip
