import Proofs.C02Full
import Proofs.C05Full
/-!
# Certificates, part 9: the interpreter theorems for ARBITRARY passing certificates

`C06.wfProgFull` (the hypothesis of C02Full / C05Full / the end-to-end theorems) fixes the two
data-flow certificates to the ones computed by `mkCert` / `mkOrd`.  The interpreter proofs only need
SOME certificate that passes the local checks (`checkCert prog c`, `checkOrd prog c'`).  `ProgCert prog`
bundles the structural certificates with the two data-flow certificates existentially quantified, and
the corollaries of C02Full / C05Full / C06 are restated for it (same proofs, the certificate being an
argument).  `Proofs/Certs.lean` shows `ProgCert prog` for every compiled program.
-/
namespace Regress.Certs

open Regress.VM Regress.VM.Sim Regress.VM.Safety Regress.C02Full

/-- All structural certificates of a program; the phase and capture-order certificates are SOME
certificates accepted by the checkers. -/
structure ProgCert (prog : Prog) : Prop where
  wf : wfProg prog = true
  cert : ∃ c, checkCert prog c = true
  confined : Bt.lookConfined prog = true
  ord : ∃ c, checkOrd prog c = true
  lookLoop : Pk.lookLoopProg prog = true
  loops : loopsStructured prog = true
  looks : looksStructured prog = true

/-- `C06.wfProgFull` is the special case of the computed certificates. -/
theorem ProgCert.of_full {prog : Prog} (h : C06.wfProgFull prog = true) (hlp : Pk.lookLoopProg prog = true)
    (hs : loopsStructured prog = true) (hl : looksStructured prog = true) : ProgCert prog := by
  simp only [C06.wfProgFull, Bool.and_eq_true] at h
  exact ⟨h.1.1.1, ⟨_, h.1.1.2⟩, h.1.2, ⟨_, h.2⟩, hlp, hs, hl⟩

variable {prog : Prog}

theorem ProgCert.bt_no_error (P : ProgCert prog) {inp : Input} {pos : Nat} (hv : ValidAt inp pos)
    (fuel : Nat) (e : String) : Bt.attempt prog inp fuel pos ≠ .error e := by
  intro he
  obtain ⟨c, hc⟩ := P.cert
  obtain ⟨c', hc'⟩ := P.ord
  cases hv with
  | ascii hk ha hp =>
    have := C06.bt_safe_ascii_full P.wf hc' P.confined hk hp (C06.freshState_ok prog _ 0)
      (C06.freshState_clean prog 0) fuel fuel
    have he' : Bt.run prog inp fuel fuel 0 pos true (Bt.freshState prog 0) #[.exhausted] 0 0 = .error e := he
    rw [he'] at this; exact this
  | utf8 cs ht hp =>
    have := C06.bt_safe_utf8_full P.wf hc hc' P.confined ht hp (C06.freshState_ok prog _ 0)
      (C06.freshState_clean prog 0) fuel fuel
    have he' : Bt.run prog inp fuel fuel 0 pos true (Bt.freshState prog 0) #[.exhausted] 0 0 = .error e := he
    rw [he'] at this; exact this

theorem ProgCert.pk_no_error (P : ProgCert prog) {inp : Input} {pos : Nat} (hv : ValidAt inp pos)
    (fuel : Nat) (e : String) : Pk.attempt prog inp fuel pos ≠ .error e := by
  intro he
  obtain ⟨c, hc⟩ := P.cert
  obtain ⟨c', hc'⟩ := P.ord
  cases hv with
  | ascii hk ha hp =>
    have := C06.pk_safe_ascii_full P.wf hc' P.confined hk hp pos fuel
    have he' : Pk.attemptAt prog inp fuel pos pos = .error e := he
    rw [he'] at this; exact this
  | utf8 cs ht hp =>
    have := C06.pk_safe_utf8_full P.wf hc hc' P.confined ht hp pos fuel
    have he' : Pk.attemptAt prog inp fuel pos pos = .error e := he
    rw [he'] at this; exact this

/-- `C02Full.C02_loop1` for an arbitrary phase certificate. -/
theorem ProgCert.attemptSim (P : ProgCert prog) (inp : Input) (pos : Nat) (hv : ValidAt inp pos) (fB fP : Nat)
    (hf : fP ≤ fB) : AttemptSim (Bt.attempt prog inp fB pos) (Pk.attempt prog inp fP pos) := by
  obtain ⟨c, hc⟩ := P.cert
  have hw := P.wf
  cases hv with
  | ascii hk ha hp =>
    exact attemptSim_of_outSim2 (L1.attempt_sim1 P.loops P.looks (inpOK_of_ascii ha) (specAscii hw hk) hw
      (loop1OK_ascii hw hk ha) fB fP pos hf ⟨C06.wf_size_pos hw, hp⟩)
  | utf8 cs ht hp =>
    exact attemptSim_of_outSim2 (L1.attempt_sim1 P.loops P.looks (inpOK_of_utf8 ht) (specUtf8Cert hw hc ht) hw
      (loop1OK_utf8 hw ht _) fB fP pos hf (C06.cert_start hw hc ht hp))

/-- **C02 (`C02Full.C02_loop1_full`) for `ProgCert`**: with budgets `fP ≤ fB` on valid input, if the
PikeVM attempt does not run out of its budget then the backtracker attempt does not either and both
report the same match end and the same captures, or both fail; neither reports an `.error`. -/
theorem ProgCert.executors_agree (P : ProgCert prog) (inp : Input) (pos : Nat) (hv : ValidAt inp pos)
    (fB fP : Nat) (hf : fP ≤ fB) :
    match Bt.attempt prog inp fB pos, Pk.attempt prog inp fP pos with
    | .error _, _ => False
    | _, .error _ => False
    | _, .outOfFuel => True
    | .matched e st s _, .matched e' st' s' _ => e = e' ∧ Bt.capsOf st = Pk.capsOf st' ∧ s ≤ s'
    | .failed _ s _, .failed s' _ => s ≤ s'
    | _, _ => False := by
  have h := P.attemptSim inp pos hv fB fP hf
  have hB := P.bt_no_error hv fB
  have hP := P.pk_no_error hv fP
  generalize Bt.attempt prog inp fB pos = ob at h hB
  generalize Pk.attempt prog inp fP pos = op at h hP
  cases ob <;> cases op <;> simp only [AttemptSim] at h ⊢ <;> first
    | exact h
    | exact absurd rfl (hB _)
    | exact absurd rfl (hP _)
    | trivial

/-- Whenever both attempts come to an end (any budgets), they agree (`C02Full.C02_loop1_results`). -/
theorem ProgCert.results_agree (P : ProgCert prog) (inp : Input) (pos : Nat) (hv : ValidAt inp pos)
    (fB fP : Nat) (hB : Bt.attempt prog inp fB pos ≠ .outOfFuel) (hP : Pk.attempt prog inp fP pos ≠ .outOfFuel) :
    btResult (Bt.attempt prog inp fB pos) = pkResult (Pk.attempt prog inp fP pos) := by
  have hmono := Bt.attempt_fuel_mono prog inp (Nat.le_max_left fB fP) pos hB
  have h := P.executors_agree inp pos hv (max fB fP) fP (Nat.le_max_right _ _)
  rw [hmono] at h
  generalize Bt.attempt prog inp fB pos = ob at h hB
  generalize Pk.attempt prog inp fP pos = op at h hP
  cases ob <;> cases op <;> simp only [btResult, pkResult] at h ⊢ <;> first
    | exact absurd h id
    | exact absurd rfl hB
    | exact absurd rfl hP
    | rfl
    | (obtain ⟨h1, h2, _⟩ := h; rw [h1, h2])

/-- The PikeVM attempt with a budget of at least `Pk.lookBound` ends within the bound. -/
theorem ProgCert.pk_terminates (P : ProgCert prog) (inp : Input) (fuel pos : Nat)
    (h : Pk.lookBound prog inp.bytes.size ≤ fuel) :
    (Pk.attempt prog inp fuel pos).within (Pk.lookBound prog inp.bytes.size) :=
  C05Full.pk_terminates_with_looks prog P.lookLoop (C05Full.loop1Scm_of_wfProg P.wf) inp fuel pos h

/-- **C05 (`C05Full.C05_bound`) for `ProgCert`**: every attempt of the backtracking executor on valid
input with a tick budget `≥ Pk.lookBound prog |haystack|` is a match or a failure reached within the
bound — never `.outOfFuel`, never an `.error`. -/
theorem ProgCert.bt_terminates (P : ProgCert prog) (inp : Input) (pos : Nat) (hv : ValidAt inp pos)
    (fuel : Nat) (hfuel : Pk.lookBound prog inp.len ≤ fuel) :
    (Bt.attempt prog inp fuel pos).within (Pk.lookBound prog inp.len) ∧
      Bt.attempt prog inp fuel pos ≠ .outOfFuel ∧ ∀ e, Bt.attempt prog inp fuel pos ≠ .error e := by
  have hP : (Pk.attempt prog inp (Pk.lookBound prog inp.len) pos).within (Pk.lookBound prog inp.len) :=
    P.pk_terminates inp (Pk.lookBound prog inp.len) pos (Nat.le_refl _)
  have h := P.executors_agree inp pos hv fuel (Pk.lookBound prog inp.len) hfuel
  have hB := P.bt_no_error hv fuel
  generalize Bt.attempt prog inp fuel pos = ob at h hB ⊢
  generalize Pk.attempt prog inp (Pk.lookBound prog inp.len) pos = op at h hP
  cases ob <;> cases op <;> simp only [Pk.Outcome.within, Bt.Outcome.within] at h hP ⊢ <;> first
    | exact absurd h id
    | exact absurd hP id
    | exact absurd rfl (hB _)
    | (refine ⟨?_, by simp, by simp⟩; omega)

end Regress.Certs
