import Proofs.Lemmas.RoundTripDefs
/-!
# Round trip, part 3: leaf atoms, quantified terms, groups and look-arounds

`consumeAtom` on the text of a literal character (`atom_char`: raw letter, `\xHH`, `\uHHHH`, raw
astral / surrogate code point), `.`, `^`, `$`, `\b`, `\B`, a class escape, a numeric back-reference;
the quantifier step of the term loop (`term_quant`); `( … )`, `(?: … )`, the four look-arounds.
-/
namespace Regress.RoundTrip
open Regress Regress.IR Regress.Parse Regress.Lower Regress.Print

/-! ## Heads of the printed text -/

theorem alpha_cases {c : Nat} (h : isAsciiAlpha c = true) :
    (0x61 ≤ c ∧ c ≤ 0x7A) ∨ (0x41 ≤ c ∧ c ≤ 0x5A) := by
  simpa [isAsciiAlpha, isAsciiLower, isAsciiUpper] using h

theorem startC_of_alpha {c : Nat} (h : isAsciiAlpha c = true) : startC c = true := by
  have := alpha_cases h
  simp only [startC, followC, isAsciiDigit, Bool.and_eq_true, Bool.not_eq_true', bne_iff_ne, ne_eq,
    Bool.and_eq_false_iff, decide_eq_false_iff_not]
  omega

theorem startC_of_big {c : Nat} (h : 0x80 ≤ c) : startC c = true := by
  simp only [startC, followC, isAsciiDigit, Bool.and_eq_true, Bool.not_eq_true', bne_iff_ne, ne_eq,
    Bool.and_eq_false_iff, decide_eq_false_iff_not]
  omega

theorem printChar_cases (c : Nat) :
    (isAsciiAlpha c = true ∧ printChar c = [c]) ∨
    (isAsciiAlpha c = false ∧ c < 0x100 ∧ printChar c = 0x5C :: 0x78 :: hex2 c) ∨
    (isAsciiAlpha c = false ∧ 0x100 ≤ c ∧ c < 0x10000 ∧ ¬ (0xD800 ≤ c ∧ c ≤ 0xDFFF) ∧
      printChar c = 0x5C :: 0x75 :: hex4 c) ∨
    (isAsciiAlpha c = false ∧ 0xD800 ≤ c ∧ printChar c = [c]) := by
  unfold printChar
  by_cases h1 : isAsciiAlpha c = true
  · left; simp [h1]
  · have h1' : isAsciiAlpha c = false := by simpa using h1
    by_cases h2 : c < 0x100
    · right; left; simp [h1', h2]
    · by_cases h3 : c < 0xD800 ∨ (0xE000 ≤ c ∧ c < 0x10000)
      · right; right; left
        refine ⟨h1', by omega, by omega, by omega, ?_⟩
        have : (decide (c < 0xD800) || (decide (0xE000 ≤ c) && decide (c < 0x10000))) = true := by
          simpa using h3
        simp [h1', h2, this]
      · right; right; right
        refine ⟨h1', by omega, ?_⟩
        have : (decide (c < 0xD800) || (decide (0xE000 ≤ c) && decide (c < 0x10000))) = false := by
          simpa using h3
        simp [h1', h2, this]

theorem printChar_head (c : Nat) : HeadS (printChar c) := by
  rcases printChar_cases c with ⟨h, e⟩ | ⟨_, _, e⟩ | ⟨_, _, _, _, e⟩ | ⟨_, h, e⟩ <;> rw [e]
  · exact ⟨c, [], rfl, startC_of_alpha h⟩
  · exact ⟨0x5C, _, rfl, by decide⟩
  · exact ⟨0x5C, _, rfl, by decide⟩
  · exact ⟨c, [], rfl, startC_of_big (by omega)⟩

theorem wrap_head (b : List Nat) : HeadS (wrap b) := ⟨0x28, _, rfl, by decide⟩

theorem groupOpen_head (nm : Option (List Nat)) (b : List Nat) : HeadS (groupOpen nm ++ b) := by
  cases nm with
  | none => exact ⟨0x28, _, rfl, by decide⟩
  | some n => exact ⟨0x28, _, rfl, by decide⟩

theorem lookOpen_head (a g : Bool) (b : List Nat) : HeadS (lookOpen a g ++ b) := by
  cases a <;> cases g <;> exact ⟨0x28, _, rfl, by decide⟩

/-- Every atom text is non-empty and starts with a character that cannot be mistaken for the end of an
alternative, a quantifier or a digit. -/
theorem atom_head (n : ES.Node) : HeadS (pr .atom n) := by
  cases n with
  | empty => exact wrap_head _
  | char c => exact printChar_head c
  | dot => exact ⟨0x2E, [], rfl, by decide⟩
  | bol => exact ⟨0x5E, [], rfl, by decide⟩
  | eol => exact ⟨0x24, [], rfl, by decide⟩
  | wb => exact ⟨0x5C, _, rfl, by decide⟩
  | nwb => exact ⟨0x5C, _, rfl, by decide⟩
  | cat ns => exact wrap_head _
  | alt ns => exact wrap_head _
  | group i nm n => simp only [pr, List.append_assoc]; exact groupOpen_head nm _
  | nc n => exact wrap_head _
  | mod a r n => exact ⟨0x28, _, rfl, by decide⟩
  | look a g n => simp only [pr, List.append_assoc]; exact lookOpen_head a g _
  | bref k => exact ⟨0x5C, _, rfl, by decide⟩
  | nref nm => exact ⟨0x5C, _, rfl, by decide⟩
  | quant mn mx g n => exact wrap_head _
  | esc e => exact ⟨0x5C, _, rfl, by decide⟩
  | prop g k nm => exact ⟨0x5C, _, rfl, by decide⟩
  | cls g items => exact ⟨0x5B, _, rfl, by decide⟩
  | vcls g op ops => exact ⟨0x5B, _, rfl, by decide⟩

theorem term_head (n : ES.Node) : HeadS (pr .term n) := by
  cases n with
  | quant mn mx g n => simp only [pr]; exact (atom_head n).append _
  | empty => simpa only [pr] using atom_head .empty
  | char c => simpa only [pr] using atom_head (.char c)
  | dot => simpa only [pr] using atom_head .dot
  | bol => simpa only [pr] using atom_head .bol
  | eol => simpa only [pr] using atom_head .eol
  | wb => simpa only [pr] using atom_head .wb
  | nwb => simpa only [pr] using atom_head .nwb
  | cat ns => simpa only [pr] using atom_head (.cat ns)
  | alt ns => simpa only [pr] using atom_head (.alt ns)
  | group i nm n => simpa only [pr] using atom_head (.group i nm n)
  | nc n => simpa only [pr] using atom_head (.nc n)
  | mod a r n => simpa only [pr] using atom_head (.mod a r n)
  | look a g n => simpa only [pr] using atom_head (.look a g n)
  | bref k => simpa only [pr] using atom_head (.bref k)
  | nref nm => simpa only [pr] using atom_head (.nref nm)
  | esc e => simpa only [pr] using atom_head (.esc e)
  | prop g k nm => simpa only [pr] using atom_head (.prop g k nm)
  | cls g items => simpa only [pr] using atom_head (.cls g items)
  | vcls g op ops => simpa only [pr] using atom_head (.vcls g op ops)

theorem headS_length {l : List Nat} (h : HeadS l) : 1 ≤ l.length := by
  obtain ⟨c, tl, rfl, _⟩ := h; simp

/-! ## Plain characters and escapes -/

section
variable {P : ES.Node} {T : Nat}

/-- A character that is none of the characters `consume_term` treats specially is an atom for itself. -/
theorem plain_atom (fuel : Nat) (st : PState) (result : List Node) {c : Nat} {rest : List Nat} {x : Node}
    (h1 : c ≠ 0x5E) (h2 : c ≠ 0x24) (h3 : c ≠ 0x5C) (h4 : c ≠ 0x2E) (h5 : c ≠ 0x28) (h6 : c ≠ 0x5B)
    (h7 : c ≠ 0x7B) (h8 : c ≠ 0x2A) (h9 : c ≠ 0x2B) (h10 : c ≠ 0x3F) (h11 : c ≠ 0x5D) (h12 : c ≠ 0x7D)
    (hin : st.input = c :: rest) (hx : charNode st.flags c = .ok x) :
    consumeAtom (fuel + 1) st result c =
      .ok ⟨result ++ [x], { st with input := rest }, result.length, true⟩ := by
  rw [consumeAtom]
  simp [h1, h2, h3, h4, h5, h6, h7, h8, h9, h10, h11, h12, consume, hin, hx]

/-- `\x…` / `\u…`: an escape that `consume_character_escape` resolves to `ch`. -/
theorem escape_atom (fuel : Nat) (st : PState) (result : List Node) {e ch : Nat} {body rest : List Nat}
    {x : Node} (he : e = 0x78 ∨ e = 0x75) (hin : st.input = 0x5C :: e :: body)
    (hce : characterEscape st.flags.unicode (!st.named.isEmpty) (e :: body) = .ok (ch, rest))
    (hx : charNode st.flags ch = .ok x) :
    consumeAtom (fuel + 1) st result 0x5C =
      .ok ⟨result ++ [x], { st with input := rest }, result.length, true⟩ := by
  have hesc : consumeAtomEscape { st with input := e :: body } = .ok (x, { st with input := rest }) := by
    unfold consumeAtomEscape
    rcases he with rfl | rfl <;> simp [hce, hx]
  rw [consumeAtom]
  rcases he with rfl | rfl <;> simp [consume, hin, hesc]

theorem atom_char (c : Nat) : AtomR P T (.char c) := by
  intro st x rest result f c0 hl hin hc hnd hinv hlim hlex hf
  have hx : charNode st.flags c = .ok x := by
    simp only [lowerNode] at hl
    cases h : charNode st.flags c with
    | error e => rw [h] at hl; cases hl
    | ok n => rw [h] at hl; simpa using hl
  have hadv : adv st (.char c) rest = { st with input := rest } := adv_leaf st rest rfl rfl rfl
  have hq : quantifiable st.flags (.char c) = true := rfl
  rw [hadv, hq]
  simp only [pr] at hin hf
  obtain ⟨f', rfl⟩ : ∃ f', f = f' + 1 := ⟨f - 1, by have := headS_length (printChar_head c); omega⟩
  rcases printChar_cases c with ⟨h, e⟩ | ⟨_, hlt, e⟩ | ⟨_, h1, h2, h3, e⟩ | ⟨_, h, e⟩ <;> rw [e] at hin
  · have hc0 : c0 = c := by rw [hin] at hc; simpa using hc.symm
    subst hc0
    have := alpha_cases h
    exact plain_atom f' st result (by omega) (by omega) (by omega) (by omega) (by omega) (by omega)
      (by omega) (by omega) (by omega) (by omega) (by omega) (by omega) hin hx
  · have hc0 : c0 = 0x5C := by rw [hin] at hc; simpa using hc.symm
    subst hc0
    exact escape_atom f' st result (.inl rfl) hin (characterEscape_x _ _ hlt rest) hx
  · have hc0 : c0 = 0x5C := by rw [hin] at hc; simpa using hc.symm
    subst hc0
    exact escape_atom f' st result (.inr rfl) hin (characterEscape_u _ _ h2 (by omega) rest) hx
  · have hc0 : c0 = c := by rw [hin] at hc; simpa using hc.symm
    subst hc0
    exact plain_atom f' st result (by omega) (by omega) (by omega) (by omega) (by omega) (by omega)
      (by omega) (by omega) (by omega) (by omega) (by omega) (by omega) hin hx

/-! ## `.`, `^`, `$`, `\b`, `\B`, class escapes -/

theorem head_eq {st : PState} {c c0 : Nat} {tl : List Nat} (hin : st.input = c :: tl)
    (hc : st.input.head? = some c0) : c0 = c := by
  rw [hin] at hc; simpa using hc.symm

theorem atom_dot : AtomR P T .dot := by
  intro st x rest result f c0 hl hin hc hnd hinv hlim hlex hf
  simp only [lowerNode, Except.ok.injEq] at hl
  subst hl
  simp only [pr] at hin hf
  have hin' : st.input = 0x2E :: rest := hin
  obtain rfl := head_eq hin' hc
  obtain ⟨f', rfl⟩ : ∃ f', f = f' + 1 := ⟨f - 1, by simp at hf; omega⟩
  rw [adv_leaf st rest rfl rfl rfl, consumeAtom]
  simp [consume, hin', quantifiable]

theorem atom_bol : AtomR P T .bol := by
  intro st x rest result f c0 hl hin hc hnd hinv hlim hlex hf
  simp only [lowerNode, Except.ok.injEq] at hl
  subst hl
  simp only [pr] at hin hf
  have hin' : st.input = 0x5E :: rest := hin
  obtain rfl := head_eq hin' hc
  obtain ⟨f', rfl⟩ : ∃ f', f = f' + 1 := ⟨f - 1, by simp at hf; omega⟩
  rw [adv_leaf st rest rfl rfl rfl, consumeAtom]
  simp [consume, hin', quantifiable]

theorem atom_eol : AtomR P T .eol := by
  intro st x rest result f c0 hl hin hc hnd hinv hlim hlex hf
  simp only [lowerNode, Except.ok.injEq] at hl
  subst hl
  simp only [pr] at hin hf
  have hin' : st.input = 0x24 :: rest := hin
  obtain rfl := head_eq hin' hc
  obtain ⟨f', rfl⟩ : ∃ f', f = f' + 1 := ⟨f - 1, by simp at hf; omega⟩
  rw [adv_leaf st rest rfl rfl rfl, consumeAtom]
  simp [consume, hin', quantifiable]

theorem atom_wb : AtomR P T .wb := by
  intro st x rest result f c0 hl hin hc hnd hinv hlim hlex hf
  simp only [lowerNode, Except.ok.injEq] at hl
  subst hl
  simp only [pr] at hin hf
  have hin' : st.input = 0x5C :: 0x62 :: rest := hin
  obtain rfl := head_eq hin' hc
  obtain ⟨f', rfl⟩ : ∃ f', f = f' + 1 := ⟨f - 1, by simp at hf; omega⟩
  rw [adv_leaf st rest rfl rfl rfl, consumeAtom]
  simp [consume, hin', quantifiable]

theorem atom_nwb : AtomR P T .nwb := by
  intro st x rest result f c0 hl hin hc hnd hinv hlim hlex hf
  simp only [lowerNode, Except.ok.injEq] at hl
  subst hl
  simp only [pr] at hin hf
  have hin' : st.input = 0x5C :: 0x42 :: rest := hin
  obtain rfl := head_eq hin' hc
  obtain ⟨f', rfl⟩ : ∃ f', f = f' + 1 := ⟨f - 1, by simp at hf; omega⟩
  rw [adv_leaf st rest rfl rfl rfl, consumeAtom]
  simp [consume, hin', quantifiable]

theorem atom_esc (e : ES.ClassEsc) : AtomR P T (.esc e) := by
  intro st x rest result f c0 hl hin hc hnd hinv hlim hlex hf
  simp only [lowerNode, Except.ok.injEq] at hl
  subst hl
  simp only [pr, printEsc] at hin hf
  have hin' : st.input = 0x5C :: escLetter e :: rest := hin
  obtain rfl := head_eq hin' hc
  obtain ⟨f', rfl⟩ : ∃ f', f = f' + 1 := ⟨f - 1, by simp at hf; omega⟩
  rw [adv_leaf st rest rfl rfl rfl, consumeAtom]
  cases e <;> simp [consume, hin', quantifiable, escLetter, consumeAtomEscape, classOfEsc]

/-! ## Numeric back-references -/

theorem consumeAtomEscape_bref (st : PState) {d k : Nat} {tl rest : List Nat} (hd1 : 0x31 ≤ d)
    (hd2 : d ≤ 0x39) (hin : st.input = d :: tl) (hdec : decimalLiteral (d :: tl) = (some k, rest))
    (hk : k ≤ st.groupCountMax) :
    consumeAtomEscape st = .ok (.backRef k st.flags.icase, { st with input := rest }) := by
  have e1 : (d == 0x64) = false := by simp; omega
  have e2 : (d == 0x44) = false := by simp; omega
  have e3 : (d == 0x73) = false := by simp; omega
  have e4 : (d == 0x53) = false := by simp; omega
  have e5 : (d == 0x77) = false := by simp; omega
  have e6 : (d == 0x57) = false := by simp; omega
  have e7 : (d == 0x70) = false := by simp; omega
  have e8 : (d == 0x50) = false := by simp; omega
  have e9 : (decide (0x31 ≤ d) && decide (d ≤ 0x39)) = true := by simp; omega
  unfold consumeAtomEscape
  simp only [hin, e1, e2, e3, e4, e5, e6, e7, e8, e9, Bool.or_self, Bool.false_and, Bool.false_eq_true,
    if_false, Bool.true_and, hdec]
  cases st.flags.unicode <;> simp [hk]

theorem atom_bref (k : Nat) : AtomR P T (.bref k) := by
  intro st x rest result f c0 hl hin hc hnd hinv hlim hlex hf
  simp only [lowerNode] at hl
  split at hl
  · next hk =>
    simp only [Except.ok.injEq] at hl
    subst hl
    simp only [pr, List.cons_append, List.nil_append] at hin hf
    obtain rfl := head_eq hin hc
    obtain ⟨f', rfl⟩ : ∃ f', f = f' + 1 := ⟨f - 1, by simp at hf; omega⟩
    obtain ⟨d, tl, hd, hd1, hd2⟩ := printDec_head hk.1
    have hkm : k ≤ USIZE_MAX := by
      have h2 := hk.2
      have h3 := hinv.bound
      unfold USIZE_MAX
      unfold Gen.MAX_CAPTURE_GROUPS at h3
      omega
    have hdec := decimalLiteral_printDec hkm hnd
    rw [hd] at hin hdec
    simp only [List.cons_append] at hin hdec
    have hesc := consumeAtomEscape_bref { st with input := d :: (tl ++ rest) } hd1 hd2 rfl hdec
      (by simp only [hinv.gcm]; exact hk.2)
    have e1 : (d == 0x62) = false := by simp; omega
    have e2 : (d == 0x42) = false := by simp; omega
    have e3 : (d == 0x63) = false := by simp; omega
    rw [adv_leaf st rest rfl rfl rfl, consumeAtom]
    simp [consume, hin, e1, e2, e3, hesc, quantifiable]
  · cases hl

end

end Regress.RoundTrip
