import Proofs.Lemmas.ByteSearchBits
/-!
# `ByteBitmap` / `AsciiBitmap` as sets: `new`, `bitor`, `bitnot`, `count_bits`, `as_array`, packing
-/
namespace Regress.ByteSearch

/-! ## `new` -/

theorem ByteBitmap.newLoop_ok (bytes : List Nat) : ∀ (bb : ByteBitmap), bb.WF → (∀ b ∈ bytes, b < 256) →
    ∃ r, ByteBitmap.newLoop bytes bb = .ok r ∧ r.WF ∧ ∀ u, r.mem u = (bb.mem u || bytes.contains u) := by
  induction bytes with
  | nil => intro bb hwf _; exact ⟨bb, rfl, hwf, by simp⟩
  | cons b rest ih =>
    intro bb hwf hb
    have hb0 : b < 256 := hb b (by simp)
    have hs := ByteBitmap.set_ok hwf hb0
    obtain ⟨r, hr, hrwf, hrm⟩ := ih _ (ByteBitmap.set_wf hwf hb0 hs) (fun x hx => hb x (by simp [hx]))
    refine ⟨r, ?_, hrwf, ?_⟩
    · rw [ByteBitmap.newLoop, hs]; exact hr
    · intro u
      rw [hrm u, ByteBitmap.mem_set hwf hb0 hs u]
      have hbeq : (u == b) = decide (u = b) := by by_cases hub : u = b <;> simp [hub]
      simp [Bool.or_assoc, hbeq]

theorem ByteBitmap.new_ok {bytes : List Nat} (hb : ∀ b ∈ bytes, b < 256) :
    ∃ r, ByteBitmap.new bytes = .ok r ∧ r.WF ∧ ∀ u, r.mem u = bytes.contains u := by
  obtain ⟨r, hr, hwf, hm⟩ := ByteBitmap.newLoop_ok bytes _ ByteBitmap.default_wf hb
  exact ⟨r, hr, hwf, fun u => by rw [hm u, ByteBitmap.mem_default]; simp⟩

/-! ## `bitnot` -/

theorem ByteBitmap.bitnot_wf {bm : ByteBitmap} (hwf : bm.WF) : bm.bitnot.WF := by
  refine ⟨by simp [ByteBitmap.bitnot, hwf.1], ?_⟩
  intro w hw
  simp only [ByteBitmap.bitnot, List.mem_map] at hw
  obtain ⟨a, ha, rfl⟩ := hw
  exact Nat.xor_lt_two_pow (n := 16) (hwf.2 a ha) (by decide)

theorem ByteBitmap.mem_bitnot {bm : ByteBitmap} (hwf : bm.WF) {v : Nat} (hv : v < 256) :
    bm.bitnot.mem v = !bm.mem v := by
  have hlen : v / 16 < bm.words.length := by rw [hwf.1]; omega
  unfold ByteBitmap.mem ByteBitmap.bitnot
  simp only [List.getElem?_map, List.getElem?_eq_getElem hlen, Option.map_some, Option.getD_some]
  rw [Nat.testBit_xor, show (0xFFFF : Nat) = 2 ^ 16 - 1 from rfl, Nat.testBit_two_pow_sub_one]
  have : v % 16 < 16 := by omega
  simp [this]

/-! ## Lists of sixteen -/

theorem list16 {l : List Nat} (h : l.length = 16) :
    ∃ a0 a1 a2 a3 a4 a5 a6 a7 a8 a9 a10 a11 a12 a13 a14 a15,
      l = [a0, a1, a2, a3, a4, a5, a6, a7, a8, a9, a10, a11, a12, a13, a14, a15] := by
  match l, h with
  | [a0, a1, a2, a3, a4, a5, a6, a7, a8, a9, a10, a11, a12, a13, a14, a15], _ =>
    exact ⟨a0, a1, a2, a3, a4, a5, a6, a7, a8, a9, a10, a11, a12, a13, a14, a15, rfl⟩

/-! ## `bitor` -/

theorem ByteBitmap.bitor_ok {a b : ByteBitmap} (ha : a.WF) (hb : b.WF) :
    a.bitor b = .ok ⟨List.zipWith (· ||| ·) a.words b.words⟩ := by
  obtain ⟨a0, a1, a2, a3, a4, a5, a6, a7, a8, a9, a10, a11, a12, a13, a14, a15, hae⟩ := list16 ha.1
  obtain ⟨b0, b1, b2, b3, b4, b5, b6, b7, b8, b9, b10, b11, b12, b13, b14, b15, hbe⟩ := list16 hb.1
  cases a with | mk aw =>
  cases b with | mk bw =>
  simp only at hae hbe
  subst hae hbe
  have hr : List.range 16 = [0, 1, 2, 3, 4, 5, 6, 7, 8, 9, 10, 11, 12, 13, 14, 15] := by decide
  simp [ByteBitmap.bitor, hr, ByteBitmap.bitorLoop]

theorem ByteBitmap.bitor_wf {a b r : ByteBitmap} (ha : a.WF) (hb : b.WF) (h : a.bitor b = .ok r) :
    r.WF := by
  rw [ByteBitmap.bitor_ok ha hb] at h
  cases h
  refine ⟨by simp [ha.1, hb.1], ?_⟩
  intro w hw
  simp only [List.mem_iff_getElem, List.getElem_zipWith] at hw
  obtain ⟨i, hi, rfl⟩ := hw
  simp only [List.length_zipWith] at hi
  exact Nat.or_lt_two_pow (n := 16) (ha.2 _ (List.getElem_mem _)) (hb.2 _ (List.getElem_mem _))

theorem ByteBitmap.mem_bitor {a b r : ByteBitmap} (ha : a.WF) (hb : b.WF) (h : a.bitor b = .ok r)
    (v : Nat) : r.mem v = (a.mem v || b.mem v) := by
  rw [ByteBitmap.bitor_ok ha hb] at h
  cases h
  unfold ByteBitmap.mem
  simp only [List.getElem?_zipWith]
  by_cases hv : v / 16 < 16
  · have h1 : v / 16 < a.words.length := by rw [ha.1]; exact hv
    have h2 : v / 16 < b.words.length := by rw [hb.1]; exact hv
    simp [List.getElem?_eq_getElem h1, List.getElem?_eq_getElem h2, Nat.testBit_or]
  · have h1 : a.words[v / 16]? = none := List.getElem?_eq_none (by rw [ha.1]; omega)
    have h2 : b.words[v / 16]? = none := List.getElem?_eq_none (by rw [hb.1]; omega)
    simp [h1, h2]


/-! ## Packing `n` words of `k` bits into one number -/

/-- `w0 + 2^k * (w1 + 2^k * (…))`: word `j` occupies bits `k*j … k*j + k - 1`. -/
def packWords (k : Nat) : List Nat → Nat
  | [] => 0
  | w :: ws => w + 2 ^ k * packWords k ws

theorem testBit_packWords {k : Nat} (hk : 0 < k) (ws : List Nat) : (∀ w ∈ ws, w < 2 ^ k) → ∀ v,
    (packWords k ws).testBit v = (ws[v / k]?.getD 0).testBit (v % k) := by
  induction ws with
  | nil => intro _ v; simp [packWords]
  | cons w ws ih =>
    intro hws v
    have hw : w < 2 ^ k := hws w (by simp)
    rw [packWords, Nat.add_comm, Nat.testBit_two_pow_mul_add _ hw]
    by_cases hv : v < k
    · rw [if_pos hv, Nat.div_eq_of_lt hv, Nat.mod_eq_of_lt hv]; simp
    · rw [if_neg hv, ih (fun x hx => hws x (by simp [hx]))]
      have hge : k ≤ v := Nat.le_of_not_lt hv
      rw [Nat.div_eq_sub_div hk hge, Nat.mod_eq_sub_mod hge]
      simp

theorem packWords_lt {k : Nat} (ws : List Nat) : (∀ w ∈ ws, w < 2 ^ k) →
    packWords k ws < 2 ^ (k * ws.length) := by
  induction ws with
  | nil => intro _; simp [packWords]
  | cons w ws ih =>
    intro hws
    have hw : w < 2 ^ k := hws w (by simp)
    have hr := ih (fun x hx => hws x (by simp [hx]))
    rw [packWords, List.length_cons, Nat.mul_succ, Nat.pow_add, Nat.mul_comm (2 ^ (k * ws.length))]
    calc w + 2 ^ k * packWords k ws < 2 ^ k + 2 ^ k * packWords k ws := by omega
      _ = 2 ^ k * (packWords k ws + 1) := by rw [Nat.mul_add, Nat.mul_one, Nat.add_comm]
      _ ≤ 2 ^ k * 2 ^ (k * ws.length) := Nat.mul_le_mul_left _ hr

/-- The 256-bit number of a `ByteBitmap` (the representation of `IR.ByteBitmap`). -/
def ByteBitmap.toNat (bm : ByteBitmap) : Nat := packWords 16 bm.words

theorem ByteBitmap.testBit_toNat {bm : ByteBitmap} (hwf : bm.WF) (v : Nat) :
    bm.toNat.testBit v = bm.mem v :=
  testBit_packWords (by decide) bm.words hwf.2 v

theorem ByteBitmap.toNat_lt {bm : ByteBitmap} (hwf : bm.WF) : bm.toNat < 2 ^ 256 := by
  have := packWords_lt (k := 16) bm.words hwf.2
  rw [hwf.1] at this
  exact this

/-- `mem` is false outside `0..=255`. -/
theorem ByteBitmap.mem_lt {bm : ByteBitmap} (hwf : bm.WF) {v : Nat} (h : bm.mem v = true) : v < 256 := by
  apply Classical.byContradiction
  intro hv
  have : bm.words[v / 16]? = none := List.getElem?_eq_none (by rw [hwf.1]; omega)
  simp [ByteBitmap.mem, this] at h

/-! ## The members, `count_bits` -/

/-- The bytes contained, ascending. -/
def ByteBitmap.members (bm : ByteBitmap) : List Nat := (List.range 256).filter bm.mem

theorem ByteBitmap.mem_members {bm : ByteBitmap} (hwf : bm.WF) (v : Nat) :
    v ∈ bm.members ↔ bm.mem v = true := by
  simp only [ByteBitmap.members, List.mem_filter, List.mem_range]
  exact ⟨fun h => h.2, fun h => ⟨ByteBitmap.mem_lt hwf h, h⟩⟩

theorem ByteBitmap.members_sorted (bm : ByteBitmap) : bm.members.Pairwise (· < ·) :=
  List.Pairwise.filter _ List.pairwise_lt_range

theorem ByteBitmap.members_lt (bm : ByteBitmap) : ∀ v ∈ bm.members, v < 256 := by
  intro v hv
  simp only [ByteBitmap.members, List.mem_filter, List.mem_range] at hv
  exact hv.1

/-- Counting the members word by word. -/
theorem filter_words_length (ws : List Nat) :
    ((List.range (16 * ws.length)).filter (fun v => (ws[v / 16]?.getD 0).testBit (v % 16))).length
      = (ws.map countOnes16).sum := by
  induction ws with
  | nil => simp
  | cons w ws ih =>
    rw [List.length_cons, Nat.mul_succ, Nat.add_comm, List.range_add, List.filter_append,
      List.length_append, List.map_cons, List.sum_cons, List.filter_map, List.length_map]
    congr 1
    · rw [countOnes16, List.countP_eq_length_filter]
      have hf : List.filter (fun v => ((w :: ws)[v / 16]?.getD 0).testBit (v % 16)) (List.range 16)
          = List.filter (fun i => w.testBit i) (List.range 16) := by
        apply List.filter_congr
        intro x hx
        have hx' : x < 16 := List.mem_range.mp hx
        rw [Nat.div_eq_of_lt hx', Nat.mod_eq_of_lt hx']
        simp
      rw [hf]
    · rw [← ih]
      congr 1
      apply List.filter_congr
      intro x _
      have h1 : (16 + x) / 16 = x / 16 + 1 := by omega
      have h2 : (16 + x) % 16 = x % 16 := by omega
      simp [h1, h2]

theorem ByteBitmap.countBits_eq {bm : ByteBitmap} (hwf : bm.WF) : bm.countBits = bm.members.length := by
  have := filter_words_length bm.words
  rw [hwf.1] at this
  exact this.symm

/-! ## `toVec`, `as_array` -/

theorem ByteBitmap.toVecLoop_ok {bm : ByteBitmap} (hwf : bm.WF) (l : List Nat) : (∀ b ∈ l, b < 256) →
    bm.toVecLoop l = .ok (l.filter bm.mem) := by
  induction l with
  | nil => intro _; rfl
  | cons b rest ih =>
    intro hb
    rw [ByteBitmap.toVecLoop, ByteBitmap.contains_ok hwf (hb b (by simp)),
      ih (fun x hx => hb x (by simp [hx]))]
    cases h : bm.mem b <;> simp [h]

theorem ByteBitmap.toVec_ok {bm : ByteBitmap} (hwf : bm.WF) : bm.toVec = .ok bm.members :=
  ByteBitmap.toVecLoop_ok hwf _ (fun _ hb => List.mem_range.mp hb)

/-- The loop of `as_array` with `done` already written and `m` zeroes to go. -/
theorem ByteBitmap.asArrayLoop_spec {bm : ByteBitmap} (hwf : bm.WF) (l : List Nat) :
    (∀ b ∈ l, b < 256) → ∀ (done : List Nat) (m : Nat),
    bm.asArrayLoop l (done ++ List.replicate m 0) done.length =
      if (l.filter bm.mem).length ≤ m then
        .ok (done ++ l.filter bm.mem ++ List.replicate (m - (l.filter bm.mem).length) 0)
      else .error .asArrayIndex := by
  induction l with
  | nil => intro _ done m; simp [ByteBitmap.asArrayLoop]
  | cons b rest ih =>
    intro hb done m
    have ihr := ih (fun x hx => hb x (by simp [hx]))
    rw [ByteBitmap.asArrayLoop, ByteBitmap.contains_ok hwf (hb b (by simp))]
    cases h : bm.mem b
    · simp only [List.filter_cons, h]
      exact ihr done m
    · simp only [List.filter_cons, h, if_true, List.length_cons, List.length_append,
        List.length_replicate]
      cases m with
      | zero => simp
      | succ m =>
        rw [if_pos (by omega)]
        have hset : (done ++ List.replicate (m + 1) 0).set done.length b
            = (done ++ [b]) ++ List.replicate m 0 := by
          rw [List.set_append_right _ _ (Nat.le_refl _)]
          simp [List.replicate_succ]
        have hlen : done.length + 1 = (done ++ [b]).length := by simp
        rw [hset, hlen, ihr (done ++ [b]) m]
        by_cases hc : (List.filter bm.mem rest).length ≤ m
        · rw [if_pos hc, if_pos (by omega)]
          simp
        · rw [if_neg hc, if_neg (by omega)]

theorem ByteBitmap.asArray_ok {bm : ByteBitmap} (hwf : bm.WF) (N : Nat) :
    bm.asArray N =
      if bm.members.length ≤ N then .ok (bm.members ++ List.replicate (N - bm.members.length) 0)
      else .error .asArrayIndex := by
  have := ByteBitmap.asArrayLoop_spec hwf (List.range 256) (fun _ hb => List.mem_range.mp hb) [] N
  simp only [List.nil_append, List.length_nil] at this
  exact this

end Regress.ByteSearch
