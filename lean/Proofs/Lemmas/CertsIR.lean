import Proofs.Lemmas.ClosureNames
import Proofs.Lemmas.KeystoneTop
import RegressModel.VM.WfProg
/-!
# Certificates, part 0: the IR-level side conditions of the program certificates

The structural certificates of C02Full / C05Full / C06 on the *emitted program* (`wfProg`, the phase
certificate, `lookConfined`, the capture-order certificate, `loopsStructured`, `looksStructured`,
`lookLoopProg`) are proved in `Proofs/Lemmas/Certs*.lean` for every program that `emit` produces from
an IR tree satisfying — besides `WF`, `rootOK`, `numGroups ≤ 65535`, `numLoops ≤ 65535`, which
`EndToEnd.Compiled` provides — the decidable IR-level conditions below (`irOK`).  None of them is a
consequence of `WF`/`kok`:

* `gscoped lo hi n` — every capture group id of `n` lies in `[lo, hi)`; the group range `[sg, eg)` of a
  look-around satisfies `lo ≤ sg ≤ eg ≤ hi` and its contents are `gscoped sg eg`; a non-empty group
  range `[g0, g1)` of a loop lies in `[lo, hi)`, and it contains every group id of the loop body (so
  the `ResetCaptureGroup`s of a loop reset every group of its body);
* `refsOK N n` — every back-reference names a group `1 ≤ g ≤ N`;
* `leafOK n` — `Char`/`CharSet` payloads are `u32`s, `StringSet` code points are `≤ 0x10FFFF`, and the
  body of a `Loop1CharBody` is one of the matchers `promote_1char_loops` accepts or what the later
  passes make of it (`l1ok`: in particular never an always-failing set, and a `ByteSequence` body is the
  encoding of exactly one scalar value);
* `endsOK n` — the root ends with `Goal`, or is the always-failing node (`CharSet []`/`ByteSet []`)
  that `propagate_early_fails` (+ `form_literal_bytes`) leaves of a pattern that can never match;
* `Closure.groupIdsDense n` — the group ids are a permutation of `0..numGroups-1`.
-/
namespace Regress.Certs

open Regress.IR Regress.VM Regress.Keystone Regress.Closure

/-- `2^32`. -/
def U32 : Nat := 4294967296

/-- The body of a `Loop1CharBody`. -/
def l1ok : Node → Bool
  | .char _ => true
  | .bracket bc => !bc.isEmpty
  | .matchAny => true
  | .matchAnyExceptLT => true
  | .charSet cs => !cs.isEmpty
  | .byteSet bs => !bs.isEmpty
  | .byteSeq bs => isOneCharSeq bs
  | _ => false

mutual
/-- Group scoping (see the header). -/
def gscoped : Nat → Nat → Node → Bool
  | lo, hi, .cat ns => gscopedList lo hi ns
  | lo, hi, .alt l r => gscoped lo hi l && gscoped lo hi r
  | lo, hi, .group id _ c => decide (lo ≤ id) && decide (id < hi) && gscoped lo hi c
  | lo, hi, .look _ _ sg eg c => decide (lo ≤ sg) && decide (sg ≤ eg) && decide (eg ≤ hi) && gscoped sg eg c
  | lo, hi, .loop b _ g0 g1 =>
    (decide (g1 ≤ g0) || (decide (lo ≤ g0) && decide (g1 ≤ hi))) && gscoped lo hi b &&
      (groupIds b).all (fun g => decide (g0 ≤ g) && decide (g < g1))
  | lo, hi, .loop1 b _ => gscoped lo hi b
  | _, _, _ => true
def gscopedList : Nat → Nat → List Node → Bool
  | _, _, [] => true
  | lo, hi, n :: ns => gscoped lo hi n && gscopedList lo hi ns
end

mutual
/-- Every back-reference names a group `1 ≤ g ≤ N`. -/
def refsOK (N : Nat) : Node → Bool
  | .cat ns => refsOKList N ns
  | .alt l r => refsOK N l && refsOK N r
  | .group _ _ c => refsOK N c
  | .look _ _ _ _ c => refsOK N c
  | .loop b _ _ _ => refsOK N b
  | .loop1 b _ => refsOK N b
  | .backRef g _ => decide (1 ≤ g) && decide (g ≤ N)
  | _ => true
def refsOKList (N : Nat) : List Node → Bool
  | [] => true
  | n :: ns => refsOK N n && refsOKList N ns
end

mutual
/-- Leaf payloads (see the header). -/
def leafOK : Node → Bool
  | .cat ns => leafOKList ns
  | .alt l r => leafOK l && leafOK r
  | .group _ _ c => leafOK c
  | .look _ _ _ _ c => leafOK c
  | .loop b _ _ _ => leafOK b
  | .loop1 b _ => l1ok b && leafOK b
  | .char c => decide (c < U32)
  | .charSet cs => cs.all (fun c => decide (c < U32))
  | .stringSet alts _ => alts.all (fun a => a.all (fun c => decide (c ≤ 0x10FFFF)))
  | _ => true
def leafOKList : List Node → Bool
  | [] => true
  | n :: ns => leafOK n && leafOKList ns
end

mutual
/-- The last instruction emitted for the node is `Goal` or `JustFail`. -/
def endsOK : Node → Bool
  | .goal => true
  | .charSet cs => cs.isEmpty
  | .byteSet bs => bs.isEmpty
  | .cat ns => endsOKList ns
  | _ => false
def endsOKList : List Node → Bool
  | [] => false
  | n :: ns => if ns.isEmpty then endsOK n else endsOKList ns
end

/-- **The IR-level side conditions of the program certificates** (decidable). -/
def irOK (n : Node) : Bool :=
  gscoped 0 (numGroups n) n && refsOK (numGroups n) n && leafOK n && endsOK n && groupIdsDense n

theorem irOK_parts {n : Node} (h : irOK n = true) :
    gscoped 0 (numGroups n) n = true ∧ refsOK (numGroups n) n = true ∧ leafOK n = true ∧
      endsOK n = true ∧ groupIdsDense n = true := by
  simp only [irOK, Bool.and_eq_true] at h
  exact ⟨h.1.1.1.1, h.1.1.1.2, h.1.1.2, h.1.2, h.2⟩

/-! ## Lists -/

theorem scopedList_iff (lo hi : Nat) (ns : List Node) :
    gscopedList lo hi ns = true ↔ ∀ n ∈ ns, gscoped lo hi n = true := by
  induction ns with
  | nil => simp [gscopedList]
  | cons a t ih => simp [gscopedList, ih]

theorem refsOKList_iff (N : Nat) (ns : List Node) :
    refsOKList N ns = true ↔ ∀ n ∈ ns, refsOK N n = true := by
  induction ns with
  | nil => simp [refsOKList]
  | cons a t ih => simp [refsOKList, ih]

theorem leafOKList_iff (ns : List Node) : leafOKList ns = true ↔ ∀ n ∈ ns, leafOK n = true := by
  induction ns with
  | nil => simp [leafOKList]
  | cons a t ih => simp [leafOKList, ih]

/-! ## `groupIds` and `numGroups` -/

mutual
theorem groupList_length : ∀ (n : Node), (groupList n).length = numGroups n
  | .cat ns => by simp only [groupList, numGroups]; exact groupLists_length ns
  | .alt l r => by simp [groupList, numGroups, groupList_length l, groupList_length r]
  | .group _ _ c => by simp [groupList, numGroups, groupList_length c]
  | .look _ _ _ _ c => by simp [groupList, numGroups, groupList_length c]
  | .loop b _ _ _ => by simp [groupList, numGroups, groupList_length b]
  | .loop1 b _ => by simp [groupList, numGroups, groupList_length b]
  | .empty => rfl
  | .goal => rfl
  | .char _ => rfl
  | .byteSeq _ => rfl
  | .byteSet _ => rfl
  | .charSet _ => rfl
  | .matchAny => rfl
  | .matchAnyExceptLT => rfl
  | .anchor _ _ => rfl
  | .wordBoundary _ _ => rfl
  | .backRef _ _ => rfl
  | .bracket _ => rfl
  | .stringSet _ _ => rfl
theorem groupLists_length : ∀ (ns : List Node), (groupLists ns).length = numGroupsList ns
  | [] => rfl
  | n :: ns => by simp [groupLists, numGroupsList, groupList_length n, groupLists_length ns]
end

theorem groupIds_length (n : Node) : (groupIds n).length = numGroups n := by
  simp [groupIds, groupList_length]

end Regress.Certs
