import Proofs.Lemmas.ByteSearchSets
/-!
# The searches of `bytesearch.rs`: first occurrence
-/
namespace Regress.ByteSearch

/-! ## `firstIdx` -/

theorem firstIdx_append (p : Nat → Bool) (a b : List Nat) :
    firstIdx p (a ++ b) =
      match firstIdx p a with
      | some i => some i
      | none => (firstIdx p b).map (· + a.length) := by
  induction a with
  | nil => simp [firstIdx]
  | cons x a ih =>
    simp only [List.cons_append, firstIdx]
    by_cases hx : p x
    · simp [hx]
    · simp only [hx, Bool.false_eq_true, if_false, ih]
      cases firstIdx p a with
      | some i => simp
      | none =>
        cases firstIdx p b with
        | none => simp
        | some j => simp [Nat.add_assoc]

theorem firstIdx_congr {p q : Nat → Bool} {l : List Nat} (h : ∀ b ∈ l, p b = q b) :
    firstIdx p l = firstIdx q l := by
  induction l with
  | nil => rfl
  | cons x l ih =>
    simp only [firstIdx]
    rw [h x (by simp), ih (fun b hb => h b (by simp [hb]))]

/-- `firstIdx` returns the least index whose byte satisfies `p`. -/
theorem firstIdx_eq_some_iff (p : Nat → Bool) (l : List Nat) (i : Nat) :
    firstIdx p l = some i ↔
      ∃ h : i < l.length, p l[i] = true ∧ ∀ j (hj : j < i), p (l[j]'(by omega)) = false := by
  induction l generalizing i with
  | nil => simp [firstIdx]
  | cons x l ih =>
    simp only [firstIdx]
    by_cases hx : p x
    · simp only [hx, if_true, Option.some.injEq]
      constructor
      · intro h; subst h
        exact ⟨by simp, by simpa using hx, by intro j hj; omega⟩
      · rintro ⟨_, _, hmin⟩
        cases i with
        | zero => rfl
        | succ i => have := hmin 0 (by omega); simp [hx] at this
    · simp only [hx, Bool.false_eq_true, if_false, Option.map_eq_some_iff]
      constructor
      · rintro ⟨k, hk, rfl⟩
        obtain ⟨hlt, hpk, hmin⟩ := (ih k).mp hk
        refine ⟨by simp; omega, by simpa using hpk, ?_⟩
        intro j hj
        cases j with
        | zero => simpa using hx
        | succ j => simpa using hmin j (by omega)
      · rintro ⟨hlt, hpi, hmin⟩
        cases i with
        | zero => simp [hx] at hpi
        | succ i =>
          refine ⟨i, (ih i).mpr ⟨by simpa using hlt, by simpa using hpi, ?_⟩, rfl⟩
          intro j hj
          simpa using hmin (j + 1) (by omega)

theorem firstIdx_eq_none_iff (p : Nat → Bool) (l : List Nat) :
    firstIdx p l = none ↔ ∀ b ∈ l, p b = false := by
  induction l with
  | nil => simp [firstIdx]
  | cons x l ih =>
    simp only [firstIdx]
    by_cases hx : p x
    · simp [hx]
    · simp [hx, ih]

/-! ## The byte loops -/

/-- What each of the three loops of `unsafe_find_in_slice` computes. -/
def scanOf (p : Nat → Bool) (l : List Nat) (offset : Nat) : Scan :=
  match firstIdx p l with
  | some i => .found (offset + i)
  | none => .cont (offset + l.length)

theorem byteLoop_ok {bm : ByteBitmap} (hwf : bm.WF) (l : List Nat) : (∀ b ∈ l, b < 256) → ∀ offset,
    byteLoop bm l offset = .ok (scanOf bm.mem l offset) := by
  induction l with
  | nil => intro _ offset; simp [byteLoop, scanOf, firstIdx]
  | cons x l ih =>
    intro hb offset
    rw [byteLoop, ByteBitmap.contains_ok hwf (hb x (by simp))]
    cases hx : bm.mem x
    · simp only [ih (fun b h => hb b (by simp [h])), scanOf, firstIdx, hx, Bool.false_eq_true, if_false]
      cases firstIdx bm.mem l with
      | none => simp [Nat.add_assoc, Nat.add_comm 1]
      | some i => simp [Nat.add_assoc, Nat.add_comm 1]
    · simp [scanOf, firstIdx, hx]

theorem safeFindLoop_ok {bm : ByteBitmap} (hwf : bm.WF) (l : List Nat) : (∀ b ∈ l, b < 256) → ∀ idx,
    safeFindLoop bm l idx = .ok ((firstIdx bm.mem l).map (idx + ·)) := by
  induction l with
  | nil => intro _ idx; simp [safeFindLoop, firstIdx]
  | cons x l ih =>
    intro hb idx
    rw [safeFindLoop, ByteBitmap.contains_ok hwf (hb x (by simp))]
    cases hx : bm.mem x
    · simp only [ih (fun b h => hb b (by simp [h])), firstIdx, hx, Bool.false_eq_true, if_false]
      cases firstIdx bm.mem l with
      | none => simp
      | some i => simp [Nat.add_assoc, Nat.add_comm 1]
    · simp [firstIdx, hx]

/-! ## The chunk loop -/

theorem probe_nibbles {bm : ByteBitmap} (hwf : bm.WF) {b : Nat} (hb : b < 256) :
    bm.probe (b >>> 4) (b &&& 0xF) = .ok (bm.mem b) :=
  ByteBitmap.contains_ok hwf hb

theorem chunkLoop_ok (e : Endian) {bm : ByteBitmap} (hwf : bm.WF) (l : List Nat) :
    l.length % 4 = 0 → (∀ b ∈ l, b < 256) → ∀ offset,
    chunkLoop e bm (chunksU32 e l) offset = .ok (scanOf bm.mem l offset) := by
  fun_induction chunksU32 e l with
  | case1 b0 b1 b2 b3 rest ih =>
    intro hlen hb offset
    have h0 : b0 < 256 := hb b0 (by simp)
    have h1 : b1 < 256 := hb b1 (by simp)
    have h2 : b2 < 256 := hb b2 (by simp)
    have h3 : b3 < 256 := hb b3 (by simp)
    have ihr := ih (by simp only [List.length_cons] at hlen; omega)
      (fun b h => hb b (by simp [h])) (offset + 4)
    rw [chunkLoop]
    simp only [nibble_hi e h0 h1 h2 h3, nibble_lo e h0 h1 h2 h3, probe_nibbles hwf h0,
      probe_nibbles hwf h1, probe_nibbles hwf h2, probe_nibbles hwf h3, ihr]
    simp only [scanOf, firstIdx]
    cases bm.mem b0 <;> cases bm.mem b1 <;> cases bm.mem b2 <;> cases bm.mem b3 <;>
      simp <;> cases firstIdx bm.mem rest <;> simp <;> omega
  | case2 l hne =>
    intro hlen _ offset
    have : l = [] := by
      match l, hne, hlen with
      | [], _, _ => rfl
      | [_], _, h => simp at h
      | [_, _], _, h => simp at h
      | [_, _, _], _, h => simp at h
      | b0 :: b1 :: b2 :: b3 :: rest, hne, _ => exact absurd rfl (hne b0 b1 b2 b3 rest)
    subst this
    simp [chunkLoop, scanOf, firstIdx]

/-! ## `align_to` -/

/-- The split that `align_to` makes, as byte lists. -/
theorem alignTo_split (e : Endian) (bytes : List Nat) (offset : Nat) :
    ∃ pre mid suffix, alignTo e bytes offset = (pre, chunksU32 e mid, suffix) ∧
      pre ++ mid ++ suffix = bytes ∧ mid.length % 4 = 0 ∧
      pre.length = min offset bytes.length ∧ suffix.length = (bytes.length - pre.length) % 4 := by
  unfold alignTo
  by_cases h : offset > bytes.length
  · rw [if_pos h]
    refine ⟨bytes, [], [], by simp [chunksU32], by simp, by simp, ?_, ?_⟩
    · omega
    · simp
  · rw [if_neg h]
    refine ⟨bytes.take offset, (bytes.drop offset).take (4 * ((bytes.drop offset).length / 4)),
      (bytes.drop offset).drop ((bytes.drop offset).length - (bytes.drop offset).length % 4),
      rfl, ?_, ?_, ?_, ?_⟩
    · have hk : (bytes.drop offset).length - (bytes.drop offset).length % 4
          = 4 * ((bytes.drop offset).length / 4) := by omega
      rw [hk, List.append_assoc, List.take_append_drop, List.take_append_drop]
    · simp only [List.length_take, List.length_drop]; omega
    · simp only [List.length_take]
    · simp only [List.length_take, List.length_drop]; omega

/-! ## `unsafe_find_in_slice` -/

/-- The three loops on any split `pre ++ mid ++ suffix` with `mid` a whole number of chunks — the
documented contract of `align_to` ("it is permissible for all of the input data to be returned as
the prefix or suffix slice"). -/
theorem unsafeFindInParts_ok (e : Endian) {bm : ByteBitmap} (hwf : bm.WF) (pre mid suffix : List Nat)
    (hmid : mid.length % 4 = 0) (hb : ∀ b ∈ pre ++ mid ++ suffix, b < 256) :
    unsafeFindInParts e bm pre (chunksU32 e mid) suffix
      = .ok (firstIdx bm.mem (pre ++ mid ++ suffix)) := by
  have hpre : ∀ b ∈ pre, b < 256 := fun b h => hb b (by simp [h])
  have hmidb : ∀ b ∈ mid, b < 256 := fun b h => hb b (by simp [h])
  have hsuf : ∀ b ∈ suffix, b < 256 := fun b h => hb b (by simp [h])
  unfold unsafeFindInParts
  rw [byteLoop_ok hwf pre hpre 0, List.append_assoc, firstIdx_append]
  simp only [scanOf]
  cases firstIdx bm.mem pre with
  | some i => simp
  | none =>
    simp only [chunkLoop_ok e hwf mid hmid hmidb, firstIdx_append, scanOf]
    cases firstIdx bm.mem mid with
    | some i => simp [Nat.add_comm]
    | none =>
      simp only [byteLoop_ok hwf suffix hsuf, scanOf]
      cases firstIdx bm.mem suffix with
      | some i => simp; omega
      | none => simp

theorem unsafeFindInSlice_ok (e : Endian) {bm : ByteBitmap} (hwf : bm.WF) (bytes : List Nat)
    (hb : ∀ b ∈ bytes, b < 256) (alignOffset : Nat) :
    unsafeFindInSlice e bm bytes alignOffset = .ok (firstIdx bm.mem bytes) := by
  obtain ⟨pre, mid, suffix, hsplit, hcat, hmid, _, _⟩ := alignTo_split e bytes alignOffset
  unfold unsafeFindInSlice
  rw [hsplit]
  simp only
  rw [unsafeFindInParts_ok e hwf pre mid suffix hmid (by rw [hcat]; exact hb), hcat]

/-! ## `[u8; 4]`, `memmem` -/

theorem set4FindLoop_ok (s : Nat × Nat × Nat × Nat) (l : List Nat) : ∀ idx,
    set4FindLoop s l idx = (firstIdx (set4Contains s) l).map (idx + ·) := by
  induction l with
  | nil => intro idx; simp [set4FindLoop, firstIdx]
  | cons x l ih =>
    intro idx
    rw [set4FindLoop, firstIdx]
    cases hx : set4Contains s x
    · simp only [Bool.false_eq_true, if_false, ih]
      cases firstIdx (set4Contains s) l with
      | none => simp
      | some i => simp [Nat.add_assoc, Nat.add_comm 1]
    · simp

theorem isPrefixOf_iff_take (needle l : List Nat) :
    needle.isPrefixOf l = true ↔ l.take needle.length = needle := by
  rw [List.isPrefixOf_iff_prefix, List.prefix_iff_eq_take]
  exact eq_comm

theorem memmemFind_none_of_short (needle : List Nat) (l : List Nat) (h : l.length < needle.length) :
    memmemFind needle l = none := by
  induction l with
  | nil =>
    have : needle.isPrefixOf [] = false := by
      cases needle with
      | nil => simp at h
      | cons _ _ => rfl
    simp [memmemFind, this]
  | cons x l ih =>
    have hnp : needle.isPrefixOf (x :: l) = false := by
      apply Bool.eq_false_iff.mpr
      intro hp
      have := (List.isPrefixOf_iff_prefix.mp hp).length_le
      omega
    rw [memmemFind, hnp]
    simp only [Bool.false_eq_true, if_false]
    rw [ih (by simp only [List.length_cons] at h; omega)]
    rfl

/-- `memmemFind` returns the least index at which the needle occurs. -/
theorem memmemFind_eq_some_iff (needle l : List Nat) (i : Nat) :
    memmemFind needle l = some i ↔
      needle.isPrefixOf (l.drop i) = true ∧ i ≤ l.length ∧
        ∀ j, j < i → needle.isPrefixOf (l.drop j) = false := by
  induction l generalizing i with
  | nil =>
    rw [memmemFind]
    by_cases hp : needle.isPrefixOf [] = true
    · simp only [hp, if_true, Option.some.injEq]
      constructor
      · intro h; subst h; simp [hp]
      · rintro ⟨_, hi, _⟩; simp at hi; omega
    · simp [hp]
  | cons x l ih =>
    rw [memmemFind]
    cases hp : needle.isPrefixOf (x :: l)
    · simp only [Bool.false_eq_true, if_false, Option.map_eq_some_iff]
      constructor
      · rintro ⟨k, hk, rfl⟩
        obtain ⟨h1, h2, h3⟩ := (ih k).mp hk
        refine ⟨by simpa using h1, by simp; omega, ?_⟩
        intro j hj
        cases j with
        | zero => simpa using hp
        | succ j => simpa using h3 j (by omega)
      · rintro ⟨h1, h2, h3⟩
        cases i with
        | zero => rw [List.drop_zero, hp] at h1; cases h1
        | succ i =>
          refine ⟨i, (ih i).mpr ⟨by simpa using h1, by simpa using h2, ?_⟩, rfl⟩
          intro j hj
          simpa using h3 (j + 1) (by omega)
    · simp only [if_true, Option.some.injEq]
      constructor
      · intro h; subst h; simp [hp]
      · rintro ⟨_, _, hmin⟩
        cases i with
        | zero => rfl
        | succ i => have := hmin 0 (by omega); simp [hp] at this

end Regress.ByteSearch
