import Proofs.Lemmas.RoundTripPaths4
import Proofs.Lemmas.RoundTripNF
/-!
# Round trip, part 24: the duplicate-name check passes (`prescan_print`)

* `no_conflict_pairOK`: when the recorded paths pairwise do not conflict (`PairOK`), `check_duplicate_conflicts`
  finds nothing;
* `prescan_print`: `parse_capture_groups` on the printed pattern of an AST without conflicting duplicate
  names (`noDup`);
* `noDup_normalize`: the condition survives `Lower.normalize`; `noDup_of_groupNames`: it follows from the
  specification's early-error check `ES.groupNames`.
-/
namespace Regress.RoundTrip
open Regress Regress.IR Regress.Parse Regress.Lower Regress.Print

/-! ## `check_duplicate_conflicts` -/

theorem anyConflict_false : ∀ (ps : List (List (Nat × Nat))),
    ps.Pairwise (fun p q => conflictsWith p q = false) → anyConflict ps = false := by
  intro ps
  induction ps with
  | nil => intro _; rfl
  | cons p ps ih =>
    intro h
    obtain ⟨h1, h2⟩ := List.pairwise_cons.1 h
    simp only [anyConflict, Bool.or_eq_false_iff, List.any_eq_false]
    exact ⟨fun q hq => by simp [h1 q hq], ih h2⟩

/-- The value of key `k` after recording the entries `d`: the paths recorded for `k`, in order. -/
def pathsFor (d : List (List Nat × List (Nat × Nat))) (k : List Nat) : List (List (Nat × Nat)) :=
  (d.filter (fun q => q.1 == k)).map (·.2)

/-- Every value of the map is a sublist of the paths recorded for its key. -/
def SubInv (M : List (List Nat × List (List (Nat × Nat)))) (d : List (List Nat × List (Nat × Nat))) : Prop :=
  ∀ e ∈ M, List.Sublist e.2 (pathsFor d e.1)

theorem pathsFor_append (d : List (List Nat × List (Nat × Nat))) (k : List Nat) (q : List Nat × List (Nat × Nat)) :
    pathsFor (d ++ [q]) k = pathsFor d k ++ (if q.1 == k then [q.2] else []) := by
  simp only [pathsFor, List.filter_append, List.map_append, List.filter_cons, List.filter_nil]
  split <;> simp

theorem mem_mapPush {β} : ∀ (M : List (List Nat × List β)) (k : List Nat) (v : β) (e : List Nat × List β),
    e ∈ mapPush M k v → e ∈ M ∨ (e.1 = k ∧ ∃ vs, ((k, vs) ∈ M ∨ vs = []) ∧ e.2 = vs ++ [v]) := by
  intro M
  induction M with
  | nil =>
    intro k v e he
    simp only [mapPush, List.mem_singleton] at he
    subst he
    exact .inr ⟨rfl, [], .inr rfl, rfl⟩
  | cons x xs ih =>
    intro k v e he
    obtain ⟨k', vs⟩ := x
    by_cases hk : k' = k
    · subst hk
      simp only [mapPush, beq_self_eq_true, if_true, List.mem_cons] at he
      rcases he with rfl | he
      · exact .inr ⟨rfl, vs, .inl (by simp), rfl⟩
      · exact .inl (by simp [he])
    · have : (k' == k) = false := by simpa using hk
      simp only [mapPush, this, Bool.false_eq_true, if_false, List.mem_cons] at he
      rcases he with rfl | he
      · exact .inl (by simp)
      · rcases ih k v e he with h | ⟨h1, vs', h2, h3⟩
        · exact .inl (by simp [h])
        · refine .inr ⟨h1, vs', ?_, h3⟩
          rcases h2 with h2 | h2
          · exact .inl (by simp [h2])
          · exact .inr h2

theorem SubInv.step {M : List (List Nat × List (List (Nat × Nat)))} {d : List (List Nat × List (Nat × Nat))}
    (h : SubInv M d) (k : List Nat) (v : List (Nat × Nat)) : SubInv (mapPush M k v) (d ++ [(k, v)]) := by
  intro e he
  rw [pathsFor_append]
  rcases mem_mapPush M k v e he with hm | ⟨hk, vs, hvs, hv⟩
  · exact (h e hm).trans (List.sublist_append_left _ _)
  · have hkk : ((k, v).1 == e.1) = true := by simp [hk]
    simp only [hkk, if_true]
    rw [hv]
    rcases hvs with hvs | hvs
    · have := h (k, vs) hvs
      rw [hk]
      exact List.Sublist.append this (List.Sublist.refl _)
    · subst hvs
      exact (List.nil_sublist _).append (List.Sublist.refl _)

theorem subInv_foldl : ∀ (l d : List (List Nat × List (Nat × Nat))) (M : List (List Nat × List (List (Nat × Nat)))),
    SubInv M d → SubInv (l.foldl (fun m p => mapPush m p.1 p.2) M) (d ++ l) := by
  intro l
  induction l with
  | nil => intro d M h; simpa using h
  | cons q l ih =>
    intro d M h
    have := ih (d ++ [q]) (mapPush M q.1 q.2) (h.step q.1 q.2)
    simpa [List.append_assoc] using this

/-- The duplicate-name check finds nothing when no two recorded paths of the same name conflict. -/
theorem no_conflict_pairOK {names : List (List Nat)} {ps : List (List (Nat × Nat))} (h : PairOK (names.zip ps)) :
    (pushLocs [] names ps).any (fun e => anyConflict e.2) = false := by
  have hinv := subInv_foldl (names.zip ps) [] [] (by intro e he; cases he)
  simp only [List.nil_append] at hinv
  simp only [List.any_eq_false]
  intro e he
  have hsub := hinv e he
  have hpw : (pathsFor (names.zip ps) e.1).Pairwise (fun p q => conflictsWith p q = false) := by
    simp only [pathsFor, List.pairwise_map]
    refine (List.Pairwise.filter _ h).imp_of_mem ?_
    intro x y hx hy hxy
    have h1 := (List.mem_filter.1 hx).2
    have h2 := (List.mem_filter.1 hy).2
    simp only [beq_iff_eq] at h1 h2
    exact hxy (h1.trans h2.symm)
  simp [anyConflict_false _ (hpw.sublist hsub)]

/-! ## `parse_capture_groups` -/

theorem prescan_print {fl : Flags} (hc : ClsScan fl) (hv : VClsScan fl) (a : ES.Node) (st : PState)
    (hin : st.input = pr .disj a) (hfl : st.flags = fl) (h0 : st.groupCountMax = 0) (hn : st.named = [])
    (hm : modeOK fl.unicodeSets a = true) (hl : lexOK a = true)
    (hg : ES.countParens a ≤ Gen.MAX_CAPTURE_GROUPS) (hnd : noDup a = true) :
    parseCaptureGroups st =
      .ok { st with groupCountMax := ES.countParens a, named := pushAll [] (ES.namedGroups a 0) } := by
  obtain ⟨sc, f', hf', hscan, hrel⟩ := scan_node hc hv a hm hl .disj
    { named := st.named, gmax := st.groupCountMax } [] (st.input.length + 1) (by rw [hin]; simp)
  obtain ⟨sc2, f2, hf2, hscan2, lo, hi, bars, hrel2⟩ := (scan_paths hc hv a hm hl hnd).disj
    { named := st.named, gmax := st.groupCountMax } [] (st.input.length + 1) (by rw [hin]; simp)
  simp only [List.append_nil] at hscan hscan2
  rw [scanLoop_nil fl hf'] at hscan
  rw [scanLoop_nil fl hf2, hscan] at hscan2
  simp only [Except.ok.injEq] at hscan2
  subst hscan2
  obtain ⟨g1, n1, _⟩ := hrel (by simp only [h0]; omega)
  simp only [h0, hn, Nat.zero_add] at g1 n1
  obtain ⟨_, ps, _, e2, _, hok⟩ := hrel2
  have hlocs : sc.locs.any (fun e => anyConflict e.2) = false := by
    rw [e2]
    exact no_conflict_pairOK hok
  rw [hin] at hscan
  unfold parseCaptureGroups
  rw [hfl, hin, hscan]
  simp only [hlocs, Bool.false_eq_true, if_false, g1, n1]

/-! ## Normalization -/

theorem gnamesList_append (xs ys : List ES.Node) : gnamesList (xs ++ ys) = gnamesList xs ++ gnamesList ys := by
  induction xs with
  | nil => simp [gnamesList]
  | cons x xs ih => simp [gnamesList, ih]

theorem noDupAll_append (xs ys : List ES.Node) : noDupAll (xs ++ ys) = (noDupAll xs && noDupAll ys) := by
  induction xs with
  | nil => simp [noDupAll]
  | cons x xs ih => simp [noDupAll, ih, Bool.and_assoc]

/-- The names of `xs` do not occur in `l`. -/
def Disj (xs : List ES.Node) (l : List (List Nat)) : Prop := ∀ x ∈ gnamesList xs, x ∉ l

theorem noDupSeq_append : ∀ (xs ys : List ES.Node), noDupSeq xs = true → noDupSeq ys = true →
    Disj xs (gnamesList ys) → noDupSeq (xs ++ ys) = true := by
  intro xs
  induction xs with
  | nil => intro ys _ h _; simpa using h
  | cons x xs ih =>
    intro ys h1 h2 hd
    simp only [noDupSeq, Bool.and_eq_true, List.all_eq_true, Bool.not_eq_true', List.contains_eq_mem,
      decide_eq_false_iff_not] at h1
    simp only [List.cons_append, noDupSeq, Bool.and_eq_true, List.all_eq_true, Bool.not_eq_true',
      List.contains_eq_mem, decide_eq_false_iff_not, gnamesList_append, List.mem_append, not_or]
    refine ⟨⟨h1.1.1, ih ys h1.1.2 h2 (fun z hz => hd z (by simp [gnamesList, hz]))⟩, fun z hz => ⟨h1.2 z hz, ?_⟩⟩
    exact hd z (by simp [gnamesList, hz])

theorem catItems_names (m : ES.Node) : gnamesList (catItems m) = gnames m := by
  cases m <;> simp [catItems, gnamesList, gnames]

theorem altItems_names (m : ES.Node) : gnamesList (altItems m) = gnames m := by
  cases m <;> simp [altItems, gnamesList, gnames]

theorem catItems_noDup {m : ES.Node} (h : noDup m = true) : noDupSeq (catItems m) = true := by
  cases m <;> simp_all [catItems, noDup, noDupSeq, gnamesList]

theorem altItems_noDup {m : ES.Node} (h : noDup m = true) : noDupAll (altItems m) = true := by
  cases m <;> simp_all [altItems, noDup, noDupAll]

theorem normalize_names (n : ES.Node) : gnames (normalize n) = gnames n := by
  induction n using ES.Node.rec
    (motive_2 := fun ns => gnamesList (normCat ns) = gnamesList ns ∧ gnamesList (normAlt ns) = gnamesList ns) with
  | cat ns ih => simp only [normalize, gnames]; exact ih.1
  | alt ns ih => simp only [normalize, gnames]; exact ih.2
  | group i nm n ih => simp only [normalize, gnames, ih]
  | nc n ih => simpa only [normalize, gnames] using ih
  | mod a r n ih => simpa only [normalize, gnames] using ih
  | look a g n ih => simpa only [normalize, gnames] using ih
  | quant mn mx g n ih => simpa only [normalize, gnames] using ih
  | nil => simp [normCat, normAlt]
  | cons a as iha ihas =>
    simp only [normCat, normAlt, gnamesList_append, catItems_names, altItems_names, iha, ihas.1, ihas.2,
      gnamesList, and_self]
  | empty => rfl
  | char c => rfl
  | dot => rfl
  | bol => rfl
  | eol => rfl
  | wb => rfl
  | nwb => rfl
  | bref k => rfl
  | nref nm => rfl
  | esc e => rfl
  | prop g k nm => rfl
  | cls g items => rfl
  | vcls g op ops => rfl

theorem noDup_normalize (n : ES.Node) : noDup n = true → noDup (normalize n) = true := by
  induction n using ES.Node.rec
    (motive_2 := fun ns =>
      (gnamesList (normCat ns) = gnamesList ns ∧ gnamesList (normAlt ns) = gnamesList ns) ∧
      (noDupSeq ns = true → noDupSeq (normCat ns) = true) ∧
      (noDupAll ns = true → noDupAll (normAlt ns) = true)) with
  | cat ns ih => intro h; simp only [noDup] at h; simpa only [normalize, noDup] using ih.2.1 h
  | alt ns ih => intro h; simp only [noDup] at h; simpa only [normalize, noDup] using ih.2.2 h
  | group i nm n ih =>
    intro h
    simp only [noDup, Bool.and_eq_true] at h
    simp only [normalize, noDup, Bool.and_eq_true, normalize_names]
    exact ⟨ih h.1, h.2⟩
  | nc n ih => intro h; simp only [noDup] at h; simpa only [normalize, noDup] using ih h
  | mod a r n ih => intro h; simp only [noDup] at h; simpa only [normalize, noDup] using ih h
  | look a g n ih => intro h; simp only [noDup] at h; simpa only [normalize, noDup] using ih h
  | quant mn mx g n ih => intro h; simp only [noDup] at h; simpa only [normalize, noDup] using ih h
  | nil => simp [normCat, normAlt]
  | cons a as iha ihas =>
    have hn : gnamesList (normCat (a :: as)) = gnamesList (a :: as) ∧
        gnamesList (normAlt (a :: as)) = gnamesList (a :: as) := by
      simp only [normCat, normAlt, gnamesList_append, catItems_names, altItems_names, normalize_names,
        ihas.1.1, ihas.1.2, gnamesList, and_self]
    refine ⟨hn, fun h => ?_, fun h => ?_⟩
    · simp only [noDupSeq, Bool.and_eq_true, List.all_eq_true, Bool.not_eq_true', List.contains_eq_mem,
        decide_eq_false_iff_not] at h
      simp only [normCat]
      refine noDupSeq_append _ _ (catItems_noDup (iha h.1.1)) (ihas.2.1 h.1.2) ?_
      intro z hz
      rw [catItems_names, normalize_names] at hz
      rw [ihas.1.1]
      exact h.2 z hz
    · simp only [noDupAll, Bool.and_eq_true] at h
      simp only [normAlt, noDupAll_append, Bool.and_eq_true]
      exact ⟨altItems_noDup (iha h.1), ihas.2.2 h.2⟩
  | empty => intro h; exact h
  | char c => intro h; exact h
  | dot => intro h; exact h
  | bol => intro h; exact h
  | eol => intro h; exact h
  | wb => intro h; exact h
  | nwb => intro h; exact h
  | bref k => intro h; exact h
  | nref nm => intro h; exact h
  | esc e => intro h; exact h
  | prop g k nm => intro h; exact h
  | cls g items => intro h; exact h
  | vcls g op ops => intro h; exact h

/-! ## The specification's early error -/

theorem groupNames_spec (n : ES.Node) :
    ∀ l, ES.groupNames n = .ok l → (∀ x, x ∈ l ↔ x ∈ gnames n) ∧ noDup n = true := by
  induction n using ES.Node.rec
    (motive_2 := fun ns =>
      (∀ l, ES.groupNamesSeq ns = .ok l → (∀ x, x ∈ l ↔ x ∈ gnamesList ns) ∧ noDupSeq ns = true) ∧
      (∀ l, ES.groupNamesAlt ns = .ok l → (∀ x, x ∈ l ↔ x ∈ gnamesList ns) ∧ noDupAll ns = true)) with
  | group i nm n ih =>
    intro l h
    simp only [ES.groupNames] at h
    cases hin : ES.groupNames n with
    | error e => rw [hin] at h; cases h
    | ok inner =>
      rw [hin] at h
      obtain ⟨hmem, hnd⟩ := ih inner hin
      cases nm with
      | none =>
        simp only [Except.ok.injEq] at h
        subst h
        exact ⟨by simpa [gnames] using hmem, by simp [noDup, hnd]⟩
      | some x =>
        simp only at h
        split at h
        · cases h
        · next hc =>
          simp only [Except.ok.injEq] at h
          subst h
          have hx : x ∉ gnames n := by
            intro hx'
            exact hc (by simpa using (hmem x).2 hx')
          refine ⟨fun y => ?_, by simp [noDup, hnd, hx]⟩
          simp [gnames, hmem y]
  | cat ns ih => intro l h; simp only [ES.groupNames] at h; simpa only [gnames, noDup] using ih.1 l h
  | alt ns ih => intro l h; simp only [ES.groupNames] at h; simpa only [gnames, noDup] using ih.2 l h
  | nc n ih => intro l h; simp only [ES.groupNames] at h; simpa only [gnames, noDup] using ih l h
  | mod a r n ih => intro l h; simp only [ES.groupNames] at h; simpa only [gnames, noDup] using ih l h
  | look a g n ih => intro l h; simp only [ES.groupNames] at h; simpa only [gnames, noDup] using ih l h
  | quant mn mx g n ih => intro l h; simp only [ES.groupNames] at h; simpa only [gnames, noDup] using ih l h
  | nil =>
    refine ⟨fun l h => ?_, fun l h => ?_⟩
    · simp only [ES.groupNamesSeq, Except.ok.injEq] at h; subst h; simp [gnamesList, noDupSeq]
    · simp only [ES.groupNamesAlt, Except.ok.injEq] at h; subst h; simp [gnamesList, noDupAll]
  | cons a as iha ihas =>
    refine ⟨fun l h => ?_, fun l h => ?_⟩
    · simp only [ES.groupNamesSeq] at h
      cases h1 : ES.groupNames a with
      | error e => rw [h1] at h; simp at h
      | ok la =>
        cases h2 : ES.groupNamesSeq as with
        | error e => rw [h1, h2] at h; simp at h
        | ok lb =>
          rw [h1, h2] at h
          simp only at h
          split at h
          · cases h
          · next hc =>
            simp only [Except.ok.injEq] at h
            subst h
            obtain ⟨m1, d1⟩ := iha la h1
            obtain ⟨m2, d2⟩ := ihas.1 lb h2
            refine ⟨fun x => by simp [gnamesList, m1 x, m2 x], ?_⟩
            simp only [noDupSeq, d1, d2, Bool.and_self, Bool.true_and, List.all_eq_true, Bool.not_eq_true',
              List.contains_eq_mem, decide_eq_false_iff_not]
            intro x hx hx2
            apply hc
            simp only [List.any_eq_true, List.contains_eq_mem, decide_eq_true_eq]
            exact ⟨x, (m1 x).2 hx, (m2 x).2 hx2⟩
    · simp only [ES.groupNamesAlt] at h
      cases h1 : ES.groupNames a with
      | error e => rw [h1] at h; simp at h
      | ok la =>
        cases h2 : ES.groupNamesAlt as with
        | error e => rw [h1, h2] at h; simp at h
        | ok lb =>
          rw [h1, h2] at h
          simp only [Except.ok.injEq] at h
          subst h
          obtain ⟨m1, d1⟩ := iha la h1
          obtain ⟨m2, d2⟩ := ihas.2 lb h2
          refine ⟨fun x => ?_, by simp [noDupAll, d1, d2]⟩
          simp only [List.mem_append, List.mem_filter, Bool.not_eq_true', List.contains_eq_mem,
            decide_eq_false_iff_not, gnamesList, m1 x, ← m2 x]
          constructor
          · rintro (h | ⟨h, _⟩)
            · exact .inl h
            · exact .inr h
          · intro h
            by_cases hx : x ∈ gnames a
            · exact .inl hx
            · rcases h with h | h
              · exact .inl h
              · exact .inr ⟨h, hx⟩
  | empty => intro l h; simp only [ES.groupNames, Except.ok.injEq] at h; subst h; simp [gnames, noDup]
  | char c => intro l h; simp only [ES.groupNames, Except.ok.injEq] at h; subst h; simp [gnames, noDup]
  | dot => intro l h; simp only [ES.groupNames, Except.ok.injEq] at h; subst h; simp [gnames, noDup]
  | bol => intro l h; simp only [ES.groupNames, Except.ok.injEq] at h; subst h; simp [gnames, noDup]
  | eol => intro l h; simp only [ES.groupNames, Except.ok.injEq] at h; subst h; simp [gnames, noDup]
  | wb => intro l h; simp only [ES.groupNames, Except.ok.injEq] at h; subst h; simp [gnames, noDup]
  | nwb => intro l h; simp only [ES.groupNames, Except.ok.injEq] at h; subst h; simp [gnames, noDup]
  | bref k => intro l h; simp only [ES.groupNames, Except.ok.injEq] at h; subst h; simp [gnames, noDup]
  | nref nm => intro l h; simp only [ES.groupNames, Except.ok.injEq] at h; subst h; simp [gnames, noDup]
  | esc e => intro l h; simp only [ES.groupNames, Except.ok.injEq] at h; subst h; simp [gnames, noDup]
  | prop g k nm => intro l h; simp only [ES.groupNames, Except.ok.injEq] at h; subst h; simp [gnames, noDup]
  | cls g items => intro l h; simp only [ES.groupNames, Except.ok.injEq] at h; subst h; simp [gnames, noDup]
  | vcls g op ops => intro l h; simp only [ES.groupNames, Except.ok.injEq] at h; subst h; simp [gnames, noDup]

/-- An AST that passes the specification's duplicate-name early error has no conflicting duplicates. -/
theorem noDup_of_groupNames {a : ES.Node} {l : List (List Nat)} (h : ES.groupNames a = .ok l) : noDup a = true :=
  (groupNames_spec a l h).2

end Regress.RoundTrip
