import Proofs.Lemmas.RoundTripAtoms
/-!
# Round trip, part 4: quantified terms, groups, look-arounds

* `term_quant`: the quantifier step of the term loop (`{m,n}` / `{m,}` / lazy `?` after an atom);
* `atom_group`: `( … )` (unnamed; the named form is in `RoundTripNames.lean`), `atom_nc`: `(?: … )`,
  `atom_look`: `(?= (?! (?<= (?<!`;
* `atom_wrapped`: a sequence / alternation / empty pattern / quantified term as the operand of a
  quantifier, inside `(?: … )`.
-/
namespace Regress.RoundTrip
open Regress Regress.IR Regress.Parse Regress.Lower Regress.Print

/-- Close the goals left after `congr` on two parser results: state equalities field by field. -/
macro "pst" : tactic => `(tactic|
  (apply pstate_ext <;> first
    | rfl
    | (simp [ES.countParens, ES.countParensList, countLoops, countLoopsList, hasLookbehind, hasLookbehindList,
        Nat.add_assoc, Bool.or_assoc, adv]; done)
    | (simp [ES.countParens, ES.countParensList, countLoops, countLoopsList, hasLookbehind, hasLookbehindList,
        Nat.add_assoc, Bool.or_assoc, adv]; omega)))

macro "fin_atom" : tactic => `(tactic|
  (congr 2 <;> first
    | rfl
    | pst
    | (simp [quantifiable, adv, ES.countParens]; done)))

/-! ## Heads of alternatives and disjunctions -/

theorem headF_nil : HeadF [] := by intro c tl h; cases h

theorem prTerms_headF (ns : List ES.Node) : HeadF (prTerms ns) := by
  cases ns with
  | nil => exact headF_nil
  | cons n ns => simp only [prTerms]; exact ((term_head n).append _).headF

theorem alt_headF (n : ES.Node) : HeadF (pr .alt n) := by
  cases n with
  | cat ns => simp only [pr]; exact prTerms_headF ns
  | empty => simp only [pr]; exact headF_nil
  | quant mn mx g n => simpa only [pr] using (term_head (.quant mn mx g n)).headF
  | char c => simpa only [pr] using (term_head (.char c)).headF
  | dot => simpa only [pr] using (term_head .dot).headF
  | bol => simpa only [pr] using (term_head .bol).headF
  | eol => simpa only [pr] using (term_head .eol).headF
  | wb => simpa only [pr] using (term_head .wb).headF
  | nwb => simpa only [pr] using (term_head .nwb).headF
  | alt ns => simpa only [pr] using (term_head (.alt ns)).headF
  | group i nm n => simpa only [pr] using (term_head (.group i nm n)).headF
  | nc n => simpa only [pr] using (term_head (.nc n)).headF
  | mod a r n => simpa only [pr] using (term_head (.mod a r n)).headF
  | look a g n => simpa only [pr] using (term_head (.look a g n)).headF
  | bref k => simpa only [pr] using (term_head (.bref k)).headF
  | nref nm => simpa only [pr] using (term_head (.nref nm)).headF
  | esc e => simpa only [pr] using (term_head (.esc e)).headF
  | prop g k nm => simpa only [pr] using (term_head (.prop g k nm)).headF
  | cls g items => simpa only [pr] using (term_head (.cls g items)).headF
  | vcls g op ops => simpa only [pr] using (term_head (.vcls g op ops)).headF

theorem prAlts_headF (ns : List ES.Node) : HeadF (prAlts ns) := by
  cases ns with
  | nil => exact headF_nil
  | cons n ns =>
    simp only [prAlts]
    intro c tl h
    cases hp : pr .alt n with
    | nil =>
      rw [hp] at h
      cases ns with
      | nil => simp [prAltsTail] at h
      | cons m ms =>
        simp only [prAltsTail, List.nil_append, List.cons_append, List.cons.injEq] at h
        rw [← h.1]; decide
    | cons d tl' =>
      rw [hp] at h
      simp only [List.cons_append, List.cons.injEq] at h
      rw [← h.1]
      exact alt_headF n d tl' hp

theorem disj_headF (n : ES.Node) : HeadF (pr .disj n) := by
  cases n with
  | alt ns => simp only [pr]; exact prAlts_headF ns
  | cat ns => simpa only [pr] using alt_headF (.cat ns)
  | empty => simpa only [pr] using alt_headF .empty
  | quant mn mx g n => simpa only [pr] using alt_headF (.quant mn mx g n)
  | char c => simpa only [pr] using alt_headF (.char c)
  | dot => simpa only [pr] using alt_headF .dot
  | bol => simpa only [pr] using alt_headF .bol
  | eol => simpa only [pr] using alt_headF .eol
  | wb => simpa only [pr] using alt_headF .wb
  | nwb => simpa only [pr] using alt_headF .nwb
  | group i nm n => simpa only [pr] using alt_headF (.group i nm n)
  | nc n => simpa only [pr] using alt_headF (.nc n)
  | mod a r n => simpa only [pr] using alt_headF (.mod a r n)
  | look a g n => simpa only [pr] using alt_headF (.look a g n)
  | bref k => simpa only [pr] using alt_headF (.bref k)
  | nref nm => simpa only [pr] using alt_headF (.nref nm)
  | esc e => simpa only [pr] using alt_headF (.esc e)
  | prop g k nm => simpa only [pr] using alt_headF (.prop g k nm)
  | cls g items => simpa only [pr] using alt_headF (.cls g items)
  | vcls g op ops => simpa only [pr] using alt_headF (.vcls g op ops)

/-- The body of a group followed by its `)` does not start with `?`. -/
theorem body_head (n : ES.Node) (rest : List Nat) :
    ∃ b tl, pr .disj n ++ 0x29 :: rest = b :: tl ∧ b ≠ 0x3F := by
  have hf : Follow (pr .disj n ++ 0x29 :: rest) := (disj_headF n).append (followC_cons (by decide))
  cases h : pr .disj n ++ 0x29 :: rest with
  | nil => simp at h
  | cons b tl =>
    refine ⟨b, tl, rfl, ?_⟩
    have := hf b tl h
    simp only [followC, Bool.and_eq_true, bne_iff_ne, ne_eq] at this
    exact this.1.2

section
variable {P : ES.Node} {T : Nat}

/-! ## Quantified terms -/

theorem lowerQuant_inv {P : ES.Node} {T : Nat} {mn : Nat} {mx : Option Nat} {g : Bool} {n : ES.Node}
    {fl : IR.Flags} {pi : Nat} {x : Node} (h : lowerNode P T (.quant mn mx g n) fl pi = .ok x) :
    quantifiable fl n = true ∧ mn ≤ USIZE_MAX ∧ (∀ m, mx = some m → mn ≤ m ∧ m ≤ USIZE_MAX) ∧
    ∃ body, lowerNode P T n fl pi = .ok body ∧
      x = .loop body { min := mn, max := mx, greedy := g } pi (pi + ES.countParens n) := by
  simp only [lowerNode] at h
  cases hq : quantifiable fl n with
  | false => simp [hq] at h
  | true =>
    simp only [hq, Bool.not_true, Bool.false_eq_true, if_false] at h
    cases mx with
    | none =>
      simp only [Bool.false_eq_true, if_false, Bool.or_false, decide_eq_true_eq] at h
      split at h
      · cases h
      · next h1 =>
        cases hb : lowerNode P T n fl pi with
        | error e => rw [hb] at h; cases h
        | ok body =>
          rw [hb] at h
          simp only [Except.ok.injEq] at h
          refine ⟨rfl, by omega, ?_, body, rfl, h.symm⟩
          intro m hm; cases hm
    | some m =>
      simp only [decide_eq_true_eq, Bool.or_eq_true] at h
      split at h
      · cases h
      · next h0 =>
        split at h
        · cases h
        · next h1 =>
          cases hb : lowerNode P T n fl pi with
          | error e => rw [hb] at h; cases h
          | ok body =>
            rw [hb] at h
            simp only [Except.ok.injEq] at h
            refine ⟨rfl, by omega, ?_, body, rfl, h.symm⟩
            intro m' hm
            cases hm
            omega
theorem term_quant {n : ES.Node} (mn : Nat) (mx : Option Nat) (g : Bool) (ha : AtomR P T n) :
    TermR P T (.quant mn mx g n) := by
  intro st x rest result f hl hin hfol hinv hlim hlex hf
  obtain ⟨hqa, hmn, hmxs, body, hbody, rfl⟩ := lowerQuant_inv hl
  have hmx : ∀ m, mx = some m → m ≤ USIZE_MAX := fun m hm => (hmxs m hm).2
  simp only [pr, List.append_assoc] at hin
  simp only [pr, List.length_append] at hf
  simp only [lexOK] at hlex
  obtain ⟨c, tl, hc, hsc⟩ := atom_head n
  have hin' : st.input = c :: (tl ++ (printQuant mn mx g ++ rest)) := by rw [hin, hc]; rfl
  simp only [startC, followC, Bool.and_eq_true, bne_iff_ne, ne_eq] at hsc
  have hb : (c == 0x29 || c == 0x7C) = false := by simp [hsc.1.2, hsc.2]
  have hd := hlim.depth
  have hlo := hlim.loops
  have hg := hlim.groups
  simp only [prDepth, countLoops, ES.countParens] at hd hlo hg
  have hnd : NoDigit (printQuant mn mx g ++ rest) := by
    rw [printQuant_eq, List.append_assoc]
    obtain ⟨t, ht⟩ := printBraces_cons mn mx
    rw [ht]
    exact noDigit_cons (by decide)
  have hat := ha st body (printQuant mn mx g ++ rest) result f c hbody hin (by rw [hin']; rfl) hnd hinv
    ⟨hd, by omega, hg⟩ hlex (by omega)
  rw [termLoop]
  simp only [hin', hb, Bool.false_eq_true, if_false]
  rw [hat]
  simp only [adv_input, adv_flags, quantifier_printQuant _ g hmn hmx hfol, hqa, Bool.not_true,
    Bool.false_eq_true, if_false]
  have hlen : ¬ (result.length > (result ++ [body]).length) := by simp
  have hloops : ¬ (st.loopCount + countLoops n ≥ Gen.MAX_LOOPS) := by omega
  simp only [hlen, if_false, adv_lc, hloops, adv_gc, List.drop_left', List.take_left', makeCat]
  rw [if_neg]
  · congr 1
    pst
  · intro hcond
    cases mx with
    | none => simp at hcond
    | some m => have := (hmxs m rfl).1; simp at hcond; omega

/-! ## Groups -/

theorem modifierGroupHead_none {b : Nat} (tl : List Nat) (hb : b ≠ 0x3F) :
    modifierGroupHead (0x28 :: b :: tl) = none := by
  unfold modifierGroupHead
  split
  · next h =>
    simp only [List.cons.injEq] at h
    exact absurd h.2.1 hb
  · rfl

/-- The prefix tests of the `(` arm all fail when the character after `(` is not `?`. -/
theorem not_special_group {st : PState} {b : Nat} {tl : List Nat} (hin : st.input = 0x28 :: b :: tl)
    (hb : b ≠ 0x3F) (s : List Nat) : tryConsumeStr (0x28 :: 0x3F :: s) st = (false, st) := by
  have : (0x3F == b) = false := by simp; exact fun h => hb h.symm
  simp [tryConsumeStr, hin, stripPrefix?, this]

theorem atom_group {n : ES.Node} (idx : Nat) (hd : DisjR P T n) : AtomR P T (.group idx none n) := by
  intro st x rest result f c0 hl hin hc hnd hinv hlim hlex hf
  simp only [lowerNode] at hl
  cases hbody : lowerNode P T n st.flags (st.groupCount + 1) with
  | error e => rw [hbody] at hl; cases hl
  | ok body =>
    rw [hbody] at hl
    simp only [Except.ok.injEq] at hl
    subst hl
    simp only [pr, groupOpen, List.append_assoc, List.cons_append, List.nil_append] at hin
    simp only [pr, groupOpen, List.length_append, List.length_cons, List.length_nil] at hf
    simp only [lexOK, Bool.true_and] at hlex
    obtain rfl := head_eq hin hc
    obtain ⟨b, tl, hbt, hb⟩ := body_head n rest
    have hin' : st.input = 0x28 :: b :: tl := by rw [hin, hbt]
    obtain ⟨f', rfl⟩ : ∃ f', f = f' + 1 := ⟨f - 1, by omega⟩
    have hdp := hlim.depth
    have hlo := hlim.loops
    have hg := hlim.groups
    simp only [prDepth, countLoops, ES.countParens] at hdp hlo hg
    have hgc : ¬ (st.groupCount ≥ Gen.MAX_CAPTURE_GROUPS) := by omega
    have h3f : tryConsumeStr [0x3F] { st with input := b :: tl, groupCount := st.groupCount + 1 } =
        (false, { st with input := b :: tl, groupCount := st.groupCount + 1 }) := by
      have : (0x3F == b) = false := by simp; exact fun h => hb h.symm
      simp [tryConsumeStr, stripPrefix?, this]
    have hd' := hd { st with input := pr .disj n ++ 0x29 :: rest, groupCount := st.groupCount + 1 } body
      (0x29 :: rest) f' hbody rfl (.inr ⟨rest, rfl⟩) (hinv.of_eq rfl rfl)
      ⟨by simp only; omega, by simp only; omega, by simp only; omega⟩ hlex (by omega)
    rw [← hbt] at h3f
    rw [consumeAtom]
    simp only [show ((0x28 : Nat) == 0x5E) = false from rfl, show ((0x28 : Nat) == 0x24) = false from rfl,
      show ((0x28 : Nat) == 0x5C) = false from rfl, show ((0x28 : Nat) == 0x2E) = false from rfl,
      show ((0x28 : Nat) == 0x28) = true from rfl, Bool.false_eq_true, if_false, if_true]
    simp only [not_special_group hin' hb, hin', modifierGroupHead_none tl hb, consume]
    simp only [hgc, if_false]
    rw [← hbt, h3f]
    simp only
    rw [hd']
    simp only [tryConsume, adv_input, show ((0x29 : Nat) == 0x29) = true from rfl, if_true]
    fin_atom

theorem atom_nc {n : ES.Node} (hd : DisjR P T n) : AtomR P T (.nc n) := by
  intro st x rest result f c0 hl hin hc hnd hinv hlim hlex hf
  simp only [lowerNode] at hl
  simp only [pr] at hin hf
  simp only [lexOK] at hlex
  have hc0 : c0 = 0x28 := by rw [hin] at hc; simpa [wrap] using hc.symm
  subst hc0
  have hdp := hlim.depth
  simp only [prDepth] at hdp
  have := wrap_atom hd st x rest result f hl hin hinv ⟨hdp, hlim.loops, hlim.groups⟩ hlex hf
  rw [this]
  congr 2

/-- A sequence, alternation, empty pattern or quantified term as an atom: `(?:` its disjunction `)`. -/
theorem atom_wrapped {n : ES.Node} (hd : DisjR P T n) (hp : pr .atom n = wrap (pr .disj n))
    (hdep : prDepth .atom n = 1 + prDepth .disj n) (hq : ∀ fl, quantifiable fl n = true) : AtomR P T n := by
  intro st x rest result f c0 hl hin hc hnd hinv hlim hlex hf
  rw [hp] at hin hf
  rw [hdep] at hlim
  have hc0 : c0 = 0x28 := by rw [hin] at hc; simpa [wrap] using hc.symm
  subst hc0
  rw [wrap_atom hd st x rest result f hl hin hinv hlim hlex hf, hq]

/-! ## Look-arounds -/

theorem atom_look {n : ES.Node} (ahead neg : Bool) (hd : DisjR P T n) : AtomR P T (.look ahead neg n) := by
  intro st x rest result f c0 hl hin hc hnd hinv hlim hlex hf
  simp only [lowerNode] at hl
  cases hbody : lowerNode P T n st.flags st.groupCount with
  | error e => rw [hbody] at hl; cases hl
  | ok body =>
    rw [hbody] at hl
    simp only [Except.ok.injEq] at hl
    subst hl
    simp only [lexOK] at hlex
    have hdp := hlim.depth
    have hlo := hlim.loops
    have hg := hlim.groups
    simp only [prDepth, countLoops, ES.countParens] at hdp hlo hg
    have hlen : 3 ≤ (lookOpen ahead neg).length := by cases ahead <;> cases neg <;> simp [lookOpen]
    simp only [pr, List.length_append, List.length_cons, List.length_nil] at hf
    obtain ⟨f', rfl⟩ : ∃ f', f = f' + 1 := ⟨f - 1, by omega⟩
    have hd' := fun (lb : Bool) => hd { st with input := pr .disj n ++ 0x29 :: rest, hasLookbehind := lb } body
      (0x29 :: rest) f' hbody rfl (.inr ⟨rest, rfl⟩) (hinv.of_eq rfl rfl)
      ⟨by simp only; omega, by simp only; omega, by simp only; omega⟩ hlex (by omega)
    have hc0 : c0 = 0x28 := by
      rw [hin] at hc
      cases ahead <;> cases neg <;> simpa [pr, lookOpen] using hc.symm
    subst hc0
    rw [consumeAtom]
    simp only [show ((0x28 : Nat) == 0x5E) = false from rfl, show ((0x28 : Nat) == 0x24) = false from rfl,
      show ((0x28 : Nat) == 0x5C) = false from rfl, show ((0x28 : Nat) == 0x2E) = false from rfl,
      show ((0x28 : Nat) == 0x28) = true from rfl, Bool.false_eq_true, if_false, if_true]
    cases ahead <;> cases neg
    · -- (?<=
      have hin' : st.input = 0x28 :: 0x3F :: 0x3C :: 0x3D :: (pr .disj n ++ 0x29 :: rest) := by
        rw [hin]; simp [pr, lookOpen]
      simp only [tryConsumeStr, hin', stripPrefix?, show ((0x28 : Nat) == 0x28) = true from rfl,
        show ((0x3F : Nat) == 0x3F) = true from rfl, show ((0x3D : Nat) == 0x3C) = false from rfl,
        show ((0x21 : Nat) == 0x3C) = false from rfl, show ((0x3C : Nat) == 0x3C) = true from rfl,
        show ((0x3D : Nat) == 0x3D) = true from rfl, Bool.false_eq_true, if_false, if_true]
      rw [hd' true]
      simp only [tryConsume, adv_input, show ((0x29 : Nat) == 0x29) = true from rfl, if_true]
      fin_atom
    · -- (?<!
      have hin' : st.input = 0x28 :: 0x3F :: 0x3C :: 0x21 :: (pr .disj n ++ 0x29 :: rest) := by
        rw [hin]; simp [pr, lookOpen]
      simp only [tryConsumeStr, hin', stripPrefix?, show ((0x28 : Nat) == 0x28) = true from rfl,
        show ((0x3F : Nat) == 0x3F) = true from rfl, show ((0x3D : Nat) == 0x3C) = false from rfl,
        show ((0x21 : Nat) == 0x3C) = false from rfl, show ((0x3C : Nat) == 0x3C) = true from rfl,
        show ((0x3D : Nat) == 0x21) = false from rfl, show ((0x21 : Nat) == 0x21) = true from rfl,
        Bool.false_eq_true, if_false, if_true]
      rw [hd' true]
      simp only [tryConsume, adv_input, show ((0x29 : Nat) == 0x29) = true from rfl, if_true]
      fin_atom
    · -- (?=
      have hin' : st.input = 0x28 :: 0x3F :: 0x3D :: (pr .disj n ++ 0x29 :: rest) := by
        rw [hin]; simp [pr, lookOpen]
      simp only [tryConsumeStr, hin', stripPrefix?, show ((0x28 : Nat) == 0x28) = true from rfl,
        show ((0x3F : Nat) == 0x3F) = true from rfl, show ((0x3D : Nat) == 0x3D) = true from rfl, if_true]
      have := hd' st.hasLookbehind
      rw [show ({ st with input := pr .disj n ++ 0x29 :: rest, hasLookbehind := st.hasLookbehind } : PState) =
        { st with input := pr .disj n ++ 0x29 :: rest } from rfl] at this
      rw [this]
      simp only [tryConsume, adv_input, show ((0x29 : Nat) == 0x29) = true from rfl, if_true]
      fin_atom
    · -- (?!
      have hin' : st.input = 0x28 :: 0x3F :: 0x21 :: (pr .disj n ++ 0x29 :: rest) := by
        rw [hin]; simp [pr, lookOpen]
      simp only [tryConsumeStr, hin', stripPrefix?, show ((0x28 : Nat) == 0x28) = true from rfl,
        show ((0x3F : Nat) == 0x3F) = true from rfl, show ((0x3D : Nat) == 0x21) = false from rfl,
        show ((0x21 : Nat) == 0x21) = true from rfl, Bool.false_eq_true, if_false, if_true]
      have := hd' st.hasLookbehind
      rw [show ({ st with input := pr .disj n ++ 0x29 :: rest, hasLookbehind := st.hasLookbehind } : PState) =
        { st with input := pr .disj n ++ 0x29 :: rest } from rfl] at this
      rw [this]
      simp only [tryConsume, adv_input, show ((0x29 : Nat) == 0x29) = true from rfl, if_true]
      fin_atom

end

end Regress.RoundTrip
