import Proofs.Lemmas.SearcherSpec
/-! # Helper lemmas for C20 -/
namespace Regress.C20
open Regress.Api

variable {ctx : SearchCtx}

theorem forwardStepsFuel_done (fuel : Nat) (s : RegexSearcher) (hd : s.done = true) :
    forwardStepsFuel ctx (fuel + 1) s = some [] := by
  simp [forwardStepsFuel, RegexSearcher.next, hd]

theorem IsIter_restart (H : ForwardOK ctx) {c s e : Nat} {ms : List (Nat × Nat)} (hc : c ≤ ctx.len)
    (h : IsIter ctx c ((s, e) :: ms)) : IsIter ctx s ((s, e) :: ms) :=
  ⟨H.find_restart c s e hc h.1, h.2⟩

/-- The main induction: from a live state at `c`, the remaining steps tile `[c, len)`, lie on
boundaries, and their `Match`es are the iterator's matches from `c`. -/
theorem forward_from (H : ForwardOK ctx) : ∀ fuel c ms rp rd,
    ctx.len - c + 1 ≤ fuel → c ≤ ctx.len → ctx.isBoundary c = true → IsIter ctx c ms →
    ∃ steps, forwardStepsFuel ctx fuel
        { currentPos := c, done := false, reversePos := rp, reverseDone := rd } = some steps ∧
      tilesFrom ctx.len c steps = true ∧ onBoundaries ctx steps = true ∧ matchesOf steps = ms := by
  intro fuel
  induction fuel with
  | zero => intro c ms rp rd hf; omega
  | succ f ih =>
    intro c ms rp rd hf hc hb hit
    have hchk : ctx.findFromChecked c = .ok (ctx.findFrom c) := by
      simp [SearchCtx.findFromChecked, hb]
    cases hfind : ctx.findFrom c with
    | none =>
      have hms : ms = [] := by
        cases ms with
        | nil => rfl
        | cons m ms => have := hit.1; rw [hfind] at this; cases this
      subst hms
      by_cases hlt : c < ctx.len
      · have hf1 : f = (f - 1) + 1 := by omega
        refine ⟨[.reject c ctx.len], ?_, ?_, ?_, rfl⟩
        · rw [forwardStepsFuel]
          simp only [RegexSearcher.next, hchk, hfind, hlt, if_true, Bool.false_eq_true, if_false]
          rw [hf1, forwardStepsFuel_done _ _ rfl]
        · simp [tilesFrom]; omega
        · simp [onBoundaries, hb, H.boundary_len]
      · refine ⟨[], ?_, ?_, rfl, rfl⟩
        · rw [forwardStepsFuel]
          simp [RegexSearcher.next, hchk, hfind, hlt]
        · simp [tilesFrom]; omega
    | some m =>
      obtain ⟨s, e⟩ := m
      have hr := H.find_range c s e hc hfind
      have hbd := H.find_boundary c s e hc hfind
      by_cases hlt : c < s
      · -- Reject(c, s), then continue at s
        have hit' : IsIter ctx s ms := by
          cases ms with
          | nil => have := hit; unfold IsIter at this; rw [hfind] at this; cases this
          | cons m ms =>
            have h1 := hit.1; rw [hfind] at h1; cases h1
            exact IsIter_restart H hc hit
        obtain ⟨steps, h1, h2, h3, h4⟩ := ih s ms rp rd (by omega) (by omega) hbd.1 hit'
        refine ⟨.reject c s :: steps, ?_, ?_, ?_, ?_⟩
        · rw [forwardStepsFuel]
          simp only [RegexSearcher.next, hchk, hfind, hlt, if_true, Bool.false_eq_true, if_false]
          rw [h1]
        · simp [tilesFrom, h2]; omega
        · simp [onBoundaries, hb, hbd.1, h3]
        · simpa [matchesOf] using h4
      · -- Match(s, e) with s = c, then continue at e
        have hcs : s = c := by omega
        subst hcs
        have hne : (s == e) = false := by simp; omega
        cases ms with
        | nil => have := hit; unfold IsIter at this; rw [hfind] at this; cases this
        | cons m ms =>
          have h1 := hit.1; rw [hfind] at h1; cases h1
          have hit' : IsIter ctx e ms := hit.2
          obtain ⟨steps, h1, h2, h3, h4⟩ := ih e ms rp rd (by omega) (by omega) hbd.2 hit'
          refine ⟨.match s e :: steps, ?_, ?_, ?_, ?_⟩
          · rw [forwardStepsFuel]
            simp only [RegexSearcher.next, hchk, hfind, hlt, if_false, Bool.false_eq_true, hne]
            rw [h1]
          · simp [tilesFrom, h2]; omega
          · simp [onBoundaries, hbd.1, hbd.2, h3]
          · simp [matchesOf, h4]

end Regress.C20
