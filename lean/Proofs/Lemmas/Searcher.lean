import Proofs.Lemmas.SearcherSpec
/-! # Helper lemmas for C20 -/
namespace Regress.C20
open Regress.Api

variable {ctx : SearchCtx}

/-! ## Internal vocabulary -/

/-- `Run ctx s steps s'`: calling `forward_step` repeatedly on `s` returns the non-`Done` steps
`steps` and then `Done`, leaving the searcher in state `s'`. -/
inductive Run (ctx : SearchCtx) : RegexSearcher → List SearchStep → RegexSearcher → Prop
  | done {s s' : RegexSearcher} : s.forwardStep ctx = .ok (.done, s') → Run ctx s [] s'
  | step {s s1 s' : RegexSearcher} {st : SearchStep} {l : List SearchStep} :
      s.forwardStep ctx = .ok (st, s1) → st ≠ .done → Run ctx s1 l s' → Run ctx s (st :: l) s'

/-- The invariant of a searcher that has only been driven from the front. -/
structure FwdInv (ctx : SearchCtx) (s : RegexSearcher) : Prop where
  rem : s.remaining = none
  r_le : s.reportedPos ≤ ctx.len
  r_bd : ctx.isBoundary s.reportedPos = true
  sp : ∀ c, s.searchPos = some c → s.reportedPos ≤ c ∧ c ≤ ctx.len ∧ ctx.isBoundary c = true

/-- Bound on the number of `forward_step` calls until (and including) the one returning `Done`. -/
def fwdMeasure (ctx : SearchCtx) (s : RegexSearcher) : Nat :=
  match s.searchPos with
  | some c => (ctx.len - s.reportedPos) + (ctx.len - c) + 2
  | none => (ctx.len - s.reportedPos) + 1

/-! ## Lists of steps -/

theorem matchesOf_append (a b : List SearchStep) : matchesOf (a ++ b) = matchesOf a ++ matchesOf b := by
  induction a with
  | nil => rfl
  | cons x a ih => cases x <;> simp [matchesOf, ih]

theorem matchesOf_reverse (a : List SearchStep) : matchesOf a.reverse = (matchesOf a).reverse := by
  induction a with
  | nil => rfl
  | cons x a ih => cases x <;> simp [matchesOf, matchesOf_append, ih]

theorem firstMatch_eq_head (a : List SearchStep) : firstMatch a = (matchesOf a).head? := by
  induction a with
  | nil => rfl
  | cons x a ih => cases x <;> simp [matchesOf, firstMatch, ih]

theorem tilesFrom_no_done {len c : Nat} {l : List SearchStep} (h : tilesFrom len c l = true) :
    ∀ x ∈ l, x ≠ SearchStep.done := by
  induction l generalizing c with
  | nil => simp
  | cons x l ih =>
    cases x with
    | «match» s e =>
      simp only [tilesFrom, Bool.and_eq_true] at h
      intro y hy
      cases List.mem_cons.1 hy with
      | inl h1 => subst h1; simp
      | inr h1 => exact ih h.2 y h1
    | reject s e =>
      simp only [tilesFrom, Bool.and_eq_true] at h
      intro y hy
      cases List.mem_cons.1 hy with
      | inl h1 => subst h1; simp
      | inr h1 => exact ih h.2 y h1
    | done => simp [tilesFrom] at h

/-! ## The iterator specification is functional -/

theorem IsIterO_unique : ∀ (cur : Option Nat) (a b : List (Nat × Nat)),
    IsIterO ctx cur a → IsIterO ctx cur b → a = b := by
  intro cur a
  induction a generalizing cur with
  | nil =>
    intro b ha hb
    cases b with
    | nil => rfl
    | cons m b =>
      cases cur with
      | none => exact hb.elim
      | some c => simp only [IsIterO] at ha hb; rw [ha] at hb; cases hb.1
  | cons m a ih =>
    intro b ha hb
    cases cur with
    | none => exact ha.elim
    | some c =>
      cases b with
      | nil => simp only [IsIterO] at ha hb; rw [hb] at ha; cases ha.1
      | cons m' b =>
        simp only [IsIterO] at ha hb
        have hm : m = m' := by have := ha.1; rw [hb.1] at this; cases this; rfl
        subst hm
        rw [ih _ b ha.2 hb.2]

/-- Restart consistency lifts to the iterator. -/
theorem IsIterO_restart (H : CtxOK ctx) {c s e : Nat} {ms : List (Nat × Nat)}
    (hc : c ≤ ctx.len) (hb : ctx.isBoundary c = true) (hf : ctx.findFrom c = some (s, e))
    (h : IsIterO ctx (some s) ms) : IsIterO ctx (some c) ms := by
  have hr := H.find_restart c s e hc hb hf
  cases ms with
  | nil => simp only [IsIterO] at h; rw [h] at hr; cases hr
  | cons m ms =>
    simp only [IsIterO] at h ⊢
    have : m = (s, e) := by have := h.1; rw [hr] at this; cases this; rfl
    subst this
    exact ⟨hf, h.2⟩

/-! ## `forward_step` -/

theorem findFromChecked_ok {c : Nat} (hb : ctx.isBoundary c = true) :
    ctx.findFromChecked c = .ok (ctx.findFrom c) := by
  simp [SearchCtx.findFromChecked, hb]

theorem sliceCharsNext_ok {e : Nat} (hle : e ≤ ctx.len) (hb : ctx.isBoundary e = true) :
    ctx.sliceCharsNext e = .ok (ctx.nextBoundary e) := by
  simp [SearchCtx.sliceCharsNext, hb, hle]

/-- The possible outcomes of `forward_step`. -/
theorem forwardStep_cases (ctx : SearchCtx) (s : RegexSearcher) :
    (∃ err, s.forwardStep ctx = .error err) ∨
    (s.forwardStep ctx = .ok (.done, { s with searchPos := none }) ∧ ¬ s.reportedPos < ctx.len) ∨
    (∃ st s', s.forwardStep ctx = .ok (st, s') ∧ st ≠ .done ∧ s'.remaining = s.remaining) := by
  have noMatch : ∀ x : SearchStep × RegexSearcher,
      x = (if s.reportedPos < ctx.len then
            (SearchStep.reject s.reportedPos ctx.len,
              ({ reportedPos := ctx.len, searchPos := none, remaining := s.remaining } : RegexSearcher))
          else (SearchStep.done, { s with searchPos := none })) →
      (x = (SearchStep.done, { s with searchPos := none }) ∧ ¬ s.reportedPos < ctx.len) ∨
      (∃ st s', x = (st, s') ∧ st ≠ SearchStep.done ∧ s'.remaining = s.remaining) := by
    intro x hx
    by_cases hlt : s.reportedPos < ctx.len
    · rw [if_pos hlt] at hx; subst hx; exact .inr ⟨_, _, rfl, by simp, rfl⟩
    · rw [if_neg hlt] at hx; subst hx; exact .inl ⟨rfl, hlt⟩
  have hdef : s.forwardStep ctx =
      match (match s.searchPos with
             | none => Except.ok none
             | some pos => ctx.findFromChecked pos) with
      | .error err => .error err
      | .ok none =>
        (if s.reportedPos < ctx.len then
          .ok (SearchStep.reject s.reportedPos ctx.len,
              ({ reportedPos := ctx.len, searchPos := none, remaining := s.remaining } : RegexSearcher))
        else .ok (SearchStep.done, { s with searchPos := none }))
      | .ok (some (mStart, mEnd)) =>
        if s.reportedPos < mStart then
          .ok (.reject s.reportedPos mStart, { s with reportedPos := mStart, searchPos := some mStart })
        else if mStart != mEnd then
          .ok (.match mStart mEnd, { s with reportedPos := mEnd, searchPos := some mEnd })
        else
          match ctx.sliceCharsNext mEnd with
          | .error err => .error err
          | .ok sp => .ok (.match mStart mEnd, { s with reportedPos := mEnd, searchPos := sp }) := rfl
  have noMatch : (if s.reportedPos < ctx.len then
          (Except.ok (SearchStep.reject s.reportedPos ctx.len,
              ({ reportedPos := ctx.len, searchPos := none, remaining := s.remaining } : RegexSearcher)) :
            Except SearchError (SearchStep × RegexSearcher))
        else .ok (SearchStep.done, { s with searchPos := none })) = s.forwardStep ctx →
      (s.forwardStep ctx = .ok (.done, { s with searchPos := none }) ∧ ¬ s.reportedPos < ctx.len) ∨
      (∃ st s', s.forwardStep ctx = .ok (st, s') ∧ st ≠ .done ∧ s'.remaining = s.remaining) := by
    intro hx
    by_cases hlt : s.reportedPos < ctx.len
    · rw [if_pos hlt] at hx; exact .inr ⟨_, _, hx.symm, by simp, rfl⟩
    · rw [if_neg hlt] at hx; exact .inl ⟨hx.symm, hlt⟩
  cases hsp : s.searchPos with
  | none => right; apply noMatch; rw [hdef, hsp]
  | some c =>
    cases hf : ctx.findFromChecked c with
    | error e => exact .inl ⟨e, by rw [hdef, hsp]; simp only [hf]⟩
    | ok o =>
      cases o with
      | none => right; apply noMatch; rw [hdef, hsp]; simp only [hf]
      | some m =>
        obtain ⟨a, b⟩ := m
        rw [hdef, hsp]; simp only [hf]
        by_cases h1 : s.reportedPos < a
        · rw [if_pos h1]; exact .inr (.inr ⟨_, _, rfl, by simp, rfl⟩)
        · rw [if_neg h1]
          by_cases h2 : (a != b) = true
          · rw [if_pos h2]; exact .inr (.inr ⟨_, _, rfl, by simp, rfl⟩)
          · rw [if_neg h2]
            cases ctx.sliceCharsNext b with
            | error e => exact .inl ⟨e, rfl⟩
            | ok sp => exact .inr (.inr ⟨_, _, rfl, by simp, rfl⟩)

/-- Once `forward_step` has returned `Done` it keeps returning `Done` without changing the state. -/
theorem forwardStep_done_again {s s' : RegexSearcher} (h : s.forwardStep ctx = .ok (.done, s')) :
    s'.forwardStep ctx = .ok (.done, s') ∧ s'.remaining = s.remaining := by
  rcases forwardStep_cases ctx s with ⟨e, he⟩ | ⟨hd, hlt⟩ | ⟨st, s1, hs, hne, _⟩
  · rw [he] at h; cases h
  · rw [hd] at h; cases h
    simp [RegexSearcher.forwardStep, hlt]
  · rw [hs] at h; cases h; exact (hne rfl).elim

theorem forwardStep_remaining {s s' : RegexSearcher} {st : SearchStep}
    (h : s.forwardStep ctx = .ok (st, s')) : s'.remaining = s.remaining := by
  rcases forwardStep_cases ctx s with ⟨e, he⟩ | ⟨hd, hlt⟩ | ⟨st, s1, hs, hne, hr⟩
  · rw [he] at h; cases h
  · rw [hd] at h; cases h; rfl
  · rw [hs] at h; cases h; exact hr

theorem Run.deterministic {s s1 s2 : RegexSearcher} {l1 l2 : List SearchStep}
    (h1 : Run ctx s l1 s1) (h2 : Run ctx s l2 s2) : l1 = l2 ∧ s1 = s2 := by
  induction h1 generalizing l2 s2 with
  | done hd =>
    cases h2 with
    | done hd' => rw [hd] at hd'; cases hd'; exact ⟨rfl, rfl⟩
    | step hs hne _ => rw [hd] at hs; cases hs; exact (hne rfl).elim
  | step hs hne _ ih =>
    cases h2 with
    | done hd' => rw [hs] at hd'; cases hd'; exact (hne rfl).elim
    | step hs' _ hr' =>
      rw [hs] at hs'; cases hs'
      obtain ⟨h3, h4⟩ := ih hr'
      exact ⟨by rw [h3], h4⟩

theorem Run.remaining {s s' : RegexSearcher} {l : List SearchStep} (h : Run ctx s l s') :
    s'.remaining = s.remaining := by
  induction h with
  | done hd => exact forwardStep_remaining hd
  | step hs _ _ ih => rw [ih, forwardStep_remaining hs]

theorem Run.no_done {s s' : RegexSearcher} {l : List SearchStep} (h : Run ctx s l s') :
    ∀ x ∈ l, x ≠ SearchStep.done := by
  induction h with
  | done _ => simp
  | step _ hne _ ih =>
    intro x hx
    cases List.mem_cons.1 hx with
    | inl h1 => subst h1; exact hne
    | inr h1 => exact ih x h1

/-- After the final `Done` the searcher stays put. -/
theorem Run.final {s s' : RegexSearcher} {l : List SearchStep} (h : Run ctx s l s') :
    Run ctx s' [] s' := by
  induction h with
  | done hd => exact Run.done (forwardStep_done_again hd).1
  | step _ _ _ ih => exact ih

/-- The main induction: from a state satisfying `FwdInv`, the remaining forward steps exist (no panic,
at most `fwdMeasure - 1` of them), tile `[reported_pos, len)`, lie on boundaries, and their `Match`es
are the iterator's matches from the cursor `search_pos`. -/
theorem run_exists (H : CtxOK ctx) : ∀ n r sp, fwdMeasure ctx ⟨r, sp, none⟩ ≤ n →
    FwdInv ctx ⟨r, sp, none⟩ →
    ∃ steps s', Run ctx ⟨r, sp, none⟩ steps s' ∧ steps.length + 1 ≤ fwdMeasure ctx ⟨r, sp, none⟩ ∧
      tilesFrom ctx.len r steps = true ∧ onBoundaries ctx steps = true ∧
      IsIterO ctx sp (matchesOf steps) := by
  intro n
  induction n with
  | zero => intro r sp hn; cases sp <;> simp [fwdMeasure] at hn
  | succ n ih =>
    intro r sp hn inv
    have hrle : r ≤ ctx.len := inv.r_le
    have hrbd : ctx.isBoundary r = true := inv.r_bd
    -- the "no more matches" branch, shared by `search_pos = None` and `find_from = None`
    have noMatch : ∀ sp', (RegexSearcher.forwardStep ctx ⟨r, sp', none⟩ =
          if r < ctx.len then .ok (.reject r ctx.len, ⟨ctx.len, none, none⟩)
          else .ok (.done, ⟨r, none, none⟩)) →
        ∃ steps s', Run ctx ⟨r, sp', none⟩ steps s' ∧ steps.length + 1 ≤ (ctx.len - r) + 1 ∧
          tilesFrom ctx.len r steps = true ∧ onBoundaries ctx steps = true ∧ matchesOf steps = [] := by
      intro sp' hstep
      by_cases hlt : r < ctx.len
      · rw [if_pos hlt] at hstep
        refine ⟨[.reject r ctx.len], ⟨ctx.len, none, none⟩, ?_, ?_, ?_, ?_, rfl⟩
        · refine Run.step hstep (by simp) (Run.done ?_)
          simp [RegexSearcher.forwardStep]
        · simp; omega
        · simp [tilesFrom, hlt]
        · simp [onBoundaries, hrbd, H.boundary_len]
      · rw [if_neg hlt] at hstep
        refine ⟨[], ⟨r, none, none⟩, Run.done hstep, by simp, ?_, rfl, rfl⟩
        simp [tilesFrom]; omega
    cases sp with
    | none =>
      obtain ⟨steps, s', h1, h2, h3, h4, h5⟩ := noMatch none (by simp [RegexSearcher.forwardStep])
      refine ⟨steps, s', h1, ?_, h3, h4, ?_⟩
      · simpa [fwdMeasure] using h2
      · rw [h5]; trivial
    | some c =>
      have hsp3 : r ≤ c ∧ c ≤ ctx.len ∧ ctx.isBoundary c = true := inv.sp c rfl
      obtain ⟨hrc, hcle, hcbd⟩ := hsp3
      have hchk := findFromChecked_ok (ctx := ctx) hcbd
      cases hfind : ctx.findFrom c with
      | none =>
        obtain ⟨steps, s', h1, h2, h3, h4, h5⟩ := noMatch (some c)
          (by simp [RegexSearcher.forwardStep, hchk, hfind])
        refine ⟨steps, s', h1, ?_, h3, h4, ?_⟩
        · simp only [fwdMeasure]; omega
        · rw [h5]; exact hfind
      | some m =>
        obtain ⟨ms, me⟩ := m
        obtain ⟨h_cs, h_se, h_el⟩ := H.find_range c ms me hcle hcbd hfind
        obtain ⟨hsbd, hebd⟩ := H.find_boundary c ms me hcle hcbd hfind
        simp only [fwdMeasure] at hn
        by_cases hlt : r < ms
        · -- Reject(r, ms); the match is found again from `ms`
          have hstep : RegexSearcher.forwardStep ctx ⟨r, some c, none⟩ =
              .ok (.reject r ms, ⟨ms, some ms, none⟩) := by
            simp [RegexSearcher.forwardStep, hchk, hfind, hlt]
          have inv' : FwdInv ctx ⟨ms, some ms, none⟩ :=
            ⟨rfl, by simp; omega, hsbd, by intro c' hc'; cases hc'; exact ⟨Nat.le_refl _, by omega, hsbd⟩⟩
          obtain ⟨steps, s', h1, h2, h3, h4, h5⟩ := ih ms (some ms) (by simp only [fwdMeasure]; omega) inv'
          refine ⟨.reject r ms :: steps, s', Run.step hstep (by simp) h1, ?_, ?_, ?_, ?_⟩
          · simp only [fwdMeasure] at h2 ⊢; simp only [List.length_cons]; omega
          · simp [tilesFrom, hlt, h3]
          · simp [onBoundaries, hrbd, hsbd, h4]
          · simp only [matchesOf]
            exact IsIterO_restart H hcle hcbd hfind h5
        · -- Match(ms, me) with ms = c = r
          have hms : ms = r := by omega
          have hcr : ms = c := by omega
          subst hms; subst hcr
          by_cases hne : ms = me
          · -- empty match: resume one char further on
            subst hne
            have hstep : RegexSearcher.forwardStep ctx ⟨ms, some ms, none⟩ =
                .ok (.match ms ms, ⟨ms, ctx.nextBoundary ms, none⟩) := by
              simp [RegexSearcher.forwardStep, hchk, hfind, sliceCharsNext_ok hrle hrbd]
            have inv' : FwdInv ctx ⟨ms, ctx.nextBoundary ms, none⟩ :=
              ⟨rfl, hrle, hrbd, by
                intro q hq
                obtain ⟨h1, h2, h3⟩ := H.next_boundary ms q hrle hrbd hq
                exact ⟨Nat.le_of_lt h1, h2, h3⟩⟩
            have hmeas : fwdMeasure ctx ⟨ms, ctx.nextBoundary ms, none⟩ + 1 ≤
                fwdMeasure ctx ⟨ms, some ms, none⟩ := by
              cases hq : ctx.nextBoundary ms with
              | none => simp only [fwdMeasure]; omega
              | some q =>
                obtain ⟨h1, h2, _⟩ := H.next_boundary ms q hrle hrbd hq
                simp only [fwdMeasure]; omega
            have hmeas0 : fwdMeasure ctx ⟨ms, some ms, none⟩ ≤ n + 1 := by
              simp only [fwdMeasure]; omega
            obtain ⟨steps, s', h1, h2, h3, h4, h5⟩ := ih ms (ctx.nextBoundary ms) (by omega) inv'
            refine ⟨.match ms ms :: steps, s', Run.step hstep (by simp) h1, ?_, ?_, ?_, ?_⟩
            · simp only [List.length_cons]; omega
            · simp [tilesFrom, h3]
            · simp [onBoundaries, hrbd, h4]
            · simp only [matchesOf, IsIterO]
              exact ⟨hfind, by simpa [advance] using h5⟩
          · -- non-empty match: resume at its end
            have hstep : RegexSearcher.forwardStep ctx ⟨ms, some ms, none⟩ =
                .ok (.match ms me, ⟨me, some me, none⟩) := by
              simp [RegexSearcher.forwardStep, hchk, hfind, hne]
            have inv' : FwdInv ctx ⟨me, some me, none⟩ :=
              ⟨rfl, h_el, hebd, by intro c' hc'; cases hc'; exact ⟨Nat.le_refl _, h_el, hebd⟩⟩
            obtain ⟨steps, s', h1, h2, h3, h4, h5⟩ := ih me (some me) (by simp only [fwdMeasure]; omega) inv'
            refine ⟨.match ms me :: steps, s', Run.step hstep (by simp) h1, ?_, ?_, ?_, ?_⟩
            · simp only [fwdMeasure] at h2 ⊢; simp only [List.length_cons]; omega
            · simp [tilesFrom, h_se, h3]
            · simp [onBoundaries, hrbd, hebd, h4]
            · simp only [matchesOf, IsIterO]
              refine ⟨hfind, ?_⟩
              have : advance ctx (ms, me) = some me := by simp [advance, hne]
              rw [this]; exact h5

/-! ## The drivers in terms of `Run` -/

theorem FwdInv_new (H : CtxOK ctx) : FwdInv ctx RegexSearcher.new :=
  ⟨rfl, Nat.zero_le _, H.boundary_zero, by
    intro c hc; cases hc; exact ⟨Nat.le_refl _, Nat.zero_le _, H.boundary_zero⟩⟩

theorem fwdMeasure_new : fwdMeasure ctx RegexSearcher.new = 2 * ctx.len + 2 := by
  simp only [fwdMeasure, RegexSearcher.new]; omega

theorem next_of_remaining_none {s : RegexSearcher} (h : s.remaining = none) :
    s.next ctx = s.forwardStep ctx := by
  simp [RegexSearcher.next, h]

theorem forwardStepsFuel_of_run {s s' : RegexSearcher} {l : List SearchStep} (h : Run ctx s l s')
    (hrem : s.remaining = none) : ∀ fuel, l.length + 1 ≤ fuel → forwardStepsFuel ctx fuel s = some l := by
  induction h with
  | done hd =>
    intro fuel hf
    obtain ⟨f, rfl⟩ : ∃ f, fuel = f + 1 := ⟨fuel - 1, by omega⟩
    simp [forwardStepsFuel, next_of_remaining_none hrem, hd]
  | step hs hne _ ih =>
    intro fuel hf
    obtain ⟨f, rfl⟩ : ∃ f, fuel = f + 1 := ⟨fuel - 1, by omega⟩
    have := ih (by rw [forwardStep_remaining hs]; exact hrem) f (by simp at hf; omega)
    simp [forwardStepsFuel, next_of_remaining_none hrem, hs, hne, this]

theorem collectLoop_of_run {s s' : RegexSearcher} {l : List SearchStep} (h : Run ctx s l s') :
    ∀ fuel acc, l.length + 1 ≤ fuel → collectLoop ctx fuel s acc = .ok (acc ++ l, s') := by
  induction h with
  | done hd =>
    intro fuel acc hf
    obtain ⟨f, rfl⟩ : ∃ f, fuel = f + 1 := ⟨fuel - 1, by omega⟩
    simp [collectLoop, hd]
  | @step _ _ _ st _ hs hne _ ih =>
    intro fuel acc hf
    obtain ⟨f, rfl⟩ : ∃ f, fuel = f + 1 := ⟨fuel - 1, by omega⟩
    have := ih f (acc ++ [st]) (by simp at hf; omega)
    simp [collectLoop, hs, hne, this]

/-- More fuel does not change the result of the loop of `next_back`. -/
theorem collectLoop_fuel_mono : ∀ (fuel fuel' : Nat) (s : RegexSearcher) (acc : List SearchStep)
    (x : List SearchStep × RegexSearcher), fuel ≤ fuel' → collectLoop ctx fuel s acc = .ok x →
    collectLoop ctx fuel' s acc = .ok x := by
  intro fuel
  induction fuel with
  | zero => intro fuel' s acc x _ h; simp [collectLoop] at h
  | succ f ih =>
    intro fuel' s acc x hle h
    obtain ⟨f', rfl⟩ : ∃ f', fuel' = f' + 1 := ⟨fuel' - 1, by omega⟩
    simp only [collectLoop] at h ⊢
    cases hs : s.forwardStep ctx with
    | error e => rw [hs] at h; cases h
    | ok p =>
      obtain ⟨st, s1⟩ := p
      rw [hs] at h
      simp only at h ⊢
      by_cases hd : st = .done
      · simpa [hd] using h
      · simp only [hd, if_false] at h ⊢
        exact ih f' s1 _ x (by omega) h

/-! ## `next_back` -/

theorem nextBackFuel_some {s : RegexSearcher} {v : List SearchStep} {f fuel : Nat}
    (h : s.remaining = some (v, f)) :
    s.nextBackFuel ctx fuel =
      if f < v.length then
        .ok (v.getLast?.getD .done, { s with remaining := some (v.dropLast, f) })
      else .ok (.done, s) := by
  simp [RegexSearcher.nextBackFuel, RegexSearcher.fillRemaining, h]

/-- The first `next_back` runs the forward search to its end and stores the steps. -/
theorem nextBack_of_run {s s' : RegexSearcher} {l : List SearchStep} (hrem : s.remaining = none)
    (h : Run ctx s l s') (hlen : l.length + 1 ≤ 2 * ctx.len + 2) :
    s.nextBack ctx = RegexSearcher.nextBack ctx { s' with remaining := some (l, 0) } := by
  have hc := collectLoop_of_run h (2 * ctx.len + 2) [] hlen
  simp only [List.nil_append] at hc
  simp [RegexSearcher.nextBack, RegexSearcher.nextBackFuel, RegexSearcher.fillRemaining, hrem, hc]

theorem nextBack_some {s : RegexSearcher} {v : List SearchStep} {f : Nat}
    (h : s.remaining = some (v, f)) :
    s.nextBack ctx =
      if f < v.length then
        .ok (v.getLast?.getD .done, { s with remaining := some (v.dropLast, f) })
      else .ok (.done, s) :=
  nextBackFuel_some h

theorem next_some {s : RegexSearcher} {v : List SearchStep} {f : Nat}
    (h : s.remaining = some (v, f)) :
    s.next ctx =
      if hf : f < v.length then .ok (v[f], { s with remaining := some (v, f + 1) })
      else .ok (.done, s) := by
  by_cases hf : f < v.length <;> simp [RegexSearcher.next, h, hf]

/-- Driving a searcher whose `remaining` is `(v, 0)` backwards yields `v` reversed. -/
theorem backwardStepsFuel_some : ∀ (n : Nat) (v : List SearchStep) (s : RegexSearcher) (fuel : Nat),
    v.length = n → s.remaining = some (v, 0) → (∀ x ∈ v, x ≠ SearchStep.done) → n + 1 ≤ fuel →
    backwardStepsFuel ctx fuel s = some v.reverse := by
  intro n
  induction n with
  | zero =>
    intro v s fuel hv hs _ hf
    obtain ⟨f, rfl⟩ : ∃ f, fuel = f + 1 := ⟨fuel - 1, by omega⟩
    have : v = [] := List.length_eq_zero_iff.1 hv
    subst this
    simp [backwardStepsFuel, nextBack_some hs]
  | succ n ih =>
    intro v s fuel hv hs hnd hf
    obtain ⟨f, rfl⟩ : ∃ f, fuel = f + 1 := ⟨fuel - 1, by omega⟩
    rcases List.eq_nil_or_concat v with hnil | ⟨v', b, hvb⟩
    · subst hnil; simp at hv
    · rw [List.concat_eq_append] at hvb
      subst hvb
      have hb : b ≠ SearchStep.done := hnd b (by simp)
      have hlen : v'.length = n := by simp at hv; exact hv
      have := ih v' { s with remaining := some (v', 0) } f hlen rfl
        (fun x hx => hnd x (by simp [hx])) (by omega)
      simp [backwardStepsFuel, nextBack_some hs, hb, this]

/-! ## Interleaved calls -/

/-- The invariant of an interleaved run against the full forward step list `all`: what has been
handed out from the front, then what is still to be handed out (`mid`), then what has been handed out
from the back (reversed), make up `all`; and once a direction has returned `Done`, `mid` is empty.
* First alternative: `remaining` is `None`, nothing has been asked from the back; `mid` is what
  `forward_step` is still going to produce.
* Second alternative: `remaining` is `Some((v, f))`; `mid` is `v[f..]`. -/
def Inter (ctx : SearchCtx) (all : List SearchStep) (r : RunResult) (mid : List SearchStep) : Prop :=
  (∃ s', r.state.remaining = none ∧ Run ctx r.state mid s' ∧ r.backs = [] ∧ r.fronts ++ mid = all ∧
      r.backDone = false ∧ (r.frontDone = true → mid = [])) ∨
  (∃ v pre f, mid = v.drop f ∧ r.state.remaining = some (v, f) ∧ f ≤ v.length ∧
      (∀ x ∈ v, x ≠ SearchStep.done) ∧ pre ++ v ++ r.backs.reverse = all ∧ r.fronts = pre ++ v.take f ∧
      (r.frontDone = true ∨ r.backDone = true → f = v.length))

theorem Inter.fwd {all : List SearchStep} {r : RunResult} {mid : List SearchStep} {s' : RegexSearcher}
    (h1 : r.state.remaining = none) (h2 : Run ctx r.state mid s') (h3 : r.backs = [])
    (h4 : r.fronts ++ mid = all) (h5 : r.backDone = false) (h6 : r.frontDone = true → mid = []) :
    Inter ctx all r mid := .inl ⟨s', h1, h2, h3, h4, h5, h6⟩

theorem Inter.both {all : List SearchStep} {r : RunResult} {v pre : List SearchStep} {f : Nat}
    (h1 : r.state.remaining = some (v, f)) (h2 : f ≤ v.length) (h3 : ∀ x ∈ v, x ≠ SearchStep.done)
    (h4 : pre ++ v ++ r.backs.reverse = all) (h5 : r.fronts = pre ++ v.take f)
    (h6 : r.frontDone = true ∨ r.backDone = true → f = v.length) :
    Inter ctx all r (v.drop f) := .inr ⟨v, pre, f, rfl, h1, h2, h3, h4, h5, h6⟩

theorem Inter.sound {all mid : List SearchStep} {r : RunResult} (h : Inter ctx all r mid) :
    r.fronts ++ mid ++ r.backs.reverse = all ∧
      (r.frontDone = true ∨ r.backDone = true → mid = []) := by
  rcases h with ⟨s', _, _, hb, hall, hbd, hfd⟩ | ⟨v, pre, f, rfl, _, hf, _, hall, hfr, hfl⟩
  · refine ⟨by simp [hb, hall], ?_⟩
    intro h; cases h with
    | inl h => exact hfd h
    | inr h => rw [hbd] at h; cases h
  · refine ⟨?_, ?_⟩
    · rw [hfr, ← hall]; simp only [List.append_assoc]
      rw [← List.append_assoc (List.take f v), List.take_append_drop]
    · intro h; have := hfl h; simp [this]

/-- What one call does to the bookkeeping. -/
structure CallOK (r r' : RunResult) (mid mid' : List SearchStep) (op : Bool) : Prop where
  fd_mono : r.frontDone = true → r'.frontDone = true
  bd_mono : r.backDone = true → r'.backDone = true
  /-- either the call returned `Done`, or it handed out one more step -/
  progress : (if op then r'.frontDone = true else r'.backDone = true) ∨
    r'.fronts.length + r'.backs.length = r.fronts.length + r.backs.length + 1
  /-- with nothing left, the call returns `Done` -/
  nil : mid = [] → mid' = [] ∧ (if op then r'.frontDone = true else r'.backDone = true)

theorem call_both {all : List SearchStep} {r : RunResult} {v pre : List SearchStep} {f : Nat}
    (hrem : r.state.remaining = some (v, f)) (hf : f ≤ v.length)
    (hnd : ∀ x ∈ v, x ≠ SearchStep.done) (hall : pre ++ v ++ r.backs.reverse = all)
    (hfr : r.fronts = pre ++ v.take f)
    (hfl : r.frontDone = true ∨ r.backDone = true → f = v.length) (op : Bool) :
    ∃ r' mid', r.call ctx op = .ok r' ∧ Inter ctx all r' mid' ∧ CallOK r r' (v.drop f) mid' op := by
  by_cases hlt : f < v.length
  · -- there is a step left
    have hflags : r.frontDone = false ∧ r.backDone = false := by
      constructor
      · cases h : r.frontDone with
        | false => rfl
        | true => have := hfl (.inl h); omega
      · cases h : r.backDone with
        | false => rfl
        | true => have := hfl (.inr h); omega
    have hmid : v.drop f ≠ [] := by
      intro h; have := List.drop_eq_nil_iff.1 h; omega
    cases op with
    | true =>
      have hst : v[f] ≠ SearchStep.done := hnd _ (List.getElem_mem hlt)
      refine ⟨{ r with fronts := r.fronts ++ [v[f]], state := { r.state with remaining := some (v, f + 1) } },
        v.drop (f + 1), ?_, ?_, ?_⟩
      · simp [RunResult.call, next_some hrem, hlt, hst]
      · refine Inter.both (pre := pre) rfl (by omega) hnd hall ?_ ?_
        · simp only [hfr, List.append_assoc]
          rw [← List.take_concat_get hlt, List.concat_eq_append]
        · intro h; simp only [hflags.1, hflags.2] at h; simp at h
      · refine ⟨fun h => h, fun h => h, .inr (by simp; omega), fun h => (hmid h).elim⟩
    | false =>
      rcases List.eq_nil_or_concat v with hnil | ⟨v', b, hvb⟩
      · subst hnil; simp at hlt
      · rw [List.concat_eq_append] at hvb
        subst hvb
        have hb : b ≠ SearchStep.done := hnd b (by simp)
        have hf' : f ≤ v'.length := by simp at hlt; omega
        have hlt' : f < v'.length + 1 := by omega
        refine ⟨{ r with backs := r.backs ++ [b], state := { r.state with remaining := some (v', f) } },
          v'.drop f, ?_, ?_, ?_⟩
        · simp [RunResult.call, nextBack_some hrem, hlt', hb]
        · refine Inter.both (pre := pre) rfl hf' (fun x hx => hnd x (by simp [hx])) ?_ ?_ ?_
          · rw [← hall]; simp [List.append_assoc]
          · rw [hfr, List.take_append_of_le_length hf']
          · intro h; simp only [hflags.1, hflags.2] at h; simp at h
        · refine ⟨fun h => h, fun h => h, .inr (by simp; omega), fun h => (hmid h).elim⟩
  · -- exhausted: both directions return `Done`
    have hfe : f = v.length := by omega
    have hmid : v.drop f = [] := List.drop_eq_nil_iff.2 (by omega)
    cases op with
    | true =>
      refine ⟨{ r with frontDone := true }, v.drop f, ?_, ?_, ?_⟩
      · simp [RunResult.call, next_some hrem, hlt]
      · exact Inter.both (pre := pre) hrem hf hnd hall hfr (fun _ => hfe)
      · exact ⟨fun _ => rfl, fun h => h, .inl rfl, fun _ => ⟨hmid, rfl⟩⟩
    | false =>
      refine ⟨{ r with backDone := true }, v.drop f, ?_, ?_, ?_⟩
      · simp [RunResult.call, nextBack_some hrem, hlt]
      · exact Inter.both (pre := pre) hrem hf hnd hall hfr (fun _ => hfe)
      · exact ⟨fun h => h, fun _ => rfl, .inl rfl, fun _ => ⟨hmid, rfl⟩⟩

/-- One call preserves the invariant. -/
theorem call_inter {all mid : List SearchStep} {r : RunResult} (hall : all.length + 1 ≤ 2 * ctx.len + 2)
    (h : Inter ctx all r mid) (op : Bool) :
    ∃ r' mid', r.call ctx op = .ok r' ∧ Inter ctx all r' mid' ∧ CallOK r r' mid mid' op := by
  rcases h with ⟨s', hrem, hrun, hb, hfm, hbd, hfd⟩ | ⟨v, pre, f, rfl, hrem, hf, hnd, hall', hfr, hfl⟩
  · cases op with
    | false =>
      -- the first `next_back`: run the forward search to its end, then pop
      have hlen : mid.length + 1 ≤ 2 * ctx.len + 2 := by
        rw [← hfm] at hall; simp at hall; omega
      let r0 : RunResult := { r with state := { s' with remaining := some (mid, 0) } }
      have hcall : r.call ctx false = r0.call ctx false := by
        simp only [RunResult.call, r0, nextBack_of_run hrem hrun hlen]
        rfl
      have := call_both (ctx := ctx) (all := all) (r := r0) (v := mid) (pre := r.fronts) (f := 0) rfl
        (Nat.zero_le _) hrun.no_done (by simp [r0, hb, hfm]) (by simp [r0])
        (by
          intro h
          cases h with
          | inl h => simp [hfd h]
          | inr h => simp only [r0, hbd] at h; cases h) false
      obtain ⟨r', mid', h1, h2, h3⟩ := this
      exact ⟨r', mid', by rw [hcall]; exact h1, h2, ⟨h3.fd_mono, h3.bd_mono, h3.progress, h3.nil⟩⟩
    | true =>
      cases hrun with
      | done hd =>
        refine ⟨{ r with frontDone := true, state := s' }, [], ?_, ?_, ?_⟩
        · simp [RunResult.call, next_of_remaining_none hrem, hd]
        · exact Inter.fwd (s' := s') (by simp [forwardStep_remaining hd, hrem])
            (Run.done (forwardStep_done_again hd).1) hb hfm hbd (fun _ => rfl)
        · exact ⟨fun _ => rfl, fun h => h, .inl rfl, fun _ => ⟨rfl, rfl⟩⟩
      | @step _ s1 _ st l hs hne hrun' =>
        refine ⟨{ r with fronts := r.fronts ++ [st], state := s1 }, l, ?_, ?_, ?_⟩
        · simp [RunResult.call, next_of_remaining_none hrem, hs, hne]
        · refine Inter.fwd (s' := s') (by simp [forwardStep_remaining hs, hrem]) hrun' hb
            (by simp [← hfm]) hbd ?_
          intro h; have := hfd h; cases this
        · exact ⟨fun h => h, fun h => h, .inr (by simp; omega), fun h => by cases h⟩
  · exact call_both hrem hf hnd hall' hfr hfl op

theorem runOpsFrom_finished {r : RunResult} (h : r.finished = true) (ops : List Bool) :
    runOpsFrom ctx ops r = .ok r := by
  cases ops <;> simp [runOpsFrom, h]

/-- Running a schedule in two parts. -/
theorem runOpsFrom_append (a b : List Bool) (r : RunResult) :
    runOpsFrom ctx (a ++ b) r =
      match runOpsFrom ctx a r with
      | .error err => .error err
      | .ok r' => runOpsFrom ctx b r' := by
  induction a generalizing r with
  | nil => simp [runOpsFrom]
  | cons op a ih =>
    by_cases hfin : r.finished = true
    · simp [runOpsFrom, hfin, runOpsFrom_finished hfin b]
    · cases hc : r.call ctx op with
      | error e => simp [runOpsFrom, hfin, hc]
      | ok r1 => simp [runOpsFrom, hfin, hc, ih r1]

/-- `k` calls have been made and none returned `Done` only if `k` steps have been handed out. -/
def Progress (r : RunResult) (k : Nat) : Prop :=
  r.frontDone = true ∨ r.backDone = true ∨ k ≤ r.fronts.length + r.backs.length

/-- A whole schedule preserves the invariant. -/
theorem run_inter {all : List SearchStep} (hall : all.length + 1 ≤ 2 * ctx.len + 2) :
    ∀ (ops : List Bool) (r : RunResult) (mid : List SearchStep) (k : Nat),
    Inter ctx all r mid → Progress r k →
    ∃ r' mid', runOpsFrom ctx ops r = .ok r' ∧ Inter ctx all r' mid' ∧ Progress r' (k + ops.length) ∧
      (r.frontDone = true → r'.frontDone = true) ∧ (r.backDone = true → r'.backDone = true) ∧
      (mid = [] → mid' = [] ∧ (true ∈ ops → r'.frontDone = true) ∧ (false ∈ ops → r'.backDone = true)) := by
  intro ops
  induction ops with
  | nil =>
    intro r mid k hi hp
    exact ⟨r, mid, rfl, hi, by simpa using hp, id, id, fun h => ⟨h, by simp, by simp⟩⟩
  | cons op ops ih =>
    intro r mid k hi hp
    by_cases hfin : r.finished = true
    · have hflags : r.frontDone = true ∧ r.backDone = true := by
        simpa [RunResult.finished] using hfin
      exact ⟨r, mid, by simp [runOpsFrom, hfin], hi, .inl hflags.1, id, id,
        fun h => ⟨h, fun _ => hflags.1, fun _ => hflags.2⟩⟩
    · obtain ⟨r1, mid1, hc, hi1, ok⟩ := call_inter hall hi op
      have hp1 : Progress r1 (k + 1) := by
        rcases hp with h | h | h
        · exact .inl (ok.fd_mono h)
        · exact .inr (.inl (ok.bd_mono h))
        · rcases ok.progress with h' | h'
          · cases op with
            | true => exact .inl h'
            | false => exact .inr (.inl h')
          · exact .inr (.inr (by omega))
      obtain ⟨r', mid', hrun, hi', hp', hfd, hbd, hnil⟩ := ih r1 mid1 (k + 1) hi1 hp1
      refine ⟨r', mid', by simp [runOpsFrom, hfin, hc, hrun], hi', ?_, fun h => hfd (ok.fd_mono h),
        fun h => hbd (ok.bd_mono h), ?_⟩
      · have : k + (op :: ops).length = k + 1 + ops.length := by simp; omega
        rw [this]; exact hp'
      · intro hm
        obtain ⟨hm1, hflag⟩ := ok.nil hm
        obtain ⟨hm', ht, hf⟩ := hnil hm1
        refine ⟨hm', ?_, ?_⟩
        · intro hmem
          cases op with
          | true => exact hfd hflag
          | false => exact ht (by simpa using hmem)
        · intro hmem
          cases op with
          | true => exact hf (by simpa using hmem)
          | false => exact hbd hflag

theorem Inter.mid_nil_of_progress {all mid : List SearchStep} {r : RunResult} (h : Inter ctx all r mid)
    (hp : Progress r all.length) : mid = [] := by
  obtain ⟨h1, h2⟩ := h.sound
  rcases hp with hp | hp | hp
  · exact h2 (.inl hp)
  · exact h2 (.inr hp)
  · have := congrArg List.length h1
    simp at this
    exact List.length_eq_zero_iff.1 (by omega)

theorem Inter.init {all : List SearchStep} {s' : RegexSearcher} (h : Run ctx RegexSearcher.new all s') :
    Inter ctx all RunResult.init all :=
  Inter.fwd (s' := s') rfl h rfl rfl rfl (fun h => by cases h)

/-! ## After the end -/

/-- A searcher that has nothing left to hand out. -/
def Exhausted (ctx : SearchCtx) (s : RegexSearcher) : Prop :=
  (s.remaining = none ∧ ∃ s', s.forwardStep ctx = .ok (.done, s')) ∨
  (∃ v, s.remaining = some (v, v.length))

theorem Exhausted.next {s : RegexSearcher} (h : Exhausted ctx s) :
    ∃ s', s.next ctx = .ok (.done, s') ∧ Exhausted ctx s' := by
  rcases h with ⟨hrem, s', hd⟩ | ⟨v, hv⟩
  · refine ⟨s', by rw [next_of_remaining_none hrem, hd], .inl ⟨?_, s', (forwardStep_done_again hd).1⟩⟩
    rw [forwardStep_remaining hd, hrem]
  · exact ⟨s, by simp [next_some hv], .inr ⟨v, hv⟩⟩

theorem Exhausted.nextBack {s : RegexSearcher} (h : Exhausted ctx s) :
    ∃ s', s.nextBack ctx = .ok (.done, s') ∧ Exhausted ctx s' := by
  rcases h with ⟨hrem, s', hd⟩ | ⟨v, hv⟩
  · refine ⟨{ s' with remaining := some ([], 0) }, ?_, .inr ⟨[], rfl⟩⟩
    rw [nextBack_of_run hrem (Run.done hd) (by simp), nextBack_some rfl]
    simp
  · exact ⟨s, by simp [nextBack_some hv], .inr ⟨v, hv⟩⟩

theorem Exhausted.callSteps {s : RegexSearcher} (h : Exhausted ctx s) (ops : List Bool) :
    callSteps ctx ops s = .ok (List.replicate ops.length .done) := by
  induction ops generalizing s with
  | nil => rfl
  | cons op ops ih =>
    cases op with
    | true =>
      obtain ⟨s', h1, h2⟩ := h.next
      simp [Api.callSteps, h1, ih h2, List.replicate_succ]
    | false =>
      obtain ⟨s', h1, h2⟩ := h.nextBack
      simp [Api.callSteps, h1, ih h2, List.replicate_succ]

theorem Inter.exhausted {all : List SearchStep} {r : RunResult} (h : Inter ctx all r []) :
    Exhausted ctx r.state := by
  rcases h with ⟨s', hrem, hrun, _⟩ | ⟨v, pre, f, hm, hrem, hf, _⟩
  · cases hrun with
    | done hd => exact .inl ⟨hrem, s', hd⟩
  · have := List.drop_eq_nil_iff.1 hm.symm
    have hfe : f = v.length := by omega
    subst hfe
    exact .inr ⟨v, hrem⟩

/-! ## Deciding `CtxOK` on concrete contexts -/

theorem ctxOK_of_check (h : ctxOKCheck ctx = true) : CtxOK ctx := by
  simp only [ctxOKCheck, Bool.and_eq_true, List.all_eq_true, List.mem_range, Bool.or_eq_true,
    Bool.not_eq_true'] at h
  obtain ⟨⟨h0, hl⟩, hall⟩ := h
  have key : ∀ p, p ≤ ctx.len → ctx.isBoundary p = true →
      (∀ s e, ctx.findFrom p = some (s, e) →
        p ≤ s ∧ s ≤ e ∧ e ≤ ctx.len ∧ ctx.isBoundary s = true ∧ ctx.isBoundary e = true ∧
          ctx.findFrom s = some (s, e)) ∧
      (∀ q, ctx.nextBoundary p = some q → p < q ∧ q ≤ ctx.len ∧ ctx.isBoundary q = true) := by
    intro p hp hb
    rcases hall p (by omega) with hn | ⟨h1, h2⟩
    · rw [hb] at hn; cases hn
    · constructor
      · intro s e hf
        rw [hf] at h1
        simpa [and_assoc] using h1
      · intro q hq
        rw [hq] at h2
        simpa [and_assoc] using h2
  exact
    { find_range := fun p s e hp hb hf => by
        obtain ⟨a, b, c, _⟩ := (key p hp hb).1 s e hf; exact ⟨a, b, c⟩
      find_boundary := fun p s e hp hb hf => by
        obtain ⟨_, _, _, a, b, _⟩ := (key p hp hb).1 s e hf; exact ⟨a, b⟩
      find_restart := fun p s e hp hb hf => ((key p hp hb).1 s e hf).2.2.2.2.2
      boundary_zero := h0
      boundary_len := hl
      next_boundary := fun e q he hb hq => (key e he hb).2 q hq }

end Regress.C20
