import RegressModel.Syntax.Parse
import RegressModel.IR.Sem
import Proofs.Lemmas.Parse
import Proofs.C10
import Proofs.C11
import Proofs.C12
/-!
# Totality of the parser model, part 1: postconditions and the non-recursive helpers

`Ens r Q`: the result `r` is not a panic (neither a Rust panic site nor model fuel exhaustion), and
if it is `.ok a` then `Q a`.  Every helper of the parser gets a lemma of this form; the remaining
input is always a suffix of the input (`<:+`), strictly shorter where the helper consumes.
-/
namespace Regress.Parse
open Regress Regress.IR

/-! ## `Ens` -/

/-- No panic; postcondition `Q` on success. -/
def Ens {α : Type} (r : Res α) (Q : α → Prop) : Prop :=
  match r with
  | .ok a => Q a
  | .error (.panic _) => False
  | .error _ => True

@[simp] theorem Ens_ok {α : Type} (a : α) (Q : α → Prop) : Ens (.ok a) Q ↔ Q a := Iff.rfl
@[simp] theorem Ens_syn {α : Type} (m : String) (Q : α → Prop) : Ens (synErr m) Q ↔ True := Iff.rfl
@[simp] theorem Ens_lim {α : Type} (m : String) (Q : α → Prop) : Ens (limErr m) Q ↔ True := Iff.rfl
@[simp] theorem Ens_panic {α : Type} (m : String) (Q : α → Prop) : Ens (panicAt m) Q ↔ False := Iff.rfl
@[simp] theorem Ens_esyn {α : Type} (m : String) (Q : α → Prop) :
    Ens (.error (.syntax m)) Q ↔ True := Iff.rfl
@[simp] theorem Ens_elim {α : Type} (m : String) (Q : α → Prop) :
    Ens (.error (.limit m)) Q ↔ True := Iff.rfl
@[simp] theorem Ens_epanic {α : Type} (m : String) (Q : α → Prop) :
    Ens (.error (.panic m)) Q ↔ False := Iff.rfl

theorem Ens.mono {α : Type} {r : Res α} {Q Q' : α → Prop} (h : Ens r Q) (hq : ∀ a, Q a → Q' a) :
    Ens r Q' := by
  cases r with
  | ok a => exact hq a h
  | error e => cases e <;> simp_all

/-- An error result satisfies every postcondition iff it satisfies one. -/
theorem Ens.of_error {α β : Type} {e : ParseError} {Q : α → Prop} {Q' : β → Prop}
    (h : Ens (.error e : Res α) Q) : Ens (.error e : Res β) Q' := by
  cases e <;> simp_all

theorem Ens.error_of_eq {α β : Type} {r : Res α} {e : ParseError} {Q : α → Prop} {Q' : β → Prop}
    (h : Ens r Q) (he : r = .error e) : Ens (.error e : Res β) Q' := by
  rw [he] at h; exact h.of_error

theorem Ens.ok_of_eq {α : Type} {r : Res α} {a : α} {Q : α → Prop}
    (h : Ens r Q) (he : r = .ok a) : Q a := by
  rw [he] at h; exact h

/-- `Ens` implies the plain "no panic" statement. -/
theorem Ens.not_panic {α : Type} {r : Res α} {Q : α → Prop} (h : Ens r Q) (site : String) :
    r ≠ .error (.panic site) := by
  intro he; rw [he] at h; exact h

/-! ## Suffixes and the code point bound -/

/-- All code points are `≤ 0x10FFFF`. -/
def Bnd (l : List Nat) : Prop := ∀ c ∈ l, c ≤ 0x10FFFF

/-- `r` is a proper suffix of `i`. -/
def SSuf (r i : List Nat) : Prop := r <:+ i ∧ r.length < i.length

theorem Bnd.suf {l r : List Nat} (h : Bnd l) (hs : r <:+ l) : Bnd r :=
  fun c hc => h c (hs.subset hc)

theorem Bnd.head {c : Nat} {l : List Nat} (h : Bnd (c :: l)) : c ≤ 0x10FFFF := h c (by simp)
theorem Bnd.tail {c : Nat} {l : List Nat} (h : Bnd (c :: l)) : Bnd l :=
  fun d hd => h d (by simp [hd])

theorem suf_cons {r l : List Nat} (c : Nat) (h : r <:+ l) : r <:+ c :: l :=
  h.trans (List.suffix_cons c l)

theorem SSuf.of_tail {r l : List Nat} (c : Nat) (h : r <:+ l) : SSuf r (c :: l) :=
  ⟨suf_cons c h, by have := h.length_le; simp; omega⟩

theorem SSuf.suf {r l : List Nat} (h : SSuf r l) : r <:+ l := h.1

theorem SSuf.trans_suf {a b c : List Nat} (h : SSuf a b) (h' : b <:+ c) : SSuf a c :=
  ⟨h.1.trans h', by have := h'.length_le; have := h.2; omega⟩

theorem SSuf.suf_trans {a b c : List Nat} (h : a <:+ b) (h' : SSuf b c) : SSuf a c :=
  ⟨h.trans h'.1, by have := h.length_le; have := h'.2; omega⟩

theorem SSuf.trans {a b c : List Nat} (h : SSuf a b) (h' : SSuf b c) : SSuf a c :=
  h.trans_suf h'.1

theorem SSuf.lt {r l : List Nat} (h : SSuf r l) : r.length < l.length := h.2
theorem suf_le {r l : List Nat} (h : r <:+ l) : r.length ≤ l.length := h.length_le

theorem suf_refl (l : List Nat) : l <:+ l := List.suffix_refl l

/-! ## Decimal literals, quantifiers -/

theorem decimalLoop_suf (inp : List Nat) : ∀ r k, (decimalLoop inp r k).2.2 <:+ inp := by
  induction inp with
  | nil => intro r k; simp [decimalLoop]
  | cons c rest ih =>
    intro r k
    unfold decimalLoop
    split
    · exact suf_cons c (ih _ _)
    · exact suf_refl _

theorem decimalLoop_count (inp : List Nat) : ∀ r k, k ≤ (decimalLoop inp r k).2.1 := by
  induction inp with
  | nil => intro r k; simp [decimalLoop]
  | cons c rest ih =>
    intro r k
    unfold decimalLoop
    split
    · have := ih (satMul10Add r (c - 0x30)) (k + 1); omega
    · simp

theorem decimalLiteral_suf (inp : List Nat) : (decimalLiteral inp).2 <:+ inp := by
  unfold decimalLiteral
  have := decimalLoop_suf inp 0 0
  split
  rename_i r k rest heq
  rw [heq] at this
  split <;> exact this

/-- On a leading digit the literal is `some`: the `unwrap()`s in `consume_atom_escape` are safe. -/
theorem decimalLiteral_some {c : Nat} {rest : List Nat} (h : isAsciiDigit c = true) :
    ∃ v r, decimalLiteral (c :: rest) = (some v, r) := by
  unfold decimalLiteral
  have := decimalLoop_count rest (satMul10Add 0 (c - 0x30)) 1
  simp only [decimalLoop, h, if_true]
  generalize decimalLoop rest (satMul10Add 0 (c - 48)) (0 + 1) = x at *
  obtain ⟨r, k, rest'⟩ := x
  simp only at this ⊢
  have hk : k > 0 := by omega
  simp [hk]

theorem bracedQuantifier_ens' {inp : List Nat} (h : inp ≠ []) :
    Ens (bracedQuantifier inp) (fun p => p.2 <:+ inp ∧ (p.1 = none → p.2 = inp)) := by
  fun_cases bracedQuantifier inp
  · exact absurd rfl h
  · simp
  · rename_i c rest mn rest1 h1 mx r h2
    have s1 := decimalLiteral_suf rest
    rw [h1] at s1
    simp only [Ens_ok, reduceCtorEq, false_implies, and_true]
    have s2 : (0x7D :: r) <:+ rest1 := by
      split at h2
      · rename_i r'
        have := decimalLiteral_suf r'
        generalize decimalLiteral r' = x at h2 this
        obtain ⟨mx', r''⟩ := x
        simp only at h2 this
        split at h2 <;> (cases h2; exact suf_cons _ this)
      · cases h2; exact suf_refl _
    exact suf_cons _ ((suf_cons _ (suf_refl r)).trans (s2.trans s1))
  · simp

theorem bracedQuantifier_ens (c : Nat) (rest : List Nat) :
    Ens (bracedQuantifier (c :: rest))
      (fun p => p.2 <:+ c :: rest ∧ (p.1 = none → p.2 = c :: rest)) :=
  bracedQuantifier_ens' (by simp)

theorem quantifierPrefix_ens (unicode : Bool) (inp : List Nat) :
    Ens (quantifierPrefix unicode inp) (fun p => p.2 <:+ inp) := by
  fun_cases quantifierPrefix unicode inp
  all_goals try simp only [*]
  all_goals try (simp; done)
  · exact (bracedQuantifier_ens _ _).error_of_eq ‹_›
  · exact ((bracedQuantifier_ens _ _).ok_of_eq ‹_›).1
  · have hx := ‹bracedQuantifier _ = _›
    have h := ((bracedQuantifier_ens _ _).ok_of_eq hx).1
    simp_all

theorem quantifier_ens (unicode : Bool) (inp : List Nat) :
    Ens (quantifier unicode inp) (fun p => p.2 <:+ inp) := by
  have hb := quantifierPrefix_ens unicode inp
  fun_cases quantifier unicode inp
  · rename_i e heq; exact hb.error_of_eq heq
  · rename_i r heq; exact hb.ok_of_eq heq
  · rename_i q r' heq
    have := hb.ok_of_eq heq
    exact (suf_cons _ (suf_refl _)).trans this
  · rename_i q r heq _
    exact hb.ok_of_eq heq
/-! ## `\u` escapes -/

theorem scanBrace_ssuf {inp acc s rest} (h : scanBrace inp acc = some (s, rest)) : SSuf rest inp := by
  induction inp generalizing acc with
  | nil => simp [scanBrace] at h
  | cons c tl ih =>
    unfold scanBrace at h
    split at h
    · cases h
    · split at h
      · cases h; exact SSuf.of_tail _ (suf_refl _)
      · exact SSuf.of_tail _ (ih h).1

theorem take4_eq {inp s rest} (h : take4 inp = some (s, rest)) :
    ∃ a b c d, inp = a :: b :: c :: d :: rest ∧ s = [a, b, c, d] := by
  unfold take4 at h
  split at h
  · split at h
    · cases h; exact ⟨_, _, _, _, rfl, rfl⟩
    · cases h
  · cases h

theorem take4_suf {inp s rest} (h : take4 inp = some (s, rest)) : rest <:+ inp := by
  obtain ⟨a, b, c, d, rfl, _⟩ := take4_eq h
  exact suf_cons _ (suf_cons _ (suf_cons _ (suf_cons _ (suf_refl _))))

theorem hexDigit?_lt {c d : Nat} (h : hexDigit? c = some d) : d < 16 := by
  unfold hexDigit? at h
  split at h
  · cases h; simp at *; omega
  · split at h
    · cases h; simp at *; omega
    · split at h
      · cases h; simp at *; omega
      · cases h

theorem hexAll_lt {l : List Nat} : ∀ {acc v : Nat}, hexAll l acc = some v → v < (acc + 1) * 16 ^ l.length := by
  induction l with
  | nil => intro acc v h; simp [hexAll] at h; subst h; simp
  | cons c rest ih =>
    intro acc v h
    unfold hexAll at h
    split at h
    · rename_i d hd
      have := ih h
      have hd := hexDigit?_lt hd
      simp only [List.length_cons, Nat.pow_succ]
      calc v < (acc * 16 + d + 1) * 16 ^ rest.length := this
        _ ≤ ((acc + 1) * 16) * 16 ^ rest.length := Nat.mul_le_mul_right _ (by omega)
        _ = (acc + 1) * (16 ^ rest.length * 16) := by rw [Nat.mul_assoc, Nat.mul_comm 16]
    · cases h

theorem fromStrRadix16_lt {s : List Nat} {v : Nat} (h : fromStrRadix16 s = some v) :
    v < 16 ^ s.length := by
  unfold fromStrRadix16 at h
  split at h
  · cases h
  · cases h
  · cases h
  · rename_i rest _
    have := hexAll_lt h
    simp only [Nat.zero_add, Nat.one_mul] at this
    simp only [List.length_cons, Nat.pow_succ]
    omega
  · have := hexAll_lt h
    simpa using this

theorem hexDigitsRadix16_lt {s : List Nat} {v : Nat} (h : hexDigitsRadix16 s = some v) :
    v < 16 ^ s.length := by
  unfold hexDigitsRadix16 at h
  split at h
  · exact fromStrRadix16_lt h
  · cases h

theorem tryEscapeUnicodeSequence_suf (inp : List Nat) :
    (tryEscapeUnicodeSequence inp).2 <:+ inp := by
  fun_cases tryEscapeUnicodeSequence inp
  all_goals try simp only [*]
  all_goals try (exact suf_refl _)
  all_goals try simp
  all_goals
    first
    | exact suf_cons _ (scanBrace_ssuf ‹scanBrace _ _ = _›).1
    | exact take4_suf ‹take4 inp = _›
    | exact (suf_cons _ (suf_cons _ (suf_refl _))).trans (take4_suf ‹take4 inp = _›)
    | exact (take4_suf ‹take4 _ = some (_, _)›).trans ((suf_cons _ (suf_cons _ (suf_refl _))).trans (take4_suf ‹take4 inp = _›))

theorem take4_val {inp s rest : List Nat} {u : Nat} (h : take4 inp = some (s, rest))
    (h2 : hexDigitsRadix16 s = some u) : u < 65536 := by
  obtain ⟨a, b, c, d, _, rfl⟩ := take4_eq h
  have := hexDigitsRadix16_lt h2
  simpa using this

theorem tryEscapeUnicodeSequence_val (inp : List Nat) :
    ∀ u, (tryEscapeUnicodeSequence inp).1 = some u → u ≤ 0x10FFFF := by
  fun_cases tryEscapeUnicodeSequence inp
  all_goals try simp only [*]
  all_goals try (simp; done)
  all_goals intro u h
  all_goals try simp at h
  all_goals try subst h
  all_goals try (have h1 := take4_val ‹take4 inp = _› ‹_›)
  all_goals try (have h2 := take4_val ‹take4 _ = some (_, _)› ‹_›)
  all_goals try simp at *
  all_goals try omega

/-! ## Group names -/

theorem nameChar_ssuf {inp c rest} (h : nameChar inp = some (c, rest)) : SSuf rest inp := by
  revert h
  fun_cases nameChar inp
  all_goals try simp only [*]
  all_goals try (simp; done)
  all_goals intro h
  all_goals simp at h
  all_goals obtain ⟨_, rfl⟩ := h
  · rename_i rest2 e rest3 _ _ _
    have := tryEscapeUnicodeSequence_suf rest2
    rw [‹tryEscapeUnicodeSequence _ = _›] at this
    exact SSuf.of_tail _ (suf_cons _ this)
  · exact SSuf.of_tail _ (suf_refl _)
  · exact SSuf.of_tail _ (suf_refl _)

theorem nameLoop_ens (fuel : Nat) (inp acc orig : List Nat) (hf : inp.length < fuel)
    (hi : inp <:+ orig) : Ens (nameLoop fuel inp acc orig) (fun p => p.2 <:+ orig) := by
  induction fuel generalizing inp acc with
  | zero => omega
  | succ fuel ih =>
    unfold nameLoop
    split
    · simp
    · rename_i c0 rest0
      split
      · exact (suf_cons _ (suf_refl _)).trans hi
      · split
        · simp
        · rename_i c rest h
          have hl := nameChar_ssuf h
          split
          · exact ih rest _ (by have := hl.2; omega) (hl.1.trans hi)
          · simp

theorem tryConsumeName_ens (inp : List Nat) :
    Ens (tryConsumeName inp) (fun p => p.2 <:+ inp) := by
  unfold tryConsumeName
  split
  · rename_i orig
    split
    · exact suf_cons _ (suf_refl _)
    · rename_i c rest h
      have hl := nameChar_ssuf h
      split
      · exact (nameLoop_ens (rest.length + 1) rest [c] orig (by omega) hl.1).mono
          (fun p hp => suf_cons _ hp)
      · exact suf_cons _ (suf_refl _)
  · exact suf_refl _

/-! ## Character escapes -/

theorem hexDigit?_le {c d : Nat} (h : hexDigit? c = some d) : d ≤ 15 := by
  have := hexDigit?_lt h; omega

/-- Closes `SSuf r (c :: ... :: r)`-style goals. -/
macro "ssuf_tac" : tactic => `(tactic| first
  | exact SSuf.of_tail _ (suf_refl _)
  | exact SSuf.of_tail _ (suf_cons _ (suf_refl _))
  | exact SSuf.of_tail _ (suf_cons _ (suf_cons _ (suf_refl _)))
  | exact SSuf.of_tail _ (suf_cons _ (suf_cons _ (suf_cons _ (suf_refl _))))
  | exact SSuf.of_tail _ (List.drop_suffix _ _)
  | exact SSuf.of_tail _ (List.nil_suffix))

theorem characterEscape_ens (unicode hasNamed : Bool) (c0 : Nat) (rest0 : List Nat)
    (hb : Bnd (c0 :: rest0)) :
    Ens (characterEscape unicode hasNamed (c0 :: rest0)) (fun p => SSuf p.2 (c0 :: rest0) ∧ p.1 ≤ 0x10FFFF) := by
  have hc0 := hb.head
  generalize hinp : c0 :: rest0 = inp
  fun_cases characterEscape unicode hasNamed inp
  all_goals try simp only [*]
  all_goals try (simp; done)
  all_goals cases hinp
  all_goals try simp only [Ens_ok]
  all_goals try (refine ⟨SSuf.of_tail _ (suf_refl _), by omega⟩)
  -- \c
  · exact ⟨by ssuf_tac, by omega⟩
  -- \x
  · refine ⟨by ssuf_tac, ?_⟩
    rename_i a b _ _ _ _ _ _ _ x1 x2 hx2 hx1 _
    have ha : a ≤ 15 := by
      simp only [x1] at hx1; split at hx1
      · exact hexDigit?_le hx1
      · cases hx1
    have hb' : b ≤ 15 := by
      simp only [x2] at hx2; split at hx2
      · exact hexDigit?_le hx2
      · cases hx2
    omega
  -- \u
  · have h1 := tryEscapeUnicodeSequence_suf rest0
    have h2 := tryEscapeUnicodeSequence_val rest0
    rw [‹tryEscapeUnicodeSequence _ = _›] at h1 h2
    exact ⟨SSuf.of_tail _ h1, h2 _ rfl⟩
  · have h1 := tryEscapeUnicodeSequence_suf rest0
    rw [‹tryEscapeUnicodeSequence _ = _›] at h1
    exact ⟨SSuf.of_tail _ h1, hc0⟩
  -- octal
  all_goals simp [isOctalDigit] at *
  all_goals try (refine ⟨by ssuf_tac, by omega⟩)
  omega

open Regress Regress.IR

/-! ## What the parser guarantees of the nodes it builds -/

/-- `min ≤ max`. -/
def QuantOk (q : Quant) : Prop := ∀ m, q.max = some m → q.min ≤ m

mutual
/-- The invariant of parser-built IR: no `ByteSequence`/`ByteSet`/`Loop1CharBody`; a `CharSet` has
2..4 members; brackets are well-formed code point sets; quantifiers have `min ≤ max`; the group
ranges recorded in loops and lookarounds are exactly the capture groups of their contents. -/
def POut : Node → Prop
  | .cat ns => POutList ns
  | .alt l r => POut l ∧ POut r
  | .group _ _ c => POut c
  | .look _ _ sg eg c => POut c ∧ eg = sg + numGroups c
  | .loop b q g0 g1 => POut b ∧ QuantOk q ∧ g1 = g0 + numGroups b
  | .loop1 _ _ => False
  | .byteSeq _ => False
  | .byteSet _ => False
  | .charSet cs => 2 ≤ cs.length ∧ cs.length ≤ 4
  | .bracket bc => CPS.WF (bc.ivs.map fun iv => { first := iv.1, last := iv.2 })
  | _ => True
def POutList : List Node → Prop
  | [] => True
  | n :: ns => POut n ∧ POutList ns
end

theorem POutList_append (xs ys : List Node) : POutList (xs ++ ys) ↔ POutList xs ∧ POutList ys := by
  induction xs with
  | nil => simp [POutList]
  | cons x xs ih => simp [POutList, ih, and_assoc]

theorem numGroupsList_append (xs ys : List Node) :
    numGroupsList (xs ++ ys) = numGroupsList xs + numGroupsList ys := by
  induction xs with
  | nil => simp [numGroupsList]
  | cons x xs ih => simp [numGroupsList, ih, Nat.add_assoc]

theorem POutList_take {xs : List Node} (k : Nat) (h : POutList xs) : POutList (xs.take k) := by
  induction xs generalizing k with
  | nil => simpa using h
  | cons x xs ih =>
    cases k with
    | zero => simp [POutList]
    | succ k => simp only [List.take_succ_cons, POutList] at *; exact ⟨h.1, ih k h.2⟩

theorem POutList_drop {xs : List Node} (k : Nat) (h : POutList xs) : POutList (xs.drop k) := by
  induction xs generalizing k with
  | nil => simpa using h
  | cons x xs ih =>
    cases k with
    | zero => simpa using h
    | succ k => simp only [List.drop_succ_cons]; exact ih k h.2

theorem numGroupsList_take_drop (xs : List Node) (k : Nat) :
    numGroupsList (xs.take k) + numGroupsList (xs.drop k) = numGroupsList xs := by
  rw [← numGroupsList_append, List.take_append_drop]

/-- A node that is a leaf for the purposes of the descent: `POut`, no capture group. -/
def Leaf (n : Node) : Prop := POut n ∧ numGroups n = 0

theorem makeCat_POut {ns : List Node} (h : POutList ns) : POut (makeCat ns) := by
  unfold makeCat
  split
  · simp [POut]
  · exact h.1
  · simpa [POut] using h

theorem makeCat_numGroups (ns : List Node) : numGroups (makeCat ns) = numGroupsList ns := by
  unfold makeCat
  split <;> simp [numGroups, numGroupsList]

theorem makeAltFuel_POut (fuel : Nat) (ns : List Node) (h : POutList ns) :
    POut (makeAltFuel fuel ns) := by
  fun_induction makeAltFuel fuel ns
  · simp [POut]
  · exact h.1
  · simp [POut]
  · rename_i ih1 ih2
    simp only [POut]
    exact ⟨ih1 (POutList_take _ h), ih2 (POutList_drop _ h)⟩

theorem makeAlt_POut {ns : List Node} (h : POutList ns) : POut (makeAlt ns) := makeAltFuel_POut _ _ h

theorem makeAltFuel_numGroups (fuel : Nat) (ns : List Node) (h : ns.length ≤ fuel) :
    numGroups (makeAltFuel fuel ns) = numGroupsList ns := by
  fun_induction makeAltFuel fuel ns
  · simp [numGroups, numGroupsList]
  · simp [numGroupsList]
  · rename_i ns hne1 hne2
    match ns, hne1, hne2 with
    | [], h1, _ => exact absurd rfl h1
    | [x], _, h2 => exact absurd rfl (h2 x)
    | _ :: _ :: _, _, _ => simp at h
  · rename_i fuel ns hne1 hne2 hl ih1 ih2
    have hlen : 2 ≤ ns.length := by
      match ns, hne1, hne2 with
      | [], h1, _ => exact absurd rfl h1
      | [x], _, h2 => exact absurd rfl (h2 x)
      | _ :: _ :: _, _, _ => simp
    simp only [numGroups]
    rw [ih1 (by simp; omega), ih2 (by simp; omega), numGroupsList_take_drop]

theorem makeAlt_numGroups (ns : List Node) : numGroups (makeAlt ns) = numGroupsList ns :=
  makeAltFuel_numGroups _ _ (Nat.le_refl _)

/-! ## `char_node` -/

theorem mem_expand_self (c : Nat) (icase unicode : Bool) : c ∈ Fold.expandCodePoint c icase unicode := by
  cases icase
  · simp [Fold.expandCodePoint]
  · exact (C10.expand_iff c c unicode).2 rfl

/-- `char_node` never panics: the case class has 1..4 members (`C10.expand_le_4`). -/
theorem charNode_ens (fl : Flags) (c : Nat) : Ens (charNode fl c) Leaf := by
  unfold charNode
  split
  · simp [Leaf, POut, numGroups]
  · have h4 := C10.expand_le_4 c fl.icase fl.unicode
    have hm := mem_expand_self c fl.icase fl.unicode
    simp only
    split
    all_goals rename_i heq
    all_goals try (simp [Leaf, POut, numGroups, heq]; done)
    rename_i h1 h2 h3
    generalize Fold.expandCodePoint c fl.icase fl.unicode = l at *
    match l with
    | [] => simp at hm
    | [a] => exact absurd rfl (h1 a)
    | [a, b] => exact absurd rfl (h2 a b)
    | [a, b, c'] => exact absurd rfl (h3 a b c')
    | [a, b, c', d] => exact absurd rfl (heq a b c' d)
    | _ :: _ :: _ :: _ :: _ :: _ => simp [Gen.MAX_CHAR_SET_LENGTH] at h4

end Regress.Parse
