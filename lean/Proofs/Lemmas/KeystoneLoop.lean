import Proofs.Lemmas.KeystoneLoop1
/-!
# Keystone, part 5d: `Loop` (`EnterLoop` / `ResetCaptureGroup`s / body / `LoopAgain`)
-/
namespace Regress.Keystone

open Regress.VM Regress.VM.Pk Regress.IR
open Regress.VM.Bt (LoopData GroupData)

/-! ## `ResetCaptureGroup`s -/

theorem resetFrom_get (caps : List Cap) : ∀ (i g0 g1 k : Nat),
    (resetFrom caps i g0 g1)[k]? =
      (caps[k]?).map (fun c => if g0 ≤ i + k ∧ i + k < g1 then (none, none) else c) := by
  induction caps with
  | nil => intro i g0 g1 k; simp [resetFrom]
  | cons c cs ih =>
    intro i g0 g1 k
    cases k with
    | zero =>
      simp only [resetFrom, List.getElem?_cons_zero, Option.map_some, Nat.add_zero]
      by_cases h : g0 ≤ i ∧ i < g1
      · simp [h]
      · have : ¬ ((decide (g0 ≤ i) && decide (i < g1)) = true) := by simpa using h
        simp [h, this]
    | succ k =>
      simp only [resetFrom, List.getElem?_cons_succ]
      rw [ih]
      have : i + 1 + k = i + (k + 1) := by omega
      rw [this]

theorem resetFrom_succ (caps : List Cap) (g n : Nat) :
    (resetFrom caps 0 g (g + n)).modify (g + n) (fun _ => ((none, none) : Cap)) =
      resetFrom caps 0 g (g + (n + 1)) := by
  apply List.ext_getElem?
  intro k
  rw [List.getElem?_modify, resetFrom_get, resetFrom_get]
  simp only [Nat.zero_add]
  cases caps[k]? with
  | none => simp
  | some c =>
    simp only [Option.map_some]
    by_cases hk : g + n = k
    · subst hk
      simp
    · simp only [Option.map_eq_map, Option.map_some, if_neg hk]
      by_cases h1 : g ≤ k ∧ k < g + n
      · have : g ≤ k ∧ k < g + (n + 1) := ⟨h1.1, by omega⟩
        simp [h1, this]
      · have : ¬ (g ≤ k ∧ k < g + (n + 1)) := fun hh => h1 ⟨hh.1, by omega⟩
        simp [h1, this]

theorem resetFrom_range (caps : List Cap) (g0 g1 : Nat) :
    resetFrom caps 0 g0 (g0 + (g1 - g0)) = resetFrom caps 0 g0 g1 := by
  by_cases h : g0 ≤ g1
  · rw [show g0 + (g1 - g0) = g1 by omega]
  · rw [resetFrom_noop _ _ _ _ (by omega), resetFrom_noop _ _ _ _ (by omega)]

section
variable {prog : Prog} {inp : Input} {limit : Nat} {cs : List Nat}

theorem run_resets {fwd : Bool} (g : Nat) : ∀ (n : Nat) (s : State),
    (∀ i, i < n → At prog.insns (s.ip + i) (.resetCaptureGroup (g + i))) →
    ∀ (rest : Array State) (sf steps peak : Nat),
    Fine (runStates prog inp limit sf (rest.push s) fwd steps peak) →
    ∃ s' sf' steps' peak', runStates prog inp limit sf (rest.push s) fwd steps peak =
        runStates prog inp limit sf' (rest.push s') fwd steps' peak' ∧
      s'.pos = s.pos ∧ s'.ip = s.ip + n ∧ s'.loops = s.loops ∧ s'.loop1Iters = s.loop1Iters ∧
      capsOfState s' = resetFrom (capsOfState s) 0 g (g + n) := by
  intro n
  induction n with
  | zero =>
    intro s _ rest sf steps peak _
    exact ⟨s, sf, steps, peak, rfl, rfl, rfl, rfl, rfl, by rw [resetFrom_noop _ _ _ _ (by omega)]⟩
  | succ n ih =>
    intro s hat rest sf steps peak hf
    obtain ⟨s1, sf1, steps1, peak1, he1, hp1, hip1, hl1, hi1, hc1⟩ :=
      ih s (fun i hi => hat i (by omega)) rest sf steps peak hf
    rw [he1] at hf ⊢
    obtain ⟨cg, sf2, steps2, peak2, hg, he2⟩ := run_groupArm (s := s1)
      (fun look d steps peak => by
        unfold tryMatchState
        rw [show prog.insns[s1.ip]? = some (.resetCaptureGroup (g + n)) by rw [hip1]; exact hat n (by omega)]) hf
    refine ⟨_, sf2, steps2, peak2, he2, hp1, by simp [hip1]; omega, hl1, hi1, ?_⟩
    simp only [capsOfState]
    rw [caps_set hg (f := fun _ => ((none, none) : Cap)) (by simp [capOf])]
    have : s1.groups.toList.map capOf = capsOfState s1 := rfl
    rw [this, hc1, resetFrom_succ]
    rfl

/-! ## `run_loop` -/

/-- The tail of `pikevm::run_loop`, after the loop data have been updated. -/
def loopCascade (s : State) (enterOk skipOk greedy : Bool) (exit : Nat) (steps peak : Nat) : SM :=
  if !enterOk && !skipOk then .fail s steps peak
  else if !enterOk then .cont { s with ip := exit } steps peak
  else if !skipOk then .cont s steps peak
  else if greedy then .split { s with ip := exit } s steps peak
  else .split s { s with ip := exit } steps peak

theorem runLoop_initial (s : State) (id mn : Nat) (mx : Option Nat) (gr : Bool) (exit steps peak : Nat) :
    runLoop s id mn mx gr exit true steps peak =
      match s.loops[id]? with
      | none => .err "pikevm::run_loop: s.loops[loop_id] out of range"
      | some _ =>
        loopCascade { s with loops := s.loops.setIfInBounds id { iters := 0, entry := s.pos }, ip := s.ip + 1 }
          (maxPos mx) (mn == 0) gr exit steps peak := by
  unfold runLoop loopCascade
  cases s.loops[id]? <;> rfl

theorem runLoop_again (s : State) (id mn : Nat) (mx : Option Nat) (gr : Bool) (exit steps peak : Nat) :
    runLoop s id mn mx gr exit false steps peak =
      match s.loops[id]? with
      | none => .err "pikevm::run_loop: s.loops[loop_id] out of range"
      | some ld =>
        if ld.iters + 1 > mn && ld.entry == s.pos then
          .fail { s with loops := s.loops.setIfInBounds id { ld with iters := ld.iters + 1 } } steps peak
        else
          loopCascade
            { s with loops := s.loops.setIfInBounds id { iters := ld.iters + 1, entry := s.pos }, ip := s.ip + 1 }
            (Bt.ltMax (ld.iters + 1) mx) (decide (ld.iters + 1 ≥ mn)) gr exit steps peak := by
  unfold runLoop loopCascade
  cases s.loops[id]? <;> rfl

theorem maxPos_maxIters {q : Quant} (hq : quantBoundedQ q) : maxPos (maxIters q) = maxOk q 0 := by
  unfold maxIters maxOk quantBoundedQ at *
  cases hm : q.max with
  | none => rfl
  | some m =>
    rw [hm] at hq
    have : (m == USIZE_MAX) = false := by
      simp only [beq_eq_false_iff_ne, ne_eq]; omega
    simp [this, maxPos]

theorem LoopsFrame.trans_same {l k : Nat} {a b c : State} (h1 : LoopsFrame l k a b) (h2 : LoopsFrame l k b c) :
    LoopsFrame l k a c := fun j hj => by rw [h2 j hj, h1 j hj]

theorem getElem?_setIfInBounds_ne {α} (a : Array α) (i j : Nat) (v : α) (h : i ≠ j) :
    (a.setIfInBounds i v)[j]? = a[j]? := by
  rw [Array.getElem?_setIfInBounds]; simp [h]

theorem getElem?_setIfInBounds_self {α} (a : Array α) (i : Nat) (v x : α) (h : a[i]? = some x) :
    (a.setIfInBounds i v)[i]? = some v := by
  have : i < a.size := by
    rcases Nat.lt_or_ge i a.size with h1 | h1
    · exact h1
    · rw [Array.getElem?_eq_none h1] at h; cases h
  rw [Array.getElem?_setIfInBounds]; simp [this]

/-- The part of `loopIter` after the empty-iteration check (`k` is the budget of the nested calls). -/
def loopTail (body : St → List St) (q : Quant) (g0 g1 : Nat) (k iter : Nat) (st : St) : List St :=
  match maxOk q iter, decide (iter ≥ q.min) with
  | false, false => []
  | false, true => [st]
  | true, false =>
    (body (st.resetGroups g0 g1)).flatMap (loopIter body q g0 g1 k (iter + 1) st.pos)
  | true, true =>
    if q.greedy then
      (body (st.resetGroups g0 g1)).flatMap (loopIter body q g0 g1 k (iter + 1) st.pos) ++ [st]
    else
      st :: (body (st.resetGroups g0 g1)).flatMap (loopIter body q g0 g1 k (iter + 1) st.pos)

theorem loopIter_succ (body : St → List St) (q : Quant) (g0 g1 k iter entry : Nat) (st : St) :
    loopIter body q g0 g1 (k + 1) iter entry st =
      if entry == st.pos && decide (iter > q.min) then [] else loopTail body q g0 g1 k iter st := by
  rw [loopIter]; rfl

theorem not_loopIdIn_succ {l nb : Nat} (h : nb < 65536) : ¬ LoopIdIn (l + 1) nb (l % 65536) := by
  rintro ⟨x, h1, h2, h3⟩
  omega

theorem loopIdIn_self (l nb : Nat) : LoopIdIn l (nb + 1) (l % 65536) := ⟨l, by omega, by omega, rfl⟩

/-- `LoopAgain`. -/
theorem tms_loopAgain (look : Runner) (d : Nat) (t : State) (fwd : Bool) (steps peak : Nat)
    {b id mn : Nat} {mx : Option Nat} {gr : Bool} {exit : Nat}
    (h1 : prog.insns[t.ip]? = some (.loopAgain b)) (h2 : prog.insns[b]? = some (.enterLoop id mn mx gr exit)) :
    tryMatchState prog inp look (d + 1) t fwd steps peak =
      runLoop { t with ip := b } id mn mx gr exit false steps peak := by
  unfold tryMatchState
  rw [h1]
  dsimp only
  rw [h2]

theorem loop_core (ht : Utf8Text inp cs) {body : Node} {q : Quant} {g0 g1 : Nat} {fwd : Bool} {b j l : Nat}
    (hw : WF body) (hq : quantBoundedQ q) (hnl : numLoops body < 65536)
    (hResets : ∀ i, i < g1 - g0 → At prog.insns (b + 1 + i) (.resetCaptureGroup (g0 + i)))
    (hBody : Frag prog inp limit cs body fwd (b + 1 + (g1 - g0)) j (l + 1))
    (hAgain : At prog.insns j (.loopAgain b))
    (hEnter : At prog.insns b (.enterLoop (l % 65536) q.min (maxIters q) q.greedy (j + 1))) :
    ∀ (k iter : Nat) (σ : St) (s' : State), Rel σ s' → Good cs σ → s'.ip = b + 1 →
      s'.loops[l % 65536]? = some { iters := iter, entry := σ.pos } →
      (q.min - iter) + mu inp fwd σ.pos + 1 ≤ k →
      ∀ (rest : Array State) (sf steps peak : Nat),
        Fine (dispatch prog inp limit sf rest fwd
          (loopCascade s' (maxOk q iter) (decide (iter ≥ q.min)) q.greedy (j + 1) steps peak)) →
        Tries prog inp limit fwd (Out (j + 1) l (numLoops body + 1) s') rest
          (loopTail (fun x => sem inp body fwd x) q g0 g1 k iter σ)
          (dispatch prog inp limit sf rest fwd
            (loopCascade s' (maxOk q iter) (decide (iter ≥ q.min)) q.greedy (j + 1) steps peak)) := by
  intro k
  induction k with
  | zero => intro iter σ s' _ _ _ _ hb; omega
  | succ k ih =>
    intro iter σ s' hrel hgood hip hloops hb rest sf steps peak hf
    -- entering the body from `s'`
    have henter : ∀ (rest' : Array State) (sf' steps' peak' : Nat),
        Fine (runStates prog inp limit sf' (rest'.push s') fwd steps' peak') →
        Tries prog inp limit fwd (Out (j + 1) l (numLoops body + 1) s') rest'
          ((sem inp body fwd (σ.resetGroups g0 g1)).flatMap
            (loopIter (fun x => sem inp body fwd x) q g0 g1 (k + 1) (iter + 1) σ.pos))
          (runStates prog inp limit sf' (rest'.push s') fwd steps' peak') := by
      intro rest' sf' steps' peak' hf'
      obtain ⟨s'', sf1, steps1, peak1, he, hp, hip2, hl, hi1, hc⟩ :=
        run_resets g0 (g1 - g0) s' (fun i hi => by rw [hip]; exact hResets i hi) rest' sf' steps' peak' hf'
      rw [he] at hf' ⊢
      have hrelr : Rel (σ.resetGroups g0 g1) s'' := by
        refine ⟨by rw [hp]; exact hrel.pos, ?_, by rw [hi1]; exact hrel.l1⟩
        rw [hc, hrel.caps, resetFrom_range]; rfl
      have hgoodr : Good cs (σ.resetGroups g0 g1) := (utf8Inv cs).reset σ g0 g1 hgood
      have tb := hBody s'' _ hrelr hgoodr (by rw [hip2, hip]) rest' sf1 steps1 peak1 hf'
      have tb' := Tries.and_mem (G := fun r => Good cs r ∧ WeakAdv inp fwd σ.pos r.pos)
        (fun r hr => ⟨sem_good ht body fwd _ r hw hgoodr hr, (sem_adv inp body fwd (σ.resetGroups g0 g1) r hr : WeakAdv inp fwd σ.pos r.pos)⟩) tb
      refine Tries.bind (fun r t hp rest2 sf2 steps2 peak2 hf2 => ?_) hf' tb'
      obtain ⟨⟨hrt, hipt, hfrt⟩, hgr, hadv⟩ := hp
      have hlt : t.loops[l % 65536]? = some { iters := iter, entry := σ.pos } := by
        rw [hfrt _ (not_loopIdIn_succ hnl), hl]; exact hloops
      obtain ⟨sf3, rfl, hstp⟩ := fine_step prog inp limit hf2
      rw [hstp] at hf2 ⊢
      rw [tms_loopAgain _ _ _ _ _ _ (by rw [hipt]; exact hAgain) hEnter, runLoop_again] at hf2 ⊢
      dsimp only at hf2 ⊢
      rw [hlt] at hf2 ⊢
      dsimp only at hf2 ⊢
      by_cases hst : iter + 1 > q.min ∧ σ.pos = r.pos
      · -- the iteration did not move: this thread dies
        have hc1 : (decide (iter + 1 > q.min) && σ.pos == t.pos) = true := by
          rw [hrt.pos]; simp [hst.1, hst.2]
        rw [if_pos hc1] at hf2 ⊢
        have : loopIter (fun x => sem inp body fwd x) q g0 g1 (k + 1) (iter + 1) σ.pos r = [] := by
          rw [loopIter_succ, if_pos (by simp [hst.1, hst.2])]
        rw [this]
        exact Tries.nil_of_eq rfl
      · have hc1 : ¬ (decide (iter + 1 > q.min) && σ.pos == t.pos) = true := by
          rw [hrt.pos]; simpa using hst
        rw [if_neg hc1] at hf2 ⊢
        rw [ltMax_maxIters hq] at hf2 ⊢
        have hit : loopIter (fun x => sem inp body fwd x) q g0 g1 (k + 1) (iter + 1) σ.pos r =
            loopTail (fun x => sem inp body fwd x) q g0 g1 k (iter + 1) r := by
          rw [loopIter_succ, if_neg (by simpa [And.comm] using hst)]
        rw [hit]
        have hbud : (q.min - (iter + 1)) + mu inp fwd r.pos + 1 ≤ k := by
          by_cases hle : iter + 1 ≤ q.min
          · have := hadv.mu_le; omega
          · have hne : r.pos ≠ σ.pos := fun hh => hst ⟨by omega, hh.symm⟩
            have := (hadv.adv_of_ne hne).mu_lt
            omega
        have := ih (iter + 1) r
          { t with loops := t.loops.setIfInBounds (l % 65536) { iters := iter + 1, entry := t.pos }, ip := b + 1 }
          ⟨hrt.pos, hrt.caps, hrt.l1⟩ hgr rfl
          (by dsimp only; rw [getElem?_setIfInBounds_self _ _ _ _ hlt, hrt.pos])
          hbud rest2 sf3 (steps2 + 1) (if peak2 < rest2.size + 1 then rest2.size + 1 else peak2) hf2
        refine Tries.mono (fun r' t' hp' => ⟨hp'.1, hp'.2.1, ?_⟩) this
        refine LoopsFrame.trans_same (fun i hi => ?_) hp'.2.2
        dsimp only
        have hne : l % 65536 ≠ i := fun hh => hi (hh ▸ loopIdIn_self l (numLoops body))
        rw [getElem?_setIfInBounds_ne _ _ _ _ hne,
          hfrt i (fun ⟨x, hx⟩ => hi ⟨x, by omega, by omega, hx.2.2⟩), hl]
    have hexit : Out (j + 1) l (numLoops body + 1) s' σ { s' with ip := j + 1 } :=
      ⟨⟨hrel.pos, hrel.caps, hrel.l1⟩, rfl, LoopsFrame.of_eq rfl⟩
    unfold loopCascade at hf ⊢
    unfold loopTail
    cases hmo : maxOk q iter with
    | false =>
      rw [hmo] at hf
      cases hge : decide (iter ≥ q.min) with
      | false => exact Tries.nil_of_eq rfl
      | true => exact Tries.single hexit rfl
    | true =>
      rw [hmo] at hf
      cases hge : decide (iter ≥ q.min) with
      | false =>
        rw [hge] at hf
        exact henter rest sf steps peak hf
      | true =>
        rw [hge] at hf
        cases hgr : q.greedy with
        | true =>
          rw [hgr] at hf
          simp only [Bool.not_true, Bool.and_self, Bool.false_eq_true, if_false, if_true, dispatch] at hf ⊢
          have e : rest.push { s' with ip := j + 1 } = rest ++ #[{ s' with ip := j + 1 }] := Array.push_eq_append
          rw [e] at hf ⊢
          refine Tries.append (fun sf' steps' peak' _ => ?_) hf (henter _ sf steps peak hf)
          rw [← e]
          exact Tries.single hexit rfl
        | false =>
          rw [hgr] at hf
          simp only [Bool.not_true, Bool.and_self, Bool.false_eq_true, if_false, dispatch] at hf ⊢
          refine ⟨#[s'], sf, steps, peak, { s' with ip := j + 1 }, hexit, ?_, ?_⟩
          · rw [← Array.push_eq_append]
          · intro sf' steps' peak' hf'
            rw [← Array.push_eq_append] at hf' ⊢
            exact henter rest sf' steps' peak' hf'

/-- `Loop`. -/
theorem frag_loop (ht : Utf8Text inp cs) {body : Node} {q : Quant} {g0 g1 : Nat} {fwd : Bool} {b j l : Nat}
    (hw : WF body) (hq : quantBoundedQ q) (hnl : numLoops body < 65536)
    (hResets : ∀ i, i < g1 - g0 → At prog.insns (b + 1 + i) (.resetCaptureGroup (g0 + i)))
    (hBody : Frag prog inp limit cs body fwd (b + 1 + (g1 - g0)) j (l + 1))
    (hAgain : At prog.insns j (.loopAgain b))
    (hEnter : At prog.insns b (.enterLoop (l % 65536) q.min (maxIters q) q.greedy (j + 1))) :
    Frag prog inp limit cs (.loop body q g0 g1) fwd b (j + 1) l := by
  intro s σ hrel hgood hip rest sf steps peak hf
  simp only [sem, loopBudget]
  obtain ⟨sf1, rfl, hstp⟩ := fine_step prog inp limit hf
  rw [hstp] at hf ⊢
  have htms : ∀ look d steps peak, tryMatchState prog inp look (d + 1) s fwd steps peak =
      runLoop s (l % 65536) q.min (maxIters q) q.greedy (j + 1) true steps peak := by
    intro look d steps peak
    unfold tryMatchState
    rw [show prog.insns[s.ip]? = some (.enterLoop (l % 65536) q.min (maxIters q) q.greedy (j + 1))
      by rw [hip]; exact hEnter]
  rw [htms, runLoop_initial] at hf ⊢
  cases hld : s.loops[l % 65536]? with
  | none => rw [hld] at hf; exact hf.elim
  | some ld =>
    rw [hld] at hf
    dsimp only at hf ⊢
    have hmin : (q.min == 0) = decide (0 ≥ q.min) := by
      cases h : q.min with
      | zero => rfl
      | succ m => simp
    rw [maxPos_maxIters hq, hmin] at hf ⊢
    rw [show q.min + mu inp fwd σ.pos + 2 = (q.min + mu inp fwd σ.pos + 1) + 1 by omega, loopIter_succ,
      if_neg (by simp)]
    have := loop_core ht hw hq hnl hResets hBody hAgain hEnter (q.min + mu inp fwd σ.pos + 1) 0 σ
      { s with loops := s.loops.setIfInBounds (l % 65536) { iters := 0, entry := s.pos }, ip := s.ip + 1 }
      ⟨hrel.pos, hrel.caps, hrel.l1⟩ hgood (by simp [hip])
      (by dsimp only; rw [getElem?_setIfInBounds_self _ _ _ _ hld, hrel.pos])
      (by omega) rest sf1 (steps + 1) (if peak < rest.size + 1 then rest.size + 1 else peak) hf
    refine Tries.mono (fun r t hp => ⟨hp.1, hp.2.1, ?_⟩) this
    refine LoopsFrame.trans_same (fun i hi => ?_) (by simpa [numLoops] using hp.2.2)
    dsimp only
    have hne : l % 65536 ≠ i := fun hh => hi (hh ▸ (by simpa [numLoops] using loopIdIn_self l (numLoops body)))
    rw [getElem?_setIfInBounds_ne _ _ _ _ hne]

end

end Regress.Keystone
