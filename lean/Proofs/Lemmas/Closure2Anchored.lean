import Proofs.Lemmas.ClosureIter
/-!
# Closure 2, part 5 (C09): the `StartAnchored` iterators are the same unfold

For a `StartAnchored` regex, `next_match_anchored` (backtracker) and the anchored branch of
`PikeVMExecutor::next_match` try ONLY the position they are given; they do not scan.  `C09.iter_is_unfold`
is about the scanning `next_match`es.  Here: if no attempt succeeds away from offset 0 (`OnlyAtZero` —
for compiled programs a consequence of `C04Sem.predicate_for_re_sound`: a start-anchored tree only
matches at offset 0), then one attempt at the given position returns exactly what the scan returns
(`C09.first`), hence the anchored iterators drain to `unfoldIter` as well.

Also `unfoldIter_congr`: `unfoldIter` does not look at `findBytes`.
-/
namespace Regress.Closure2
open Regress.Api Regress.C09 Regress.Closure

variable {env : SearchEnv} {v : Nat → Bool}

/-- No attempt succeeds away from offset 0, at the positions of `v`. -/
def OnlyAtZeroOn (v : Nat → Bool) (env : SearchEnv) : Prop :=
  ∀ r, 0 < r → v r = true → env.attempt r = none

/-- No attempt succeeds away from offset 0. -/
def OnlyAtZero (env : SearchEnv) : Prop := ∀ r, 0 < r → env.attempt r = none

theorem onlyAtZero_restrict (hz : OnlyAtZeroOn v env) : OnlyAtZero (restrictEnv v env) := by
  intro r hr
  simp only [restrictEnv]
  split
  · next hv => exact hz r hr hv
  · rfl

/-- One attempt at `p` is the scan from `p`, when nothing matches away from 0. -/
theorem anchored_eq_first (h : EnvOK env) (hz : OnlyAtZero env) {p : Nat} (hp : p ≤ env.len) :
    nextMatchAnchored env p = (first env p).map (toStep env) := by
  unfold nextMatchAnchored
  cases hatt : env.attempt p with
  | some ec =>
    obtain ⟨e, caps⟩ := ec
    have hf : first env p = some (p, e, caps) :=
      (first_spec_some h hp p e caps).2 ⟨Reach.refl _, hatt, fun r hr hlt => by
        have := (hr.le h hp).1; omega⟩
    simp only [hf, Option.map_some]
    rfl
  | none =>
    have hf : first env p = none :=
      (first_spec_none h hp).2 (fun r hr => by
        by_cases hrp : r = p
        · rw [hrp]; exact hatt
        · have := (hr.le h hp).1
          exact hz r (by omega))
    simp only [hf, Option.map_none]

theorem anchored_nextMatch_eq_first (h : EnvOK env) (hz : OnlyAtZero env) {k : Kind}
    (hk : k = .btAnchored ∨ k = .pike true) {p : Nat} (hp : p ≤ env.len) :
    nextMatch env k p = (first env p).map (toStep env) := by
  rw [← anchored_eq_first h hz hp]
  rcases hk with rfl | rfl
  · rfl
  · simp [nextMatch, pikeNextMatch, nextMatchAnchored]

/-- **`iter_is_unfold` for the anchored iterators** (`EnvOK` environments). -/
theorem iter_is_unfold_anchored (h : EnvOK env) (hz : OnlyAtZero env) {k : Kind}
    (hk : k = .btAnchored ∨ k = .pike true) (start : Nat) :
    collectK env k start = unfoldIter env start :=
  collectK_eq_unfold h k (fun _ hp => anchored_nextMatch_eq_first h hz hk hp) start

/-- … and for environments that are well-behaved on a closed set of positions (char boundaries). -/
theorem iter_is_unfold_anchored_on (h : EnvOKOn v env) (hz : OnlyAtZeroOn v env) {k : Kind}
    (hk : k = .btAnchored ∨ k = .pike true) {start : Nat} (hs : v start = true ∨ env.len < start) :
    collectK env k start = unfoldIter env start := by
  have := iter_is_unfold_anchored (restrict_ok h) (onlyAtZero_restrict hz) hk start
  rwa [collectK_restrict h _ hs, unfoldIter_restrict h hs] at this

/-! ## `unfoldIter` does not look at `findBytes` -/

theorem orbitFuel_findBytes (f : Nat → Option Nat) : ∀ fuel p,
    orbitFuel { env with findBytes := f } fuel p = orbitFuel env fuel p := by
  intro fuel
  induction fuel with
  | zero => intro p; rfl
  | succ k ih =>
    intro p
    simp only [orbitFuel]
    cases env.nextRightPos p with
    | none => rfl
    | some q => simp only [ih q]

theorem first_findBytes (f : Nat → Option Nat) (c : Nat) :
    first { env with findBytes := f } c = first env c := by
  unfold first orbit
  show List.findSome? _ (orbitFuel { env with findBytes := f } (env.len + 1) c) = _
  rw [orbitFuel_findBytes]

theorem unfoldFuel_findBytes (f : Nat → Option Nat) : ∀ fuel c,
    unfoldFuel { env with findBytes := f } fuel c = unfoldFuel env fuel c := by
  intro fuel
  induction fuel with
  | zero => intro c; rfl
  | succ k ih =>
    intro c
    cases c with
    | none => rfl
    | some c =>
      simp only [unfoldFuel, first_findBytes]
      cases first env c with
      | none => rfl
      | some x =>
        obtain ⟨s, e, caps⟩ := x
        simp only
        rw [show advance { env with findBytes := f } s e = advance env s e from rfl, ih]

theorem unfoldIter_findBytes (f : Nat → Option Nat) (start : Nat) :
    unfoldIter { env with findBytes := f } start = unfoldIter env start := by
  unfold unfoldIter
  exact unfoldFuel_findBytes f _ _

/-- Two environments that differ at most in `findBytes` have the same `unfoldIter`. -/
theorem unfoldIter_congr {env1 env2 : SearchEnv} (hlen : env1.len = env2.len)
    (hatt : env1.attempt = env2.attempt) (hnr : env1.nextRightPos = env2.nextRightPos)
    (hnm : env1.names = env2.names) (start : Nat) : unfoldIter env1 start = unfoldIter env2 start := by
  have : env1 = { env2 with findBytes := env1.findBytes } := by
    cases env1; cases env2; simp_all
  rw [this, unfoldIter_findBytes]

end Regress.Closure2
