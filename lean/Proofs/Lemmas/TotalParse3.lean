import Proofs.Lemmas.TotalParse2
/-!
# Totality of the parser model, part 3: the recursive descent

`descent_all`: with `fuel ≥ 4·len + 4` (`+3`, `+2`, `+1` for the inner functions) the mutually
recursive `consumeDisjunction` / `disjLoop` / `termLoop` / `consumeAtom` never panic and never run
out of fuel; the parser state invariants (`Inv`: the three resource counters within their limits,
the named-group table has no empty entry, code points bounded) are preserved; the nodes built
satisfy `POut`; the group counter advances by exactly the number of capture groups built.
-/
namespace Regress.Parse
open Regress Regress.IR

open Regress Regress.IR

/-! ## Parser state invariants -/

/-- Every entry of `named_group_indices` has at least one index. -/
def NamedOK (m : List (List Nat × List Nat)) : Prop := ∀ e ∈ m, e.2 ≠ []

/-- The invariant of the parser state: the resource counters are within their limits (so the Rust
`u32`/`u16`/`usize` counters cannot wrap), no entry of the name table is empty, and the remaining
input consists of code points `≤ 0x10FFFF`. -/
structure Inv (st : PState) : Prop where
  named : NamedOK st.named
  depth : st.depth ≤ Gen.MAX_NESTING_DEPTH
  groups : st.groupCount ≤ Gen.MAX_CAPTURE_GROUPS
  loops : st.loopCount ≤ Gen.MAX_LOOPS
  bnd : Bnd st.input

/-- What every parser function guarantees of the state it returns. -/
structure Step (st st' : PState) : Prop where
  inv : Inv st'
  suf : st'.input <:+ st.input
  named : st'.named = st.named
  depth : st'.depth = st.depth

theorem Step.refl {st : PState} (h : Inv st) : Step st st := ⟨h, suf_refl _, rfl, rfl⟩

theorem Step.trans {a b c : PState} (h1 : Step a b) (h2 : Step b c) : Step a c :=
  ⟨h2.inv, h2.suf.trans h1.suf, h2.named.trans h1.named, h2.depth.trans h1.depth⟩

/-- Replacing the input by a suffix. -/
theorem Step.input {st : PState} (h : Inv st) {r : List Nat} (hs : r <:+ st.input) :
    Step st { st with input := r } :=
  ⟨⟨h.named, h.depth, h.groups, h.loops, h.bnd.suf hs⟩, hs, rfl, rfl⟩

theorem mapGet_mem {β} {m : List (List Nat × β)} {k : List Nat} {v : β} (h : mapGet m k = some v) :
    ∃ e ∈ m, e.2 = v := by
  induction m with
  | nil => simp [mapGet] at h
  | cons x xs ih =>
    obtain ⟨k', v'⟩ := x
    unfold mapGet at h
    split at h
    · cases h; exact ⟨_, List.mem_cons_self, rfl⟩
    · obtain ⟨e, he, rfl⟩ := ih h
      exact ⟨e, by simp [he], rfl⟩

theorem backRefs_leaf (idxs : List Nat) (icase : Bool) :
    Leaf (.cat (idxs.map fun i => .backRef (i + 1) icase)) := by
  simp only [Leaf, POut, numGroups]
  induction idxs with
  | nil => simp [POutList, numGroupsList]
  | cons x xs ih => simp [POutList, numGroupsList, POut, numGroups, ih]

/-! ## `consume_atom_escape` -/

/-- Postcondition of an atom-like function: one leaf, strictly shorter input, same counters. -/
def AtomEscPost (st : PState) (p : Node × PState) : Prop :=
  Leaf p.1 ∧ Step st p.2 ∧ p.2.input.length < st.input.length ∧ p.2.groupCount = st.groupCount
    ∧ p.2.flags = st.flags

theorem decimalLiteral_digit {c : Nat} {rest r : List Nat} (h : isAsciiDigit c = true)
    (hx : decimalLiteral (c :: rest) = (none, r)) : False := by
  obtain ⟨v, r', hv⟩ := decimalLiteral_some (rest := rest) h
  rw [hv] at hx; cases hx

theorem decimalLiteral_digit_suf {c : Nat} {rest : List Nat} (h : isAsciiDigit c = true) :
    (decimalLiteral (c :: rest)).2 <:+ rest := by
  unfold decimalLiteral
  have := decimalLoop_suf rest (satMul10Add 0 (c - 0x30)) 1
  simp only [decimalLoop, h, if_true]
  generalize decimalLoop rest (satMul10Add 0 (c - 48)) (0 + 1) = x at *
  obtain ⟨r, k, rest'⟩ := x
  simp only at this ⊢
  split <;> exact this

theorem decimalLiteral_digit_ok {c : Nat} {rest r : List Nat} {g : Option Nat}
    (h : isAsciiDigit c = true) (hx : decimalLiteral (c :: rest) = (g, r)) : r <:+ rest := by
  have := decimalLiteral_digit_suf (rest := rest) h
  rw [hx] at this; exact this

theorem atomEscPost_mk {st : PState} (hi : Inv st) {n : Node} {r : List Nat} (hn : Leaf n)
    (hs : SSuf r st.input) : AtomEscPost st (n, { st with input := r }) :=
  ⟨hn, Step.input hi hs.1, hs.2, rfl, rfl⟩

theorem leaf_backRef (g : Nat) (i : Bool) : Leaf (.backRef g i) := by simp [Leaf, POut, numGroups]
theorem leaf_stringSet (a : List (List Nat)) (i : Bool) : Leaf (.stringSet a i) := by
  simp [Leaf, POut, numGroups]

theorem consumeAtomEscape_ens (st : PState) (hi : Inv st) :
    Ens (consumeAtomEscape st) (AtomEscPost st) := by
  fun_cases consumeAtomEscape st
  all_goals try simp only [*]
  all_goals try (simp; done)
  all_goals (have hinp := ‹st.input = _ :: _›; have hb := hi.bnd; rw [hinp] at hb)
  all_goals try (exact (propertyEscape_ens _ _).error_of_eq ‹_›)
  all_goals try (exact (charNode_ens _ _).error_of_eq ‹_›)
  all_goals try (exact (tryConsumeName_ens _).error_of_eq ‹_›)
  all_goals try (
    refine atomEscPost_mk hi (by first | exact makeBracketClass_leaf _ _ _ | exact leaf_backRef _ _) ?_
    rw [hinp]; ssuf_tac)
  -- \p / \P
  · have h1 := (propertyEscape_ens _ _).ok_of_eq ‹propertyEscape _ _ = _›
    have hw : CPS.WF _ := h1.1
    refine atomEscPost_mk hi (mkBracket_leaf _ ?_) (by rw [hinp]; exact SSuf.of_tail _ h1.2.1)
    rename_i cps0 _ _ _
    show CPS.WF (if _ then _ else if _ then _ else _)
    split
    · exact C12.inverted_wf (C10.add_icase_wf hw)
    · split
      · exact C10.add_icase_wf (C12.inverted_wf hw)
      · exact C10.add_icase_wf hw
  · have h1 := (propertyEscape_ens _ _).ok_of_eq ‹propertyEscape _ _ = _›
    exact atomEscPost_mk hi (mkBracket_leaf _ h1.1) (by rw [hinp]; exact SSuf.of_tail _ h1.2.1)
  · have h1 := (propertyEscape_ens _ _).ok_of_eq ‹propertyEscape _ _ = _›
    exact atomEscPost_mk hi (leaf_stringSet _ _) (by rw [hinp]; exact SSuf.of_tail _ h1.2.1)
  -- decimal escapes (`u` mode): the `unwrap()` is safe, the first char is a digit
  · have hx := ‹decimalLiteral st.input = _›
    rw [hinp] at hx
    exact (decimalLiteral_digit (by simp [isAsciiDigit] at *; omega) hx).elim
  · have hx := ‹decimalLiteral st.input = _›
    rw [hinp] at hx
    have hs := fun h => decimalLiteral_digit_ok h hx
    have hs := hs (by simp [isAsciiDigit] at *; omega)
    exact atomEscPost_mk hi (leaf_backRef _ _) (by rw [hinp]; exact SSuf.of_tail _ hs)
  -- decimal escapes (legacy)
  · have hx := ‹decimalLiteral st.input = _›
    rw [hinp] at hx
    exact (decimalLiteral_digit (by simp [isAsciiDigit] at *; omega) hx).elim
  · have hx := ‹decimalLiteral st.input = _›
    rw [hinp] at hx
    have hs := fun h => decimalLiteral_digit_ok h hx
    have hs := hs (by simp [isAsciiDigit] at *; omega)
    exact atomEscPost_mk hi (leaf_backRef _ _) (by rw [hinp]; exact SSuf.of_tail _ hs)
  · have hx := ‹characterEscape _ _ st.input = _›
    rw [hinp] at hx
    exact (characterEscape_ens _ _ _ _ hb).error_of_eq hx
  · have hx := ‹characterEscape _ _ st.input = _›
    rw [hinp] at hx
    have h1 := (characterEscape_ens _ _ _ _ hb).ok_of_eq hx
    exact atomEscPost_mk hi ((charNode_ens _ _).ok_of_eq ‹charNode _ _ = _›) (by rw [hinp]; exact h1.1)
  -- \k<name>
  · obtain ⟨e, he, h0⟩ := mapGet_mem ‹mapGet st.named _ = _›
    exact (hi.named e he h0).elim
  · have h1 := (tryConsumeName_ens _).ok_of_eq ‹tryConsumeName _ = _›
    exact atomEscPost_mk hi (leaf_backRef _ _) (by rw [hinp]; exact SSuf.of_tail _ h1)
  · have h1 := (tryConsumeName_ens _).ok_of_eq ‹tryConsumeName _ = _›
    exact atomEscPost_mk hi (backRefs_leaf _ _) (by rw [hinp]; exact SSuf.of_tail _ h1)
  · exact atomEscPost_mk hi ((charNode_ens _ _).ok_of_eq ‹charNode _ _ = _›) (by rw [hinp]; ssuf_tac)
  -- identity / control escapes
  · have hx := ‹characterEscape _ _ st.input = _›
    rw [hinp] at hx
    exact (characterEscape_ens _ _ _ _ hb).error_of_eq hx
  · have hx := ‹characterEscape _ _ st.input = _›
    rw [hinp] at hx
    have h1 := (characterEscape_ens _ _ _ _ hb).ok_of_eq hx
    exact atomEscPost_mk hi ((charNode_ens _ _).ok_of_eq ‹charNode _ _ = _›) (by rw [hinp]; exact h1.1)

open Regress Regress.IR

/-! ## `consumeAtom`, cut into pieces

The model's `consumeAtom` is one large definition; for the proofs it is restated as a composition
of smaller non-recursive pieces, parameterised by `cd = consumeDisjunction fuel`
(`consumeAtom_succ`, by unfolding). -/

def closeParenA (result : List Node) (startOffset : Nat) (r : Res (Node × PState × Bool)) : Res AtomOut :=
  match r with
  | .error e => .error e
  | .ok (nd, st, qa) =>
    match tryConsume 0x29 st with
    | (true, st) => .ok ⟨result ++ [nd], st, startOffset, qa⟩
    | (false, _) => synErr "Unbalanced parenthesis"

def lookA (cd : PState → Res (Node × PState)) (st : PState) (negate backwards qa : Bool) :
    Res (Node × PState × Bool) :=
  let startGroup := st.groupCount
  match cd st with
  | .error e => .error e
  | .ok (contents, st) => .ok (.look negate backwards startGroup st.groupCount contents, st, qa)

def atomBackslashA (st0 : PState) (result : List Node) : Res AtomOut :=
  let startOffset := result.length
  let fl := st0.flags
  match consume st0 with
  | .error e => .error e
  | .ok (_, st) =>
    match st.input with
    | [] => synErr "Incomplete escape"
    | e :: rest =>
      if e == 0x62 then
        .ok ⟨result ++ [.wordBoundary false (fl.unicode && fl.icase)], { st with input := rest },
          startOffset, false⟩
      else if e == 0x42 then
        .ok ⟨result ++ [.wordBoundary true (fl.unicode && fl.icase)], { st with input := rest },
          startOffset, false⟩
      else if e == 0x63 && !fl.unicode then
        match rest with
        | n :: rest2 =>
          if isChar n && isAsciiAlpha n then
            match charNode fl (n % 32) with
            | .error e => .error e
            | .ok nd => .ok ⟨result ++ [nd], { st with input := rest2 }, startOffset, true⟩
          else
            match charNode fl 0x5C, charNode fl 0x63 with
            | .ok a, .ok b => .ok ⟨result ++ [a, b], { st with input := rest }, startOffset + 1, true⟩
            | .error e, _ => .error e
            | _, .error e => .error e
        | [] =>
          match charNode fl 0x5C, charNode fl 0x63 with
          | .ok a, .ok b => .ok ⟨result ++ [a, b], { st with input := rest }, startOffset + 1, true⟩
          | .error e, _ => .error e
          | _, .error e => .error e
      else
        match consumeAtomEscape st with
        | .error e => .error e
        | .ok (nd, st) => .ok ⟨result ++ [nd], st, startOffset, true⟩

def atomCaptureA (cd : PState → Res (Node × PState)) (st0 : PState) (result : List Node) : Res AtomOut :=
  let startOffset := result.length
  match consume st0 with
  | .error e => .error e
  | .ok (_, st) =>
    let group := st.groupCount
    if st.groupCount ≥ Gen.MAX_CAPTURE_GROUPS then limErr "Capture group count limit exceeded"
    else
      let st := { st with groupCount := st.groupCount + 1 }
      let named : Res (Option (List Nat) × PState) :=
        match tryConsumeStr [0x3F] st with
        | (true, st) =>
          match tryConsumeName st.input with
          | .error e => .error e
          | .ok (none, _) => synErr "Invalid token at named capture group identifier"
          | .ok (some name, rest) => .ok (some name, { st with input := rest })
        | (false, st) => .ok (none, st)
      match named with
      | .error e => .error e
      | .ok (groupName, st) =>
        closeParenA result startOffset (match cd st with
          | .error e => .error e
          | .ok (contents, st) => .ok (.group group groupName contents, st, true))

def atomParenA (cd : PState → Res (Node × PState)) (st0 : PState) (result : List Node) : Res AtomOut :=
  let startOffset := result.length
  let fl := st0.flags
  match tryConsumeStr [0x28, 0x3F, 0x3D] st0 with
  | (true, st) => closeParenA result startOffset (lookA cd st false false (!fl.unicode))
  | (false, st) =>
  match tryConsumeStr [0x28, 0x3F, 0x21] st with
  | (true, st) => closeParenA result startOffset (lookA cd st true false (!fl.unicode))
  | (false, st) =>
  match tryConsumeStr [0x28, 0x3F, 0x3C, 0x3D] st with
  | (true, st) => closeParenA result startOffset (lookA cd { st with hasLookbehind := true } false true false)
  | (false, st) =>
  match tryConsumeStr [0x28, 0x3F, 0x3C, 0x21] st with
  | (true, st) => closeParenA result startOffset (lookA cd { st with hasLookbehind := true } true true false)
  | (false, st) =>
  match tryConsumeStr [0x28, 0x3F, 0x3A] st with
  | (true, st) =>
    closeParenA result startOffset (match cd st with
      | .error e => .error e
      | .ok (nd, st) => .ok (nd, st, true))
  | (false, st) =>
  match modifierGroupHead st.input with
  | some (.error e) => .error e
  | some (.ok (mods, rest)) =>
    let saved := st.flags
    let st := { st with input := rest, flags := applyMods st.flags mods }
    closeParenA result startOffset (match cd st with
      | .error e => .error e
      | .ok (nd, st) => .ok (nd, { st with flags := saved }, true))
  | none => atomCaptureA cd st result

def atomClassSetA (st0 : PState) (result : List Node) : Res AtomOut :=
  let startOffset := result.length
  let fl := st0.flags
  match consume st0 with
  | .error e => .error e
  | .ok (_, st) =>
    let (negateSet, st) := tryConsume 0x5E st
    match classSetExpression fl (!st.named.isEmpty) (2 * st.input.length + 4)
        { inp := st.input, depth := st.depth } with
    | .error e => .error e
    | .ok (cs, cst) =>
      if negateSet && cs.mayContainStrings then synErr "Negated class may not contain strings"
      else
      .ok ⟨result ++ [cs.node fl.icase negateSet], { st with input := cst.inp, depth := cst.depth },
        startOffset, true⟩

def atomCharA (st0 : PState) (result : List Node) (c : Nat) : Res AtomOut :=
  match consume st0 with
  | .error e => .error e
  | .ok (_, st) =>
    match charNode st0.flags c with
    | .error e => .error e
    | .ok nd => .ok ⟨result ++ [nd], st, result.length, true⟩

def atomBraceA (st0 : PState) (result : List Node) : Res AtomOut :=
  match bracedQuantifier st0.input with
  | .error e => .error e
  | .ok (some _, _) => synErr "Invalid braced quantifier"
  | .ok (none, _) =>
    match consume st0 with
    | .error e => .error e
    | .ok (cp, st) =>
      match charNode st0.flags cp with
      | .error e => .error e
      | .ok nd => .ok ⟨result ++ [nd], st, result.length, true⟩

def consumeAtomA (cd : PState → Res (Node × PState)) (st : PState) (result : List Node) (c : Nat) :
    Res AtomOut :=
  let startOffset := result.length
  let fl := st.flags
  if c == 0x5E then
    match consume st with
    | .error e => .error e
    | .ok (_, st) => .ok ⟨result ++ [.anchor true fl.multiline], st, startOffset, false⟩
  else if c == 0x24 then
    match consume st with
    | .error e => .error e
    | .ok (_, st) => .ok ⟨result ++ [.anchor false fl.multiline], st, startOffset, false⟩
  else if c == 0x5C then atomBackslashA st result
  else if c == 0x2E then
    match consume st with
    | .error e => .error e
    | .ok (_, st) =>
      .ok ⟨result ++ [if fl.dotAll then .matchAny else .matchAnyExceptLT], st, startOffset, true⟩
  else if c == 0x28 then atomParenA cd st result
  else if c == 0x5B && fl.unicodeSets then atomClassSetA st result
  else if c == 0x5B then
    match consumeBracket fl (!st.named.isEmpty) st.input with
    | .error e => .error e
    | .ok (nd, rest) => .ok ⟨result ++ [nd], { st with input := rest }, startOffset, true⟩
  else if c == 0x7B && !fl.unicode then atomBraceA st result
  else if (c == 0x2A || c == 0x2B || c == 0x3F || c == 0x5D || c == 0x7B || c == 0x7D) && fl.unicode then
    synErr "Invalid atom character"
  else if c == 0x2A || c == 0x2B || c == 0x3F then synErr "Invalid atom character"
  else atomCharA st result c

theorem consumeAtom_succ (fuel : Nat) (st : PState) (result : List Node) (c : Nat) :
    consumeAtom (fuel + 1) st result c = consumeAtomA (consumeDisjunction fuel) st result c := by
  rw [consumeAtom]
  rfl

open Regress Regress.IR

/-! ## Postconditions of the descent -/

/-- `consumeDisjunction`: one node; the group counter advanced by its number of groups. -/
def DisjPost (st : PState) (p : Node × PState) : Prop :=
  POut p.1 ∧ Step st p.2 ∧ p.2.groupCount = st.groupCount + numGroups p.1

/-- `disjLoop`. -/
def DLoopPost (st : PState) (terms : List Node) (p : List Node × PState) : Prop :=
  POutList p.1 ∧ Step st p.2 ∧ p.2.groupCount + numGroupsList terms = st.groupCount + numGroupsList p.1

/-- `termLoop`. -/
def TLoopPost (st : PState) (result : List Node) (p : Node × PState) : Prop :=
  POut p.1 ∧ Step st p.2 ∧ p.2.groupCount + numGroupsList result = st.groupCount + numGroups p.1

/-- `consumeAtom`: `result` is extended by `pre ++ added`; `startOffset` points at `added` (so
`split_off(start_offset)` cannot panic); `pre` has no groups; at least one char was consumed. -/
def AtomOutPost (st : PState) (result : List Node) (out : AtomOut) : Prop :=
  ∃ pre added, out.result = result ++ pre ++ added ∧ out.startOffset = result.length + pre.length ∧
    POutList pre ∧ numGroupsList pre = 0 ∧ POutList added ∧ Step st out.st ∧
    out.st.input.length < st.input.length ∧ out.st.groupCount = st.groupCount + numGroupsList added

/-- The state advanced (consumed input) without creating groups. -/
def Adv (st st1 : PState) : Prop :=
  Step st st1 ∧ st1.input.length < st.input.length ∧ st1.groupCount = st.groupCount

/-- A node built after advancing. -/
def GroupPost (st : PState) (p : Node × PState × Bool) : Prop :=
  POut p.1 ∧ Step st p.2.1 ∧ p.2.1.input.length < st.input.length ∧
    p.2.1.groupCount = st.groupCount + numGroups p.1

theorem atomPost_node {st st' : PState} {result : List Node} {n : Node} {qa : Bool}
    (hn : POut n) (hs : Step st st') (hl : st'.input.length < st.input.length)
    (hg : st'.groupCount = st.groupCount + numGroups n) :
    AtomOutPost st result ⟨result ++ [n], st', result.length, qa⟩ :=
  ⟨[], [n], by simp, by simp, trivial, rfl, ⟨hn, trivial⟩, hs, hl, by simp [numGroupsList, hg]⟩

theorem atomPost_leaf {st st' : PState} {result : List Node} {n : Node} {qa : Bool}
    (hn : Leaf n) (ha : Adv st st') : AtomOutPost st result ⟨result ++ [n], st', result.length, qa⟩ :=
  atomPost_node hn.1 ha.1 ha.2.1 (by rw [ha.2.2, hn.2]; rfl)

/-! ## Elementary state operations -/

theorem consume_eq {st : PState} {c : Nat} {rest : List Nat} (h : st.input = c :: rest) :
    consume st = .ok (c, { st with input := rest }) := by
  unfold consume; rw [h]

theorem adv_input {st : PState} (hi : Inv st) {r : List Nat} (hs : SSuf r st.input) :
    Adv st { st with input := r } := ⟨Step.input hi hs.1, hs.2, rfl⟩

theorem Adv.trans_step {a b c : PState} (h1 : Adv a b) (h2 : Step b c) (hg : c.groupCount = b.groupCount) :
    Adv a c :=
  ⟨h1.1.trans h2, by have := h2.suf.length_le; have := h1.2.1; omega, hg.trans h1.2.2⟩

theorem stripPrefix?_eq {s inp rest : List Nat} (h : stripPrefix? s inp = some rest) : inp = s ++ rest := by
  induction s generalizing inp with
  | nil => simp [stripPrefix?] at h; simp [h]
  | cons c s ih =>
    cases inp with
    | nil => simp [stripPrefix?] at h
    | cons d inp =>
      simp only [stripPrefix?] at h
      split at h
      · rename_i hcd
        simp only [beq_iff_eq] at hcd
        rw [ih h, hcd]; rfl
      · cases h

theorem tryConsumeStr_true {s : List Nat} {st st' : PState} (h : tryConsumeStr s st = (true, st')) :
    ∃ rest, st.input = s ++ rest ∧ st' = { st with input := rest } := by
  unfold tryConsumeStr at h
  split at h
  · rename_i rest hr
    cases h
    exact ⟨rest, stripPrefix?_eq hr, rfl⟩
  · cases h

theorem tryConsumeStr_false {s : List Nat} {st st' : PState} (h : tryConsumeStr s st = (false, st')) :
    st' = st := by
  unfold tryConsumeStr at h
  split at h
  · cases h
  · cases h; rfl

theorem tryConsumeStr_adv {s : List Nat} {st st' : PState} (hi : Inv st) (hne : s ≠ [])
    (h : tryConsumeStr s st = (true, st')) : Adv st st' := by
  obtain ⟨rest, h1, rfl⟩ := tryConsumeStr_true h
  refine adv_input hi ⟨?_, ?_⟩
  · rw [h1]; exact List.suffix_append _ _
  · rw [h1]; cases s with
    | nil => exact absurd rfl hne
    | cons _ _ => simp; omega

theorem tryConsume_true {c : Nat} {st st' : PState} (h : tryConsume c st = (true, st')) :
    ∃ rest, st.input = c :: rest ∧ st' = { st with input := rest } := by
  unfold tryConsume at h
  split at h
  · split at h
    · rename_i hcd
      simp only [beq_iff_eq] at hcd
      cases h
      exact ⟨_, by rw [‹st.input = _›, hcd], rfl⟩
    · cases h
  · cases h

theorem tryConsume_false {c : Nat} {st st' : PState} (h : tryConsume c st = (false, st')) :
    st' = st := by
  unfold tryConsume at h
  split at h
  · split at h
    · cases h
    · cases h; rfl
  · cases h; rfl

/-- `tryConsume` never lengthens the input, keeps everything else. -/
theorem tryConsume_step {c : Nat} {st : PState} (hi : Inv st) :
    Step st (tryConsume c st).2 ∧ (tryConsume c st).2.groupCount = st.groupCount := by
  cases hb : (tryConsume c st).1 with
  | true =>
    obtain ⟨rest, h1, h2⟩ := tryConsume_true (st' := (tryConsume c st).2) (by rw [← hb])
    rw [h2]
    exact ⟨Step.input hi (by rw [h1]; exact suf_cons _ (suf_refl _)), rfl⟩
  | false =>
    have := tryConsume_false (st' := (tryConsume c st).2) (by rw [← hb])
    rw [this]
    exact ⟨Step.refl hi, rfl⟩

/-! ## The pieces of `consumeAtom` -/

theorem closeParenA_ens {st : PState} (result : List Node) {r : Res (Node × PState × Bool)}
    (h : Ens r (GroupPost st)) : Ens (closeParenA result result.length r) (AtomOutPost st result) := by
  unfold closeParenA
  split
  · exact h.error_of_eq rfl
  · rename_i nd st1 qa
    have h1 : GroupPost st (nd, st1, qa) := h
    have h2 := tryConsume_step (c := 0x29) h1.2.1.inv
    split
    · rename_i st2 heq
      rw [heq] at h2
      simp only at h2
      refine atomPost_node h1.1 (h1.2.1.trans h2.1) ?_ (h2.2.trans h1.2.2.2)
      have := h2.1.suf.length_le
      have := h1.2.2.1
      simp only at *
      omega
    · simp

open Regress Regress.IR

/-- What the pieces need to know about `cd = consumeDisjunction fuel`, below the state `st`. -/
def CDOk (cd : PState → Res (Node × PState)) (st : PState) : Prop :=
  ∀ st', Inv st' → st'.input.length < st.input.length → Ens (cd st') (DisjPost st')

theorem lookA_ens {cd : PState → Res (Node × PState)} {st st1 : PState} (hcd : CDOk cd st)
    (ha : Adv st st1) (negate backwards qa : Bool) :
    Ens (lookA cd st1 negate backwards qa) (GroupPost st) := by
  unfold lookA
  have h := hcd st1 ha.1.inv ha.2.1
  simp only
  split
  · rename_i e heq; exact h.error_of_eq heq
  · rename_i contents st2 heq
    have h1 : DisjPost st1 (contents, st2) := h.ok_of_eq heq
    refine ⟨⟨h1.1, h1.2.2⟩, ha.1.trans h1.2.1, ?_, ?_⟩
    · have := h1.2.1.suf.length_le; have := ha.2.1; simp only at *; omega
    · simp only [numGroups]; rw [h1.2.2, ha.2.2]

/-- A plain group-like continuation: `cd st1`, node passed through `f` with the same groups. -/
theorem cdA_ens {cd : PState → Res (Node × PState)} {st st1 : PState} (hcd : CDOk cd st)
    (ha : Adv st st1) :
    Ens (match cd st1 with
      | .error e => .error e
      | .ok (nd, st) => .ok (nd, st, true)) (GroupPost st) := by
  have h := hcd st1 ha.1.inv ha.2.1
  split
  · rename_i e heq; exact h.error_of_eq heq
  · rename_i nd st2 heq
    have h1 : DisjPost st1 (nd, st2) := h.ok_of_eq heq
    refine ⟨h1.1, ha.1.trans h1.2.1, ?_, ?_⟩
    · have := h1.2.1.suf.length_le; have := ha.2.1; simp only at *; omega
    · show st2.groupCount = _; rw [h1.2.2, ha.2.2]

theorem leaf_simple {n : Node} (h1 : POut n) (h2 : numGroups n = 0) : Leaf n := ⟨h1, h2⟩

theorem two_chars_ens {st st' : PState} (fl : Flags) (result : List Node) (ha : Adv st st') :
    Ens (match charNode fl 0x5C, charNode fl 0x63 with
      | .ok a, .ok b => (.ok ⟨result ++ [a, b], st', result.length + 1, true⟩ : Res AtomOut)
      | .error e, _ => .error e
      | _, .error e => .error e) (AtomOutPost st result) := by
  have h1 := charNode_ens fl 0x5C
  have h2 := charNode_ens fl 0x63
  split
  · rename_i a b ha' hb'
    have la : Leaf a := h1.ok_of_eq ha'
    have lb : Leaf b := h2.ok_of_eq hb'
    refine ⟨[a], [b], by simp, by simp, ⟨la.1, trivial⟩, by simp [numGroupsList, la.2],
      ⟨lb.1, trivial⟩, ha.1, ha.2.1, ?_⟩
    simp [numGroupsList, lb.2, ha.2.2]
  · rename_i e _ heq; exact h1.error_of_eq heq
  · rename_i e heq _; exact h2.error_of_eq heq

theorem atomBackslashA_ens {st : PState} (hi : Inv st) {rest0 : List Nat} (result : List Node)
    (hinp : st.input = 0x5C :: rest0) : Ens (atomBackslashA st result) (AtomOutPost st result) := by
  unfold atomBackslashA
  rw [consume_eq hinp]
  have ha0 : Adv st { st with input := rest0 } := adv_input hi (by rw [hinp]; ssuf_tac)
  simp only
  split
  · simp
  · rename_i e rest
    have hsuf : ∀ r, r <:+ rest → Adv st { st with input := r } := fun r hr =>
      adv_input hi (by rw [hinp]; exact SSuf.of_tail _ (suf_cons _ hr))
    split
    · exact atomPost_leaf (by simp [Leaf, POut, numGroups]) (hsuf _ (suf_refl _))
    · split
      · exact atomPost_leaf (by simp [Leaf, POut, numGroups]) (hsuf _ (suf_refl _))
      · split
        · split
          · rename_i n rest2
            split
            · have h := charNode_ens st.flags (n % 32)
              split
              · rename_i e heq; exact h.error_of_eq heq
              · rename_i nd heq
                exact atomPost_leaf (h.ok_of_eq heq) (hsuf _ (suf_cons _ (suf_refl _)))
            · exact two_chars_ens _ _ (hsuf _ (suf_refl _))
          · exact two_chars_ens _ _ (hsuf _ (suf_refl _))
        · have h := consumeAtomEscape_ens _ ha0.1.inv
          split
          · rename_i e heq; exact h.error_of_eq heq
          · rename_i nd st2 heq
            have h1 : AtomEscPost _ (nd, st2) := h.ok_of_eq heq
            exact atomPost_leaf h1.1 (ha0.trans_step h1.2.1 h1.2.2.2.1)

open Regress Regress.IR

theorem modifierScan_ens (inp : List Nat) (m : Mods) :
    Ens (modifierScan inp m) (fun p => SSuf p.2 inp) := by
  fun_induction modifierScan inp m
  all_goals try simp only [*]
  all_goals try (simp; done)
  all_goals try (rename_i ih; exact ih.mono (fun p hp => SSuf.of_tail _ hp.1))
  exact SSuf.of_tail _ (suf_refl _)

theorem modifierGroupHead_some {inp : List Nat} {r : Res (Mods × List Nat)}
    (h : modifierGroupHead inp = some r) :
    ∃ cur rest, inp = 0x28 :: 0x3F :: cur :: rest ∧ r = modifierScan (cur :: rest) {} := by
  unfold modifierGroupHead at h
  split at h
  · split at h
    · cases h
    · cases h; exact ⟨_, _, rfl, rfl⟩
  · cases h

theorem atomCaptureA_ens {cd : PState → Res (Node × PState)} {st : PState} (hi : Inv st)
    (hcd : CDOk cd st) {c : Nat} {rest0 : List Nat} (result : List Node) (hinp : st.input = c :: rest0) :
    Ens (atomCaptureA cd st result) (AtomOutPost st result) := by
  unfold atomCaptureA
  rw [consume_eq hinp]
  simp only
  split
  · simp
  · rename_i hlt
    simp only [ge_iff_le, Nat.not_le] at hlt
    -- the state after the `(`, with the group counted
    have hi1 : Inv { st with input := rest0, groupCount := st.groupCount + 1 } :=
      ⟨hi.named, hi.depth, by show st.groupCount + 1 ≤ _; omega, hi.loops, (hinp ▸ hi.bnd).tail⟩
    have hs1 : Step st { st with input := rest0, groupCount := st.groupCount + 1 } :=
      ⟨hi1, by rw [hinp]; exact suf_cons _ (suf_refl _), rfl, rfl⟩
    split
    · -- the `named` computation failed
      rename_i e heq
      split at heq
      · rename_i st2 hq
        have h := tryConsumeName_ens st2.input
        split at heq
        · rename_i e' he'; cases heq; exact h.error_of_eq he'
        · cases heq; simp
        · cases heq
      · cases heq
    · rename_i groupName st3 heq
      -- `st3`: a suffix of `rest0`, same counters as after the `(`
      have h3 : Step { st with input := rest0, groupCount := st.groupCount + 1 } st3 ∧
          st3.groupCount = st.groupCount + 1 := by
        split at heq
        · rename_i st2 hq
          obtain ⟨r2, hr2, rfl⟩ := tryConsumeStr_true hq
          have h := tryConsumeName_ens r2
          split at heq
          · cases heq
          · cases heq
          · rename_i name rest he'
            cases heq
            have hsuf : rest <:+ r2 := h.ok_of_eq he'
            have hr2' : r2 <:+ rest0 := by
              have : rest0 = [0x3F] ++ r2 := hr2
              rw [this]; exact List.suffix_append _ _
            exact ⟨Step.input hi1 (hsuf.trans hr2'), rfl⟩
        · rename_i st2 hq
          cases heq
          rw [tryConsumeStr_false hq]
          exact ⟨Step.refl hi1, rfl⟩
      have ha3 : Adv st { st3 with groupCount := st.groupCount } := by
        refine ⟨⟨⟨h3.1.inv.named, h3.1.inv.depth, hi.groups, h3.1.inv.loops, h3.1.inv.bnd⟩,
          h3.1.suf.trans hs1.suf, h3.1.named, h3.1.depth⟩, ?_, rfl⟩
        have := h3.1.suf.length_le
        simp only [hinp, List.length_cons] at *
        omega
      apply closeParenA_ens
      have h := hcd st3 h3.1.inv ha3.2.1
      split
      · rename_i e heq'; exact h.error_of_eq heq'
      · rename_i contents st4 heq'
        have h4 : DisjPost st3 (contents, st4) := h.ok_of_eq heq'
        refine ⟨h4.1, hs1.trans (h3.1.trans h4.2.1), ?_, ?_⟩
        · have := h4.2.1.suf.length_le; have := ha3.2.1; simp only at *; omega
        · show st4.groupCount = st.groupCount + (numGroups contents + 1)
          have h4g : st4.groupCount = st3.groupCount + numGroups contents := h4.2.2
          rw [h4g, h3.2]; omega

open Regress Regress.IR

/-- Changing fields `Inv` does not look at. -/
theorem Adv.lookbehind {st st1 : PState} (h : Adv st st1) : Adv st { st1 with hasLookbehind := true } :=
  ⟨⟨⟨h.1.inv.named, h.1.inv.depth, h.1.inv.groups, h.1.inv.loops, h.1.inv.bnd⟩, h.1.suf, h.1.named,
    h.1.depth⟩, h.2.1, h.2.2⟩

theorem atomParenA_ens {cd : PState → Res (Node × PState)} {st : PState} (hi : Inv st)
    (hcd : CDOk cd st) {rest0 : List Nat} (result : List Node) (hinp : st.input = 0x28 :: rest0) :
    Ens (atomParenA cd st result) (AtomOutPost st result) := by
  unfold atomParenA
  simp only
  split
  · rename_i st1 h1
    exact closeParenA_ens _ (lookA_ens hcd (tryConsumeStr_adv hi (by simp) h1) _ _ _)
  · rename_i st1 h1
    rw [tryConsumeStr_false h1]
    split
    · rename_i st2 h2
      exact closeParenA_ens _ (lookA_ens hcd (tryConsumeStr_adv hi (by simp) h2) _ _ _)
    · rename_i st2 h2
      rw [tryConsumeStr_false h2]
      split
      · rename_i st3 h3
        exact closeParenA_ens _ (lookA_ens hcd (tryConsumeStr_adv hi (by simp) h3).lookbehind _ _ _)
      · rename_i st3 h3
        rw [tryConsumeStr_false h3]
        split
        · rename_i st4 h4
          exact closeParenA_ens _ (lookA_ens hcd (tryConsumeStr_adv hi (by simp) h4).lookbehind _ _ _)
        · rename_i st4 h4
          rw [tryConsumeStr_false h4]
          split
          · rename_i st5 h5
            exact closeParenA_ens _ (cdA_ens hcd (tryConsumeStr_adv hi (by simp) h5))
          · rename_i st5 h5
            rw [tryConsumeStr_false h5]
            split
            · -- modifier scan failed
              rename_i e hm
              obtain ⟨cur, rest, _, hr⟩ := modifierGroupHead_some hm
              exact (modifierScan_ens _ _).error_of_eq hr.symm
            · rename_i mods rest hm
              obtain ⟨cur, rest', hinp', hr⟩ := modifierGroupHead_some hm
              have hs : SSuf rest (cur :: rest') := (modifierScan_ens _ _).ok_of_eq hr.symm
              have ha : Adv st { st with input := rest, flags := applyMods st.flags mods } := by
                have := adv_input hi (r := rest) (by
                  rw [hinp']; exact SSuf.of_tail _ (suf_cons _ hs.1))
                exact ⟨⟨⟨hi.named, hi.depth, hi.groups, hi.loops, this.1.inv.bnd⟩, this.1.suf, rfl, rfl⟩,
                  this.2.1, rfl⟩
              apply closeParenA_ens
              have h := hcd _ ha.1.inv ha.2.1
              split
              · rename_i e heq'; exact h.error_of_eq heq'
              · rename_i nd st6 heq'
                have h6 : DisjPost _ (nd, st6) := h.ok_of_eq heq'
                have h6s := h6.2.1
                refine ⟨h6.1, ⟨⟨h6s.inv.named, h6s.inv.depth, h6s.inv.groups, h6s.inv.loops, h6s.inv.bnd⟩,
                  h6s.suf.trans ha.1.suf, h6s.named.trans ha.1.named, h6s.depth.trans ha.1.depth⟩, ?_, ?_⟩
                · have := h6s.suf.length_le; have := ha.2.1; simp only at *; omega
                · have h6g : st6.groupCount = _ + numGroups nd := h6.2.2
                  exact h6g
            · exact atomCaptureA_ens hi hcd result hinp

open Regress Regress.IR

theorem atomClassSetA_ens {st : PState} (hi : Inv st) {c : Nat} {rest0 : List Nat} (result : List Node)
    (hinp : st.input = c :: rest0) : Ens (atomClassSetA st result) (AtomOutPost st result) := by
  unfold atomClassSetA
  rw [consume_eq hinp]
  simp only
  have hi0 : Inv { st with input := rest0 } := (Step.input hi (by rw [hinp]; exact suf_cons _ (suf_refl _))).inv
  have h1 := tryConsume_step (c := 0x5E) hi0
  generalize tryConsume 0x5E { st with input := rest0 } = tc at *
  obtain ⟨negateSet, st1⟩ := tc
  simp only at h1 ⊢
  have hsuf : st1.input <:+ rest0 := h1.1.suf
  have h := (classSet_all st.flags (!st1.named.isEmpty) (2 * st1.input.length + 4)).expr
    { inp := st1.input, depth := st1.depth }
    ⟨by show 2 * st1.input.length + 2 ≤ _; omega, h1.1.inv.bnd, h1.1.inv.depth⟩
  split
  · rename_i e heq; exact h.error_of_eq heq
  · rename_i cs cst heq
    split
    · simp
    have h2 : CSPost _ (cs, cst) := h.ok_of_eq heq
    have hs2 : SSuf cst.inp st1.input := h2.2.1
    have hd2 : cst.depth = st1.depth := h2.2.2
    refine atomPost_leaf (classSetNode_leaf h2.1 _ _) ⟨⟨⟨h1.1.inv.named, ?_, h1.1.inv.groups, h1.1.inv.loops,
      h1.1.inv.bnd.suf hs2.1⟩, ?_, h1.1.named, ?_⟩, ?_, h1.2⟩
    · show cst.depth ≤ _; rw [hd2]; exact h1.1.inv.depth
    · rw [hinp]; exact suf_cons _ (hs2.1.trans hsuf)
    · show cst.depth = st.depth; rw [hd2]; exact h1.1.depth
    · have := hs2.2; have := hsuf.length_le
      simp only [hinp, List.length_cons] at *
      omega

theorem atomCharA_ens {st : PState} (hi : Inv st) {c' : Nat} {rest0 : List Nat} (result : List Node)
    (c : Nat) (hinp : st.input = c' :: rest0) : Ens (atomCharA st result c) (AtomOutPost st result) := by
  unfold atomCharA
  rw [consume_eq hinp]
  simp only
  have h := charNode_ens st.flags c
  split
  · rename_i e heq; exact h.error_of_eq heq
  · rename_i nd heq
    exact atomPost_leaf (h.ok_of_eq heq) (adv_input hi (by rw [hinp]; ssuf_tac))

theorem atomBraceA_ens {st : PState} (hi : Inv st) {c' : Nat} {rest0 : List Nat} (result : List Node)
    (hinp : st.input = c' :: rest0) : Ens (atomBraceA st result) (AtomOutPost st result) := by
  unfold atomBraceA
  have hb := bracedQuantifier_ens c' rest0
  rw [hinp]
  split
  · rename_i e heq; exact hb.error_of_eq heq
  · simp
  · rw [consume_eq hinp]
    simp only
    have h := charNode_ens st.flags c'
    split
    · rename_i e heq; exact h.error_of_eq heq
    · rename_i nd heq
      exact atomPost_leaf (h.ok_of_eq heq) (adv_input hi (by rw [hinp]; ssuf_tac))

theorem leaf_anchor (a b : Bool) : Leaf (.anchor a b) := by simp [Leaf, POut, numGroups]

theorem consumeAtomA_ens {cd : PState → Res (Node × PState)} {st : PState} (hi : Inv st)
    (hcd : CDOk cd st) {c : Nat} {rest0 : List Nat} (result : List Node) (hinp : st.input = c :: rest0) :
    Ens (consumeAtomA cd st result c) (AtomOutPost st result) := by
  have ha : Adv st { st with input := rest0 } := adv_input hi (by rw [hinp]; ssuf_tac)
  unfold consumeAtomA
  simp only
  split
  · rw [consume_eq hinp]; exact atomPost_leaf (leaf_anchor _ _) ha
  split
  · rw [consume_eq hinp]; exact atomPost_leaf (leaf_anchor _ _) ha
  split
  · rename_i hc
    simp only [beq_iff_eq] at hc; subst hc
    exact atomBackslashA_ens hi result hinp
  split
  · rw [consume_eq hinp]
    refine atomPost_leaf ?_ ha
    split <;> simp [Leaf, POut, numGroups]
  split
  · rename_i hc
    simp only [beq_iff_eq] at hc; subst hc
    exact atomParenA_ens hi hcd result hinp
  split
  · exact atomClassSetA_ens hi result hinp
  split
  · have h := consumeBracket_ens st.flags (!st.named.isEmpty) c rest0 (hinp ▸ hi.bnd)
    rw [hinp]
    split
    · rename_i e heq; exact h.error_of_eq heq
    · rename_i nd rest heq
      have h1 := h.ok_of_eq heq
      exact atomPost_leaf h1.1 (adv_input hi (by rw [hinp]; exact h1.2))
  split
  · exact atomBraceA_ens hi result hinp
  split
  · simp
  split
  · simp
  · exact atomCharA_ens hi result c hinp

open Regress Regress.IR

/-- The induction hypothesis / conclusion of the descent at a given amount of fuel. -/
structure DescentIH (fuel : Nat) : Prop where
  disj : ∀ st, Inv st → 4 * st.input.length + 4 ≤ fuel → Ens (consumeDisjunction fuel st) (DisjPost st)
  dloop : ∀ st terms, Inv st → 4 * st.input.length + 3 ≤ fuel → POutList terms →
    Ens (disjLoop fuel st terms) (DLoopPost st terms)
  tloop : ∀ st result, Inv st → 4 * st.input.length + 2 ≤ fuel → POutList result →
    Ens (termLoop fuel st result) (TLoopPost st result)
  atom : ∀ st result c rest, Inv st → st.input = c :: rest → 4 * st.input.length + 1 ≤ fuel →
    Ens (consumeAtom fuel st result c) (AtomOutPost st result)

theorem TLoopPost.compose {st st1 : PState} {result result1 : List Node} {p : Node × PState}
    (hs : Step st st1) (hrel : st1.groupCount + numGroupsList result = st.groupCount + numGroupsList result1)
    (h : TLoopPost st1 result1 p) : TLoopPost st result p := by
  refine ⟨h.1, hs.trans h.2.1, ?_⟩
  have := h.2.2
  omega

theorem quantOk_of_check {q : Quant}
    (h : ¬(match q.max with
      | some mx => decide (q.min > mx)
      | none => false) = true) : QuantOk q := by
  intro m hm
  rw [hm] at h
  simp only [decide_eq_true_eq] at h
  omega

theorem termLoop_step (fuel : Nat) (ih : DescentIH fuel) (st : PState) (result : List Node)
    (hi : Inv st) (hf : 4 * st.input.length + 2 ≤ fuel + 1) (hr : POutList result) :
    Ens (termLoop (fuel + 1) st result) (TLoopPost st result) := by
  generalize hfu : fuel + 1 = f
  fun_cases termLoop f st result
  all_goals try simp only [*]
  all_goals try (simp; done)
  all_goals try (simp at hfu; done)
  all_goals try (cases hfu)
  · exact ⟨makeCat_POut hr, Step.refl hi, by rw [makeCat_numGroups]⟩
  · exact ⟨makeCat_POut hr, Step.refl hi, by rw [makeCat_numGroups]⟩
  · exact (ih.atom st result _ _ hi ‹st.input = _› (by omega)).error_of_eq ‹_›
  · have hA := (ih.atom st result _ _ hi ‹st.input = _› (by omega)).ok_of_eq ‹consumeAtom _ _ _ _ = _›
    exact (quantifier_ens _ _).error_of_eq ‹_›
  · -- no quantifier
    rename_i head r _ out _ _ rest hq hinp hx
    have hA : AtomOutPost st result out := (ih.atom st result _ _ hi hinp (by omega)).ok_of_eq hx
    obtain ⟨pre, added, hres, hoff, hpre, hpre0, hadd, hstep, hlen, hgc⟩ := hA
    have hqs : rest <:+ out.st.input := (quantifier_ens _ _).ok_of_eq hq
    have hs1 := Step.input hstep.inv hqs
    have hl := hqs.length_le
    have hpo : POutList out.result := by
      rw [hres, POutList_append, POutList_append]; exact ⟨⟨hr, hpre⟩, hadd⟩
    refine (ih.tloop _ out.result hs1.inv (by show 4 * rest.length + 2 ≤ fuel; omega) hpo).mono ?_
    intro p hp
    refine TLoopPost.compose (hstep.trans hs1) ?_ hp
    show out.st.groupCount + _ = _
    rw [hres, hgc, numGroupsList_append, numGroupsList_append, hpre0]
    omega
  · -- `split_off(start_offset)`: the offset is within the vector
    rename_i head r _ out _ _ quant rest hq _ _ hgt hinp hx
    have hA : AtomOutPost st result out := (ih.atom st result _ _ hi hinp (by omega)).ok_of_eq hx
    obtain ⟨pre, added, hres, hoff, _⟩ := hA
    have : out.startOffset > out.result.length := hgt
    rw [hres, hoff] at this
    simp at this
    omega
  · -- a quantified atom
    rename_i head r _ out _ _ quant rest hq _ _ hqok hle _ _ hloops _ _ hinp hx
    have hA : AtomOutPost st result out := (ih.atom st result _ _ hi hinp (by omega)).ok_of_eq hx
    obtain ⟨pre, added, hres, hoff, hpre, hpre0, hadd, hstep, hlen, hgc⟩ := hA
    have hqs : rest <:+ out.st.input := (quantifier_ens _ _).ok_of_eq hq
    have hl := hqs.length_le
    have hloops' : out.st.loopCount < Gen.MAX_LOOPS := by
      have : ¬ out.st.loopCount ≥ Gen.MAX_LOOPS := hloops
      omega
    have hi2 : Inv { out.st with input := rest, loopCount := out.st.loopCount + 1 } :=
      ⟨hstep.inv.named, hstep.inv.depth, hstep.inv.groups, by show out.st.loopCount + 1 ≤ _; omega,
        hstep.inv.bnd.suf hqs⟩
    have hs2 : Step st { out.st with input := rest, loopCount := out.st.loopCount + 1 } :=
      ⟨hi2, hqs.trans hstep.suf, hstep.named, hstep.depth⟩
    have hdrop : out.result.drop out.startOffset = added := by
      rw [hres, hoff, ← List.length_append]; exact List.drop_left
    have htake : out.result.take out.startOffset = result ++ pre := by
      rw [hres, hoff, ← List.length_append]; exact List.take_left
    show Ens (termLoop fuel { out.st with input := rest, loopCount := out.st.loopCount + 1 }
      (out.result.take out.startOffset ++
        [.loop (makeCat (out.result.drop out.startOffset)) quant st.groupCount out.st.groupCount])) _
    rw [hdrop, htake]
    have hloop : POut (.loop (makeCat added) quant st.groupCount out.st.groupCount) :=
      ⟨makeCat_POut hadd, quantOk_of_check hqok, by rw [makeCat_numGroups]; exact hgc⟩
    have hpo : POutList (result ++ pre ++ [.loop (makeCat added) quant st.groupCount out.st.groupCount]) := by
      rw [POutList_append, POutList_append]; exact ⟨⟨hr, hpre⟩, hloop, trivial⟩
    refine (ih.tloop _ _ hi2 (by show 4 * rest.length + 2 ≤ fuel; omega) hpo).mono ?_
    intro p hp
    refine TLoopPost.compose hs2 ?_ hp
    show out.st.groupCount + _ = _
    rw [hgc, numGroupsList_append, numGroupsList_append, hpre0]
    simp only [numGroupsList, numGroups, makeCat_numGroups]
    omega

open Regress Regress.IR

theorem disjLoop_step (fuel : Nat) (ih : DescentIH fuel) (st : PState) (terms : List Node)
    (hi : Inv st) (hf : 4 * st.input.length + 3 ≤ fuel + 1) (hr : POutList terms) :
    Ens (disjLoop (fuel + 1) st terms) (DLoopPost st terms) := by
  rw [disjLoop]
  have h := ih.tloop st [] hi (by omega) trivial
  split
  · rename_i e heq; exact h.error_of_eq heq
  · rename_i t st1 heq
    have h1 : TLoopPost st [] (t, st1) := h.ok_of_eq heq
    have hg1 : st1.groupCount = st.groupCount + numGroups t := by
      have := h1.2.2; simpa [numGroupsList] using this
    have hpo : POutList (terms ++ [t]) := by rw [POutList_append]; exact ⟨hr, h1.1, trivial⟩
    simp only
    split
    · rename_i st2 htc
      obtain ⟨rest, hrest, rfl⟩ := tryConsume_true htc
      have hs2 : Step st1 { st1 with input := rest } :=
        Step.input h1.2.1.inv (by rw [hrest]; exact suf_cons _ (suf_refl _))
      have hl := h1.2.1.suf.length_le
      refine (ih.dloop _ _ hs2.inv (by
        show 4 * rest.length + 3 ≤ fuel
        rw [hrest] at hl; simp only [List.length_cons] at hl; omega) hpo).mono ?_
      intro p hp
      refine ⟨hp.1, h1.2.1.trans (hs2.trans hp.2.1), ?_⟩
      have := hp.2.2
      rw [numGroupsList_append] at this
      simp only [numGroupsList] at this
      have hg : ({ st1 with input := rest } : PState).groupCount = st1.groupCount := rfl
      rw [hg] at this
      omega
    · rename_i st2 htc
      rw [tryConsume_false htc]
      refine ⟨hpo, h1.2.1, ?_⟩
      show st1.groupCount + _ = _
      rw [numGroupsList_append]; simp only [numGroupsList]; omega

theorem consumeDisjunction_step (fuel : Nat) (ih : DescentIH fuel) (st : PState)
    (hi : Inv st) (hf : 4 * st.input.length + 4 ≤ fuel + 1) :
    Ens (consumeDisjunction (fuel + 1) st) (DisjPost st) := by
  rw [consumeDisjunction]
  simp only
  split
  · simp
  · rename_i hd
    have hd' : st.depth + 1 ≤ Gen.MAX_NESTING_DEPTH := by
      have : ¬ st.depth + 1 > Gen.MAX_NESTING_DEPTH := hd
      omega
    have hi1 : Inv { st with depth := st.depth + 1 } := ⟨hi.named, hd', hi.groups, hi.loops, hi.bnd⟩
    have h := ih.dloop { st with depth := st.depth + 1 } [] hi1 (by show 4 * st.input.length + 3 ≤ fuel; omega)
      trivial
    split
    · rename_i e heq; exact h.error_of_eq heq
    · rename_i terms st1 heq
      have h1 : DLoopPost _ [] (terms, st1) := h.ok_of_eq heq
      have hs := h1.2.1
      have hd1 : st1.depth = st.depth + 1 := hs.depth
      refine ⟨makeAlt_POut h1.1, ⟨⟨hs.inv.named, ?_, hs.inv.groups, hs.inv.loops, hs.inv.bnd⟩, hs.suf,
        hs.named, ?_⟩, ?_⟩
      · show st1.depth - 1 ≤ _; have := hs.inv.depth; omega
      · show st1.depth - 1 = st.depth; omega
      · show st1.groupCount = st.groupCount + numGroups (makeAlt terms)
        rw [makeAlt_numGroups]
        have := h1.2.2
        simpa [numGroupsList] using this

theorem consumeAtom_step (fuel : Nat) (ih : DescentIH fuel) (st : PState) (result : List Node)
    (c : Nat) (rest : List Nat) (hi : Inv st) (hinp : st.input = c :: rest)
    (hf : 4 * st.input.length + 1 ≤ fuel + 1) :
    Ens (consumeAtom (fuel + 1) st result c) (AtomOutPost st result) := by
  rw [consumeAtom_succ]
  refine consumeAtomA_ens hi ?_ result hinp
  intro st' hi' hl
  exact ih.disj st' hi' (by omega)

/-- **The recursive descent never panics and never runs out of fuel.** -/
theorem descent_all (fuel : Nat) : DescentIH fuel := by
  induction fuel with
  | zero =>
    refine ⟨?_, ?_, ?_, ?_⟩
    · intro st _ h; omega
    · intro st _ _ h; omega
    · intro st _ _ h; omega
    · intro st _ _ _ _ _ h; omega
  | succ fuel ih =>
    exact ⟨consumeDisjunction_step fuel ih, disjLoop_step fuel ih, termLoop_step fuel ih,
      consumeAtom_step fuel ih⟩

end Regress.Parse
