import Proofs.Lemmas.C08FragTop
/-!
# C08 fragment equivalence, part 5: the two duplicate-name checks agree

The crate decides on duplicate group names after its pre-scan: every named group is recorded with its
ALTERNATIVE PATH (for every nesting depth the id of the enclosing group and the index of the alternative
within it), and two groups of the same name conflict unless their paths first differ in the alternative
index of the SAME group (`conflictsWith`, `anyConflict`).  The grammar keeps a SCOPE of names that a new
group may clash with (`scopeGo`).  Here: on the fragment the two verdicts coincide
(`crateDup_eq_scope`), by an invariant that describes the scanner's scope and frames in terms of the
recorded paths.
-/
namespace Regress.C08Frag
open Regress Regress.IR Regress.Parse Regress.ESG

abbrev Path := List (Nat × Nat)

/-! ## `conflictsWith` -/

theorem cw_nil_left (p : Path) : conflictsWith [] p = true := by
  unfold conflictsWith; rfl

theorem cw_nil_right (q : Path) : conflictsWith q [] = true := by
  cases q <;> rfl

theorem cw_cons (a b : Nat × Nat) (q p : Path) :
    conflictsWith (a :: q) (b :: p) = if a != b then a.1 != b.1 else conflictsWith q p := by
  rw [conflictsWith]

/-- A common prefix does not matter. -/
theorem cw_append (l q p : Path) : conflictsWith (l ++ q) (l ++ p) = conflictsWith q p := by
  induction l with
  | nil => rfl
  | cons a l ih => simp only [List.cons_append, cw_cons, bne_self_eq_false, Bool.false_eq_true, if_false, ih]

/-- A path conflicts with its prefixes and extensions. -/
theorem cw_prefix_left (q r : Path) : conflictsWith q (q ++ r) = true := by
  have := cw_append q [] r
  rw [List.append_nil] at this
  rw [this, cw_nil_left]

theorem cw_prefix_right (p r : Path) : conflictsWith (p ++ r) p = true := by
  have := cw_append p r []
  rw [List.append_nil] at this
  rw [this, cw_nil_right]

/-- One more segment on the right does not matter for a path that is shorter, or that has another group
at that depth. -/
theorem cw_snoc (x : Nat × Nat) : ∀ (p q : Path), (∀ s, q[p.length]? = some s → s.1 ≠ x.1) →
    conflictsWith q (p ++ [x]) = conflictsWith q p := by
  intro p
  induction p with
  | nil =>
    intro q h
    rcases q with _ | ⟨a, q⟩
    · rfl
    · have := h a rfl
      simp only [List.nil_append, cw_cons, cw_nil_right]
      have hne : (a != x) = true := by
        simp only [bne_iff_ne, ne_eq]
        intro e; exact this (by rw [e])
      simp [hne, this]
  | cons b p ih =>
    intro q h
    rcases q with _ | ⟨a, q⟩
    · rfl
    · simp only [List.cons_append, cw_cons]
      rw [ih q (fun s hs => h s (by simpa using hs))]

/-! ## The association lists of the pre-scan -/

theorem altGet_insert (m : List (Nat × Nat)) (k v d : Nat) :
    altGet (altInsert m k v) d = if d = k then some v else altGet m d := by
  induction m with
  | nil =>
    simp only [altInsert, altGet]
    by_cases h : d = k
    · subst h; simp
    · have : (k == d) = false := by simp; exact fun e => h e.symm
      simp [this, h]
  | cons e m ih =>
    obtain ⟨k', w⟩ := e
    unfold altInsert
    by_cases hk : k' = k
    · subst hk
      simp only [beq_self_eq_true, if_true]
      unfold altGet
      by_cases h : d = k'
      · subst h; simp
      · have : (k' == d) = false := by simp; exact fun e => h e.symm
        simp [this, h]
    · have hb : (k' == k) = false := by simpa using hk
      simp only [hb, Bool.false_eq_true, if_false]
      unfold altGet
      by_cases h : k' = d
      · subst h
        simp [hk]
      · have hb2 : (k' == d) = false := by simpa using h
        simp only [hb2, Bool.false_eq_true, if_false]
        exact ih

theorem altGet_remove (m : List (Nat × Nat)) (k d : Nat) (h : d ≠ k) :
    altGet (altRemove m k) d = altGet m d := by
  induction m with
  | nil => rfl
  | cons e m ih =>
    obtain ⟨k', w⟩ := e
    unfold altRemove
    simp only [List.filter_cons]
    by_cases hk : k' = k
    · subst hk
      simp only [bne_self_eq_false, Bool.false_eq_true, if_false]
      have : (k' == d) = false := by simp; exact fun e => h e.symm
      rw [altGet, this]
      simp only [Bool.false_eq_true, if_false]
      exact ih
    · have hb : (k' != k) = true := by simpa using hk
      simp only [hb, if_true]
      rw [altGet, altGet]
      split
      · rfl
      · exact ih

/-- The two depth-indexed maps hold the stack `R` (top first) of (group id, alternative index). -/
def Rep (gids alts : List (Nat × Nat)) : Path → Prop
  | [] => True
  | (g, a) :: R => altGet gids R.length = some g ∧ altGet alts R.length = some a ∧ Rep gids alts R

theorem Rep.mono {gids alts gids' alts' : List (Nat × Nat)} : ∀ {R : Path}, Rep gids alts R →
    (∀ d, d < R.length → altGet gids' d = altGet gids d) → (∀ d, d < R.length → altGet alts' d = altGet alts d) →
    Rep gids' alts' R := by
  intro R
  induction R with
  | nil => intros; trivial
  | cons x R ih =>
    obtain ⟨g, a⟩ := x
    intro h h1 h2
    simp only [List.length_cons] at h1 h2
    exact ⟨by rw [h1 _ (Nat.lt_succ_self _)]; exact h.1, by rw [h2 _ (Nat.lt_succ_self _)]; exact h.2.1,
      ih h.2.2 (fun d hd => h1 d (by omega)) (fun d hd => h2 d (by omega))⟩

/-- The segments the pre-scan records for a named group are the stack, bottom first. -/
theorem Rep.segments {gids alts : List (Nat × Nat)} : ∀ {R : Path}, Rep gids alts R →
    (List.range R.length).map (fun d => ((altGet gids d).getD 0, (altGet alts d).getD 0)) = R.reverse := by
  intro R
  induction R with
  | nil => intro _; rfl
  | cons x R ih =>
    obtain ⟨g, a⟩ := x
    intro h
    rw [List.length_cons, List.range_succ, List.map_append, ih h.2.2, List.reverse_cons]
    simp [h.1, h.2.1]

/-! ## `mapPush`, `anyConflict` -/

theorem anyConflict_snoc (l : List Path) (p : Path) :
    anyConflict (l ++ [p]) = (anyConflict l || l.any (fun q => conflictsWith q p)) := by
  induction l with
  | nil => simp [anyConflict]
  | cons q l ih =>
    simp only [List.cons_append, anyConflict, List.any_append, List.any_cons, List.any_nil, Bool.or_false, ih]
    cases List.any l (conflictsWith q) <;> cases conflictsWith q p <;> cases anyConflict l <;> simp

/-- The locations recorded for a name. -/
def occ (locs : List (List Nat × List Path)) (nm : List Nat) : List Path := (mapGet locs nm).getD []

theorem occ_push (locs : List (List Nat × List Path)) (k : List Nat) (v : Path) (nm : List Nat) :
    occ (mapPush locs k v) nm = if nm = k then occ locs k ++ [v] else occ locs nm := by
  unfold occ
  induction locs with
  | nil =>
    simp only [mapPush, mapGet]
    by_cases h : nm = k
    · subst h; simp
    · have : (k == nm) = false := by simp; exact fun e => h e.symm
      simp [this, h]
  | cons e m ih =>
    obtain ⟨k', vs⟩ := e
    unfold mapPush
    by_cases hk : k' = k
    · subst hk
      simp only [beq_self_eq_true, if_true]
      unfold mapGet
      by_cases h : nm = k'
      · subst h; simp
      · have : (k' == nm) = false := by simp; exact fun e => h e.symm
        simp [this, h]
    · have hb : (k' == k) = false := by simpa using hk
      simp only [hb, Bool.false_eq_true, if_false]
      unfold mapGet
      by_cases h : k' = nm
      · subst h
        simp [hk]
      · have hb2 : (k' == nm) = false := by simpa using h
        simp only [hb2, hb, Bool.false_eq_true, if_false]
        exact ih

/-- The crate's verdict so far. -/
def confl (locs : List (List Nat × List Path)) : Bool := locs.any (fun e => anyConflict e.2)

theorem confl_push (locs : List (List Nat × List Path)) (k : List Nat) (v : Path) :
    confl (mapPush locs k v) = (confl locs || (occ locs k).any (fun q => conflictsWith q v)) := by
  unfold confl occ
  induction locs with
  | nil => simp [mapPush, mapGet, anyConflict]
  | cons e m ih =>
    obtain ⟨k', vs⟩ := e
    unfold mapPush
    by_cases hk : k' = k
    · subst hk
      simp only [beq_self_eq_true, if_true, List.any_cons, mapGet, Option.getD_some, anyConflict_snoc]
      cases anyConflict vs <;> cases List.any vs fun q => conflictsWith q v <;> simp
    · have hb : (k' == k) = false := by simpa using hk
      simp only [hb, Bool.false_eq_true, if_false, List.any_cons, mapGet, ih]
      cases anyConflict vs <;> simp

/-! ## The invariant -/

/-- History: a recorded path `q` that is inside the group the stack `R` (top first) has at some depth
shares the stack below that depth, in an alternative that is not later. -/
def Hist (q : Path) : Path → Prop
  | [] => True
  | (g, a) :: R => (∀ b, q[R.length]? = some (g, b) → q.take R.length = R.reverse ∧ b ≤ a) ∧ Hist q R

/-- The frames of the scope scanner against the stack: `sv` holds the names with a location outside
the group that conflicts with the stack below; `acc` those of the earlier alternatives of the group
(and `sv`, once an alternative is complete). -/
def FrInv (oc : List Nat → List Path) : List Frame → Path → Prop
  | [], [] => True
  | (sv, acc) :: stk, (g, a) :: R =>
      (∀ nm, nm ∈ sv ↔ ∃ q ∈ oc nm, (∀ b, q[R.length]? ≠ some (g, b)) ∧ conflictsWith q R.reverse = true) ∧
      (∀ nm, nm ∈ acc ↔ (0 < a ∧ nm ∈ sv) ∨ ∃ q ∈ oc nm, ∃ b, q[R.length]? = some (g, b) ∧ b < a) ∧
      FrInv oc stk R
  | _, _ => False

structure DI (oc : List Nat → List Path) (next : Nat) (R : Path) (stk : List Frame) (cur : List (List Nat)) :
    Prop where
  freshR : ∀ s ∈ R, s.1 < next
  freshQ : ∀ nm, ∀ q ∈ oc nm, ∀ s ∈ q, s.1 < next
  hist : ∀ nm, ∀ q ∈ oc nm, Hist q R
  cur : ∀ nm, nm ∈ cur ↔ ∃ q ∈ oc nm, conflictsWith q R.reverse = true
  frames : FrInv oc stk R

/-- A location inside the top group: it conflicts with the stack exactly when it is in the current
alternative. -/
theorem cw_top_in {q R : Path} {g a b : Nat} (hq : q[R.length]? = some (g, b))
    (hh : q.take R.length = R.reverse) :
    conflictsWith q (R.reverse ++ [(g, a)]) = decide (b = a) := by
  have hlt : R.length < q.length := by
    rcases Nat.lt_or_ge R.length q.length with h | h
    · exact h
    · rw [List.getElem?_eq_none h] at hq; cases hq
  have hd : q.drop R.length = (g, b) :: q.drop (R.length + 1) := by
    rw [List.drop_eq_getElem_cons hlt]
    congr 1
    have := List.getElem?_eq_getElem hlt
    rw [this] at hq
    exact Option.some.inj hq
  have hq' : q = R.reverse ++ (g, b) :: q.drop (R.length + 1) := by
    rw [← hh, ← hd, List.take_append_drop]
  rw [hq', cw_append, cw_cons]
  by_cases hba : b = a
  · subst hba; simp [cw_nil_right]
  · have : ((g, b) != (g, a)) = true := by simp [hba]
    simp [this, hba]

/-- … and with the stack below. -/
theorem cw_in_below {q R : Path} (hh : q.take R.length = R.reverse) : conflictsWith q R.reverse = true := by
  have : q = R.reverse ++ q.drop R.length := by rw [← hh, List.take_append_drop]
  rw [this]
  exact cw_prefix_right _ _

/-- A location outside the top group: the top segment does not matter. -/
theorem cw_top_out {q R : Path} {g : Nat} (a : Nat) (hq : ∀ b, q[R.length]? ≠ some (g, b)) :
    conflictsWith q (R.reverse ++ [(g, a)]) = conflictsWith q R.reverse := by
  apply cw_snoc
  intro s hs he
  rw [List.length_reverse] at hs
  obtain ⟨s1, s2⟩ := s
  simp only at he
  subst he
  exact hq s2 hs

theorem frInv_cons {oc : List Nat → List Path} {sv acc : List (List Nat)} {stk : List Frame} {g a : Nat} {R : Path} :
    FrInv oc ((sv, acc) :: stk) ((g, a) :: R) ↔
      (∀ nm, nm ∈ sv ↔ ∃ q ∈ oc nm, (∀ b, q[R.length]? ≠ some (g, b)) ∧ conflictsWith q R.reverse = true) ∧
      (∀ nm, nm ∈ acc ↔ (0 < a ∧ nm ∈ sv) ∨ ∃ q ∈ oc nm, ∃ b, q[R.length]? = some (g, b) ∧ b < a) ∧
      FrInv oc stk R := by
  rw [FrInv]

theorem frInv_nil_cons {oc : List Nat → List Path} {x : Nat × Nat} {R : Path} : ¬ FrInv oc [] (x :: R) := by
  intro h
  simp [FrInv] at h

theorem frInv_cons_nil {oc : List Nat → List Path} {fr : Frame} {stk : List Frame} : ¬ FrInv oc (fr :: stk) [] := by
  intro h
  simp [FrInv] at h

/-! ### The four events -/

/-- `(`: a new group with a fresh id. -/
theorem DI.push {oc : List Nat → List Path} {next : Nat} {R : Path} {stk : List Frame} {cur : List (List Nat)}
    (h : DI oc next R stk cur) : DI oc (next + 1) ((next, 0) :: R) ((cur, []) :: stk) cur := by
  have hout : ∀ nm, ∀ q ∈ oc nm, ∀ b, q[R.length]? ≠ some (next, b) := by
    intro nm q hq b hb
    have := h.freshQ nm q hq _ (List.mem_of_getElem? hb)
    simp at this
  refine ⟨?_, ?_, ?_, ?_, ?_⟩
  · intro s hs
    rcases List.mem_cons.1 hs with rfl | hs
    · exact Nat.lt_succ_self _
    · exact Nat.lt_succ_of_lt (h.freshR s hs)
  · intro nm q hq s hs
    exact Nat.lt_succ_of_lt (h.freshQ nm q hq s hs)
  · intro nm q hq
    exact ⟨fun b hb => absurd hb (hout nm q hq b), h.hist nm q hq⟩
  · intro nm
    rw [h.cur nm, List.reverse_cons]
    constructor
    · rintro ⟨q, hq, hc⟩
      exact ⟨q, hq, by rw [cw_top_out 0 (hout nm q hq)]; exact hc⟩
    · rintro ⟨q, hq, hc⟩
      exact ⟨q, hq, by rw [cw_top_out 0 (hout nm q hq)] at hc; exact hc⟩
  · rw [frInv_cons]
    refine ⟨fun nm => ?_, fun nm => ?_, h.frames⟩
    · rw [h.cur nm]
      constructor
      · rintro ⟨q, hq, hc⟩
        exact ⟨q, hq, hout nm q hq, hc⟩
      · rintro ⟨q, hq, _, hc⟩
        exact ⟨q, hq, hc⟩
    · constructor
      · intro hm; cases hm
      · rintro (⟨h0, _⟩ | ⟨q, hq, b, _, hb⟩)
        · exact absurd h0 (Nat.lt_irrefl 0)
        · exact absurd hb (Nat.not_lt_zero b)

theorem rev_at (pre : Path) (x : Nat × Nat) (R : Path) : (pre ++ x :: R).reverse[R.length]? = some x := by
  rw [List.reverse_append, List.reverse_cons, List.append_assoc]
  rw [List.getElem?_append_right (by rw [List.length_reverse]; exact Nat.le_refl _)]
  simp

theorem rev_take (pre : Path) (x : Nat × Nat) (R : Path) : (pre ++ x :: R).reverse.take R.length = R.reverse := by
  rw [List.reverse_append, List.reverse_cons, List.append_assoc]
  rw [List.take_append_of_le_length (by rw [List.length_reverse]; exact Nat.le_refl _)]
  rw [List.take_of_length_le (by rw [List.length_reverse]; exact Nat.le_refl _)]

theorem hist_self : ∀ (R pre : Path), Hist (pre ++ R).reverse R := by
  intro R
  induction R with
  | nil => intro pre; trivial
  | cons x R ih =>
    obtain ⟨g, a⟩ := x
    intro pre
    refine ⟨fun b hb => ?_, ?_⟩
    · rw [rev_at] at hb
      have : a = b := by
        have := Option.some.inj hb
        exact (Prod.mk.inj this).2
      subst this
      exact ⟨rev_take pre (g, a) R, Nat.le_refl _⟩
    · have := ih (pre ++ [(g, a)])
      rw [List.append_assoc] at this
      exact this

/-- Recording a location does not disturb the frames: the new location is inside every open group, in
its current alternative. -/
theorem frInv_record {oc oc' : List Nat → List Path} {nm : List Nat} {qn : Path}
    (hoc : ∀ x, oc' x = if x = nm then oc nm ++ [qn] else oc x) :
    ∀ (stk : List Frame) (R pre : Path), qn = (pre ++ R).reverse → FrInv oc stk R → FrInv oc' stk R := by
  have hex : ∀ (x : List Nat) (Pr : Path → Prop), ¬ Pr qn → ((∃ q ∈ oc' x, Pr q) ↔ ∃ q ∈ oc x, Pr q) := by
    intro x Pr hn
    rw [hoc x]
    by_cases hx : x = nm
    · subst hx
      simp only [if_true, List.mem_append, List.mem_singleton]
      constructor
      · rintro ⟨q, hq | hq, hp⟩
        · exact ⟨q, hq, hp⟩
        · subst hq; exact absurd hp hn
      · rintro ⟨q, hq, hp⟩
        exact ⟨q, .inl hq, hp⟩
    · simp only [hx, if_false]
  intro stk
  induction stk with
  | nil =>
    intro R pre _ h
    cases R with
    | nil => trivial
    | cons x R => exact absurd h frInv_nil_cons
  | cons fr stk ih =>
    obtain ⟨sv, acc⟩ := fr
    intro R pre hqn h
    cases R with
    | nil => exact absurd h frInv_cons_nil
    | cons x R =>
      obtain ⟨g, a⟩ := x
      rw [frInv_cons] at h ⊢
      obtain ⟨h1, h2, h3⟩ := h
      have hat : qn[R.length]? = some (g, a) := by rw [hqn]; exact rev_at pre (g, a) R
      refine ⟨fun x => ?_, fun x => ?_, ih R (pre ++ [(g, a)]) (by rw [hqn, List.append_assoc]; rfl) h3⟩
      · rw [h1 x]
        exact (hex x _ (fun hp => hp.1 a hat)).symm
      · have hsv : x ∈ sv ↔ ∃ q ∈ oc' x, (∀ b, q[R.length]? ≠ some (g, b)) ∧ conflictsWith q R.reverse = true := by
          rw [h1 x]; exact (hex x _ (fun hp => hp.1 a hat)).symm
        rw [h2 x]
        have := hex x (fun q => ∃ b, q[R.length]? = some (g, b) ∧ b < a) (by
          rintro ⟨b, hb, hlt⟩
          rw [hat] at hb
          have : a = b := (Prod.mk.inj (Option.some.inj hb)).2
          omega)
        rw [this]

/-- A named group: its location is recorded, its name enters the scope. -/
theorem DI.record {oc oc' : List Nat → List Path} {next : Nat} {R : Path} {stk : List Frame}
    {cur : List (List Nat)} (h : DI oc next R stk cur) (nm : List Nat)
    (hoc : ∀ x, oc' x = if x = nm then oc nm ++ [R.reverse] else oc x) :
    DI oc' next R stk (nm :: cur) := by
  have hmem : ∀ x q, q ∈ oc' x → q ∈ oc x ∨ (x = nm ∧ q = R.reverse) := by
    intro x q hq
    rw [hoc x] at hq
    by_cases hx : x = nm
    · subst hx
      simp only [if_true, List.mem_append, List.mem_singleton] at hq
      rcases hq with hq | hq
      · exact .inl hq
      · exact .inr ⟨rfl, hq⟩
    · simp only [hx, if_false] at hq
      exact .inl hq
  have hsub : ∀ x q, q ∈ oc x → q ∈ oc' x := by
    intro x q hq
    rw [hoc x]
    by_cases hx : x = nm
    · subst hx; simp [hq]
    · simp [hx, hq]
  refine ⟨h.freshR, ?_, ?_, ?_, frInv_record hoc stk R [] rfl h.frames⟩
  · intro x q hq s hs
    rcases hmem x q hq with hq | ⟨_, rfl⟩
    · exact h.freshQ x q hq s hs
    · exact h.freshR s (List.mem_reverse.1 hs)
  · intro x q hq
    rcases hmem x q hq with hq | ⟨_, rfl⟩
    · exact h.hist x q hq
    · exact hist_self R []
  · intro x
    constructor
    · intro hx
      rcases List.mem_cons.1 hx with rfl | hx
      · refine ⟨R.reverse, ?_, ?_⟩
        · rw [hoc x]; simp
        · have := cw_prefix_left R.reverse []
          rwa [List.append_nil] at this
      · obtain ⟨q, hq, hc⟩ := (h.cur x).1 hx
        exact ⟨q, hsub x q hq, hc⟩
    · rintro ⟨q, hq, hc⟩
      rcases hmem x q hq with hq | ⟨rfl, _⟩
      · exact List.mem_cons_of_mem _ ((h.cur x).2 ⟨q, hq, hc⟩)
      · exact List.mem_cons_self

/-- `|`: the next alternative of the top group. -/
theorem DI.bar {oc : List Nat → List Path} {next g a : Nat} {R : Path} {sv acc : List (List Nat)}
    {stk : List Frame} {cur : List (List Nat)} (h : DI oc next ((g, a) :: R) ((sv, acc) :: stk) cur) :
    DI oc next ((g, a + 1) :: R) ((sv, acc ++ cur) :: stk) sv := by
  obtain ⟨f1, f2, f3⟩ := frInv_cons.1 h.frames
  have hin : ∀ nm, ∀ q ∈ oc nm, ∀ b, q[R.length]? = some (g, b) → q.take R.length = R.reverse ∧ b ≤ a :=
    fun nm q hq b hb => (h.hist nm q hq).1 b hb
  have hcur : ∀ nm, nm ∈ cur ↔ ∃ q ∈ oc nm, conflictsWith q (R.reverse ++ [(g, a)]) = true := by
    intro nm; rw [h.cur nm, List.reverse_cons]
  refine ⟨?_, h.freshQ, ?_, ?_, ?_⟩
  · intro s hs
    rcases List.mem_cons.1 hs with rfl | hs
    · exact h.freshR (g, a) (List.mem_cons_self)
    · exact h.freshR s (List.mem_cons_of_mem _ hs)
  · intro nm q hq
    exact ⟨fun b hb => ⟨(hin nm q hq b hb).1, Nat.le_succ_of_le (hin nm q hq b hb).2⟩, (h.hist nm q hq).2⟩
  · intro nm
    rw [List.reverse_cons]
    constructor
    · intro hm
      obtain ⟨q, hq, hout, hc⟩ := (f1 nm).1 hm
      exact ⟨q, hq, by rw [cw_top_out (a + 1) hout]; exact hc⟩
    · rintro ⟨q, hq, hc⟩
      by_cases hb : ∃ b, q[R.length]? = some (g, b)
      · obtain ⟨b, hb⟩ := hb
        obtain ⟨ht, hle⟩ := hin nm q hq b hb
        rw [cw_top_in hb ht] at hc
        have : b = a + 1 := by simpa using hc
        omega
      · have hout : ∀ b, q[R.length]? ≠ some (g, b) := fun b e => hb ⟨b, e⟩
        rw [cw_top_out (a + 1) hout] at hc
        exact (f1 nm).2 ⟨q, hq, hout, hc⟩
  · rw [frInv_cons]
    refine ⟨f1, fun nm => ?_, f3⟩
    rw [List.mem_append, f2 nm, hcur nm]
    constructor
    · rintro ((⟨h0, hs⟩ | ⟨q, hq, b, hb, hlt⟩) | ⟨q, hq, hc⟩)
      · exact .inl ⟨Nat.succ_pos _, hs⟩
      · exact .inr ⟨q, hq, b, hb, Nat.lt_succ_of_lt hlt⟩
      · by_cases hb : ∃ b, q[R.length]? = some (g, b)
        · obtain ⟨b, hb⟩ := hb
          obtain ⟨ht, hle⟩ := hin nm q hq b hb
          rw [cw_top_in hb ht] at hc
          have : b = a := by simpa using hc
          exact .inr ⟨q, hq, b, hb, by omega⟩
        · have hout : ∀ b, q[R.length]? ≠ some (g, b) := fun b e => hb ⟨b, e⟩
          rw [cw_top_out a hout] at hc
          exact .inl ⟨Nat.succ_pos _, (f1 nm).2 ⟨q, hq, hout, hc⟩⟩
    · rintro (⟨_, hs⟩ | ⟨q, hq, b, hb, hlt⟩)
      · obtain ⟨q, hq, hout, hc⟩ := (f1 nm).1 hs
        exact .inr ⟨q, hq, by rw [cw_top_out a hout]; exact hc⟩
      · obtain ⟨ht, hle⟩ := hin nm q hq b hb
        by_cases hba : b = a
        · exact .inr ⟨q, hq, by rw [cw_top_in hb ht]; simpa using hba⟩
        · exact .inl (.inr ⟨q, hq, b, hb, by omega⟩)

/-- `)`: the top group is closed. -/
theorem DI.pop {oc : List Nat → List Path} {next g a : Nat} {R : Path} {sv acc : List (List Nat)}
    {stk : List Frame} {cur : List (List Nat)} (h : DI oc next ((g, a) :: R) ((sv, acc) :: stk) cur) :
    DI oc next R stk (acc ++ cur) := by
  obtain ⟨f1, f2, f3⟩ := frInv_cons.1 h.frames
  have hin : ∀ nm, ∀ q ∈ oc nm, ∀ b, q[R.length]? = some (g, b) → q.take R.length = R.reverse ∧ b ≤ a :=
    fun nm q hq b hb => (h.hist nm q hq).1 b hb
  have hcur : ∀ nm, nm ∈ cur ↔ ∃ q ∈ oc nm, conflictsWith q (R.reverse ++ [(g, a)]) = true := by
    intro nm; rw [h.cur nm, List.reverse_cons]
  refine ⟨fun s hs => h.freshR s (List.mem_cons_of_mem _ hs), h.freshQ, fun nm q hq => (h.hist nm q hq).2, ?_, f3⟩
  intro nm
  rw [List.mem_append, f2 nm, hcur nm]
  constructor
  · rintro ((⟨_, hs⟩ | ⟨q, hq, b, hb, _⟩) | ⟨q, hq, hc⟩)
    · obtain ⟨q, hq, _, hc⟩ := (f1 nm).1 hs
      exact ⟨q, hq, hc⟩
    · exact ⟨q, hq, cw_in_below (hin nm q hq b hb).1⟩
    · by_cases hb : ∃ b, q[R.length]? = some (g, b)
      · obtain ⟨b, hb⟩ := hb
        exact ⟨q, hq, cw_in_below (hin nm q hq b hb).1⟩
      · have hout : ∀ b, q[R.length]? ≠ some (g, b) := fun b e => hb ⟨b, e⟩
        rw [cw_top_out a hout] at hc
        exact ⟨q, hq, hc⟩
  · rintro ⟨q, hq, hc⟩
    by_cases hb : ∃ b, q[R.length]? = some (g, b)
    · obtain ⟨b, hb⟩ := hb
      obtain ⟨ht, hle⟩ := hin nm q hq b hb
      by_cases hba : b = a
      · exact .inr ⟨q, hq, by rw [cw_top_in hb ht]; simpa using hba⟩
      · exact .inl (.inr ⟨q, hq, b, hb, by omega⟩)
    · have hout : ∀ b, q[R.length]? ≠ some (g, b) := fun b e => hb ⟨b, e⟩
      exact .inr ⟨q, hq, by rw [cw_top_out a hout]; exact hc⟩

/-! ## The scanner through the pre-scan's bracket skipping -/

theorem scopeGo_bs_end (v : Bool) (stk : List Frame) (cur : List (List Nat)) : scopeGo v 0 stk cur [0x5C] = true := by
  rw [scopeGo] <;> simp [scopeGo_nil]

theorem scopeGo_bs_end_in (v : Bool) (d : Nat) (stk : List Frame) (cur : List (List Nat)) :
    scopeGo v (d + 1) stk cur [0x5C] = true := by
  rw [scopeGo] <;> simp [scopeGo_nil]

theorem scopeGo_rparen_bottom (v : Bool) (fr : Frame) (cur : List (List Nat)) (r : List Nat) :
    scopeGo v 0 [fr] cur (0x29 :: r) = scopeGo v 0 [fr] cur r := by
  rw [scopeGo]
  intro sv acc fr' rest h
  cases h

theorem skipBracket_scope (stk : List Frame) (cur : List (List Nat)) (rest : List Nat) :
    scopeGo false 1 stk cur rest = scopeGo false 0 stk cur (skipBracket rest) := by
  fun_induction skipBracket rest with
  | case1 => rw [scopeGo_nil, scopeGo_nil]
  | case2 c hc =>
    have : c = 0x5C := by simpa using hc
    subst this
    rw [scopeGo_nil, scopeGo_bs_end_in]
  | case3 c hc x r ih =>
    have : c = 0x5C := by simpa using hc
    subst this
    rw [scopeGo_esc]; exact ih
  | case4 c rest h1 h2 =>
    have hc : c = 0x5D := by simpa using h2
    subst hc
    exact scopeGo_close false 0 stk cur rest
  | case5 c rest h1 h2 ih =>
    have hc1 : c ≠ 0x5C := by simpa using h1
    have hc2 : c ≠ 0x5D := by simpa using h2
    rw [scopeGo_in false 0 stk cur rest hc1 hc2 (.inl rfl)]; exact ih

theorem skipBracketV_scope (stk : List Frame) (cur : List (List Nat)) (rest : List Nat) (d : Nat) : 1 ≤ d →
    scopeGo true d stk cur rest = scopeGo true 0 stk cur (skipBracketV rest d) := by
  fun_induction skipBracketV rest d with
  | case1 d => intro _; rw [scopeGo_nil, scopeGo_nil]
  | case2 c d hc =>
    intro hd
    obtain ⟨e, rfl⟩ : ∃ e, d = e + 1 := ⟨d - 1, by omega⟩
    have : c = 0x5C := by simpa using hc
    subst this
    rw [scopeGo_nil, scopeGo_bs_end_in]
  | case3 c d hc x r ih =>
    intro hd
    have : c = 0x5C := by simpa using hc
    subst this
    rw [scopeGo_esc]; exact ih hd
  | case4 c rest d h1 h2 ih =>
    intro hd
    obtain ⟨e, rfl⟩ : ∃ e, d = e + 1 := ⟨d - 1, by omega⟩
    have : c = 0x5B := by simpa using h2
    subst this
    rw [scopeGo_nest]; exact ih (by omega)
  | case5 c rest d h1 h2 h3 h4 =>
    intro hd
    have hc : c = 0x5D := by simpa using h3
    subst hc
    have hd1 : d = 1 := by
      have : d - 1 = 0 := by simpa using h4
      omega
    subst hd1
    exact scopeGo_close true 0 stk cur rest
  | case6 c rest d h1 h2 h3 h4 ih =>
    intro hd
    have hc : c = 0x5D := by simpa using h3
    subst hc
    have hd2 : 2 ≤ d := by
      have : ¬ (d - 1 = 0) := by simpa using h4
      omega
    obtain ⟨e, rfl⟩ : ∃ e, d = e + 2 := ⟨d - 2, by omega⟩
    have ih := ih (by omega)
    have e1 : e + 2 - 1 = e + 1 := by omega
    rw [e1] at ih
    rw [scopeGo_close]; exact ih
  | case7 c rest d h1 h2 h3 ih =>
    intro hd
    obtain ⟨e, rfl⟩ : ∃ e, d = e + 1 := ⟨d - 1, by omega⟩
    have hc1 : c ≠ 0x5C := by simpa using h1
    have hc2 : c ≠ 0x5B := by simpa using h2
    have hc3 : c ≠ 0x5D := by simpa using h3
    rw [scopeGo_in true e stk cur rest hc1 hc3 (.inr hc2)]; exact ih hd

/-! ## The pre-scan's state against the stack -/

structure SI (sc : Scan) (R : Path) : Prop where
  len : sc.parenDepth + 1 = R.length
  rep : Rep sc.groupIds sc.altIdx R

theorem SI.segments {sc : Scan} {R : Path} (h : SI sc R) :
    ((List.range (sc.parenDepth + 1)).map fun d =>
      ((altGet sc.groupIds d).getD 0, (altGet sc.altIdx d).getD 0)) = R.reverse := by
  rw [h.len]; exact h.rep.segments

theorem any_cw_eq {oc : List Path} {cur : List (List Nat)} {nm : List Nat} {P : Path}
    (h : nm ∈ cur ↔ ∃ q ∈ oc, conflictsWith q P = true) :
    oc.any (fun q => conflictsWith q P) = cur.contains nm := by
  rw [Bool.eq_iff_iff, List.any_eq_true, List.contains_eq_mem, decide_eq_true_eq, h]

/-- A new group: the two maps, and the invariant. -/
theorem SI.push {sc : Scan} {R : Path} (h : SI sc R) (locs : List (List Nat × List Path))
    (named : List (List Nat × List Nat)) (gmax : Nat) :
    SI { sc with locs := locs, named := named, gmax := gmax, parenDepth := sc.parenDepth + 1,
                 altIdx := altInsert sc.altIdx (sc.parenDepth + 1) 0,
                 groupIds := altInsert sc.groupIds (sc.parenDepth + 1) sc.nextGroupId,
                 nextGroupId := sc.nextGroupId + 1 } ((sc.nextGroupId, 0) :: R) := by
  refine ⟨by simp only [List.length_cons]; rw [h.len], ?_⟩
  have hl := h.len
  refine ⟨by simp only; rw [altGet_insert, if_pos hl.symm], by simp only; rw [altGet_insert, if_pos hl.symm], ?_⟩
  exact h.rep.mono (fun d hd => by simp only; rw [altGet_insert, if_neg (by omega)])
    (fun d hd => by simp only; rw [altGet_insert, if_neg (by omega)])

/-- **The two duplicate checks in lockstep**: over the rest of the input the crate finds a conflict
exactly when it has found one already or the scope scanner rejects. -/
theorem scanLoop_dup (F : Feat) (fl : Flags) (hkv : (F.k || F.lk) = true → fl.unicodeSets = false)
    (hvv : F.vk = true → fl.unicodeSets = true ∧ F.k = false ∧ F.lk = false) :
    ∀ (fuel : Nat) (inp : List Nat) (sc : Scan) (stk : List Frame) (cur : List (List Nat)) (R : Path),
    fragCore F inp = true → (F.nm = true → AllChar inp) → inp.length < fuel → SI sc R →
    DI (occ sc.locs) sc.nextGroupId R stk cur →
    ∀ sc', scanLoop fl fuel inp sc = .ok sc' →
      confl sc'.locs = (confl sc.locs || !scopeGo F.vk 0 stk cur inp) := by
  intro fuel
  induction fuel with
  | zero => intro inp sc stk cur R _ _ hf; omega
  | succ fuel ih =>
    intro inp sc stk cur R hfr hch hf hsi hdi sc' hrun
    unfold scanLoop at hrun
    rcases inp with _ | ⟨c, rest⟩
    · simp only at hrun
      cases hrun
      rw [scopeGo_nil]; simp
    · simp only [List.length_cons] at hf
      have hch' : F.nm = true → AllChar rest := fun h => (hch h).tail
      by_cases hc1 : c = 0x5C
      · -- an escape
        subst hc1
        simp only [beq_self_eq_true, if_true] at hrun
        rcases rest with _ | ⟨x, r⟩
        · have := ih [] sc stk cur R rfl (fun _ => by intro c hc; cases hc) (by simp; omega) hsi hdi sc' hrun
          rw [scopeGo_nil] at this
          rw [scopeGo_bs_end]; exact this
        · rw [fragCore_esc] at hfr
          simp only [Bool.and_eq_true] at hfr
          simp only [List.length_cons] at hf
          rw [scopeGo_esc]
          exact ih r sc stk cur R hfr.2 (fun h => (hch' h).tail) (by omega) hsi hdi sc' hrun
      have e1 : (c == 0x5C) = false := by simp [hc1]
      by_cases hc2 : c = 0x5B
      · -- a class
        subst hc2
        simp only [e1, beq_self_eq_true, Bool.false_eq_true, if_false, if_true] at hrun
        unfold fragCore at hfr
        rw [fragGo_open, Bool.and_eq_true] at hfr
        rw [scopeGo_open]
        cases hvk : F.vk with
        | true =>
          rw [(hvv hvk).1] at hrun
          simp only [if_true] at hrun
          obtain ⟨_, _, hs3⟩ := skipBracketV_scan F hvk rest 1 (Nat.le_refl _)
          have hlen := skipBracketV_length rest 1
          rw [hvk] at ih
          rw [skipBracketV_scope stk cur rest 1 (Nat.le_refl _)]
          exact ih (skipBracketV rest 1) sc stk cur R (hs3 hfr.2)
            (fun h c hc => hch' h c ((skipBracketV_suffix rest 1).subset hc)) (by omega) hsi hdi sc' hrun
        | false =>
          rw [hkv (by simpa [hvk] using hfr.1)] at hrun
          simp only [Bool.false_eq_true, if_false] at hrun
          rw [hvk] at ih
          obtain ⟨_, _, hs3⟩ := skipBracket_scan F hvk rest
          have hlen := skipBracket_length rest
          have hsuf : ∀ l : List Nat, skipBracket l <:+ l := by
            intro l
            fun_induction skipBracket l with
            | case1 => exact List.suffix_refl _
            | case2 => exact List.nil_suffix
            | case3 c hc x r ih => exact (ih.trans (List.suffix_cons _ _)).trans (List.suffix_cons _ _)
            | case4 c rest => exact List.suffix_cons _ _
            | case5 c rest _ _ ih => exact ih.trans (List.suffix_cons _ _)
          rw [skipBracket_scope]
          exact ih (skipBracket rest) sc stk cur R (hs3 hfr.2)
            (fun h c hc => hch' h c ((hsuf rest).subset hc)) (by omega) hsi hdi sc' hrun
      have hpo := fragCore_head hc1 hc2 hfr
      have hfr' := fragCore_tail hc1 hc2 hfr
      have e2 : (c == 0x5B) = false := by simp [hc2]
      simp only [e1, e2, Bool.false_eq_true, if_false] at hrun
      -- the stack and the frames are not empty
      obtain ⟨⟨g, a⟩, R', rfl⟩ : ∃ x R', R = x :: R' := by
        rcases R with _ | ⟨x, R'⟩
        · have := hsi.len; simp at this
        · exact ⟨x, R', rfl⟩
      obtain ⟨⟨sv, acc⟩, stk', rfl⟩ : ∃ fr stk', stk = fr :: stk' := by
        rcases stk with _ | ⟨fr, stk'⟩
        · exact absurd hdi.frames frInv_nil_cons
        · exact ⟨fr, stk', rfl⟩
      have hD : sc.parenDepth = R'.length := by have := hsi.len; simp only [List.length_cons] at this; omega
      by_cases hp : c = 0x28
      · subst hp
        have hpo := hpo rfl
        simp only [beq_self_eq_true, if_true] at hrun
        by_cases hq : ∃ rest2, rest = 0x3F :: rest2
        · obtain ⟨rest2, rfl⟩ := hq
          simp only [List.length_cons] at hf
          have hfr2 : fragCore F rest2 = true := fragCore_tail (by decide) (by decide) hfr'
          obtain ⟨ro, r3, htc, hlen3⟩ := tryConsumeName_ok rest2
          rw [scopeGo_q]
          cases ro with
          | none =>
            have hna : namedAhead rest2 = none := by unfold namedAhead; rw [htc]
            rw [hna]
            simp only [htc] at hrun
            have hsi' := hsi.push sc.locs sc.named sc.gmax
            have hdi' := hdi.push
            rcases tryConsumeName_none htc with rfl | rfl
            · exact ih r3 _ _ cur _ hfr2 (fun h => (hch' h).tail) (by omega) hsi' hdi' sc' hrun
            · rw [scopeGo_plain _ _ _ _ (by decide) (by decide) (by decide) (by decide) (by decide)]
              exact ih r3 _ _ cur _ (fragCore_tail (by decide) (by decide) hfr2) (fun h => (hch' h).tail.tail)
                (by simp only [List.length_cons] at hf; omega) hsi' hdi' sc' hrun
          | some nm =>
            have hna : namedAhead rest2 = some nm := by unfold namedAhead; rw [htc]
            rw [hna]
            simp only
            simp only [htc] at hrun
            have hlt : ∃ r0, rest2 = 0x3C :: r0 := by
              rcases rest2 with _ | ⟨y, r9⟩
              · simp [tryConsumeName] at htc
              · by_cases hy : y = 0x3C
                · exact ⟨r9, by rw [hy]⟩
                · have : tryConsumeName (y :: r9) = .ok (none, y :: r9) := by
                    unfold tryConsumeName
                    split
                    · rename_i heq; cases heq; exact absurd rfl hy
                    · rfl
                  rw [this] at htc; cases htc
            obtain ⟨r0, rfl⟩ := hlt
            have hnmF : F.nm = true := by
              rcases r0 with _ | ⟨z, r9⟩
              · simp [tryConsumeName, Parse.nameChar] at htc
              · simp only [parenOk, Bool.or_eq_true, beq_iff_eq] at hpo
                rcases hpo with (h | h) | h
                · subst h; simp [tryConsumeName, Parse.nameChar, Parse.isChar, isIdStart_eq] at htc
                · subst h; simp [tryConsumeName, Parse.nameChar, Parse.isChar, isIdStart_bang] at htc
                · exact h
            have hch0 : AllChar r0 := (hch' hnmF).tail.tail
            have hgn : groupName tabs r0 = some (nm, r3) := by
              have := groupName_sim r0 hch0
              cases hg : groupName tabs r0 with
              | none => rw [hg] at this; rw [this] at htc; cases htc
              | some p =>
                obtain ⟨nm', r1'⟩ := p
                rw [hg] at this; rw [this] at htc
                cases htc; rfl
            obtain ⟨p, hp, hnp⟩ := name_neutral F hch0 hgn
            have hlen4 : r3.length < r0.length := groupName_len _ _ _ _ hgn
            have hch3 : AllChar r3 := by
              have := (hch' hnmF).tail
              rw [hp] at this; exact this.append_right
            have hfr3 : fragCore F r3 = true := by rw [hp] at hfr2; exact hnp.frag' hfr2
            rw [hp, hnp.scope]
            have hseg := hsi.segments
            have hoc : ∀ x, occ (mapPush sc.locs nm ((g, a) :: R').reverse) x =
                if x = nm then occ sc.locs nm ++ [((g, a) :: R').reverse] else occ sc.locs x :=
              fun x => occ_push sc.locs nm _ x
            have hdi' := (hdi.record nm hoc).push
            rw [hseg] at hrun
            have hsi' := hsi.push (mapPush sc.locs nm ((g, a) :: R').reverse) (mapPush sc.named nm sc.gmax)
              (if sc.gmax + 1 > Gen.MAX_CAPTURE_GROUPS then Gen.MAX_CAPTURE_GROUPS else sc.gmax + 1)
            have := ih r3 _ _ _ _ hfr3 (fun _ => hch3) (by simp only [List.length_cons] at hf; omega) hsi' hdi' sc' hrun
            rw [this]
            simp only
            rw [confl_push, any_cw_eq (hdi.cur nm)]
            cases confl sc.locs <;> cases cur.contains nm <;> simp
        · have hne : ∀ r2, rest ≠ 0x3F :: r2 := fun r2 e => hq ⟨r2, e⟩
          rw [scopeGo_cap _ _ _ hne]
          have hdi' := hdi.push
          rcases rest with _ | ⟨y, r2⟩
          · simp only at hrun
            have hsi' := hsi.push sc.locs sc.named
              (if sc.gmax + 1 > Gen.MAX_CAPTURE_GROUPS then Gen.MAX_CAPTURE_GROUPS else sc.gmax + 1)
            exact ih [] _ _ cur _ hfr' hch' (by simp; omega) hsi' hdi' sc' hrun
          · have hy : y ≠ 0x3F := fun e => hne r2 (by rw [e])
            simp only at hrun
            have hsi' := hsi.push sc.locs sc.named
              (if sc.gmax + 1 > Gen.MAX_CAPTURE_GROUPS then Gen.MAX_CAPTURE_GROUPS else sc.gmax + 1)
            exact ih (y :: r2) _ _ cur _ hfr' hch' (by omega) hsi' hdi' sc' hrun
      have e3 : (c == 0x28) = false := by simp [hp]
      simp only [e3, Bool.false_eq_true, if_false] at hrun
      by_cases hcl : c = 0x29
      · -- `)`
        subst hcl
        simp only [beq_self_eq_true, if_true] at hrun
        by_cases hd0 : sc.parenDepth > 0
        · simp only [hd0, if_true] at hrun
          have hne : stk' ≠ [] := by
            intro e; subst e
            have hf3 := (frInv_cons.1 hdi.frames).2.2
            rcases R' with _ | ⟨x, R''⟩
            · simp at hD; omega
            · exact absurd hf3 frInv_nil_cons
          rw [scopeGo_rparen _ _ _ hne]
          have hsi' : SI { sc with altIdx := altRemove sc.altIdx sc.parenDepth,
                                   groupIds := altRemove sc.groupIds sc.parenDepth,
                                   parenDepth := sc.parenDepth - 1 } R' := by
            refine ⟨by simp only; omega, ?_⟩
            exact hsi.rep.2.2.mono (fun d hd => by simp only; rw [altGet_remove _ _ _ (by omega)])
              (fun d hd => by simp only; rw [altGet_remove _ _ _ (by omega)])
          exact ih rest _ _ _ _ hfr' hch' (by omega) hsi' hdi.pop sc' hrun
        · simp only [hd0, if_false] at hrun
          have hR' : R' = [] := by
            rcases R' with _ | ⟨x, R''⟩
            · rfl
            · simp at hD; omega
          subst hR'
          have hs' : stk' = [] := by
            have hf3 := (frInv_cons.1 hdi.frames).2.2
            rcases stk' with _ | ⟨fr, s⟩
            · rfl
            · exact absurd hf3 frInv_cons_nil
          subst hs'
          rw [scopeGo_rparen_bottom]
          exact ih rest _ _ _ _ hfr' hch' (by omega) hsi hdi sc' hrun
      have e4 : (c == 0x29) = false := by simp [hcl]
      simp only [e4, Bool.false_eq_true, if_false] at hrun
      by_cases hbar : c = 0x7C
      · -- `|`
        subst hbar
        simp only [beq_self_eq_true, if_true] at hrun
        rw [scopeGo_bar]
        have hga : altGet sc.altIdx sc.parenDepth = some a := by rw [hD]; exact hsi.rep.2.1
        rw [hga] at hrun
        simp only [Option.getD_some] at hrun
        have hsi' : SI { sc with altIdx := altInsert sc.altIdx sc.parenDepth (a + 1) } ((g, a + 1) :: R') := by
          refine ⟨hsi.len, ?_, ?_, ?_⟩
          · exact hsi.rep.1
          · simp only; rw [altGet_insert, if_pos hD.symm]
          · exact hsi.rep.2.2.mono (fun d hd => rfl)
              (fun d hd => by simp only; rw [altGet_insert, if_neg (by omega)])
        exact ih rest _ _ _ _ hfr' hch' (by omega) hsi' hdi.bar sc' hrun
      · have e5 : (c == 0x7C) = false := by simp [hbar]
        simp only [e5, Bool.false_eq_true, if_false] at hrun
        rw [scopeGo_plain _ _ _ _ hp hcl hc1 hc2 hbar]
        exact ih rest _ _ _ _ hfr' hch' (by omega) hsi hdi sc' hrun

/-- **On the fragment the crate's duplicate-name check and the grammar's scope rule agree.** -/
theorem crateDup_eq_scope (F : Feat) (fl : Flags) (hkv : (F.k || F.lk) = true → fl.unicodeSets = false)
    (hvv : F.vk = true → fl.unicodeSets = true ∧ F.k = false ∧ F.lk = false) (pat : List Nat)
    (hfr : fragCore F pat = true) (hch : F.nm = true → AllChar pat) :
    crateDup fl.unicodeSets pat = !scopeOk F.vk pat := by
  obtain ⟨sc', h1, _, _, _⟩ := scanLoop_frag F fl hkv hvv (pat.length + 1) pat {} [] hfr hch (by omega)
    ⟨fun x => (by simp), fun x => (by simp), fun e he => (by cases he), Nat.zero_le _⟩
  have hsi : SI ({} : Scan) [(0, 0)] := ⟨rfl, rfl, rfl, trivial⟩
  have hoc : ∀ nm, occ ({} : Scan).locs nm = [] := fun nm => rfl
  have hdi : DI (occ ({} : Scan).locs) ({} : Scan).nextGroupId [(0, 0)] [([], [])] [] := by
    refine ⟨?_, ?_, ?_, ?_, ?_⟩
    · intro s hs
      rcases List.mem_singleton.1 hs with rfl
      exact Nat.zero_lt_one
    · intro nm q hq; rw [hoc nm] at hq; cases hq
    · intro nm q hq; rw [hoc nm] at hq; cases hq
    · intro nm
      constructor
      · intro h; cases h
      · rintro ⟨q, hq, _⟩; rw [hoc nm] at hq; cases hq
    · rw [frInv_cons]
      refine ⟨fun nm => ?_, fun nm => ?_, trivial⟩
      · constructor
        · intro h; cases h
        · rintro ⟨q, hq, _⟩; rw [hoc nm] at hq; cases hq
      · constructor
        · intro h; cases h
        · rintro (⟨h0, _⟩ | ⟨q, hq, _⟩)
          · exact absurd h0 (Nat.lt_irrefl 0)
          · rw [hoc nm] at hq; cases hq
  have := scanLoop_dup F fl hkv hvv (pat.length + 1) pat {} _ _ _ hfr hch (by omega) hsi hdi sc' h1
  unfold crateDup
  rw [scanLoop_flags { unicodeSets := fl.unicodeSets } fl rfl, h1]
  simp only
  unfold confl at this
  rw [this]
  rfl

end Regress.C08Frag
