import Proofs.Lemmas.TotalParse3
/-!
# Totality of the parser model, part 4: the pre-scan invariant, `finalize`, and `parse`
-/
namespace Regress.Parse
open Regress Regress.IR

open Regress Regress.IR

/-! ## The pre-scan builds a name table without empty entries -/

theorem mapPush_namedOK {m : List (List Nat × List Nat)} (h : NamedOK m) (k : List Nat) (v : Nat) :
    NamedOK (mapPush m k v) := by
  induction m with
  | nil => intro e he; simp [mapPush] at he; subst he; simp
  | cons x xs ih =>
    obtain ⟨k', vs⟩ := x
    unfold mapPush
    split
    · intro e he
      simp only [List.mem_cons] at he
      rcases he with rfl | he
      · simp
      · exact h e (by simp [he])
    · intro e he
      simp only [List.mem_cons] at he
      rcases he with rfl | he
      · exact h _ (by simp)
      · exact ih (fun e he => h e (by simp [he])) e he

theorem scanLoop_namedOK (fl : Flags) (fuel : Nat) (inp : List Nat) (sc : Scan) :
    NamedOK sc.named → ∀ sc', scanLoop fl fuel inp sc = .ok sc' → NamedOK sc'.named := by
  fun_induction scanLoop fl fuel inp sc
  all_goals try simp only [*]
  all_goals try (intro h sc' hr; cases hr; done)
  all_goals try (intro h sc' hr; cases hr; exact h; done)
  all_goals try (rename_i ih; exact ih; done)
  rename_i sc0 _ _ _ _ _ _ isCap groupName _ _ sc2 sc1 sc ih
  intro h
  apply ih
  show NamedOK (if isCap = true then _ else sc2).named
  have h2 : NamedOK sc2.named := by
    show NamedOK (match groupName with | some name => _ | none => sc0).named
    split
    · exact mapPush_namedOK h _ _
    · exact h
  split
  · exact h2
  · exact h2

theorem parseCaptureGroups_inv {st st' : PState} (hn : NamedOK st.named)
    (h : parseCaptureGroups st = .ok st') :
    NamedOK st'.named ∧ st'.input = st.input ∧ st'.depth = st.depth ∧ st'.groupCount = st.groupCount ∧
      st'.loopCount = st.loopCount := by
  unfold parseCaptureGroups at h
  split at h
  · cases h
  · rename_i sc hsc
    split at h
    · cases h
    · cases h
      exact ⟨scanLoop_namedOK _ _ _ _ hn _ hsc, rfl, rfl, rfl, rfl⟩

/-! ## `finalize`: `reverse_cats` never meets a `ByteSequence` -/

theorem POutList_reverse {ns : List Node} (h : POutList ns) : POutList ns.reverse := by
  induction ns with
  | nil => exact h
  | cons x xs ih => simp only [List.reverse_cons, POutList_append]; exact ⟨ih h.2, h.1, trivial⟩

theorem numGroupsList_reverse (ns : List Node) : numGroupsList ns.reverse = numGroupsList ns := by
  induction ns with
  | nil => rfl
  | cons x xs ih => simp only [List.reverse_cons, numGroupsList_append, numGroupsList, ih]; omega

mutual
theorem reverseCats_ok : ∀ (b : Bool) (n : Node), POut n →
    ∃ n', reverseCats b n = .ok n' ∧ POut n' ∧ numGroups n' = numGroups n
  | b, .cat ns, h => by
    obtain ⟨ns', h1, h2, h3⟩ := reverseCatsList_ok b ns h
    refine ⟨.cat (if b then ns'.reverse else ns'), by simp [reverseCats, h1], ?_, ?_⟩
    · cases b
      · simpa [POut] using h2
      · simpa [POut] using POutList_reverse h2
    · cases b
      · simpa [numGroups] using h3
      · simp only [numGroups, if_true, numGroupsList_reverse]; exact h3
  | b, .alt l r, h => by
    obtain ⟨l', hl1, hl2, hl3⟩ := reverseCats_ok b l h.1
    obtain ⟨r', hr1, hr2, hr3⟩ := reverseCats_ok b r h.2
    exact ⟨.alt l' r', by simp [reverseCats, hl1, hr1], ⟨hl2, hr2⟩, by simp [numGroups, hl3, hr3]⟩
  | b, .group id name c, h => by
    obtain ⟨c', h1, h2, h3⟩ := reverseCats_ok b c h
    exact ⟨.group id name c', by simp [reverseCats, h1], h2, by simp [numGroups, h3]⟩
  | b, .look n bw sg eg c, h => by
    obtain ⟨c', h1, h2, h3⟩ := reverseCats_ok bw c h.1
    exact ⟨.look n bw sg eg c', by simp [reverseCats, h1], ⟨h2, by rw [h3]; exact h.2⟩,
      by simp [numGroups, h3]⟩
  | b, .loop l q g0 g1, h => by
    obtain ⟨l', h1, h2, h3⟩ := reverseCats_ok b l h.1
    exact ⟨.loop l' q g0 g1, by simp [reverseCats, h1], ⟨h2, h.2.1, by rw [h3]; exact h.2.2⟩,
      by simp [numGroups, h3]⟩
  | b, .loop1 l q, h => by exact absurd h (by simp [POut])
  | b, .byteSeq bs, h => by exact absurd h (by simp [POut])
  | b, .byteSet bs, h => by exact absurd h (by simp [POut])
  | b, .empty, h => ⟨_, by simp [reverseCats], h, rfl⟩
  | b, .goal, h => ⟨_, by simp [reverseCats], h, rfl⟩
  | b, .char _, h => ⟨_, by simp [reverseCats], h, rfl⟩
  | b, .charSet _, h => ⟨_, by simp [reverseCats], h, rfl⟩
  | b, .matchAny, h => ⟨_, by simp [reverseCats], h, rfl⟩
  | b, .matchAnyExceptLT, h => ⟨_, by simp [reverseCats], h, rfl⟩
  | b, .anchor _ _, h => ⟨_, by simp [reverseCats], h, rfl⟩
  | b, .wordBoundary _ _, h => ⟨_, by simp [reverseCats], h, rfl⟩
  | b, .backRef _ _, h => ⟨_, by simp [reverseCats], h, rfl⟩
  | b, .bracket _, h => ⟨_, by simp [reverseCats], h, rfl⟩
  | b, .stringSet _ _, h => ⟨_, by simp [reverseCats], h, rfl⟩
theorem reverseCatsList_ok : ∀ (b : Bool) (ns : List Node), POutList ns →
    ∃ ns', reverseCatsList b ns = .ok ns' ∧ POutList ns' ∧ numGroupsList ns' = numGroupsList ns
  | b, [], h => ⟨[], by simp [reverseCatsList], trivial, rfl⟩
  | b, n :: ns, h => by
    obtain ⟨n', h1, h2, h3⟩ := reverseCats_ok b n h.1
    obtain ⟨ns', h4, h5, h6⟩ := reverseCatsList_ok b ns h.2
    exact ⟨n' :: ns', by simp [reverseCatsList, h1, h4], ⟨h2, h5⟩, by simp [numGroupsList, h3, h6]⟩
end

open Regress Regress.IR

/-! ## `parse` -/

theorem finalize_ens (st : PState) (re : Regex) (h : POut re.node) :
    Ens (finalize st re) (fun re' => POut re'.node ∧ numGroups re'.node = numGroups re.node ∧
      re'.flags = re.flags) := by
  unfold finalize
  split
  · obtain ⟨n', h1, h2, h3⟩ := reverseCats_ok false re.node h
    rw [h1]
    exact ⟨h2, h3, rfl⟩
  · exact ⟨h, rfl, rfl⟩

/-- What `parse` guarantees of the regex it returns. -/
def ParseOut (re : Regex) : Prop := POut re.node

theorem parseBody_ens (st : PState) (hi : Inv st) : Ens (parseBody st) ParseOut := by
  unfold parseBody
  have h := (descent_all (parseFuel st.input)).disj st hi (by unfold parseFuel; omega)
  split
  · rename_i e heq; exact h.error_of_eq heq
  · rename_i body st1 heq
    have h1 : DisjPost st (body, st1) := h.ok_of_eq heq
    split
    · split <;> simp
    · refine (finalize_ens st1 _ ?_).mono (fun re h => h.1)
      exact makeCat_POut (ns := [body, .goal]) ⟨h1.1, by simp [POut], trivial⟩

theorem tryParse_ens (st : PState) (hi : Inv st) : Ens (tryParse st) ParseOut := by
  unfold tryParse
  rcases parseCaptureGroups_cases st with ⟨st', h⟩ | ⟨msg, h⟩
  · rw [h]
    obtain ⟨h1, h2, h3, h4, h5⟩ := parseCaptureGroups_inv hi.named h
    exact parseBody_ens st' ⟨h1, h3 ▸ hi.depth, h4 ▸ hi.groups, h5 ▸ hi.loops, h2 ▸ hi.bnd⟩
  · rw [h]; simp

/-- **`parse` never panics** (no Rust panic site is reachable and the model's fuel suffices), and
the IR it returns satisfies `POut`. -/
theorem parse_ens (pattern : List Nat) (flags : Flags) (hb : Bnd pattern) :
    Ens (parse pattern flags) ParseOut := by
  unfold parse
  exact tryParse_ens _ ⟨by intro e he; simp at he, by simp [Gen.MAX_NESTING_DEPTH],
    by simp [Gen.MAX_CAPTURE_GROUPS], by simp [Gen.MAX_LOOPS], hb⟩

end Regress.Parse
