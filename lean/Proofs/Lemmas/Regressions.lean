/-!
# Regression record: the defects of the previous `RegexSearcher` (C20)

Until commit "fix: make the Pattern searcher's steps tile the haystack" (the old source is
`git show 'HEAD^{/make the Pattern searcher}^:src/api.rs'` in `/repo`), `pattern_impl::RegexSearcher`
(`src/api.rs`) kept `current_pos / done / reverse_pos / reverse_done`, advanced past an empty match
without rejecting the skipped char, and implemented `next_back` by re-scanning for the last match
ending at or before `reverse_pos`. This file keeps the line-by-line model of THAT code
(`namespace Regress.Regressions.OldSearcher`, self-contained) and the machine-checked witnesses that
the model exhibited the defect:

* `forward_gap_witness`: `\d*` on `"ab12cd"`: `next()` returns only `Match` steps; the chars skipped
  after empty matches are never reported, so the steps do not tile the haystack;
* `backward_witness`: `next_back()` on the same input does not tile either and loses the match `(2,4)`.

The current code is modelled in `RegressModel/Api/Searcher.lean` and proved correct in `Proofs/C20.lean`
(whose `digits_steps` example is the same input with the repaired output).
-/
namespace Regress.Regressions.OldSearcher

/-! ## The old model -/

structure SearchCtx where
  len : Nat
  findFrom : Nat → Option (Nat × Nat)
  allMatches : List (Nat × Nat)
  isBoundary : Nat → Bool

/-- `core::str::pattern::SearchStep`. -/
inductive SearchStep where
  | «match» (s e : Nat)
  | reject (s e : Nat)
  | done
deriving Repr, DecidableEq

/-- `RegexSearcher` (without the borrowed `haystack` / `regex`). -/
structure RegexSearcher where
  currentPos : Nat
  done : Bool
  reversePos : Nat
  reverseDone : Bool
deriving Repr, DecidableEq

/-- `RegexSearcher::new`. -/
def RegexSearcher.new (ctx : SearchCtx) : RegexSearcher :=
  { currentPos := 0, done := false, reversePos := ctx.len, reverseDone := false }

/-- `regex.find_from(haystack, pos).next()` including the assertion of `find_from`. -/
def SearchCtx.findFromChecked (ctx : SearchCtx) (pos : Nat) : Except Unit (Option (Nat × Nat)) :=
  if pos ≥ ctx.len || ctx.isBoundary pos then .ok (ctx.findFrom pos) else .error ()

/-- `while next_pos < len && !is_char_boundary(next_pos) { next_pos += 1 }` (fuel ≥ `len - next_pos`). -/
def advanceToBoundary (ctx : SearchCtx) : Nat → Nat → Nat
  | 0, nextPos => nextPos
  | fuel + 1, nextPos =>
    if nextPos < ctx.len && !ctx.isBoundary nextPos then advanceToBoundary ctx fuel (nextPos + 1)
    else nextPos

/-- `while prev_pos > 0 && !is_char_boundary(prev_pos) { prev_pos -= 1 }`. -/
def retreatToBoundary (ctx : SearchCtx) : Nat → Nat
  | 0 => 0
  | p + 1 => if !ctx.isBoundary (p + 1) then retreatToBoundary ctx p else p + 1

/-- `Searcher::next`. -/
def RegexSearcher.next (ctx : SearchCtx) (s : RegexSearcher) :
    Except Unit (SearchStep × RegexSearcher) :=
  if s.done then .ok (.done, s)
  else
    match ctx.findFromChecked s.currentPos with
    | .error () => .error ()
    | .ok (some (matchStart, matchEnd)) =>
      if s.currentPos < matchStart then
        .ok (.reject s.currentPos matchStart, { s with currentPos := matchStart })
      else
        -- self.current_pos = match_end;
        let s := { s with currentPos := matchEnd }
        let s :=
          if matchStart == matchEnd then
            if matchEnd < ctx.len then
              { s with currentPos := advanceToBoundary ctx (ctx.len - (matchEnd + 1)) (matchEnd + 1) }
            else { s with done := true }
          else s
        .ok (.match matchStart matchEnd, s)
    | .ok none =>
      if s.currentPos < ctx.len then
        .ok (.reject s.currentPos ctx.len, { s with currentPos := ctx.len, done := true })
      else .ok (.done, { s with done := true })

/-- The loop of `find_last_match_before`. -/
def findLastLoop (pos : Nat) : Option (Nat × Nat) → List (Nat × Nat) → Option (Nat × Nat)
  | last, [] => last
  | last, m :: ms => if m.2 ≤ pos then findLastLoop pos (some m) ms else last

/-- `RegexSearcher::find_last_match_before` (`find_from(haystack, 0)` cannot panic). -/
def SearchCtx.findLastMatchBefore (ctx : SearchCtx) (pos : Nat) : Option (Nat × Nat) :=
  findLastLoop pos none ctx.allMatches

/-- `ReverseSearcher::next_back`. -/
def RegexSearcher.nextBack (ctx : SearchCtx) (s : RegexSearcher) : SearchStep × RegexSearcher :=
  if s.reverseDone then (.done, s)
  else
    match ctx.findLastMatchBefore s.reversePos with
    | some (matchStart, matchEnd) =>
      if matchEnd < s.reversePos then
        (.reject matchEnd s.reversePos, { s with reversePos := matchEnd })
      else
        let s := { s with reversePos := matchStart }
        let s :=
          if matchStart == matchEnd then
            if matchStart > 0 then
              { s with reversePos := retreatToBoundary ctx (matchStart - 1) }
            else { s with reverseDone := true }
          else s
        (.match matchStart matchEnd, s)
    | none =>
      if s.reversePos > 0 then
        (.reject 0 s.reversePos, { s with reversePos := 0, reverseDone := true })
      else (.done, { s with reverseDone := true })

/-- Call `next()` until it returns `Done` (not included), at most `fuel` times.
`none` = a panic or fuel exhausted. -/
def forwardStepsFuel (ctx : SearchCtx) : Nat → RegexSearcher → Option (List SearchStep)
  | 0, _ => none
  | fuel + 1, s =>
    match s.next ctx with
    | .error () => none
    | .ok (.done, _) => some []
    | .ok (step, s') =>
      match forwardStepsFuel ctx fuel s' with
      | none => none
      | some steps => some (step :: steps)

/-- All steps of a fresh searcher driven forwards. -/
def forwardSteps (ctx : SearchCtx) : Option (List SearchStep) :=
  forwardStepsFuel ctx (2 * ctx.len + 4) (RegexSearcher.new ctx)

/-- Call `next_back()` until it returns `Done` (not included), at most `fuel` times. -/
def backwardStepsFuel (ctx : SearchCtx) : Nat → RegexSearcher → Option (List SearchStep)
  | 0, _ => none
  | fuel + 1, s =>
    match s.nextBack ctx with
    | (.done, _) => some []
    | (step, s') =>
      match backwardStepsFuel ctx fuel s' with
      | none => none
      | some steps => some (step :: steps)

/-- All steps of a fresh searcher driven backwards. -/
def backwardSteps (ctx : SearchCtx) : Option (List SearchStep) :=
  backwardStepsFuel ctx (2 * ctx.len + 4) (RegexSearcher.new ctx)

/-! ## The contract vocabulary used by the witnesses -/

/-- The `Searcher` contract on the steps returned before `Done`: "index ranges that are adjacent,
non-overlapping, covering the whole haystack". `tilesFrom len c steps`: the steps start at `c`, each
begins where its predecessor ended, and the last one ends at `len`. (Empty `Match(a, a)` steps are
allowed by the contract — e.g. `""` as a `&str` pattern — but then the next step must still start at
`a`.) -/
def tilesFrom (len : Nat) : Nat → List SearchStep → Bool
  | c, [] => c == len
  | c, .match s e :: l => s == c && s ≤ e && tilesFrom len e l
  | c, .reject s e :: l => s == c && s ≤ e && tilesFrom len e l
  | _, .done :: _ => false

/-- The same contract for `ReverseSearcher::next_back`: the steps start at the end `c` and each ends
where its predecessor began, down to 0. -/
def tilesBackFrom : Nat → List SearchStep → Bool
  | c, [] => c == 0
  | c, .match s e :: l => e == c && s ≤ e && tilesBackFrom s l
  | c, .reject s e :: l => e == c && s ≤ e && tilesBackFrom s l
  | _, .done :: _ => false

/-- The ranges of the `Match` steps. -/
def matchesOf : List SearchStep → List (Nat × Nat)
  | [] => []
  | .match s e :: l => (s, e) :: matchesOf l
  | _ :: l => matchesOf l

/-! ## (a) Counterexamples: pattern `\d*`, haystack `"ab12cd"` (6 ASCII bytes) -/

/-- `Regex::new(r"\d*").find_from("ab12cd", p).next()` for every `p`. -/
def digitsFindFrom (p : Nat) : Option (Nat × Nat) :=
  if p = 2 then some (2, 4) else if p = 3 then some (3, 4) else if p ≤ 6 then some (p, p) else none

/-- `Regex::new(r"\d*").find_iter("ab12cd")` drained. -/
def digitsMatches : List (Nat × Nat) := [(0, 0), (1, 1), (2, 4), (4, 4), (5, 5), (6, 6)]

def digitsCtx : SearchCtx :=
  { len := 6, findFrom := digitsFindFrom, allMatches := digitsMatches, isBoundary := fun _ => true }

/-- The steps a contract-abiding searcher would have to return here. -/
def digitsExpected : List SearchStep :=
  [.match 0 0, .reject 0 1, .match 1 1, .reject 1 2, .match 2 4, .match 4 4, .reject 4 5,
   .match 5 5, .reject 5 6, .match 6 6]

example : tilesFrom 6 0 digitsExpected = true := by decide
example : matchesOf digitsExpected = digitsMatches := by decide

/-- **forward_gap_witness.** `next()` returns `Match(0,0)` and then `Match(1,1)`: the byte range
`[0,1)` is never reported (no `Reject(0,1)`), and likewise `[1,2)`, `[4,5)`, `[5,6)`. The steps do
not tile the haystack, so `str::split`, `str::matches` etc. built on this searcher lose text. -/
theorem forward_gap_witness :
    forwardSteps digitsCtx =
      some [.match 0 0, .match 1 1, .match 2 4, .match 4 4, .match 5 5, .match 6 6] ∧
    (∀ steps, forwardSteps digitsCtx = some steps → tilesFrom digitsCtx.len 0 steps = false) := by
  refine ⟨by decide, ?_⟩
  intro steps hs
  have h : forwardSteps digitsCtx =
      some [.match 0 0, .match 1 1, .match 2 4, .match 4 4, .match 5 5, .match 6 6] := by decide
  rw [h] at hs; cases hs; decide

/-- The very first two calls already break adjacency. -/
theorem forward_gap_first_two :
    (RegexSearcher.new digitsCtx).next digitsCtx =
      .ok (.match 0 0, { currentPos := 1, done := false, reversePos := 6, reverseDone := false }) ∧
    RegexSearcher.next digitsCtx
        { currentPos := 1, done := false, reversePos := 6, reverseDone := false } =
      .ok (.match 1 1, { currentPos := 2, done := false, reversePos := 6, reverseDone := false }) := by
  constructor <;> rfl

/-- **backward_witness.** `next_back()` on the same input returns
`Match(6,6), Match(5,5), Match(4,4), Reject(1,3), Match(1,1), Match(0,0)`:
* the ranges `[5,6)`, `[4,5)`, `[3,4)`, `[0,1)` are never reported (no tiling), and
* the only non-empty match `Match(2,4)` ("12") is **lost** — half of it is even inside
  `Reject(1,3)` — although `next()` reports it. -/
theorem backward_witness :
    backwardSteps digitsCtx =
      some [.match 6 6, .match 5 5, .match 4 4, .reject 1 3, .match 1 1, .match 0 0] ∧
    (∀ steps, backwardSteps digitsCtx = some steps →
      tilesBackFrom digitsCtx.len steps = false ∧ (2, 4) ∉ matchesOf steps) ∧
    (∀ steps, forwardSteps digitsCtx = some steps → (2, 4) ∈ matchesOf steps) := by
  have hb : backwardSteps digitsCtx =
      some [.match 6 6, .match 5 5, .match 4 4, .reject 1 3, .match 1 1, .match 0 0] := by decide
  have hf : forwardSteps digitsCtx =
      some [.match 0 0, .match 1 1, .match 2 4, .match 4 4, .match 5 5, .match 6 6] := by decide
  refine ⟨hb, ?_, ?_⟩
  · intro steps hs; rw [hb] at hs; cases hs; decide
  · intro steps hs; rw [hf] at hs; cases hs; decide

/-- A smaller witness: the empty pattern on `"a"` (matches `(0,0)` and `(1,1)`). Forwards the
searcher returns `Match(0,0), Match(1,1)` and never accounts for the byte `a`; the `&str` pattern
`""` returns `Match(0,0), Reject(0,1), Match(1,1)`. -/
def emptyCtx : SearchCtx :=
  { len := 1, findFrom := fun p => if p ≤ 1 then some (p, p) else none,
    allMatches := [(0, 0), (1, 1)], isBoundary := fun _ => true }

theorem forward_gap_witness_empty_pattern :
    forwardSteps emptyCtx = some [.match 0 0, .match 1 1] ∧
    tilesFrom 1 0 [.match 0 0, .match 1 1] = false ∧
    tilesFrom 1 0 [.match 0 0, .reject 0 1, .match 1 1] = true ∧
    backwardSteps emptyCtx = some [.match 1 1, .match 0 0] ∧
    tilesBackFrom 1 [.match 1 1, .match 0 0] = false := by decide

#print axioms forward_gap_witness
#print axioms forward_gap_first_two
#print axioms backward_witness
#print axioms forward_gap_witness_empty_pattern

end Regress.Regressions.OldSearcher
