import Proofs.Lemmas.LowerClass
import Proofs.C10
/-!
# ES specification ⇒ IR semantics: `Canonicalize` under `i` with `u`/`v`

The specification model decides "∃ a ∈ A. Canonicalize(a) = Canonicalize(ch)" through hash maps
built from the ICU snapshot (`ES.scfData`).  This file reads those maps back as the association list
`C10.SCFL` (`ES.scfRep = C10.scfRep`, `a ∈ canonClass ch ↔ scfRep a = scfRep ch`) so that the
theorems of `Proofs/C10.lean` (the crate's `fold` induces exactly the Unicode 17 simple case folding
classes) apply.
-/
namespace Regress.Lower

open Regress Regress.IR Regress.VM Regress.Parse Regress.CPS Regress.Fold

/-! ## The hash maps of `FoldData.ofPairs` -/

theorem foldl_insert_getD (ps : List (Nat × Nat)) (hd : ps.Pairwise (fun a b => a.1 < b.1)) :
    ∀ (m0 : Std.HashMap Nat Nat) (c d : Nat),
      (ps.foldl (fun m p => m.insert p.1 p.2) m0).getD c d =
        match List.lookup c ps with
        | some v => v
        | none => m0.getD c d := by
  induction ps with
  | nil => intro m0 c d; simp
  | cons p t ih =>
    intro m0 c d
    obtain ⟨hp, ht⟩ := List.pairwise_cons.1 hd
    simp only [List.foldl_cons]
    rw [ih ht]
    obtain ⟨k, v⟩ := p
    simp only [List.lookup]
    by_cases hck : c = k
    · subst hck
      have : List.lookup c t = none :=
        lookup_none (fun h => by
          obtain ⟨q, hq, hqe⟩ := List.mem_map.1 h
          have := hp q hq
          simp only at this; omega)
      simp [this, Std.HashMap.getD_insert]
    · have hne : (c == k) = false := by simp [hck]
      have hne' : (k == c) = false := by simp; omega
      simp [hne, Std.HashMap.getD_insert, hne']

theorem foldl_insert_contains (ps : List (Nat × Nat)) :
    ∀ (m0 : Std.HashMap Nat Nat) (c : Nat),
      (ps.foldl (fun m p => m.insert p.1 p.2) m0).contains c = (m0.contains c || (ps.map Prod.fst).contains c) := by
  induction ps with
  | nil => intro m0 c; simp
  | cons p t ih =>
    intro m0 c
    simp only [List.foldl_cons, ih, Std.HashMap.contains_insert, List.map_cons, List.contains_cons]
    cases m0.contains c <;> cases (List.map Prod.fst t).contains c <;> simp [Bool.beq_comm, eq_comm]

theorem foldl_inv_mem (ps : List (Nat × Nat)) :
    ∀ (m0 : Std.HashMap Nat (List Nat)) (a k : Nat),
      a ∈ (ps.foldl (fun m p => m.insert p.2 (p.1 :: m.getD p.2 [])) m0).getD k [] ↔
        a ∈ m0.getD k [] ∨ (a, k) ∈ ps := by
  induction ps with
  | nil => intro m0 a k; simp
  | cons p t ih =>
    intro m0 a k
    obtain ⟨x, y⟩ := p
    simp only [List.foldl_cons, ih, Std.HashMap.getD_insert, List.mem_cons, Prod.mk.injEq]
    by_cases hyk : y = k
    · subst hyk
      simp only [beq_self_eq_true, if_true, List.mem_cons]
      constructor
      · rintro ((h | h) | h)
        · exact Or.inr (Or.inl (by simpa using h))
        · exact Or.inl h
        · exact Or.inr (Or.inr h)
      · rintro (h | h | h)
        · exact Or.inl (Or.inr h)
        · exact Or.inl (Or.inl (by simpa using h))
        · exact Or.inr h
    · have : (y == k) = false := by simp [hyk]
      simp only [this, Bool.false_eq_true, if_false]
      constructor
      · rintro (h | h)
        · exact Or.inl h
        · exact Or.inr (Or.inr h)
      · rintro (h | ⟨_, h⟩ | h)
        · exact Or.inl h
        · exact absurd h.symm hyk
        · exact Or.inr h

theorem ofPairs_image (ps : List (Nat × Nat)) (hd : ps.Pairwise (fun a b => a.1 < b.1)) (c : Nat) :
    (ES.FoldData.ofPairs ps).image c = app ps c := by
  simp only [ES.FoldData.image, ES.FoldData.ofPairs, foldl_insert_getD ps hd, app]
  cases List.lookup c ps <;> simp

theorem mem_of_lookup {ps : List (Nat × Nat)} {c v : Nat} (h : List.lookup c ps = some v) : (c, v) ∈ ps := by
  induction ps with
  | nil => cases h
  | cons p t ih =>
    obtain ⟨k, w⟩ := p
    simp only [List.lookup] at h
    by_cases hck : c = k
    · subst hck; simp at h; subst h; simp
    · have : (c == k) = false := by simp [hck]
      simp only [this] at h
      exact List.mem_cons_of_mem _ (ih h)

theorem lookup_of_key {ps : List (Nat × Nat)} {c : Nat} (h : c ∈ ps.map Prod.fst) :
    ∃ v, List.lookup c ps = some v := by
  induction ps with
  | nil => simp at h
  | cons p t ih =>
    obtain ⟨k, w⟩ := p
    simp only [List.lookup]
    by_cases hck : c = k
    · subst hck; exact ⟨w, by simp⟩
    · have : (c == k) = false := by simp [hck]
      simp only [this]
      simp only [List.map_cons, List.mem_cons] at h
      rcases h with h | h
      · exact absurd h hck
      · exact ih h

theorem ofPairs_fibre (ps : List (Nat × Nat)) (hd : ps.Pairwise (fun a b => a.1 < b.1)) (a k : Nat) :
    a ∈ (ES.FoldData.ofPairs ps).fibre k ↔ app ps a = k := by
  have hfun : Fun ps := pairwise_keys_fun hd
  simp only [ES.FoldData.fibre, ES.FoldData.ofPairs, List.mem_append, foldl_inv_mem, foldl_insert_contains,
    Std.HashMap.getD_empty, Std.HashMap.contains_empty, List.not_mem_nil, false_or, Bool.false_or]
  constructor
  · rintro (h | h)
    · obtain ⟨v, hv⟩ := lookup_of_key (List.mem_map.2 ⟨(a, k), h, rfl⟩)
      have := hfun a v k (mem_of_lookup hv) h
      simp [app, hv, this]
    · split at h
      · cases h
      · rename_i hc
        simp only [List.mem_singleton] at h
        subst h
        exact app_of_not_key (by simpa using hc)
  · intro h
    by_cases hk : a ∈ ps.map Prod.fst
    · left
      obtain ⟨v, hv⟩ := lookup_of_key hk
      simp only [app, hv, Option.getD_some] at h
      subst h; exact mem_of_lookup hv
    · right
      have : app ps a = a := app_of_not_key hk
      rw [this] at h; subst h
      have : (ps.map Prod.fst).contains a = false := by simpa using hk
      rw [this]; simp

/-! ## `scfRep`, `canonClass` -/

theorem SCFL_pairwise : C10.SCFL.Pairwise (fun a b => a.1 < b.1) := by
  have := C10.SCFL_ok
  simp only [Bool.and_eq_true] at this
  exact (keysAscFrom_spec _ 0 this.1).2

theorem scfData_eq : ES.scfData = ES.FoldData.ofPairs C10.SCFL := rfl

theorem es_scfRep_eq (c : Nat) : ES.scfRep c = C10.scfRep c := by
  simp only [ES.scfRep, scfData_eq, ofPairs_image _ SCFL_pairwise, C10.scfRep, app]

theorem mem_scf_fibre (a k : Nat) : a ∈ ES.scfData.fibre k ↔ C10.scfRep a = k := by
  rw [scfData_eq, ofPairs_fibre _ SCFL_pairwise]; rfl

/-- `scfRep` is idempotent (the representative is a member of its class). -/
theorem scfRep_idem (c : Nat) : C10.scfRep (C10.scfRep c) = C10.scfRep c := by
  have h1 := C10.fold_scfRep c
  exact ((C10.fold_is_scf17 (C10.scfRep c) c).1 h1)

/-- With `i` and `u`/`v`: "∃ a ∈ A. Canonicalize(a) = Canonicalize(ch)". -/
theorem existsCanonMember_icase {rer : ES.RER} (hic : rer.ignoreCase = true) (hu : rer.hasEitherUnicodeFlag = true)
    (A : ES.CharSet) (ch : Nat) :
    ES.existsCanonMember rer A ch = true ↔ ∃ a, C10.scfRep a = C10.scfRep ch ∧ A.chars a = true := by
  simp only [ES.existsCanonMember, ES.canonClass, hic, hu, Bool.and_self, if_true, List.any_eq_true,
    mem_scf_fibre, es_scfRep_eq]

theorem canonicalize_icase {rer : ES.RER} (hic : rer.ignoreCase = true) (hu : rer.hasEitherUnicodeFlag = true)
    (ch : Nat) : ES.canonicalize rer ch = C10.scfRep ch := by
  simp [ES.canonicalize, hic, hu, es_scfRep_eq]


/-! ## Facts about the folding classes (kernel-checked on the snapshot) -/

/-- No line terminator, digit or white space character takes part in a folding class; a word
character folds to a word character; everything stays below `0x110000`. -/
def scfFacts (l : List (Nat × Nat)) : Bool :=
  l.all (fun p =>
    !ES.isLineTerminator p.1 && !ES.isLineTerminator p.2 && !ES.isDigit p.1 && !ES.isDigit p.2 &&
    !ES.isWhiteSpaceOrLT p.1 && !ES.isWhiteSpaceOrLT p.2 && decide (p.1 ≤ 0x10FFFF) && decide (p.2 ≤ 0x10FFFF) &&
    (!ES.isBasicWordChar p.1 || ES.isBasicWordChar p.2))

theorem scfFacts_ok : scfFacts C10.SCFL = true := by decide +kernel

theorem scfRep_of_not_key {c : Nat} (h : c ∉ C10.SCFL.map Prod.fst) : C10.scfRep c = c :=
  app_of_not_key h

theorem scfRep_key_or_id (c : Nat) : C10.scfRep c = c ∨ (c, C10.scfRep c) ∈ C10.SCFL := by
  by_cases h : C10.scfRep c = c
  · exact Or.inl h
  · exact Or.inr (key_of_app_ne h)

theorem scfFacts_at {p : Nat × Nat} (hp : p ∈ C10.SCFL) :
    ES.isLineTerminator p.1 = false ∧ ES.isLineTerminator p.2 = false ∧ ES.isDigit p.1 = false ∧
    ES.isDigit p.2 = false ∧ ES.isWhiteSpaceOrLT p.1 = false ∧ ES.isWhiteSpaceOrLT p.2 = false ∧
    p.1 ≤ 0x10FFFF ∧ p.2 ≤ 0x10FFFF ∧ (ES.isBasicWordChar p.1 = true → ES.isBasicWordChar p.2 = true) := by
  have := List.all_eq_true.1 scfFacts_ok p hp
  simp only [Bool.and_eq_true, Bool.not_eq_true', decide_eq_true_eq, Bool.or_eq_true] at this
  obtain ⟨⟨⟨⟨⟨⟨⟨⟨h1, h2⟩, h3⟩, h4⟩, h5⟩, h6⟩, h7⟩, h8⟩, h9⟩ := this
  refine ⟨h1, h2, h3, h4, h5, h6, h7, h8, ?_⟩
  intro hb
  rcases h9 with h9 | h9
  · rw [hb] at h9; cases h9
  · exact h9

theorem scfRep_le {c : Nat} (h : c ≤ 0x10FFFF) : C10.scfRep c ≤ 0x10FFFF := by
  rcases scfRep_key_or_id c with h' | h'
  · rw [h']; exact h
  · exact (scfFacts_at h').2.2.2.2.2.2.2.1

/-- A predicate whose members take no part in any folding class (`\d`, `\s`, line terminators). -/
theorem trivial_class {P : Nat → Bool} (hP : ∀ p ∈ C10.SCFL, P p.1 = false ∧ P p.2 = false) {a b : Nat}
    (hab : C10.scfRep a = C10.scfRep b) (ha : P a = true) : a = b := by
  have ha' : C10.scfRep a = a := by
    rcases scfRep_key_or_id a with h | h
    · exact h
    · have := (hP _ h).1; simp only at this; rw [ha] at this; cases this
  rcases scfRep_key_or_id b with h | h
  · rw [← ha', hab, h]
  · have := (hP _ h).2
    simp only at this
    rw [← hab, ha', ha] at this; cases this

theorem lt_trivial {a b : Nat} (hab : C10.scfRep a = C10.scfRep b) (ha : ES.isLineTerminator a = true) : a = b :=
  trivial_class (P := ES.isLineTerminator) (fun p hp => ⟨(scfFacts_at hp).1, (scfFacts_at hp).2.1⟩) hab ha

theorem digit_trivial {a b : Nat} (hab : C10.scfRep a = C10.scfRep b) (ha : ES.isDigit a = true) : a = b :=
  trivial_class (P := ES.isDigit) (fun p hp => ⟨(scfFacts_at hp).2.2.1, (scfFacts_at hp).2.2.2.1⟩) hab ha

theorem ws_trivial {a b : Nat} (hab : C10.scfRep a = C10.scfRep b) (ha : ES.isWhiteSpaceOrLT a = true) : a = b :=
  trivial_class (P := ES.isWhiteSpaceOrLT)
    (fun p hp => ⟨(scfFacts_at hp).2.2.2.2.1, (scfFacts_at hp).2.2.2.2.2.1⟩) hab ha

theorem basic_scfRep {c : Nat} (h : ES.isBasicWordChar c = true) : ES.isBasicWordChar (C10.scfRep c) = true := by
  rcases scfRep_key_or_id c with h' | h'
  · rw [h']; exact h
  · exact (scfFacts_at h').2.2.2.2.2.2.2.2 h

/-- Members of the class of a code point `≤ 0x10FFFF` are `≤ 0x10FFFF`. -/
theorem class_le {a ch : Nat} (hab : C10.scfRep a = C10.scfRep ch) (hch : ch ≤ 0x10FFFF) : a ≤ 0x10FFFF := by
  rcases scfRep_key_or_id a with h | h
  · rw [← h, hab]; exact scfRep_le hch
  · exact (scfFacts_at h).2.2.2.2.2.2.1

end Regress.Lower
