import RegressModel.Unicode.Fold
import RegressModel.Gen.OracleFold
import Proofs.Lemmas.CodePointSet
import Proofs.C12

/-!
# Helper lemmas for C10 (case folding)

* well-formedness of a row table (`RowsWF`) and what it gives for `findRow` / `foldWith`;
* the *graph* of a row table: the finite list of pairs `(c, fold c)` of all transforming code points;
* direct-address tables packed in one `Nat` (`dbuild` / `dget`), so that the kernel can evaluate
  "for every entry of a 3 000-entry association list, look something up in another one" in a few
  thousand steps;
* generic checkers over association lists and their lifting lemmas.
-/

namespace Regress.Fold
open Regress.CPS

/-! ## Row tables -/

/-- Per-row well-formedness. -/
structure RowOk (fr : FoldRange) : Prop where
  len_pos : 1 ≤ fr.len
  modulo_pow : fr.modulo = 1 ∨ fr.modulo = 2 ∨ fr.modulo = 4 ∨ fr.modulo = 8 ∨ fr.modulo = 16
  delta_ne : fr.absDelta ≠ 0
  no_underflow : fr.neg = true → fr.absDelta ≤ fr.first
  image_le : fr.addDelta fr.last ≤ 0x10FFFF
  last_le : fr.last ≤ 0x10FFFF

/-- A row table is well-formed: every row is, and rows are sorted by `first` and pairwise disjoint
(each row ends before every later row starts). -/
def RowsWF (tbl : List FoldRange) : Prop :=
  (∀ fr ∈ tbl, RowOk fr) ∧ tbl.Pairwise (fun a b => a.last < b.first)

def rowOk (fr : FoldRange) : Bool :=
  decide (1 ≤ fr.len) &&
  (fr.modulo == 1 || fr.modulo == 2 || fr.modulo == 4 || fr.modulo == 8 || fr.modulo == 16) &&
  (fr.absDelta != 0) && (!fr.neg || decide (fr.absDelta ≤ fr.first)) &&
  decide (fr.addDelta fr.last ≤ 0x10FFFF) && decide (fr.last ≤ 0x10FFFF)

/-- Executable `RowsWF`: one pass, `lo` = first code point a row may start at. -/
def rowsWFFrom : Nat → List FoldRange → Bool
  | _, [] => true
  | lo, fr :: rest => decide (lo ≤ fr.first) && rowOk fr && rowsWFFrom (fr.last + 1) rest

def rowsWF (tbl : List FoldRange) : Bool := rowsWFFrom 0 tbl

theorem rowOk_iff (fr : FoldRange) : rowOk fr = true ↔ RowOk fr := by
  constructor
  · intro h
    simp only [rowOk, Bool.and_eq_true, Bool.or_eq_true, decide_eq_true_eq, beq_iff_eq,
      bne_iff_ne, Bool.not_eq_true'] at h
    obtain ⟨⟨⟨⟨⟨h1, h2⟩, h3⟩, h4⟩, h5⟩, h6⟩ := h
    refine ⟨h1, ?_, h3, ?_, h5, h6⟩
    · omega
    · intro hn; rcases h4 with h | h
      · simp [hn] at h
      · exact h
  · intro ⟨h1, h2, h3, h4, h5, h6⟩
    simp only [rowOk, Bool.and_eq_true, Bool.or_eq_true, decide_eq_true_eq, beq_iff_eq,
      bne_iff_ne, Bool.not_eq_true']
    refine ⟨⟨⟨⟨⟨h1, by omega⟩, h3⟩, ?_⟩, h5⟩, h6⟩
    cases hn : fr.neg
    · exact Or.inl rfl
    · exact Or.inr (h4 hn)

theorem rowsWFFrom_spec : ∀ (tbl : List FoldRange) (lo : Nat), rowsWFFrom lo tbl = true →
    (∀ fr ∈ tbl, RowOk fr ∧ lo ≤ fr.first) ∧ tbl.Pairwise (fun a b => a.last < b.first) := by
  intro tbl
  induction tbl with
  | nil => intro lo _; simp
  | cons fr rest ih =>
    intro lo h
    simp only [rowsWFFrom, Bool.and_eq_true, decide_eq_true_eq] at h
    obtain ⟨⟨h1, h2⟩, h3⟩ := h
    obtain ⟨ih1, ih2⟩ := ih _ h3
    have hok := (rowOk_iff fr).1 h2
    have hlen := hok.len_pos
    constructor
    · intro x hx
      rcases List.mem_cons.1 hx with rfl | hx
      · exact ⟨hok, h1⟩
      · refine ⟨(ih1 x hx).1, ?_⟩
        have := (ih1 x hx).2
        simp only [FoldRange.last, FoldRange.first] at *
        omega
    · refine List.pairwise_cons.2 ⟨?_, ih2⟩
      intro x hx
      have := (ih1 x hx).2
      omega

theorem rowsWF_spec {tbl : List FoldRange} (h : rowsWF tbl = true) : RowsWF tbl :=
  ⟨fun fr hfr => ((rowsWFFrom_spec tbl 0 h).1 fr hfr).1, (rowsWFFrom_spec tbl 0 h).2⟩

theorem RowOk.first_le_last {fr : FoldRange} (h : RowOk fr) : fr.first ≤ fr.last := by
  have := h.len_pos
  simp only [FoldRange.first, FoldRange.last]; omega

theorem RowOk.modulo_pos {fr : FoldRange} (h : RowOk fr) : 1 ≤ fr.modulo := by
  have := h.modulo_pow; omega

/-- `add_delta` is strictly monotone on a well-formed row (no underflow). -/
theorem RowOk.addDelta_lt {fr : FoldRange} (h : RowOk fr) {a b : Nat} (ha : fr.first ≤ a)
    (hab : a < b) : fr.addDelta a < fr.addDelta b := by
  have := h.no_underflow
  unfold FoldRange.addDelta
  cases hn : fr.neg <;> simp only [if_true, Bool.false_eq_true, if_false]
  · omega
  · have := this hn; omega

theorem RowOk.addDelta_le {fr : FoldRange} (h : RowOk fr) {a b : Nat} (ha : fr.first ≤ a)
    (hab : a ≤ b) : fr.addDelta a ≤ fr.addDelta b := by
  rcases Nat.lt_or_ge a b with hlt | hge
  · exact Nat.le_of_lt (h.addDelta_lt ha hlt)
  · have : a = b := by omega
    subst this; exact Nat.le_refl _

theorem RowOk.addDelta_inj {fr : FoldRange} (h : RowOk fr) {a b : Nat} (ha : fr.first ≤ a)
    (hb : fr.first ≤ b) (hab : fr.addDelta a = fr.addDelta b) : a = b := by
  rcases Nat.lt_trichotomy a b with hlt | heq | hgt
  · have := h.addDelta_lt ha hlt; omega
  · exact heq
  · have := h.addDelta_lt hb hgt; omega

theorem RowOk.addDelta_ne {fr : FoldRange} (h : RowOk fr) {a : Nat} (ha : fr.first ≤ a) :
    fr.addDelta a ≠ a := by
  have h1 := h.no_underflow
  have h2 := h.delta_ne
  unfold FoldRange.addDelta
  cases hn : fr.neg <;> simp only [if_true, Bool.false_eq_true, if_false]
  · omega
  · have := h1 hn; omega

theorem RowOk.addDelta_le_max {fr : FoldRange} (h : RowOk fr) {a : Nat} (ha : fr.first ≤ a)
    (hb : a ≤ fr.last) : fr.addDelta a ≤ 0x10FFFF :=
  Nat.le_trans (h.addDelta_le ha hb) h.image_le

/-- The Rust predicate `(offset & predicate_mask()) == 0` with `predicate_mask() = modulo - 1` is
the `% modulo == 0` used by the model, for every power-of-two `modulo` a row may have. -/
theorem RowOk.mask_eq_mod {fr : FoldRange} (h : RowOk fr) (offset : Nat) :
    (offset &&& (fr.modulo - 1) == 0) = (offset % fr.modulo == 0) := by
  rcases h.modulo_pow with h | h | h | h | h <;> rw [h]
  · simp [Nat.mod_one]
  · exact congrArg (· == 0) (Nat.and_two_pow_sub_one_eq_mod offset 1)
  · exact congrArg (· == 0) (Nat.and_two_pow_sub_one_eq_mod offset 2)
  · exact congrArg (· == 0) (Nat.and_two_pow_sub_one_eq_mod offset 3)
  · exact congrArg (· == 0) (Nat.and_two_pow_sub_one_eq_mod offset 4)

/-! ## `findRow` and `foldWith` -/

theorem findRow_some {tbl : List FoldRange} {c : Nat} {fr : FoldRange}
    (h : findRow tbl c = some fr) : fr ∈ tbl ∧ fr.first ≤ c ∧ c ≤ fr.last := by
  unfold findRow at h
  have h1 := List.mem_of_find?_eq_some h
  have h2 := List.find?_some h
  simp only [Bool.and_eq_true, decide_eq_true_eq] at h2
  exact ⟨h1, h2.1, h2.2⟩

theorem findRow_none {tbl : List FoldRange} {c : Nat} (h : findRow tbl c = none) :
    ∀ fr ∈ tbl, ¬ (fr.first ≤ c ∧ c ≤ fr.last) := by
  unfold findRow at h
  intro fr hfr hc
  have := List.find?_eq_none.1 h fr hfr
  simp [hc.1, hc.2] at this

theorem findRow_unique {tbl : List FoldRange} (hp : tbl.Pairwise (fun a b => a.last < b.first))
    (hok : ∀ fr ∈ tbl, fr.first ≤ fr.last)
    {c : Nat} {fr : FoldRange} (hfr : fr ∈ tbl) (h1 : fr.first ≤ c) (h2 : c ≤ fr.last) :
    findRow tbl c = some fr := by
  induction tbl with
  | nil => cases hfr
  | cons a rest ih =>
    have hp' := List.pairwise_cons.1 hp
    unfold findRow
    rw [List.find?_cons]
    rcases List.mem_cons.1 hfr with rfl | hmem
    · simp [h1, h2]
    · have hlt := hp'.1 fr hmem
      have : ¬ (a.first ≤ c ∧ c ≤ a.last) := by omega
      have hb : (decide (a.first ≤ c) && decide (c ≤ a.last)) = false := by
        simp only [Bool.and_eq_false_iff, decide_eq_false_iff_not]; omega
      rw [hb]
      exact ih hp'.2 (fun x hx => hok x (List.mem_cons_of_mem _ hx)) hmem

theorem RowsWF.findRow_eq {tbl : List FoldRange} (hw : RowsWF tbl) {c : Nat} {fr : FoldRange}
    (hfr : fr ∈ tbl) (h1 : fr.first ≤ c) (h2 : c ≤ fr.last) : findRow tbl c = some fr :=
  findRow_unique hw.2 (fun x hx => (hw.1 x hx).first_le_last) hfr h1 h2

theorem RowsWF.foldWith_row {tbl : List FoldRange} (hw : RowsWF tbl) {c : Nat} {fr : FoldRange}
    (hfr : fr ∈ tbl) (h1 : fr.first ≤ c) (h2 : c ≤ fr.last) : foldWith tbl c = fr.apply c := by
  simp [foldWith, hw.findRow_eq hfr h1 h2]

theorem foldWith_outside {tbl : List FoldRange} {c : Nat}
    (h : ∀ fr ∈ tbl, ¬ (fr.first ≤ c ∧ c ≤ fr.last)) : foldWith tbl c = c := by
  unfold foldWith
  cases hf : findRow tbl c with
  | none => rfl
  | some fr =>
    obtain ⟨a, b, c'⟩ := findRow_some hf
    exact absurd ⟨b, c'⟩ (h fr a)

theorem fold_eq_foldWith (c : Nat) : fold c = foldWith folds c := rfl
theorem uppercase_eq_foldWith (c : Nat) : uppercase c = foldWith toUppercase c := rfl


/-! ## The graph of a row table -/

/-- The transforming code points of a row: `first, first + modulo, …` up to `last`. -/
def rowPoints (fr : FoldRange) : List Nat :=
  (List.range ((fr.len + fr.modulo - 1) / fr.modulo)).map (fun k => fr.first + k * fr.modulo)

/-- All pairs `(c, add_delta c)` for the transforming code points of all rows. -/
def graph (tbl : List FoldRange) : List (Nat × Nat) :=
  tbl.flatMap (fun fr => (rowPoints fr).map (fun cp => (cp, fr.addDelta cp)))

theorem mem_rowPoints {fr : FoldRange} (h : RowOk fr) (c : Nat) :
    c ∈ rowPoints fr ↔ fr.first ≤ c ∧ c ≤ fr.last ∧ (c - fr.first) % fr.modulo = 0 := by
  have hm := h.modulo_pos
  have hl := h.len_pos
  simp only [rowPoints, List.mem_map, List.mem_range, FoldRange.last, FoldRange.first]
  constructor
  · rintro ⟨k, hk, rfl⟩
    have h1 : (k + 1) * fr.modulo ≤ fr.len + fr.modulo - 1 :=
      (Nat.le_div_iff_mul_le (by omega)).1 hk
    rw [Nat.add_mul] at h1
    refine ⟨by omega, by omega, ?_⟩
    rw [Nat.add_sub_cancel_left]; exact Nat.mul_mod_left _ _
  · rintro ⟨h1, h2, h3⟩
    refine ⟨(c - fr.start) / fr.modulo, ?_, ?_⟩
    · have hd : (c - fr.start) / fr.modulo * fr.modulo = c - fr.start := by
        have := Nat.div_add_mod (c - fr.start) fr.modulo
        rw [h3, Nat.mul_comm] at this; omega
      have : ((c - fr.start) / fr.modulo + 1) * fr.modulo ≤ fr.len + fr.modulo - 1 := by
        rw [Nat.add_mul, hd]; omega
      exact (Nat.le_div_iff_mul_le (by omega)).2 this
    · have hd : (c - fr.start) / fr.modulo * fr.modulo = c - fr.start := by
        have := Nat.div_add_mod (c - fr.start) fr.modulo
        rw [h3, Nat.mul_comm] at this; omega
      rw [hd]; omega

theorem mem_graph {tbl : List FoldRange} {c f : Nat} :
    (c, f) ∈ graph tbl ↔ ∃ fr ∈ tbl, c ∈ rowPoints fr ∧ f = fr.addDelta c := by
  simp only [graph, List.mem_flatMap, List.mem_map, Prod.mk.injEq]
  constructor
  · rintro ⟨fr, hfr, cp, hcp, rfl, rfl⟩; exact ⟨fr, hfr, hcp, rfl⟩
  · rintro ⟨fr, hfr, hcp, rfl⟩; exact ⟨fr, hfr, c, hcp, rfl, rfl⟩

/-- On a well-formed table, `apply` transforms exactly the row points. -/
theorem apply_eq {fr : FoldRange} (c : Nat) :
    fr.apply c = if (c - fr.first) % fr.modulo = 0 then fr.addDelta c else c := by
  simp [FoldRange.apply]

theorem RowsWF.foldWith_of_mem_graph {tbl : List FoldRange} (hw : RowsWF tbl) {c f : Nat}
    (h : (c, f) ∈ graph tbl) : foldWith tbl c = f := by
  obtain ⟨fr, hfr, hc, rfl⟩ := mem_graph.1 h
  obtain ⟨h1, h2, h3⟩ := (mem_rowPoints (hw.1 fr hfr) c).1 hc
  rw [hw.foldWith_row hfr h1 h2, apply_eq, if_pos h3]

theorem RowsWF.foldWith_of_not_key {tbl : List FoldRange} (hw : RowsWF tbl) {c : Nat}
    (h : c ∉ (graph tbl).map Prod.fst) : foldWith tbl c = c := by
  unfold foldWith
  cases hf : findRow tbl c with
  | none => rfl
  | some fr =>
    obtain ⟨hfr, h1, h2⟩ := findRow_some hf
    simp only [apply_eq]
    split
    · rename_i h3
      exfalso; apply h
      refine List.mem_map.2 ⟨(c, fr.addDelta c), mem_graph.2 ⟨fr, hfr, ?_, rfl⟩, rfl⟩
      exact (mem_rowPoints (hw.1 fr hfr) c).2 ⟨h1, h2, h3⟩
    · rfl

/-- Every image in the graph differs from its source and is a code point. -/
theorem RowsWF.graph_val {tbl : List FoldRange} (hw : RowsWF tbl) {c f : Nat}
    (h : (c, f) ∈ graph tbl) : f ≠ c ∧ f ≤ 0x10FFFF ∧ c ≤ 0x10FFFF := by
  obtain ⟨fr, hfr, hc, rfl⟩ := mem_graph.1 h
  have hok := hw.1 fr hfr
  obtain ⟨h1, h2, -⟩ := (mem_rowPoints hok c).1 hc
  exact ⟨hok.addDelta_ne h1, hok.addDelta_le_max h1 h2, Nat.le_trans h2 hok.last_le⟩

/-! ## Association lists as finite maps with identity default -/

/-- `app l c`: the value `l` associates with `c`, or `c` itself. -/
def app (l : List (Nat × Nat)) (c : Nat) : Nat := (List.lookup c l).getD c

/-- The association list is functional (no key with two different values). -/
def Fun (l : List (Nat × Nat)) : Prop := ∀ c v v', (c, v) ∈ l → (c, v') ∈ l → v = v'

theorem lookup_none {l : List (Nat × Nat)} {c : Nat} (h : c ∉ l.map Prod.fst) :
    List.lookup c l = none := by
  induction l with
  | nil => rfl
  | cons p r ih =>
    obtain ⟨k, v⟩ := p
    simp only [List.map_cons, List.mem_cons, not_or] at h
    have : (c == k) = false := by simp; exact h.1
    simp only [List.lookup, this]
    exact ih h.2

theorem lookup_mem {l : List (Nat × Nat)} {c v : Nat} (h : List.lookup c l = some v) :
    (c, v) ∈ l := by
  induction l with
  | nil => cases h
  | cons p r ih =>
    obtain ⟨k, w⟩ := p
    simp only [List.lookup] at h
    split at h
    · rename_i hck; cases h
      have : c = k := by simpa using hck
      subst this; simp
    · exact List.mem_cons_of_mem _ (ih h)

theorem lookup_isSome {l : List (Nat × Nat)} {c v : Nat} (h : (c, v) ∈ l) :
    ∃ w, List.lookup c l = some w := by
  cases hl : List.lookup c l with
  | some w => exact ⟨w, rfl⟩
  | none =>
    exfalso
    induction l with
    | nil => cases h
    | cons p r ih =>
      obtain ⟨k, w⟩ := p
      simp only [List.lookup] at hl
      split at hl
      · cases hl
      · rename_i hck
        rcases List.mem_cons.1 h with heq | hm
        · cases heq; simp at hck
        · exact ih hm hl

theorem Fun.app_of_mem {l : List (Nat × Nat)} (hf : Fun l) {c v : Nat} (h : (c, v) ∈ l) :
    app l c = v := by
  obtain ⟨w, hw⟩ := lookup_isSome h
  have := hf c w v (lookup_mem hw) h
  simp [app, hw, this]

theorem app_of_not_key {l : List (Nat × Nat)} {c : Nat} (h : c ∉ l.map Prod.fst) : app l c = c := by
  simp [app, lookup_none h]

theorem key_of_app_ne {l : List (Nat × Nat)} {c : Nat} (h : app l c ≠ c) : (c, app l c) ∈ l := by
  unfold app at *
  cases hl : List.lookup c l with
  | none => simp [hl] at h
  | some w => simpa using lookup_mem hl

/-- Strictly ascending keys (one pass). -/
def keysAscFrom : Nat → List (Nat × Nat) → Bool
  | _, [] => true
  | lo, p :: r => decide (lo ≤ p.1) && keysAscFrom (p.1 + 1) r

def keysAsc (l : List (Nat × Nat)) : Bool := keysAscFrom 0 l

theorem keysAscFrom_spec : ∀ (l : List (Nat × Nat)) (lo : Nat), keysAscFrom lo l = true →
    (∀ p ∈ l, lo ≤ p.1) ∧ l.Pairwise (fun a b => a.1 < b.1) := by
  intro l
  induction l with
  | nil => intro lo _; simp
  | cons p r ih =>
    intro lo h
    simp only [keysAscFrom, Bool.and_eq_true, decide_eq_true_eq] at h
    obtain ⟨ih1, ih2⟩ := ih _ h.2
    refine ⟨?_, List.pairwise_cons.2 ⟨fun x hx => ih1 x hx, ih2⟩⟩
    intro x hx
    rcases List.mem_cons.1 hx with rfl | hx
    · exact h.1
    · have := ih1 x hx; omega

theorem pairwise_keys_fun {l : List (Nat × Nat)} (hp : l.Pairwise (fun a b => a.1 < b.1)) :
    Fun l := by
  intro c v v' h1 h2
  induction l with
  | nil => cases h1
  | cons p r ih =>
    have hp' := List.pairwise_cons.1 hp
    rcases List.mem_cons.1 h1 with e1 | m1 <;> rcases List.mem_cons.1 h2 with e2 | m2
    · rw [← e1] at e2; cases e2; rfl
    · have := hp'.1 _ m2; rw [← e1] at this; simp at this
    · have := hp'.1 _ m1; rw [← e2] at this; simp at this
    · exact ih hp'.2 m1 m2

theorem keysAsc_fun {l : List (Nat × Nat)} (h : keysAsc l = true) : Fun l :=
  pairwise_keys_fun (keysAscFrom_spec l 0 h).2

theorem RowsWF.graph_fun {tbl : List FoldRange} (hw : RowsWF tbl) : Fun (graph tbl) := by
  intro c v v' h1 h2
  rw [← hw.foldWith_of_mem_graph h1, ← hw.foldWith_of_mem_graph h2]

/-- `fold`/`uppercase` are `app` of the graph of their table. -/
theorem RowsWF.foldWith_eq_app {tbl : List FoldRange} (hw : RowsWF tbl) (c : Nat) :
    foldWith tbl c = app (graph tbl) c := by
  by_cases h : c ∈ (graph tbl).map Prod.fst
  · obtain ⟨⟨k, v⟩, hm, rfl⟩ := List.mem_map.1 h
    rw [hw.foldWith_of_mem_graph hm, hw.graph_fun.app_of_mem hm]
  · rw [hw.foldWith_of_not_key h, app_of_not_key h]


/-! ## Direct-address tables packed in one `Nat`

`dbuild l` stores the value `v` of every pair `(k, v) ∈ l` in bits `[21 k, 21 k + 21)`.
`dget T k` reads that field. All operations are GMP-accelerated in the kernel, so a lookup is O(1)
kernel steps instead of a list walk. -/

def dget (T c : Nat) : Nat := (T >>> (21 * c)) % 2097152

def dbuildFrom (acc : Nat) (l : List (Nat × Nat)) : Nat :=
  l.foldl (fun acc p => acc ||| (p.2 <<< (21 * p.1))) acc

def dbuild (l : List (Nat × Nat)) : Nat := dbuildFrom 0 l

theorem testBit_dget (T c i : Nat) :
    (dget T c).testBit i = (decide (i < 21) && T.testBit (21 * c + i)) := by
  have : (2097152 : Nat) = 2 ^ 21 := by decide
  rw [dget, this, Nat.testBit_mod_two_pow, Nat.testBit_shiftRight]

theorem testBit_ge_of_lt {v : Nat} (hv : v < 2097152) {i : Nat} (hi : 21 ≤ i) :
    v.testBit i = false := by
  apply Nat.testBit_lt_two_pow
  calc v < 2 ^ 21 := by simpa using hv
    _ ≤ 2 ^ i := Nat.pow_le_pow_right (by decide) hi

theorem dget_step (acc k v c : Nat) (hv : v < 2097152) :
    dget (acc ||| (v <<< (21 * k))) c = if k = c then dget acc c ||| v else dget acc c := by
  apply Nat.eq_of_testBit_eq
  intro i
  split
  · rename_i h; subst h
    rw [Nat.testBit_or, testBit_dget, testBit_dget, Nat.testBit_or, Nat.testBit_shiftLeft]
    have e : 21 * k + i - 21 * k = i := by omega
    have g : decide (21 * k + i ≥ 21 * k) = true := by simp
    rw [e, g]
    by_cases hi : i < 21
    · simp [hi]
    · simp [hi, testBit_ge_of_lt hv (by omega : 21 ≤ i)]
  · rename_i h
    rw [testBit_dget, testBit_dget, Nat.testBit_or, Nat.testBit_shiftLeft]
    by_cases hi : i < 21
    · simp only [hi, decide_true, Bool.true_and]
      by_cases hck : c < k
      · have : ¬ (21 * c + i ≥ 21 * k) := by omega
        simp [this]
      · have : 21 ≤ 21 * c + i - 21 * k := by omega
        simp [testBit_ge_of_lt hv this]
    · simp [hi]

theorem dget_zero (c : Nat) : dget 0 c = 0 := by simp [dget]

theorem dget_dbuildFrom (c : Nat) : ∀ (l : List (Nat × Nat)) (acc : Nat),
    (∀ p ∈ l, p.2 < 2097152) →
    dget (dbuildFrom acc l) c =
      l.foldl (fun a p => if p.1 = c then a ||| p.2 else a) (dget acc c) := by
  intro l
  induction l with
  | nil => intro acc _; rfl
  | cons p r ih =>
    intro acc h
    simp only [dbuildFrom, List.foldl_cons]
    have := ih (acc ||| (p.2 <<< (21 * p.1))) (fun q hq => h q (List.mem_cons_of_mem _ hq))
    simp only [dbuildFrom] at this
    rw [this, dget_step _ _ _ _ (h p (by simp))]

theorem foldl_or_key (c v : Nat) : ∀ (l : List (Nat × Nat)) (a : Nat),
    (∀ p ∈ l, p.1 = c → p.2 = v) →
    l.foldl (fun a p => if p.1 = c then a ||| p.2 else a) a =
      if c ∈ l.map Prod.fst then a ||| v else a := by
  intro l
  induction l with
  | nil => intro a _; simp
  | cons p r ih =>
    intro a h
    simp only [List.foldl_cons, List.map_cons, List.mem_cons]
    rw [ih _ (fun q hq => h q (List.mem_cons_of_mem _ hq))]
    by_cases hp : p.1 = c
    · have hv := h p (by simp) hp
      simp only [hp, if_true, true_or, hv]
      split
      · rw [Nat.or_assoc, Nat.or_self]
      · rfl
    · have : ¬ c = p.1 := fun e => hp e.symm
      simp only [hp, this, if_false, false_or]

/-- Values fit in a field and are non-zero (`0` encodes "absent"). -/
def valsOk (l : List (Nat × Nat)) : Bool := l.all (fun p => decide (0 < p.2) && decide (p.2 < 2097152))

theorem valsOk_spec {l : List (Nat × Nat)} (h : valsOk l = true) :
    ∀ p ∈ l, 0 < p.2 ∧ p.2 < 2097152 := by
  intro p hp
  have := List.all_eq_true.1 h p hp
  simpa using this

theorem dget_of_mem {l : List (Nat × Nat)} (hf : Fun l) (hv : valsOk l = true) {c v : Nat}
    (h : (c, v) ∈ l) : dget (dbuild l) c = v := by
  rw [dbuild, dget_dbuildFrom c l 0 (fun p hp => (valsOk_spec hv p hp).2), dget_zero,
    foldl_or_key c v l 0]
  · have : c ∈ l.map Prod.fst := List.mem_map.2 ⟨(c, v), h, rfl⟩
    simp [this]
  · intro p hp hc
    obtain ⟨k, w⟩ := p
    simp only at hc; subst hc
    exact hf _ _ _ hp h

theorem dget_of_not_key {l : List (Nat × Nat)} (hv : valsOk l = true) {c : Nat}
    (h : c ∉ l.map Prod.fst) : dget (dbuild l) c = 0 := by
  rw [dbuild, dget_dbuildFrom c l 0 (fun p hp => (valsOk_spec hv p hp).2), dget_zero]
  have : ∀ (l : List (Nat × Nat)) (a : Nat), c ∉ l.map Prod.fst →
      l.foldl (fun a p => if p.1 = c then a ||| p.2 else a) a = a := by
    intro l
    induction l with
    | nil => intro a _; rfl
    | cons p r ih =>
      intro a hn
      simp only [List.map_cons, List.mem_cons, not_or] at hn
      have : ¬ p.1 = c := fun e => hn.1 e.symm
      simp only [List.foldl_cons, this, if_false]
      exact ih a hn.2
  exact this l 0 h

/-- `app` through the table. -/
def appT (T c : Nat) : Nat := if dget T c == 0 then c else dget T c

theorem appT_eq {l : List (Nat × Nat)} (hf : Fun l) (hv : valsOk l = true) (c : Nat) :
    appT (dbuild l) c = app l c := by
  unfold appT
  by_cases h : c ∈ l.map Prod.fst
  · obtain ⟨⟨k, v⟩, hm, rfl⟩ := List.mem_map.1 h
    have hpos := (valsOk_spec hv _ hm).1
    simp only at hpos
    rw [dget_of_mem hf hv hm, hf.app_of_mem hm]
    have : (v == 0) = false := by simp; omega
    simp [this]
  · rw [dget_of_not_key hv h, app_of_not_key h]; simp

/-- Key test through the table. -/
theorem dget_eq_zero_iff {l : List (Nat × Nat)} (hf : Fun l) (hv : valsOk l = true) (c : Nat) :
    dget (dbuild l) c = 0 ↔ c ∉ l.map Prod.fst := by
  constructor
  · intro h hk
    obtain ⟨⟨k, v⟩, hm, rfl⟩ := List.mem_map.1 hk
    have hpos := (valsOk_spec hv _ hm).1
    rw [dget_of_mem hf hv hm] at h
    simp only at hpos; omega
  · exact dget_of_not_key hv


/-! ## Generic checkers over association lists, and their lifting lemmas -/

/-- No image is a key. -/
def idemCheck (l : List (Nat × Nat)) : Bool :=
  let T := dbuild l
  l.all (fun p => dget T p.2 == 0)

theorem idem_lift {l : List (Nat × Nat)} (hf : Fun l) (hv : valsOk l = true)
    (h : idemCheck l = true) (c : Nat) : app l (app l c) = app l c := by
  by_cases hc : app l c = c
  · rw [hc, hc]
  · have hm := key_of_app_ne hc
    have := List.all_eq_true.1 h _ hm
    simp only [beq_iff_eq] at this
    exact app_of_not_key ((dget_eq_zero_iff hf hv _).1 this)

/-- For every pair `(c, f)` of `l₁`: `app l₂ f = app l₂ c`. -/
def relCheck (l₁ l₂ : List (Nat × Nat)) : Bool :=
  let T := dbuild l₂
  l₁.all (fun p => appT T p.2 == appT T p.1)

theorem rel_lift {l₁ l₂ : List (Nat × Nat)} (hf₂ : Fun l₂) (hv₂ : valsOk l₂ = true)
    (h : relCheck l₁ l₂ = true) (c : Nat) : app l₂ (app l₁ c) = app l₂ c := by
  by_cases hc : app l₁ c = c
  · rw [hc]
  · have hm := key_of_app_ne hc
    have := List.all_eq_true.1 h _ hm
    simpa [appT_eq hf₂ hv₂] using this

theorem rel_iff {f g : Nat → Nat} (h1 : ∀ c, g (f c) = g c) (h2 : ∀ c, f (g c) = f c) (c d : Nat) :
    f c = f d ↔ g c = g d := by
  constructor
  · intro h; rw [← h1 c, h, h1 d]
  · intro h; rw [← h2 c, h, h2 d]

/-! ## `sort_unstable` / `dedup` -/

theorem mem_insertSorted {x y : Nat} {l : List Nat} : y ∈ insertSorted x l ↔ y = x ∨ y ∈ l := by
  induction l with
  | nil => simp [insertSorted]
  | cons a r ih =>
    simp only [insertSorted]
    split
    · simp
    · simp only [List.mem_cons, ih]
      constructor
      · rintro (h | h | h) <;> simp [h]
      · rintro (h | h | h) <;> simp [h]

theorem mem_sortNat {y : Nat} {l : List Nat} : y ∈ sortNat l ↔ y ∈ l := by
  induction l with
  | nil => simp [sortNat]
  | cons a r ih => simp [sortNat, mem_insertSorted, ih]

theorem mem_dedup {y : Nat} : ∀ {l : List Nat}, y ∈ dedup l ↔ y ∈ l := by
  intro l
  fun_induction dedup l with
  | case1 => simp
  | case2 x => simp
  | case3 x y' r h ih =>
    have : x = y' := by simpa using h
    subst this
    rw [ih]; simp
  | case4 x y' r h ih =>
    simp only [List.mem_cons] at ih ⊢
    rw [ih]

theorem insertSorted_sorted {x : Nat} {l : List Nat} (h : l.Pairwise (· ≤ ·)) :
    (insertSorted x l).Pairwise (· ≤ ·) := by
  induction l with
  | nil => simp [insertSorted]
  | cons a r ih =>
    have h' := List.pairwise_cons.1 h
    simp only [insertSorted]
    split
    · rename_i hxa
      refine List.pairwise_cons.2 ⟨?_, h⟩
      intro z hz
      rcases List.mem_cons.1 hz with rfl | hz
      · exact hxa
      · exact Nat.le_trans hxa (h'.1 z hz)
    · rename_i hxa
      refine List.pairwise_cons.2 ⟨?_, ih h'.2⟩
      intro z hz
      rcases mem_insertSorted.1 hz with rfl | hz
      · omega
      · exact h'.1 z hz

theorem sortNat_sorted (l : List Nat) : (sortNat l).Pairwise (· ≤ ·) := by
  induction l with
  | nil => simp [sortNat]
  | cons a r ih => exact insertSorted_sorted ih

theorem dedup_strict : ∀ {l : List Nat}, l.Pairwise (· ≤ ·) → (dedup l).Pairwise (· < ·) := by
  intro l
  fun_induction dedup l with
  | case1 => simp
  | case2 x => simp
  | case3 x y r h ih =>
    intro hp; exact ih (List.pairwise_cons.1 hp).2
  | case4 x y r h ih =>
    intro hp
    have hp' := List.pairwise_cons.1 hp
    have hp'' := List.pairwise_cons.1 hp'.2
    refine List.pairwise_cons.2 ⟨?_, ih hp'.2⟩
    intro z hz
    have hz' := mem_dedup.1 hz
    have hxy : x ≠ y := by simpa using h
    have h1 := hp'.1 y (by simp)
    rcases List.mem_cons.1 hz' with rfl | hzr
    · omega
    · have := hp''.1 z hzr; omega

theorem dedup_sort_nodup (l : List Nat) : (dedup (sortNat l)).Nodup :=
  (dedup_strict (sortNat_sorted l)).imp (fun h => Nat.ne_of_lt h)

/-! ## `unfold_char` -/

theorem foldl_push_filter {α} (P : α → Bool) : ∀ (l res : List α),
    l.foldl (fun res cp => if P cp then res ++ [cp] else res) res = res ++ l.filter P := by
  intro l
  induction l with
  | nil => intro res; simp
  | cons a r ih =>
    intro res
    simp only [List.foldl_cons, List.filter_cons]
    split <;> simp [ih]

theorem mem_codepoints {iv : Interval} {d : Nat} :
    d ∈ codepoints iv ↔ iv.first ≤ d ∧ d ≤ iv.last := by
  simp only [codepoints, List.mem_range'_1]; omega

theorem mem_unfoldRow {tr : FoldRange} {fcp d : Nat} {res : List Nat} :
    d ∈ unfoldRow tr fcp res ↔
      d ∈ res ∨ (tr.transformedTo.contains fcp = true ∧ tr.first ≤ d ∧ d ≤ tr.last ∧
        tr.apply d = fcp) := by
  unfold unfoldRow
  split
  · rename_i h
    have : tr.transformedTo.contains fcp = false := by simpa using h
    simp [this]
  · rename_i h
    have hc : tr.transformedTo.contains fcp = true := by simpa using h
    have := foldl_push_filter (fun cp => tr.apply cp == fcp) (codepoints tr.transformedFrom) res
    rw [show List.foldl (fun res cp => let tcp := tr.apply cp; if (tcp == fcp) = true then res ++ [cp] else res) res (codepoints tr.transformedFrom) = _ from this, List.mem_append, List.mem_filter, mem_codepoints]
    simp [hc, FoldRange.transformedFrom, and_assoc]

theorem mem_foldl_unfoldRow {fcp d : Nat} : ∀ (tbl : List FoldRange) (res : List Nat),
    d ∈ tbl.foldl (fun res tr => unfoldRow tr fcp res) res ↔
      d ∈ res ∨ ∃ tr ∈ tbl, tr.transformedTo.contains fcp = true ∧ tr.first ≤ d ∧ d ≤ tr.last ∧
        tr.apply d = fcp := by
  intro tbl
  induction tbl with
  | nil => intro res; simp
  | cons a r ih =>
    intro res
    rw [List.foldl_cons, ih, mem_unfoldRow]
    constructor
    · rintro ((h | h) | ⟨tr, htr, h⟩)
      · exact Or.inl h
      · exact Or.inr ⟨a, by simp, h⟩
      · exact Or.inr ⟨tr, List.mem_cons_of_mem _ htr, h⟩
    · rintro (h | ⟨tr, htr, h⟩)
      · exact Or.inl (Or.inl h)
      · rcases List.mem_cons.1 htr with rfl | htr
        · exact Or.inl (Or.inr h)
        · exact Or.inr ⟨tr, htr, h⟩

/-- `unfold_char` returns exactly the code points with the same fold, on any well-formed table
whose fold is idempotent. -/
theorem mem_unfoldCharWith {tbl : List FoldRange} (hw : RowsWF tbl)
    (hi : ∀ c, foldWith tbl (foldWith tbl c) = foldWith tbl c) (c d : Nat) :
    d ∈ unfoldCharWith tbl c ↔ foldWith tbl d = foldWith tbl c := by
  unfold unfoldCharWith
  simp only [mem_dedup, mem_sortNat, mem_foldl_unfoldRow]
  constructor
  · rintro (h | ⟨tr, htr, -, h1, h2, h3⟩)
    · split at h
      · rcases List.mem_append.1 h with h | h
        · simp only [List.mem_singleton] at h; rw [h]
        · simp only [List.mem_singleton] at h; rw [h, hi]
      · simp only [List.mem_singleton] at h; rw [h]
    · rw [hw.foldWith_row htr h1 h2, h3]
  · intro h
    by_cases hdc : d = c
    · left; subst hdc; split <;> simp
    · have hfix : foldWith tbl d = d → d ∈ (if (foldWith tbl c != c) = true then [c] ++ [foldWith tbl c] else [c]) := by
        intro hd
        have : foldWith tbl c ≠ c := by rw [← h, hd]; exact hdc
        have hb : (foldWith tbl c != c) = true := by simpa using this
        rw [if_pos hb, ← h, hd]; simp
      cases hf : findRow tbl d with
      | none =>
        left; apply hfix
        simp [foldWith, hf]
      | some tr =>
        obtain ⟨htr, h1, h2⟩ := findRow_some hf
        have hok := hw.1 tr htr
        have happ : tr.apply d = foldWith tbl c := by rw [← h, hw.foldWith_row htr h1 h2]
        by_cases hm : (d - tr.first) % tr.modulo = 0
        · right
          refine ⟨tr, htr, ?_, h1, h2, happ⟩
          rw [apply_eq, if_pos hm] at happ
          simp only [Interval.contains, FoldRange.transformedTo, Bool.and_eq_true,
            decide_eq_true_eq, ← happ]
          exact ⟨hok.addDelta_le (Nat.le_refl _) h1, hok.addDelta_le h1 h2⟩
        · left; apply hfix
          rw [hw.foldWith_row htr h1 h2, apply_eq, if_neg hm]

theorem unfoldCharWith_nodup (tbl : List FoldRange) (c : Nat) : (unfoldCharWith tbl c).Nodup :=
  dedup_sort_nodup _

theorem unfoldCharWith_sorted (tbl : List FoldRange) (c : Nat) :
    (unfoldCharWith tbl c).Pairwise (· < ·) :=
  dedup_strict (sortNat_sorted _)

/-! ## Multiplicity of images (class sizes) -/

/-- Saturating per-value counters as four bitsets: bit `g` of the `k`-th component is set iff `g`
was seen at least `k` times. -/
def cntStep (s : Nat × Nat × Nat × Nat) (f : Nat) : Nat × Nat × Nat × Nat :=
  let b := 2 ^ f
  (s.1 ||| b, s.2.1 ||| (s.1 &&& b), s.2.2.1 ||| (s.2.1 &&& b), s.2.2.2 ||| (s.2.2.1 &&& b))

/-- No value occurs more than three times among the images. -/
def multCheck (l : List (Nat × Nat)) : Bool :=
  (l.foldl (fun s p => cntStep s p.2) (0, 0, 0, 0)).2.2.2 == 0

def CntInv (s : Nat × Nat × Nat × Nat) (xs : List Nat) : Prop :=
  ∀ g, s.1.testBit g = decide (1 ≤ xs.count g) ∧ s.2.1.testBit g = decide (2 ≤ xs.count g) ∧
    s.2.2.1.testBit g = decide (3 ≤ xs.count g) ∧ s.2.2.2.testBit g = decide (4 ≤ xs.count g)

theorem dec_or (k n : Nat) : (decide (k + 1 ≤ n) || decide (k ≤ n)) = decide (k + 1 ≤ n + 1) := by
  by_cases hk : k ≤ n
  · simp [hk]
  · have : ¬ k + 1 ≤ n := by omega
    simp [hk, this]

theorem cntInv_step {s xs} (h : CntInv s xs) (f : Nat) : CntInv (cntStep s f) (xs ++ [f]) := by
  intro g
  obtain ⟨h1, h2, h3, h4⟩ := h g
  simp only [cntStep, Nat.testBit_or, Nat.testBit_and, Nat.testBit_two_pow, h1, h2, h3, h4,
    List.count_append, List.count_singleton]
  by_cases hfg : f = g
  · subst hfg
    simp only [beq_self_eq_true, if_true, decide_true, Bool.and_true]
    exact ⟨by simp, dec_or 1 _, dec_or 2 _, dec_or 3 _⟩
  · have : (f == g) = false := by simpa using hfg
    simp [this, hfg]

theorem cntInv_foldl : ∀ (l : List (Nat × Nat)) (s : Nat × Nat × Nat × Nat) (xs : List Nat),
    CntInv s xs → CntInv (l.foldl (fun s p => cntStep s p.2) s) (xs ++ l.map Prod.snd) := by
  intro l
  induction l with
  | nil => intro s xs h; simpa using h
  | cons p r ih =>
    intro s xs h
    have := ih _ _ (cntInv_step h p.2)
    simpa using this

theorem multCheck_spec {l : List (Nat × Nat)} (h : multCheck l = true) (g : Nat) :
    (l.map Prod.snd).count g ≤ 3 := by
  have h0 : CntInv (0, 0, 0, 0) [] := by intro g; simp
  have := (cntInv_foldl l _ _ h0 g).2.2.2
  simp only [multCheck, beq_iff_eq] at h
  rw [h] at this
  simp only [Nat.zero_testBit, List.nil_append] at this
  have := of_decide_eq_false this.symm
  omega

theorem nodup_subset_length {α} [DecidableEq α] : ∀ {L M : List α}, L.Nodup → L ⊆ M →
    L.length ≤ M.length := by
  intro L
  induction L with
  | nil => intro M _ _; simp
  | cons a L ih =>
    intro M hn hs
    obtain ⟨ha, hn'⟩ := List.nodup_cons.1 hn
    have haM : a ∈ M := hs (by simp)
    have hsub : L ⊆ M.erase a := by
      intro x hx
      have hxa : x ≠ a := fun e => ha (e ▸ hx)
      exact (List.mem_erase_of_ne hxa).2 (hs (List.mem_cons_of_mem _ hx))
    have := ih hn' hsub
    rw [List.length_erase_of_mem haM] at this
    have : 0 < M.length := List.length_pos_of_mem haM
    simp only [List.length_cons]; omega

theorem length_le_filter_ne_succ (f : Nat) : ∀ {L : List Nat}, L.Nodup →
    L.length ≤ (L.filter (fun d => d != f)).length + 1 := by
  intro L
  induction L with
  | nil => intro _; simp
  | cons a L ih =>
    intro hn
    obtain ⟨ha, hn'⟩ := List.nodup_cons.1 hn
    by_cases haf : a = f
    · subst haf
      have : L.filter (fun d => d != a) = L := by
        apply List.filter_eq_self.2
        intro x hx
        have : x ≠ a := fun e => ha (e ▸ hx)
        simpa using this
      simp [this]
    · have hb : (a != f) = true := by simpa using haf
      have := ih hn'
      simp only [List.filter_cons, hb, if_true, List.length_cons]
      omega

/-- If no value has more than three preimages in `l`, every duplicate-free list of code points
with a common `app l` value has at most four elements. -/
theorem class_le_four {l : List (Nat × Nat)} (hm : multCheck l = true) {L : List Nat} {f : Nat}
    (hn : L.Nodup) (hL : ∀ d ∈ L, app l d = f) : L.length ≤ 4 := by
  have hlen := length_le_filter_ne_succ f hn
  have h2 : (L.filter (fun d => d != f)).length ≤ ((l.filter (fun p => p.2 == f)).map Prod.fst).length := by
    apply nodup_subset_length (hn.sublist List.filter_sublist)
    intro d hd
    obtain ⟨hdL, hdf⟩ := List.mem_filter.1 hd
    have hdf' : d ≠ f := by simpa using hdf
    have hne : app l d ≠ d := by rw [hL d hdL]; exact fun e => hdf' e.symm
    have := key_of_app_ne hne
    rw [hL d hdL] at this
    exact List.mem_map.2 ⟨(d, f), List.mem_filter.2 ⟨this, by simp⟩, rfl⟩
  have h3 : ((l.filter (fun p => p.2 == f)).map Prod.fst).length ≤ 3 := by
    have := multCheck_spec hm f
    rw [List.count_eq_length_filter, List.filter_map, List.length_map] at this
    rw [List.length_map]; exact this
  omega

/-! ## Comparing two maps pointwise -/

/-- `D` is exactly the set of keys on which the two association lists (with identity default)
differ. -/
def diffCheck (lU lL : List (Nat × Nat)) (D : List Nat) : Bool :=
  let TU := dbuild lU
  let TL := dbuild lL
  lU.all (fun p => (appT TL p.1 != p.2) == D.contains p.1) &&
  lL.all (fun p => (appT TU p.1 != p.2) == D.contains p.1) &&
  D.all (fun c => appT TU c != appT TL c)

theorem diff_lift {lU lL : List (Nat × Nat)} {D : List Nat} (hfU : Fun lU) (hvU : valsOk lU = true)
    (hfL : Fun lL) (hvL : valsOk lL = true) (h : diffCheck lU lL D = true) (c : Nat) :
    app lU c ≠ app lL c ↔ c ∈ D := by
  simp only [diffCheck, Bool.and_eq_true, List.all_eq_true, appT_eq hfU hvU, appT_eq hfL hvL] at h
  obtain ⟨⟨h1, h2⟩, h3⟩ := h
  constructor
  · intro hne
    by_cases hU : app lU c = c
    · have hL : app lL c ≠ c := fun e => hne (by rw [hU, e])
      have := h2 _ (key_of_app_ne hL)
      simp only [beq_iff_eq] at this
      have hb : (app lU c != app lL c) = true := by simpa using hne
      rw [hb] at this
      simpa using this.symm
    · have := h1 _ (key_of_app_ne hU)
      simp only [beq_iff_eq] at this
      have hb : (app lL c != app lU c) = true := by simpa using fun e => hne (Eq.symm e)
      rw [hb] at this
      simpa using this.symm
  · intro hc
    simpa using h3 c hc

/-! ## `fold_interval` / `unfold_interval` / `add_icase_code_points` -/

/-- A loop body that conditionally adds one code point. -/
def IsAddBody (body : IvList → Nat → IvList) (P : Nat → Bool) (g : Nat → Nat) : Prop :=
  ∀ recv cu, body recv cu = if P cu = true then addOne recv (g cu) else recv

theorem foldl_addBody {body : IvList → Nat → IvList} {P : Nat → Bool} {g : Nat → Nat}
    (hb : IsAddBody body P g) : ∀ (l : List Nat) (recv : IvList), WF recv →
    (∀ cu ∈ l, P cu = true → g cu ≤ 0x10FFFF) →
    WF (l.foldl body recv) ∧
    ∀ x, mem (l.foldl body recv) x ↔ mem recv x ∨ ∃ cu ∈ l, P cu = true ∧ x = g cu := by
  intro l
  induction l with
  | nil => intro recv h _; simp [h]
  | cons a r ih =>
    intro recv hw hg
    rw [List.foldl_cons]
    have hw' : WF (body recv a) := by
      rw [hb]; split
      · rename_i hp; exact C12.addOne_wf hw (hg a (by simp) hp)
      · exact hw
    obtain ⟨h1, h2⟩ := ih (body recv a) hw' (fun cu hcu => hg cu (List.mem_cons_of_mem _ hcu))
    refine ⟨h1, fun x => ?_⟩
    rw [h2 x, hb]
    split
    · rename_i hp
      rw [C12.addOne_mem hw (hg a (by simp) hp)]
      constructor
      · rintro ((h | h) | ⟨cu, hcu, h⟩)
        · exact Or.inl h
        · exact Or.inr ⟨a, by simp, hp, h⟩
        · exact Or.inr ⟨cu, List.mem_cons_of_mem _ hcu, h⟩
      · rintro (h | ⟨cu, hcu, hpc, hx⟩)
        · exact Or.inl (Or.inl h)
        · rcases List.mem_cons.1 hcu with rfl | hcu
          · exact Or.inl (Or.inr hx)
          · exact Or.inr ⟨cu, hcu, hpc, hx⟩
    · rename_i hp
      constructor
      · rintro (h | ⟨cu, hcu, h⟩)
        · exact Or.inl h
        · exact Or.inr ⟨cu, List.mem_cons_of_mem _ hcu, h⟩
      · rintro (h | ⟨cu, hcu, hpc, hx⟩)
        · exact Or.inl h
        · rcases List.mem_cons.1 hcu with rfl | hcu
          · exact absurd hpc hp
          · exact Or.inr ⟨cu, hcu, hpc, hx⟩

/-- The code points visited by `strideWalk`. -/
def stridePts (step last : Nat) : (fuel cu : Nat) → List Nat
  | 0, _ => []
  | fuel + 1, cu => if cu ≤ last then cu :: stridePts step last fuel (cu + step) else []

theorem strideWalk_eq (step last : Nat) (body : IvList → Nat → IvList) :
    ∀ (fuel cu : Nat) (recv : IvList),
      strideWalk step last body fuel cu recv = (stridePts step last fuel cu).foldl body recv := by
  intro fuel
  induction fuel with
  | zero => intro cu recv; rfl
  | succ n ih =>
    intro cu recv
    simp only [strideWalk, stridePts]
    split
    · rw [ih]; rfl
    · rfl

/-- With enough fuel and a positive step, the walk visits exactly `cu, cu + step, …` up to `last`. -/
theorem mem_stridePts {step last : Nat} (hs : 1 ≤ step) : ∀ (fuel cu : Nat),
    last + 1 - cu ≤ fuel → ∀ x, x ∈ stridePts step last fuel cu ↔ (∃ k, x = cu + k * step) ∧ x ≤ last := by
  intro fuel
  induction fuel with
  | zero =>
    intro cu hf x
    simp only [stridePts, List.not_mem_nil, false_iff]
    rintro ⟨⟨k, rfl⟩, h⟩
    have : 0 ≤ k * step := Nat.zero_le _
    omega
  | succ n ih =>
    intro cu hf x
    simp only [stridePts]
    split
    · rename_i hle
      rw [List.mem_cons, ih (cu + step) (by omega) x]
      constructor
      · rintro (rfl | ⟨⟨k, rfl⟩, h⟩)
        · exact ⟨⟨0, by simp⟩, hle⟩
        · exact ⟨⟨k + 1, by rw [Nat.add_mul]; omega⟩, h⟩
      · rintro ⟨⟨k, rfl⟩, h⟩
        cases k with
        | zero => left; simp
        | succ k => right; exact ⟨⟨k, by rw [Nat.add_mul]; omega⟩, h⟩
    · rename_i hgt
      simp only [List.not_mem_nil, false_iff]
      rintro ⟨⟨k, rfl⟩, h⟩
      have : 0 ≤ k * step := Nat.zero_le _
      omega

theorem stride_arith (m first ft lt cu : Nat) (hm : m = 2 ∨ m = 4 ∨ m = 8 ∨ m = 16)
    (hft : first ≤ ft) :
    ((∃ k, cu = ft + (m - (ft - first) % m) % m + k * m) ∧ cu ≤ lt) ↔
      (ft ≤ cu ∧ cu ≤ lt ∧ (cu - first) % m = 0) := by
  rcases hm with rfl | rfl | rfl | rfl
  · constructor
    · rintro ⟨⟨k, rfl⟩, h⟩; omega
    · rintro ⟨h1, h2, h3⟩
      exact ⟨⟨(cu - (ft + (2 - (ft - first) % 2) % 2)) / 2, by omega⟩, h2⟩
  · constructor
    · rintro ⟨⟨k, rfl⟩, h⟩; omega
    · rintro ⟨h1, h2, h3⟩
      exact ⟨⟨(cu - (ft + (4 - (ft - first) % 4) % 4)) / 4, by omega⟩, h2⟩
  · constructor
    · rintro ⟨⟨k, rfl⟩, h⟩; omega
    · rintro ⟨h1, h2, h3⟩
      exact ⟨⟨(cu - (ft + (8 - (ft - first) % 8) % 8)) / 8, by omega⟩, h2⟩
  · constructor
    · rintro ⟨⟨k, rfl⟩, h⟩; omega
    · rintro ⟨h1, h2, h3⟩
      exact ⟨⟨(cu - (ft + (16 - (ft - first) % 16) % 16)) / 16, by omega⟩, h2⟩

theorem stride_arith0 (m first lt cu : Nat) (hm : m = 2 ∨ m = 4 ∨ m = 8 ∨ m = 16) :
    ((∃ k, cu = first + k * m) ∧ cu ≤ lt) ↔ (first ≤ cu ∧ cu ≤ lt ∧ (cu - first) % m = 0) := by
  have := stride_arith m first first lt cu hm (Nat.le_refl _)
  simp only [Nat.sub_self, Nat.zero_mod, Nat.sub_zero, Nat.mod_self, Nat.add_zero] at this
  exact this

theorem foldIntervalRow_spec {fr : FoldRange} (hok : RowOk fr) (iv : Interval) {recv : IvList}
    (hw : WF recv) :
    WF (foldIntervalRow fr iv recv) ∧ ∀ x, mem (foldIntervalRow fr iv recv) x ↔ mem recv x ∨
      ∃ cu, fr.first ≤ cu ∧ cu ≤ fr.last ∧ iv.first ≤ cu ∧ cu ≤ iv.last ∧
        (cu - fr.first) % fr.modulo = 0 ∧ x = fr.addDelta cu := by
  unfold foldIntervalRow
  simp only
  split
  · rename_i hm
    have hm1 : fr.modulo = 1 := by simpa using hm
    have hb : IsAddBody (fun recv cu => if (fr.addDelta cu != cu) = true then addOne recv (fr.addDelta cu) else recv)
        (fun cu => fr.addDelta cu != cu) fr.addDelta := fun _ _ => rfl
    have hg : ∀ cu ∈ List.range' (max fr.first iv.first) (min fr.last iv.last + 1 - max fr.first iv.first),
        (fr.addDelta cu != cu) = true → fr.addDelta cu ≤ 0x10FFFF := by
      intro cu hcu _
      rw [List.mem_range'_1] at hcu
      exact hok.addDelta_le_max (by omega) (by omega)
    obtain ⟨h1, h2⟩ := foldl_addBody hb _ recv hw hg
    refine ⟨h1, fun x => ?_⟩
    rw [h2 x]
    apply or_congr Iff.rfl
    constructor
    · rintro ⟨cu, hcu, -, hx⟩
      rw [List.mem_range'_1] at hcu
      exact ⟨cu, by omega, by omega, by omega, by omega, by rw [hm1, Nat.mod_one], hx⟩
    · rintro ⟨cu, a, b, c, d, -, hx⟩
      refine ⟨cu, ?_, ?_, hx⟩
      · rw [List.mem_range'_1]; omega
      · simpa using hok.addDelta_ne a
  · rename_i hm
    have hm1 : fr.modulo ≠ 1 := by simpa using hm
    have hm2 : fr.modulo = 2 ∨ fr.modulo = 4 ∨ fr.modulo = 8 ∨ fr.modulo = 16 := by
      have := hok.modulo_pow; omega
    rw [strideWalk_eq]
    have hb : IsAddBody (fun recv cu => addOne recv (fr.addDelta cu)) (fun _ => true) fr.addDelta :=
      fun _ _ => rfl
    have hmem := mem_stridePts (step := fr.modulo) (last := min fr.last iv.last) hok.modulo_pos
      (min fr.last iv.last + 1 - (max fr.first iv.first +
        (fr.modulo - (max fr.first iv.first - fr.first) % fr.modulo) % fr.modulo))
      (max fr.first iv.first + (fr.modulo - (max fr.first iv.first - fr.first) % fr.modulo) % fr.modulo)
      (Nat.le_refl _)
    have hst := fun cu => stride_arith fr.modulo fr.first (max fr.first iv.first) (min fr.last iv.last) cu hm2
      (Nat.le_max_left _ _)
    have hg : ∀ cu ∈ stridePts fr.modulo (min fr.last iv.last)
        (min fr.last iv.last + 1 - (max fr.first iv.first +
          (fr.modulo - (max fr.first iv.first - fr.first) % fr.modulo) % fr.modulo))
        (max fr.first iv.first + (fr.modulo - (max fr.first iv.first - fr.first) % fr.modulo) % fr.modulo),
        (fun _ => true) cu = true → fr.addDelta cu ≤ 0x10FFFF := by
      intro cu hcu _
      obtain ⟨a, b, -⟩ := (hst cu).1 ((hmem cu).1 hcu)
      exact hok.addDelta_le_max (by omega) (by omega)
    obtain ⟨h1, h2⟩ := foldl_addBody hb _ recv hw hg
    refine ⟨h1, fun x => ?_⟩
    rw [h2 x]
    apply or_congr Iff.rfl
    constructor
    · rintro ⟨cu, hcu, -, hx⟩
      obtain ⟨a, b, c⟩ := (hst cu).1 ((hmem cu).1 hcu)
      exact ⟨cu, by omega, by omega, by omega, by omega, c, hx⟩
    · rintro ⟨cu, a, b, c, d, e, hx⟩
      exact ⟨cu, (hmem cu).2 ((hst cu).2 ⟨by omega, by omega, e⟩), rfl, hx⟩

theorem unfoldIntervalRow_spec {tr : FoldRange} (hok : RowOk tr) (iv : Interval) {recv : IvList}
    (hw : WF recv) :
    WF (unfoldIntervalRow tr iv recv) ∧ ∀ x, mem (unfoldIntervalRow tr iv recv) x ↔ mem recv x ∨
      (tr.first ≤ x ∧ x ≤ tr.last ∧ (x - tr.first) % tr.modulo = 0 ∧
        iv.first ≤ tr.addDelta x ∧ tr.addDelta x ≤ iv.last) := by
  unfold unfoldIntervalRow
  split
  · rename_i hov
    refine ⟨hw, fun x => ?_⟩
    constructor
    · exact Or.inl
    · rintro (h | ⟨a, b, -, c, d⟩)
      · exact h
      · exfalso
        have hov' : ¬ (iv.overlaps tr.transformedTo = true) := by simpa using hov
        apply hov'
        rw [overlaps_iff]
        simp only [FoldRange.transformedTo]
        have h1 := hok.addDelta_le (Nat.le_refl _) a
        have h2 := hok.addDelta_le a b
        omega
  · simp only
    have hb : IsAddBody (fun (recv : IvList) (cp : Nat) =>
          if (tr.apply cp != cp && iv.contains (tr.apply cp)) = true then addOne recv cp else recv)
        (fun cp => tr.apply cp != cp && iv.contains (tr.apply cp)) id := fun _ _ => rfl
    have key : ∀ x, tr.first ≤ x → x ≤ tr.last → (x - tr.first) % tr.modulo = 0 →
        ((tr.apply x != x && iv.contains (tr.apply x)) = true ↔
          (iv.first ≤ tr.addDelta x ∧ tr.addDelta x ≤ iv.last)) := by
      intro x a b c
      rw [apply_eq, if_pos c]
      have := hok.addDelta_ne a
      simp [Interval.contains, this]
    split
    · rename_i hm
      have hm1 : tr.modulo = 1 := by simpa using hm
      have hg : ∀ cu ∈ List.range' tr.first (tr.last + 1 - tr.first),
          (tr.apply cu != cu && iv.contains (tr.apply cu)) = true → id cu ≤ 0x10FFFF := by
        intro cu hcu _
        rw [List.mem_range'_1] at hcu
        have := hok.last_le
        simp only [id]; omega
      obtain ⟨h1, h2⟩ := foldl_addBody hb _ recv hw hg
      refine ⟨h1, fun x => ?_⟩
      rw [h2 x]
      apply or_congr Iff.rfl
      constructor
      · rintro ⟨cu, hcu, hp, hx⟩
        have hx' : x = cu := hx
        subst hx'
        rw [List.mem_range'_1] at hcu
        have c : (x - tr.first) % tr.modulo = 0 := by rw [hm1, Nat.mod_one]
        have := (key x (by omega) (by omega) c).1 hp
        exact ⟨by omega, by omega, c, this.1, this.2⟩
      · rintro ⟨a, b, c, d, e⟩
        refine ⟨x, ?_, (key x a b c).2 ⟨d, e⟩, rfl⟩
        rw [List.mem_range'_1]; omega
    · rename_i hm
      have hm1 : tr.modulo ≠ 1 := by simpa using hm
      have hm2 : tr.modulo = 2 ∨ tr.modulo = 4 ∨ tr.modulo = 8 ∨ tr.modulo = 16 := by
        have := hok.modulo_pow; omega
      rw [strideWalk_eq]
      have hmem := mem_stridePts (step := tr.modulo) (last := tr.last) hok.modulo_pos
        (tr.last + 1 - tr.first) tr.first (Nat.le_refl _)
      have hst := fun cu => stride_arith0 tr.modulo tr.first tr.last cu hm2
      have hg : ∀ cu ∈ stridePts tr.modulo tr.last (tr.last + 1 - tr.first) tr.first,
          (tr.apply cu != cu && iv.contains (tr.apply cu)) = true → id cu ≤ 0x10FFFF := by
        intro cu hcu _
        obtain ⟨a, b, -⟩ := (hst cu).1 ((hmem cu).1 hcu)
        have := hok.last_le
        simp only [id]; omega
      obtain ⟨h1, h2⟩ := foldl_addBody hb _ recv hw hg
      refine ⟨h1, fun x => ?_⟩
      rw [h2 x]
      apply or_congr Iff.rfl
      constructor
      · rintro ⟨cu, hcu, hp, hx⟩
        have hx' : x = cu := hx
        subst hx'
        obtain ⟨a, b, c⟩ := (hst x).1 ((hmem x).1 hcu)
        have := (key x a b c).1 hp
        exact ⟨a, b, c, this.1, this.2⟩
      · rintro ⟨a, b, c, d, e⟩
        exact ⟨x, (hmem x).2 ((hst x).2 ⟨a, b, c⟩), (key x a b c).2 ⟨d, e⟩, rfl⟩

/-- Folding a per-row step over a list of rows. -/
theorem foldl_rows {step : FoldRange → IvList → IvList} {Q : FoldRange → Nat → Prop}
    (hstep : ∀ fr recv, RowOk fr → WF recv →
      WF (step fr recv) ∧ ∀ x, mem (step fr recv) x ↔ mem recv x ∨ Q fr x) :
    ∀ (rows : List FoldRange) (recv : IvList), (∀ fr ∈ rows, RowOk fr) → WF recv →
      WF (rows.foldl (fun recv fr => step fr recv) recv) ∧
      ∀ x, mem (rows.foldl (fun recv fr => step fr recv) recv) x ↔
        mem recv x ∨ ∃ fr ∈ rows, Q fr x := by
  intro rows
  induction rows with
  | nil => intro recv _ hw; simp [hw]
  | cons a r ih =>
    intro recv hok hw
    obtain ⟨s1, s2⟩ := hstep a recv (hok a (by simp)) hw
    obtain ⟨h1, h2⟩ := ih (step a recv) (fun fr h => hok fr (List.mem_cons_of_mem _ h)) s1
    refine ⟨h1, fun x => ?_⟩
    rw [List.foldl_cons, h2 x, s2 x]
    constructor
    · rintro ((h | h) | ⟨fr, hfr, h⟩)
      · exact Or.inl h
      · exact Or.inr ⟨a, by simp, h⟩
      · exact Or.inr ⟨fr, List.mem_cons_of_mem _ hfr, h⟩
    · rintro (h | ⟨fr, hfr, h⟩)
      · exact Or.inl (Or.inl h)
      · rcases List.mem_cons.1 hfr with rfl | hfr
        · exact Or.inl (Or.inr h)
        · exact Or.inr ⟨fr, hfr, h⟩

/-! ### `equal_range_by` over sorted rows is a filter -/

theorem mem_takeWhile_closed {α} {R : α → α → Prop} {p : α → Bool} : ∀ {l : List α},
    l.Pairwise R → (∀ a ∈ l, ∀ b ∈ l, R a b → p b = true → p a = true) →
    ∀ x, x ∈ l.takeWhile p ↔ x ∈ l ∧ p x = true := by
  intro l
  induction l with
  | nil => intro _ _ x; simp
  | cons a r ih =>
    intro hp hc x
    have hp' := List.pairwise_cons.1 hp
    have ih' := ih hp'.2 (fun a' ha' b hb => hc a' (List.mem_cons_of_mem _ ha') b (List.mem_cons_of_mem _ hb)) x
    rw [List.takeWhile_cons]
    by_cases hpa : p a = true
    · simp only [hpa, if_true, List.mem_cons, ih']
      constructor
      · rintro (rfl | ⟨h1, h2⟩)
        · exact ⟨Or.inl rfl, hpa⟩
        · exact ⟨Or.inr h1, h2⟩
      · rintro ⟨rfl | h1, h2⟩
        · exact Or.inl rfl
        · exact Or.inr ⟨h1, h2⟩
    · simp only [hpa, if_false, List.not_mem_nil, false_iff, Bool.false_eq_true]
      rintro ⟨hx, hpx⟩
      rcases List.mem_cons.1 hx with rfl | hx
      · exact hpa hpx
      · exact hpa (hc a (by simp) x (List.mem_cons_of_mem _ hx) (hp'.1 x hx) hpx)

theorem mem_dropWhile_closed {α} {R : α → α → Prop} {q : α → Bool} : ∀ {l : List α},
    l.Pairwise R → (∀ a ∈ l, ∀ b ∈ l, R a b → q b = true → q a = true) →
    ∀ x, x ∈ l.dropWhile q ↔ x ∈ l ∧ q x = false := by
  intro l
  induction l with
  | nil => intro _ _ x; simp
  | cons a r ih =>
    intro hp hc x
    have hp' := List.pairwise_cons.1 hp
    have ih' := ih hp'.2 (fun a' ha' b hb => hc a' (List.mem_cons_of_mem _ ha') b (List.mem_cons_of_mem _ hb)) x
    rw [List.dropWhile_cons]
    by_cases hqa : q a = true
    · simp only [hqa, if_true, ih', List.mem_cons]
      constructor
      · rintro ⟨h1, h2⟩; exact ⟨Or.inr h1, h2⟩
      · rintro ⟨rfl | h1, h2⟩
        · rw [hqa] at h2; cases h2
        · exact ⟨h1, h2⟩
    · simp only [hqa, if_false, Bool.false_eq_true]
      constructor
      · intro hx
        refine ⟨hx, ?_⟩
        rcases List.mem_cons.1 hx with rfl | hx'
        · simpa using hqa
        · cases hqx : q x with
          | false => rfl
          | true => exact absurd (hc a (by simp) x hx (hp'.1 x hx') hqx) hqa
      · exact fun h => h.1

theorem mem_overlapRows {tbl : List FoldRange} (hw : RowsWF tbl) (iv : Interval) (fr : FoldRange) :
    fr ∈ overlapRows tbl iv ↔ fr ∈ tbl ∧ fr.first ≤ iv.last ∧ iv.first ≤ fr.last := by
  unfold overlapRows
  simp only [Nat.add_sub_cancel_left]
  rw [drop_length_takeWhile]
  have htake : ∀ (l : List FoldRange) (p : FoldRange → Bool),
      l.take (l.takeWhile p).length = l.takeWhile p := by
    intro l p
    conv => lhs; arg 2; rw [← List.takeWhile_append_dropWhile (p := p) (l := l)]
    exact List.take_left' rfl
  rw [htake]
  have hlt : ∀ tr : FoldRange, (overlapCmp iv tr == Ordering.lt) = true ↔
      (tr.first ≤ iv.last ∧ tr.last < iv.first) := by
    intro tr; unfold overlapCmp
    split
    · simp; omega
    · split <;> simp <;> omega
  have heq : ∀ tr : FoldRange, (overlapCmp iv tr == Ordering.eq) = true ↔
      (tr.first ≤ iv.last ∧ iv.first ≤ tr.last) := by
    intro tr; unfold overlapCmp
    split
    · simp; omega
    · split <;> simp <;> omega
  have hfl : ∀ tr ∈ tbl, tr.first ≤ tr.last := fun tr h => (hw.1 tr h).first_le_last
  have hd := mem_dropWhile_closed (q := fun tr => overlapCmp iv tr == Ordering.lt) hw.2
    (by
      intro a ha b hb hab hqb
      have := (hlt b).1 hqb
      have := hfl a ha; have := hfl b hb
      exact (hlt a).2 ⟨by omega, by omega⟩)
  have hsub : (tbl.dropWhile (fun tr => overlapCmp iv tr == Ordering.lt)).Pairwise
      (fun a b => a.last < b.first) := hw.2.sublist (List.dropWhile_sublist _)
  have ht := mem_takeWhile_closed (p := fun tr => overlapCmp iv tr == Ordering.eq) hsub
    (by
      intro a ha b hb hab hpb
      have h1 := (heq b).1 hpb
      have h2 := (hd a).1 ha
      have h3 := (hd b).1 hb
      have := hfl a h2.1; have := hfl b h3.1
      have h4 : ¬ (a.first ≤ iv.last ∧ a.last < iv.first) := by
        intro h; have := (hlt a).2 h; rw [h2.2] at this; cases this
      exact (heq a).2 ⟨by omega, by omega⟩)
  rw [ht fr, hd fr, heq fr]
  constructor
  · rintro ⟨⟨h1, -⟩, h2⟩; exact ⟨h1, h2⟩
  · rintro ⟨h1, h2, h3⟩
    refine ⟨⟨h1, ?_⟩, h2, h3⟩
    cases hq : (overlapCmp iv fr == Ordering.lt) with
    | false => rfl
    | true => have := (hlt fr).1 hq; omega

theorem foldl_ivs {F : Interval → IvList → IvList} {Q : Interval → Nat → Prop}
    (hF : ∀ iv recv, WF recv → WF (F iv recv) ∧ ∀ x, mem (F iv recv) x ↔ mem recv x ∨ Q iv x) :
    ∀ (L : IvList) (recv : IvList), WF recv →
      WF (L.foldl (fun acc iv => F iv acc) recv) ∧
      ∀ x, mem (L.foldl (fun acc iv => F iv acc) recv) x ↔ mem recv x ∨ ∃ iv ∈ L, Q iv x := by
  intro L
  induction L with
  | nil => intro recv hw; simp [hw]
  | cons a r ih =>
    intro recv hw
    obtain ⟨s1, s2⟩ := hF a recv hw
    obtain ⟨h1, h2⟩ := ih (F a recv) s1
    refine ⟨h1, fun x => ?_⟩
    rw [List.foldl_cons, h2 x, s2 x]
    constructor
    · rintro ((h | h) | ⟨iv, hiv, h⟩)
      · exact Or.inl h
      · exact Or.inr ⟨a, by simp, h⟩
      · exact Or.inr ⟨iv, List.mem_cons_of_mem _ hiv, h⟩
    · rintro (h | ⟨iv, hiv, h⟩)
      · exact Or.inl (Or.inl h)
      · rcases List.mem_cons.1 hiv with rfl | hiv
        · exact Or.inl (Or.inr h)
        · exact Or.inr ⟨iv, hiv, h⟩

/-- `fold_interval(iv, recv)` adds exactly the folds of the code points of `iv` that do not fold to
themselves. -/
theorem foldIntervalWith_spec {tbl : List FoldRange} (hw : RowsWF tbl) (iv : Interval)
    {recv : IvList} (hr : WF recv) :
    WF (foldIntervalWith tbl iv recv) ∧ ∀ x, mem (foldIntervalWith tbl iv recv) x ↔ mem recv x ∨
      ∃ c, iv.first ≤ c ∧ c ≤ iv.last ∧ foldWith tbl c ≠ c ∧ x = foldWith tbl c := by
  unfold foldIntervalWith
  have hrows : ∀ fr ∈ overlapRows tbl iv, RowOk fr :=
    fun fr h => hw.1 fr ((mem_overlapRows hw iv fr).1 h).1
  obtain ⟨h1, h2⟩ := foldl_rows (step := fun fr recv => foldIntervalRow fr iv recv)
    (fun fr recv hok hwr => foldIntervalRow_spec hok iv hwr) (overlapRows tbl iv) recv hrows hr
  refine ⟨h1, fun x => ?_⟩
  rw [h2 x]
  apply or_congr Iff.rfl
  constructor
  · rintro ⟨fr, hfr, cu, a, b, c, d, e, hx⟩
    have hmem := ((mem_overlapRows hw iv fr).1 hfr).1
    have hf : foldWith tbl cu = fr.addDelta cu := by
      rw [hw.foldWith_row hmem a b, apply_eq, if_pos e]
    refine ⟨cu, c, d, ?_, ?_⟩
    · rw [hf]; exact (hw.1 fr hmem).addDelta_ne a
    · rw [hf]; exact hx
  · rintro ⟨c, a, b, hne, hx⟩
    cases hf : findRow tbl c with
    | none => exact absurd (by simp [foldWith, hf]) hne
    | some fr =>
      obtain ⟨hmem, h1', h2'⟩ := findRow_some hf
      have happ : foldWith tbl c = fr.apply c := by simp [foldWith, hf]
      rw [happ, apply_eq] at hne hx
      by_cases hm : (c - fr.first) % fr.modulo = 0
      · rw [if_pos hm] at hx
        exact ⟨fr, (mem_overlapRows hw iv fr).2 ⟨hmem, by omega, by omega⟩, c, h1', h2', a, b, hm, hx⟩
      · rw [if_neg hm] at hne; exact absurd rfl hne

/-- `unfold_interval(iv, recv)` adds exactly the code points that do not fold to themselves and
whose fold lies in `iv`. -/
theorem unfoldIntervalWith_spec {tbl : List FoldRange} (hw : RowsWF tbl) (iv : Interval)
    {recv : IvList} (hr : WF recv) :
    WF (unfoldIntervalWith tbl iv recv) ∧ ∀ x, mem (unfoldIntervalWith tbl iv recv) x ↔
      mem recv x ∨ (foldWith tbl x ≠ x ∧ iv.first ≤ foldWith tbl x ∧ foldWith tbl x ≤ iv.last) := by
  unfold unfoldIntervalWith
  obtain ⟨h1, h2⟩ := foldl_rows (step := fun tr recv => unfoldIntervalRow tr iv recv)
    (fun tr recv hok hwr => unfoldIntervalRow_spec hok iv hwr) tbl recv hw.1 hr
  refine ⟨h1, fun x => ?_⟩
  rw [h2 x]
  apply or_congr Iff.rfl
  constructor
  · rintro ⟨tr, htr, a, b, c, d, e⟩
    have hf : foldWith tbl x = tr.addDelta x := by
      rw [hw.foldWith_row htr a b, apply_eq, if_pos c]
    rw [hf]
    exact ⟨(hw.1 tr htr).addDelta_ne a, d, e⟩
  · rintro ⟨hne, d, e⟩
    cases hf : findRow tbl x with
    | none => exact absurd (by simp [foldWith, hf]) hne
    | some tr =>
      obtain ⟨hmem, h1', h2'⟩ := findRow_some hf
      have happ : foldWith tbl x = tr.apply x := by simp [foldWith, hf]
      rw [happ, apply_eq] at hne d e
      by_cases hm : (x - tr.first) % tr.modulo = 0
      · rw [if_pos hm] at d e
        exact ⟨tr, hmem, h1', h2', hm, d, e⟩
      · rw [if_neg hm] at hne; exact absurd rfl hne

/-- Well-formedness of `unfold_interval`'s result, stated through an equation so that the statement
instantiated at a literal table never has the form `WF (literalTable.foldl ..)` (which Lean's
elaborator would try to normalise row by row). -/
theorem unfoldIntervalWith_wf_eq {tbl : List FoldRange} (hw : RowsWF tbl) (iv : Interval)
    {recv : IvList} (hr : WF recv) {out : IvList} (h : out = unfoldIntervalWith tbl iv recv) :
    WF out := by
  subst h; exact (unfoldIntervalWith_spec hw iv hr).1

/-- `add_icase_code_points` computes the closure of a well-formed set under "has the same fold",
for any well-formed row table whose fold is idempotent. -/
theorem addIcaseCodePointsWith_spec {tbl : List FoldRange} (hw : RowsWF tbl)
    (hi : ∀ c, foldWith tbl (foldWith tbl c) = foldWith tbl c) {s : IvList} (hs : WF s) :
    WF (addIcaseCodePointsWith tbl s) ∧ ∀ c, mem (addIcaseCodePointsWith tbl s) c ↔
      ∃ d, mem s d ∧ foldWith tbl c = foldWith tbl d := by
  unfold addIcaseCodePointsWith
  obtain ⟨f1, f2⟩ := foldl_ivs (F := fun iv recv => foldIntervalWith tbl iv recv)
    (fun iv recv hr => foldIntervalWith_spec hw iv hr) s s hs
  generalize s.foldl (fun folded iv => foldIntervalWith tbl iv folded) s = folded at f1 f2
  obtain ⟨u1, u2⟩ := foldl_ivs (F := fun iv recv => unfoldIntervalWith tbl iv recv)
    (fun iv recv hr => unfoldIntervalWith_spec hw iv hr) folded folded f1
  refine ⟨u1, fun c => ?_⟩
  rw [u2 c]
  -- membership in `folded`
  have hfolded : ∀ y, mem folded y ↔ mem s y ∨ ∃ d, mem s d ∧ foldWith tbl d ≠ d ∧ y = foldWith tbl d := by
    intro y
    rw [f2 y]
    apply or_congr Iff.rfl
    constructor
    · rintro ⟨iv, hiv, d, a, b, hne, hy⟩; exact ⟨d, ⟨iv, hiv, a, b⟩, hne, hy⟩
    · rintro ⟨d, ⟨iv, hiv, a, b⟩, hne, hy⟩; exact ⟨iv, hiv, d, a, b, hne, hy⟩
  have hfold_mem : ∀ d, mem s d → mem folded (foldWith tbl d) := by
    intro d hd
    rw [hfolded]
    by_cases h : foldWith tbl d = d
    · left; rw [h]; exact hd
    · right; exact ⟨d, hd, h, rfl⟩
  have hcls : ∀ y, mem folded y → ∃ d, mem s d ∧ foldWith tbl y = foldWith tbl d := by
    intro y hy
    rcases (hfolded y).1 hy with h | ⟨d, hd, -, rfl⟩
    · exact ⟨y, h, rfl⟩
    · exact ⟨d, hd, hi d⟩
  constructor
  · rintro (h | ⟨iv, hiv, hne, a, b⟩)
    · exact hcls c h
    · obtain ⟨d, hd, he⟩ := hcls (foldWith tbl c) ⟨iv, hiv, a, b⟩
      exact ⟨d, hd, by rw [← he, hi]⟩
  · rintro ⟨d, hd, he⟩
    have := hfold_mem d hd
    rw [← he] at this
    by_cases h : foldWith tbl c = c
    · left; rw [h] at this; exact this
    · right
      obtain ⟨iv, hiv, a, b⟩ := this
      exact ⟨iv, hiv, h, a, b⟩

/-! ## The faithful binary searches agree with the linear-scan models -/

theorem rowCmp_eq_iff (cu : Nat) (fr : FoldRange) :
    rowCmp cu fr = Ordering.eq ↔ fr.first ≤ cu ∧ cu ≤ fr.last := by
  unfold rowCmp; split
  · simp; omega
  · split <;> simp <;> omega

theorem RowsWF.getElem_lt {tbl : List FoldRange} (hw : RowsWF tbl) {i j : Nat} {x y : FoldRange}
    (hij : i < j) (hx : tbl[i]? = some x) (hy : tbl[j]? = some y) :
    x.last < y.first ∧ x.first ≤ x.last ∧ y.first ≤ y.last := by
  obtain ⟨hi, rfl⟩ := List.getElem?_eq_some_iff.1 hx
  obtain ⟨hj, rfl⟩ := List.getElem?_eq_some_iff.1 hy
  exact ⟨List.pairwise_iff_getElem.1 hw.2 i j hi hj hij,
    (hw.1 _ (List.getElem_mem hi)).first_le_last, (hw.1 _ (List.getElem_mem hj)).first_le_last⟩

theorem RowsWF.sortedBy_rowCmp {tbl : List FoldRange} (hw : RowsWF tbl) (cu : Nat) :
    SortedBy (rowCmp cu) tbl := by
  intro i j x y hij hx hy
  obtain ⟨h1, h2, h3⟩ := hw.getElem_lt hij hx hy
  unfold rowCmp
  constructor
  · intro h
    split at h
    · rw [if_pos (by omega)]
    · split at h <;> cases h
  · intro h
    split at h
    · cases h
    · split at h
      · rw [if_neg (by omega), if_pos (by omega)]
      · cases h

theorem RowsWF.sortedBy_overlapCmp {tbl : List FoldRange} (hw : RowsWF tbl) {iv : Interval}
    (hiv : iv.first ≤ iv.last) : SortedBy (overlapCmp iv) tbl := by
  intro i j x y hij hx hy
  obtain ⟨h1, h2, h3⟩ := hw.getElem_lt hij hx hy
  unfold overlapCmp
  constructor
  · intro h
    split at h
    · rw [if_pos (by omega)]
    · split at h <;> cases h
  · intro h
    split at h
    · cases h
    · split at h
      · rw [if_neg (by omega), if_pos (by omega)]
      · cases h

theorem RowsWF.foldBinWith_eq {tbl : List FoldRange} (hw : RowsWF tbl) (cu : Nat) :
    foldBinWith tbl cu = some (foldWith tbl cu) := by
  obtain ⟨r, hr, hspec⟩ := binarySearchBy_spec tbl (rowCmp cu) (hw.sortedBy_rowCmp cu)
  unfold foldBinWith
  rw [hr]
  cases r with
  | ok i =>
    obtain ⟨x, hx, hc⟩ := hspec
    obtain ⟨a, b⟩ := (rowCmp_eq_iff cu x).1 hc
    simp only [hx]
    rw [hw.foldWith_row (List.mem_of_getElem? hx) a b]
  | error i =>
    obtain ⟨-, h1, h2⟩ := hspec
    simp only
    rw [foldWith_outside]
    intro fr hfr hc
    obtain ⟨j, hj, rfl⟩ := List.getElem_of_mem hfr
    have heq := (rowCmp_eq_iff cu tbl[j]).2 hc
    by_cases hji : j < i
    · rw [h1 j _ hji (List.getElem?_eq_getElem hj)] at heq; cases heq
    · rw [h2 j _ (by omega) (List.getElem?_eq_getElem hj)] at heq; cases heq

theorem RowsWF.overlapRowsBin_eq {tbl : List FoldRange} (hw : RowsWF tbl) {iv : Interval}
    (hiv : iv.first ≤ iv.last) : overlapRowsBin tbl iv = some (overlapRows tbl iv) := by
  unfold overlapRowsBin
  rw [equalRangeBy_spec tbl _ (hw.sortedBy_overlapCmp hiv)]
  rfl

end Regress.Fold
