import RegressModel.Spec.ESGrammar
/-!
# Laws of the ES2025 pattern-grammar recognizer `Regress.ESG`

* flag independence (`i m s d g y` never matter),
* the ES2025 features V8 11.3 cannot referee (duplicate named groups, modifiers): hand-adjudicated
  cases, kernel-checked,
* two *refuted* candidate laws (concatenation of valid patterns) with concrete counterexamples,
* **fuel adequacy**: `esValidCore` never answers `R.fuel` (so `invalid-fuel` is impossible), together
  with progress lemmas (every recognizer returns a suffix no longer than its input).
-/
namespace Regress.ESG

/-- The Unicode tables are irrelevant for ASCII-only patterns; the concrete cases below use empty ones
so that the kernel never has to decode a table.  Concrete cases use `decide +kernel`: the elaborator's
`whnf` has no sharing and does not terminate in reasonable time on the threaded parse state. -/
def noTabs : Tabs := ⟨[], [], [], [], [], []⟩

/-- validity under (u, v) with ES2025 features on, as a `Bool`. -/
def okAt (u v : Bool) (p : List Nat) : Bool :=
  match esValidCore noTabs true u v p with
  | .ok _ => true
  | _ => false

/-! ## Flag independence -/

/-- Validity depends on the flags only through their well-formedness and the presence of `u` / `v`. -/
theorem esValidR_flags (t : Tabs) (f25 : Bool) (fl fl' : List Nat) (p : List Nat)
    (h : flagsOk fl = flagsOk fl') (hu : fl.contains 0x75 = fl'.contains 0x75)
    (hv : fl.contains 0x76 = fl'.contains 0x76) :
    esValidR t f25 fl p = esValidR t f25 fl' p := by
  simp only [esValidR, h, hu, hv]

/-- Adding one of the flags `d g i m s y` (not yet present) to a well-formed flag list changes nothing. -/
theorem esValidR_cons_irrelevant (t : Tabs) (f25 : Bool) (x : Nat) (fl p : List Nat)
    (hx : x = 0x64 ∨ x = 0x67 ∨ x = 0x69 ∨ x = 0x6D ∨ x = 0x73 ∨ x = 0x79)
    (hfl : flagsOk fl = true) (hnew : fl.contains x = false) :
    esValidR t f25 (x :: fl) p = esValidR t f25 fl p := by
  have hxu : (0x75 : Nat) ≠ x := by rcases hx with h | h | h | h | h | h <;> subst h <;> decide
  have hxv : (0x76 : Nat) ≠ x := by rcases hx with h | h | h | h | h | h <;> subst h <;> decide
  have hu : (x :: fl).contains 0x75 = fl.contains 0x75 := by simp [hxu]
  have hv : (x :: fl).contains 0x76 = fl.contains 0x76 := by simp [hxv]
  have hin : (str "dgimsuvy").contains x = true := by
    rcases hx with h | h | h | h | h | h <;> subst h <;> decide
  have hok : flagsOk (x :: fl) = true := by
    unfold flagsOk at hfl ⊢
    simp only [Bool.and_eq_true, Bool.not_eq_true'] at hfl
    obtain ⟨⟨h1, h2⟩, h3⟩ := hfl
    rw [hu, hv]
    simp only [List.all_cons, nodup, hin, h1, h2, hnew, h3, Bool.not_false, Bool.and_self]
  exact esValidR_flags t f25 _ _ p (by rw [hok, hfl]) hu hv

/-- e.g. flags `iu` behave as flags `u` (non-vacuity of the hypotheses above). -/
example (t : Tabs) (p : List Nat) : esValidR t true (str "iu") p = esValidR t true (str "u") p :=
  esValidR_cons_irrelevant t true 0x69 (str "u") p (by decide) (by decide) (by decide)

/-- `u` and `v` together, unknown and repeated flags are errors whatever the pattern. -/
example : flagsOk (str "uv") = false ∧ flagsOk (str "x") = false ∧ flagsOk (str "ii") = false ∧
    flagsOk (str "dgimsuy") = true := by decide

/-! ## ES2025 duplicate named groups (V8 11.3 cannot referee): MightBothParticipate

`okAll p b`: the pattern has validity `b` under no flag, `u` and `v`. -/

def okAll (p : String) (b : Bool) : Bool :=
  okAt false false (str p) == b && okAt true false (str p) == b && okAt true true (str p) == b

-- same name in different alternatives of one Disjunction: allowed
example : okAll "(?<a>x)|(?<a>y)" true := by decide +kernel
example : okAll "(?<a>x)|(?<a>y)|(?<a>z)" true := by decide +kernel
example : okAll "(?:(?<a>x)|(?<a>y))\\k<a>" true := by decide +kernel
example : okAll "((?<a>x)|((?<a>y)|(?<a>z)))" true := by decide +kernel
example : okAll "(?:(?<a>x)|(?<b>y))(?:(?<c>z)|(?<d>w))" true := by decide +kernel
-- same alternative (also across nested groups / after a closed disjunction): error
example : okAll "(?<a>x)(?<a>y)" false := by decide +kernel
example : okAll "(?<a>(?<a>x))" false := by decide +kernel
example : okAll "(?<a>x|(?<a>y))" false := by decide +kernel
example : okAll "((?<a>x)|y)(?<a>z)" false := by decide +kernel
example : okAll "(?:(?<a>x)|(?<b>y))(?<a>z)" false := by decide +kernel
example : okAll "(?:(?<b>x)|(?<a>y))(?:(?<a>z)|w)" false := by decide +kernel
example : okAll "(?<a>x)|(?<a>y)(?<a>z)" false := by decide +kernel
-- names are compared by value: `a` = `a`
example : okAll "(?<a>x)(?<\\u0061>y)" false := by decide +kernel
example : okAll "(?<a>x)|(?<\\u{61}>y)" true := by decide +kernel

/-! ## ES2025 modifiers -/

example : okAll "(?i:a)" true := by decide +kernel
example : okAll "(?ims:a)" true := by decide +kernel
example : okAll "(?-i:a)" true := by decide +kernel
example : okAll "(?i-:a)" true := by decide +kernel
example : okAll "(?i-ms:a)" true := by decide +kernel
example : okAll "(?sm-i:a)*" true := by decide +kernel
example : okAll "(?:a)" true := by decide +kernel
example : okAll "(?-:a)" false := by decide +kernel
example : okAll "(?ii:a)" false := by decide +kernel
example : okAll "(?i-i:a)" false := by decide +kernel
example : okAll "(?im-sm:a)" false := by decide +kernel
example : okAll "(?x:a)" false := by decide +kernel
example : okAll "(?i)" false := by decide +kernel
example : okAll "(?i-m-s:a)" false := by decide +kernel

/-! ## Mode differences (Annex B vs UnicodeMode vs UnicodeSetsMode) -/

def ok3 (p : String) (l u v : Bool) : Bool :=
  okAt false false (str p) == l && okAt true false (str p) == u && okAt true true (str p) == v

example : ok3 "(?=a)*" true false false := by decide +kernel       -- QuantifiableAssertion
example : ok3 "(?<=a)*" false false false := by decide +kernel     -- lookbehind never quantifiable
example : ok3 "{" true false false := by decide +kernel            -- ExtendedPatternCharacter
example : ok3 "{1}" false false false := by decide +kernel         -- InvalidBracedQuantifier
example : ok3 "a{,5}" true false false := by decide +kernel
example : ok3 "a{2,1}" false false false := by decide +kernel
example : ok3 "\\k" true false false := by decide +kernel          -- identity escape without GroupName …
example : ok3 "(?<a>)\\k" false false false := by decide +kernel   -- … `[+NamedCaptureGroups]` otherwise
example : ok3 "(?<a>)[\\k]" false false false := by decide +kernel
example : ok3 "\\k<a>" true false false := by decide +kernel
example : ok3 "[\\d-x]" true false false := by decide +kernel
example : ok3 "[b-a]" false false false := by decide +kernel
example : ok3 "\\1" true false false := by decide +kernel
example : ok3 "\\1()" true true true := by decide +kernel
example : ok3 "\\01" true false false := by decide +kernel
example : ok3 "\\c" true false false := by decide +kernel
example : ok3 "[\\c-a]" false false false := by decide +kernel     -- `\` then the range `c-a`
example : ok3 "\\-" true false false := by decide +kernel
example : ok3 "[\\-]" true true true := by decide +kernel
example : ok3 "[(]" true true false := by decide +kernel           -- ClassSetSyntaxCharacter
example : ok3 "[a&&&b]" true true false := by decide +kernel
example : ok3 "[a&&b]" true true true := by decide +kernel
example : ok3 "[a--b&&c]" false false false := by decide +kernel   -- out-of-order range `a--` without `v`
example : ok3 "[\\q{ab}]" true false true := by decide +kernel
example : ok3 "[^\\q{ab}]" true false false := by decide +kernel   -- negated class MayContainStrings
example : ok3 "[^\\q{a|b}]" true false true := by decide +kernel
example : ok3 "[^[\\q{ab}]&&a]" true false true := by decide +kernel
example : ok3 "\\p{RGI_Emoji}" true false true := by decide +kernel
example : ok3 "\\P{RGI_Emoji}" true false false := by decide +kernel
example : ok3 "[^\\p{RGI_Emoji}]" true false false := by decide +kernel
example : ok3 "\\u{110000}" true false false := by decide +kernel
example : ok3 "\\u{10FFFF}" true true true := by decide +kernel
-- a surrogate pair is one character only in UnicodeMode: U+1F601‥U+1F600 given as code points
example : okAt false false [0x5B, 0x1F600, 0x2D, 0x1F601, 0x5D] = false ∧
    okAt true false [0x5B, 0x1F600, 0x2D, 0x1F601, 0x5D] = true ∧
    okAt true false [0x5B, 0xD83D, 0xDE00, 0x2D, 0xD83D, 0xDE01, 0x5D] = true := by decide +kernel

/-! ## Refuted candidate laws

"The concatenation of two valid patterns without named groups and back-references is valid" is
false in every mode. -/

/-- Annex B: `{` and `1}` are valid, `{1}` is an InvalidBracedQuantifier. -/
theorem concat_refuted_legacy :
    okAt false false (str "{") = true ∧ okAt false false (str "1}") = true ∧
    okAt false false (str "{" ++ str "1}") = false := by decide +kernel +kernel

/-- UnicodeMode: `\0` and `1` are valid, `\01` is not (`0 [lookahead ∉ DecimalDigit]`). -/
theorem concat_refuted_unicode :
    okAt true false (str "\\0") = true ∧ okAt true false (str "1") = true ∧
    okAt true false (str "\\0" ++ str "1") = false ∧
    okAt true true (str "\\0") = true ∧ okAt true true (str "1") = true ∧
    okAt true true (str "\\0" ++ str "1") = false := by decide +kernel +kernel

/-- "valid under `u` ⇒ valid under `v`" needs the class contents to avoid every
ClassSetSyntaxCharacter and ClassSetReservedDoublePunctuator, and the converse fails because of
properties of strings.  (Exhaustively over all 25 137 931 strings of length ≤ 5 over a 30-symbol
alphabet: without a `[` the two modes agree, and every `u`-valid, `v`-invalid string has one of those
characters in a class.) -/
theorem u_v_incomparable :
    okAt true false (str "[a-]") = true ∧ okAt true true (str "[a-]") = false ∧
    okAt true false (str "[|]") = true ∧ okAt true true (str "[|]") = false ∧
    okAt true false (str "\\p{Basic_Emoji}") = false ∧ okAt true true (str "\\p{Basic_Emoji}") = true := by
  decide +kernel

/-! ## Fuel adequacy and progress

Every lexical helper returns a rest that is no longer than its input (strictly shorter where it must
consume); the fuelled recognizers never exhaust a fuel of `6·length + k` (`4·length + k` for the
`v`-mode class recognizers, `length + 1` for the simple loops). -/

theorem takeDigits_len (s : List Nat) (a k : Nat) : (takeDigits s a k).2.2.length ≤ s.length := by
  fun_induction takeDigits s a k <;> grind

theorem takeDigits_len_pos (s : List Nat) (a k : Nat) :
    (takeDigits s a k).2.2.length + (takeDigits s a k).2.1 = s.length + k := by
  fun_induction takeDigits s a k <;> grind

theorem takeHex_len (s : List Nat) (a k : Nat) : (takeHex s a k).2.2.length ≤ s.length := by
  fun_induction takeHex s a k <;> grind

theorem hex4_len (s : List Nat) (v : Nat) (r : List Nat) (h : hex4 s = some (v, r)) : r.length + 4 = s.length := by
  unfold hex4 at h; split at h <;> grind

theorem uEscapeU_len (s : List Nat) (v : Nat) (r : List Nat) (h : uEscapeU s = some (v, r)) : r.length < s.length := by
  unfold uEscapeU at h
  split at h
  · have := takeHex_len ‹_› 0 0; grind
  · split at h
    · grind
    · rename_i a r1 h4; have := hex4_len _ _ _ h4
      split at h
      · split at h
        · rename_i r2; split at h
          · rename_i b r3 h5; have := hex4_len _ _ _ h5; grind
          · grind
        · grind
      · grind


theorem braced_len (s : List Nat) (b : Bool) (r : List Nat) (h : braced s = some (b, r)) : r.length < s.length := by
  unfold braced at h
  split at h
  · grind
  · rename_i heq; have := takeDigits_len s 0 0; grind
  · rename_i lo k r1 heq
    have h1 := takeDigits_len s 0 0
    split at h
    · grind
    · split at h
      · grind
      · grind [takeDigits_len]
      · grind
  · grind

theorem optQuant_len (s r : List Nat) (h : optQuant s = .ok r) : r.length ≤ s.length := by
  unfold optQuant at h
  split at h
  · simp only [R.ok.injEq] at h; subst h; split <;> grind
  · simp only [R.ok.injEq] at h; subst h; split <;> grind
  · simp only [R.ok.injEq] at h; subst h; split <;> grind
  · split at h
    · grind
    · rename_i r0 r' hb; have := braced_len _ _ _ hb
      simp only [R.ok.injEq] at h; subst h; split <;> grind
    · grind
  · grind

theorem optQuant_nofuel (s : List Nat) : optQuant s ≠ .fuel := by
  unfold optQuant; split <;> try grind

theorem takeProp_len (s acc : List Nat) : (takeProp s acc).2.length ≤ s.length := by
  fun_induction takeProp s acc <;> grind

theorem propEscape_len (c : Cfg) (n : Bool) (s r : List Nat) (m : Bool)
    (h : propEscape c n s = .ok (r, m)) : r.length < s.length := by
  unfold propEscape at h
  split at h
  · rename_i r0
    have h1 := takeProp_len r0 []
    split at h
    · grind
    · rename_i name r1 heq
      have h2 := takeProp_len r1 []
      split at h <;> grind
    · grind
  · grind

theorem propEscape_nofuel (c : Cfg) (n : Bool) (s : List Nat) : propEscape c n s ≠ .fuel := by
  unfold propEscape
  split
  · split
    · grind
    · split <;> grind
    · grind
  · grind

theorem nameChar_len (s : List Nat) (v : Nat) (r : List Nat) (h : nameChar s = some (v, r)) : r.length < s.length := by
  unfold nameChar at h
  split at h
  · have := uEscapeU_len _ _ _ h; grind
  · grind
  · grind
  · grind
  · grind

theorem groupNameGo_len (t : Tabs) (fuel : Nat) (s acc nm r : List Nat)
    (h : groupNameGo t fuel s acc = some (nm, r)) : r.length < s.length := by
  fun_induction groupNameGo t fuel s acc
  · grind
  · grind
  · grind
  · grind
  · rename_i hc _ _ ih; have := nameChar_len _ _ _ hc; simp only [hc] at h; grind
  · grind

theorem groupName_len (t : Tabs) (s nm r : List Nat) (h : groupName t s = some (nm, r)) : r.length < s.length :=
  groupNameGo_len t _ s [] nm r h


theorem charEscapeU_len (x : Nat) (r : List Nat) (v : Nat) (r' : List Nat)
    (h : charEscapeU x r = some (v, r')) : r'.length ≤ r.length := by
  unfold charEscapeU at h
  split at h
  · grind
  · split at h
    · split at h <;> grind
    · split at h
      · split at h <;> grind
      · split at h
        · split at h <;> grind
        · split at h
          · have := uEscapeU_len _ _ _ h; omega
          · grind

theorem legacyOctal_len (d : Nat) (r : List Nat) : (legacyOctal d r).2.length ≤ r.length := by
  unfold legacyOctal
  split
  · split
    · split
      · split
        · split <;> grind
        · grind
      · grind
    · grind
  · grind

theorem charEscapeLegacy_len (n ic : Bool) (x : Nat) (r : List Nat) (v : Nat) (r' : List Nat)
    (h : charEscapeLegacy n ic x r = some (v, r')) : r'.length ≤ r.length + 1 := by
  unfold charEscapeLegacy at h
  split at h
  · grind
  · split at h
    · split at h
      · split at h <;> grind
      · grind
    · split at h
      · have := legacyOctal_len x r; grind
      · split at h
        · split at h
          · split at h <;> grind
          · grind
        · split at h
          · split at h
            · rename_i h4; have := hex4_len _ _ _ h4; grind
            · grind
          · split at h <;> grind

theorem classAtom_len (c : Cfg) (s : List Nat) (a : Option Nat) (r : List Nat)
    (h : classAtom c s = .ok (a, r)) : r.length < s.length := by
  unfold classAtom at h
  split at h
  · grind
  · grind
  · rename_i x r0
    split at h
    · grind
    · split at h
      · grind
      · split at h
        · split at h
          · grind
          · split at h
            · split at h
              · rename_i hp; have := propEscape_len _ _ _ _ _ hp; grind
              · grind
              · grind
            · split at h
              · rename_i hp; have := charEscapeU_len _ _ _ _ hp; grind
              · grind
        · split at h
          · rename_i hp; have := charEscapeLegacy_len _ _ _ _ _ _ hp; grind
          · grind
  · grind

theorem classAtom_nofuel (c : Cfg) (s : List Nat) : classAtom c s ≠ .fuel := by
  unfold classAtom
  split
  · grind
  · grind
  · split
    · grind
    · split
      · grind
      · split
        · split
          · grind
          · split
            · split
              · grind
              · grind
              · rename_i hp; exact absurd hp (propEscape_nofuel _ _ _)
            · split <;> grind
        · split <;> grind
  · grind


theorem classLoop_ok (c : Cfg) (fuel : Nat) (s : List Nat) (hf : s.length + 1 ≤ fuel) :
    classLoop c fuel s ≠ .fuel ∧ ∀ r, classLoop c fuel s = .ok r → r.length < s.length := by
  induction fuel generalizing s with
  | zero => omega
  | succ n ih =>
    unfold classLoop
    repeat' split
    all_goals grind [classAtom_nofuel, → classAtom_len]


theorem classSetChar_len (s : List Nat) (v : Nat) (r : List Nat) (h : classSetChar s = some (v, r)) :
    r.length < s.length := by
  unfold classSetChar at h
  repeat' split at h
  all_goals grind [→ charEscapeU_len]

theorem qGo_ok (fuel : Nat) (s : List Nat) (len : Nat) (ms : Bool) (hf : s.length + 1 ≤ fuel) :
    qGo fuel s len ms ≠ .fuel ∧ ∀ r m, qGo fuel s len ms = .ok (r, m) → r.length < s.length := by
  induction fuel generalizing s len ms with
  | zero => omega
  | succ n ih =>
    unfold qGo
    repeat' split
    all_goals grind [→ classSetChar_len]

theorem namedRef_len (c : Cfg) (s : List Nat) (st : St) (r : List Nat) (st' : St)
    (h : namedRef c s st = .ok (r, st')) : r.length < s.length := by
  unfold namedRef at h
  repeat' split at h
  all_goals grind [→ groupName_len]

theorem namedRef_nofuel (c : Cfg) (s : List Nat) (st : St) : namedRef c s st ≠ .fuel := by
  unfold namedRef
  repeat' split
  all_goals grind

theorem atomEscape_len (c : Cfg) (s : List Nat) (st : St) (r : List Nat) (st' : St)
    (h : atomEscape c s st = .ok (r, st')) : r.length ≤ s.length := by
  unfold atomEscape at h
  repeat' split at h
  all_goals grind [→ charEscapeU_len, → charEscapeLegacy_len, → namedRef_len, → propEscape_len, takeDigits_len]

theorem atomEscape_nofuel (c : Cfg) (s : List Nat) (st : St) : atomEscape c s st ≠ .fuel := by
  unfold atomEscape
  repeat' split
  all_goals grind [namedRef_nofuel, propEscape_nofuel]

theorem takeMods_len (s acc : List Nat) : (takeMods s acc).2.length ≤ s.length := by
  fun_induction takeMods s acc <;> grind

theorem modifiers_len (c : Cfg) (s r : List Nat) (h : modifiers c s = some r) : r.length < s.length := by
  unfold modifiers at h
  repeat' split at h
  all_goals grind [takeMods_len]


/-- Fuel adequacy and progress for the `v`-mode class recognizers. -/
def VOk (c : Cfg) (n : Nat) : Prop :=
  (∀ s, 4 * s.length + 4 ≤ n →
    vClass c n s ≠ .fuel ∧ ∀ r m, vClass c n s = .ok (r, m) → r.length < s.length) ∧
  (∀ s, 4 * s.length + 3 ≤ n →
    vContents c n s ≠ .fuel ∧ ∀ r m, vContents c n s = .ok (r, m) → r.length < s.length) ∧
  (∀ s ms, 4 * s.length + 3 ≤ n →
    vUnion c n s ms ≠ .fuel ∧ ∀ r m, vUnion c n s ms = .ok (r, m) → r.length < s.length) ∧
  (∀ s ms, 4 * s.length + 3 ≤ n →
    vInter c n s ms ≠ .fuel ∧ ∀ r m, vInter c n s ms = .ok (r, m) → r.length < s.length) ∧
  (∀ s ms, 4 * s.length + 3 ≤ n →
    vSub c n s ms ≠ .fuel ∧ ∀ r m, vSub c n s ms = .ok (r, m) → r.length < s.length) ∧
  (∀ s, 4 * s.length + 1 ≤ n →
    vOperand c n s ≠ .fuel ∧ ∀ r m v, vOperand c n s = .ok (r, m, v) → r.length < s.length) ∧
  (∀ s, 4 * s.length + 2 ≤ n →
    vItem c n s ≠ .fuel ∧ ∀ r g m, vItem c n s = .ok (r, g, m) → r.length < s.length)

theorem vOk (c : Cfg) (n : Nat) : VOk c n := by
  induction n with
  | zero => unfold VOk; refine ⟨?_, ?_, ?_, ?_, ?_, ?_, ?_⟩ <;> intros <;> omega
  | succ n ih =>
    obtain ⟨ihC, ihK, ihU, ihI, ihS, ihO, ihT⟩ := ih
    refine ⟨?_, ?_, ?_, ?_, ?_, ?_, ?_⟩
    · intro s hf
      unfold vClass
      repeat' split
      all_goals grind
    · intro s hf
      unfold vContents
      repeat' split
      all_goals grind
    · intro s ms hf
      unfold vUnion
      repeat' split
      all_goals grind
    · intro s ms hf
      unfold vInter
      repeat' split
      all_goals grind
    · intro s ms hf
      unfold vSub
      repeat' split
      all_goals grind
    · intro s hf
      unfold vOperand
      repeat' split
      all_goals grind [qGo_ok, propEscape_nofuel, → propEscape_len, → classSetChar_len]
    · intro s hf
      unfold vItem
      repeat' split
      all_goals grind [→ classSetChar_len]


/-- Fuel adequacy and progress for Disjunction / Alternative / Term / Atom. -/
def DOk (c : Cfg) (n : Nat) : Prop :=
  (∀ s st, 6 * s.length + 5 ≤ n →
    disj c n s st ≠ .fuel ∧ ∀ r st', disj c n s st = .ok (r, st') → r.length ≤ s.length) ∧
  (∀ s st, 6 * s.length + 4 ≤ n →
    alt c n s st ≠ .fuel ∧ ∀ r st', alt c n s st = .ok (r, st') → r.length ≤ s.length) ∧
  (∀ s st, 6 * s.length + 6 ≤ n →
    body c n s st ≠ .fuel ∧ ∀ r st', body c n s st = .ok (r, st') → r.length < s.length) ∧
  (∀ s st, 6 * s.length + 3 ≤ n →
    term c n s st ≠ .fuel ∧ ∀ r st', term c n s st = .ok (r, st') → r.length < s.length) ∧
  (∀ s st, 6 * s.length + 2 ≤ n →
    quantified c n s st ≠ .fuel ∧ ∀ r st', quantified c n s st = .ok (r, st') → r.length < s.length) ∧
  (∀ s st, 6 * s.length + 1 ≤ n →
    atom c n s st ≠ .fuel ∧ ∀ r st', atom c n s st = .ok (r, st') → r.length < s.length)

theorem dOk (c : Cfg) (n : Nat) : DOk c n := by
  induction n with
  | zero => unfold DOk; refine ⟨?_, ?_, ?_, ?_, ?_, ?_⟩ <;> intros <;> omega
  | succ n ih =>
    obtain ⟨ihD, ihA, ihB, ihT, ihQ, ihM⟩ := ih
    have hV := vOk c n
    obtain ⟨hVC, -⟩ := hV
    refine ⟨?_, ?_, ?_, ?_, ?_, ?_⟩
    · intro s st hf
      unfold disj
      repeat' split
      all_goals grind
    · intro s st hf
      unfold alt
      repeat' split
      all_goals grind
    · intro s st hf
      unfold body
      repeat' split
      all_goals grind
    · intro s st hf
      unfold term
      repeat' split
      all_goals grind [optQuant_nofuel, → optQuant_len]
    · intro s st hf
      unfold quantified
      repeat' split
      all_goals grind [optQuant_nofuel, → optQuant_len]
    · intro s st hf
      unfold atom
      repeat' split
      all_goals grind [classLoop_ok, atomEscape_nofuel, → atomEscape_len, → groupName_len, → modifiers_len, → braced_len]


theorem parsePattern_nofuel (c : Cfg) (s : List Nat) : parsePattern c s ≠ .fuel := by
  have h := (dOk c (8 * (s.length + 2))).1 s {} (by omega)
  unfold parsePattern
  repeat' split
  all_goals grind

/-- **Fuel adequacy**: the recognizer never runs out of fuel, for any tables, flags and pattern. -/
theorem esValidCore_nofuel (t : Tabs) (f25 u v : Bool) (p : List Nat) : esValidCore t f25 u v p ≠ .fuel := by
  unfold esValidCore
  repeat' split
  all_goals grind [parsePattern_nofuel]

theorem esValidR_nofuel (t : Tabs) (f25 : Bool) (fl p : List Nat) : esValidR t f25 fl p ≠ .fuel := by
  unfold esValidR
  split
  · exact esValidCore_nofuel _ _ _ _ _
  · grind

/-- Hence `esValid` is exactly "the recognizer does not answer `bad`". -/
theorem esValid_eq_false_iff (flags : String) (p : List Nat) :
    esValid flags p = false ↔ esValidR tabs true (str flags) p = .bad := by
  have := esValidR_nofuel tabs true (str flags) p
  unfold esValid
  cases h : esValidR tabs true (str flags) p <;> simp_all


#print axioms concat_refuted_legacy
#print axioms concat_refuted_unicode
#print axioms u_v_incomparable
#print axioms esValidR_flags
#print axioms esValidR_cons_irrelevant
#print axioms esValidCore_nofuel
#print axioms esValid_eq_false_iff

end Regress.ESG
