import Proofs.Lemmas.CertsWf
/-!
# Certificates, part 7: nesting

`Sub sk b s' b'`: the skeleton `s'` occurs at address `b'` inside the layout of `sk` at `b`.
Occurrences are intervals `[b', b' + s'.size)`; two occurrences are nested or disjoint (`Sub.laminar`).
`Role sk b x i`: what the instruction `i` at address `x` of a layout is — a plain instruction, or one of
the own instructions of a composite occurrence (`Lay.role`: every instruction has a role).  The
certificate proofs analyse an arbitrary instruction by its role instead of repeating the structural
induction.
-/
namespace Regress.Certs

open Regress.VM Regress.Keystone Regress.VM.Safety

/-- `s'` occurs at `b'` inside `sk` laid out at `b`. -/
inductive Sub : Sk → Nat → Sk → Nat → Prop
  | refl (sk : Sk) (b : Nat) : Sub sk b sk b
  | seqL {a c : Sk} {b : Nat} {s' : Sk} {b' : Nat} : Sub a b s' b' → Sub (.seq a c) b s' b'
  | seqR {a c : Sk} {b : Nat} {s' : Sk} {b' : Nat} : Sub c (b + a.size) s' b' → Sub (.seq a c) b s' b'
  | altL {a c : Sk} {b : Nat} {s' : Sk} {b' : Nat} : Sub a (b + 1) s' b' → Sub (.alt a c) b s' b'
  | altR {a c : Sk} {b : Nat} {s' : Sk} {b' : Nat} : Sub c (b + a.size + 2) s' b' → Sub (.alt a c) b s' b'
  | loop {id mn : Nat} {mx : Option Nat} {gr : Bool} {g0 cnt : Nat} {body : Sk} {b : Nat} {s' : Sk} {b' : Nat} :
      Sub body (b + 1 + cnt) s' b' → Sub (.loop id mn mx gr g0 cnt body) b s' b'
  | group {g : Nat} {body : Sk} {b : Nat} {s' : Sk} {b' : Nat} : Sub body (b + 1) s' b' → Sub (.group g body) b s' b'
  | look {neg bw : Bool} {sg eg : Nat} {body : Sk} {b : Nat} {s' : Sk} {b' : Nat} :
      Sub body (b + 1) s' b' → Sub (.look neg bw sg eg body) b s' b'

theorem Sub.trans {sk : Sk} {b : Nat} {s1 : Sk} {b1 : Nat} {s2 : Sk} {b2 : Nat} (h1 : Sub sk b s1 b1)
    (h2 : Sub s1 b1 s2 b2) : Sub sk b s2 b2 := by
  induction h1 with
  | refl => exact h2
  | seqL _ ih => exact .seqL (ih h2)
  | seqR _ ih => exact .seqR (ih h2)
  | altL _ ih => exact .altL (ih h2)
  | altR _ ih => exact .altR (ih h2)
  | loop _ ih => exact .loop (ih h2)
  | group _ ih => exact .group (ih h2)
  | look _ ih => exact .look (ih h2)

theorem Sub.range {sk : Sk} {b : Nat} {s' : Sk} {b' : Nat} (h : Sub sk b s' b') :
    b ≤ b' ∧ b' + s'.size ≤ b + sk.size := by
  induction h with
  | refl => exact ⟨Nat.le_refl _, Nat.le_refl _⟩
  | seqL _ ih => simp only [Sk.size]; omega
  | seqR _ ih => simp only [Sk.size]; omega
  | altL _ ih => simp only [Sk.size]; omega
  | altR _ ih => simp only [Sk.size]; omega
  | loop _ ih => simp only [Sk.size]; omega
  | group _ ih => simp only [Sk.size]; omega
  | look _ ih => simp only [Sk.size]; omega

theorem Sub.lay {I : Array Insn} {sk : Sk} {b : Nat} {s' : Sk} {b' : Nat} (h : Sub sk b s' b')
    (hl : Lay I sk b) : Lay I s' b' := by
  induction h with
  | refl => exact hl
  | seqL _ ih => simp only [Lay] at hl; exact ih hl.1
  | seqR _ ih => simp only [Lay] at hl; exact ih hl.2
  | altL _ ih => simp only [Lay] at hl; exact ih hl.2.1
  | altR _ ih => simp only [Lay] at hl; exact ih hl.2.2.2
  | loop _ ih => simp only [Lay] at hl; exact ih hl.2.2.1
  | group _ ih => simp only [Lay] at hl; exact ih hl.2.1
  | look _ ih => simp only [Lay] at hl; exact ih hl.2.1

theorem Sub.ok {G nb L : Nat} {sk : Sk} {b : Nat} {s' : Sk} {b' : Nat} (h : Sub sk b s' b')
    (hok : sk.ok G nb L = true) : s'.ok G nb L = true := by
  induction h with
  | refl => exact hok
  | seqL _ ih => simp only [Sk.ok, Bool.and_eq_true] at hok; exact ih hok.1
  | seqR _ ih => simp only [Sk.ok, Bool.and_eq_true] at hok; exact ih hok.2
  | altL _ ih => simp only [Sk.ok, Bool.and_eq_true] at hok; exact ih hok.1
  | altR _ ih => simp only [Sk.ok, Bool.and_eq_true] at hok; exact ih hok.2
  | loop _ ih => simp only [Sk.ok, Bool.and_eq_true] at hok; exact ih hok.2
  | group _ ih => simp only [Sk.ok, Bool.and_eq_true] at hok; exact ih hok.2
  | look _ ih => simp only [Sk.ok, Bool.and_eq_true] at hok; exact ih hok.2

/-- The scope of an occurrence is inside the scope of the whole. -/
theorem Sub.gsc {sk : Sk} {b : Nat} {s' : Sk} {b' : Nat} (h : Sub sk b s' b') :
    ∀ {lo hi : Nat}, sk.gsc lo hi = true → ∃ lo' hi', s'.gsc lo' hi' = true ∧ lo ≤ lo' ∧ hi' ≤ hi := by
  induction h with
  | refl => intro lo hi hg; exact ⟨lo, hi, hg, Nat.le_refl _, Nat.le_refl _⟩
  | seqL _ ih => intro lo hi hg; simp only [Sk.gsc, Bool.and_eq_true] at hg; exact ih hg.1
  | seqR _ ih => intro lo hi hg; simp only [Sk.gsc, Bool.and_eq_true] at hg; exact ih hg.2
  | altL _ ih => intro lo hi hg; simp only [Sk.gsc, Bool.and_eq_true] at hg; exact ih hg.1
  | altR _ ih => intro lo hi hg; simp only [Sk.gsc, Bool.and_eq_true] at hg; exact ih hg.2
  | loop _ ih => intro lo hi hg; simp only [Sk.gsc, Bool.and_eq_true] at hg; exact ih hg.1.2
  | group _ ih => intro lo hi hg; simp only [Sk.gsc, Bool.and_eq_true] at hg; exact ih hg.2
  | look _ ih =>
    intro lo hi hg
    simp only [Sk.gsc, Bool.and_eq_true, decide_eq_true_eq] at hg
    obtain ⟨lo', hi', h1, h2, h3⟩ := ih hg.2
    exact ⟨lo', hi', h1, by omega, by omega⟩

/-- Proper occurrences inside a composite occurrence are inside its parts. -/
theorem Sub.inv {sk : Sk} {b : Nat} {s' : Sk} {b' : Nat} (h : Sub sk b s' b') :
    (sk = s' ∧ b = b') ∨
    (match sk with
     | .seq a c => Sub a b s' b' ∨ Sub c (b + a.size) s' b'
     | .alt a c => Sub a (b + 1) s' b' ∨ Sub c (b + a.size + 2) s' b'
     | .loop _ _ _ _ _ cnt body => Sub body (b + 1 + cnt) s' b'
     | .group _ body => Sub body (b + 1) s' b'
     | .look _ _ _ _ body => Sub body (b + 1) s' b'
     | _ => False) := by
  cases h with
  | refl => exact Or.inl ⟨rfl, rfl⟩
  | seqL h => exact Or.inr (Or.inl h)
  | seqR h => exact Or.inr (Or.inr h)
  | altL h => exact Or.inr (Or.inl h)
  | altR h => exact Or.inr (Or.inr h)
  | loop h => exact Or.inr h
  | group h => exact Or.inr h
  | look h => exact Or.inr h

/-- **Laminarity**: two occurrences are nested or disjoint. -/
theorem Sub.laminar : ∀ {sk : Sk} {b : Nat} {s1 : Sk} {b1 : Nat} {s2 : Sk} {b2 : Nat}, Sub sk b s1 b1 →
    Sub sk b s2 b2 → Sub s1 b1 s2 b2 ∨ Sub s2 b2 s1 b1 ∨ b1 + s1.size ≤ b2 ∨ b2 + s2.size ≤ b1 := by
  intro sk
  induction sk with
  | nil =>
    intro b s1 b1 s2 b2 h1 h2
    rcases h1.inv with ⟨rfl, rfl⟩ | h1
    · exact Or.inl h2
    · exact h1.elim
  | one i =>
    intro b s1 b1 s2 b2 h1 h2
    rcases h1.inv with ⟨rfl, rfl⟩ | h1
    · exact Or.inl h2
    · exact h1.elim
  | loop1 mn mx gr body =>
    intro b s1 b1 s2 b2 h1 h2
    rcases h1.inv with ⟨rfl, rfl⟩ | h1
    · exact Or.inl h2
    · exact h1.elim
  | seq a c iha ihc =>
    intro b s1 b1 s2 b2 h1 h2
    rcases h1.inv with ⟨rfl, rfl⟩ | h1
    · exact Or.inl h2
    rcases h2.inv with ⟨rfl, rfl⟩ | h2
    · rcases h1 with h1 | h1
      · exact Or.inr (Or.inl (.seqL h1))
      · exact Or.inr (Or.inl (.seqR h1))
    rcases h1 with h1 | h1 <;> rcases h2 with h2 | h2
    · exact iha h1 h2
    · have := h1.range; have := h2.range; exact Or.inr (Or.inr (Or.inl (by omega)))
    · have := h1.range; have := h2.range; exact Or.inr (Or.inr (Or.inr (by omega)))
    · exact ihc h1 h2
  | alt a c iha ihc =>
    intro b s1 b1 s2 b2 h1 h2
    rcases h1.inv with ⟨rfl, rfl⟩ | h1
    · exact Or.inl h2
    rcases h2.inv with ⟨rfl, rfl⟩ | h2
    · rcases h1 with h1 | h1
      · exact Or.inr (Or.inl (.altL h1))
      · exact Or.inr (Or.inl (.altR h1))
    rcases h1 with h1 | h1 <;> rcases h2 with h2 | h2
    · exact iha h1 h2
    · have := h1.range; have := h2.range; exact Or.inr (Or.inr (Or.inl (by omega)))
    · have := h1.range; have := h2.range; exact Or.inr (Or.inr (Or.inr (by omega)))
    · exact ihc h1 h2
  | loop id mn mx gr g0 cnt body ih =>
    intro b s1 b1 s2 b2 h1 h2
    rcases h1.inv with ⟨rfl, rfl⟩ | h1
    · exact Or.inl h2
    rcases h2.inv with ⟨rfl, rfl⟩ | h2
    · exact Or.inr (Or.inl (.loop h1))
    exact ih h1 h2
  | group g body ih =>
    intro b s1 b1 s2 b2 h1 h2
    rcases h1.inv with ⟨rfl, rfl⟩ | h1
    · exact Or.inl h2
    rcases h2.inv with ⟨rfl, rfl⟩ | h2
    · exact Or.inr (Or.inl (.group h1))
    exact ih h1 h2
  | look neg bw sg eg body ih =>
    intro b s1 b1 s2 b2 h1 h2
    rcases h1.inv with ⟨rfl, rfl⟩ | h1
    · exact Or.inl h2
    rcases h2.inv with ⟨rfl, rfl⟩ | h2
    · exact Or.inr (Or.inl (.look h1))
    exact ih h1 h2

/-! ## Roles -/

/-- What the instruction `i` at address `x` of the layout of `sk` at `b` is. -/
inductive Role (sk : Sk) (b x : Nat) : Insn → Prop
  | one {i : Insn} : Sub sk b (.one i) x → Role sk b x i
  | altHead {a c : Sk} : Sub sk b (.alt a c) x → Role sk b x (.alt (x + a.size + 2))
  | altJump {a c : Sk} {b' : Nat} : Sub sk b (.alt a c) b' → x = b' + a.size + 1 →
      Role sk b x (.jump (b' + a.size + c.size + 2))
  | loopHead {id mn : Nat} {mx : Option Nat} {gr : Bool} {g0 cnt : Nat} {body : Sk} :
      Sub sk b (.loop id mn mx gr g0 cnt body) x → Role sk b x (.enterLoop id mn mx gr (x + cnt + body.size + 2))
  | loopReset {id mn : Nat} {mx : Option Nat} {gr : Bool} {g0 cnt : Nat} {body : Sk} {b' k : Nat} :
      Sub sk b (.loop id mn mx gr g0 cnt body) b' → k < cnt → x = b' + 1 + k →
      Role sk b x (.resetCaptureGroup (g0 + k))
  | loopAgain {id mn : Nat} {mx : Option Nat} {gr : Bool} {g0 cnt : Nat} {body : Sk} {b' : Nat} :
      Sub sk b (.loop id mn mx gr g0 cnt body) b' → x = b' + 1 + cnt + body.size → Role sk b x (.loopAgain b')
  | l1Head {mn : Nat} {mx : Option Nat} {gr : Bool} {body : Insn} :
      Sub sk b (.loop1 mn mx gr body) x → Role sk b x (.loop1 mn mx gr)
  | l1Body {mn : Nat} {mx : Option Nat} {gr : Bool} {body : Insn} {b' : Nat} :
      Sub sk b (.loop1 mn mx gr body) b' → x = b' + 1 → Role sk b x body
  | grpBegin {g : Nat} {body : Sk} : Sub sk b (.group g body) x → Role sk b x (.beginCaptureGroup g)
  | grpEnd {g : Nat} {body : Sk} {b' : Nat} : Sub sk b (.group g body) b' → x = b' + 1 + body.size →
      Role sk b x (.endCaptureGroup g)
  | lookHead {neg bw : Bool} {sg eg : Nat} {body : Sk} :
      Sub sk b (.look neg bw sg eg body) x → Role sk b x (lookI neg bw sg eg (x + body.size + 2))
  | lookGoal {neg bw : Bool} {sg eg : Nat} {body : Sk} {b' : Nat} :
      Sub sk b (.look neg bw sg eg body) b' → x = b' + 1 + body.size → Role sk b x .goal

theorem Role.lift {sk : Sk} {b : Nat} {s' : Sk} {b' x : Nat} {i : Insn} (hs : Sub sk b s' b')
    (h : Role s' b' x i) : Role sk b x i := by
  cases h with
  | one h => exact .one (hs.trans h)
  | altHead h => exact .altHead (hs.trans h)
  | altJump h hx => exact .altJump (hs.trans h) hx
  | loopHead h => exact .loopHead (hs.trans h)
  | loopReset h hk hx => exact .loopReset (hs.trans h) hk hx
  | loopAgain h hx => exact .loopAgain (hs.trans h) hx
  | l1Head h => exact .l1Head (hs.trans h)
  | l1Body h hx => exact .l1Body (hs.trans h) hx
  | grpBegin h => exact .grpBegin (hs.trans h)
  | grpEnd h hx => exact .grpEnd (hs.trans h) hx
  | lookHead h => exact .lookHead (hs.trans h)
  | lookGoal h hx => exact .lookGoal (hs.trans h) hx

/-- **Every instruction of a layout has a role.** -/
theorem Lay.role {I : Array Insn} : ∀ {sk : Sk} {b : Nat}, Lay I sk b → ∀ x, b ≤ x → x < b + sk.size →
    ∀ i, At I x i → Role sk b x i
  | .nil, b, _, x, h1, h2, _, _ => by simp [Sk.size] at h2; omega
  | .one i, b, h, x, h1, h2, i', hat => by
    simp only [Sk.size] at h2
    have : x = b := by omega
    subst this
    simp only [Lay] at h
    have := at_inj h hat; subst this
    exact .one (.refl _ _)
  | .seq a c, b, h, x, h1, h2, i, hat => by
    simp only [Sk.size] at h2
    simp only [Lay] at h
    by_cases hx : x < b + a.size
    · exact Role.lift (.seqL (.refl _ _)) (Lay.role h.1 x h1 hx i hat)
    · exact Role.lift (.seqR (.refl _ _)) (Lay.role h.2 x (by omega) (by omega) i hat)
  | .alt a c, b, h, x, h1, h2, i, hat => by
    simp only [Sk.size] at h2
    simp only [Lay] at h
    obtain ⟨h0, ha, hj, hc⟩ := h
    by_cases hx0 : x = b
    · subst hx0; have := at_inj h0 hat; subst this
      exact .altHead (.refl _ _)
    · by_cases hx1 : x < b + 1 + a.size
      · exact Role.lift (.altL (.refl _ _)) (Lay.role ha x (by omega) hx1 i hat)
      · by_cases hx2 : x = b + a.size + 1
        · subst hx2; have := at_inj hj hat; subst this
          exact .altJump (.refl _ _) rfl
        · exact Role.lift (.altR (.refl _ _)) (Lay.role hc x (by omega) (by omega) i hat)
  | .loop id mn mx gr g0 cnt body, b, h, x, h1, h2, i, hat => by
    simp only [Sk.size] at h2
    simp only [Lay] at h
    obtain ⟨h0, hr, hb, hl⟩ := h
    by_cases hx0 : x = b
    · subst hx0; have := at_inj h0 hat; subst this
      exact .loopHead (.refl _ _)
    · by_cases hx1 : x < b + 1 + cnt
      · have := hr (x - (b + 1)) (by omega)
        rw [show b + 1 + (x - (b + 1)) = x by omega] at this
        have := at_inj this hat; subst this
        exact .loopReset (.refl _ _) (show x - (b + 1) < cnt by omega) (by omega)
      · by_cases hx2 : x < b + 1 + cnt + body.size
        · exact Role.lift (.loop (.refl _ _)) (Lay.role hb x (by omega) hx2 i hat)
        · have : x = b + 1 + cnt + body.size := by omega
          subst this; have := at_inj hl hat; subst this
          exact .loopAgain (.refl _ _) rfl
  | .loop1 mn mx gr body, b, h, x, h1, h2, i, hat => by
    simp only [Sk.size] at h2
    simp only [Lay] at h
    by_cases hx0 : x = b
    · subst hx0; have := at_inj h.1 hat; subst this
      exact .l1Head (.refl _ _)
    · have : x = b + 1 := by omega
      subst this; have := at_inj h.2 hat; subst this
      exact .l1Body (.refl _ _) rfl
  | .group g body, b, h, x, h1, h2, i, hat => by
    simp only [Sk.size] at h2
    simp only [Lay] at h
    obtain ⟨h0, hb, hl⟩ := h
    by_cases hx0 : x = b
    · subst hx0; have := at_inj h0 hat; subst this
      exact .grpBegin (.refl _ _)
    · by_cases hx2 : x < b + 1 + body.size
      · exact Role.lift (.group (.refl _ _)) (Lay.role hb x (by omega) hx2 i hat)
      · have : x = b + 1 + body.size := by omega
        subst this; have := at_inj hl hat; subst this
        exact .grpEnd (.refl _ _) rfl
  | .look neg bw sg eg body, b, h, x, h1, h2, i, hat => by
    simp only [Sk.size] at h2
    simp only [Lay] at h
    obtain ⟨h0, hb, hl⟩ := h
    by_cases hx0 : x = b
    · subst hx0; have := at_inj h0 hat; subst this
      exact .lookHead (.refl _ _)
    · by_cases hx2 : x < b + 1 + body.size
      · exact Role.lift (.look (.refl _ _)) (Lay.role hb x (by omega) hx2 i hat)
      · have : x = b + 1 + body.size := by omega
        subst this; have := at_inj hl hat; subst this
        exact .lookGoal (.refl _ _) rfl

/-! ## The instructions of an occurrence -/

section Parts
variable {I : Array Insn} {sk : Sk} {b : Nat} (hl : Lay I sk b)
include hl

theorem Sub.alt_at {a c : Sk} {b' : Nat} (h : Sub sk b (.alt a c) b') :
    At I b' (.alt (b' + a.size + 2)) ∧ At I (b' + a.size + 1) (.jump (b' + a.size + c.size + 2)) := by
  have := h.lay hl; simp only [Lay] at this; exact ⟨this.1, this.2.2.1⟩

theorem Sub.loop_at {id mn : Nat} {mx : Option Nat} {gr : Bool} {g0 cnt : Nat} {body : Sk} {b' : Nat}
    (h : Sub sk b (.loop id mn mx gr g0 cnt body) b') :
    At I b' (.enterLoop id mn mx gr (b' + cnt + body.size + 2)) ∧
    (∀ k, k < cnt → At I (b' + 1 + k) (.resetCaptureGroup (g0 + k))) ∧
    At I (b' + 1 + cnt + body.size) (.loopAgain b') := by
  have := h.lay hl; simp only [Lay] at this; exact ⟨this.1, this.2.1, this.2.2.2⟩

theorem Sub.loop1_at {mn : Nat} {mx : Option Nat} {gr : Bool} {body : Insn} {b' : Nat}
    (h : Sub sk b (.loop1 mn mx gr body) b') : At I b' (.loop1 mn mx gr) ∧ At I (b' + 1) body := by
  have := h.lay hl; simp only [Lay] at this; exact this

theorem Sub.group_at {g : Nat} {body : Sk} {b' : Nat} (h : Sub sk b (.group g body) b') :
    At I b' (.beginCaptureGroup g) ∧ At I (b' + 1 + body.size) (.endCaptureGroup g) := by
  have := h.lay hl; simp only [Lay] at this; exact ⟨this.1, this.2.2⟩

theorem Sub.look_at {neg bw : Bool} {sg eg : Nat} {body : Sk} {b' : Nat}
    (h : Sub sk b (.look neg bw sg eg body) b') :
    At I b' (lookI neg bw sg eg (b' + body.size + 2)) ∧ At I (b' + 1 + body.size) .goal := by
  have := h.lay hl; simp only [Lay] at this; exact ⟨this.1, this.2.2⟩

theorem Sub.one_at {i : Insn} {b' : Nat} (h : Sub sk b (.one i) b') : At I b' i := by
  have := h.lay hl; simpa only [Lay] using this

end Parts

/-- The role of an instruction determines where it sits: the address of an own instruction of an
occurrence is inside the occurrence. -/
theorem Sub.mem_range {sk : Sk} {b : Nat} {s' : Sk} {b' : Nat} (h : Sub sk b s' b') {x : Nat}
    (h1 : b' ≤ x) (h2 : x < b' + s'.size) : b ≤ x ∧ x < b + sk.size := by
  have := h.range; omega

end Regress.Certs
