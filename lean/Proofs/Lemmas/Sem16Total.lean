import Proofs.Lemmas.Sem16Dec
import Proofs.Lemmas.Sem16Loop1
/-!
# `sem16` on ARBITRARY code units

For any array of code units (lone surrogates anywhere), with the pair check of 7fc34e1 in
`subrange_eq` (or for `Ucs2Input`), every outcome of a node without byte-level nodes, entered in a
*valid* state, is a success in a valid state at or beyond the entry position (`sem16_fine`): no
panic, no exhausted loop budget, every offset inside the input and — for `Utf16Input` — never
between the two halves of a surrogate pair.
-/
namespace Regress.IR

open Regress.VM Regress

/-- Inside the input and, for `Utf16Input`, not between the halves of a surrogate pair. -/
def ValidPos (inp : Input16) (p : Nat) : Prop :=
  p ≤ inp.len ∧ (inp.ucs2 = false → splitsPair inp.units p = false)

def goodCap16 (inp : Input16) (c : Cap) : Prop :=
  (∀ a, c.1 = some a → ValidPos inp a) ∧ (∀ b, c.2 = some b → ValidPos inp b)

/-- Every offset of the state is valid. -/
def Good16 (inp : Input16) (st : St) : Prop := ValidPos inp st.pos ∧ ∀ c ∈ st.caps, goodCap16 inp c

/-- `p'` is `p` or strictly further in the direction of travel. -/
def Adv16 (inp : Input16) (fwd : Bool) (p p' : Nat) : Prop := p' = p ∨ mu16 inp fwd p' < mu16 inp fwd p

/-- Every outcome is a success in a valid state at or beyond `p`. -/
def Fine (inp : Input16) (fwd : Bool) (p : Nat) (l : List Out) : Prop :=
  ∀ o ∈ l, ∃ s, o = .ok s ∧ Good16 inp s ∧ Adv16 inp fwd p s.pos

theorem Adv16.refl (inp : Input16) (fwd : Bool) (p : Nat) : Adv16 inp fwd p p := Or.inl rfl

theorem Adv16.trans {inp : Input16} {fwd : Bool} {a b c : Nat} (h1 : Adv16 inp fwd a b) (h2 : Adv16 inp fwd b c) :
    Adv16 inp fwd a c := by
  unfold Adv16 at *
  rcases h1 with rfl | h1
  · exact h2
  · rcases h2 with rfl | h2
    · exact Or.inr h1
    · exact Or.inr (by omega)

theorem Fine.nil (inp : Input16) (fwd : Bool) (p : Nat) : Fine inp fwd p [] := by intro o ho; cases ho

theorem Fine.single {inp : Input16} {fwd : Bool} {p : Nat} {s : St} (hg : Good16 inp s) (ha : Adv16 inp fwd p s.pos) :
    Fine inp fwd p [.ok s] := by
  intro o ho; simp only [List.mem_singleton] at ho; exact ⟨s, ho, hg, ha⟩

theorem Fine.append {inp : Input16} {fwd : Bool} {p : Nat} {l l' : List Out} (h1 : Fine inp fwd p l)
    (h2 : Fine inp fwd p l') : Fine inp fwd p (l ++ l') := by
  intro o ho
  rcases List.mem_append.1 ho with h | h
  · exact h1 o h
  · exact h2 o h

theorem Fine.bind {inp : Input16} {fwd : Bool} {p : Nat} {l : List Out} {k : St → List Out} (h1 : Fine inp fwd p l)
    (h2 : ∀ s, Good16 inp s → Adv16 inp fwd p s.pos → Fine inp fwd s.pos (k s)) : Fine inp fwd p (bindOut l k) := by
  intro o ho
  simp only [bindOut, List.mem_flatMap] at ho
  obtain ⟨x, hx, hox⟩ := ho
  obtain ⟨s, rfl, hg, ha⟩ := h1 x hx
  obtain ⟨s', rfl, hg', ha'⟩ := h2 s hg ha o hox
  exact ⟨s', rfl, hg', ha.trans ha'⟩

theorem Fine.optOut {inp : Input16} {fwd : Bool} {st : St} {o : Option Nat} (hg : Good16 inp st)
    (ho : ∀ e, o = some e → ValidPos inp e ∧ Adv16 inp fwd st.pos e) : Fine inp fwd st.pos (optOut st o) := by
  cases o with
  | none => exact Fine.nil _ _ _
  | some e =>
    have := ho e rfl
    exact Fine.single (s := { st with pos := e }) ⟨this.1, hg.2⟩ this.2

theorem Fine.guard {inp : Input16} {fwd : Bool} {st : St} (hg : Good16 inp st) (b : Bool) :
    Fine inp fwd st.pos (guardOut st b) := by
  cases b
  · exact Fine.nil _ _ _
  · exact Fine.single hg (Adv16.refl _ _ _)

/-! ## The bookkeeping operations keep states valid -/

theorem Good16.reset {inp : Input16} {st : St} (h : Good16 inp st) (g0 g1 : Nat) : Good16 inp (st.resetGroups g0 g1) := by
  refine ⟨h.1, fun c hc => ?_⟩
  rcases mem_resetFrom hc with rfl | hc
  · exact ⟨fun a ha => (by cases ha), fun b hb => (by cases hb)⟩
  · exact h.2 c hc

theorem Good16.setStart {inp : Input16} {st : St} (h : Good16 inp st) (id : Nat) : Good16 inp (st.setStart id st.pos) := by
  refine ⟨h.1, fun c hc => ?_⟩
  rcases mem_modify hc with hc | ⟨c0, hc0, rfl⟩
  · exact h.2 c hc
  · exact ⟨fun a ha => by cases ha; exact h.1, (h.2 c0 hc0).2⟩

theorem Good16.setEnd {inp : Input16} {st : St} (h : Good16 inp st) (id : Nat) : Good16 inp (st.setEnd id st.pos) := by
  refine ⟨h.1, fun c hc => ?_⟩
  rcases mem_modify hc with hc | ⟨c0, hc0, rfl⟩
  · exact h.2 c hc
  · exact ⟨(h.2 c0 hc0).1, fun b hb => by cases hb; exact h.1⟩

theorem good16_initSt {inp : Input16} (n : Node) {p : Nat} (hp : ValidPos inp p) : Good16 inp (initSt n p) := by
  refine ⟨hp, fun c hc => ?_⟩
  have : c = (none, none) := List.eq_of_mem_replicate hc
  subst this
  exact ⟨fun a ha => (by cases ha), fun b hb => (by cases hb)⟩

/-! ## One decoding step -/

section
variable {inp : Input16}

theorem next16_spec {fwd : Bool} {p c p' : Nat} (hv : ValidPos inp p) (h : inp.next fwd p = some (c, p')) :
    ValidPos inp p' ∧ mu16 inp fwd p' < mu16 inp fwd p ∧ inp.nextPos (!fwd) p' = some p ∧ inp.nextPos fwd p = some p' := by
  unfold ValidPos at *
  unfold Input16.next at h
  unfold mu16 Input16.nextPos Input16.len at *
  cases hu : inp.ucs2
  · -- `Utf16Input`
    have hsp := hv.2 hu
    cases fwd
    · simp only [Bool.false_eq_true, if_false, Input16.nextLeft, hu] at h
      have hr := Utf16.nextLeft_in_range h
      have hpe := Utf16.nextLeftPos_eq inp.units p
      rw [h] at hpe
      simp only [Bool.false_eq_true, if_false, Bool.not_false, if_true, Input16.nextLeftPos, Input16.nextRightPos, hu]
      exact ⟨⟨by omega, fun _ => nextLeft_lands h⟩, by omega, nextRightPos_nextLeft hsp h, hpe⟩
    · simp only [if_true, Input16.nextRight, hu, Bool.false_eq_true, if_false] at h
      have hr := Utf16.nextRight_in_range h
      have hpe := Utf16.nextRightPos_eq inp.units p
      rw [h] at hpe
      simp only [if_true, Bool.not_true, Bool.false_eq_true, if_false, Input16.nextLeftPos, Input16.nextRightPos, hu]
      exact ⟨⟨by omega, fun _ => nextRight_lands h⟩, by omega, nextLeftPos_nextRight hsp h, hpe⟩
  · -- `Ucs2Input`
    cases fwd
    · simp only [Bool.false_eq_true, if_false, Input16.nextLeft, hu, if_true, Utf16.Ucs2.nextLeft] at h
      by_cases h0 : p = 0
      · simp [h0] at h
      · have hb : (p == 0) = false := by simpa using h0
        simp only [hb, Bool.false_eq_true, if_false] at h
        cases hg : inp.units[p - 1]? with
        | none => rw [hg] at h; cases h
        | some u =>
          rw [hg] at h
          simp only [Option.some.injEq, Prod.mk.injEq] at h
          obtain ⟨_, rfl⟩ := h
          simp only [Bool.false_eq_true, if_false, Bool.not_false, if_true, Input16.nextLeftPos, Input16.nextRightPos,
            hu, Utf16.Ucs2.nextLeftPos, Utf16.Ucs2.nextRightPos, Utf16.tryMoveLeft, Utf16.tryMoveRight]
          refine ⟨⟨by omega, fun hc => by cases hc⟩, by omega, ?_, ?_⟩
          · rw [if_neg (by omega)]; congr 1; omega
          · rw [if_neg (by omega)]
    · simp only [if_true, Input16.nextRight, hu, Utf16.Ucs2.nextRight] at h
      cases hg : inp.units[p]? with
      | none => rw [hg] at h; cases h
      | some u =>
        rw [hg] at h
        simp only [Option.some.injEq, Prod.mk.injEq] at h
        obtain ⟨_, rfl⟩ := h
        have hlt : p < inp.units.size := (Array.getElem?_eq_some_iff.mp hg).1
        simp only [if_true, Bool.not_true, Bool.false_eq_true, if_false, Input16.nextLeftPos, Input16.nextRightPos,
          hu, Utf16.Ucs2.nextLeftPos, Utf16.Ucs2.nextRightPos, Utf16.tryMoveLeft, Utf16.tryMoveRight]
        refine ⟨⟨by omega, fun hc => by cases hc⟩, by omega, ?_, ?_⟩
        · rw [if_neg (by omega)]; rfl
        · rw [if_neg (by omega)]

theorem charStep16_spec {fwd : Bool} {p p' : Nat} {t : Nat → Bool} (hv : ValidPos inp p)
    (h : charStep16 inp fwd p t = some p') :
    ValidPos inp p' ∧ mu16 inp fwd p' < mu16 inp fwd p ∧ inp.nextPos (!fwd) p' = some p ∧ inp.nextPos fwd p = some p' := by
  unfold charStep16 at h
  cases hn : inp.next fwd p with
  | none => rw [hn] at h; cases h
  | some ce =>
    obtain ⟨c, e⟩ := ce
    rw [hn] at h
    simp only at h
    split at h
    · simp only [Option.some.injEq] at h; subst h; exact next16_spec hv hn
    · cases h

theorem charStep16_fine {fwd : Bool} {st : St} (hg : Good16 inp st) (t : Nat → Bool) :
    Fine inp fwd st.pos (optOut st (charStep16 inp fwd st.pos t)) :=
  Fine.optOut hg (fun e he => ⟨(charStep16_spec hg.1 he).1, Or.inr (charStep16_spec hg.1 he).2.1⟩)

/-! ## Back-references -/

theorem backref16_spec (hflag : inp.ucs2 = true ∨ inp.pairCheck = true) {fwd : Bool} {rs re pos e : Nat}
    (hv : ValidPos inp pos) (h : backref16 inp fwd rs re pos = some e) : ValidPos inp e ∧ Adv16 inp fwd pos e := by
  by_cases hle : re < rs
  · unfold backref16 at h; rw [if_pos hle] at h; cases h
  · rw [backref16_eq inp fwd pos hle] at h
    cases hs : Utf16.subrangeEq inp.units fwd pos rs re with
    | none => rw [hs] at h; cases h
    | some e' =>
      rw [hs] at h
      simp only at h
      split at h
      · cases h
      · rename_i hc
        simp only [Option.some.injEq] at h
        subst h
        have hr := Utf16.subrangeEq_in_range hv.1 hs
        refine ⟨⟨hr.1, fun hu => ?_⟩, ?_⟩
        · have hp : inp.pairCheck = true := by
            rcases hflag with h1 | h1
            · rw [hu] at h1; cases h1
            · exact h1
          simp only [hu, hp, Bool.not_false, Bool.true_and, Bool.not_eq_true] at hc
          exact hc
        · unfold Adv16 mu16
          have := hr.2
          have hl := hr.1
          have hpl := hv.1
          unfold Input16.len at *
          cases fwd
          · simp only [Bool.false_eq_true, if_false] at this ⊢
            by_cases he : e' = pos
            · exact Or.inl he
            · right; omega
          · simp only [if_true] at this ⊢
            by_cases he : e' = pos
            · exact Or.inl he
            · right; omega

theorem backrefIcaseLoop16_spec {ref : Input16} {fwd : Bool} :
    ∀ (fuel refPos pos e : Nat), ValidPos inp pos → backrefIcaseLoop16 inp ref fwd fuel refPos pos = some e →
      ValidPos inp e ∧ Adv16 inp fwd pos e := by
  intro fuel
  induction fuel with
  | zero => intro _ _ _ _ h; simp [backrefIcaseLoop16] at h
  | succ k ih =>
    intro refPos pos e hv h
    unfold backrefIcaseLoop16 at h
    split at h
    · simp only [Option.some.injEq] at h; subst h; exact ⟨hv, Adv16.refl _ _ _⟩
    · split at h
      · cases h
      · rename_i c2 pos' heq
        split at h
        · have hs := next16_spec hv heq
          have := ih _ _ _ hs.1 h
          exact ⟨this.1, Adv16.trans (Or.inr hs.2.1) this.2⟩
        · cases h

theorem backRefStep16_spec (hflag : inp.ucs2 = true ∨ inp.pairCheck = true) {icase fwd : Bool} {rs re pos e : Nat}
    (hv : ValidPos inp pos) (h : backRefStep16 inp icase fwd rs re pos = some e) :
    ValidPos inp e ∧ Adv16 inp fwd pos e := by
  unfold backRefStep16 at h
  split at h
  · unfold backrefIcase16 at h
    split at h
    · cases h
    · exact backrefIcaseLoop16_spec _ _ _ _ hv h
  · exact backref16_spec hflag hv h

/-! ## `StringSet` alternatives -/

theorem cpStep16_spec {icase fwd : Bool} {pos cp e : Nat} (hv : ValidPos inp pos)
    (h : cpStep16 inp icase fwd pos cp = some e) : ValidPos inp e ∧ Adv16 inp fwd pos e := by
  unfold cpStep16 at h
  split at h
  · exact ⟨(charStep16_spec hv h).1, Or.inr (charStep16_spec hv h).2.1⟩
  · exact ⟨(charStep16_spec hv h).1, Or.inr (charStep16_spec hv h).2.1⟩

theorem stepSeq16_spec {fwd : Bool} {step : Nat → Nat → Option Nat}
    (hs : ∀ pos c e, ValidPos inp pos → step pos c = some e → ValidPos inp e ∧ Adv16 inp fwd pos e) :
    ∀ (l : List Nat) (pos e : Nat), ValidPos inp pos → stepSeq step l pos = some e →
      ValidPos inp e ∧ Adv16 inp fwd pos e := by
  intro l
  induction l with
  | nil => intro pos e hv h; simp only [stepSeq, Option.some.injEq] at h; subst h; exact ⟨hv, Adv16.refl _ _ _⟩
  | cons c l ih =>
    intro pos e hv h
    unfold stepSeq at h
    split at h
    · cases h
    · rename_i pos' heq
      have h1 := hs _ _ _ hv heq
      have h2 := ih _ _ h1.1 h
      exact ⟨h2.1, h1.2.trans h2.2⟩

/-! ## `Loop` -/

theorem loopIter16_fine {fwd : Bool} {body : St → List Out} (q : Quant) (g0 g1 : Nat)
    (hbody : ∀ s, Good16 inp s → Fine inp fwd s.pos (body s)) :
    ∀ k iter entry st, Good16 inp st → (q.min - iter) + mu16 inp fwd st.pos + 2 ≤ k →
      Fine inp fwd st.pos (loopIter16 body q g0 g1 k iter entry st) := by
  intro k
  induction k with
  | zero => intro _ _ _ _ h; omega
  | succ k ih =>
    intro iter entry st hg hk
    have taken : Fine inp fwd st.pos
        (bindOut (body (st.resetGroups g0 g1)) (loopIter16 body q g0 g1 k (iter + 1) st.pos)) := by
      have hb := hbody _ (hg.reset g0 g1)
      have hpos : (st.resetGroups g0 g1).pos = st.pos := rfl
      rw [hpos] at hb
      apply Fine.bind hb
      intro s hgs hadv
      by_cases hstuck : s.pos = st.pos ∧ iter + 1 > q.min
      · obtain ⟨k', rfl⟩ : ∃ x, k = x + 1 := ⟨k - 1, by omega⟩
        have : loopIter16 body q g0 g1 (k' + 1) (iter + 1) st.pos s = [] := by
          simp [loopIter16, hstuck.1, hstuck.2]
        rw [this]; exact Fine.nil _ _ _
      · apply ih (iter + 1) st.pos s hgs
        by_cases hp : s.pos = st.pos
        · have : ¬ (iter + 1 > q.min) := fun hh => hstuck ⟨hp, hh⟩
          rw [hp]; omega
        · rcases hadv with h | h
          · exact absurd h hp
          · omega
    rw [loopIter16]
    split
    · exact Fine.nil _ _ _
    · split
      · exact Fine.nil _ _ _
      · exact Fine.single hg (Adv16.refl _ _ _)
      · exact taken
      · split
        · exact taken.append (Fine.single hg (Adv16.refl _ _ _))
        · intro o ho
          rcases List.mem_cons.1 ho with rfl | ho
          · exact ⟨st, rfl, hg, Adv16.refl _ _ _⟩
          · exact taken o ho

/-! ## `Loop1CharBody` -/

theorem scmRun16_spec {fwd : Bool} (t : Nat → Bool) :
    ∀ (d a b : Nat), ValidPos inp a → scmRun (fun x => charStep16 inp fwd x t) d a = some b →
      ValidPos inp b ∧ Adv16 inp fwd a b := by
  intro d
  induction d with
  | zero => intro a b ha hs; simp only [scmRun, Option.some.injEq] at hs; subst hs; exact ⟨ha, Adv16.refl _ _ _⟩
  | succ d ih =>
    intro a b ha hs
    simp only [scmRun] at hs
    cases hs1 : charStep16 inp fwd a t with
    | none => rw [hs1] at hs; cases hs
    | some e =>
      rw [hs1] at hs
      have h1 := charStep16_spec ha hs1
      have h2 := ih e b h1.1 hs
      exact ⟨h2.1, Adv16.trans (Or.inr h1.2.1) h2.2⟩

theorem mu16_le_len' (fwd : Bool) {x : Nat} (hx : x ≤ inp.len) : mu16 inp fwd x ≤ inp.len := by
  unfold mu16; split <;> omega

/-- `run_scm_loop` from a valid position: no `rs_unreachable!`, valid positions only. -/
theorem loop1Scm16_fine {fwd : Bool} (t : Nat → Bool) (q : Quant) {st : St} (hg : Good16 inp st) :
    Fine inp fwd st.pos (loop1Scm16 inp t q fwd st) := by
  unfold loop1Scm16
  dsimp only
  by_cases hq : quantBad q = true
  · rw [if_pos hq]; exact Fine.nil _ _ _
  · rw [if_neg hq]
    cases hrun : scmRun (fun x => charStep16 inp fwd x t) q.min st.pos with
    | none => exact Fine.nil _ _ _
    | some mp =>
      dsimp only
      obtain ⟨hvmp, hadvmp⟩ := scmRun16_spec t q.min st.pos mp hg.1 hrun
      have hV : ∀ a b, ValidPos inp a → charStep16 inp fwd a t = some b → ValidPos inp b :=
        fun a b ha hs => (charStep16_spec ha hs).1
      have hrk : ∀ a b, ValidPos inp a → charStep16 inp fwd a t = some b → mu16 inp fwd b < mu16 inp fwd a :=
        fun a b ha hs => (charStep16_spec ha hs).2.1
      have hback : ∀ a b, ValidPos inp a → charStep16 inp fwd a t = some b → inp.nextPos (!fwd) b = some a :=
        fun a b ha hs => (charStep16_spec ha hs).2.2.1
      have hnx : ∀ a b, ValidPos inp a → charStep16 inp fwd a t = some b → inp.nextPos fwd a = some b :=
        fun a b ha hs => (charStep16_spec ha hs).2.2.2
      have hrkmp : mu16 inp fwd mp ≤ inp.len := mu16_le_len' fwd hvmp.1
      have hlast := scmMax_eq_last (step := fun x => charStep16 inp fwd x t) (inp.len + 1) (q.max.map (· - q.min)) mp
      have hlen := runTrace_length hV hrk (inp.len + 1 + 1) (q.max.map (· - q.min)) mp hvmp
      have htl := runTrace_tail_rk hV hrk (inp.len + 1 + 1) (q.max.map (· - q.min)) mp hvmp
      obtain ⟨t16, ht16⟩ := runTrace_head (step := fun x => charStep16 inp fwd x t) (inp.len + 1) (q.max.map (· - q.min)) mp
      -- every position of the run is valid and at or beyond the entry
      have hmem : ∀ x ∈ runTrace (fun x => charStep16 inp fwd x t) (inp.len + 1 + 1) (q.max.map (· - q.min)) mp,
          ValidPos inp x ∧ Adv16 inp fwd st.pos x := by
        intro x hx
        rw [ht16] at hx htl
        rcases List.mem_cons.1 hx with rfl | hx
        · exact ⟨hvmp, hadvmp⟩
        · have := htl x (by simpa using hx)
          exact ⟨this.2, hadvmp.trans (Or.inr this.1)⟩
      have hfine : ∀ l : List Nat, (∀ x ∈ l, x ∈ runTrace (fun x => charStep16 inp fwd x t) (inp.len + 1 + 1) (q.max.map (· - q.min)) mp) →
          Fine inp fwd st.pos (l.map (fun x => Out.ok (st.at x))) := by
        intro l hl o ho
        obtain ⟨x, hx, rfl⟩ := List.mem_map.1 ho
        have := hmem x (hl x hx)
        exact ⟨st.at x, rfl, ⟨this.1, hg.2⟩, this.2⟩
      cases hgr : q.greedy
      case true =>
        -- greedy
        simp only [if_true]
        have hne : ∀ x ∈ (runTrace (fun x => charStep16 inp fwd x t) (inp.len + 1 + 1) (q.max.map (· - q.min)) mp).tail,
            x ≠ mp := by
          intro x hx hc
          have := (htl x hx).1
          rw [hc] at this; omega
        have := scmWalk_back (back := inp.nextPos (!fwd)) hV hback st mp (inp.len + 1)
          (q.max.map (· - q.min)) mp
          (inp.len + 2 - (runTrace (fun x => charStep16 inp fwd x t) (inp.len + 1 + 1) (q.max.map (· - q.min)) mp).length)
          hvmp hne _ hlast
        rw [show inp.len + 2 - (runTrace (fun x => charStep16 inp fwd x t) (inp.len + 1 + 1) (q.max.map (· - q.min)) mp).length +
            (runTrace (fun x => charStep16 inp fwd x t) (inp.len + 1 + 1) (q.max.map (· - q.min)) mp).length = inp.len + 2 by omega] at this
        rw [this, scmWalk_stop]
        apply Fine.append
        · apply hfine
          intro x hx
          exact List.mem_of_mem_tail (List.mem_reverse.1 hx)
        · exact Fine.single (s := st.at mp) ⟨hvmp, hg.2⟩ hadvmp
      case false =>
        -- non-greedy
        simp only [Bool.false_eq_true, if_false]
        have := scmWalk_fwd (nx := inp.nextPos fwd) hV hrk hnx st (inp.len + 1)
          (q.max.map (· - q.min)) mp
          (inp.len + 2 - (runTrace (fun x => charStep16 inp fwd x t) (inp.len + 1 + 1) (q.max.map (· - q.min)) mp).length)
          hvmp _ hlast
        rw [show inp.len + 2 - (runTrace (fun x => charStep16 inp fwd x t) (inp.len + 1 + 1) (q.max.map (· - q.min)) mp).length +
            (runTrace (fun x => charStep16 inp fwd x t) (inp.len + 1 + 1) (q.max.map (· - q.min)) mp).length = inp.len + 2 by omega] at this
        rw [this]
        exact hfine _ (fun x hx => hx)

/-! ## Every node -/

mutual
theorem sem16_fine (hflag : inp.ucs2 = true ∨ inp.pairCheck = true) :
    ∀ (n : Node) (fwd : Bool) (st : St), noByteNodes n = true → Good16 inp st →
      Fine inp fwd st.pos (sem16 inp n fwd st)
  | .empty, fwd, st, _, hg => by simp only [sem16]; exact Fine.single hg (Adv16.refl _ _ _)
  | .goal, fwd, st, _, hg => by simp only [sem16]; exact Fine.single hg (Adv16.refl _ _ _)
  | .char c, fwd, st, _, hg => by simp only [sem16]; exact charStep16_fine hg _
  | .byteSeq bs, fwd, st, hn, _ => by simp [noByteNodes] at hn
  | .byteSet bs, fwd, st, hn, _ => by simp [noByteNodes] at hn
  | .charSet cs, fwd, st, _, hg => by simp only [sem16]; exact charStep16_fine hg _
  | .cat ns, fwd, st, hn, hg => by
    simp only [sem16]; simp only [noByteNodes] at hn; exact semCat16_fine hflag ns fwd st hn hg
  | .alt l r, fwd, st, hn, hg => by
    simp only [sem16]; simp only [noByteNodes, Bool.and_eq_true] at hn
    exact (sem16_fine hflag l fwd st hn.1 hg).append (sem16_fine hflag r fwd st hn.2 hg)
  | .matchAny, fwd, st, _, hg => by simp only [sem16]; exact charStep16_fine hg _
  | .matchAnyExceptLT, fwd, st, _, hg => by simp only [sem16]; exact charStep16_fine hg _
  | .anchor _ _, fwd, st, _, hg => by simp only [sem16]; exact Fine.guard hg _
  | .wordBoundary _ _, fwd, st, _, hg => by simp only [sem16]; exact Fine.guard hg _
  | .group id nm c, fwd, st, hn, hg => by
    simp only [noByteNodes] at hn
    simp only [sem16]
    intro o ho
    obtain ⟨o1, ho1, rfl⟩ := List.mem_map.1 ho
    cases fwd
    · obtain ⟨s, rfl, hgs, ha⟩ := sem16_fine hflag c false _ hn (hg.setEnd id) o1 ho1
      exact ⟨_, rfl, hgs.setStart id, ha⟩
    · obtain ⟨s, rfl, hgs, ha⟩ := sem16_fine hflag c true _ hn (hg.setStart id) o1 ho1
      exact ⟨_, rfl, hgs.setEnd id, ha⟩
  | .backRef g icase, fwd, st, _, hg => by
    simp only [sem16]
    split
    · exact Fine.nil _ _ _
    · split
      · exact Fine.nil _ _ _
      · exact Fine.optOut hg (fun e he => backRefStep16_spec hflag hg.1 he)
      · exact Fine.single hg (Adv16.refl _ _ _)
  | .bracket bc, fwd, st, _, hg => by simp only [sem16]; exact charStep16_fine hg _
  | .stringSet alts icase, fwd, st, _, hg => by
    simp only [sem16]
    intro o ho
    obtain ⟨a, _, hoa⟩ := List.mem_flatMap.1 ho
    exact Fine.optOut hg (fun e he => stepSeq16_spec (fun _ _ _ hv hs => cpStep16_spec hv hs) _ _ _ hg.1 he) o hoa
  | .look negate backwards sg eg c, fwd, st, hn, hg => by
    simp only [noByteNodes] at hn
    simp only [sem16]
    have hb := sem16_fine hflag c (!backwards) st hn hg
    split
    · split
      · exact Fine.single hg (Adv16.refl _ _ _)
      · exact Fine.nil _ _ _
    · rename_i s t heq
      obtain ⟨s', hs', hgs, _⟩ := hb (.ok s) (by rw [heq]; simp)
      cases hs'
      split
      · exact Fine.nil _ _ _
      · exact Fine.single (s := { pos := st.pos, caps := s.caps }) ⟨hg.1, hgs.2⟩ (Adv16.refl _ _ _)
    · rename_i t heq
      obtain ⟨s', hs', _, _⟩ := hb .panic (by rw [heq]; simp)
      cases hs'
    · rename_i t heq
      obtain ⟨s', hs', _, _⟩ := hb .budget (by rw [heq]; simp)
      cases hs'
  | .loop body q g0 g1, fwd, st, hn, hg => by
    simp only [noByteNodes] at hn
    simp only [sem16]
    exact loopIter16_fine q g0 g1 (fun s hs => sem16_fine hflag body fwd s hn hs) _ 0 0 st hg
      (by simp only [loopBudget16]; omega)
  | .loop1 body q, fwd, st, hn, hg => by
    simp only [noByteNodes] at hn
    simp only [sem16]
    cases hp : scmPred16 body with
    | none => rw [hp] at hn; simp at hn
    | some p => simp only []; exact loop1Scm16_fine p q hg
theorem semCat16_fine (hflag : inp.ucs2 = true ∨ inp.pairCheck = true) :
    ∀ (ns : List Node) (fwd : Bool) (st : St), noByteNodesList ns = true → Good16 inp st →
      Fine inp fwd st.pos (semCat16 inp ns fwd st)
  | [], fwd, st, _, hg => by simp only [semCat16]; exact Fine.single hg (Adv16.refl _ _ _)
  | n :: ns, fwd, st, hn, hg => by
    simp only [noByteNodesList, Bool.and_eq_true] at hn
    simp only [semCat16]
    exact Fine.bind (sem16_fine hflag n fwd st hn.1 hg) (fun s hs _ => semCat16_fine hflag ns fwd s hn.2 hs)
end

end

end Regress.IR
