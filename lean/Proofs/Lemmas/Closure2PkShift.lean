import RegressModel.VM.Search
/-!
# Closure 2, part 4a: the PikeVM's tick counters are only an offset

`VM.pkAttempt` (one `try_at_pos` of the running `PikeVMExecutor`) runs `Pk.runStates` with the global
counters: budget `limit`, `acc.steps` ticks already on the clock.  `runStates_shift`: such a run does
what the run started at `steps` with budget `limit` does, `d` ticks later (the peak is not compared).
The analogue for the backtracker is `Closure.Shift.run_shift`.
-/
namespace Regress.Closure2.PkShift
open Regress.VM Regress.VM.Pk

/-- `o'` is `o` with `d` more ticks on the clock (the peak is not compared). -/
def Shifted (d : Nat) : Outcome → Outcome → Prop
  | .matched e st s _, .matched e' st' s' _ => e' = e ∧ st' = st ∧ s' = s + d
  | .failed s _, .failed s' _ => s' = s + d
  | .outOfFuel, .outOfFuel => True
  | .error a, .error b => b = a
  | _, _ => False

/-- The same for the result of one `try_match_state`. -/
def SMShift (d : Nat) : SM → SM → Prop
  | .fail s st _, .fail s' st' _ => s' = s ∧ st' = st + d
  | .cont s st _, .cont s' st' _ => s' = s ∧ st' = st + d
  | .split s n st _, .split s' n' st' _ => s' = s ∧ n' = n ∧ st' = st + d
  | .complete s st _, .complete s' st' _ => s' = s ∧ st' = st + d
  | .outOfFuel, .outOfFuel => True
  | .err a, .err b => b = a
  | _, _ => False

def RunnerShift (d : Nat) (look look' : Runner) : Prop :=
  ∀ s0 dir steps peak peak', Shifted d (look s0 dir steps peak) (look' s0 dir (steps + d) peak')

variable {d : Nat}

theorem nextOrFail_shift (b : Bool) (s : State) (steps peak peak' : Nat) :
    SMShift d (nextOrFail b s steps peak) (nextOrFail b s (steps + d) peak') := by
  unfold nextOrFail; split <;> simp [SMShift]

theorem nextElemArm_shift (inp : Input) (fwd : Bool) (s : State) (f : Nat → Except String Bool)
    (site : String) (steps peak peak' : Nat) :
    SMShift d (nextElemArm inp fwd s f site steps peak) (nextElemArm inp fwd s f site (steps + d) peak') := by
  unfold nextElemArm
  split
  · simp [SMShift]
  · simp [SMShift]
  · split
    · simp [SMShift]
    · exact nextOrFail_shift _ _ _ _ _

theorem scmArm_shift (r : Except Unit (Option Nat)) (s : State) (site : String) (steps peak peak' : Nat) :
    SMShift d (scmArm r s site steps peak) (scmArm r s site (steps + d) peak') := by
  unfold scmArm; split <;> simp [SMShift]

theorem lineArm_shift (r : Except Unit (Option Nat)) (m : Bool) (s : State) (site : String)
    (steps peak peak' : Nat) :
    SMShift d (lineArm r m s site steps peak) (lineArm r m s site (steps + d) peak') := by
  unfold lineArm
  split
  · simp [SMShift]
  · exact nextOrFail_shift _ _ _ _ _
  · exact nextOrFail_shift _ _ _ _ _

theorem wordBoundaryArm_shift (inp : Input) (f : Nat → Bool) (invert : Bool) (s : State)
    (steps peak peak' : Nat) :
    SMShift d (wordBoundaryArm inp f invert s steps peak) (wordBoundaryArm inp f invert s (steps + d) peak') := by
  unfold wordBoundaryArm
  split
  · simp [SMShift]
  · split
    · simp [SMShift]
    · exact nextOrFail_shift _ _ _ _ _

theorem groupArm_shift (g : Nat) (upd : Bt.GroupData → Bt.GroupData) (s : State) (site : String)
    (steps peak peak' : Nat) :
    SMShift d (groupArm g upd s site steps peak) (groupArm g upd s site (steps + d) peak') := by
  unfold groupArm
  split
  · simp [SMShift]
  · exact nextOrFail_shift _ _ _ _ _

theorem runLoop_shift (s : State) (id min : Nat) (max : Option Nat) (greedy : Bool) (exit : Nat)
    (isInit : Bool) (steps peak peak' : Nat) :
    SMShift d (runLoop s id min max greedy exit isInit steps peak)
      (runLoop s id min max greedy exit isInit (steps + d) peak') := by
  unfold runLoop
  split
  · simp [SMShift]
  · dsimp only
    repeat' split
    all_goals simp [SMShift]

theorem lookArm_shift {look look' : Runner} (hle : RunnerShift d look look') (dirFwd negate : Bool)
    (k : Nat) (s : State) (steps peak peak' : Nat) :
    SMShift d (lookArm look dirFwd negate k s steps peak) (lookArm look' dirFwd negate k s (steps + d) peak') := by
  unfold lookArm
  have h := hle { s with ip := s.ip + 1 } dirFwd steps peak peak'
  dsimp only
  generalize look { s with ip := s.ip + 1 } dirFwd steps peak = o at h
  generalize look' { s with ip := s.ip + 1 } dirFwd (steps + d) peak' = o' at h
  cases o <;> cases o' <;> simp only [Shifted] at h <;> try exact h.elim
  · obtain ⟨rfl, rfl, rfl⟩ := h
    dsimp only
    split <;> simp [SMShift]
  · subst h
    dsimp only
    split <;> simp [SMShift]
  · simp [SMShift]
  · subst h; simp [SMShift]

theorem tryMatchState_shift (prog : Prog) (inp : Input) {look look' : Runner}
    (hle : RunnerShift d look look') :
    ∀ (dd : Nat) (s : State) (fwd : Bool) (steps peak peak' : Nat),
      SMShift d (tryMatchState prog inp look dd s fwd steps peak)
        (tryMatchState prog inp look' dd s fwd (steps + d) peak') := by
  intro dd
  induction dd with
  | zero => intro s fwd steps peak peak'; simp [tryMatchState, SMShift]
  | succ dd ih =>
    intro s fwd steps peak peak'
    unfold tryMatchState
    split
    · simp [SMShift]
    · rename_i insn hin
      cases insn with
      | goal => simp [SMShift]
      | justFail => simp [SMShift]
      | char c => exact nextElemArm_shift _ _ _ _ _ _ _ _
      | charSet v => exact nextElemArm_shift _ _ _ _ _ _ _ _
      | byteSeq v => exact scmArm_shift _ _ _ _ _ _
      | startOfLine m => exact lineArm_shift _ _ _ _ _ _ _
      | endOfLine m => exact lineArm_shift _ _ _ _ _ _ _
      | matchAny => exact nextElemArm_shift _ _ _ _ _ _ _ _
      | matchAnyExceptLineTerminator => exact nextElemArm_shift _ _ _ _ _ _ _ _
      | jump t => simp [SMShift]
      | alt t => simp [SMShift]
      | beginCaptureGroup g => exact groupArm_shift _ _ _ _ _ _ _
      | endCaptureGroup g => exact groupArm_shift _ _ _ _ _ _ _
      | resetCaptureGroup g => exact groupArm_shift _ _ _ _ _ _ _
      | backRef g icase =>
        dsimp only
        split
        · simp [SMShift]
        · split
          · split
            · exact scmArm_shift _ _ _ _ _ _
            · exact scmArm_shift _ _ _ _ _ _
          · exact nextOrFail_shift _ _ _ _ _
      | lookahead n sg eg k => exact lookArm_shift hle _ _ _ _ _ _ _
      | lookbehind n sg eg k => exact lookArm_shift hle _ _ _ _ _ _ _
      | enterLoop id mn mx g ex => exact runLoop_shift _ _ _ _ _ _ _ _ _ _
      | loopAgain b =>
        dsimp only
        split
        · simp [SMShift]
        · exact runLoop_shift _ _ _ _ _ _ _ _ _ _
        · simp [SMShift]
      | loop1 mn mx g =>
        dsimp only
        by_cases hlt : Bt.ltMax s.loop1Iters mx = true
        · simp only [hlt, if_true]
          have h := ih { s with ip := s.ip + 1 } fwd steps peak peak'
          generalize tryMatchState prog inp look dd { s with ip := s.ip + 1 } fwd steps peak = r at h
          generalize tryMatchState prog inp look' dd { s with ip := s.ip + 1 } fwd (steps + d) peak' = r' at h
          cases r <;> cases r' <;> simp only [SMShift] at h <;> try exact h.elim
          · obtain ⟨rfl, rfl⟩ := h
            dsimp only
            split
            · simp [SMShift]
            · simp [SMShift]
            · rename_i h1 _; cases h1
            · rename_i h1 _; cases h1
          · obtain ⟨rfl, rfl⟩ := h
            dsimp only
            split
            · simp [SMShift]
            · simp [SMShift]
            · simp [SMShift]
            · split <;> simp [SMShift]
          · simp [SMShift]
          · simp [SMShift]
          · simp [SMShift]
          · subst h; simp [SMShift]
        · simp only [hlt, Bool.false_eq_true, if_false]
          split
          · simp [SMShift]
          · simp [SMShift]
          · simp [SMShift]
          · split <;> simp [SMShift]
      | bracket idx => exact nextElemArm_shift _ _ _ _ _ _ _ _
      | asciiBracket bm => exact scmArm_shift _ _ _ _ _ _
      | byteSet bs => exact scmArm_shift _ _ _ _ _ _
      | wordBoundary inv => exact wordBoundaryArm_shift _ _ _ _ _ _ _
      | wordBoundaryUnicodeICase inv => exact wordBoundaryArm_shift _ _ _ _ _ _ _

/-- **The tick counters are only an offset.** -/
theorem runStates_shift (prog : Prog) (inp : Input) (limit d : Nat) :
    ∀ (sf : Nat) (states : Array State) (fwd : Bool) (steps peak peak' : Nat),
      Shifted d (runStates prog inp limit sf states fwd steps peak)
        (runStates prog inp (limit + d) sf states fwd (steps + d) peak') := by
  intro sf
  induction sf with
  | zero => intro states fwd steps peak peak'; simp [runStates, Shifted]
  | succ sf ih =>
    intro states fwd steps peak peak'
    simp only [runStates]
    cases hb : states.back? with
    | none => simp [Shifted]
    | some s =>
      dsimp only
      by_cases hlim : steps ≥ limit
      · have : steps + d ≥ limit + d := by omega
        simp [hlim, this, Shifted]
      · have hlim' : ¬ steps + d ≥ limit + d := by omega
        simp only [hlim, hlim', if_false]
        have hst : steps + d + 1 = steps + 1 + d := by omega
        rw [hst]
        have hle : RunnerShift d
            (fun s0 dirFwd steps peak => runStates prog inp limit sf #[s0] dirFwd steps peak)
            (fun s0 dirFwd steps peak => runStates prog inp (limit + d) sf #[s0] dirFwd steps peak) :=
          fun s0 dir st pk pk' => ih _ _ _ _ _
        have h := tryMatchState_shift prog inp hle (prog.insns.size + 1) s fwd (steps + 1)
          (if peak < states.size then states.size else peak)
          (if peak' < states.size then states.size else peak')
        generalize tryMatchState prog inp _ (prog.insns.size + 1) s fwd (steps + 1)
          (if peak < states.size then states.size else peak) = r at h
        generalize tryMatchState prog inp _ (prog.insns.size + 1) s fwd (steps + 1 + d)
          (if peak' < states.size then states.size else peak') = r' at h
        cases r <;> cases r' <;> simp only [SMShift] at h <;> try exact h.elim
        · obtain ⟨rfl, rfl⟩ := h; exact ih _ _ _ _ _
        · obtain ⟨rfl, rfl⟩ := h; exact ih _ _ _ _ _
        · obtain ⟨rfl, rfl, rfl⟩ := h; exact ih _ _ _ _ _
        · obtain ⟨rfl, rfl⟩ := h; simp [Shifted]
        · simp [Shifted]
        · subst h; simp [Shifted]

/-- One attempt of the running PikeVM search (global counters) is the attempt with the remaining
budget, `acc.steps` ticks later. -/
theorem pkAttempt_shift (prog : Prog) (inp : Input) (L : Nat) (init : State) (acc : Acc) (h : acc.steps ≤ L) :
    Shifted acc.steps (Pk.tryAtPos prog inp (L - acc.steps) init true) (pkAttempt prog inp L init acc) := by
  have := runStates_shift prog inp (L - acc.steps) acc.steps (L - acc.steps + 1) #[init] true 0 0 acc.peak
  rwa [Nat.sub_add_cancel h, Nat.zero_add] at this

end Regress.Closure2.PkShift
