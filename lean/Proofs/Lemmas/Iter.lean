import Proofs.Lemmas.IterSpec
/-!
# Helper lemmas for C09 (the match iterator)
-/
namespace Regress.C09
open Regress.Api

variable {env : SearchEnv}

/-! ## One iteration of the prefix-search loop -/

/-- One iteration of the `loop` of `next_match_with_prefix_search`, with continuation `k`. -/
def prefixStep (env : SearchEnv) (k : Nat → Option (MatchR × Option Nat)) (pos : Nat) :
    Option (MatchR × Option Nat) :=
  match env.findBytes pos with
  | none => none
  | some pos =>
    match env.attempt pos with
    | some (e, caps) => some (env.successfulMatch pos e caps, env.nextStart pos e)
    | none =>
      match env.nextRightPos pos with
      | none => none
      | some pos' => k pos'

theorem prefixFuel_succ (f pos : Nat) :
    nextMatchPrefixFuel env (f + 1) pos = prefixStep env (nextMatchPrefixFuel env f) pos := rfl

theorem prefixStep_congr (h : EnvOK env) {k1 k2 : Nat → Option (MatchR × Option Nat)} {pos : Nat}
    (hp : pos ≤ env.len) (hk : ∀ q, pos < q → q ≤ env.len → k1 q = k2 q) :
    prefixStep env k1 pos = prefixStep env k2 pos := by
  unfold prefixStep
  split
  · rfl
  · next q hq =>
    have := h.find_range _ _ hp hq
    split
    · rfl
    · split
      · rfl
      · next q' hq' =>
        have := h.next_gt _ _ (by omega) hq'
        exact hk _ (by omega) (by omega)

/-- The fuel of `nextMatchPrefixFuel` suffices as soon as it is `≥ len + 1 - pos`. -/
theorem prefixFuel_stable (h : EnvOK env) : ∀ fuel pos, pos ≤ env.len → env.len + 1 - pos ≤ fuel →
    nextMatchPrefixFuel env fuel pos = nextMatchPrefixFuel env (fuel + 1) pos := by
  intro fuel
  induction fuel with
  | zero => intro pos hp hf; omega
  | succ f ih =>
    intro pos hp hf
    rw [prefixFuel_succ, prefixFuel_succ]
    exact prefixStep_congr h hp (fun q h1 h2 => ih q h2 (by omega))

theorem prefixFuel_stable_le (h : EnvOK env) {pos : Nat} (hp : pos ≤ env.len) :
    ∀ f1 f2, env.len + 1 - pos ≤ f1 → f1 ≤ f2 →
    nextMatchPrefixFuel env f1 pos = nextMatchPrefixFuel env f2 pos := by
  intro f1 f2 h1 h2
  induction f2 with
  | zero => have : f1 = 0 := by omega
            subst this; rfl
  | succ n ih =>
    by_cases hn : f1 = n + 1
    · subst hn; rfl
    · rw [ih (by omega)]; exact prefixFuel_stable h n pos hp (by omega)

/-- The fuel-free loop equation of `next_match_with_prefix_search`. -/
theorem nextMatchPrefix_eq (h : EnvOK env) {pos : Nat} (hp : pos ≤ env.len) :
    nextMatchPrefix env pos = prefixStep env (nextMatchPrefix env) pos := by
  unfold nextMatchPrefix
  rw [prefixFuel_succ]
  exact prefixStep_congr h hp (fun q h1 h2 => prefixFuel_stable h _ q h2 (by omega))

/-- The standard PikeVM loop is the prefix-search loop with the trivial prefix search. -/
theorem pikeStd_eq_prefix (f pos : Nat) :
    pikeNextMatchStdFuel env f pos = nextMatchPrefixFuel { env with findBytes := some } f pos := by
  induction f generalizing pos with
  | zero => rfl
  | succ f ih =>
    rw [prefixFuel_succ]
    unfold pikeNextMatchStdFuel prefixStep
    simp only
    cases he : env.attempt pos with
    | some x => rfl
    | none =>
      cases hq : env.nextRightPos pos with
      | none => rfl
      | some q => exact ih q

theorem _root_.Regress.Api.EnvOK.idFind (h : EnvOK env) : EnvOK { env with findBytes := some } where
  attempt_range := h.attempt_range
  next_gt := h.next_gt
  find_range := by intro p q hp hq; simp at hq; omega

/-! ## What a successful `next_match` returns -/

/-- Facts about a successful `next_match(pos, &mut next_start)` returning `m` with `*next_start = ns`. -/
structure StepInv (env : SearchEnv) (pos : Nat) (m : MatchR) (ns : Option Nat) : Prop where
  lo : pos ≤ m.range.1
  wf : m.range.1 ≤ m.range.2
  hi : m.range.2 ≤ env.len
  ns_eq : ns = env.nextStart m.range.1 m.range.2
  att : env.attempt m.range.1 = some (m.range.2, m.captures)
  names_eq : m.names = env.names

theorem prefixFuel_inv (h : EnvOK env) : ∀ fuel pos m ns, pos ≤ env.len →
    nextMatchPrefixFuel env fuel pos = some (m, ns) → StepInv env pos m ns := by
  intro fuel
  induction fuel with
  | zero => intro pos m ns _ hm; simp [nextMatchPrefixFuel] at hm
  | succ f ih =>
    intro pos m ns hp hm
    rw [prefixFuel_succ] at hm
    unfold prefixStep at hm
    split at hm
    · simp at hm
    · next q hq =>
      have hq' := h.find_range _ _ hp hq
      split at hm
      · next e caps he =>
        have := h.attempt_range _ _ _ (by omega) he
        simp only [Option.some.injEq, Prod.mk.injEq] at hm
        obtain ⟨rfl, rfl⟩ := hm
        exact ⟨by simp [SearchEnv.successfulMatch]; omega, by simp [SearchEnv.successfulMatch]; omega,
          by simp [SearchEnv.successfulMatch]; omega, rfl, by simpa [SearchEnv.successfulMatch] using he, rfl⟩
      · split at hm
        · simp at hm
        · next q' hq2 =>
          have := h.next_gt _ _ (by omega) hq2
          have r := ih q' m ns (by omega) hm
          exact ⟨by have := r.lo; omega, r.wf, r.hi, r.ns_eq, r.att, r.names_eq⟩

theorem anchored_inv (h : EnvOK env) {pos : Nat} {m : MatchR} {ns : Option Nat} (hp : pos ≤ env.len)
    (hm : (match env.attempt pos with
      | some (e, caps) => some (env.successfulMatch pos e caps, env.nextStart pos e)
      | none => none) = some (m, ns)) : StepInv env pos m ns := by
  split at hm
  · next e caps he =>
    have := h.attempt_range _ _ _ hp he
    simp only [Option.some.injEq, Prod.mk.injEq] at hm
    obtain ⟨rfl, rfl⟩ := hm
    exact ⟨by simp [SearchEnv.successfulMatch], by simp [SearchEnv.successfulMatch]; omega,
      by simp [SearchEnv.successfulMatch]; omega, rfl, by simpa [SearchEnv.successfulMatch] using he, rfl⟩
  · simp at hm

/-- Every `next_match` (all executor kinds) satisfies `StepInv`. -/
theorem nextMatch_inv (h : EnvOK env) (k : Kind) {pos : Nat} {m : MatchR} {ns : Option Nat}
    (hp : pos ≤ env.len) (hm : nextMatch env k pos = some (m, ns)) : StepInv env pos m ns := by
  cases k with
  | btPrefix => exact prefixFuel_inv h _ _ _ _ hp hm
  | btAnchored => exact anchored_inv h hp hm
  | pike a =>
    cases a with
    | true => exact anchored_inv h hp hm
    | false =>
      simp only [nextMatch, pikeNextMatch, Bool.false_eq_true, if_false] at hm
      rw [pikeStd_eq_prefix] at hm
      have r := prefixFuel_inv h.idFind _ _ _ _ hp hm
      exact ⟨r.lo, r.wf, r.hi, r.ns_eq, r.att, r.names_eq⟩

theorem nextStart_inv (h : EnvOK env) {s e c : Nat} (hse : s ≤ e) (he : e ≤ env.len)
    (hc : env.nextStart s e = some c) : c ≤ env.len ∧ e ≤ c ∧ s < c ∧ (s = e → e < c) := by
  unfold SearchEnv.nextStart at hc
  split at hc
  · simp at hc; omega
  · have := h.next_gt _ _ he hc; omega

/-! ## `Matches.collect` -/

theorem collectFuel_none (k : Kind) (fuel : Nat) : Matches.collectFuel env k fuel ⟨none⟩ = [] := by
  cases fuel <;> simp [Matches.collectFuel, Matches.next]

theorem collectFuel_succ_some (k : Kind) (fuel c : Nat) :
    Matches.collectFuel env k (fuel + 1) ⟨some c⟩ =
      match nextMatch env k c with
      | none => []
      | some (m, ns) => m :: Matches.collectFuel env k fuel ⟨ns⟩ := by
  simp only [Matches.collectFuel, Matches.next]
  cases nextMatch env k c with
  | none => rfl
  | some x => rfl

theorem ChainFrom_mono {len lb lb' : Nat} {ms : List MatchR} (hl : lb' ≤ lb)
    (hc : ChainFrom len lb ms) : ChainFrom len lb' ms := by
  cases ms with
  | nil => trivial
  | cons m ms => unfold ChainFrom at *; exact ⟨by omega, hc.2.1, hc.2.2.1, hc.2.2.2⟩

theorem collectFuel_chain (h : EnvOK env) (k : Kind) : ∀ fuel c, c ≤ env.len →
    ChainFrom env.len c (Matches.collectFuel env k fuel ⟨some c⟩) := by
  intro fuel
  induction fuel with
  | zero => intro c _; simp [Matches.collectFuel, ChainFrom]
  | succ f ih =>
    intro c hc
    rw [collectFuel_succ_some]
    split
    · trivial
    · next m ns hm =>
      have r := nextMatch_inv h k hc hm
      unfold ChainFrom
      refine ⟨r.lo, r.wf, r.hi, ?_⟩
      cases hns : ns with
      | none => rw [collectFuel_none]; trivial
      | some c' =>
        have := nextStart_inv h r.wf r.hi (by rw [← r.ns_eq, hns])
        refine ChainFrom_mono ?_ (ih c' this.1)
        split <;> omega

theorem ChainFrom_length {len : Nat} : ∀ (ms : List MatchR) (lb : Nat), ChainFrom len lb ms →
    ms.length ≤ len + 1 - lb := by
  intro ms
  induction ms with
  | nil => intro lb _; simp
  | cons m ms ih =>
    intro lb hc
    unfold ChainFrom at hc
    have := ih _ hc.2.2.2
    simp only [List.length_cons]
    split at this <;> omega

theorem ChainFrom_consec {len : Nat} : ∀ (ms : List MatchR) (lb : Nat), ChainFrom len lb ms →
    Consec Succeeds ms := by
  intro ms
  induction ms with
  | nil => intro _ _; trivial
  | cons a l ih =>
    intro lb hc
    cases l with
    | nil => trivial
    | cons b l =>
      unfold ChainFrom at hc
      refine ⟨?_, ih _ hc.2.2.2⟩
      have hb := hc.2.2.2
      unfold ChainFrom at hb
      unfold Succeeds
      have := hb.1
      split at this <;> omega

theorem ChainFrom_bounds {len : Nat} : ∀ (ms : List MatchR) (lb : Nat), ChainFrom len lb ms →
    ∀ m ∈ ms, lb ≤ m.range.1 ∧ m.range.1 ≤ m.range.2 ∧ m.range.2 ≤ len := by
  intro ms
  induction ms with
  | nil => intro _ _ m hm; simp at hm
  | cons a l ih =>
    intro lb hc m hm
    unfold ChainFrom at hc
    rcases List.mem_cons.1 hm with rfl | hm
    · exact ⟨hc.1, hc.2.1, hc.2.2.1⟩
    · have := ih _ hc.2.2.2 m hm
      refine ⟨?_, this.2⟩
      have h1 := this.1
      split at h1 <;> omega

theorem collectFuel_att (h : EnvOK env) (k : Kind) : ∀ fuel c, c ≤ env.len →
    ∀ m ∈ Matches.collectFuel env k fuel ⟨some c⟩,
      env.attempt m.range.1 = some (m.range.2, m.captures) ∧ m.names = env.names := by
  intro fuel
  induction fuel with
  | zero => intro c _ m hm; simp [Matches.collectFuel] at hm
  | succ f ih =>
    intro c hc m hm
    rw [collectFuel_succ_some] at hm
    split at hm
    · simp at hm
    · next m' ns hm' =>
      have r := nextMatch_inv h k hc hm'
      rcases List.mem_cons.1 hm with rfl | hm
      · exact ⟨r.att, r.names_eq⟩
      · cases hns : ns with
        | none => rw [hns, collectFuel_none] at hm; simp at hm
        | some c' =>
          have := nextStart_inv h r.wf r.hi (by rw [← r.ns_eq, hns])
          rw [hns] at hm
          exact ih c' this.1 m hm

/-- The fuel of `collectFuel` suffices as soon as it is `≥ len + 2 - c`. -/
theorem collectFuel_stable (h : EnvOK env) (k : Kind) : ∀ fuel c, c ≤ env.len →
    env.len + 2 - c ≤ fuel →
    Matches.collectFuel env k fuel ⟨some c⟩ = Matches.collectFuel env k (fuel + 1) ⟨some c⟩ := by
  intro fuel
  induction fuel with
  | zero => intro c hc hf; omega
  | succ f ih =>
    intro c hc hf
    rw [collectFuel_succ_some, collectFuel_succ_some]
    split
    · rfl
    · next m ns hm =>
      have r := nextMatch_inv h k hc hm
      cases hns : ns with
      | none => simp [collectFuel_none]
      | some c' =>
        have := nextStart_inv h r.wf r.hi (by rw [← r.ns_eq, hns])
        have hlo := r.lo
        rw [ih c' this.1 (by omega)]

theorem collectFuel_stable_le (h : EnvOK env) (k : Kind) {c : Nat} (hc : c ≤ env.len) :
    ∀ f1 f2, env.len + 2 - c ≤ f1 → f1 ≤ f2 →
    Matches.collectFuel env k f1 ⟨some c⟩ = Matches.collectFuel env k f2 ⟨some c⟩ := by
  intro f1 f2 h1 h2
  induction f2 with
  | zero => have : f1 = 0 := by omega
            subst this; rfl
  | succ n ih =>
    by_cases hn : f1 = n + 1
    · subst hn; rfl
    · rw [ih (by omega)]; exact collectFuel_stable h k n c hc (by omega)

/-- The fuel-free equation of `collect`. -/
theorem collect_some_eq (h : EnvOK env) (k : Kind) {c : Nat} (hc : c ≤ env.len) :
    Matches.collect env k ⟨some c⟩ =
      match nextMatch env k c with
      | none => []
      | some (m, ns) => m :: Matches.collect env k ⟨ns⟩ := by
  unfold Matches.collect
  rw [collectFuel_succ_some]
  split
  · rfl
  · next m ns hm =>
    have r := nextMatch_inv h k hc hm
    cases hns : ns with
    | none => simp [collectFuel_none]
    | some c' =>
      have := nextStart_inv h r.wf r.hi (by rw [← r.ns_eq, hns])
      have hlo := r.lo
      rw [collectFuel_stable h k _ c' this.1 (by omega)]

/-! ## `Reach`, `orbit`, `first` -/

theorem Reach.le (h : EnvOK env) {p q : Nat} (hr : Reach env p q) (hp : p ≤ env.len) :
    p ≤ q ∧ q ≤ env.len := by
  induction hr with
  | refl p => omega
  | step hs _ ih => have := h.next_gt _ _ hp hs; have := ih (by omega); omega

theorem Reach.cases_head {p r : Nat} (hr : Reach env p r) :
    r = p ∨ ∃ q, env.nextRightPos p = some q ∧ Reach env q r := by
  cases hr with
  | refl => exact Or.inl rfl
  | step hs hr => exact Or.inr ⟨_, hs, hr⟩

theorem Reach.trans {p q r : Nat} (h1 : Reach env p q) (h2 : Reach env q r) : Reach env p r := by
  induction h1 with
  | refl => exact h2
  | step hs _ ih => exact Reach.step hs (ih h2)

theorem orbitFuel_succ (f p : Nat) :
    orbitFuel env (f + 1) p =
      p :: (match env.nextRightPos p with
            | none => []
            | some q => orbitFuel env f q) := rfl

theorem orbitFuel_stable (h : EnvOK env) : ∀ f p, p ≤ env.len → env.len + 1 - p ≤ f →
    orbitFuel env f p = orbitFuel env (f + 1) p := by
  intro f
  induction f with
  | zero => intro p hp hf; omega
  | succ f ih =>
    intro p hp hf
    rw [orbitFuel_succ, orbitFuel_succ]
    split
    · rfl
    · next q hq =>
      have := h.next_gt _ _ hp hq
      rw [ih q (by omega) (by omega)]

theorem orbit_eq (h : EnvOK env) {p : Nat} (hp : p ≤ env.len) :
    orbit env p =
      p :: (match env.nextRightPos p with
            | none => []
            | some q => orbit env q) := by
  unfold orbit
  rw [orbitFuel_succ]
  split
  · rfl
  · next q hq =>
    have := h.next_gt _ _ hp hq
    rw [orbitFuel_stable h _ q (by omega) (by omega)]

/-- The loop equation of `first`. -/
theorem first_eq (h : EnvOK env) {c : Nat} (hc : c ≤ env.len) :
    first env c =
      match env.attempt c with
      | some (e, caps) => some (c, e, caps)
      | none =>
        match env.nextRightPos c with
        | none => none
        | some q => first env q := by
  unfold first
  rw [orbit_eq h hc]
  simp only [List.findSome?_cons]
  cases he : env.attempt c with
  | some x => rfl
  | none =>
    simp only [Option.map_none]
    cases hq : env.nextRightPos c with
    | none => rfl
    | some q => rfl

theorem mem_orbit_iff (h : EnvOK env) : ∀ n p, env.len - p ≤ n → p ≤ env.len →
    ∀ r, r ∈ orbit env p ↔ Reach env p r := by
  intro n
  induction n with
  | zero =>
    intro p hn hp r
    rw [orbit_eq h hp]
    have hnone : env.nextRightPos p = none := by
      cases hq : env.nextRightPos p with
      | none => rfl
      | some q => have := h.next_gt _ _ hp hq; omega
    simp only [hnone, List.mem_singleton]
    constructor
    · rintro rfl; exact Reach.refl _
    · intro hr
      rcases hr.cases_head with h1 | ⟨q, hq, _⟩
      · exact h1
      · simp [hnone] at hq
  | succ n ih =>
    intro p hn hp r
    rw [orbit_eq h hp]
    cases hq : env.nextRightPos p with
    | none =>
      simp only [List.mem_singleton]
      constructor
      · rintro rfl; exact Reach.refl _
      · intro hr
        rcases hr.cases_head with h1 | ⟨q, hq', _⟩
        · exact h1
        · simp [hq] at hq'
    | some q =>
      have hq2 := h.next_gt _ _ hp hq
      simp only [List.mem_cons]
      rw [ih q (by omega) (by omega) r]
      constructor
      · rintro (rfl | hr)
        · exact Reach.refl _
        · exact Reach.step hq hr
      · intro hr
        rcases hr.cases_head with h1 | ⟨q', hq', hr'⟩
        · exact Or.inl h1
        · rw [hq] at hq'; cases hq'; exact Or.inr hr'

theorem first_skip (h : EnvOK env) {c q : Nat} (hr : Reach env c q) (hc : c ≤ env.len)
    (hskip : ∀ r, Reach env c r → r < q → env.attempt r = none) : first env c = first env q := by
  induction hr with
  | refl => rfl
  | @step p p1 q hs hr ih =>
    have h1 := h.next_gt _ _ hc hs
    have h2 := hr.le h h1.2
    rw [first_eq h hc, hskip p (Reach.refl _) (by omega), hs]
    exact ih h1.2 (fun r hr' hlt => hskip r (Reach.step hs hr') hlt)

theorem first_some_iff (h : EnvOK env) : ∀ n c, env.len - c ≤ n → c ≤ env.len →
    ∀ s e caps, first env c = some (s, e, caps) ↔
      (Reach env c s ∧ env.attempt s = some (e, caps) ∧
        ∀ r, Reach env c r → r < s → env.attempt r = none) := by
  intro n
  induction n with
  | zero =>
    intro c hn hc s e caps
    have hnone : env.nextRightPos c = none := by
      cases hq : env.nextRightPos c with
      | none => rfl
      | some q => have := h.next_gt _ _ hc hq; omega
    have hreach : ∀ r, Reach env c r → r = c := by
      intro r hr
      rcases hr.cases_head with h1 | ⟨q, hq, _⟩
      · exact h1
      · simp [hnone] at hq
    rw [first_eq h hc]
    constructor
    · intro hf
      split at hf
      · next e' caps' he =>
        simp only [Option.some.injEq, Prod.mk.injEq] at hf
        obtain ⟨rfl, rfl, rfl⟩ := hf
        exact ⟨Reach.refl _, he, fun r hr hlt => by have := hreach r hr; omega⟩
      · simp [hnone] at hf
    · rintro ⟨hr, he, _⟩
      have := hreach s hr; subst this
      simp [he]
  | succ n ih =>
    intro c hn hc s e caps
    rw [first_eq h hc]
    constructor
    · intro hf
      split at hf
      · next e' caps' he =>
        simp only [Option.some.injEq, Prod.mk.injEq] at hf
        obtain ⟨rfl, rfl, rfl⟩ := hf
        exact ⟨Reach.refl _, he, fun r hr hlt => by have := hr.le h hc; omega⟩
      · next he =>
        split at hf
        · simp at hf
        · next q hq =>
          have hq2 := h.next_gt _ _ hc hq
          obtain ⟨h1, h2, h3⟩ := (ih q (by omega) hq2.2 s e caps).1 hf
          refine ⟨Reach.step hq h1, h2, ?_⟩
          intro r hr hlt
          rcases hr.cases_head with rfl | ⟨q', hq', hr'⟩
          · exact he
          · rw [hq] at hq'; cases hq'; exact h3 r hr' hlt
    · rintro ⟨hr, he, hmin⟩
      rcases hr.cases_head with rfl | ⟨q, hq, hr'⟩
      · simp [he]
      · have hq2 := h.next_gt _ _ hc hq
        have hs := hr'.le h hq2.2
        rw [hmin c (Reach.refl _) (by omega), hq]
        exact (ih q (by omega) hq2.2 s e caps).2
          ⟨hr', he, fun r hr'' hlt => hmin r (Reach.step hq hr'') hlt⟩

theorem first_none_iff (h : EnvOK env) : ∀ n c, env.len - c ≤ n → c ≤ env.len →
    (first env c = none ↔ ∀ r, Reach env c r → env.attempt r = none) := by
  intro n
  induction n with
  | zero =>
    intro c hn hc
    have hnone : env.nextRightPos c = none := by
      cases hq : env.nextRightPos c with
      | none => rfl
      | some q => have := h.next_gt _ _ hc hq; omega
    rw [first_eq h hc]
    constructor
    · intro hf r hr
      rcases hr.cases_head with rfl | ⟨q, hq, _⟩
      · split at hf
        · simp at hf
        · assumption
      · simp [hnone] at hq
    · intro hall
      rw [hall c (Reach.refl _), hnone]
  | succ n ih =>
    intro c hn hc
    rw [first_eq h hc]
    constructor
    · intro hf r hr
      split at hf
      · simp at hf
      · next he =>
        rcases hr.cases_head with rfl | ⟨q, hq, hr'⟩
        · exact he
        · have hq2 := h.next_gt _ _ hc hq
          rw [hq] at hf
          exact (ih q (by omega) hq2.2).1 hf r hr'
    · intro hall
      rw [hall c (Reach.refl _)]
      cases hq : env.nextRightPos c with
      | none => rfl
      | some q =>
        have hq2 := h.next_gt _ _ hc hq
        exact (ih q (by omega) hq2.2).2 (fun r hr => hall r (Reach.step hq hr))

/-! ## The loop is `first` -/

/-- What `next_match` returns for a `first` result. -/
def toStep (env : SearchEnv) (x : Nat × Nat × Caps) : MatchR × Option Nat :=
  ({ range := (x.1, x.2.1), captures := x.2.2, names := env.names }, advance env x.1 x.2.1)

theorem prefix_eq_first (h : EnvOK env) (hid : ∀ p, p ≤ env.len → env.findBytes p = some p) :
    ∀ n pos, env.len - pos ≤ n → pos ≤ env.len →
    nextMatchPrefix env pos = (first env pos).map (toStep env) := by
  intro n
  induction n with
  | zero =>
    intro pos hn hp
    rw [nextMatchPrefix_eq h hp, first_eq h hp]
    unfold prefixStep
    rw [hid pos hp]
    simp only
    split
    · rfl
    · split
      · rfl
      · next q hq => have := h.next_gt _ _ hp hq; omega
  | succ n ih =>
    intro pos hn hp
    rw [nextMatchPrefix_eq h hp, first_eq h hp]
    unfold prefixStep
    rw [hid pos hp]
    simp only
    split
    · rfl
    · split
      · rfl
      · next q hq =>
        have := h.next_gt _ _ hp hq
        exact ih q (by omega) (by omega)

/-- The plain scan: `next_match_with_prefix_search` with `bytesearch::EmptyString`. -/
abbrev plainEnv (env : SearchEnv) : SearchEnv := { env with findBytes := some }

theorem orbit_plain (c : Nat) : orbit (plainEnv env) c = orbit env c := by
  unfold orbit
  show orbitFuel (plainEnv env) (env.len + 1) c = _
  generalize env.len + 1 = f
  induction f generalizing c with
  | zero => rfl
  | succ f ih => simp only [orbitFuel]; split <;> simp_all

theorem first_plain (c : Nat) : first (plainEnv env) c = first env c := by
  unfold first; rw [orbit_plain]

theorem plain_eq_first (h : EnvOK env) {pos : Nat} (hp : pos ≤ env.len) :
    nextMatchPrefix (plainEnv env) pos = (first env pos).map (toStep env) :=
  by
  have := prefix_eq_first (env := plainEnv env) h.idFind (fun _ _ => rfl) _ pos (Nat.le_refl _) hp
  rw [first_plain] at this
  exact this

/-- Prefix-search transparency at the level of one `next_match`. -/
theorem prefilter_transparent_aux (h : EnvOK env) (ha : PrefilterAdmissible env) :
    ∀ n pos, env.len - pos ≤ n → pos ≤ env.len →
    nextMatchPrefix env pos = nextMatchPrefix (plainEnv env) pos := by
  intro n
  induction n with
  | zero =>
    intro pos hn hp
    rw [nextMatchPrefix_eq h hp]
    unfold prefixStep
    split
    · next hf =>
      rw [plain_eq_first h hp,
        (first_none_iff h _ pos (Nat.le_refl _) hp).2 (fun r hr => ha.none_skip pos r hp hf hr)]
      rfl
    · next q hf =>
      have hq := h.find_range _ _ hp hf
      have hqq : q = pos := by omega
      subst hqq
      rw [nextMatchPrefix_eq h.idFind hp]
      unfold prefixStep
      simp only
      split
      · rfl
      · split
        · rfl
        · next q' hq' => have := h.next_gt _ _ hp hq'; omega
  | succ n ih =>
    intro pos hn hp
    rw [nextMatchPrefix_eq h hp]
    unfold prefixStep
    split
    · next hf =>
      rw [plain_eq_first h hp,
        (first_none_iff h _ pos (Nat.le_refl _) hp).2 (fun r hr => ha.none_skip pos r hp hf hr)]
      rfl
    · next q hf =>
      have hq := h.find_range _ _ hp hf
      have hskip : nextMatchPrefix (plainEnv env) pos = nextMatchPrefix (plainEnv env) q := by
        rw [plain_eq_first h hp, plain_eq_first h hq.2,
          first_skip h (ha.some_reach pos q hp hf) hp (fun r hr hlt => ha.some_skip pos q r hp hf hr hlt)]
      rw [hskip, nextMatchPrefix_eq h.idFind hq.2]
      unfold prefixStep
      simp only
      split
      · rfl
      · split
        · rfl
        · next q' hq' =>
          have := h.next_gt _ _ hq.2 hq'
          exact ih q' (by omega) (by omega)

/-! ## `collect` is the unfold -/

theorem unfoldFuel_none (fuel : Nat) : unfoldFuel env fuel none = [] := by
  cases fuel <;> rfl

theorem collectFuel_eq_unfoldFuel (h : EnvOK env) (k : Kind)
    (hk : ∀ pos, pos ≤ env.len → nextMatch env k pos = (first env pos).map (toStep env)) :
    ∀ fuel c, c ≤ env.len →
    Matches.collectFuel env k fuel ⟨some c⟩ = unfoldFuel env fuel (some c) := by
  intro fuel
  induction fuel with
  | zero => intro c _; rfl
  | succ f ih =>
    intro c hc
    rw [collectFuel_succ_some]
    have hm := hk c hc
    unfold unfoldFuel
    cases hf : first env c with
    | none => rw [hf] at hm; simp [hm]
    | some x =>
      obtain ⟨s, e, caps⟩ := x
      rw [hf] at hm
      simp only [Option.map_some, toStep] at hm
      rw [hm]
      simp only
      have r := nextMatch_inv h k hc hm
      cases hns : advance env s e with
      | none => rw [collectFuel_none, unfoldFuel_none]
      | some c' =>
        have : env.nextStart s e = some c' := hns
        have := nextStart_inv h r.wf r.hi this
        rw [ih c' this.1]

end Regress.C09
