import Proofs.Lemmas.KeystoneMain
import Proofs.Lemmas.KeystoneEmit
/-!
# Keystone, part 8: a whole program

The root of the IR of a regex is `Cat [body, Goal]` (or what the optimizer makes of it: a flat `Cat`
ending in `Goal`, a lone `Goal`, or — when the whole pattern can never match — a node without
`Goal`).  `rootOK` accepts exactly these shapes, with `kok` for everything before the final `Goal`.
-/
namespace Regress.Keystone

open Regress.VM Regress.VM.Pk Regress.IR Regress.Gen
open Regress.VM.Bt (LoopData GroupData)

mutual
/-- `Goal` occurs only as the very last thing the node does (or not at all). -/
def rootOK : Node → Bool
  | .goal => true
  | .cat ns => rootOKList ns
  | .empty => true
  | .char _ => true
  | .byteSeq _ => true
  | .byteSet _ => true
  | .charSet _ => true
  | .alt l r => kok (.alt l r)
  | .matchAny => true
  | .matchAnyExceptLT => true
  | .anchor _ _ => true
  | .wordBoundary _ _ => true
  | .group id nm c => kok (.group id nm c)
  | .backRef g i => kok (.backRef g i)
  | .bracket _ => true
  | .stringSet a i => kok (.stringSet a i)
  | .look n b s e c => kok (.look n b s e c)
  | .loop b q g0 g1 => kok (.loop b q g0 g1)
  | .loop1 b q => kok (.loop1 b q)
def rootOKList : List Node → Bool
  | [] => true
  | n :: ns => if ns.isEmpty then rootOK n else kok n && rootOKList ns
end

section
variable {prog : Prog} {inp : Input} {limit : Nat} {cs : List Nat}

/-- A result at the end of the program: sitting on a `Goal`, or past the code of the root. -/
def OutT (prog : Prog) (e : Nat) (r : St) (t : State) : Prop :=
  Rel r t ∧ (At prog.insns t.ip .goal ∨ t.ip = e)

/-- The conclusion of the keystone lemma for the root node. -/
def FragT (prog : Prog) (inp : Input) (limit : Nat) (cs : List Nat) (sems : St → List St) (fwd : Bool)
    (b e : Nat) : Prop :=
  ∀ (s : State) (σ : St), Rel σ s → Good cs σ → s.ip = b →
    ∀ (rest : Array State) (sf steps peak : Nat),
      Fine (runStates prog inp limit sf (rest.push s) fwd steps peak) →
      Tries prog inp limit fwd (OutT prog e) rest (sems σ)
        (runStates prog inp limit sf (rest.push s) fwd steps peak)

theorem fragT_of_frag {n : Node} {fwd : Bool} {b e l : Nat} (h : Frag prog inp limit cs n fwd b e l) :
    FragT prog inp limit cs (sem inp n fwd) fwd b e := by
  intro s σ hrel hgood hip rest sf steps peak hf
  exact Tries.mono (fun r t hp => ⟨hp.1, Or.inr hp.2.1⟩) (h s σ hrel hgood hip rest sf steps peak hf)

mutual
theorem fragT_node (ht : Utf8Text inp cs) (uni : Bool) (huni : uni = inp.unicode) :
    ∀ (n : Node) (fwd : Bool) (b e l : Nat), rootOK n = true → WF n → numLoops n ≤ 65536 →
      Code prog.insns prog.brackets uni n (!fwd) b e l → FragT prog inp limit cs (sem inp n fwd) fwd b e
  | .goal, fwd, b, e, l, _, _, _, hc => by
    simp only [Code] at hc
    intro s σ hrel _ hip rest sf steps peak _
    simp only [sem]
    exact Tries.single ⟨hrel, Or.inl (by rw [hip]; exact hc.1)⟩ rfl
  | .cat ns, fwd, b, e, l, hk, hw, hn, hc => by
    simp only [Code] at hc; simp only [rootOK] at hk; simp only [WF] at hw; simp only [numLoops] at hn
    have := fragT_list ht uni huni ns fwd b e l hk hw hn hc
    intro s σ hrel hgood hip rest sf steps peak hf
    simp only [sem]
    exact this s σ hrel hgood hip rest sf steps peak hf
  | .empty, fwd, b, e, l, _, hw, hn, hc => fragT_of_frag (frag_node ht uni huni _ fwd b e l (by simp [kok]) hw hn hc)
  | .char _, fwd, b, e, l, _, hw, hn, hc => fragT_of_frag (frag_node ht uni huni _ fwd b e l (by simp [kok]) hw hn hc)
  | .byteSeq _, fwd, b, e, l, _, hw, hn, hc => fragT_of_frag (frag_node ht uni huni _ fwd b e l (by simp [kok]) hw hn hc)
  | .byteSet _, fwd, b, e, l, _, hw, hn, hc => fragT_of_frag (frag_node ht uni huni _ fwd b e l (by simp [kok]) hw hn hc)
  | .charSet _, fwd, b, e, l, _, hw, hn, hc => fragT_of_frag (frag_node ht uni huni _ fwd b e l (by simp [kok]) hw hn hc)
  | .alt _ _, fwd, b, e, l, hk, hw, hn, hc => fragT_of_frag (frag_node ht uni huni _ fwd b e l (by simpa [rootOK] using hk) hw hn hc)
  | .matchAny, fwd, b, e, l, _, hw, hn, hc => fragT_of_frag (frag_node ht uni huni _ fwd b e l (by simp [kok]) hw hn hc)
  | .matchAnyExceptLT, fwd, b, e, l, _, hw, hn, hc => fragT_of_frag (frag_node ht uni huni _ fwd b e l (by simp [kok]) hw hn hc)
  | .anchor _ _, fwd, b, e, l, _, hw, hn, hc => fragT_of_frag (frag_node ht uni huni _ fwd b e l (by simp [kok]) hw hn hc)
  | .wordBoundary _ _, fwd, b, e, l, _, hw, hn, hc => fragT_of_frag (frag_node ht uni huni _ fwd b e l (by simp [kok]) hw hn hc)
  | .group _ _ _, fwd, b, e, l, hk, hw, hn, hc => fragT_of_frag (frag_node ht uni huni _ fwd b e l (by simpa [rootOK] using hk) hw hn hc)
  | .backRef _ _, fwd, b, e, l, hk, hw, hn, hc => fragT_of_frag (frag_node ht uni huni _ fwd b e l (by simpa [rootOK] using hk) hw hn hc)
  | .bracket _, fwd, b, e, l, _, hw, hn, hc => fragT_of_frag (frag_node ht uni huni _ fwd b e l (by simp [kok]) hw hn hc)
  | .stringSet _ _, fwd, b, e, l, hk, hw, hn, hc => fragT_of_frag (frag_node ht uni huni _ fwd b e l (by simpa [rootOK] using hk) hw hn hc)
  | .look _ _ _ _ _, fwd, b, e, l, hk, hw, hn, hc => fragT_of_frag (frag_node ht uni huni _ fwd b e l (by simpa [rootOK] using hk) hw hn hc)
  | .loop _ _ _ _, fwd, b, e, l, hk, hw, hn, hc => fragT_of_frag (frag_node ht uni huni _ fwd b e l (by simpa [rootOK] using hk) hw hn hc)
  | .loop1 _ _, fwd, b, e, l, hk, hw, hn, hc => fragT_of_frag (frag_node ht uni huni _ fwd b e l (by simpa [rootOK] using hk) hw hn hc)
theorem fragT_list (ht : Utf8Text inp cs) (uni : Bool) (huni : uni = inp.unicode) :
    ∀ (ns : List Node) (fwd : Bool) (b e l : Nat), rootOKList ns = true → WFList ns →
      numLoopsList ns ≤ 65536 → CodeList prog.insns prog.brackets uni ns (!fwd) b e l →
      FragT prog inp limit cs (semCat inp ns fwd) fwd b e
  | [], fwd, b, e, l, _, _, _, hc => by
    simp only [CodeList] at hc
    intro s σ hrel _ hip rest sf steps peak _
    simp only [semCat]
    exact Tries.single ⟨hrel, Or.inr (by rw [hip, hc])⟩ rfl
  | n :: ns, fwd, b, e, l, hk, hw, hnl, hc => by
    simp only [CodeList] at hc; simp only [WFList] at hw; simp only [numLoopsList] at hnl
    obtain ⟨m, hn, hns⟩ := hc
    cases ns with
    | nil =>
      simp only [rootOKList, List.isEmpty_nil, if_true] at hk
      simp only [CodeList] at hns; subst hns
      have := fragT_node ht uni huni n fwd b _ l hk hw.1 (by omega) hn
      intro s σ hrel hgood hip rest sf steps peak hf
      simp only [semCat]
      rw [flatMap_singleton']
      exact this s σ hrel hgood hip rest sf steps peak hf
    | cons n' ns' =>
      simp only [rootOKList, List.isEmpty_cons, Bool.false_eq_true, if_false, Bool.and_eq_true] at hk
      have h1 := frag_node (limit := limit) ht uni huni n fwd b m l hk.1 hw.1 (by omega) hn
      have h2 := fragT_list ht uni huni (n' :: ns') fwd m e _ hk.2 hw.2 (by omega) hns
      intro s σ hrel hgood hip rest sf steps peak hf
      simp only [semCat]
      have t1 := Tries.and_mem (G := Good cs) (fun r hr => sem_good ht n fwd σ r hw.1 hgood hr)
        (h1 s σ hrel hgood hip rest sf steps peak hf)
      refine Tries.bind (fun r t hp rest' sf' steps' peak' hf' => ?_) hf t1
      obtain ⟨⟨hr, hip', _⟩, hg⟩ := hp
      have := h2 t r hr hg hip' rest' sf' steps' peak' hf'
      simpa only [semCat] using this
end

/-! ## `emit` -/

theorem emit_code {r : Regex} {prog : Prog} (he : emit r = .ok prog) :
    Code prog.insns prog.brackets r.flags.unicode r.node false 0 prog.insns.size 0 ∧
      prog.groups = numGroups r.node % 4294967296 := by
  unfold emit emitWith at he
  split at he
  · cases he
  · split at he
    · cases he
    · rename_i s hs
      cases he
      have := emitNode_spec r.node _ s hs
      refine ⟨this.2.2 0 rfl, ?_⟩
      have := this.2.1.groups 0 rfl
      simpa using this

/-! ## One attempt -/

theorem attempt_sem {r : Regex} {prog : Prog} {inp : Input} {cs : List Nat} {p : Nat}
    (he : emit r = .ok prog) (hu : r.flags.unicode = inp.unicode) (hroot : rootOK r.node = true) (hw : WF r.node)
    (hng : numGroups r.node < 4294967296) (hnl : numLoops r.node ≤ 65536)
    (ht : Utf8Text inp cs) (hb : AtBoundary cs p) (fuel : Nat)
    (hf : Fine (Pk.attempt prog inp fuel p)) :
    match sem inp r.node true (initSt r.node p) with
    | [] => ∃ steps peak, Pk.attempt prog inp fuel p = .failed steps peak
    | σ :: _ => ∃ st steps peak, Pk.attempt prog inp fuel p = .matched σ.pos st steps peak ∧ Rel σ st := by
  obtain ⟨hcode, hgroups⟩ := emit_code he
  rw [Nat.mod_eq_of_lt hng] at hgroups
  have hrel : Rel (initSt r.node p) (initState prog p p) := by
    refine ⟨rfl, ?_, rfl⟩
    simp [capsOfState, initState, initSt, hgroups, capOf]
  have hgood := Regress.C03.good_initSt cs r.node hb
  have hrun : Pk.attempt prog inp fuel p =
      runStates prog inp fuel (fuel + 1) ((#[] : Array State).push (initState prog p p)) true 0 0 := rfl
  rw [hrun] at hf ⊢
  have := fragT_node (limit := fuel) ht r.flags.unicode hu r.node true 0 prog.insns.size 0 hroot hw hnl hcode
    (initState prog p p) (initSt r.node p) hrel hgood rfl #[] (fuel + 1) 0 0 hf
  cases hsem : sem inp r.node true (initSt r.node p) with
  | nil =>
    rw [hsem] at this
    obtain ⟨sf, steps, peak, ho⟩ := this
    rw [ho] at hf ⊢
    exact ⟨steps, peak, fine_empty prog inp fuel hf⟩
  | cons σ rs =>
    rw [hsem] at this
    obtain ⟨pend, sf, steps, peak, t, ⟨hrt, hip⟩, ho, _⟩ := this
    rw [ho] at hf ⊢
    obtain ⟨sf', rfl, hstep⟩ := fine_step prog inp fuel hf
    rw [hstep] at hf ⊢
    rcases hip with hgoal | hend
    · unfold tryMatchState at hf ⊢
      unfold At at hgoal
      rw [hgoal] at hf ⊢
      exact ⟨t, _, _, by rw [← hrt.pos]; rfl, hrt⟩
    · exfalso
      unfold tryMatchState at hf
      rw [hend, Array.getElem?_eq_none (Nat.le_refl _)] at hf
      exact hf

/-- `attempt_sem` in terms of `firstMatch`. -/
theorem attempt_first {r : Regex} {prog : Prog} {inp : Input} {cs : List Nat} {p : Nat}
    (he : emit r = .ok prog) (hu : r.flags.unicode = inp.unicode) (hroot : rootOK r.node = true) (hw : WF r.node)
    (hng : numGroups r.node < 4294967296) (hnl : numLoops r.node ≤ 65536)
    (ht : Utf8Text inp cs) (hb : AtBoundary cs p) (fuel : Nat)
    (hf : Fine (Pk.attempt prog inp fuel p)) :
    match firstMatch inp r.node p with
    | none => ∃ steps peak, Pk.attempt prog inp fuel p = .failed steps peak
    | some σ => ∃ st steps peak, Pk.attempt prog inp fuel p = .matched σ.pos st steps peak ∧
        capsOfState st = σ.caps := by
  have := attempt_sem he hu hroot hw hng hnl ht hb fuel hf
  unfold firstMatch
  cases hs : sem inp r.node true (initSt r.node p) with
  | nil => rw [hs] at this; exact this
  | cons σ rs =>
    rw [hs] at this
    obtain ⟨st, steps, peak, h1, h2⟩ := this
    exact ⟨st, steps, peak, h1, h2.caps⟩

end

end Regress.Keystone
